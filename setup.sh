#!/bin/sh
# Build the framework from files on disk only (offline): Go harness + extractor against /repo,
# regenerated facts, the whole Lean project (model, proofs, property theorems, model driver).
set -e
cd "$(dirname "$0")"
export GOFLAGS=-mod=mod GOPROXY=off
mkdir -p out/bin evidence
cp /repo/go.sum go/harness/go.sum
(cd go/harness && go build -tags verif -o ../../out/bin/harness .)
(cd go/extract && go build -o ../../out/bin/extract .)
out/bin/extract /repo out/fingerprints.json > lean/GabiModel/Generated.lean.new
if ! cmp -s lean/GabiModel/Generated.lean.new lean/GabiModel/Generated.lean; then
  mv lean/GabiModel/Generated.lean.new lean/GabiModel/Generated.lean
else
  rm lean/GabiModel/Generated.lean.new
fi
(cd lean && lake build)
echo setup ok
