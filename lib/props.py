# Per-property configuration of the check driver.
COMMON_ASSUME = [
    "the Lean model is hand-written; its tie to /repo is the correspondence run of this check (same op lines through real code and model) plus the regenerated GabiModel/Generated.lean",
]
CRYPTO_ASSUME = ["cryptographic conclusions rest on hypotheses that appear as explicit premises of the theorems (strong RSA / CL unforgeability, no known discrete-log relation among the public bases, SHA-256 collision resistance as an explicit collision disjunct, Fiat-Shamir forking); Lean proves the unconditional core (completeness algebra, special soundness, encoder injectivity, decision logic, range arithmetic)"]
PROPS = {
    "C01": {"trusted": ["math/big arithmetic is external (modelled by GabiModel.Num, compared op by op)"], "assumptions": COMMON_ASSUME + CRYPTO_ASSUME},
    "C02": {"trusted": ["encoding/json decoding of proof lists is external; the model's decoder (GabiModel.Decode) is compared on every op"], "assumptions": COMMON_ASSUME + CRYPTO_ASSUME},
    "C03": {"trusted": [], "assumptions": COMMON_ASSUME + CRYPTO_ASSUME},
    "C04": {"trusted": ["crypto/rand is external: randomisers are explicit arguments of the model prover; the op replayD replays the real prover's draws (read through verif hooks) in the model prover and compares the proofs"], "assumptions": COMMON_ASSUME + CRYPTO_ASSUME},
    "C05": {"trusted": ["ProbablyPrime(80) is an oracle (parameter isPrime of the model; executable stand-in: deterministic Miller-Rabin)"], "assumptions": COMMON_ASSUME + CRYPTO_ASSUME},
    "C06": {"trusted": ["crypto/rand draws are explicit arguments of the model (Prover.lean); the holder-side state of ConstructCredential is injected through the verif hook VerifNewCredentialBuilder"], "assumptions": COMMON_ASSUME + CRYPTO_ASSUME},
    "C09": {"trusted": ["ECDSA signatures and CBOR are external: a signed accumulator is modelled as (content, key counter, signature-valid flag)"], "assumptions": COMMON_ASSUME + CRYPTO_ASSUME},
    "C10": {"trusted": ["ECDSA / CBOR / multihash library / base64 are external; the harness computes an independent view of every signed blob (crypto/ecdsa + cbor directly) and its own event hash"], "assumptions": COMMON_ASSUME + CRYPTO_ASSUME},
    "C11": {"trusted": ["ECDSA / CBOR external (independent signature views computed by the harness)", "Go map iteration order is a parameter of the model: the model lists the verdicts for every order"], "assumptions": COMMON_ASSUME + CRYPTO_ASSUME},
    "C12": {"trusted": [], "assumptions": COMMON_ASSUME + CRYPTO_ASSUME},
    "C13": {"trusted": ["the randomised four-square splitter is checked, not proved (op sum4 of C19 and every proof built here)"], "assumptions": COMMON_ASSUME + CRYPTO_ASSUME},
    "C14": {"trusted": ["the CBOR encoding of the keyshare challenge input is external (treated as an injective encoding)"], "assumptions": COMMON_ASSUME + CRYPTO_ASSUME},
    "C07": {"trusted": ["crypto/rand and AES-CTR outputs being fresh is an assumption; C20 covers the block counter"], "assumptions": COMMON_ASSUME + CRYPTO_ASSUME},
    "C18": {
        "trusted": [
            "encoding/xml, encoding/json, fxamacker/cbor, encoding/base64 and strconv are external; their agreement with the Lean codec model (GabiModel.Serial: base64, decimal text, CBOR byte strings, key documents as element lists) is what the int-*/key-* ops test",
            "the harness's renderer/reader between abstract key documents and XML text (go/harness/c18.go renderDoc/docFromXML)",
            "x509 parsing of the ECDSA revocation key is an oracle of the key-document model (Env.ecdsaOk)",
            "POSIX open(2)/fchmod(2)/umask semantics are explicit assumptions of GabiModel.Serial.FilePerm, compared with the running kernel by the filemode op",
        ],
        "assumptions": COMMON_ASSUME + [
            "whole-message round trips (msg-roundtrip) are checked by running the real verifier before and after the real codec; the Lean side contributes the field codecs (integers, base64, decimal) and the compressed event list, not a model of every message type",
        ],
    },
    "C08": {"trusted": ["encoding/json is external; the model decoder is compared with it on every structural mutant"], "assumptions": COMMON_ASSUME},
    "C19": {
        "trusted": ["math/big (GCD, Exp, ModInverse, ModSqrt, ProbablyPrime) is external; ProbablyPrime is an oracle assumed correct (the model uses deterministic Miller-Rabin on the tested inputs)",
                    "the randomised inner routine sumFourSquaresSpecial is not proved: its postcondition is checked by the op sum4 on every call (exhaustively for small n)"],
        "assumptions": COMMON_ASSUME,
    },
    "C15": {
        "trusted": ["encoding/asn1 and crypto/sha256 are external; their agreement with the Lean reference (GabiModel.Der, GabiModel.Sha256) is what the correspondence ops test"],
        "assumptions": COMMON_ASSUME + ["SHA-256 collision resistance appears only as an explicit collision disjunct in the theorems"],
    },
    "C16": {
        "trusted": [
            "primality inside the predicate is decided by the model's deterministic Miller-Rabin (20 bases) on the Lean side and by math/big ProbablyPrime on the Go side; the theorems take primality as a hypothesis",
            "crypto/ecdsa, crypto/x509 (revocation key generation and encoding) are external; the Lean P-256 scalar multiplication re-derives the public point from the private scalar",
            "runtime.NumGoroutine as the observation of workers still running; the labelled transition system Gabi.Conc.SafePrimeWorkers is a hand-written model of GenerateConcurrent and its consumer",
        ],
        "assumptions": COMMON_ASSUME + [
            "Generate(bitsize, stopped) always returns (the candidate search finds a safe prime or observes `stopped` within 1000 iterations); the error path (failing crypto/rand) is not modelled",
            "termination of the search for a matching pair is probabilistic (each candidate passes the filters with constant probability) and is observed, not proved",
        ],
    },
    "C17": {
        "trusted": [
            "SCOPE (partial claim): the theorems cover (1) the component proofs (four Gennaro proofs, representation proof, range proof arithmetic, OR-composition, Fiat-Shamir input) and (2) the STRUCTURE (wiring) of the composed proof tree: GabiModel/KeyProofTree.lean mirrors NewValidKeyProofStructure and the constructors of primeproof.go, exp.go, expstep*.go, multiplicationproof.go, additionproof.go, pedersen.go, issquareproof.go field by field (names, bit lengths, range limits, every Lhs/Rhs contribution); the ref op kp-structure (and kp-substructure, kp-structure-full) compares a canonical dump of the real structure values (hook keyproof/verif_export_c17b.go) with the model's, and GabiProps/C17Tree.lean proves about the model which statement the tree wires together (both prime proofs, p=2p'+1, q=2q'+1, pq=N, one square claim per base; soundness of the wiring under the ideal reading: relations read in the exponent of g over the integers). The TRAVERSAL of the tree (commitmentsFromSecrets/commitmentsFromProof/buildProof of exp.go, primeproof.go, issquareproof.go, top of validkeyproof.go) is NOT modelled: whole-proof ops (kp-verify, kp-alter, kp-build-verify) are checked against by-construction labels only (the Lean side answers with the specification verdict); the representation agenproof/agenrange that primeproof.go builds on the fly from the hash of the prea commitment is not part of the stored structure and is not covered by kp-structure. That a structure is a VALUE (VerifyProof/BuildProof do not change it, one structure serves proofs under different group primes; the Exp helpers of the base lookups leave the caller's integers alone) is checked by kp-verify-reused-structure (child process; dump before and after every step) and the component op group-exp",
            "the ideal reading of the structure tree (GabiProofs/KeyProofTree.lean: holds) takes the AND/OR composition of the sub-proofs from the code by inspection (OR: the two branches of an exponentiation step, aPlus1ResRep/aMin1ResRep) and reads relations over the integers; that accepted proofs make the relations hold over the integers (special soundness, range proofs, group size) is not proved",
            "the dump hook walks the unexported structure fields with explicit field-by-field code (a field added to a structure later is not dumped until the hook is extended)",
            "statistical soundness bounds of the component proofs are not proved; 'reject' labels on bad moduli rely on them (error <= 2^-80 at the sizes generated)",
            "primality in the model (ProbablyPrime, safe-prime tests) is an executable Miller-Rabin oracle",
            "hooks keyproof/verif_export_c17.go export the unexported component functions; VerifChallengeSegments re-assembles the hash input with the package's own commitmentsFromProof functions and is tied to BuildProof by the challenge equality it is checked with",
        ],
        "assumptions": COMMON_ASSUME + [
            "proof integers are non-negative (big.Int JSON decoding refuses negative numbers); the range proof's size limit is one-sided in the code",
            "SHA-256 collision resistance enters through property C15 only",
        ],
    },
    "C20": {
        "race": True,
        "trusted": [
            "the Go race detector (happens-before, ThreadSanitizer runtime) and the Go memory model",
            "the access lists of the synchronisation skeletons in GabiModel/Conc/HB.lean (hand-written; every race-detector report is mapped to a skeleton object, an unlisted access shows up as `race unlisted[...]`)",
            "the real verifier / key checks inside the harness child decide validity of concurrently produced proofs and keys (no Lean proof verifier is involved)",
        ],
        "assumptions": COMMON_ASSUME + [
            "PARTIAL: theorems quantify over all schedules of the modelled transition systems; that a skeleton lists all shared accesses of the real code is supported by the -race correspondence run only",
            "no uint64 wrap of the CPRNG block counter (c0 + total blocks < 2^64) and no uint32 wrap of the exp-proof todo counter (stated as hypotheses)",
            "AES-CTR / crypto/rand outputs are fresh; only the block counter discipline is modelled",
        ],
    },
}

# Batteries whose ops are independent of each other (only decl-* lines carry state) run in
# parallel shards; timing-, scheduler- and order-sensitive batteries (C07, C14, C16, C17, C20) do not.
for _p in ("C01", "C02", "C03", "C04", "C05", "C06", "C08", "C09", "C10", "C11", "C12", "C13", "C15", "C18", "C19"):
    PROPS[_p]["shards"] = 8

# C14 runs its requests in one server process on purpose: a replay carries the preceding requests
PROPS["C14"]["replay_context"] = 60
