# Per-property configuration of the check driver.
COMMON_ASSUME = [
    "the Lean model is hand-written; its tie to /repo is the correspondence run of this check (same op lines through real code and model) plus the regenerated GabiModel/Generated.lean",
]
PROPS = {
    "C19": {
        "trusted": ["math/big (GCD, Exp, ModInverse, ModSqrt, ProbablyPrime) is external; ProbablyPrime is an oracle assumed correct (the model uses deterministic Miller-Rabin on the tested inputs)",
                    "the randomised inner routine sumFourSquaresSpecial is not proved: its postcondition is checked by the op sum4 on every call (exhaustively for small n)"],
        "assumptions": COMMON_ASSUME,
    },
    "C15": {
        "trusted": ["encoding/asn1 and crypto/sha256 are external; their agreement with the Lean reference (GabiModel.Der, GabiModel.Sha256) is what the correspondence ops test"],
        "assumptions": COMMON_ASSUME + ["SHA-256 collision resistance appears only as an explicit collision disjunct in the theorems"],
    },
}
