#!/usr/bin/env python3
"""register.py C01 C02 … — move properties from not_applicable to checks in MANIFEST.json."""
import json, sys, subprocess
m = json.load(open('/verif/MANIFEST.json'))
partial = {"C07", "C16", "C17", "C20"}
for pid in sys.argv[1:]:
    if not any(c['property_id'] == pid for c in m['checks']):
        txt = "Lean 4 theorems about an executable model of the anchored code, tied to /repo by a correspondence run on every check"
        if pid in partial:
            txt += " (partial scope: see DESIGN.md section 3 " + pid + " for what is modelled but not proved)"
        m['checks'].append({
            "property_id": pid, "quick_cmd": f"./check {pid} --tier quick", "thorough_cmd": f"./check {pid} --tier thorough",
            "evidence_file": f"/verif/evidence/{pid}.json", "replay_cmd_template": f"./check {pid} --replay {{path}}",
            "engine": "lean-model+correspondence",
            "level_claimed": {"category": "proof", "text": txt, "design_ref": "DESIGN.md section 3 " + pid},
            "level_note": "trusted: Lean kernel, axioms propext/Classical.choice/Quot.sound, harness+extractor; see evidence.trusted_base",
            "technique": "Lean 4 proof + model/implementation correspondence"})
    m['not_applicable'] = [x for x in m['not_applicable'] if x['property_id'] != pid]
    m['engines'][0]['serves_properties'] = sorted(set(m['engines'][0]['serves_properties']) | {pid})
m['checks'].sort(key=lambda c: c['property_id'])
hooks = subprocess.run(['git', '-C', '/repo', 'log', '--format=%h %s'], capture_output=True, text=True).stdout.splitlines()
m['hooks']['source_commits'] = [l.split()[0] for l in hooks if l.split(' ', 1)[1].startswith('verif hooks')]
json.dump(m, open('/verif/MANIFEST.json', 'w'), indent=1)
print("claimed:", [c['property_id'] for c in m['checks']])
