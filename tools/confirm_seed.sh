#!/bin/sh
# confirm_seed.sh <worktree> <id> — confirm a seeded change delivered by a sub-agent in its scratch
# worktree: library builds, existing tests pass with the change, the demo test fails with the
# change and passes without it. On success copy patch.diff, the demo and meta.json to /verif/seeded/<id>/.
WT=$1; ID=$2
export GOFLAGS=-mod=mod GOPROXY=off
cd $WT || exit 2
DEMO=$(find . -name seeded_demo_test.go | head -1)
[ -f patch.diff ] && [ -n "$DEMO" ] || { echo "$ID: deliverables missing"; exit 1; }
PKG=./$(dirname $DEMO)
R="$ID:"
go build ./... 2>/dev/null && R="$R build=ok" || R="$R build=FAIL"
if go test -vet=off -count=1 -skip '^TestSeededDemo$' ./... >/tmp/confirm_$ID.suite 2>&1; then R="$R suite=pass"; else R="$R suite=FAIL"; fi
if go test -vet=off -count=1 -run '^TestSeededDemo$' $PKG >/tmp/confirm_$ID.with 2>&1; then R="$R demo-with-patch=PASS(bad)"; else R="$R demo-with-patch=fails"; fi
# without the patch (the demo test file stays)
git apply -R patch.diff 2>/dev/null || { R="$R (patch does not reverse)"; echo "$R"; exit 1; }
if go test -vet=off -count=1 -run '^TestSeededDemo$' $PKG >/tmp/confirm_$ID.without 2>&1; then R="$R demo-without-patch=passes"; else R="$R demo-without-patch=FAILS(bad)"; fi
git apply patch.diff
echo "$R"
case "$R" in *"build=ok suite=pass demo-with-patch=fails demo-without-patch=passes"*)
  mkdir -p /verif/seeded/$ID && cp patch.diff /verif/seeded/$ID/ && cp $DEMO /verif/seeded/$ID/seeded_demo_test.go.txt && cp meta.json /verif/seeded/$ID/meta.agent.json 2>/dev/null
  echo "$DEMO" > /verif/seeded/$ID/demo_path.txt;;
esac
