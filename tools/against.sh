#!/bin/sh
# against.sh <git-rev-of-/repo> <property-id> [seed] — run a property's labelled battery against
# another revision of /repo (scratch worktree under /tmp, removed afterwards) and summarise
# label violations. Used to show that the battery re-finds a defect on the tree before its fix.
set -e
REV=$1; PID=$2; SEED=${3:-1}
export GOFLAGS=-mod=mod GOPROXY=off
WT=/tmp/against_$$
git -C /repo worktree add -q --detach $WT/repo $REV
# hooks (build tag verif) are add-only files: take them from the current tree
(cd /repo && find . -name 'verif_export*.go' | while read f; do cp "$f" "$WT/repo/$f"; done)
mkdir -p $WT/h && cp /verif/go/harness/*.go $WT/h/ && cp -r /verif/go/harness/testdata $WT/h/
sed "s#=> /repo#=> $WT/repo#" /verif/go/harness/go.mod > $WT/h/go.mod && cp $WT/repo/go.sum $WT/h/
(cd $WT/h && go build -tags verif -o $WT/harness .)
$WT/harness gen -prop $PID -seed $SEED -out $WT/ops
$WT/harness exec < $WT/ops > $WT/go.out
python3 - $WT <<'PY'
import json,sys
from collections import Counter
wt=sys.argv[1]
ops=[json.loads(l) for l in open(wt+'/ops')]
go=open(wt+'/go.out').read().split('\n')
c=Counter()
for o,g in zip(ops,go):
    lab=o.get('label')
    if lab and not all(x in lab.split('|') for x in g.split(' ')[0].split('|')):
        c[(o.get('fkey',o['class']),lab,g.split(' ')[0])]+=1
print("label violations:", sum(c.values()))
for k,v in sorted(c.items()): print("  class=%s label=%s impl=%s  x%d"%(k+(v,)))
PY
git -C /repo worktree remove --force $WT/repo; rm -rf $WT
