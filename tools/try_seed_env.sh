#!/bin/sh
# try_seed_env.sh <patch.diff> <property-id>... — like try_seed.sh, but in a scratch copy of /verif
# and /repo under /tmp/tryenv (refreshed from the committed state on every call), so that it can run
# while other checks use /repo. The copy is left in place for the next call.
PATCH=$1; shift
E=${TRYENV:-/tmp/tryenv}
mkdir -p $E
if [ -z "$NOSYNC" ]; then   # NOSYNC=1: keep the copy made by an earlier call (a frozen snapshot)
rsync -a --delete --exclude out --exclude .git --exclude .lake /verif/ $E/verif/
rsync -a /verif/lean/.lake/ $E/verif/lean/.lake/ 2>/dev/null
rsync -a --delete /repo/ $E/repo/
sed -i "s#=> /repo#=> $E/repo#" $E/verif/go/harness/go.mod
fi
cd $E/repo || exit 2
git checkout -q -- . 2>/dev/null
[ "$PATCH" = none ] || git apply "$PATCH" || { echo "patch does not apply"; exit 2; }
for P in "$@"; do
  echo "== $P with $(basename $(dirname $PATCH))"
  (cd $E/verif && VERIF_REPO=$E/repo ./check $P --tier ${TIER:-quick} 2>/dev/null | grep -E "^VIOLATION|^KNOWN|quick:|thorough:|ERROR" | cut -c1-220)
done
git checkout -q -- .
