#!/bin/sh
# seed_sweep.sh — apply every seeded change (seeded/*/patch.diff) in the scratch environment and run
# the check of its property (quick tier); prints one line per seed: caught / MISSED / does-not-apply.
# the scratch copy is made once, before the first seed: edits made while the sweep runs stay out
/verif/tools/try_seed_env.sh none >/dev/null 2>&1
export NOSYNC=1
for d in /verif/seeded/*/; do
  id=$(basename $d)
  P=$(python3 -c "import json;print(json.load(open('$d/meta.json'))['property'])" 2>/dev/null)
  [ -n "$P" ] || { echo "$id: no meta"; continue; }
  out=$(/verif/tools/try_seed_env.sh $d/patch.diff $P 2>&1)
  if echo "$out" | grep -q "does not apply"; then echo "$id ($P): patch does not apply"; continue; fi
  if echo "$out" | grep -q "^VIOLATION"; then
    kind=$(echo "$out" | grep "^VIOLATION" | head -1 | grep -q "no-failing-input-found" && echo "caught (obligation only)" || echo "caught (input)")
    echo "$id ($P): $kind"
  else
    echo "$id ($P): MISSED  $(echo "$out" | tail -1 | cut -c1-120)"
  fi
done
