#!/bin/sh
# try_seed.sh <patch.diff> <property-id>... — apply a seeded change to /repo, run the given checks
# (quick tier), print their verdict lines, and undo the change straight afterwards.
PATCH=$1; shift
cd /repo || exit 2
if ! git diff --quiet; then echo "/repo has uncommitted changes; refusing"; exit 2; fi
git apply "$PATCH" || { echo "patch does not apply"; exit 2; }
for P in "$@"; do
  echo "== $P with $(basename $(dirname $PATCH))"
  (cd /verif && ./check $P --tier ${TIER:-quick} 2>/dev/null | grep -E "^VIOLATION|^KNOWN|quick:|thorough:|ERROR" | cut -c1-220)
done
git -C /repo checkout -- . 
git -C /repo status --short | grep -v '^??' | head -3
