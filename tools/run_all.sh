#!/bin/sh
# run_all.sh [quick|thorough] — run every check registered in MANIFEST.json on the current tree.
TIER=${1:-quick}
cd /verif
for P in $(python3 -c "import json;print(' '.join(c['property_id'] for c in json.load(open('MANIFEST.json'))['checks']))"); do
  ./check $P --tier $TIER 2>/dev/null | grep -E "^VIOLATION|^KNOWN|^ERROR|$TIER:" | cut -c1-180
done
