package keyproof

// Demonstration of a wrap-around (modulo the group order) in the "bases are squares" part of the
// key-correctness proof.
//
// isSquareProof shows, in the exponent of a prime-order group of order Q = (GroupPrime-1)/2, that
//
//	s = r*r - k*N   (mod Q)
//
// with range proofs r, k < 2^(|N|+rangeProofEpsilon+2). GroupPrime has only
// |N| + 2*rangeProofEpsilon + 10 bits, so r*r and k*N may be far larger than Q and the relation
// modulo Q does not imply the relation over the integers. A prover knowing p, q can therefore take
// any s (in particular a quadratic NON-residue modulo N), pick j with s + j*Q a square modulo N,
// take an integer r >= sqrt(s + j*Q) with r*r = s + j*Q (mod N), and k = (r*r - s - j*Q)/N. Then
// r*r - k*N = s + j*Q = s (mod Q), and r, k ~ sqrt(j*Q) are well inside the proven ranges.
//
// Tests:
//   - TestIssqWraparoundSubProof: demonstration at sub-proof level (isSquareProofStructure verifier
//     path of issquareproof_test.go). Passes as long as the sub-protocol is run in a group of
//     |N|+2*eps+10 bits, i.e. it documents the arithmetic.
//   - TestIssqWraparoundWholeProof: soundness regression at ValidKeyProof level. FAILS on the
//     unrepaired code (VerifyProof accepts a key whose base is a non-residue), passes once
//     VerifyProof insists on a group that is large enough.
//   - TestIssqWraparoundLargeGroup: soundness regression: in a group of 2|N|+2*eps+10 bits the same
//     construction must be stopped by the range proofs.

import (
	"encoding/json"
	"fmt"
	"strings"
	"testing"

	"github.com/privacybydesign/gabi/big"
	"github.com/privacybydesign/gabi/internal/common"
	"github.com/privacybydesign/gabi/zkproof"
	"github.com/stretchr/testify/require"
)

// A fixed, well-formed key: p, q safe primes of 64 bits with CanProve(p', q') == true.
const (
	issqP = "14562107448035582999"
	issqQ = "16684964264902964363"
	// A 650 = 128 + 2*256 + 10 bit safe prime, as produced by findSafePrime(650): exactly the size
	// BuildProof picks and VerifyProof demands for a 128 bit modulus.
	issqGroupPrime = "4400718131083424996295925803007800914866590266971844513370921205262311194633710769458258600218793822564172408056306778704587649445873862915145648924286382054396260169088941295074239064841875114403"
)

func issqInt(s string) *big.Int {
	r, ok := new(big.Int).SetString(s, 10)
	if !ok {
		panic("bad constant")
	}
	return r
}

type issqKey struct {
	p, q, pprime, qprime, n *big.Int
}

func issqTestKey(t *testing.T) issqKey {
	k := issqKey{p: issqInt(issqP), q: issqInt(issqQ)}
	k.pprime = new(big.Int).Rsh(k.p, 1)
	k.qprime = new(big.Int).Rsh(k.q, 1)
	k.n = new(big.Int).Mul(k.p, k.q)
	require.True(t, CanProve(k.pprime, k.qprime), "test key is not a provable key")
	return k
}

// issqNonResidue returns the smallest s >= start with Legendre symbols (s|p) = lp and (s|q) = lq.
func issqNonResidue(k issqKey, start int64, lp, lq int) *big.Int {
	for s := big.NewInt(start); ; s.Add(s, big.NewInt(1)) {
		if common.LegendreSymbol(s, k.p) == lp && common.LegendreSymbol(s, k.q) == lq {
			return s
		}
	}
}

// issqForge finds (j, r, k) with j >= jStart, r*r - k*N = s + j*order over the integers, r, k >= 0,
// r minimal above sqrt(s + j*order).
func issqForge(key issqKey, s, order, jStart *big.Int) (j, r, k *big.Int) {
	one := big.NewInt(1)
	for j = new(big.Int).Set(jStart); ; j.Add(j, one) {
		v := new(big.Int).Add(s, new(big.Int).Mul(j, order))
		if common.LegendreSymbol(v, key.p) != 1 || common.LegendreSymbol(v, key.q) != 1 {
			continue
		}
		r0, ok := common.ModSqrt(v, []*big.Int{key.p, key.q})
		if !ok {
			continue
		}
		// lo = ceil(sqrt(v))
		lo := new(big.Int).Sqrt(v)
		if new(big.Int).Mul(lo, lo).Cmp(v) < 0 {
			lo.Add(lo, one)
		}
		// r = r0 + t*N >= lo, t minimal
		r = new(big.Int).Set(r0)
		if r.Cmp(lo) < 0 {
			diff := new(big.Int).Sub(lo, r0)
			tt := new(big.Int).Add(diff, new(big.Int).Sub(key.n, one))
			tt.Div(tt, key.n)
			r.Add(r, new(big.Int).Mul(tt, key.n))
		}
		num := new(big.Int).Sub(new(big.Int).Mul(r, r), v)
		rem := new(big.Int)
		k = new(big.Int)
		k.DivMod(num, key.n, rem)
		if rem.Sign() != 0 || k.Sign() < 0 {
			panic("forge arithmetic broken")
		}
		return j, r, k
	}
}

// issqMulCommit is multiplicationProofStructure.commitmentsFromSecrets with the quotient supplied
// by the caller instead of being computed as floor((m1*m2 - result)/mod).
func issqMulCommit(s *multiplicationProofStructure, g zkproof.Group, list []*big.Int, bases zkproof.BaseLookup, secretdata zkproof.SecretLookup, quotient *big.Int) ([]*big.Int, multiplicationProofCommit) {
	var commit multiplicationProofCommit

	list, commit.modMultPedersen = s.modMultPedersen.commitmentsFromSecrets(g, list, quotient)
	commit.hider = newSecret(g, strings.Join([]string{s.myname, "hider"}, "_"), new(big.Int).Mod(
		new(big.Int).Add(
			new(big.Int).Sub(
				secretdata.Secret(strings.Join([]string{s.result, "hider"}, "_")),
				new(big.Int).Mul(
					secretdata.Secret(s.m1),
					secretdata.Secret(strings.Join([]string{s.m2, "hider"}, "_")))),
			new(big.Int).Mul(
				quotient,
				secretdata.Secret(strings.Join([]string{s.mod, "hider"}, "_")))),
		g.Order))

	secrets := zkproof.NewSecretMerge(&commit.hider, &commit.modMultPedersen, secretdata)
	list = s.multRepresentation.CommitmentsFromSecrets(g, list, bases, &secrets)
	list, commit.rangeCommit = s.modMultRange.commitmentsFromSecrets(g, list, bases, &secrets)
	return list, commit
}

// issqCommit is isSquareProofStructure.commitmentsFromSecrets with roots and quotients supplied by
// the caller (the original computes the roots with ModSqrt and panics for a non-residue). All
// sub-structures, commitment order, names and provers are the package's own.
func issqCommit(s *isSquareProofStructure, g zkproof.Group, list []*big.Int, roots, quotients []*big.Int) ([]*big.Int, isSquareProofCommit) {
	commit := isSquareProofCommit{
		squares:         make([]pedersenCommit, len(s.squares)),
		roots:           make([]pedersenCommit, len(s.squares)),
		rootRangeCommit: make([]rangeCommit, len(s.squares)),
		rootValidCommit: make([]multiplicationProofCommit, len(s.squares)),
	}

	for i, val := range s.squares {
		list, commit.squares[i] = s.squaresPedersen[i].commitmentsFromSecrets(g, list, val)
	}
	for i := range s.squares {
		list, commit.roots[i] = s.rootsRep[i].commitmentsFromSecrets(g, list, roots[i])
	}
	list, commit.n = s.nPedersen.commitmentsFromSecrets(g, list, s.n)

	var baseList []zkproof.BaseLookup
	var secretList []zkproof.SecretLookup
	for i := range commit.squares {
		baseList = append(baseList, &commit.squares[i])
		secretList = append(secretList, &commit.squares[i])
	}
	for i := range commit.roots {
		baseList = append(baseList, &commit.roots[i])
		secretList = append(secretList, &commit.roots[i])
	}
	baseList = append(baseList, &commit.n)
	secretList = append(secretList, &commit.n)
	baseList = append(baseList, &g)
	bases := zkproof.NewBaseMerge(baseList...)
	secrets := zkproof.NewSecretMerge(secretList...)

	list = append(list, s.n)
	list = append(list, s.squares...)

	list = s.nRep.CommitmentsFromSecrets(g, list, &bases, &secrets)
	for i := range s.squaresRep {
		list = s.squaresRep[i].CommitmentsFromSecrets(g, list, &bases, &secrets)
	}
	for i := range s.rootsRange {
		list, commit.rootRangeCommit[i] = s.rootsRange[i].commitmentsFromSecrets(g, list, &bases, &secrets)
	}
	for i := range s.rootsValid {
		list, commit.rootValidCommit[i] = issqMulCommit(&s.rootsValid[i], g, list, &bases, &secrets, quotients[i])
	}
	return list, commit
}

// issqRangeResultsSigns returns (min, max) over all range-secret results of the proof.
func issqRangeResultBounds(s *isSquareProofStructure, proof IsSquareProof) (min, max *big.Int) {
	upd := func(v *big.Int) {
		if min == nil || v.Cmp(min) < 0 {
			min = v
		}
		if max == nil || v.Cmp(max) > 0 {
			max = v
		}
	}
	for i := range s.squares {
		for _, v := range proof.RootsRangeProof[i].Results[s.rootsRange[i].rangeSecret] {
			upd(v)
		}
		for _, v := range proof.RootsValidProof[i].RangeProof.Results[s.rootsValid[i].modMultRange.rangeSecret] {
			upd(v)
		}
	}
	return
}

func issqEqualLists(a, b []*big.Int) bool {
	if len(a) != len(b) {
		return false
	}
	for i := range a {
		if a[i].Cmp(b[i]) != 0 {
			return false
		}
	}
	return true
}

// issqSubProof builds an isSquareProof for the single base s from the given (r, k) and runs the
// package's verifier path for the sub-proof. Returns (structure ok, commitments agree).
func issqSubProof(g zkproof.Group, n, s, r, k *big.Int) (structOK, listOK bool, proof IsSquareProof, st isSquareProofStructure) {
	st = newIsSquareProofStructure(n, []*big.Int{s})
	listSecret, commit := issqCommit(&st, g, []*big.Int{}, []*big.Int{r}, []*big.Int{k})
	// Fiat-Shamir challenge over the commitments, as the enclosing proof would do.
	challenge := common.HashCommit(listSecret, false)
	proof = st.buildProof(g, challenge, commit)
	structOK = st.verifyProofStructure(proof)
	listProof := st.commitmentsFromProof(g, []*big.Int{}, challenge, proof)
	listOK = issqEqualLists(listSecret, listProof) &&
		challenge.Cmp(common.HashCommit(listProof, false)) == 0
	return
}

func TestIssqWraparoundSubProof(t *testing.T) {
	key := issqTestKey(t)
	gp := issqInt(issqGroupPrime)
	require.Equal(t, key.n.BitLen()+2*rangeProofEpsilon+10, gp.BitLen(), "group prime is not of the prescribed size")
	g, gok := zkproof.BuildGroup(gp)
	require.True(t, gok)
	nbits := key.n.BitLen()
	t.Logf("N = %v (%d bits), p = %v, q = %v", key.n, nbits, key.p, key.q)
	t.Logf("group prime: %d bits, order Q: %d bits", gp.BitLen(), g.Order.BitLen())
	t.Logf("range verifier limit for r and k: result < 2^%d; honest secrets < 2^%d", nbits+rangeProofEpsilon+2, nbits)

	classes := []struct {
		name   string
		lp, lq int
	}{
		{"non-residue mod p and mod q (Jacobi +1)", -1, -1},
		{"non-residue mod p only (Jacobi -1)", -1, 1},
		{"non-residue mod q only (Jacobi -1)", 1, -1},
	}
	jStarts := []*big.Int{big.NewInt(1), new(big.Int).Lsh(big.NewInt(1), 100)}

	for _, cl := range classes {
		s := issqNonResidue(key, 2, cl.lp, cl.lq)
		_, isSq := common.ModSqrt(s, []*big.Int{key.p, key.q})
		require.False(t, isSq, "s must be a non-residue")

		// Control: the package's prover refuses (panics) for this base.
		func() {
			defer func() {
				require.NotNil(t, recover(), "package prover did not panic on a non-residue")
			}()
			st := newIsSquareProofStructure(key.n, []*big.Int{s})
			st.commitmentsFromSecrets(g, []*big.Int{}, key.p, key.q)
		}()

		// Control: without wrap-around (j = 0, r arbitrary, k = floor((r*r-s)/N)) the verifier rejects.
		{
			r := big.NewInt(123456789)
			k := new(big.Int).Div(new(big.Int).Sub(new(big.Int).Mul(r, r), s), key.n)
			structOK, listOK, _, _ := issqSubProof(g, key.n, s, r, k)
			require.True(t, structOK)
			require.False(t, listOK, "verifier accepted a bogus root: verifier path is vacuous")
		}

		for _, jStart := range jStarts {
			j, r, k := issqForge(key, s, g.Order, jStart)
			// integer identity r^2 - k N = s + j Q
			lhs := new(big.Int).Sub(new(big.Int).Mul(r, r), new(big.Int).Mul(k, key.n))
			rhs := new(big.Int).Add(s, new(big.Int).Mul(j, g.Order))
			require.Zero(t, lhs.Cmp(rhs))
			require.True(t, r.BitLen() <= nbits+rangeProofEpsilon, "r too large for the stock range prover")
			require.True(t, k.BitLen() <= nbits+rangeProofEpsilon, "k too large for the stock range prover")

			structOK, listOK, proof, st := issqSubProof(g, key.n, s, r, k)
			min, max := issqRangeResultBounds(&st, proof)
			t.Logf("s = %v [%s]: j = %v (%d bits), r: %d bits, k: %d bits; range results in [2^%d, 2^%d); structure ok = %v, commitments/hash agree = %v",
				s, cl.name, j, j.BitLen(), r.BitLen(), k.BitLen(), min.BitLen()-1, max.BitLen(), structOK, listOK)
			require.True(t, min.Sign() >= 0, "forged proof relies on negative range results")
			require.True(t, structOK && listOK,
				"forged isSquare sub-proof rejected in a group of |N|+2*eps+10 bits (demonstration expected acceptance)")
		}
	}
	t.Logf("RESULT: isSquare sub-proofs for quadratic NON-residues verify in a group of the prescribed size")
}

// issqBuildValidKeyProof is ValidKeyProofStructure.BuildProof with (a) the group prime supplied by
// the caller and (b) the basesValid commitments produced by issqCommit from forged roots/quotients.
// Everything else, including the Fiat-Shamir challenge over all commitments, is as in BuildProof.
func issqBuildValidKeyProof(s *ValidKeyProofStructure, key issqKey, GroupPrime *big.Int, forge func(g zkproof.Group) (roots, quotients []*big.Int)) ValidKeyProof {
	g, gok := zkproof.BuildGroup(GroupPrime)
	if !gok {
		panic("bad group prime")
	}
	Pprime, Qprime := key.pprime, key.qprime
	P, Q := key.p, key.q

	list, PprimeSecret := s.pprime.commitmentsFromSecrets(g, nil, Pprime)
	list, QprimeSecret := s.qprime.commitmentsFromSecrets(g, list, Qprime)
	list, PSecret := s.p.commitmentsFromSecrets(g, list, P)
	list, QSecret := s.q.commitmentsFromSecrets(g, list, Q)

	PQNRel := newSecret(g, "pqnrel", new(big.Int).Mod(new(big.Int).Mul(PSecret.hider.secretv, QSecret.secretv.secretv), g.Order))

	bases := zkproof.NewBaseMerge(&g, &PSecret, &QSecret, &PprimeSecret, &QprimeSecret)
	secrets := zkproof.NewSecretMerge(&PSecret, &QSecret, &PprimeSecret, &QprimeSecret, &PQNRel)

	var PprimeIsPrimeCommit primeProofCommit
	var QprimeIsPrimeCommit primeProofCommit
	var QSPPcommit quasiSafePrimeProductCommit
	var BasesValidCommit isSquareProofCommit
	list = append(list, GroupPrime)
	list = append(list, s.n)
	list = s.pPprimeRel.CommitmentsFromSecrets(g, list, &bases, &secrets)
	list = s.qQprimeRel.CommitmentsFromSecrets(g, list, &bases, &secrets)
	list = s.pQNRel.CommitmentsFromSecrets(g, list, &bases, &secrets)
	list, PprimeIsPrimeCommit = s.pprimeIsPrime.commitmentsFromSecrets(g, list, &bases, &secrets)
	list, QprimeIsPrimeCommit = s.qprimeIsPrime.commitmentsFromSecrets(g, list, &bases, &secrets)
	list, QSPPcommit = quasiSafePrimeProductBuildCommitments(list, Pprime, Qprime)
	roots, quotients := forge(g)
	list, BasesValidCommit = issqCommit(&s.basesValid, g, list, roots, quotients) // <-- the only change

	challenge := common.HashCommit(list, false)

	return ValidKeyProof{
		GroupPrime:         GroupPrime,
		PQNRel:             PQNRel.buildProof(g, challenge),
		PProof:             s.p.buildProof(g, challenge, PSecret),
		QProof:             s.q.buildProof(g, challenge, QSecret),
		PprimeProof:        s.pprime.buildProof(g, challenge, PprimeSecret),
		QprimeProof:        s.qprime.buildProof(g, challenge, QprimeSecret),
		Challenge:          challenge,
		PprimeIsPrimeProof: s.pprimeIsPrime.buildProof(g, challenge, PprimeIsPrimeCommit, &secrets),
		QprimeIsPrimeProof: s.qprimeIsPrime.buildProof(g, challenge, QprimeIsPrimeCommit, &secrets),
		QSPPproof:          quasiSafePrimeProductBuildProof(Pprime, Qprime, challenge, QSPPcommit),
		BasesValidProof:    s.basesValid.buildProof(g, challenge, BasesValidCommit),
	}
}

func TestIssqWraparoundWholeProof(t *testing.T) {
	key := issqTestKey(t)
	gp := issqInt(issqGroupPrime)

	// Bases as in a real key: one honest square and two non-residues (one with Jacobi symbol +1,
	// which cannot be told from a square without the factorisation, one with Jacobi symbol -1).
	sGood := big.NewInt(36)
	sBadJ1 := issqNonResidue(key, 2, -1, -1)
	sBadJm1 := issqNonResidue(key, 2, -1, 1)
	basesList := []*big.Int{sGood, sBadJ1, sBadJm1}
	for _, s := range basesList[1:] {
		_, isSq := common.ModSqrt(s, []*big.Int{key.p, key.q})
		require.False(t, isSq)
	}
	require.Equal(t, 1, big.Jacobi(sBadJ1, key.n))
	require.Equal(t, -1, big.Jacobi(sBadJm1, key.n))

	s := NewValidKeyProofStructure(key.n, basesList)

	// Control: the stock prover cannot do this.
	func() {
		defer func() {
			require.NotNil(t, recover(), "BuildProof did not panic on a non-residue base")
		}()
		st := newIsSquareProofStructure(key.n, basesList)
		g, _ := zkproof.BuildGroup(gp)
		st.commitmentsFromSecrets(g, nil, key.p, key.q)
	}()

	groups := []struct {
		name string
		gp   *big.Int
	}{
		// the size BuildProof picks and VerifyProof asks for in the unrepaired code
		{"|N|+2*eps+10 bits", gp},
		// a group that is large enough for r*r and k*N: here the forger needs r > 2^(|N|+eps+2), so
		// acceptance can only come from the range proof not enforcing its bounds
		{"2|N|+2*eps+10 bits", findSafePrime(2*key.n.BitLen() + 2*rangeProofEpsilon + 10)},
	}
	for _, grp := range groups {
		var desc []string
		proof := issqBuildValidKeyProof(&s, key, grp.gp, func(g zkproof.Group) (roots, quotients []*big.Int) {
			for _, b := range basesList {
				if root, ok := common.ModSqrt(b, []*big.Int{key.p, key.q}); ok {
					// honest base: honest root and quotient
					roots = append(roots, root)
					quotients = append(quotients, new(big.Int).Div(new(big.Int).Sub(new(big.Int).Mul(root, root), b), key.n))
					desc = append(desc, fmt.Sprintf("s=%v honest", b))
					continue
				}
				j, r, k := issqForge(key, b, g.Order, big.NewInt(1))
				roots = append(roots, r)
				quotients = append(quotients, k)
				desc = append(desc, fmt.Sprintf("s=%v FORGED j=%v |r|=%d |k|=%d", b, j, r.BitLen(), k.BitLen()))
			}
			return
		})
		t.Logf("[group %s] N = %v (%d bits); group prime %d bits; bases: %s", grp.name, key.n, key.n.BitLen(), grp.gp.BitLen(), strings.Join(desc, "; "))

		accepted := s.VerifyProof(proof)
		t.Logf("[group %s] VerifyProof(forged proof, bases %v) = %v", grp.name, basesList, accepted)

		// Same over the wire format (which cannot carry negative numbers).
		acceptedJSON := false
		proofJSON, err := json.Marshal(proof)
		if err != nil {
			t.Logf("[group %s] forged proof cannot be serialised: %v", grp.name, err)
		} else {
			var proofAfter ValidKeyProof
			require.NoError(t, json.Unmarshal(proofJSON, &proofAfter))
			acceptedJSON = s.VerifyProof(proofAfter)
			t.Logf("[group %s] VerifyProof(forged proof after JSON round trip, %d bytes) = %v", grp.name, len(proofJSON), acceptedJSON)
		}

		if accepted || acceptedJSON {
			t.Errorf("[group %s] SOUNDNESS GAP CONFIRMED: VerifyProof accepts (in memory: %v, after JSON: %v) a key-correctness proof for N=%v with bases %v and %v, which are quadratic NON-residues modulo N",
				grp.name, accepted, acceptedJSON, key.n, sBadJ1, sBadJm1)
		}
	}
}

// In a group that is large enough for the products (2|N| + 2*eps + 10 bits), the same
// construction needs r >= sqrt(Q) > 2^(|N|+eps+2), which a range proof with both bounds enforced
// rejects.
func TestIssqWraparoundLargeGroup(t *testing.T) {
	key := issqTestKey(t)
	nbits := key.n.BitLen()
	gp := findSafePrime(2*nbits + 2*rangeProofEpsilon + 10)
	g, gok := zkproof.BuildGroup(gp)
	require.True(t, gok)

	s := issqNonResidue(key, 2, -1, -1)
	j, r, k := issqForge(key, s, g.Order, big.NewInt(1))
	t.Logf("group prime %d bits: j = %v, |r| = %d bits (range verifier limit 2^%d), |k| = %d bits", gp.BitLen(), j, r.BitLen(), nbits+rangeProofEpsilon+2, k.BitLen())
	require.True(t, r.BitLen() > nbits+rangeProofEpsilon+2)

	structOK, listOK, proof, st := issqSubProof(g, key.n, s, r, k)
	min, _ := issqRangeResultBounds(&st, proof)
	t.Logf("structure ok = %v, commitments agree = %v, smallest range result negative = %v", structOK, listOK, min.Sign() < 0)
	if structOK && listOK {
		t.Errorf("forged isSquare sub-proof accepted even in a %d bit group: range proof does not enforce a lower bound on its results (smallest result has sign %d)", gp.BitLen(), min.Sign())
	}
}

// At real key sizes the forged r and k are even below 2^|N|, i.e. inside the range that an honest
// prover's secrets live in: tightening the range proofs alone cannot repair the gap. The modulus is
// the 1024 bit test key of gabi_test.go; the group is the one BuildProof would choose
// (findSafePrime(1024+522) = 2^1567 - 3309).
func TestIssqWraparoundRealKeySize(t *testing.T) {
	key := issqKey{
		p: issqInt("12511561644521105216249960315425509848310543851123625148071038103672749250653050780946327920540373585150518830678888836864183842100121288018131086700947919"),
		q: issqInt("13175754961224278923898419496296790582860213842149399404614891067426616055648139811854869087421318470521236911637912285993998784296429335994419545592486183"),
	}
	key.n = new(big.Int).Mul(key.p, key.q)
	nbits := key.n.BitLen()
	require.Equal(t, 1024, nbits)
	gp := findSafePrime(nbits + 2*rangeProofEpsilon + 10)
	g, gok := zkproof.BuildGroup(gp)
	require.True(t, gok)

	s := issqNonResidue(key, 2, -1, -1)
	_, isSq := common.ModSqrt(s, []*big.Int{key.p, key.q})
	require.False(t, isSq)
	j, r, k := issqForge(key, s, g.Order, big.NewInt(1))
	structOK, listOK, _, _ := issqSubProof(g, key.n, s, r, k)
	t.Logf("|N| = %d, group prime %d bits, s = %v (Jacobi %d, non-residue), j = %v, |r| = %d bits, |k| = %d bits (both < 2^|N|: %v); structure ok = %v, commitments/hash agree = %v",
		nbits, gp.BitLen(), s, big.Jacobi(s, key.n), j, r.BitLen(), k.BitLen(), r.BitLen() <= nbits && k.BitLen() <= nbits, structOK, listOK)
	require.True(t, r.BitLen() <= nbits && k.BitLen() <= nbits)
	require.True(t, structOK && listOK, "forged isSquare sub-proof rejected (demonstration expected acceptance)")
}
