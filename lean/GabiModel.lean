import GabiModel.Num
import GabiModel.Sha256
import GabiModel.Der
import GabiModel.HashTool
import GabiModel.Generated
import GabiModel.MathUtil
