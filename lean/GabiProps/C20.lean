/-
  C20 — Concurrent use is safe (PARTIAL; also carries the cache-linearity part reused by C07).

  What is proved here holds for ALL schedules of small labelled transition systems whose steps
  are exactly the synchronisation operations of the source:
    * Cprng       – internal/common/fastrandom.go CPRNG.Read (atomic.AddUint64 + local loop);
    * NonrevCache – credential.go nonrevConsumeBuilder / NonrevPrepareCache (1-buffered channel,
                    non-blocking receive / send);
    * ExpWorkers  – keyproof/exp.go worker pools (atomic todo counter, per-closure list slots);
    * HB          – happens-before over synchronisation skeletons of the shareable objects.
  NOT proved (outside the model): that a skeleton lists all shared accesses of the real code, and
  the Go memory model itself. The `-race` correspondence run of `./check C20` supports the former.
  Property theorems only; helper lemmas live in GabiProofs.Conc*.
-/
import GabiProofs.ConcCprng
import GabiProofs.ConcNonrevCache
import GabiProofs.ConcExpWorkers
import GabiProofs.ConcSkeletons
import GabiProofs.ConcSched
namespace Gabi.C20
open Gabi.Conc

/-! ## the fast random generator -/

/-- The number of blocks a `Read` reserves covers the requested bytes with less than one block
    of slack. -/
theorem cprng_nBlocks_covers (len : Nat) (h : 0 < len) :
    16 * (Cprng.nBlocks len - 1) < len ∧ len ≤ 16 * Cprng.nBlocks len :=
  Cprng.nBlocks_covers len h

/-- A read that obtained `iv` from the atomic add encrypts exactly the counter blocks
    iv, …, iv + nBlocks − 1 (its own reservation), filling exactly `len` bytes, at most 16 per block. -/
theorem cprng_read_uses_only_own_blocks (iv len : Nat) (hl : 0 < len) (h : iv + Cprng.nBlocks len ≤ Cprng.W) :
    (Cprng.loop iv len).map (·.1) = List.range' iv (Cprng.nBlocks len) ∧
    ((Cprng.loop iv len).map (·.2)).sum = len ∧ ∀ x ∈ Cprng.loop iv len, 0 < x.2 ∧ x.2 ≤ 16 :=
  ⟨Cprng.loop_blocks iv len hl h, Cprng.loop_bytes iv len⟩

/-- For every list of reads and every order in which their atomic adds execute (no uint64 wrap):
    the reservations `(iv, nBlocks)` are pairwise disjoint – each ends before every later one
    starts – lie in [c, c + total) and the final counter is c + total. -/
theorem cprng_blocks_disjoint (c : Nat) (lens : List Nat) (h : c + Cprng.total lens < Cprng.W) :
    (Cprng.run c lens).2 = c + Cprng.total lens ∧
    List.Pairwise (fun a b => a.1 + a.2 ≤ b.1) (Cprng.run c lens).1 ∧
    (∀ x ∈ (Cprng.run c lens).1, c ≤ x.1 ∧ x.1 + x.2 ≤ c + Cprng.total lens) :=
  Cprng.run_contiguous c lens h

/-- … and they are contiguous: the k-th add returns c + (blocks reserved by the adds before it). -/
theorem cprng_blocks_contiguous (c : Nat) (lens : List Nat) (h : c + Cprng.total lens < Cprng.W) :
    (Cprng.run c lens).1 = (List.range lens.length).map (fun k => (c + Cprng.total (lens.take k),
      if lens.getD k 0 = 0 then 0 else Cprng.nBlocks (lens.getD k 0))) :=
  Cprng.run_ivs c lens h

/-- Fine-grained system: for EVERY interleaving of {atomic add, encrypt one block} steps of any
    number of callers, no counter block is ever encrypted twice, so the generator never hands the
    same keystream block to two callers (nor twice to one). -/
theorem cprng_keystream_block_never_shared (c0 : Nat) (lens sched : List Nat) (h : c0 + Cprng.total lens < Cprng.W) :
    ((Cprng.exec (Cprng.init c0 lens) sched).log.map (·.2)).Nodup ∧
    ∀ i j b, (i, b) ∈ (Cprng.exec (Cprng.init c0 lens) sched).log →
             (j, b) ∈ (Cprng.exec (Cprng.init c0 lens) sched).log → i = j :=
  ⟨Cprng.exec_log_nodup c0 lens sched h, fun i j b hi hj => Cprng.exec_log_owner c0 lens sched h i j b hi hj⟩

/-- All blocks used lie in [c0, counter); the counter never exceeds c0 + total. -/
theorem cprng_blocks_below_counter (c0 : Nat) (lens sched : List Nat) (h : c0 + Cprng.total lens < Cprng.W) :
    (Cprng.exec (Cprng.init c0 lens) sched).counter ≤ c0 + Cprng.total lens ∧
    ∀ x ∈ (Cprng.exec (Cprng.init c0 lens) sched).log,
      c0 ≤ x.2 ∧ x.2 < (Cprng.exec (Cprng.init c0 lens) sched).counter :=
  Cprng.exec_log_range c0 lens sched h

/-- the no-wrap hypothesis is satisfiable: 2^40 reads of 200 bytes starting from 0. -/
example : 0 + 2 ^ 40 * Cprng.nBlocks 200 < Cprng.W := by decide

/-! ## the non-revocation builder cache (also used by C07) -/

/-- `builder_linear`: for EVERY schedule (arbitrary interleaving of arbitrarily many Prepare and
    Consume operations, first-time preparation racing with consumers, failing updates), in the
    reached state the channel holds at most one builder and every builder created so far is in
    exactly one place among {channel, owned by one running operation, consumed by one finished
    Consume, discarded}; builders not yet created are nowhere. -/
theorem builder_linear (ls : List NonrevCache.Label) :
    (NonrevCache.exec {} ls).chan.length ≤ NonrevCache.cap ∧
    ∀ b, NonrevCache.places (NonrevCache.exec {} ls) b = if b < (NonrevCache.exec {} ls).supply then 1 else 0 :=
  NonrevCache.builder_linear ls

/-- A prepared non-revocation commitment is consumed by at most one proof. -/
theorem builder_consumed_at_most_once (ls : List NonrevCache.Label) (i j b : Nat)
    (hi : NonrevCache.consumedBy (NonrevCache.exec {} ls) i b)
    (hj : NonrevCache.consumedBy (NonrevCache.exec {} ls) j b) : i = j :=
  NonrevCache.no_double_consume ls i j b hi hj

/-- A consumed builder is not in the cache any more, was not discarded and is held by no other
    operation – it cannot reach a second proof later either (`builder_result_stable`). -/
theorem builder_consumed_exclusive (ls : List NonrevCache.Label) (i b : Nat)
    (hi : NonrevCache.consumedBy (NonrevCache.exec {} ls) i b) :
    b ∉ (NonrevCache.exec {} ls).chan ∧ b ∉ (NonrevCache.exec {} ls).discarded ∧
    ∀ j op, j ≠ i → (NonrevCache.exec {} ls).ops[j]? = some op → op.pc.holds b = 0 :=
  NonrevCache.consumed_exclusive ls i b hi

/-- A finished operation never changes again. -/
theorem builder_result_stable (s : NonrevCache.St) (l : NonrevCache.Label) (i : Nat) (k : NonrevCache.Kind)
    (r : Option Nat) (h : s.ops[i]? = some { kind := k, pc := .finished r }) :
    (NonrevCache.step s l).ops[i]? = some { kind := k, pc := .finished r } :=
  NonrevCache.finished_stable s l i k r h

/-- The cache channel never holds more than one builder. -/
theorem cache_chan_le_one (ls : List NonrevCache.Label) : (NonrevCache.exec {} ls).chan.length ≤ 1 :=
  NonrevCache.chan_le_one ls

/-- The invariant test the model driver evaluates on replayed traces is implied by the invariant. -/
theorem cache_invOk_of_inv (s : NonrevCache.St) (h : NonrevCache.Inv s) : NonrevCache.invOk s = true :=
  NonrevCache.invOk_of_inv s h

/-! ## the exp-proof worker pool -/

/-- Closures registered at different positions write disjoint list slots. -/
theorem exp_slots_disjoint (base : Nat) (sizes : List Nat) (k k' : Nat) (h : k < k') (hk' : k' < sizes.length) :
    (ExpWorkers.slotRange base sizes k).1 + (ExpWorkers.slotRange base sizes k).2 ≤
      (ExpWorkers.slotRange base sizes k').1 :=
  ExpWorkers.slots_disjoint base sizes k k' h hk'

/-- … all inside the list as allocated. -/
theorem exp_slots_in_list (base : Nat) (sizes : List Nat) (k : Nat) (hk : k < sizes.length) :
    base ≤ (ExpWorkers.slotRange base sizes k).1 ∧
    (ExpWorkers.slotRange base sizes k).1 + (ExpWorkers.slotRange base sizes k).2 ≤ base + sizes.sum :=
  ExpWorkers.slots_in_list base sizes k hk

/-- For EVERY schedule of the workers: no closure is run twice, only existing closures are run. -/
theorem exp_closure_run_at_most_once (nTodo nWorkers : Nat) (sched : List Nat) (h : nTodo + nWorkers < ExpWorkers.W32) :
    ((ExpWorkers.exec (ExpWorkers.init nTodo nWorkers) sched).log.map (·.2)).Nodup ∧
    ∀ x ∈ (ExpWorkers.exec (ExpWorkers.init nTodo nWorkers) sched).log, x.2 < nTodo :=
  ExpWorkers.exec_log_nodup nTodo nWorkers sched h

/-- A closure being run is neither finished already nor run by another worker at the same time. -/
theorem exp_closure_exclusive (nTodo nWorkers : Nat) (sched : List Nat) (h : nTodo + nWorkers < ExpWorkers.W32)
    (w k : Nat) (hw : (ExpWorkers.exec (ExpWorkers.init nTodo nWorkers) sched).workers[w]? = some (.working k)) :
    k < nTodo ∧ k ∉ (ExpWorkers.exec (ExpWorkers.init nTodo nWorkers) sched).log.map (·.2) ∧
    ∀ w', w' ≠ w → (ExpWorkers.exec (ExpWorkers.init nTodo nWorkers) sched).workers[w']? ≠ some (.working k) :=
  ExpWorkers.exec_working_fresh nTodo nWorkers sched h w k hw

/-- When all workers have exited (`wg.Wait()` returns) every closure has run: together with the
    above, exactly once – the result list is as complete as a sequential run's. -/
theorem exp_all_closures_run (nTodo nWorkers : Nat) (sched : List Nat) (h : nTodo + nWorkers < ExpWorkers.W32)
    (hw : 0 < nWorkers)
    (hall : ∀ w ∈ (ExpWorkers.exec (ExpWorkers.init nTodo nWorkers) sched).workers, w = ExpWorkers.Worker.exited) :
    ∀ k, k < nTodo → k ∈ (ExpWorkers.exec (ExpWorkers.init nTodo nWorkers) sched).log.map (·.2) :=
  ExpWorkers.exec_complete nTodo nWorkers sched h hw hall

/-! ## happens-before over the synchronisation skeletons -/

open HB in
/-- **Fork–join discipline** (the calculus' main rule): main runs `pre`, starts n goroutines,
    waits for them, runs `post`. If conflicting accesses of different goroutines are always inside
    critical sections of a common mutex, then every execution – any interleaving, any prefix –
    orders every pair of conflicting accesses by happens-before. -/
theorem hb_forkJoin_race_free (pre post : List Act) (body : Nat → List Act) (n : Nat)
    (hpre : ∀ a ∈ pre, a.isTok = false) (hpost : ∀ a ∈ post, a.isTok = false)
    (hbody : ∀ t, ∀ a ∈ body t, a.isTok = false)
    (hcc : ∀ t u, t ≠ u → 1 ≤ t → t ≤ n → 1 ≤ u → u ≤ n → ∀ p q a b,
      (body t)[p]? = some a → (body u)[q]? = some b → conflict a b = true →
      ∃ m, Prot (body t) m p ∧ Prot (body u) m q)
    (e : Exec) (hc : Conforms (forkJoin pre post body n) e) (hw : WF e) : RaceFree e :=
  forkJoin_race_free pre post body n hpre hpost hbody hcc e hc hw

open HB in
/-- `Credential.nonrevCache` field, REPAIRED code (fix_C20_1): any number of goroutines calling
    NonrevPrepareCache (first-time, creating the channel, or not) and nonrevConsumeBuilder in any
    mix `v`: every execution is race free. -/
theorem race_free_nonrevCache_field (v : Nat → Nat) (n : Nat) (e : Exec)
    (hc : Conforms (cacheFieldFixed v n) e) (hw : WF e) : RaceFree e := by
  refine forkJoin_race_free _ _ _ n tokfree_singleton_wr tokfree_singleton_rd
    (fun t => cacheFieldFixedBody_tokfree (v t)) ?_ e hc hw
  intro t u _ _ _ _ _ p q a b ha hb hcf
  refine ⟨0, cacheFieldFixedBody_prot (v t) p a b ha hcf, cacheFieldFixedBody_prot (v u) q b a hb ?_⟩
  cases a <;> cases b <;> simp_all [conflict]

open HB in
/-- The same field in the code AS FOUND (credential.go:199-236) is NOT race free: in this execution
    of two first-time NonrevPrepareCache calls the write of goroutine 1 (`ic.nonrevCache = make…`,
    :215) and the nil check of goroutine 2 (:214) are unordered. -/
theorem nonrevCache_field_as_found_races :
    Conforms (cacheFieldOld (fun _ => 2) 2) racyExec ∧ WF racyExec ∧ ¬ RaceFree racyExec :=
  ⟨conforms_of_conformsB (by decide), racyExec_wf, racyExec_not_raceFree⟩

open HB in
/-- … and likewise a first-time NonrevPrepareCache against a concurrent nonrevConsumeBuilder
    (write :215 vs. the select's read :200). -/
theorem nonrevCache_field_as_found_races_with_consumer :
    Conforms (cacheFieldOld (fun t => if t = 1 then 2 else 0) 2) racyExec ∧ WF racyExec ∧ ¬ RaceFree racyExec :=
  ⟨conforms_of_conformsB (by decide), racyExec_wf, racyExec_not_raceFree⟩

open HB in
/-- `SignedAccumulator.Accumulator`: once set before the object is shared (Accumulator.Sign, or a
    first UnmarshalVerify by the owner) all users take the read-only fast path: race free. -/
theorem race_free_signedAccumulator_initialised (n : Nat) (e : Exec)
    (hc : Conforms (saccInitialised n) e) (hw : WF e) : RaceFree e := by
  refine forkJoin_race_free _ _ _ n tokfree_singleton_wr tokfree_singleton_rd ?_ ?_ e hc hw
  · intro t a ha; simp [saccBody] at ha; simp [ha, Act.isTok]
  · intro t u _ _ _ _ _ p q a b ha hb hcf
    have ha' := List.mem_of_getElem? ha
    have hb' := List.mem_of_getElem? hb
    simp [saccBody] at ha' hb'
    simp [ha', hb', conflict] at hcf

open HB in
/-- A freshly decoded SignedAccumulator shared BEFORE its first verification is not safe: two
    concurrent UnmarshalVerify calls race on the lazy `s.Accumulator = msg` (revocation/api.go:229
    vs :219). Not reached by the uses the property lists (they need the accumulator to be set). -/
theorem signedAccumulator_fresh_races :
    Conforms (saccFresh (fun _ => 1) 2) racyExec ∧ WF racyExec ∧ ¬ RaceFree racyExec :=
  ⟨conforms_of_conformsB (by decide), racyExec_wf, racyExec_not_raceFree⟩

open HB in
/-- `Witness.randomizer`: NewProofCommit only copies the shared witness: race free for any number
    of concurrent provers on one credential. -/
theorem race_free_witness_randomizer (n : Nat) (e : Exec)
    (hc : Conforms (randomizerNow n) e) (hw : WF e) : RaceFree e := by
  refine forkJoin_race_free _ _ _ n tokfree_singleton_wr tokfree_singleton_rd ?_ ?_ e hc hw
  · intro t a ha; simp at ha; simp [ha, Act.isTok]
  · intro t u _ _ _ _ _ p q a b ha hb hcf
    have ha' := List.mem_of_getElem? ha
    have hb' := List.mem_of_getElem? hb
    simp at ha' hb'
    simp [ha', hb', conflict] at hcf

open HB in
/-- The code before gabi#63 (and the mutant that writes the randomizer to the shared witness)
    races: two provers' writes are unordered. -/
theorem witness_randomizer_shared_write_races :
    Conforms (randomizerOld 2) racyExecWW ∧ WF racyExecWW ∧ ¬ RaceFree racyExecWW :=
  ⟨conforms_of_conformsB (by decide), racyExecWW_wf, racyExecWW_not_raceFree⟩

open HB in
/-- `CPRNG`: the counter is only touched by atomic adds after construction, the cipher is only
    read: race free for any number of goroutines performing any number of reads each. -/
theorem race_free_cprng (k : Nat → Nat) (n : Nat) (e : Exec)
    (hc : Conforms (cprngNow k n) e) (hw : WF e) : RaceFree e := by
  refine forkJoin_race_free _ _ _ n ?_ ?_ (fun t => cprngBody_tokfree (k t)) ?_ e hc hw
  · intro a ha; simp at ha; rcases ha with h | h <;> simp [h, Act.isTok]
  · intro a ha; simp at ha; simp [ha, Act.isTok]
  · intro t u _ _ _ _ _ p q a b ha hb hcf
    have := cprngBody_no_conflict (k t) (k u) a b (List.mem_of_getElem? ha) (List.mem_of_getElem? hb)
    rw [this] at hcf; simp at hcf

open HB in
/-- Mutant `c.counter += nBlocks`: races. -/
theorem cprng_plain_increment_races :
    Conforms (cprngPlain (fun _ => 1) 2) racyExecCprng ∧ WF racyExecCprng ∧ ¬ RaceFree racyExecCprng :=
  ⟨conforms_of_conformsB (by decide), racyExecCprng_wf, racyExecCprng_not_raceFree⟩

open HB in
/-- exp-proof list slots: for every assignment of closures to workers in which no closure is
    given to two workers (`exp_closure_run_at_most_once`), the workers' slot writes, main's
    allocation before the `go` statements and main's reads after `wg.Wait()` are race free. -/
theorem race_free_exp_slots (nTodo : Nat) (own : Nat → List Nat) (n : Nat)
    (hown : ∀ t u, t ≠ u → ∀ k ∈ own t, k ∉ own u) (e : Exec)
    (hc : Conforms (expSlots nTodo own n) e) (hw : WF e) : RaceFree e := by
  refine forkJoin_race_free _ _ _ n (expMainPre_tokfree nTodo) (expMainPost_tokfree nTodo)
    (fun t => expWorkerBody_tokfree (own t)) ?_ e hc hw
  intro t u htu _ _ _ _ p q a b ha hb hcf
  have := expWorkerBody_no_conflict (own t) (own u) (hown t u htu) a b
    (List.mem_of_getElem? ha) (List.mem_of_getElem? hb)
  rw [this] at hcf; simp at hcf

open HB in
/-- Hand-over of a prepared builder through the cache channel: what the preparer wrote to the
    builder happens before everything its (single, see `builder_consumed_at_most_once`) receiver
    does with it. -/
theorem race_free_builder_handoff (e : Exec) (hc : Conforms builderHandoff e) (hw : WF e) : RaceFree e :=
  builderHandoff_race_free e hc hw

open HB in
/-- non-vacuity: a complete execution of the repaired skeleton with two first-time preparers. -/
example : Conforms (cacheFieldFixed (fun _ => 2) 2)
    [⟨0, 0, .wr 0⟩, ⟨0, 1, .rel 2⟩, ⟨0, 2, .rel 4⟩, ⟨1, 0, .acq 2⟩, ⟨1, 1, .lock 0⟩, ⟨2, 0, .acq 4⟩,
     ⟨1, 2, .rd 0⟩, ⟨1, 3, .wr 0⟩, ⟨1, 4, .rd 0⟩, ⟨1, 5, .unlock 0⟩, ⟨2, 1, .lock 0⟩, ⟨1, 6, .rel 3⟩,
     ⟨2, 2, .rd 0⟩, ⟨2, 3, .wr 0⟩, ⟨2, 4, .rd 0⟩, ⟨2, 5, .unlock 0⟩, ⟨2, 6, .rel 5⟩,
     ⟨0, 3, .acq 3⟩, ⟨0, 4, .acq 5⟩, ⟨0, 5, .rd 0⟩] ∧
  WF [⟨0, 0, .wr 0⟩, ⟨0, 1, .rel 2⟩, ⟨0, 2, .rel 4⟩, ⟨1, 0, .acq 2⟩, ⟨1, 1, .lock 0⟩, ⟨2, 0, .acq 4⟩,
     ⟨1, 2, .rd 0⟩, ⟨1, 3, .wr 0⟩, ⟨1, 4, .rd 0⟩, ⟨1, 5, .unlock 0⟩, ⟨2, 1, .lock 0⟩, ⟨1, 6, .rel 3⟩,
     ⟨2, 2, .rd 0⟩, ⟨2, 3, .wr 0⟩, ⟨2, 4, .rd 0⟩, ⟨2, 5, .unlock 0⟩, ⟨2, 6, .rel 5⟩,
     ⟨0, 3, .acq 3⟩, ⟨0, 4, .acq 5⟩, ⟨0, 5, .rd 0⟩] :=
  ⟨conforms_of_conformsB (by decide), wf_of_wfB (by decide)⟩

/-! ## the skeletons as transition systems: all schedules -/

open HB in
/-- The transition system of a skeleton (`runS`: a schedule is ANY list of thread ids; the chosen
    thread takes its next step if it is enabled – a mutex is locked only when free and unlocked
    only by its holder, a token is acquired only after its release) produces only executions that
    conform to the skeleton and whose synchronisation objects behaved. So every
    `∀ e, Conforms … e → WF e → RaceFree e` theorem above covers every schedule of `runS`. -/
theorem hb_scheduler_sound (prog : Prog) (n : Nat) (sched : List Nat) :
    Conforms prog (runS prog n sched).trace ∧ WF (runS prog n sched).trace :=
  ⟨(runS_inv prog n sched).conf, (runS_inv prog n sched).wf⟩

open HB in
/-- For ALL schedules of the transition systems of the shareable objects (repaired code), with any
    number of goroutines: every pair of conflicting accesses is ordered by happens-before. -/
theorem race_free_all_schedules (nThreads : Nat) (sched : List Nat) :
    (∀ v n, RaceFree (runS (cacheFieldFixed v n) nThreads sched).trace) ∧
    (∀ n, RaceFree (runS (saccInitialised n) nThreads sched).trace) ∧
    (∀ n, RaceFree (runS (randomizerNow n) nThreads sched).trace) ∧
    (∀ k n, RaceFree (runS (cprngNow k n) nThreads sched).trace) ∧
    (∀ nTodo own n, (∀ t u, t ≠ u → ∀ k ∈ own t, k ∉ own u) →
        RaceFree (runS (expSlots nTodo own n) nThreads sched).trace) ∧
    RaceFree (runS builderHandoff nThreads sched).trace :=
  ⟨fun v n => race_free_nonrevCache_field v n _ (hb_scheduler_sound _ _ _).1 (hb_scheduler_sound _ _ _).2,
   fun n => race_free_signedAccumulator_initialised n _ (hb_scheduler_sound _ _ _).1 (hb_scheduler_sound _ _ _).2,
   fun n => race_free_witness_randomizer n _ (hb_scheduler_sound _ _ _).1 (hb_scheduler_sound _ _ _).2,
   fun k n => race_free_cprng k n _ (hb_scheduler_sound _ _ _).1 (hb_scheduler_sound _ _ _).2,
   fun nTodo own n hown => race_free_exp_slots nTodo own n hown _ (hb_scheduler_sound _ _ _).1 (hb_scheduler_sound _ _ _).2,
   race_free_builder_handoff _ (hb_scheduler_sound _ _ _).1 (hb_scheduler_sound _ _ _).2⟩

open HB in
/-- The racy execution of the code as found is reachable in its transition system: schedule
    main, main, main, goroutine 1 ×3, goroutine 2 ×2. -/
theorem nonrevCache_field_as_found_race_reachable :
    (runS (cacheFieldOld (fun _ => 2) 2) 3 [0, 0, 0, 1, 1, 1, 2, 2]).trace = racyExec ∧
    ¬ RaceFree (runS (cacheFieldOld (fun _ => 2) 2) 3 [0, 0, 0, 1, 1, 1, 2, 2]).trace := by
  have h : (runS (cacheFieldOld (fun _ => 2) 2) 3 [0, 0, 0, 1, 1, 1, 2, 2]).trace = racyExec := by decide
  exact ⟨h, by rw [h]; exact racyExec_not_raceFree⟩

end Gabi.C20
