/-
  C05 — Camenisch–Lysyanskaya signatures: what the issuer signs verifies, randomisation keeps
  validity, the exponent `e` must be a prime in its interval, and one signature fixes the block
  of messages (up to a relation among the bases).

  Property theorems only.  The algebra is `GabiProofs.GroupAlgebra` (arbitrary commutative group,
  A1–A3), transported to the executable model through `GabiProofs.Bridge` (`goExp` = `zpow` in
  `(ZMod n)ˣ`) and `GabiProofs.CLLemmas` (`representToBases`, `clVerifyWith`, `clSignWith`).
-/
import GabiModel.CL
import GabiProofs.CLLemmas
namespace Gabi.C05
open Gabi

/-- C05-2: an exponent outside `[2^(le-1), 2^(le-1) + 2^(le'-1)]` is rejected, whatever the
    rest of the signature is (in particular even when the verification equation holds). -/
theorem e_out_of_interval_rejected (isPrime : Nat → Bool) (pk : PublicKey) (sig : CLSignature)
    (ms : List Int) (h : eInInterval pk.params sig.e = false) :
    clVerifyWith isPrime pk sig ms = .ok false := by
  unfold clVerifyWith
  simp [h]
  rfl

/-- C05-3: an exponent inside the interval that the primality oracle rejects is refused. -/
theorem e_composite_rejected (isPrime : Nat → Bool) (pk : PublicKey) (sig : CLSignature)
    (ms : List Int) (hp : isPrime sig.e.toNat = false) (h : eInInterval pk.params sig.e = true) :
    clVerifyWith isPrime pk sig ms = .ok false := by
  unfold clVerifyWith
  simp [h, hp]
  rfl

/-- the verifier accepts only exponents in the interval that pass the primality oracle. -/
theorem accepted_e (isPrime : Nat → Bool) (pk : PublicKey) (sig : CLSignature) (ms : List Int)
    (h : clVerifyWith isPrime pk sig ms = .ok true) :
    eInInterval pk.params sig.e = true ∧ isPrime sig.e.toNat = true :=
  ⟨(clVerifyWith_ok_true isPrime pk sig ms h).1, (clVerifyWith_ok_true isPrime pk sig ms h).2.1⟩

/-- C05-1: **what the issuer signs verifies.**  `pk.InGroup order` says: `1 < n`, `0 ≤ Z < n`,
    `1 < order`, and `b^order ≡ 1 (mod n)` for `b = S, Z, R_0, …` (for a real key the bases are
    quadratic residues and `order = p'q'`).  `clSignWith … = some sig` contains the existence of
    `d = e⁻¹ mod order` (`common.ModInverse`).  No hypothesis on `v` or on the sign/size of the
    messages is needed (`clSignWith … = some sig` also contains that `RepresentToPublicKey`
    returned no error: no message is negative and longer than `Lm`, so the verifier's guard
    passes as well); `u = 1` (no user commitment). -/
theorem sign_verifies (isPrime : Nat → Bool) (pk : PublicKey) (order : Int) (ms : List Int)
    (v e : Int) (sig : CLSignature) (hk : pk.InGroup order) (hlen : ms.length ≤ pk.r.length)
    (hint : eInInterval pk.params e = true) (hprime : isPrime e.toNat = true)
    (h : clSignWith pk order 1 ms v e = some sig) :
    clVerifyWith isPrime pk sig ms = .ok true := by
  obtain ⟨hn, hz0, hz1, ho, hb⟩ := hk
  obtain ⟨n, hN⟩ : ∃ n : ℕ, pk.n = n := ⟨pk.n.toNat, (Int.toNat_of_nonneg (by omega)).symm⟩
  have hn' : 1 < n := by rw [hN] at hn; exact_mod_cast hn
  have ho0 : 0 < order := by omega
  rw [hN] at hb
  have hs := isUnit_of_goExp_one (by omega : 0 < n) ho0 (hb pk.s (by simp))
  have hz := isUnit_of_goExp_one (by omega : 0 < n) ho0 (hb pk.z (by simp))
  have hr : ∀ b ∈ pk.r, IsUnit (b : ZMod n) := fun b hbr =>
    isUnit_of_goExp_one (by omega : 0 < n) ho0 (hb b (by simp [hbr]))
  obtain ⟨he, hv, hkp, a0, a1, d, k, hd, hac⟩ :=
    clSignWith_spec pk order 1 ms v e hN hn' hz hs hr (by simp) hlen ho h
  have hA := zunit_of_cast hac
  obtain ⟨b, hb1, hb2⟩ := clVerifyWith_iff isPrime pk sig ms hN hn' hz0 hz1 hz hs hr
    (isUnit_of_cast hac) (by rw [hkp]; intro p hp; cases hp) hlen (by rw [he]; exact hint)
    (by rw [he]; exact hprime)
  rw [hb1, hb2.mpr]
  refine ⟨clSignWith_some_guard h, ?_⟩
  rw [hkp, he, hv]
  simp only [keyshareU, mul_one]
  rw [zunit_one, mul_one] at hA
  refine Alg.cl_sign_verifies_of_inverse (ord := order) (k := k) (d := d) rfl ?_ hd hA
  have oS := zunit_pow_order hn' ho0 (hb pk.s (by simp))
  have oZ := zunit_pow_order hn' ho0 (hb pk.z (by simp))
  have oR := repU_zpow_order pk.params.Lm pk.r ms order (fun b hbr =>
    zunit_pow_order hn' ho0 (hb b (by simp [hbr])))
  have oSv : (zunit n pk.s ^ v) ^ order = 1 := by
    rw [← zpow_mul, mul_comm, zpow_mul, oS, one_zpow]
  rw [div_zpow, mul_zpow, oZ, oR, oSv]
  simp

/-- C05-1 (totality): on such a key the signing computation succeeds whenever `e` is invertible
    modulo `order` and no message of the block is negative and longer than `Lm` bits (`hneg`;
    non-negative messages satisfy it: `sign_succeeds_of_nonneg`).  Without `hneg` the statement
    is false: `RepresentToPublicKey` returns its error on such a block and nothing is signed
    (`sign_refuses_negative_oversized`, and the `#guard` below on the toy key: `[3, -256]`). -/
theorem sign_succeeds (pk : PublicKey) (order : Int) (ms : List Int) (v e : Int)
    (hk : pk.InGroup order) (hlen : ms.length ≤ pk.r.length)
    (hneg : ∀ m ∈ ms, ¬ (m < 0 ∧ bitLen m > pk.params.Lm)) (he : Int.gcd e order = 1) :
    ∃ sig, clSignWith pk order 1 ms v e = some sig := by
  obtain ⟨hn, hz0, hz1, ho, hb⟩ := hk
  obtain ⟨n, hN⟩ : ∃ n : ℕ, pk.n = n := ⟨pk.n.toNat, (Int.toNat_of_nonneg (by omega)).symm⟩
  have hn' : 1 < n := by rw [hN] at hn; exact_mod_cast hn
  have ho0 : 0 < order := by omega
  rw [hN] at hb
  exact clSignWith_isSome pk order 1 ms v e hN hn'
    (isUnit_of_goExp_one (by omega : 0 < n) ho0 (hb pk.z (by simp)))
    (isUnit_of_goExp_one (by omega : 0 < n) ho0 (hb pk.s (by simp)))
    (fun b hbr => isUnit_of_goExp_one (by omega : 0 < n) ho0 (hb b (by simp [hbr])))
    (by simp) hlen (any_negOversized_eq_false_iff.mpr hneg) ho0 he

/-- C05-1 (totality) for non-negative messages. -/
theorem sign_succeeds_of_nonneg (pk : PublicKey) (order : Int) (ms : List Int) (v e : Int)
    (hk : pk.InGroup order) (hlen : ms.length ≤ pk.r.length)
    (hnn : ∀ m ∈ ms, 0 ≤ m) (he : Int.gcd e order = 1) :
    ∃ sig, clSignWith pk order 1 ms v e = some sig :=
  sign_succeeds pk order ms v e hk hlen (fun m hm hc => absurd (hnn m hm) (by omega)) he

/-- the issuer signs nothing on a block with a negative message longer than `Lm` bits
    (`RepresentToPublicKey` returns its error), whatever the key, `U`, `v`, `e` are. -/
theorem sign_refuses_negative_oversized (pk : PublicKey) (order u : Int) (ms : List Int)
    (v e : Int) (m : Int) (hm : m ∈ ms) (hneg : m < 0) (hlong : bitLen m > pk.params.Lm) :
    clSignWith pk order u ms v e = none :=
  clSignWith_of_negOversized
    (List.any_eq_true.mpr ⟨m, hm, negOversized_iff.mpr ⟨hneg, hlong⟩⟩)

/-- C05-4: **randomisation keeps validity** (one step, any integer randomiser `r`).  Only `Z`
    and `S` have to be invertible modulo `n` (the randomised `v - e·r` is usually negative, so
    `S⁻¹` is needed); `Randomize` keeps `KeyshareP` (since the repair of the hunting round), so
    the statement covers signatures with a keyshare contribution too. -/
theorem randomize_verifies (isPrime : Nat → Bool) (pk : PublicKey) (sig : CLSignature)
    (ms : List Int) (r : Int)
    (hn : 1 < pk.n) (hz0 : 0 ≤ pk.z) (hz1 : pk.z < pk.n)
    (hz : Int.gcd pk.z pk.n = 1) (hs : Int.gcd pk.s pk.n = 1)
    (h : clVerifyWith isPrime pk sig ms = .ok true) :
    clVerifyWith isPrime pk (clRandomize pk sig r) ms = .ok true := by
  obtain ⟨n, hN⟩ : ∃ n : ℕ, pk.n = n := ⟨pk.n.toNat, (Int.toNat_of_nonneg (by omega)).symm⟩
  have hn' : 1 < n := by rw [hN] at hn; exact_mod_cast hn
  rw [hN] at hz hs
  exact clRandomize_verifies_aux isPrime pk sig ms r hN hn' hz0 hz1
    ((isUnit_iff_gcd _).mpr hz) ((isUnit_iff_gcd _).mpr hs) h

/-- C05-4 (iterated): any number of randomisation steps keeps validity. -/
theorem randomize_verifies_iter (isPrime : Nat → Bool) (pk : PublicKey) (sig : CLSignature)
    (ms : List Int) (rs : List Int)
    (hn : 1 < pk.n) (hz0 : 0 ≤ pk.z) (hz1 : pk.z < pk.n)
    (hz : Int.gcd pk.z pk.n = 1) (hs : Int.gcd pk.s pk.n = 1)
    (h : clVerifyWith isPrime pk sig ms = .ok true) :
    clVerifyWith isPrime pk (rs.foldl (clRandomize pk) sig) ms = .ok true := by
  induction rs generalizing sig with
  | nil => exact h
  | cons r rs ih =>
    exact ih (clRandomize pk sig r)
      (randomize_verifies isPrime pk sig ms r hn hz0 hz1 hz hs h)

/-- the randomised signature keeps `e` and shifts `v` by `-e·r`. -/
theorem randomize_e_v (pk : PublicKey) (sig : CLSignature) (r : Int) :
    (clRandomize pk sig r).e = sig.e ∧ (clRandomize pk sig r).v = sig.v - sig.e * r := ⟨rfl, rfl⟩

/-- C05-5: **one signature fixes the block.**  If `(A, e, v)` is accepted for the messages `ms`
    and for `ms'`, the two representations `∏ R_i^{m_i}` and `∏ R_i^{m'_i}` that the verifier
    computed are the same number modulo `n` (multiplied by the same `KeyshareP`, if present).
    Hence `ms ≠ ms'` exhibits the non-trivial relation `∏ R_i^{m_i - m'_i} ≡ 1`. -/
theorem verify_binds_block (isPrime : Nat → Bool) (pk : PublicKey) (sig : CLSignature)
    (ms ms' : List Int)
    (hn : 1 < pk.n) (hz : Int.gcd pk.z pk.n = 1) (hs : Int.gcd pk.s pk.n = 1)
    (h : clVerifyWith isPrime pk sig ms = .ok true)
    (h' : clVerifyWith isPrime pk sig ms' = .ok true) :
    ∃ r r', representToBases pk.r ms pk.n pk.params.Lm = .ok r ∧
      representToBases pk.r ms' pk.n pk.params.Lm = .ok r' ∧
      blockWithKeyshare r sig.keyshareP % pk.n = blockWithKeyshare r' sig.keyshareP % pk.n := by
  obtain ⟨n, hN⟩ : ∃ n : ℕ, pk.n = n := ⟨pk.n.toNat, (Int.toNat_of_nonneg (by omega)).symm⟩
  have hn' : 1 < n := by rw [hN] at hn; exact_mod_cast hn
  rw [hN] at hz hs
  have hzu := (isUnit_iff_gcd _).mpr hz
  have hsu := (isUnit_iff_gcd _).mpr hs
  obtain ⟨r, hr, _, hub, heq⟩ := clVerifyWith_units isPrime pk sig ms hN hn' hzu hsu h
  obtain ⟨r', hr', _, hub', heq'⟩ := clVerifyWith_units isPrime pk sig ms' hN hn' hzu hsu h'
  refine ⟨r, r', hr, hr', ?_⟩
  have hB := Alg.cl_binds_block heq heq'
  rw [hN, ← ZMod.intCast_eq_intCast_iff', ← zunit_val hub, ← zunit_val hub', hB]

/-- C05-5 without keyshare factor: the two representations are equal integers. -/
theorem verify_binds_block' (isPrime : Nat → Bool) (pk : PublicKey) (sig : CLSignature)
    (ms ms' : List Int)
    (hn : 1 < pk.n) (hz : Int.gcd pk.z pk.n = 1) (hs : Int.gcd pk.s pk.n = 1)
    (hkp : sig.keyshareP = none)
    (h : clVerifyWith isPrime pk sig ms = .ok true)
    (h' : clVerifyWith isPrime pk sig ms' = .ok true) :
    representToBases pk.r ms pk.n pk.params.Lm = representToBases pk.r ms' pk.n pk.params.Lm := by
  obtain ⟨r, r', hr, hr', heq⟩ := verify_binds_block isPrime pk sig ms ms' hn hz hs h h'
  obtain ⟨n, hN⟩ : ∃ n : ℕ, pk.n = n := ⟨pk.n.toNat, (Int.toNat_of_nonneg (by omega)).symm⟩
  have hn' : 1 < n := by rw [hN] at hn; exact_mod_cast hn
  rw [hkp] at heq
  simp only [blockWithKeyshare] at heq
  rw [hN] at hr hr' heq
  obtain ⟨a0, a1⟩ := representToBases_range hn' hr
  obtain ⟨b0, b1⟩ := representToBases_range hn' hr'
  rw [Int.emod_eq_of_lt a0 a1, Int.emod_eq_of_lt b0 b1] at heq
  rw [hN, hr, hr', heq]

/-- C05-6: **an accepted block has no negative message longer than `Lm` bits.**  The hash that
    replaces an oversized message is over its magnitude only, so `-x` would stand for `x`;
    `RepresentToPublicKey` refuses such a block and `Verify` returns `false`. -/
theorem verified_block_no_negative_oversized (isPrime : Nat → Bool) (pk : PublicKey)
    (sig : CLSignature) (ms : List Int) (h : clVerifyWith isPrime pk sig ms = .ok true) :
    ∀ m ∈ ms, ¬ (m < 0 ∧ bitLen m > pk.params.Lm) :=
  any_negOversized_eq_false_iff.mp (clVerifyWith_ok_true_guard isPrime pk sig ms h)

/-- C05-6, "checked against a different message block never verifies": for `x > 0` longer than
    `Lm` bits, a block containing `-x` is never accepted — whatever the signature, the key and
    the rest of the block are (in particular not with a signature on the block that has `x`
    there, although both blocks have the same representation). -/
theorem negated_oversized_never_verifies (isPrime : Nat → Bool) (pk : PublicKey)
    (sig : CLSignature) (ms : List Int) (x : Int) (hx : 0 < x) (hlong : bitLen x > pk.params.Lm)
    (hmem : -x ∈ ms) : clVerifyWith isPrime pk sig ms ≠ .ok true := by
  intro h
  refine verified_block_no_negative_oversized isPrime pk sig ms h (-x) hmem ⟨by omega, ?_⟩
  have : bitLen (-x) = bitLen x := by simp [bitLen]
  rw [this]
  exact hlong

/-- … and when `Verify` does not panic (`clVerifyWith … = .ok b`: e.g. invertible bases, at most
    as many messages as bases) the answer is `false`. -/
theorem negated_oversized_rejected (isPrime : Nat → Bool) (pk : PublicKey)
    (sig : CLSignature) (ms : List Int) (x : Int) (hx : 0 < x) (hlong : bitLen x > pk.params.Lm)
    (hmem : -x ∈ ms) {b : Bool} (hb : clVerifyWith isPrime pk sig ms = .ok b) : b = false := by
  cases b with
  | false => rfl
  | true => exact absurd hb (negated_oversized_never_verifies isPrime pk sig ms x hx hlong hmem)

/-! ### non-vacuity (toy key `Gabi.toyKey`: `n = 77`, bases in `QR_77`, `order = 15`) -/

/-- the hypotheses of `sign_verifies` are satisfiable: on the toy key a signature on `[3, 5]`
    with `e = 11`, `v = 6` exists and (by the theorem) verifies. -/
example : ∃ sig, clSignWith toyKey 15 1 [3, 5] 6 11 = some sig ∧
    clVerifyWith (fun k => decide (k = 11)) toyKey sig [3, 5] = .ok true := by
  obtain ⟨sig, h⟩ := sign_succeeds toyKey 15 [3, 5] 6 11 toyKey_inGroup (by decide) (by decide)
    (by decide)
  exact ⟨sig, h, sign_verifies _ toyKey 15 [3, 5] 6 11 sig toyKey_inGroup (by decide) (by decide)
    (by decide) h⟩

/-- … and of `randomize_verifies` / `verify_binds_block`. -/
example : ∃ sig, clVerifyWith (fun k => decide (k = 11)) toyKey sig [3, 5] = .ok true ∧
    sig.keyshareP = none ∧ 1 < toyKey.n ∧ 0 ≤ toyKey.z ∧ toyKey.z < toyKey.n ∧
    Int.gcd toyKey.z toyKey.n = 1 ∧ Int.gcd toyKey.s toyKey.n = 1 := by
  obtain ⟨sig, h⟩ := sign_succeeds toyKey 15 [3, 5] 6 11 toyKey_inGroup (by decide) (by decide)
    (by decide)
  have hv := sign_verifies (fun k => decide (k = 11)) toyKey 15 [3, 5] 6 11 sig toyKey_inGroup
    (by decide) (by decide) (by decide) h
  have := (clSignWith_keyshareP h).1
  exact ⟨sig, hv, this, by decide, by decide, by decide, by decide, by decide⟩

/-- the hypotheses of `verified_block_no_negative_oversized` are satisfiable (first example above);
    those of `negated_oversized_never_verifies` / `sign_refuses_negative_oversized` too:
    `Lm = 8`, `x = 256` has 9 bits.  On the toy key the issuer signs `[3, 256]`, that signature
    verifies over `[3, 256]` and is refused over `[3, -256]`, although both blocks have the same
    representation (`attrExp` hashes the magnitude); the issuer does not sign `[3, -256]`. -/
example : (0 : Int) < 256 ∧ bitLen 256 > toyKey.params.Lm ∧ (-256 : Int) ∈ [3, -256] := by decide

#guard (clSignWith toyKey 15 1 [3, 256] 6 11).isSome
#guard clSignWith toyKey 15 1 [3, -256] 6 11 == none
#guard representToBases toyKey.r [3, 256] toyKey.n toyKey.params.Lm ==
  representToBases toyKey.r [3, -256] toyKey.n toyKey.params.Lm
#guard match clSignWith toyKey 15 1 [3, 256] 6 11 with
  | some sig => clVerifyWith (fun k => decide (k = 11)) toyKey sig [3, 256] == .ok true &&
      clVerifyWith (fun k => decide (k = 11)) toyKey sig [3, -256] == .ok false
  | none => false
/- the guard comes before any base is indexed: more messages than bases, one of them negative and
   oversized — `false` instead of the index panic. -/
#guard match clSignWith toyKey 15 1 [3, 256] 6 11 with
  | some sig =>
      clVerifyWith (fun k => decide (k = 11)) toyKey sig [3, 5, 7, -256] == .ok false &&
      clVerifyWith (fun k => decide (k = 11)) toyKey sig [3, 5, 7, 256] ==
        .error (.indexOutOfRange "bases[i]")
  | none => false

/-- the interval / primality rejections are reachable. -/
example : eInInterval toyParamsCL 13 = false ∧ eInInterval toyParamsCL 9 = true := by decide

end Gabi.C05

#print axioms Gabi.C05.e_out_of_interval_rejected
#print axioms Gabi.C05.e_composite_rejected
#print axioms Gabi.C05.accepted_e
#print axioms Gabi.C05.sign_verifies
#print axioms Gabi.C05.sign_succeeds
#print axioms Gabi.C05.sign_succeeds_of_nonneg
#print axioms Gabi.C05.sign_refuses_negative_oversized
#print axioms Gabi.C05.randomize_verifies
#print axioms Gabi.C05.randomize_verifies_iter
#print axioms Gabi.C05.verify_binds_block
#print axioms Gabi.C05.verify_binds_block'
#print axioms Gabi.C05.verified_block_no_negative_oversized
#print axioms Gabi.C05.negated_oversized_never_verifies
#print axioms Gabi.C05.negated_oversized_rejected
