/-
  C06 (end to end) — **an honest run of the issuance protocol ends with a valid credential.**

  For any attribute list, any set of random-blind attributes, with or without a keyshare
  contribution: the holder commits (`U`, `ProofU`), the issuer signs `U` together with its block
  (`0` for the secret, its own shares at the random-blind positions) and proves `ProofS`, the
  holder runs `ConstructCredential` — and owns a credential whose signature `(A, e, v'' + v')`
  verifies over exactly `(secret, attributes)`, each random-blind attribute being the sum of the
  two parties' shares.  Also: the decision logic of `ConstructCredential` (every failed check is a
  rejection, never a credential) and when it can panic.

  Property theorems only.  Helper lemmas: `GabiProofs.IssuanceE2E` (the share loop `blindLoop`
  and the tail `constructTail` of `CredBuilder.construct` as plain functions, the two blocks
  `issuerMsgs` / `holderMsgs`, the relation `SharesCombine` between them, `HonestShares`).
-/
import GabiProps.C06
import GabiProofs.IssuanceE2E
namespace Gabi.C06
open Gabi

/-! ### 4. decision logic of `ConstructCredential` -/

/-- C06-E2E-4a: a message without `ProofS` or without signature is rejected. -/
theorem construct_rejects_incomplete (pk : PublicKey) (b : CredBuilder) (proofS : Option ProofS)
    (sig : Option CLSignature) (mIssuer : List (Int × Option Int)) (attributes : List (Option Int))
    (w : Option MsgWitness) (h : proofS = none ∨ sig = none) :
    b.construct pk proofS sig mIssuer attributes w = .ok (.rejected "incomplete") := by
  rcases h with rfl | rfl
  · rfl
  · cases proofS <;> rfl

/-- C06-E2E-4b: a `ProofS` that does not verify is rejected (before anything else is looked at). -/
theorem construct_rejects_proofS (pk : PublicKey) (b : CredBuilder) (ps : ProofS) (sg : CLSignature)
    (mIssuer : List (Int × Option Int)) (attributes : List (Option Int)) (w : Option MsgWitness)
    (h : ps.verify pk sg b.context b.nonce2 = .ok false) :
    b.construct pk (some ps) (some sg) mIssuer attributes w = .ok (.rejected "proofS") := by
  rw [construct_eq, h]; rfl

/-- C06-E2E-4c: if the issuer's share for one random-blind index is missing (absent from the
    map, or a nil entry), the result is a rejection.  `hps`: `ProofS.Verify` did not panic (it
    panics only on a negative exponent with a non-invertible `A`). -/
theorem construct_rejects_missing_share (pk : PublicKey) (b : CredBuilder) (ps : ProofS)
    (sg : CLSignature) (mIssuer : List (Int × Option Int)) (attributes : List (Option Int))
    (w : Option MsgWitness) (okS : Bool)
    (hps : ps.verify pk sg b.context b.nonce2 = .ok okS)
    (h : ∃ kv ∈ b.mUser, (mIssuer.lookup kv.1).join = none) :
    ∃ why, b.construct pk (some ps) (some sg) mIssuer attributes w = .ok (.rejected why) := by
  obtain ⟨why, hb⟩ := blindLoop_error_of_missing mIssuer b.mUser (some b.secret :: attributes) h
  exact construct_of_blindLoop_error pk b ps sg mIssuer attributes w okS why hps hb

/-- C06-E2E-4d: if a random-blind position of `secret :: attributes` is not nil — an attribute
    value was supplied at a blind index `i ≥ 1` (position `i - 1` of `attributes`), or the index
    is `≤ 0` (the secret's position) — the result is a rejection. -/
theorem construct_rejects_blind_not_nil (pk : PublicKey) (b : CredBuilder) (ps : ProofS)
    (sg : CLSignature) (mIssuer : List (Int × Option Int)) (attributes : List (Option Int))
    (w : Option MsgWitness) (okS : Bool)
    (hps : ps.verify pk sg b.context b.nonce2 = .ok okS)
    (h : ∃ kv ∈ b.mUser, kv.1 ≤ 0 ∨ ∃ a, attributes[kv.1.toNat - 1]? = some (some a)) :
    ∃ why, b.construct pk (some ps) (some sg) mIssuer attributes w = .ok (.rejected why) := by
  obtain ⟨kv, hm, hkv⟩ := h
  have hsome : ((some b.secret :: attributes)[kv.1.toNat]?).join.isSome = true := by
    by_cases h0 : kv.1 ≤ 0
    · have : kv.1.toNat = 0 := by omega
      rw [this]; rfl
    · rcases hkv with h' | ⟨a, ha⟩
      · exact absurd h' h0
      · obtain ⟨k, hk⟩ : ∃ k : ℕ, kv.1.toNat = k + 1 := ⟨kv.1.toNat - 1, by omega⟩
        have : kv.1.toNat - 1 = k := by omega
        rw [this] at ha
        rw [hk, List.getElem?_cons_succ, ha]; rfl
  obtain ⟨why, hb⟩ := blindLoop_error_of_notNil mIssuer b.mUser (some b.secret :: attributes)
    ⟨kv, hm, hsome⟩
  exact construct_of_blindLoop_error pk b ps sg mIssuer attributes w okS why hps hb

/-- a random-blind index beyond the end of `secret :: attributes` is rejected. -/
theorem construct_rejects_too_few (pk : PublicKey) (b : CredBuilder) (ps : ProofS)
    (sg : CLSignature) (mIssuer : List (Int × Option Int)) (attributes : List (Option Int))
    (w : Option MsgWitness) (okS : Bool)
    (hps : ps.verify pk sg b.context b.nonce2 = .ok okS)
    (h : ∃ kv ∈ b.mUser, kv.1 > attributes.length) :
    ∃ why, b.construct pk (some ps) (some sg) mIssuer attributes w = .ok (.rejected why) := by
  obtain ⟨kv, hm, hkv⟩ := h
  obtain ⟨why, hb⟩ := blindLoop_error_of_tooFew mIssuer b.mUser (some b.secret :: attributes)
    ⟨kv, hm, by simp only [List.length_cons]; push_cast; omega⟩
  exact construct_of_blindLoop_error pk b ps sg mIssuer attributes w okS why hps hb

/-- C06-E2E-4 (inversion, covers a–f): **a credential is returned only if every check passed**:
    both parts present, `ProofS` verified, the share loop succeeded (`blindLoop`: every blind
    index in range, nil before, with an issuer share), no nil attribute left, the final signature
    `(A, e, v'' + v')` with the builder's `KeyshareP` verifies over the returned attributes, and
    a witness — if present — verified and its value is one of the attributes.  Whatever the
    inputs (also when `ProofS.Verify` would panic), nothing else yields a credential. -/
theorem construct_credential_only_if (pk : PublicKey) (b : CredBuilder) (proofS : Option ProofS)
    (sig : Option CLSignature) (mIssuer : List (Int × Option Int)) (attributes : List (Option Int))
    (w : Option MsgWitness) (s : CLSignature) (vals : List Int)
    (h : b.construct pk proofS sig mIssuer attributes w = .ok (.credential s vals)) :
    ∃ ps sg ms, proofS = some ps ∧ sig = some sg ∧
      ps.verify pk sg b.context b.nonce2 = .ok true ∧
      s = { a := sg.a, e := sg.e, v := sg.v + b.vPrime, keyshareP := b.keyshareP } ∧
      blindLoop mIssuer b.mUser (some b.secret :: attributes) = .ok ms ∧
      ms.mapM (deref "attribute") = .ok vals ∧ clVerify pk s vals = .ok true ∧
      ∀ w', w = some w' → w'.verify pk = true ∧ vals.contains (w'.e.getD 0) = true :=
  construct_credential_inv pk b proofS sig mIssuer attributes w s vals h

/-- C06-E2E-4e: **the credential that is returned verifies** — a final signature that does not
    verify never becomes a credential. -/
theorem construct_credential_verifies (pk : PublicKey) (b : CredBuilder) (proofS : Option ProofS)
    (sig : Option CLSignature) (mIssuer : List (Int × Option Int)) (attributes : List (Option Int))
    (w : Option MsgWitness) (s : CLSignature) (vals : List Int)
    (h : b.construct pk proofS sig mIssuer attributes w = .ok (.credential s vals)) :
    clVerify pk s vals = .ok true := by
  obtain ⟨_, _, _, _, _, _, _, _, _, hv, _⟩ :=
    construct_credential_inv pk b proofS sig mIssuer attributes w s vals h
  exact hv

/-- C06-E2E-4e (exact form): after a verified `ProofS` and a successful share loop leaving the
    values `vals`, a final signature with `Verify = false` is rejected. -/
theorem construct_rejects_signature (pk : PublicKey) (b : CredBuilder) (ps : ProofS)
    (sg : CLSignature) (mIssuer : List (Int × Option Int)) (attributes : List (Option Int))
    (w : Option MsgWitness) (ms : List (Option Int)) (vals : List Int)
    (hps : ps.verify pk sg b.context b.nonce2 = .ok true)
    (hb : blindLoop mIssuer b.mUser (some b.secret :: attributes) = .ok ms)
    (hm : ms.mapM (deref "attribute") = .ok vals)
    (hv : clVerify pk { a := sg.a, e := sg.e, v := sg.v + b.vPrime, keyshareP := b.keyshareP } vals =
      .ok false) :
    ∃ why, b.construct pk (some ps) (some sg) mIssuer attributes w = .ok (.rejected why) := by
  rw [construct_of_blindLoop_ok pk b ps sg mIssuer attributes w ms hps hb]
  cases w with
  | none =>
    rw [constructTail_none, hm]
    simp only [bind, Except.bind, hv]
    exact ⟨_, rfl⟩
  | some w =>
    rw [constructTail_some, hm]
    simp only [bind, Except.bind, hv]
    cases w.verify pk <;> exact ⟨_, rfl⟩

/-- C06-E2E-4f: a witness that does not verify (`Witness.Verify`: incomplete, or `u^e ≠ ν`) is a
    rejection. -/
theorem construct_rejects_witness (pk : PublicKey) (b : CredBuilder) (ps : ProofS)
    (sg : CLSignature) (mIssuer : List (Int × Option Int)) (attributes : List (Option Int))
    (w : MsgWitness) (okS : Bool)
    (hps : ps.verify pk sg b.context b.nonce2 = .ok okS) (hw : w.verify pk = false) :
    ∃ why, b.construct pk (some ps) (some sg) mIssuer attributes (some w) = .ok (.rejected why) := by
  cases hb : blindLoop mIssuer b.mUser (some b.secret :: attributes) with
  | error why => exact construct_of_blindLoop_error pk b ps sg mIssuer attributes _ okS why hps hb
  | ok ms =>
    cases okS with
    | false => rw [construct_eq, hps]; exact ⟨_, rfl⟩
    | true =>
      rw [construct_of_blindLoop_ok pk b ps sg mIssuer attributes _ ms hps hb, constructTail_some, hw]
      exact ⟨_, rfl⟩

/-- C06-E2E-4f: a witness whose value `e` is not one of the final attributes never yields a
    credential (`NonrevIndex` fails). -/
theorem construct_rejects_revocation_attribute (pk : PublicKey) (b : CredBuilder)
    (proofS : Option ProofS) (sig : Option CLSignature) (mIssuer : List (Int × Option Int))
    (attributes : List (Option Int)) (w : MsgWitness) (s : CLSignature) (vals : List Int)
    (h : b.construct pk proofS sig mIssuer attributes (some w) = .ok (.credential s vals)) :
    w.verify pk = true ∧ vals.contains (w.e.getD 0) = true := by
  obtain ⟨_, _, _, _, _, _, _, _, _, _, hw⟩ :=
    construct_credential_inv pk b proofS sig mIssuer attributes (some w) s vals h
  exact hw w rfl

/-- C06-E2E-4f (exact form): with a witness that verifies, after a verified `ProofS`, a
    successful share loop leaving `vals` and a verifying final signature, a witness value that is
    not among `vals` is rejected. -/
theorem construct_rejects_revocation_attribute' (pk : PublicKey) (b : CredBuilder) (ps : ProofS)
    (sg : CLSignature) (mIssuer : List (Int × Option Int)) (attributes : List (Option Int))
    (w : MsgWitness) (ms : List (Option Int)) (vals : List Int)
    (hps : ps.verify pk sg b.context b.nonce2 = .ok true)
    (hb : blindLoop mIssuer b.mUser (some b.secret :: attributes) = .ok ms)
    (hm : ms.mapM (deref "attribute") = .ok vals)
    (hv : clVerify pk { a := sg.a, e := sg.e, v := sg.v + b.vPrime, keyshareP := b.keyshareP } vals =
      .ok true)
    (hw : w.verify pk = true) (hc : vals.contains (w.e.getD 0) = false) :
    b.construct pk (some ps) (some sg) mIssuer attributes (some w) =
      .ok (.rejected "revocation attribute") := by
  rw [construct_of_blindLoop_ok pk b ps sg mIssuer attributes _ ms hps hb, constructTail_some, hw, hm]
  simp only [bind, Except.bind, hv, hc]
  rfl

/-- C06-E2E-4 (totality): **`ConstructCredential` does not panic** — it returns a credential or
    a rejection, for every `MIssuer` map and every witness — provided
    (1) `ProofS.Verify` does not panic (`hps`; it panics only when `A` is not invertible and an
        exponent `c + ê·e` or `e` is negative),
    (2) every nil entry of `attributes` is one of the builder's random-blind indices (`hnil`),
    (3) there are at most as many messages as bases (`hlen`),
    (4) the modulus is `> 1` and the bases `R_i` are invertible (`hn`, `hr`; needed only for
        negative attribute values).
    Without (2) it *does* panic (nil dereference of the attribute in `RepresentToBases` /
    here `deref "attribute"`), see `construct_panics_on_nil_attribute`: `attributes` is caller
    input, not attacker input. -/
theorem construct_total (pk : PublicKey) (b : CredBuilder) (ps : ProofS) (sg : CLSignature)
    (mIssuer : List (Int × Option Int)) (attributes : List (Option Int)) (w : Option MsgWitness)
    (okS : Bool) (hn : 1 < pk.n) (hr : ∀ x ∈ pk.r, Int.gcd x pk.n = 1)
    (hps : ps.verify pk sg b.context b.nonce2 = .ok okS)
    (hnil : ∀ j : Nat, attributes[j]? = some none → ∃ kv ∈ b.mUser, kv.1 = (j : Int) + 1)
    (hlen : attributes.length + 1 ≤ pk.r.length) :
    ∃ r, b.construct pk (some ps) (some sg) mIssuer attributes w = .ok r := by
  obtain ⟨n, hN⟩ : ∃ n : ℕ, pk.n = n := ⟨pk.n.toNat, (Int.toNat_of_nonneg (by omega)).symm⟩
  have hn' : 1 < n := by rw [hN] at hn; exact_mod_cast hn
  rw [hN] at hr
  exact construct_total_aux pk b ps sg mIssuer attributes w okS hN hn'
    (fun x hx => (isUnit_iff_gcd _).mpr (hr x hx)) hps hnil hlen

/-- `ProofS.Verify` does not panic when `A` is invertible modulo `n` (hypothesis (1) of
    `construct_total`). -/
theorem proofS_verify_total (pk : PublicKey) (ps : ProofS) (sg : CLSignature) (ctx nonce : Int)
    (hn : 1 < pk.n) (ha : Int.gcd sg.a pk.n = 1) :
    ∃ ok, ps.verify pk sg ctx nonce = .ok ok := by
  obtain ⟨n, hN⟩ : ∃ n : ℕ, pk.n = n := ⟨pk.n.toNat, (Int.toNat_of_nonneg (by omega)).symm⟩
  have hn' : 1 < n := by rw [hN] at hn; exact_mod_cast hn
  rw [hN] at ha
  obtain ⟨x, hx, _⟩ := goExp_coprime hn' ha (ps.c + ps.eResponse * sg.e)
  obtain ⟨q, hq, _⟩ := goExp_coprime hn' ha sg.e
  simp only [ProofS.verify, hN, hx, hq, deref, bind, Except.bind, pure, Except.pure]
  exact ⟨_, rfl⟩

/-- the panic of `construct_total` without hypothesis (2): a nil attribute at a position that is
    not random-blind is dereferenced once `ProofS` verified and the share loop went through. -/
theorem construct_panics_on_nil_attribute (pk : PublicKey) (b : CredBuilder) (ps : ProofS)
    (sg : CLSignature) (mIssuer : List (Int × Option Int)) (attributes : List (Option Int))
    (ms : List (Option Int))
    (hps : ps.verify pk sg b.context b.nonce2 = .ok true)
    (hb : blindLoop mIssuer b.mUser (some b.secret :: attributes) = .ok ms)
    (j : ℕ) (hj : attributes[j]? = some none) (hne : ∀ kv ∈ b.mUser, kv.1 ≠ (j : Int) + 1) :
    b.construct pk (some ps) (some sg) mIssuer attributes none = .error (.nilDeref "attribute") :=
  construct_panics_aux pk b ps sg mIssuer attributes ms hps hb j hj hne

/-! ### 1. the issuer signs the commitment, the holder's signature verifies -/

/-- C06-E2E-1: **what the issuer signs on the user's commitment verifies for the holder**
    (generalises `C05.sign_verifies` from `u = 1`).

    `U = userCommitment pk secret v' mUser keyshareP = S^{v'} · R_0^{secret} · ∏ R_i^{mUser_i} (· P)`.
    The issuer signs `U` and the block `msI`, the holder checks
    `(A, e, v'' + v')` (with `KeyshareP`) over the block `msH`, where
    `SharesCombine Lm secret mUser msI msH` says: same length; `msI[0] = 0`, `msH[0] = secret`,
    `0 ≤ secret < 2^Lm`; the random-blind indices (keys of `mUser`) are distinct and in
    `[1, len)`; at such an index `msI[i] = mIssuer_i`, `msH[i] = mIssuer_i + mUser_i` with
    `0 ≤ mIssuer_i, mUser_i < 2^(Lm-1)`; all other positions agree.  The size conditions make
    sure that `RepresentToBases` hashes none of `secret`, `mIssuer_i`, `mIssuer_i + mUser_i`
    (`attrExp` is the identity on them) — the user's commitment uses the raw exponents; at
    the non-blind positions both sides apply the same `attrExp`, whatever the value.
    `hP`: the keyshare contribution lies in the subgroup (`P = R_0^{ks}`).
    Also returned: `A^order ≡ 1`, which is what `proofS_complete` needs. -/
theorem sign_commitment_verifies (isPrime : Nat → Bool) (pk : PublicKey) (order : Int)
    (secret vPrime : Int) (mUser : List (Int × Int)) (keyshareP : Option Int) (U : Int)
    (msI msH : List Int) (v e : Int) (sig : CLSignature)
    (hk : pk.InGroup order)
    (hP : ∀ p, keyshareP = some p → goExp p order pk.n = some 1)
    (hU : userCommitment pk secret vPrime mUser keyshareP = .ok U)
    (hsh : SharesCombine pk.params.Lm secret mUser msI msH)
    (hlen : msH.length ≤ pk.r.length)
    (hint : eInInterval pk.params e = true) (hprime : isPrime e.toNat = true)
    (h : clSignWith pk order U msI v e = some sig) :
    clVerifyWith isPrime pk
        { a := sig.a, e := sig.e, v := sig.v + vPrime, keyshareP := keyshareP } msH = .ok true ∧
      goExp sig.a order pk.n = some 1 :=
  sign_commitment_verifies_aux isPrime pk order secret vPrime mUser keyshareP U msI msH v e sig hk
    hP hU hsh hlen hint hprime h

/-- C06-E2E-1 for the two blocks of the protocol: `issuerMsgs attributes mIssuer` is
    `0 :: attributes` with the issuer's shares at the nil positions
    (`signCommitmentAndAttributes`), `holderMsgs secret attributes mIssuer mUser` is
    `secret :: attributes` with the sums of the shares there.  `HonestShares`: `attributes` is nil
    exactly at the (distinct) keys of `mUser`, which lie in `[1, len]`, and all shares are in
    `[0, 2^(Lm-1))`. -/
theorem sign_commitment_verifies_msgs (isPrime : Nat → Bool) (pk : PublicKey) (order : Int)
    (secret vPrime : Int) (mUser : List (Int × Int)) (keyshareP : Option Int) (U : Int)
    (attributes : List (Option Int)) (mIssuer : List (Int × Option Int)) (v e : Int)
    (sig : CLSignature) (hk : pk.InGroup order)
    (hP : ∀ p, keyshareP = some p → goExp p order pk.n = some 1)
    (hU : userCommitment pk secret vPrime mUser keyshareP = .ok U)
    (hs0 : 0 ≤ secret) (hs1 : secret < 2 ^ pk.params.Lm)
    (hh : HonestShares pk.params.Lm attributes mIssuer mUser)
    (hlen : attributes.length + 1 ≤ pk.r.length)
    (hint : eInInterval pk.params e = true) (hprime : isPrime e.toNat = true)
    (h : clSignWith pk order U (issuerMsgs attributes mIssuer) v e = some sig) :
    clVerifyWith isPrime pk { a := sig.a, e := sig.e, v := sig.v + vPrime, keyshareP := keyshareP }
        (holderMsgs secret attributes mIssuer mUser) = .ok true :=
  (sign_commitment_verifies_aux isPrime pk order secret vPrime mUser keyshareP U _ _ v e sig hk hP hU
    (sharesCombine_msgs pk.params.Lm secret attributes mIssuer mUser hs0 hs1 hh)
    (by rw [holderMsgs_length]; exact hlen) hint hprime h).1

/-- the issuer's signing computation on the commitment succeeds when `e` is invertible modulo
    `order` (so the hypothesis `clSignWith … = some sig` of the theorems here is satisfiable).
    `hneg`: no message of the block is negative and longer than `Lm` bits — for such a message
    `RepresentToPublicKey` returns its error and nothing is signed (`clSignWith_of_negOversized`);
    non-negative messages satisfy it. -/
theorem sign_commitment_succeeds (pk : PublicKey) (order : Int) (secret vPrime : Int)
    (mUser : List (Int × Int)) (keyshareP : Option Int) (U : Int) (ms : List Int) (v e : Int)
    (hk : pk.InGroup order)
    (hP : ∀ p, keyshareP = some p → goExp p order pk.n = some 1)
    (hU : userCommitment pk secret vPrime mUser keyshareP = .ok U)
    (hkeys : ∀ kv ∈ mUser, 0 ≤ kv.1 ∧ kv.1 < pk.r.length)
    (hlen : ms.length ≤ pk.r.length)
    (hneg : ∀ m ∈ ms, ¬ (m < 0 ∧ bitLen m > pk.params.Lm)) (he : Int.gcd e order = 1) :
    ∃ sig, clSignWith pk order U ms v e = some sig :=
  clSignWith_commitment_isSome pk order secret vPrime mUser keyshareP U ms v e hk hP hU hkeys hlen
    hneg he

/-! ### 2. the honest `ConstructCredential` -/

/-- C06-E2E-2: **`ConstructCredential` on an honest message returns the credential**
    `(A, e, v'' + v', KeyshareP)` over `holderMsgs … = secret :: attributes` with the sums of the
    shares at the random-blind positions — with or without keyshare contribution.
    Honest message: `sig` is the issuer's signature on the builder's `U` and the issuer's block,
    `ps` the issuer's `ProofS` for the builder's context and nonce (any `eCommit`), `mIssuer`
    carries the shares that were signed; `attributes` is nil exactly at the builder's
    random-blind indices (`HonestShares`); `e` is a prime (for `ProbablyPrime`) in its interval. -/
theorem construct_honest (pk : PublicKey) (order : Int) (b : CredBuilder)
    (attributes : List (Option Int)) (mIssuer : List (Int × Option Int)) (v e eCommit : Int)
    (sig : CLSignature) (ps : ProofS)
    (hk : pk.InGroup order)
    (hP : ∀ p, b.keyshareP = some p → goExp p order pk.n = some 1)
    (hU : userCommitment pk b.secret b.vPrime b.mUser b.keyshareP = .ok b.u)
    (hs0 : 0 ≤ b.secret) (hs1 : b.secret < 2 ^ pk.params.Lm)
    (hh : HonestShares pk.params.Lm attributes mIssuer b.mUser)
    (hlen : attributes.length + 1 ≤ pk.r.length)
    (hint : eInInterval pk.params e = true) (hprime : probablyPrime e.toNat = true)
    (hsig : clSignWith pk order b.u (issuerMsgs attributes mIssuer) v e = some sig)
    (hps : proveSignature pk order sig b.context b.nonce2 eCommit = some ps) :
    b.construct pk (some ps) (some sig) mIssuer attributes none =
      .ok (.credential { a := sig.a, e := sig.e, v := sig.v + b.vPrime, keyshareP := b.keyshareP }
        (holderMsgs b.secret attributes mIssuer b.mUser)) :=
  (construct_honest_aux pk order b attributes mIssuer v e eCommit sig ps hk hP hU hs0 hs1 hh hlen
    hint hprime hsig hps).1

/-! ### 3. the whole run -/

/-- the part of the run after the commitment, with or without keyshare contribution: the issuer
    can sign and prove (`e` invertible modulo `order`), and whatever signature / proof these
    computations return, the holder constructs a credential that verifies over
    `vals = secret :: attributes'`, where each random-blind attribute is the sum of the two shares
    and every other attribute is the one that was supplied.
    `hattr`: none of the supplied attributes is negative and longer than `Lm` bits (the issuer's
    `RepresentToPublicKey` refuses such a block: nothing would be signed); non-negative
    attributes satisfy it. -/
theorem issuance_core (pk : PublicKey) (order : Int) (b : CredBuilder)
    (attributes : List (Option Int)) (mIssuer : List (Int × Option Int)) (v e eCommit : Int)
    (hk : pk.InGroup order)
    (hP : ∀ p, b.keyshareP = some p → goExp p order pk.n = some 1)
    (hU : userCommitment pk b.secret b.vPrime b.mUser b.keyshareP = .ok b.u)
    (hs0 : 0 ≤ b.secret) (hs1 : b.secret < 2 ^ pk.params.Lm)
    (hh : HonestShares pk.params.Lm attributes mIssuer b.mUser)
    (hattr : ∀ a, some a ∈ attributes → ¬ (a < 0 ∧ bitLen a > pk.params.Lm))
    (hlen : attributes.length + 1 ≤ pk.r.length)
    (hint : eInInterval pk.params e = true) (hprime : probablyPrime e.toNat = true)
    (he : Int.gcd e order = 1) :
    ∃ sig ps vals,
      clSignWith pk order b.u (issuerMsgs attributes mIssuer) v e = some sig ∧
      proveSignature pk order sig b.context b.nonce2 eCommit = some ps ∧
      b.construct pk (some ps) (some sig) mIssuer attributes none =
        .ok (.credential { a := sig.a, e := e, v := v + b.vPrime, keyshareP := b.keyshareP } vals) ∧
      clVerify pk { a := sig.a, e := e, v := v + b.vPrime, keyshareP := b.keyshareP } vals = .ok true ∧
      vals.length = attributes.length + 1 ∧ vals[0]? = some b.secret ∧
      (∀ kv ∈ b.mUser, ∃ mi, (mIssuer.lookup kv.1).join = some mi ∧
        vals[kv.1.toNat]? = some (mi + kv.2)) ∧
      (∀ (k : ℕ) (a : Int), attributes[k]? = some (some a) → vals[k + 1]? = some a) := by
  have hkeys : ∀ kv ∈ b.mUser, 0 ≤ kv.1 ∧ kv.1 < pk.r.length := by
    intro kv hm
    obtain ⟨a1, a2, _⟩ := hh.blind kv hm
    exact ⟨by omega, by omega⟩
  obtain ⟨sig, hsig⟩ := clSignWith_commitment_isSome pk order b.secret b.vPrime b.mUser b.keyshareP
    b.u (issuerMsgs attributes mIssuer) v e hk hP hU hkeys (by rw [issuerMsgs_length]; exact hlen)
    (issuerMsgs_guard pk.params.Lm attributes mIssuer b.mUser hh hattr) he
  obtain ⟨_, hse, hsv⟩ := clSignWith_keyshareP hsig
  obtain ⟨_, hA⟩ := sign_commitment_verifies_aux probablyPrime pk order b.secret b.vPrime b.mUser
    b.keyshareP b.u _ _ v e sig hk hP hU
    (sharesCombine_msgs pk.params.Lm b.secret attributes mIssuer b.mUser hs0 hs1 hh)
    (by rw [holderMsgs_length]; exact hlen) hint hprime hsig
  obtain ⟨ps, hps⟩ := proveSignature_succeeds pk order sig b.context b.nonce2 eCommit hk.n_gt
    hk.order_gt hA (by rw [hse]; exact he)
  obtain ⟨h1, h2⟩ := construct_honest_aux pk order b attributes mIssuer v e eCommit sig ps hk hP hU
    hs0 hs1 hh hlen hint hprime hsig hps
  rw [hse, hsv] at h1 h2
  refine ⟨sig, ps, holderMsgs b.secret attributes mIssuer b.mUser, hsig, hps, h1, h2,
    holderMsgs_length _ _ _ _, rfl, ?_, ?_⟩
  · intro kv hm
    obtain ⟨a1, _, a3, _, _, mi, b1, _⟩ := hh.blind kv hm
    exact ⟨mi, b1, holderMsgs_blind b.secret attributes mIssuer b.mUser hh.nodup kv hm a1 a3 mi b1⟩
  · intro k a hka
    exact holderMsgs_plain b.secret attributes mIssuer b.mUser k a hka

/-- C06-E2E-3: **the whole honest run, without keyshare server.**  The builder's `U` is the user
    commitment to `(secret, v', mUser)`; then
    * the holder's commitment proof (`Commit`, Fiat–Shamir challenge over `[U, Ũ]`,
      `CreateProof`) is accepted by the issuer's `ProofU.Verify` (for every `skRandomizer`,
      `mUserCommit`, `nonce1`);
    * the issuer's signing of `U` and its block and `proveSignature` succeed;
    * `ConstructCredential` returns the credential `(A, e, v'' + v')` over `vals`, and that
      signature verifies over `vals`;
    * `vals = secret :: attributes'` where each random-blind attribute is the sum of the two
      parties' shares and the other attributes are the supplied ones.
    With a keyshare server (`b.keyshareP = some P`) the statement about `ProofU` is *not*
    expected to hold for the builder's proof alone (`U` contains the factor `P = R_0^{ks}` that
    only the server's response accounts for — `Alg.keyshare_proofU` is the algebra of the merged
    proof; see the `#guard` below where the builder's own proof is refused); everything after
    the commitment is `issuance_core`, which covers both cases.
    `hattr`: none of the supplied attributes is negative and longer than `Lm` bits (see
    `issuance_core`). -/
theorem issuance_complete (pk : PublicKey) (order : Int) (b : CredBuilder) (skRandomizer nonce1 : Int)
    (attributes : List (Option Int)) (mIssuer : List (Int × Option Int)) (v e eCommit : Int)
    (hk : pk.InGroup order) (hkp : b.keyshareP = none)
    (hU : userCommitment pk b.secret b.vPrime b.mUser none = .ok b.u)
    (hvc0 : 0 ≤ b.vPrimeCommit) (hvc1 : b.vPrimeCommit < 2 ^ pk.params.LvPrimeCommit)
    (hv0 : 0 ≤ b.vPrime) (hv1 : b.vPrime < 2 ^ pk.params.LvPrime)
    (hpar : 256 + pk.params.LvPrime ≤ pk.params.LvPrimeCommit)
    (hs0 : 0 ≤ b.secret) (hs1 : b.secret < 2 ^ pk.params.Lm)
    (hh : HonestShares pk.params.Lm attributes mIssuer b.mUser)
    (hattr : ∀ a, some a ∈ attributes → ¬ (a < 0 ∧ bitLen a > pk.params.Lm))
    (hlen : attributes.length + 1 ≤ pk.r.length)
    (hint : eInInterval pk.params e = true) (hprime : probablyPrime e.toNat = true)
    (he : Int.gcd e order = 1) :
    ∃ Ut sig ps vals,
      b.commit pk skRandomizer = .ok [b.u, Ut] ∧
      (b.createProof skRandomizer (createChallenge b.context nonce1 [b.u, Ut] false)).verify pk
        b.context nonce1 = .ok true ∧
      clSignWith pk order b.u (issuerMsgs attributes mIssuer) v e = some sig ∧
      proveSignature pk order sig b.context b.nonce2 eCommit = some ps ∧
      b.construct pk (some ps) (some sig) mIssuer attributes none =
        .ok (.credential { a := sig.a, e := e, v := v + b.vPrime, keyshareP := none } vals) ∧
      clVerify pk { a := sig.a, e := e, v := v + b.vPrime, keyshareP := none } vals = .ok true ∧
      vals.length = attributes.length + 1 ∧ vals[0]? = some b.secret ∧
      (∀ kv ∈ b.mUser, ∃ mi, (mIssuer.lookup kv.1).join = some mi ∧
        vals[kv.1.toNat]? = some (mi + kv.2)) ∧
      (∀ (k : ℕ) (a : Int), attributes[k]? = some (some a) → vals[k + 1]? = some a) := by
  have hn := hk.n_gt
  have ho0 : 0 < order := by have := hk.order_gt; omega
  obtain ⟨n, hN⟩ : ∃ n : ℕ, pk.n = n := ⟨pk.n.toNat, (Int.toNat_of_nonneg (by omega)).symm⟩
  have hn' : 0 < n := by rw [hN] at hn; exact_mod_cast (by omega : (0 : Int) < n)
  have hgcd : ∀ x ∈ pk.s :: pk.z :: pk.r, Int.gcd x pk.n = 1 := by
    intro x hx
    have := hk.bases x hx
    rw [hN] at this ⊢
    exact (isUnit_iff_gcd x).mp (isUnit_of_goExp_one hn' ho0 this)
  have hr0 : pk.r ≠ [] := by
    intro h0; rw [h0, List.length_nil] at hlen; omega
  have hkeys : ∀ kv ∈ b.mUser, 1 ≤ kv.1 ∧ kv.1 < pk.r.length := by
    intro kv hm
    obtain ⟨a1, a2, _⟩ := hh.blind kv hm
    exact ⟨a1, by omega⟩
  obtain ⟨Ut, hc, hpu⟩ := proofU_complete pk b skRandomizer b.context nonce1 hn
    (hgcd pk.s (by simp)) (fun x hx => hgcd x (by simp [hx])) hr0 hkeys hU hvc0 hvc1 hv0 hv1 hpar
  obtain ⟨sig, ps, vals, h1, h2, h3, h4, h5⟩ := issuance_core pk order b attributes mIssuer v e
    eCommit hk (by rw [hkp]; intro p hp; cases hp) (by rw [hkp]; exact hU) hs0 hs1 hh hattr hlen
    hint hprime he
  rw [hkp] at h3 h4
  exact ⟨Ut, sig, ps, vals, hc, hpu, h1, h2, h3, h4, h5⟩

/-! ### non-vacuity (toy key `Gabi.toyKey`: `n = 77`, bases in `QR_77`, `order = 15`, `Lm = 8`) -/

/-- the toy run: secret `5`, `v' = 9`, attributes `[3, ⊥]` (the second one random blind, position
    `2` of the block), user share `4`, issuer share `6`, `e = 11`, `v'' = 6`. -/
def toyBuilder (u : Int) (kp : Option Int) : CredBuilder :=
  { secret := 5, vPrime := 9, vPrimeCommit := 1000, mUser := [(2, 4)], mUserCommit := [(2, 77)],
    u := u, keyshareP := kp, context := 7, nonce2 := 8 }

/-- **a full honest run, evaluated** (no keyshare): commitment proof accepted, the issuer signs
    `[0, 3, 6]`, the holder constructs the credential over `[5, 3, 10]` (`10 = 6 + 4`), and the
    signature verifies over it. -/
def toyRun (kp : Option Int) : Option (Bool × Bool × List Int × Bool) := do
  let u ← (userCommitment toyKey 5 9 [(2, 4)] kp).toOption
  let b := toyBuilder u kp
  let contrib ← (b.commit toyKey 123).toOption
  let proofU := b.createProof 123 (createChallenge 7 99 contrib false)
  let okU ← (proofU.verify toyKey 7 99).toOption
  let sig ← clSignWith toyKey 15 u (issuerMsgs [some 3, none] [(2, some 6)]) 6 11
  let ps ← proveSignature toyKey 15 sig 7 8 5
  let okS ← (ps.verify toyKey sig 7 8).toOption
  match b.construct toyKey (some ps) (some sig) [(2, some 6)] [some 3, none] none with
  | .ok (.credential s vals) => do
    let okV ← (clVerify toyKey s vals).toOption
    pure (okU, okS, vals, okV)
  | _ => none

#guard issuerMsgs [some 3, none] [(2, some 6)] == [0, 3, 6]
#guard holderMsgs 5 [some 3, none] [(2, some 6)] [(2, 4)] == [5, 3, 10]
#guard toyRun none == some (true, true, [5, 3, 10], true)
/- with a keyshare contribution `P = R_0^3 = 16^3 mod 77 = 15`: the builder's commitment proof
   alone is refused (first component `false`), the rest of the run is the same. -/
#guard toyRun (some 15) == some (false, true, [5, 3, 10], true)

/-- the rejections are reachable: a missing share, a supplied value at the blind position, and a
    non-blind nil attribute (panic) on the toy run. -/
def toyConstruct (mIssuer : List (Int × Option Int)) (attributes : List (Option Int)) :
    Option (GoM ConstructResult) := do
  let u ← (userCommitment toyKey 5 9 [(2, 4)] none).toOption
  let b := toyBuilder u none
  let sig ← clSignWith toyKey 15 u (issuerMsgs [some 3, none] [(2, some 6)]) 6 11
  let ps ← proveSignature toyKey 15 sig 7 8 5
  pure (b.construct toyKey (some ps) (some sig) mIssuer attributes none)

#guard match toyConstruct [] [some 3, none] with
  | some (.ok (.rejected why)) => why == "issuer share missing" | _ => false
#guard match toyConstruct [(2, none)] [some 3, none] with
  | some (.ok (.rejected why)) => why == "issuer share missing" | _ => false
#guard match toyConstruct [(2, some 6)] [some 3, some 10] with
  | some (.ok (.rejected why)) => why == "blind attribute not nil" | _ => false
#guard match toyConstruct [(2, some 7)] [some 3, none] with
  | some (.ok (.rejected why)) => why == "signature" | _ => false
#guard match toyConstruct [(2, some 6)] [none, none] with
  | some (.error (.nilDeref what)) => what == "attribute" | _ => false

/- `hattr` of `issuance_core` / `issuance_complete` (and `hneg` of `sign_commitment_succeeds`) is
   needed: with the supplied attribute `-256` (9 bits, `Lm = 8`) in place of `3` all other
   hypotheses are unchanged (`HonestShares` does not look at the supplied values), and the issuer
   signs nothing (`RepresentToPublicKey` returns its error); with `256` it signs. -/
#guard clSignWith toyKey 15 1 (issuerMsgs [some (-256), none] [(2, some 6)]) 6 11 == none
#guard (clSignWith toyKey 15 1 (issuerMsgs [some 256, none] [(2, some 6)]) 6 11).isSome

set_option exponentiation.threshold 400 in
/-- the hypotheses of `issuance_complete` (hence of `sign_commitment_verifies`,
    `construct_honest`, `issuance_core`) are satisfiable: the toy run. -/
example : ∃ (b : CredBuilder) (Ut : Int) (sig : CLSignature) (ps : ProofS) (vals : List Int),
    b.commit toyKey 123 = .ok [b.u, Ut] ∧
    (b.createProof 123 (createChallenge b.context 99 [b.u, Ut] false)).verify toyKey b.context 99 =
      .ok true ∧
    clSignWith toyKey 15 b.u (issuerMsgs [some 3, none] [(2, some 6)]) 6 11 = some sig ∧
    proveSignature toyKey 15 sig b.context b.nonce2 5 = some ps ∧
    b.construct toyKey (some ps) (some sig) [(2, some 6)] [some 3, none] none =
      .ok (.credential { a := sig.a, e := 11, v := 6 + b.vPrime, keyshareP := none } vals) ∧
    clVerify toyKey { a := sig.a, e := 11, v := 6 + b.vPrime, keyshareP := none } vals = .ok true ∧
    vals[2]? = some (6 + 4) := by
  have hs : Int.gcd toyKey.s toyKey.n = 1 := by decide
  have hr : ∀ x ∈ toyKey.r, Int.gcd x toyKey.n = 1 := by decide
  obtain ⟨U, hU, _⟩ := userCommitment_spec (n := 77) toyKey 5 9 [(2, 4)] rfl (by decide)
    ((isUnit_iff_gcd _).mpr hs) (fun x hx => (isUnit_iff_gcd _).mpr (hr x hx)) (by decide)
    (by decide)
  obtain ⟨Ut, sig, ps, vals, h1, h2, h3, h4, h5, h6, _, _, h9, _⟩ :=
    issuance_complete toyKey 15 (toyBuilder U none) 123 99 [some 3, none] [(2, some 6)] 6 11 5
      toyKey_inGroup rfl hU (show (0 : Int) ≤ 1000 by decide)
      (show (1000 : Int) < 2 ^ 300 by decide) (show (0 : Int) ≤ 9 by decide)
      (show (9 : Int) < 2 ^ 8 by decide) (by decide) (show (0 : Int) ≤ 5 by decide)
      (show (5 : Int) < 2 ^ 8 by decide) toy_honestShares
      (by intro a ha; simp at ha; subst ha; decide) (by decide) (by decide) (by decide)
      (by decide)
  obtain ⟨mi, hmi, hv⟩ := h9 (2, 4) (by simp [toyBuilder])
  have : mi = 6 := by
    have h' : ((List.lookup (2 : Int) [((2 : Int), some (6 : Int))]).join) = some 6 := by decide
    rw [show ((2, 4) : Int × Int).1 = 2 from rfl, h'] at hmi
    exact (Option.some.inj hmi).symm
  subst this
  exact ⟨toyBuilder U none, Ut, sig, ps, vals, h1, h2, h3, h4, h5, h6, hv⟩

end Gabi.C06

#print axioms Gabi.C06.construct_rejects_incomplete
#print axioms Gabi.C06.construct_rejects_proofS
#print axioms Gabi.C06.construct_rejects_missing_share
#print axioms Gabi.C06.construct_rejects_blind_not_nil
#print axioms Gabi.C06.construct_rejects_too_few
#print axioms Gabi.C06.construct_credential_only_if
#print axioms Gabi.C06.construct_credential_verifies
#print axioms Gabi.C06.construct_rejects_signature
#print axioms Gabi.C06.construct_rejects_witness
#print axioms Gabi.C06.construct_rejects_revocation_attribute
#print axioms Gabi.C06.construct_rejects_revocation_attribute'
#print axioms Gabi.C06.construct_total
#print axioms Gabi.C06.proofS_verify_total
#print axioms Gabi.C06.construct_panics_on_nil_attribute
#print axioms Gabi.C06.sign_commitment_verifies
#print axioms Gabi.C06.sign_commitment_verifies_msgs
#print axioms Gabi.C06.sign_commitment_succeeds
#print axioms Gabi.C06.construct_honest
#print axioms Gabi.C06.issuance_core
#print axioms Gabi.C06.issuance_complete
