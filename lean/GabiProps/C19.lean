/-
  C19 — Number-theoretic helpers compute what they claim.
  Property theorems about the executable model GabiModel.MathUtil / Num (the model is compared
  output-for-output with internal/common/mathutil.go, fastmod.go, randomprime.go, zkproof/group.go
  by the correspondence ops of `./check C19`). Helper lemmas: GabiProofs.{NumLemmas,Legendre,
  MathUtilLemmas,Sqrt}.
-/
import GabiModel.MathUtil
import GabiProofs.NumLemmas
import GabiProofs.Legendre
import GabiProofs.MathUtilLemmas
import GabiProofs.Sqrt
namespace Gabi.C19
open Gabi

/-! ### modular inverse: absence reported, not guessed -/

/-- `common.ModInverse`: a returned value is the inverse in `[1,n)`. -/
theorem modInverse_spec {a n r : Int} (hn : 1 < n) (h : commonModInverse a n = some r) :
    1 ≤ r ∧ r < n ∧ (a * r) % n = 1 := commonModInverse_some hn h

/-- … and no value is returned exactly when `a` is not a unit modulo `n`. -/
theorem modInverse_none_iff (a n : Int) (hn : 0 < n) :
    commonModInverse a n = none ↔ Int.gcd a n ≠ 1 := commonModInverse_none_iff a n hn

/-! ### modular powers with signed exponents -/

theorem modPow_nonneg (x y m : Int) (hm : 0 < m) (hy : 0 ≤ y) :
    modPow x y m = some (x ^ y.toNat % m) := goExp_nonneg x y m hm hy

/-- negative exponent: the inverse is used; failure exactly when `x` is not invertible. -/
theorem modPow_neg (x y m : Int) (hm : 0 < m) (hy : y < 0) :
    modPow x y m = (goModInverse x m).map (fun inv => inv ^ (-y).toNat % m) := goExp_neg x y m hm hy

theorem modPow_err_iff (x y m : Int) (hm : 0 < m) (hy : y < 0) :
    modPow x y m = none ↔ Int.gcd x m ≠ 1 := by
  rw [modPow_neg x y m hm hy]
  have := goModInverse_none_iff x m (by omega)
  cases h : goModInverse x m <;> simp_all

/-! ### Legendre / Jacobi symbol -/

/-- the binary reciprocity loop computes the Jacobi symbol for every odd positive modulus. -/
theorem legendre_eq_jacobiSym (a : Int) (p : Nat) (hp : p % 2 = 1) :
    legendreSymbol a (p : Int) = jacobiSym a p := legendreSymbol_eq_jacobiSym a p hp

/-- for an odd prime it is the Legendre symbol: 1 / −1 / 0 ⇔ non-zero square / non-square / multiple. -/
theorem legendre_prime (a : Int) (p : Nat) [Fact p.Prime] (hp : p ≠ 2) :
    legendreSymbol a (p : Int) = legendreSym p a := legendreSymbol_eq_legendreSym a p hp

theorem legendre_neg_one_iff (a : Int) (p : Nat) [Fact p.Prime] (hp : p ≠ 2) :
    legendreSymbol a (p : Int) = -1 ↔ ¬ IsSquare (a : ZMod p) := legendreSymbol_eq_neg_one_iff a p hp

/-! ### square roots modulo a prime and modulo a product of coprime factors -/

/-- a returned root squares to `a` (Tonelli–Shanks loop invariant `R² = a·t`, and the
    `p ≡ 3 (mod 4)` shortcut). -/
theorem primeSqrt_root {a p r : Nat} (hp : p.Prime) (h2 : p ≠ 2) (ha : a < p)
    (h : primeSqrt a p = .root r) : r * r % p = a ∧ r < p := primeSqrt_root_sq hp h2 ha h

/-- existence is reported correctly (Euler's criterion). -/
theorem primeSqrt_existence {a p : Nat} (hp : p.Prime) (h2 : p ≠ 2) (ha : a < p) :
    primeSqrt a p = .noRoot ↔ ¬ ∃ r : Nat, r * r % p = a := primeSqrt_noRoot_iff hp h2 ha

/-- on its domain (odd primes) the routine terminates within the model's fuel: a non-residue is
    found below `p`, and the loop's exponent `M` strictly decreases. -/
theorem primeSqrt_terminates {a p : Nat} [Fact p.Prime] (h2 : p ≠ 2) (ha : a < p) :
    primeSqrt a p ≠ .diverges :=
  primeSqrt_ne_diverges h2 ha (fun a => legendreSymbol_eq_legendreSym a p h2)

/-- the prime 2 (outside the odd-prime domain of the three theorems above, and on which the
    unrepaired Go code searched forever for a non-residue): `PrimeSqrt(a, 2)` returns `a mod 2`
    for every `a`, in particular it returns. -/
theorem primeSqrt_two (a : Nat) : primeSqrt a 2 = .root (a % 2) := by
  unfold primeSqrt
  by_cases h0 : a = 0
  · subst h0; rfl
  · rw [if_neg h0, if_pos rfl]

/-- … and that value is a square root of `a` modulo 2 (every number is its own square there). -/
theorem primeSqrt_two_sq (a : Nat) :
    ∃ r, primeSqrt a 2 = .root r ∧ r * r % 2 = a % 2 ∧ r < 2 := by
  refine ⟨a % 2, primeSqrt_two a, ?_, Nat.mod_lt _ (by decide)⟩
  rcases Nat.mod_two_eq_zero_or_one a with h | h <;> rw [h]

/-- the same fact in closed form: the returned root `a mod 2`, squared, is congruent to `a`
    modulo 2. -/
theorem primeSqrt_two_root_sq (a : Nat) : (a % 2) * (a % 2) % 2 = a % 2 := by
  rcases Nat.mod_two_eq_zero_or_one a with h | h <;> rw [h]

/-- `ModSqrt` over coprime prime factors (and the factor 4), any integer `a`: roots are roots … -/
theorem modSqrt_root {a : Int} {p q r : Nat} (hp : p.Prime) (hq : q.Prime) (hp2 : p ≠ 2) (hq2 : q ≠ 2)
    (hpq : p ≠ q) (h : modSqrt a [(p : Int), (q : Int)] = .root r) :
    ((r : Int) * r - a) % ((p : Int) * q) = 0 := modSqrt_root_sq hp hq hp2 hq2 hpq h

theorem modSqrt_root_four {a : Int} {p q r : Nat} (hp : p.Prime) (hq : q.Prime) (hp2 : p ≠ 2) (hq2 : q ≠ 2)
    (hpq : p ≠ q) (h : modSqrt a [4, (p : Int), (q : Int)] = .root r) :
    ((r : Int) * r - a) % (4 * (p : Int) * q) = 0 := modSqrt_root_sq_four hp hq hp2 hq2 hpq h

/-- … and existence is reported correctly. -/
theorem modSqrt_existence {a : Int} {p q : Nat} [Fact p.Prime] [Fact q.Prime] (hp2 : p ≠ 2) (hq2 : q ≠ 2)
    (hpq : p ≠ q) :
    modSqrt a [(p : Int), (q : Int)] = .noRoot ↔ ¬ ∃ r : Int, (r * r - a) % ((p : Int) * q) = 0 :=
  modSqrt_noRoot_iff hp2 hq2 hpq (fun a => legendreSymbol_eq_legendreSym a p hp2)
    (fun a => legendreSymbol_eq_legendreSym a q hq2)

/-! ### CRT recombination -/

theorem crt_spec {a pa b pb x : Int} (hpa : 0 < pa) (hpb : 0 < pb) (h : crt a pa b pb = some x) :
    0 ≤ x ∧ x < pa * pb ∧ x % pa = a % pa ∧ x % pb = b % pb := crt_some hpa hpb h

/-- the Go code panics ("Incorrect input to CRT") exactly on non-coprime moduli. -/
theorem crt_panics_iff (a pa b pb : Int) (hpa : 0 < pa) (hpb : 0 < pb) :
    crt a pa b pb = none ↔ Int.gcd pa pb ≠ 1 := crt_none_iff a pa b pb hpa hpb

/-! ### four squares: the wrapper is correct given the inner routine's postcondition -/

/-- if the randomised inner routine returns a correct decomposition on the single argument the
    wrapper derives (always ≡ 2 mod 4), `SumFourSquares n` returns non-negative `x,y,z,w` with
    `x²+y²+z²+w² = n` – for every `n`, all three residue cases. The inner routine's own
    postcondition is *checked* on every call by the correspondence op `sum4` (exhaustively for
    small n), not proved. -/
theorem sumFourSquares_wrapper (special : Nat → Quad) (n : Nat)
    (hs : n ≠ 0 → QuadOk (sumFourSquaresInnerArg n) (special (sumFourSquaresInnerArg n))) :
    QuadOk n (sumFourSquaresWith special n) := sumFourSquaresWith_spec_arg special n hs

theorem sumFourSquares_inner_arg (n : Nat) (hn : n ≠ 0) : sumFourSquaresInnerArg n % 4 = 2 :=
  sumFourSquaresInnerArg_mod n hn

/-! ### reduction modulo 2^b − c -/

/-- `FastMod.Mod` returns `x mod p` (Euclidean) for negative, small and huge arguments. -/
theorem fastMod_correct (p : Nat) (hp : 0 < p) (x : Int) :
    (FastMod.set p).mod x = x % (p : Int) ∧ 0 ≤ (FastMod.set p).mod x ∧ (FastMod.set p).mod x < p :=
  ⟨fastMod_spec p hp x, fastMod_range p hp x⟩

/-! ### random primes, group exponent folding -/

theorem randomPrime_in_range {start length p : Nat} (h : randomPrimeInRangeOk start length p = true) :
    2 ^ start < p ∧ p < 2 ^ start + 2 ^ length ∧ p % 2 = 1 := randomPrimeInRangeOk_interval h

theorem group_exp_fold {e order r : Int} (ho : 0 < order) (h : groupFoldExp e order = some r) :
    r < order ∧ (r - e) % order = 0 ∧ (e ≥ -order → 0 ≤ r) := groupFoldExp_some ho h

/-- non-vacuity: concrete instances of the hypotheses above. -/
example : ∃ r, commonModInverse 3 7 = some r := by
  cases h : commonModInverse 3 7 with
  | some r => exact ⟨r, rfl⟩
  | none => exact absurd ((modInverse_none_iff 3 7 (by omega)).mp h) (by decide)

end Gabi.C19

#print axioms Gabi.C19.primeSqrt_two
#print axioms Gabi.C19.primeSqrt_two_sq
#print axioms Gabi.C19.primeSqrt_two_root_sq
