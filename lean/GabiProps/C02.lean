/-
  C02 — Session binding of a proof list.
  "A proof list (disclosure proofs and/or issuance commitment proofs) that verifies for one tuple
  of context, nonce, signature-session flag, ordered public keys and ordered proofs does not
  verify when any element of that tuple is changed, when proofs are reordered, dropped,
  duplicated or spliced with proofs of another session, or when the list is empty. A proof made
  for a signature session never verifies as a disclosure session proof and vice versa."

  Property theorems about `proofListVerifyWith` (prooflist.go:ProofList.Verify) of
  GabiModel.Proofs; helper lemmas live in GabiProofs.ListLogic, the hash binding in
  GabiProofs.DerLemmas (`createChallenge_binds`).

  Shape of the statements. Acceptance forces every member's own challenge field `c` to equal
  `createChallenge ctx nonce (listContributions …) issig`, where `listContributions` is the
  concatenation, in list order, of the per-proof contributions computed with the i-th key. Hence
  if one and the same proof object is a member of two accepted lists, the two hash inputs have
  the same SHA-256 value: they are equal — same context, same contribution list, same nonce,
  same flag — or they form an explicit collision `Collision a b` (`a ≠ b` with equal digests;
  the two byte strings are named in the statement, nothing is assumed about SHA-256).
  The size hypotheses (`< 256^126` bytes) are those of `createChallenge_binds`.

  `choices` is the model's parameter for the picks of `revocationAttrIndex` (one pair per proof);
  the theorems need `pl.length ≤ choices.length`; see `choices_nil_accepts` for what the model
  does otherwise.
-/
import GabiModel.Proofs
import GabiProofs.ListLogic
import GabiProofs.DerLemmas
namespace Gabi.C02
open Gabi

/-! ### the decision logic -/

/-- **An empty list is rejected** (for every key list, session and labelling). -/
theorem empty_rejected (o : SigOracle) (keys : List (String × PublicKey)) (ctx nonce : Int)
    (issig : Bool) (kss : List String) (choices : List (Int × Int)) :
    proofListVerifyWith o keys [] ctx nonce issig kss choices = .ok false := by
  rw [proofListVerifyWith_eq]; rfl

/-- a list whose length differs from the number of keys is rejected. -/
theorem length_mismatch_rejected (o : SigOracle) (keys : List (String × PublicKey))
    (pl : List Proof) (ctx nonce : Int) (issig : Bool) (kss : List String)
    (choices : List (Int × Int)) (h : pl.length ≠ keys.length) :
    proofListVerifyWith o keys pl ctx nonce issig kss choices = .ok false := by
  rw [proofListVerifyWith_eq]; simp [h]; rfl

/-- unfolding of the per-proof contribution predicate used below. -/
theorem hasContribution_d (o : SigOracle) (key : String × PublicKey) (pick : Int) (p : ProofD)
    (cs : List Int) :
    HasContribution o key pick (.d p) cs ↔
      ∃ p', (p.challengeContribution o key.1 key.2 pick).run = .ok (some (cs, p')) := Iff.rfl

theorem hasContribution_u (o : SigOracle) (key : String × PublicKey) (pick : Int) (p : ProofU)
    (cs : List Int) :
    HasContribution o key pick (.u p) cs ↔ p.challengeContribution key.2 = .ok (some cs) := Iff.rfl

/-- **What acceptance means.** An accepted list is non-empty, has one key per proof and either no
    labelling or one label per proof; every proof `i` has a challenge contribution `css[i]`
    under key `i` (the successful result of `ProofD.challengeContribution` with pick
    `choices[i].1`, resp. of `ProofU.challengeContribution`), and with
    `expected := createChallenge ctx nonce css.flatten issig` the own challenge field `c` of
    every proof equals `expected`. `css.flatten` is `listContributions o keys pl choices`. -/
theorem list_verify_logic {o : SigOracle} {keys : List (String × PublicKey)} {pl : List Proof}
    {ctx nonce : Int} {issig : Bool} {kss : List String} {choices : List (Int × Int)}
    (h : proofListVerifyWith o keys pl ctx nonce issig kss choices = .ok true)
    (hc : pl.length ≤ choices.length) :
    pl ≠ [] ∧ pl.length = keys.length ∧ (kss = [] ∨ kss.length = pl.length) ∧
    ∃ css : List (List Int),
      css.length = pl.length ∧
      css.flatten = listContributions o keys pl choices ∧
      (∀ i (hi : i < pl.length) (hk : i < keys.length) (hch : i < choices.length)
          (hcs : i < css.length),
        HasContribution o keys[i] choices[i].1 pl[i] css[i] ∧ 2 ≤ css[i].length) ∧
      (∀ q ∈ pl, q.challenge = some ((createChallenge ctx nonce css.flatten issig : Nat) : Int)) ∧
      (∀ p, Proof.d p ∈ pl → p.c = some ((createChallenge ctx nonce css.flatten issig : Nat) : Int)) ∧
      (∀ p, Proof.u p ∈ pl → p.c = some ((createChallenge ctx nonce css.flatten issig : Nat) : Int)) := by
  obtain ⟨h1, h2, h3, css, hfl, hf⟩ := accepted_logic h
  have hlen : css.length = pl.length := by
    rw [← hf.length_eq, plItems_length_of_le h2 hc]
  have hmem : ∀ q ∈ pl,
      q.challenge = some ((createChallenge ctx nonce css.flatten issig : Nat) : Int) := by
    intro q hq; rw [hfl]; exact (accepted_member h hc hq).1
  refine ⟨h1, h2, h3, css, hlen, hfl, ?_, hmem, fun p hp => hmem _ hp, fun p hp => hmem _ hp⟩
  intro i hi hk hch hcs
  have hil : i < (plItems pl keys choices).length := by
    rw [plItems_length_of_le h2 hc]; exact hi
  have hR := (List.forall₂_iff_get.1 hf).2 i hil hcs
  have hitem : (plItems pl keys choices).get ⟨i, hil⟩ = ((pl[i], keys[i]), choices[i]) := by
    simp [plItems]
  rw [hitem] at hR
  exact ⟨hR.1, hR.2.2.1⟩

/-- every per-proof contribution has at least two entries: a disclosure proof contributes
    `[A, Z, …]`, an issuance commitment proof exactly `[U, Ucommit]`. -/
theorem contribution_length_ge_two {o : SigOracle} {key : String × PublicKey} {pick : Int}
    {q : Proof} {cs : List Int} (h : HasContribution o key pick q cs) :
    2 ≤ cs.length ∧ (∀ p, q = .u p → cs.length = 2) := by
  cases q with
  | d p =>
    obtain ⟨p', hp⟩ := h
    obtain ⟨-, -, -, -, -, -, -, a, z, rest, -, -, hcs⟩ := ProofD.challengeContribution_ok hp
    refine ⟨by simp [hcs], fun p' hq => by cases hq⟩
  | u p =>
    have := (ProofU.challengeContribution_ok (show p.challengeContribution key.2 = .ok (some cs) from h)).2
    exact ⟨by omega, fun _ _ => this⟩

/-- **All members of an accepted list carry the same challenge.** -/
theorem member_challenge_eq {o : SigOracle} {keys : List (String × PublicKey)} {pl : List Proof}
    {ctx nonce : Int} {issig : Bool} {kss : List String} {choices : List (Int × Int)}
    (h : proofListVerifyWith o keys pl ctx nonce issig kss choices = .ok true)
    (hc : pl.length ≤ choices.length) {q q' : Proof} (hq : q ∈ pl) (hq' : q' ∈ pl) :
    q.challenge = q'.challenge ∧ q.challenge.isSome = true := by
  rw [(accepted_member h hc hq).1, (accepted_member h hc hq').1]; exact ⟨rfl, rfl⟩

/-! ### session binding -/

/-- **Session binding.** If a list is accepted for `(keys, ctx, nonce, issig)` and a list is
    accepted for `(keys', ctx', nonce', issig')` and one proof object is a member of both, then
    the two sessions hash the same data: same context, same ordered contribution list, same
    nonce, same session kind — or the two hash inputs are an explicit SHA-256 collision. -/
theorem session_binding {o o' : SigOracle} {keys keys' : List (String × PublicKey)}
    {pl pl' : List Proof} {ctx ctx' nonce nonce' : Int} {issig issig' : Bool}
    {kss kss' : List String} {choices choices' : List (Int × Int)}
    (h : proofListVerifyWith o keys pl ctx nonce issig kss choices = .ok true)
    (h' : proofListVerifyWith o' keys' pl' ctx' nonce' issig' kss' choices' = .ok true)
    (hc : pl.length ≤ choices.length) (hc' : pl'.length ≤ choices'.length)
    {q : Proof} (hq : q ∈ pl) (hq' : q ∈ pl')
    (hl : (challengeInput ctx nonce (listContributions o keys pl choices) issig).length < 256 ^ 126)
    (hl' : (challengeInput ctx' nonce' (listContributions o' keys' pl' choices') issig').length
      < 256 ^ 126) :
    (ctx = ctx' ∧ listContributions o keys pl choices = listContributions o' keys' pl' choices' ∧
        nonce = nonce' ∧ issig = issig') ∨
      Collision (challengeInput ctx nonce (listContributions o keys pl choices) issig)
        (challengeInput ctx' nonce' (listContributions o' keys' pl' choices') issig') := by
  have e1 := (accepted_member h hc hq).1
  have e2 := (accepted_member h' hc' hq').1
  rw [e1] at e2
  have e3 : createChallenge ctx nonce (listContributions o keys pl choices) issig =
      createChallenge ctx' nonce' (listContributions o' keys' pl' choices') issig' := by
    exact_mod_cast Option.some.inj e2
  exact challenge_eq_binds hl hl' e3

/-- **A signature-session proof is no disclosure-session proof and vice versa**: a proof that is
    a member of a list accepted with flag `issig` and of a list accepted with the other flag
    yields a collision. -/
theorem flag_binding {o o' : SigOracle} {keys keys' : List (String × PublicKey)}
    {pl pl' : List Proof} {ctx ctx' nonce nonce' : Int} {issig issig' : Bool}
    {kss kss' : List String} {choices choices' : List (Int × Int)}
    (h : proofListVerifyWith o keys pl ctx nonce issig kss choices = .ok true)
    (h' : proofListVerifyWith o' keys' pl' ctx' nonce' issig' kss' choices' = .ok true)
    (hc : pl.length ≤ choices.length) (hc' : pl'.length ≤ choices'.length)
    {q : Proof} (hq : q ∈ pl) (hq' : q ∈ pl')
    (hl : (challengeInput ctx nonce (listContributions o keys pl choices) issig).length < 256 ^ 126)
    (hl' : (challengeInput ctx' nonce' (listContributions o' keys' pl' choices') issig').length
      < 256 ^ 126) :
    issig = issig' ∨
      Collision (challengeInput ctx nonce (listContributions o keys pl choices) issig)
        (challengeInput ctx' nonce' (listContributions o' keys' pl' choices') issig') :=
  (session_binding h h' hc hc' hq hq' hl hl').imp_left (·.2.2.2)

/-- the nonce is bound. -/
theorem nonce_binding {o o' : SigOracle} {keys keys' : List (String × PublicKey)}
    {pl pl' : List Proof} {ctx ctx' nonce nonce' : Int} {issig issig' : Bool}
    {kss kss' : List String} {choices choices' : List (Int × Int)}
    (h : proofListVerifyWith o keys pl ctx nonce issig kss choices = .ok true)
    (h' : proofListVerifyWith o' keys' pl' ctx' nonce' issig' kss' choices' = .ok true)
    (hc : pl.length ≤ choices.length) (hc' : pl'.length ≤ choices'.length)
    {q : Proof} (hq : q ∈ pl) (hq' : q ∈ pl')
    (hl : (challengeInput ctx nonce (listContributions o keys pl choices) issig).length < 256 ^ 126)
    (hl' : (challengeInput ctx' nonce' (listContributions o' keys' pl' choices') issig').length
      < 256 ^ 126) :
    nonce = nonce' ∨
      Collision (challengeInput ctx nonce (listContributions o keys pl choices) issig)
        (challengeInput ctx' nonce' (listContributions o' keys' pl' choices') issig') :=
  (session_binding h h' hc hc' hq hq' hl hl').imp_left (·.2.2.1)

/-- the context is bound. -/
theorem context_binding {o o' : SigOracle} {keys keys' : List (String × PublicKey)}
    {pl pl' : List Proof} {ctx ctx' nonce nonce' : Int} {issig issig' : Bool}
    {kss kss' : List String} {choices choices' : List (Int × Int)}
    (h : proofListVerifyWith o keys pl ctx nonce issig kss choices = .ok true)
    (h' : proofListVerifyWith o' keys' pl' ctx' nonce' issig' kss' choices' = .ok true)
    (hc : pl.length ≤ choices.length) (hc' : pl'.length ≤ choices'.length)
    {q : Proof} (hq : q ∈ pl) (hq' : q ∈ pl')
    (hl : (challengeInput ctx nonce (listContributions o keys pl choices) issig).length < 256 ^ 126)
    (hl' : (challengeInput ctx' nonce' (listContributions o' keys' pl' choices') issig').length
      < 256 ^ 126) :
    ctx = ctx' ∨
      Collision (challengeInput ctx nonce (listContributions o keys pl choices) issig)
        (challengeInput ctx' nonce' (listContributions o' keys' pl' choices') issig') :=
  (session_binding h h' hc hc' hq hq' hl hl').imp_left (·.1)

/-- the ordered contribution list (hence proofs *and* keys, as far as they enter the
    contributions) is bound: splicing a member of an accepted list into another accepted list
    forces both lists to hash the same contribution list. -/
theorem contributions_binding {o o' : SigOracle} {keys keys' : List (String × PublicKey)}
    {pl pl' : List Proof} {ctx ctx' nonce nonce' : Int} {issig issig' : Bool}
    {kss kss' : List String} {choices choices' : List (Int × Int)}
    (h : proofListVerifyWith o keys pl ctx nonce issig kss choices = .ok true)
    (h' : proofListVerifyWith o' keys' pl' ctx' nonce' issig' kss' choices' = .ok true)
    (hc : pl.length ≤ choices.length) (hc' : pl'.length ≤ choices'.length)
    {q : Proof} (hq : q ∈ pl) (hq' : q ∈ pl')
    (hl : (challengeInput ctx nonce (listContributions o keys pl choices) issig).length < 256 ^ 126)
    (hl' : (challengeInput ctx' nonce' (listContributions o' keys' pl' choices') issig').length
      < 256 ^ 126) :
    listContributions o keys pl choices = listContributions o' keys' pl' choices' ∨
      Collision (challengeInput ctx nonce (listContributions o keys pl choices) issig)
        (challengeInput ctx' nonce' (listContributions o' keys' pl' choices') issig') :=
  (session_binding h h' hc hc' hq hq' hl hl').imp_left (·.2.1)

/-! ### dropped, duplicated, inserted and reordered proofs -/

/-- in an accepted list every item contributes at least two integers. -/
private theorem accepted_contribution_pos {o : SigOracle} {keys : List (String × PublicKey)}
    {pl : List Proof} {ctx nonce : Int} {issig : Bool} {kss : List String}
    {choices : List (Int × Int)}
    (h : proofListVerifyWith o keys pl ctx nonce issig kss choices = .ok true) :
    ∀ x ∈ plItems pl keys choices, 0 < (contributionOf o x).length := by
  obtain ⟨-, -, -, css, -, hf⟩ := accepted_logic h
  intro x hx
  obtain ⟨cs, -, hok⟩ := forall₂_mem_left hf hx
  rw [contributionOf_eq hok.1]
  have := hok.2.2.1
  omega

private theorem mem_of_items_sublist {keys keys' : List (String × PublicKey)} {pl pl' : List Proof}
    {choices choices' : List (Int × Int)}
    (hk : pl.length = keys.length) (hk' : pl'.length = keys'.length)
    (hc : pl.length ≤ choices.length) (hc' : pl'.length ≤ choices'.length)
    (hsub : (plItems pl' keys' choices').Sublist (plItems pl keys choices)) :
    pl'.Sublist pl := by
  have := hsub.map (·.1.1)
  rwa [plItems_map_proof hk hc, plItems_map_proof hk' hc'] at this

/-- **Dropping proofs.** Let `pl'` (with its keys and picks) be obtained from `pl` by dropping at
    least one proof together with its key: the items of `pl'` are a strictly shorter sublist of
    the items of `pl`. Then the hashed contribution lists have different lengths (every proof
    contributes at least two integers), so the two lists cannot both be accepted — under any
    contexts, nonces and flags — unless the two hash inputs are an explicit collision. -/
theorem sublist_binding {o : SigOracle} {keys keys' : List (String × PublicKey)}
    {pl pl' : List Proof} {ctx ctx' nonce nonce' : Int} {issig issig' : Bool}
    {kss kss' : List String} {choices choices' : List (Int × Int)}
    (h : proofListVerifyWith o keys pl ctx nonce issig kss choices = .ok true)
    (h' : proofListVerifyWith o keys' pl' ctx' nonce' issig' kss' choices' = .ok true)
    (hc : pl.length ≤ choices.length) (hc' : pl'.length ≤ choices'.length)
    (hsub : (plItems pl' keys' choices').Sublist (plItems pl keys choices))
    (hlt : pl'.length < pl.length)
    (hl : (challengeInput ctx nonce (listContributions o keys pl choices) issig).length < 256 ^ 126)
    (hl' : (challengeInput ctx' nonce' (listContributions o keys' pl' choices') issig').length
      < 256 ^ 126) :
    (listContributions o keys' pl' choices').length < (listContributions o keys pl choices).length ∧
    Collision (challengeInput ctx nonce (listContributions o keys pl choices) issig)
      (challengeInput ctx' nonce' (listContributions o keys' pl' choices') issig') := by
  obtain ⟨-, hk, -⟩ := accepted_logic h
  obtain ⟨hne', hk', -⟩ := accepted_logic h'
  have hlen : (listContributions o keys' pl' choices').length <
      (listContributions o keys pl choices).length := by
    unfold listContributions
    refine flatten_map_length_lt_of_sublist hsub ?_ (accepted_contribution_pos h)
    rw [plItems_length_of_le hk hc, plItems_length_of_le hk' hc']; exact hlt
  refine ⟨hlen, ?_⟩
  obtain ⟨q, hq'⟩ := List.exists_mem_of_ne_nil pl' hne'
  have hq : q ∈ pl := (mem_of_items_sublist hk hk' hc hc' hsub).subset hq'
  rcases session_binding h h' hc hc' hq hq' hl hl' with ⟨-, he, -⟩ | hcol
  · rw [he] at hlen; omega
  · exact hcol

/-- the special case "proof number `k` (and its key) removed". -/
theorem drop_binding {o : SigOracle} {keys : List (String × PublicKey)} {pl : List Proof}
    {ctx ctx' nonce nonce' : Int} {issig issig' : Bool} {kss kss' : List String}
    {choices : List (Int × Int)} {k : Nat} (hk : k < pl.length)
    (hch : choices.length = pl.length)
    (h : proofListVerifyWith o keys pl ctx nonce issig kss choices = .ok true)
    (h' : proofListVerifyWith o (keys.eraseIdx k) (pl.eraseIdx k) ctx' nonce' issig' kss'
      (choices.eraseIdx k) = .ok true)
    (hl : (challengeInput ctx nonce (listContributions o keys pl choices) issig).length < 256 ^ 126)
    (hl' : (challengeInput ctx' nonce'
      (listContributions o (keys.eraseIdx k) (pl.eraseIdx k) (choices.eraseIdx k)) issig').length
      < 256 ^ 126) :
    Collision (challengeInput ctx nonce (listContributions o keys pl choices) issig)
      (challengeInput ctx' nonce'
        (listContributions o (keys.eraseIdx k) (pl.eraseIdx k) (choices.eraseIdx k)) issig') := by
  refine (sublist_binding h h' (by omega) ?_ ?_ ?_ hl hl').2
  · rw [List.length_eraseIdx, List.length_eraseIdx]; simp [hk, hch]
  · rw [plItems_eraseIdx]; exact List.eraseIdx_sublist _ _
  · rw [List.length_eraseIdx]; simp [hk]; omega

/-- **Duplicating or inserting proofs.** Let `pl'` contain all items of `pl` in order plus at
    least one more (a duplicate of a member, or a proof of another session, anywhere). Then the
    hashed contribution lists have different lengths and the two lists cannot both be accepted
    unless the two hash inputs are an explicit collision. -/
theorem duplicate_binding {o : SigOracle} {keys keys' : List (String × PublicKey)}
    {pl pl' : List Proof} {ctx ctx' nonce nonce' : Int} {issig issig' : Bool}
    {kss kss' : List String} {choices choices' : List (Int × Int)}
    (h : proofListVerifyWith o keys pl ctx nonce issig kss choices = .ok true)
    (h' : proofListVerifyWith o keys' pl' ctx' nonce' issig' kss' choices' = .ok true)
    (hc : pl.length ≤ choices.length) (hc' : pl'.length ≤ choices'.length)
    (hsub : (plItems pl keys choices).Sublist (plItems pl' keys' choices'))
    (hlt : pl.length < pl'.length)
    (hl : (challengeInput ctx nonce (listContributions o keys pl choices) issig).length < 256 ^ 126)
    (hl' : (challengeInput ctx' nonce' (listContributions o keys' pl' choices') issig').length
      < 256 ^ 126) :
    (listContributions o keys pl choices).length < (listContributions o keys' pl' choices').length ∧
    Collision (challengeInput ctx nonce (listContributions o keys pl choices) issig)
      (challengeInput ctx' nonce' (listContributions o keys' pl' choices') issig') := by
  obtain ⟨hlen, hcol⟩ := sublist_binding h' h hc' hc hsub hlt hl' hl
  exact ⟨hlen, hcol.symm⟩

/-- **Reordering.** If the items of `pl'` are a permutation of the items of `pl` (proofs, keys
    and picks permuted alike) and both lists are accepted for the same context, nonce and flag,
    then the two *flattened* contribution lists are equal, or the hash inputs collide.
    Note what this does and does not say: a reordering that changes the concatenated
    contributions is rejected; a reordering that leaves the concatenation unchanged (e.g.
    swapping two members with identical contributions) hashes the very same bytes and is
    accepted alike — equality of the flattened lists does not by itself determine the order of
    the members. -/
theorem perm_binding {o : SigOracle} {keys keys' : List (String × PublicKey)}
    {pl pl' : List Proof} {ctx nonce : Int} {issig : Bool}
    {kss kss' : List String} {choices choices' : List (Int × Int)}
    (h : proofListVerifyWith o keys pl ctx nonce issig kss choices = .ok true)
    (h' : proofListVerifyWith o keys' pl' ctx nonce issig kss' choices' = .ok true)
    (hc : pl.length ≤ choices.length) (hc' : pl'.length ≤ choices'.length)
    (hperm : (plItems pl' keys' choices').Perm (plItems pl keys choices))
    (hl : (challengeInput ctx nonce (listContributions o keys pl choices) issig).length < 256 ^ 126)
    (hl' : (challengeInput ctx nonce (listContributions o keys' pl' choices') issig).length
      < 256 ^ 126) :
    listContributions o keys pl choices = listContributions o keys' pl' choices' ∨
      Collision (challengeInput ctx nonce (listContributions o keys pl choices) issig)
        (challengeInput ctx nonce (listContributions o keys' pl' choices') issig) := by
  obtain ⟨-, hk, -⟩ := accepted_logic h
  obtain ⟨hne', hk', -⟩ := accepted_logic h'
  obtain ⟨q, hq'⟩ := List.exists_mem_of_ne_nil pl' hne'
  have hpp : pl'.Perm pl := by
    have := hperm.map (·.1.1)
    rwa [plItems_map_proof hk hc, plItems_map_proof hk' hc'] at this
  exact contributions_binding h h' hc hc' (hpp.subset hq') hq' hl hl'

/-- contrapositive form: a reordering that changes the hashed contribution list is not accepted
    for the same session, unless the hash inputs collide. -/
theorem reorder_rejected {o : SigOracle} {keys keys' : List (String × PublicKey)}
    {pl pl' : List Proof} {ctx nonce : Int} {issig : Bool}
    {kss kss' : List String} {choices choices' : List (Int × Int)}
    (h : proofListVerifyWith o keys pl ctx nonce issig kss choices = .ok true)
    (hc : pl.length ≤ choices.length) (hc' : pl'.length ≤ choices'.length)
    (hperm : (plItems pl' keys' choices').Perm (plItems pl keys choices))
    (hdiff : listContributions o keys pl choices ≠ listContributions o keys' pl' choices')
    (hl : (challengeInput ctx nonce (listContributions o keys pl choices) issig).length < 256 ^ 126)
    (hl' : (challengeInput ctx nonce (listContributions o keys' pl' choices') issig).length
      < 256 ^ 126) :
    proofListVerifyWith o keys' pl' ctx nonce issig kss' choices' ≠ .ok true ∨
      Collision (challengeInput ctx nonce (listContributions o keys pl choices) issig)
        (challengeInput ctx nonce (listContributions o keys' pl' choices') issig) := by
  by_cases h' : proofListVerifyWith o keys' pl' ctx nonce issig kss' choices' = .ok true
  · rcases perm_binding h h' hc hc' hperm hl hl' with he | hcol
    · exact absurd he hdiff
    · exact Or.inr hcol
  · exact Or.inl h'

/-! ### single proofs: `ProofD.verifyWith`, `ProofU.verify` -/

/-- a single disclosure proof is accepted only if its own `c` is the challenge of
    `(ctx, nonce, its contribution, issig)`. -/
theorem proofD_verify_logic {o : SigOracle} {kid : String} {pk : PublicKey} {p : ProofD}
    {ctx nonce : Int} {issig : Bool} {i1 i2 : Int}
    (h : p.verifyWith o kid pk ctx nonce issig i1 i2 = .ok true) :
    (∃ p', (p.challengeContribution o kid pk i1).run = .ok (some (p.contribution o kid pk i1, p'))) ∧
    p.c = some ((createChallenge ctx nonce (p.contribution o kid pk i1) issig : Nat) : Int) :=
  ProofD.verifyWith_ok h

/-- a single issuance commitment proof is accepted only if its own `c` is the challenge of
    `(ctx, nonce, its contribution)` with the disclosure-session flag. -/
theorem proofU_verify_logic {pk : PublicKey} {p : ProofU} {ctx nonce : Int}
    (h : p.verify pk ctx nonce = .ok true) :
    p.challengeContribution pk = .ok (some (p.contribution pk)) ∧
    p.c = some ((createChallenge ctx nonce (p.contribution pk) false : Nat) : Int) :=
  ProofU.verify_ok h

/-- session binding of a single disclosure proof: accepted twice ⇒ same session data or an
    explicit collision. -/
theorem proofD_session_binding {o o' : SigOracle} {kid kid' : String} {pk pk' : PublicKey}
    {p : ProofD} {ctx ctx' nonce nonce' : Int} {issig issig' : Bool} {i1 i2 i1' i2' : Int}
    (h : p.verifyWith o kid pk ctx nonce issig i1 i2 = .ok true)
    (h' : p.verifyWith o' kid' pk' ctx' nonce' issig' i1' i2' = .ok true)
    (hl : (challengeInput ctx nonce (p.contribution o kid pk i1) issig).length < 256 ^ 126)
    (hl' : (challengeInput ctx' nonce' (p.contribution o' kid' pk' i1') issig').length < 256 ^ 126) :
    (ctx = ctx' ∧ p.contribution o kid pk i1 = p.contribution o' kid' pk' i1' ∧ nonce = nonce' ∧
        issig = issig') ∨
      Collision (challengeInput ctx nonce (p.contribution o kid pk i1) issig)
        (challengeInput ctx' nonce' (p.contribution o' kid' pk' i1') issig') := by
  have e1 := (ProofD.verifyWith_ok h).2
  have e2 := (ProofD.verifyWith_ok h').2
  rw [e1] at e2
  exact challenge_eq_binds hl hl' (by exact_mod_cast Option.some.inj e2)

/-- **a disclosure proof made for a signature session never verifies as a disclosure-session
    proof and vice versa** (single-proof form): both acceptances together are a collision. -/
theorem proofD_flag_binding {o o' : SigOracle} {kid kid' : String} {pk pk' : PublicKey}
    {p : ProofD} {ctx ctx' nonce nonce' : Int} {i1 i2 i1' i2' : Int}
    (h : p.verifyWith o kid pk ctx nonce true i1 i2 = .ok true)
    (h' : p.verifyWith o' kid' pk' ctx' nonce' false i1' i2' = .ok true)
    (hl : (challengeInput ctx nonce (p.contribution o kid pk i1) true).length < 256 ^ 126)
    (hl' : (challengeInput ctx' nonce' (p.contribution o' kid' pk' i1') false).length < 256 ^ 126) :
    Collision (challengeInput ctx nonce (p.contribution o kid pk i1) true)
      (challengeInput ctx' nonce' (p.contribution o' kid' pk' i1') false) := by
  rcases proofD_session_binding h h' hl hl' with ⟨-, -, -, hf⟩ | hcol
  · cases hf
  · exact hcol

/-- session binding of a single issuance commitment proof. -/
theorem proofU_session_binding {pk pk' : PublicKey} {p : ProofU} {ctx ctx' nonce nonce' : Int}
    (h : p.verify pk ctx nonce = .ok true) (h' : p.verify pk' ctx' nonce' = .ok true)
    (hl : (challengeInput ctx nonce (p.contribution pk) false).length < 256 ^ 126)
    (hl' : (challengeInput ctx' nonce' (p.contribution pk') false).length < 256 ^ 126) :
    (ctx = ctx' ∧ p.contribution pk = p.contribution pk' ∧ nonce = nonce') ∨
      Collision (challengeInput ctx nonce (p.contribution pk) false)
        (challengeInput ctx' nonce' (p.contribution pk') false) := by
  have e1 := (ProofU.verify_ok h).2
  have e2 := (ProofU.verify_ok h').2
  rw [e1] at e2
  rcases challenge_eq_binds hl hl' (by exact_mod_cast Option.some.inj e2) with ⟨a, b, c, -⟩ | hcol
  · exact Or.inl ⟨a, b, c⟩
  · exact Or.inr hcol

/-- a member (of either kind) of a list accepted as a *signature* session that also verifies on
    its own as a disclosure-session proof (`ProofU.verify` always is one) yields a collision. -/
theorem proofU_not_signature {o : SigOracle} {keys : List (String × PublicKey)} {pl : List Proof}
    {ctx ctx' nonce nonce' : Int} {kss : List String} {choices : List (Int × Int)}
    {p : ProofU} {pk' : PublicKey}
    (h : proofListVerifyWith o keys pl ctx nonce true kss choices = .ok true)
    (hc : pl.length ≤ choices.length) (hp : Proof.u p ∈ pl)
    (h' : p.verify pk' ctx' nonce' = .ok true)
    (hl : (challengeInput ctx nonce (listContributions o keys pl choices) true).length < 256 ^ 126)
    (hl' : (challengeInput ctx' nonce' (p.contribution pk') false).length < 256 ^ 126) :
    Collision (challengeInput ctx nonce (listContributions o keys pl choices) true)
      (challengeInput ctx' nonce' (p.contribution pk') false) := by
  have e1 : p.c = _ := (accepted_member h hc hp).1
  have e2 := (ProofU.verify_ok h').2
  rw [e1] at e2
  rcases challenge_eq_binds hl hl' (by exact_mod_cast Option.some.inj e2) with ⟨-, -, -, hf⟩ | hcol
  · cases hf
  · exact hcol

/-! ### the model parameter `choices` -/

/-- What happens when `choices` does not provide a pair for every proof: the model's loops
    range over `zip`s, so only the first `choices.length` proofs are looked at. In the extreme
    case `choices = []` every non-empty list with the right number of keys (and labels) is
    "accepted". This is an artefact of the parameterisation (Go has no such parameter; the
    harness always passes `choiceCombos (pl.map Proof.revChoices)`, whose members have length
    `pl.length`), and the reason for the hypothesis `pl.length ≤ choices.length` above. -/
theorem choices_nil_accepts (o : SigOracle) (keys : List (String × PublicKey)) (pl : List Proof)
    (ctx nonce : Int) (issig : Bool) (kss : List String)
    (h1 : pl ≠ []) (h2 : pl.length = keys.length) (h3 : kss = [] ∨ kss.length = pl.length) :
    proofListVerifyWith o keys pl ctx nonce issig kss [] = .ok true := by
  rw [proofListVerifyWith_eq]
  have hg : ¬ ((pl.isEmpty || decide (pl.length ≠ keys.length) ||
      decide (kss.length > 0) && decide (pl.length ≠ kss.length)) = true) := by
    simp only [Bool.or_eq_true, Bool.and_eq_true, decide_eq_true_eq, not_or, not_and]
    refine ⟨⟨by simpa using h1, by simpa using h2⟩, ?_⟩
    intro hpos
    rcases h3 with h3 | h3
    · subst h3; simp at hpos
    · simp [h3]
  rw [if_neg hg]
  simp only [List.zip_nil_right]
  rfl

/-- the harness' choice lists have one pair per proof. -/
theorem choiceCombos_length : ∀ (css : List (List Int)) (ch : List (Int × Int)),
    ch ∈ choiceCombos css → ch.length = css.length := by
  intro css
  induction css with
  | nil => intro ch h; simp [choiceCombos] at h; subst h; rfl
  | cons cs rest ih =>
    intro ch h
    simp only [choiceCombos, List.mem_flatMap, List.mem_map] at h
    obtain ⟨ab, -, t, ht, rfl⟩ := h
    simp [ih t ht]

/-! ### non-vacuity -/

/-- the size hypothesis is satisfiable (and harmless: 256^126 bytes is far beyond any input). -/
example : (challengeInput 5 7 [1, -129, 2 ^ 200, 3] true).length < 256 ^ 126 := by decide

/-- the acceptance hypotheses are satisfiable: `Gabi.Ex` (GabiProofs.ListLogic §9) is a
    two-proof list, accepted by the model for context 1, nonce 2 as a disclosure session, with
    any labelling of the right length; its hashed contribution list is `[1, 1, 1, 1]`. -/
example : proofListVerifyWith Ex.noOracle Ex.keys Ex.pl 1 2 false [] Ex.choices = .ok true :=
  Ex.accepted [] (Or.inl rfl)
example : Ex.pl.length ≤ Ex.choices.length := Nat.le_refl 2
example : (challengeInput 1 2 (listContributions Ex.noOracle Ex.keys Ex.pl Ex.choices) false).length
    < 256 ^ 126 := by rw [Ex.contributions]; decide

/-- `list_verify_logic` on the example: both members carry the challenge of `[1, 1, 1, 1]`. -/
example : ∀ q ∈ Ex.pl,
    q.challenge = some ((createChallenge 1 2 [1, 1, 1, 1] false : Nat) : Int) := by
  obtain ⟨-, -, -, css, -, hfl, -, hm, -⟩ :=
    list_verify_logic (Ex.accepted [] (Or.inl rfl)) (Nat.le_refl 2)
  rw [hfl, Ex.contributions] at hm
  exact hm

/-- `flag_binding` on the example: whoever gets the same list accepted as a *signature* session —
    under any context, nonce and labelling — exhibits a SHA-256 collision between the two named
    byte strings. (The hypotheses of `sublist_binding`, `duplicate_binding`, `proofD_flag_binding`
    etc. cannot be instantiated without such a collision: that is what they state.) -/
example (ctx' nonce' : Int) (kss' : List String)
    (h' : proofListVerifyWith Ex.noOracle Ex.keys Ex.pl ctx' nonce' true kss' Ex.choices = .ok true)
    (hl' : (challengeInput ctx' nonce' [1, 1, 1, 1] true).length < 256 ^ 126) :
    Collision (challengeInput 1 2 [1, 1, 1, 1] false) (challengeInput ctx' nonce' [1, 1, 1, 1] true) := by
  have hmem : Ex.pl[0]'(Nat.zero_lt_two) ∈ Ex.pl := List.getElem_mem _
  have := flag_binding (Ex.accepted [] (Or.inl rfl)) h' (Nat.le_refl 2) (Nat.le_refl 2) hmem hmem
  rw [Ex.contributions] at this
  rcases this (by decide) hl' with hf | hcol
  · cases hf
  · exact hcol

/-- **Limit of the reordering clause (model behaviour, same in Go).** The challenge hashes only
    the concatenated contributions. Two *different* proofs with identical contributions can
    therefore be swapped: the example list and its reverse (a different list) are both accepted
    for the same context, nonce, flag and keys. `perm_binding` is the exact statement: a
    reordering is detected iff it changes the concatenated contribution list. -/
theorem reorder_identical_contributions_accepted :
    Ex.pl.reverse ≠ Ex.pl ∧
    proofListVerifyWith Ex.noOracle Ex.keys Ex.pl 1 2 false [] Ex.choices = .ok true ∧
    proofListVerifyWith Ex.noOracle Ex.keys Ex.pl.reverse 1 2 false [] Ex.choices = .ok true :=
  ⟨Ex.pl_reverse_ne, Ex.accepted [] (Or.inl rfl), Ex.accepted_swapped [] (Or.inl rfl)⟩

end Gabi.C02

#print axioms Gabi.C02.empty_rejected
#print axioms Gabi.C02.length_mismatch_rejected
#print axioms Gabi.C02.list_verify_logic
#print axioms Gabi.C02.contribution_length_ge_two
#print axioms Gabi.C02.member_challenge_eq
#print axioms Gabi.C02.session_binding
#print axioms Gabi.C02.flag_binding
#print axioms Gabi.C02.nonce_binding
#print axioms Gabi.C02.context_binding
#print axioms Gabi.C02.contributions_binding
#print axioms Gabi.C02.sublist_binding
#print axioms Gabi.C02.drop_binding
#print axioms Gabi.C02.duplicate_binding
#print axioms Gabi.C02.perm_binding
#print axioms Gabi.C02.reorder_rejected
#print axioms Gabi.C02.proofD_verify_logic
#print axioms Gabi.C02.proofU_verify_logic
#print axioms Gabi.C02.proofD_session_binding
#print axioms Gabi.C02.proofD_flag_binding
#print axioms Gabi.C02.proofU_session_binding
#print axioms Gabi.C02.proofU_not_signature
#print axioms Gabi.C02.choices_nil_accepts
#print axioms Gabi.C02.choiceCombos_length
#print axioms Gabi.C02.reorder_identical_contributions_accepted
