/-
  C15 — Fiat–Shamir challenge encoding equals its specification.
  Property theorems only; helper lemmas live in GabiProofs.
-/
import GabiModel.HashTool
namespace Gabi.C15
open Gabi Gabi.Der

/-- The challenge is the SHA-256 digest, read as an unsigned big-endian integer, of the DER
    SEQUENCE (marker only for signature sessions, count, the integers in order). -/
theorem hashCommit_spec (vs : List Int) (issig : Bool) :
    hashCommit vs issig =
      ofBytesBE (Sha256.hash (derSeq ((if issig then [derBool true] else []) ++
        [derInt vs.length] ++ vs.map derInt))) := rfl

/-- `createChallenge` sandwiches the contributions between context and nonce. -/
theorem createChallenge_spec (ctx nonce : Int) (cs : List Int) (issig : Bool) :
    createChallenge ctx nonce cs issig = hashCommit (ctx :: cs ++ [nonce]) issig := rfl

end Gabi.C15
