/-
  C15 — Fiat–Shamir challenge encoding equals its specification.
  Property theorems only; helper lemmas live in GabiProofs.DerLemmas / NumLemmas.

  The Lean modules GabiModel.Der / Sha256 / HashTool are the "independently written reference";
  the correspondence run of `./check C15` compares them with common.HashCommit, GetHashNumber,
  IntHashSha256 and createChallenge output-for-output.
-/
import GabiModel.HashTool
import GabiProofs.DerLemmas
import GabiProofs.NumLemmas
namespace Gabi.C15
open Gabi Gabi.Der

/-- The challenge is the SHA-256 digest, read as an unsigned big-endian integer, of the DER
    SEQUENCE (marker only for signature sessions, element count, the integers in order). -/
theorem hashCommit_spec (vs : List Int) (issig : Bool) :
    hashCommit vs issig =
      ofBytesBE (Sha256.hash (derSeq ((if issig then [derBool true] else []) ++
        [derInt vs.length] ++ vs.map derInt))) := rfl

/-- `createChallenge` sandwiches the contributions between context and nonce. -/
theorem createChallenge_spec (ctx nonce : Int) (cs : List Int) (issig : Bool) :
    createChallenge ctx nonce cs issig = hashCommit (ctx :: cs ++ [nonce]) issig := rfl

/-- DER INTEGER contents are the minimal two's-complement octets (X.690 §8.3): `k` octets with
    `-2^(8k-1) ≤ z < 2^(8k-1)`, and no shorter length has that property. -/
theorem der_integer_minimal (z : Int) :
    (intContent z).length = intContentLen z ∧
    (-(2 : Int) ^ (8 * intContentLen z - 1) ≤ z ∧ z < 2 ^ (8 * intContentLen z - 1)) :=
  ⟨intContent_length z, intContent_range z⟩

/-- Definite lengths: short form below 128, long form from 128 on (boundary 127/128). -/
theorem der_length_forms :
    derLen 127 = [127] ∧ derLen 128 = [0x81, 128] ∧ derLen 255 = [0x81, 255] ∧
    derLen 256 = [0x82, 1, 0] ∧ derLen 65535 = [0x82, 255, 255] ∧ derLen 65536 = [0x83, 1, 0, 0] := by
  decide

/-- The encoder is injective: the hashed byte string determines the marker and the integer
    list (hence also the count and the order). The hypothesis bounds the input length by
    256^126 bytes – beyond that the long-form length-of-length octet itself would overflow
    (tight: see GabiProofs.DerLemmas). -/
theorem der_injective {vs vs' : List Int} {b b' : Bool}
    (hl : (hashCommitInput vs b).length < 256 ^ 126)
    (hl' : (hashCommitInput vs' b').length < 256 ^ 126)
    (h : hashCommitInput vs b = hashCommitInput vs' b') : vs = vs' ∧ b = b' :=
  hashCommitInput_injective hl hl' h

/-- Equal challenges ⇒ equal (marker, integers) **or** an explicit SHA-256 collision. -/
theorem hashCommit_differs {vs vs' : List Int} {b b' : Bool}
    (hl : (hashCommitInput vs b).length < 256 ^ 126)
    (hl' : (hashCommitInput vs' b').length < 256 ^ 126)
    (hne : ¬ (vs = vs' ∧ b = b')) :
    hashCommit vs b ≠ hashCommit vs' b' ∨
      (hashCommitInput vs b ≠ hashCommitInput vs' b' ∧
        Sha256.hash (hashCommitInput vs b) = Sha256.hash (hashCommitInput vs' b')) := by
  by_cases h : hashCommit vs b = hashCommit vs' b'
  · rcases hashCommit_binds hl hl' h with heq | hcol
    · exact absurd heq hne
    · exact Or.inr hcol
  · exact Or.inl h

/-- The same for the session challenge: context, contributions (count and order), nonce and
    session kind are all bound. -/
theorem challenge_binds {ctx ctx' n n' : Int} {cs cs' : List Int} {b b' : Bool}
    (hl : (hashCommitInput (ctx :: cs ++ [n]) b).length < 256 ^ 126)
    (hl' : (hashCommitInput (ctx' :: cs' ++ [n']) b').length < 256 ^ 126)
    (h : createChallenge ctx n cs b = createChallenge ctx' n' cs' b') :
    (ctx = ctx' ∧ cs = cs' ∧ n = n' ∧ b = b') ∨
      (hashCommitInput (ctx :: cs ++ [n]) b ≠ hashCommitInput (ctx' :: cs' ++ [n']) b' ∧
        Sha256.hash (hashCommitInput (ctx :: cs ++ [n]) b) =
          Sha256.hash (hashCommitInput (ctx' :: cs' ++ [n']) b')) :=
  createChallenge_binds hl hl' h

/-- the digest has 32 bytes, so the challenge is below 2^256. -/
theorem hashCommit_lt (vs : List Int) (b : Bool) : hashCommit vs b < 2 ^ 256 := by
  have h := ofBytesBE_lt (Sha256.hash (hashCommitInput vs b))
  rw [Sha256.hash_length] at h
  have : (256 : Nat) ^ 32 = 2 ^ 256 := by norm_num
  unfold hashCommit; omega

private theorem foldl_add_eq_sum (f : Nat → Nat) (l : List Nat) (acc : Nat) :
    l.foldl (fun res j => res + f j) acc = acc + (l.map f).sum := by
  induction l generalizing acc with
  | nil => simp
  | cons x xs ih => simp [ih, Nat.add_assoc]

/-- The hash-to-number expansion is `Σ_{j < ⌈bitlen/256⌉} H_j · 2^(256 j)` where `H_j` is the
    challenge hash of `([a,] [b,] index, j)`. -/
theorem getHashNumber_spec (a b : Option Int) (index : Int) (bitlen : Nat) :
    getHashNumber a b index bitlen =
      ((List.range ((bitlen + 255) / 256)).map
        (fun j => hashCommit (a.toList ++ b.toList ++ [index] ++ [Int.ofNat j]) false * 2 ^ (256 * j))).sum := by
  unfold getHashNumber
  simp only []
  rw [foldl_add_eq_sum (fun j => hashCommit (a.toList ++ b.toList ++ [index] ++ [Int.ofNat j]) false * 2 ^ (256 * j))]
  simp

/-- non-vacuity of the size hypotheses: a concrete input is far below the bound. -/
example : (hashCommitInput [1, -129, 2 ^ 300] true).length < 256 ^ 126 := by decide

/-- The attribute exponent: values of at most `lm` bits are used as they are, longer ones are
    replaced by the SHA-256 of their big-endian bytes. -/
theorem attrExp_spec (lm : Nat) (a : Int) :
    attrExp lm a = if bitLen a > lm then (intHashSha256 (intBytes a) : Int) else a := rfl

end Gabi.C15
