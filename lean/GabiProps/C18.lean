/-
  C18 — Serialisation round trips preserve meaning; key files stay private.
  Property theorems only; helper lemmas live in GabiProofs.Serial / SerialKeys / NumLemmas.

  GabiModel.Serial is the executable reference: base64 (RFC 4648) and decimal codecs, the
  big.Int (un)marshalers of big/int.go, key documents as element lists with the readers of
  gabikeys/keys.go + marshaling.go (as repaired for C18), PrivateKey.WriteToFile over abstract
  file states, and the compressed event list of revocation/api.go. The correspondence run of
  `./check C18` compares it with the real code op by op; whole protocol messages are round-tripped
  through the real codecs and re-verified by the real verifier (msg-roundtrip).
-/
import GabiModel.Serial
import GabiProofs.Serial
import GabiProofs.SerialKeys
import GabiProofs.NumLemmas
namespace Gabi.C18
open Gabi Gabi.Serial

/-! ## integers -/

/-- `SetBytes(Bytes(n)) = n`: the big-endian byte form loses nothing. -/
theorem bytes_nat_roundtrip (n : Nat) : ofBytesBE (natBytesBE n) = n := ofBytesBE_natBytesBE n

/-- `SetBytes` ignores leading zero bytes. -/
theorem bytes_leading_zeros (k : Nat) (bs : List UInt8) :
    ofBytesBE (List.replicate k 0 ++ bs) = ofBytesBE bs := ofBytesBE_leading_zeros k bs

/-- RFC 4648 base64 with padding: decoding an encoding returns the bytes. -/
theorem base64_roundtrip (bs : List UInt8) : b64Decode (b64Encode bs) = some bs := b64Decode_encode bs

/-- decimal text: `SetString(String(z), 10) = z`, for naturals and signed integers. -/
theorem decimal_roundtrip (n : Nat) (z : Int) :
    decToNat? (natToDec n) = some n ∧ parseDecInt? (intToDec z) = some z :=
  ⟨decToNat_natToDec n, parseDecInt_intToDec z⟩

/-- JSON: a non-negative integer is written as a quoted base64 string and read back unchanged,
    both through encoding/json (`jsonUnmarshalInt`) and by calling `UnmarshalJSON` directly;
    the result does not depend on the previous value of the receiver. -/
theorem int_json_roundtrip (prev z : Int) (h : 0 ≤ z) :
    ∃ t, marshalJSON z = .ok t ∧ jsonUnmarshalInt prev t = .ok z ∧ unmarshalJSON prev t = .ok z := by
  refine ⟨_, marshalJSON_nonneg z h, ?_, unmarshalJSON_marshalJSON prev z h⟩
  rw [jsonUnmarshalInt_quoted, ofBytesBE_natBytesBE]
  congr 1
  simp only [Int.ofNat_eq_natCast]
  omega

/-- JSON, unquoted decimal form: read as the same value when non-negative, refused when negative. -/
theorem int_json_decimal (prev z : Int) :
    unmarshalJSON prev (intToDec z) = if z < 0 then .error .negative else .ok z :=
  unmarshalJSON_decimal prev z

/-- XML: what `MarshalXML` writes, `UnmarshalXML` reads back unchanged — or refuses if negative. -/
theorem int_xml_roundtrip (z : Int) :
    unmarshalXML (marshalXML z) = if z < 0 then .error .negative else .ok z :=
  unmarshalXML_marshalXML z

/-- binary (`MarshalBinary`/`UnmarshalBinary`) and the CBOR byte string built from it. -/
theorem int_binary_roundtrip (z : Int) (h : 0 ≤ z) :
    unmarshalBinary (marshalBinary z) = z ∧
    ((marshalBinary z).length < 65536 → cborBytesDecode? (cborOfInt z) = some (marshalBinary z)) := by
  constructor
  · unfold unmarshalBinary marshalBinary
    rw [ofBytesBE_natBytesBE]
    simp only [Int.ofNat_eq_natCast]
    omega
  · intro hl
    exact cborBytes_roundtrip _ hl

/-- The text encodings refuse negative integers with an error instead of altering them:
    `MarshalText` (hence JSON marshalling), and reading `-d…` from XML or from unquoted JSON. -/
theorem text_rejects_negative (prev z : Int) (h : z < 0) :
    marshalText z = .error .negative ∧ marshalJSON z = .error .negative ∧
    unmarshalXML (intToDec z) = .error .negative ∧ unmarshalJSON prev (intToDec z) = .error .negative := by
  refine ⟨by simp [marshalText, h], by simp [marshalJSON, marshalText, h], ?_, ?_⟩
  · have := unmarshalXML_marshalXML z
    simpa [marshalXML, h] using this
  · have := unmarshalJSON_decimal prev z
    simpa [h] using this

/-! ## key documents -/

/-- A public key written with `WriteTo` and read back is identical in every serialised field
    (Counter, ExpiryDate, n, Z, S, G, H, every base, EpochLength, ECDSA string), for any number
    of bases and with or without the revocation part. `Valid` = the Go field types plus
    non-negative integers, a supported modulus length and a parsable ECDSA key when present. -/
theorem key_roundtrip_public (env : Env) (k : PubKeyData) (hv : k.Valid env) :
    parsePub env (printPub k) = .ok k := parsePub_printPub env k hv

/-- The same for private keys, in demo mode for any non-negative numbers, outside demo mode for
    keys that pass `Validate`. -/
theorem key_roundtrip_private (env : Env) (demo : Bool) (k : PrivKeyData) (hv : k.Valid env demo) :
    parsePriv env demo (printPriv k) = .ok k := parsePriv_printPriv env demo k hv

/-- Missing mandatory elements: a public key document without `n`, `Z` or `S`, a private key
    document without `p`, `q`, `pPrime` or `qPrime` is refused (in demo mode too). -/
theorem key_parse_rejects_missing (env : Env) (doc : KeyDoc) (name : String) :
    (name ∈ ["n", "Z", "S"] → (∀ t, Item.elem name t ∉ doc.items) → IsError (parsePub env doc)) ∧
    (∀ demo, name ∈ ["p", "q", "pPrime", "qPrime"] → (∀ t, Item.elem name t ∉ doc.items) →
      IsError (parsePriv env demo doc)) :=
  ⟨parsePub_missing env doc name, fun demo => parsePriv_missing env demo doc name⟩

/-- Negative or non-decimal numbers: a document in which any occurrence of a big-integer
    element holds a text that is not a base 10 integer, or a negative one, is refused. -/
theorem key_parse_rejects_bad_number (env : Env) (doc : KeyDoc) (name : String) (t : Text)
    (hbad : BadNumber t) (hmem : Item.elem name t ∈ doc.items) :
    (name ∈ pubBigNames → IsError (parsePub env doc)) ∧
    (∀ demo, name ∈ privBigNames → IsError (parsePriv env demo doc)) := by
  constructor
  · intro hn
    unfold parsePub
    split_ifs
    · exact ⟨_, rfl⟩
    · obtain ⟨e, he⟩ := foldItems_error_of_mem pubStep doc.items _ hmem
        (fun acc => pubStep_bad_number acc name t hn hbad) {}
      rw [he]; exact ⟨e, rfl⟩
  · intro demo hn
    unfold parsePriv
    by_cases hroot : doc.ns ≠ idemixNs ∨ doc.root ≠ "IssuerPrivateKey"
    · rw [if_pos hroot]; exact ⟨_, rfl⟩
    · rw [if_neg hroot]
      obtain ⟨e, he⟩ := foldItems_error_of_mem privStep doc.items _ hmem
        (fun acc => privStep_bad_number acc name t hn hbad) {}
      rw [he]; exact ⟨e, rfl⟩

/-- every negative number is such a bad text. -/
theorem negative_is_bad_number (z : Int) (h : z < 0) : BadNumber (intToDec z) := badNumber_negative z h

/-- Base lists whose count or numbers are wrong: unreadable `num`, `num` different from the
    number of entries, or an entry that is not a non-negative base 10 integer. -/
theorem key_parse_rejects_bad_bases (env : Env) (doc : KeyDoc) (num : Option Text)
    (entries : List (String × Text)) (hbad : BadBases num entries)
    (hmem : Item.bases num entries ∈ doc.items) : IsError (parsePub env doc) := by
  unfold parsePub
  split_ifs
  · exact ⟨_, rfl⟩
  · obtain ⟨e, he⟩ := foldItems_error_of_mem pubStep doc.items _ hmem
      (fun acc => pubStep_bad_bases acc num entries hbad) {}
    rw [he]; exact ⟨e, rfl⟩

/-- Unsupported modulus lengths: an accepted public key has a modulus length for which system
    parameters exist (the same reader serves XML strings, byte slices and files). -/
theorem key_parse_rejects_key_length (env : Env) (doc : KeyDoc) (k : PubKeyData)
    (h : parsePub env doc = .ok k) : env.supported (bitLen k.n) = true :=
  parsePub_ok_supported env doc k h

/-- Inconsistent or non-safe primes outside demo mode: an accepted private key has
    `p' = (p-1)/2`, `q' = (q-1)/2` and both `p` and `q` pass the safe-prime test. -/
theorem key_parse_rejects_bad_primes (env : Env) (doc : KeyDoc) (k : PrivKeyData)
    (h : parsePriv env false doc = .ok k) :
    (k.p - 1) / 2 = k.pPrime ∧ (k.q - 1) / 2 = k.qPrime ∧ safePrime k.p = true ∧ safePrime k.q = true :=
  validatePriv_ok k (parsePriv_ok_validated env doc k h)

/-- non-vacuity of `Valid`: a key with three bases (one of them 0), `H` but no `G`, a negative
    expiry date. -/
example : PubKeyData.Valid { supported := fun _ => true, ecdsaOk := fun _ => false }
    { counter := 3, expiry := -5, n := 11, z := 2, s := 3, g := none, h := some 4, r := [0, 7, 10],
      epoch := 432000, ecdsa := [] } := by
  constructor <;> simp <;> decide

/-- non-vacuity for private keys in demo mode. -/
example : PrivKeyData.Valid { supported := fun _ => true, ecdsaOk := fun _ => false } true
    { counter := 0, expiry := 0, p := 11, q := 23, pPrime := 5, qPrime := 11, ecdsa := [] } := by
  constructor <;> simp

/-! ## private key files -/

/-- After a successful `PrivateKey.WriteToFile` the file the path resolves to has no group or
    other permission bits, whatever was at the path before (nothing, a file of any mode, a
    directory, a symbolic link to any of these), for every umask, with and without
    `forceOverwrite`, privileged or not. (POSIX open/fchmod semantics as modelled in
    `FilePerm.writeToFile` are the assumption; the filemode op compares them with the kernel.) -/
theorem private_key_mode (p : FilePerm.Proc) (force : Bool) (prior : FilePerm.Prior) (m : Nat)
    (h : FilePerm.writeToFile p force prior = .ok m) : m &&& 0o077 = 0 :=
  FilePerm.writeToFile_private p force prior m h

/-- The statement is not vacuous, and both ingredients of the code are needed: with `os.Create`
    semantics (mode 0666, no fchmod) an existing 0644 file stays group/world readable and a new
    one is created 0644 under the usual umask. -/
theorem private_key_mode_needs_fchmod :
    FilePerm.writeToFile { umask := 0o022, root := false } true (.file 0o644) = .ok 0o600 ∧
    FilePerm.writeToFileOsCreate { umask := 0o022, root := false } true (.file 0o644) = .ok 0o644 ∧
    FilePerm.writeToFileOsCreate { umask := 0o022, root := false } true .absent = .ok 0o644 := by
  decide

/-! ## compressed event lists -/

/-- `EventList`/`Update` transport only the first index, the first parent hash and the `E`s;
    for a chain that `Verify` accepts (consecutive indices, each parent hash the hash of the
    event before) the receiver rebuilds exactly the events that were sent. -/
theorem compressed_update_roundtrip {H : Type} (hash : Events.Event H → H) (dflt : H)
    (evs : List (Events.Event H)) (hc : Events.Chained hash evs) :
    Events.uncompress hash (Events.compress dflt evs) = evs :=
  Events.uncompress_compress hash dflt evs hc

end Gabi.C18
