/-
  C18 (part) — closure of the wire round trip of disclosure proofs.
  GabiProps.C18Omit shows `Decode.proofD p.toTree = .ok p.strip` for proofs `p` that meet `WireOk`
  and `MapsSorted`, and that stripping does not change the verdict. This file shows the converse:
  whatever the decoder returns meets these hypotheses, so the round trip can be iterated and the
  statements apply to every proof a verifier actually holds; and that the order in which the maps
  of a proof are listed does not matter for verification at all, which removes `MapsSorted`.
  Helper lemmas: GabiProofs.ProofCodecClosure (decoder inversion, fixed points, counterexamples),
  GabiProofs.ProofPerm (order independence of the verifier).
-/
import GabiModel.Proofs
import GabiModel.Decode
import GabiProofs.OmittedFields
import GabiProofs.ProofCodec
import GabiProofs.ProofPerm
import GabiProofs.ProofCodecClosure
namespace Gabi.C18
open Gabi Gabi.Wire Lean

/-! ## GOAL 1 — what the decoder returns meets the hypotheses of the round-trip theorems

  `AllWF j`: every object node of the tree is a well-formed `Std.TreeMap.Raw` (the notion used by
  `decoded_responses_nodup`; true of parsed trees and of trees built with `Json.mkObj`).
  `CanonTree j`: the integer keys of the `a_responses`, `a_disclosed` and `rangeproofs` objects are
  canonically spelled (`k = toString z` whenever `k` parses to `z`) and the `responses` object of
  the non-revocation proof has no member "alpha". Both conditions are needed, see the
  counterexamples below. -/

/-- Every proof the decoder accepts from a well-formed tree is one the wire can carry: integers
    non-negative (unless the decoder is called directly), map keys distinct and within 64 bits,
    counters within 64 bits. No condition on the spelling of the tree. -/
theorem decoded_wire_ok (j : Json) (hwf : AllWF j) (direct : Bool) (p : ProofD)
    (h : Decode.proofD j direct = .ok p) : p.WireOk direct := Gabi.decoded_wireOk hwf h

/-- The fields that are not serialised are empty in a decoded proof: `nu` and `challenge` of the
    non-revocation proof, `mResponse` of every range proof (no well-formedness needed). -/
theorem decoded_omitted_fields_empty (j : Json) (direct : Bool) (p : ProofD)
    (h : Decode.proofD j direct = .ok p) :
    (∀ nr, p.nonrev = some nr → nr.nu = none ∧ nr.challenge = none) ∧ p.stripRange = p :=
  Gabi.decoded_omitted_empty h

/-- GOAL 1. A proof decoded from a well-formed, canonically spelled tree lists its maps in key-text
    order with distinct keys, carries only what the wire can carry, and has no omitted-field
    content: it meets the hypotheses of `decode_encode_sorted` / `reread_verifies_same`. -/
theorem decoded_meets_hypotheses (j : Json) (hwf : AllWF j) (hc : CanonTree j) (direct : Bool) (p : ProofD)
    (h : Decode.proofD j direct = .ok p) : p.MapsSorted ∧ p.WireOk direct ∧ p.strip = p :=
  Gabi.decoded_meets_hypotheses hwf hc h

/-- The canonical tree of any proof the wire can carry is itself well-formed and canonically
    spelled — so GOAL 1 applies to everything `ProofD.toTree` produces. -/
theorem canonical_tree_closed (direct : Bool) (p : ProofD) (hw : p.WireOk direct) :
    AllWF p.toTree ∧ CanonTree p.toTree := ⟨ProofD.toTree_allWF hw, ProofD.toTree_canon hw⟩

/-- `CanonTree` cannot be dropped from the first conjunct: the decoder (like `strconv.ParseInt`
    behind encoding/json) accepts the key "007" for 7. The well-formed tree
    `{"a_responses": {"007": 1, "1": 2}}` decodes to `AResponses = [(7,1), (1,2)]`, which is not
    in the order of the canonical key texts "7", "1". -/
theorem decoded_not_sorted_counterexample (direct : Bool) :
    AllWF cexKeyTree ∧ Decode.proofD cexKeyTree direct = .ok cexKeyProof ∧ ¬ cexKeyProof.MapsSorted :=
  ⟨cexKeyTree_allWF, cexKeyTree_decodes direct, cexKeyProof_not_sorted⟩

/-- `CanonTree` cannot be dropped from the third conjunct either: a tree may carry an "alpha"
    response (which an honest prover never sends and `SetExpected` overwrites); the decoder keeps
    it, `strip` removes it. -/
theorem decoded_alpha_counterexample (direct : Bool) :
    AllWF cexAlphaTree ∧ Decode.proofD cexAlphaTree direct = .ok cexAlphaProof ∧
      cexAlphaProof.strip ≠ cexAlphaProof :=
  ⟨cexAlphaTree_allWF, cexAlphaTree_decodes direct, cexAlphaProof_strip⟩

/-- Without `CanonTree` the closest true statement: one trip over the wire normalises the proof.
    The re-read proof `p.reread` (omitted fields cleared, maps in key-text order) meets all three
    hypotheses. -/
theorem reread_meets_hypotheses (direct : Bool) (p : ProofD) (hw : p.WireOk direct) :
    p.reread.MapsSorted ∧ p.reread.WireOk direct ∧ p.reread.strip = p.reread :=
  ProofD.reread_meets_hypotheses hw

/-! ## GOAL 2 — decoding is idempotent -/

/-- GOAL 2. Re-encoding a decoded proof canonically and decoding again returns the same proof. -/
theorem decode_idempotent (j : Json) (hwf : AllWF j) (hc : CanonTree j) (direct : Bool) (p : ProofD)
    (h : Decode.proofD j direct = .ok p) : Decode.proofD p.toTree direct = .ok p := by
  obtain ⟨hs, hw, hst⟩ := Gabi.decoded_meets_hypotheses hwf hc h
  rw [decode_encode_proofD direct p hw, ProofD.reread_eq_strip p hs, hst]

/-- For an arbitrarily spelled well-formed tree idempotence holds from the second decoding on:
    the first re-read yields `p.reread`, every further one returns `p.reread` again. -/
theorem decode_idempotent_any_spelling (j : Json) (hwf : AllWF j) (direct : Bool) (p : ProofD)
    (h : Decode.proofD j direct = .ok p) :
    Decode.proofD p.toTree direct = .ok p.reread ∧ Decode.proofD p.reread.toTree direct = .ok p.reread :=
  ⟨decode_encode_proofD direct p (Gabi.decoded_wireOk hwf h), ProofD.reread_fixed (Gabi.decoded_wireOk hwf h)⟩

/-- Issuance commitment proofs (`ProofU`): nothing is omitted, one integer-keyed map. -/
theorem decode_idempotent_proofU (j : Json) (hwf : AllWF j)
    (hc : CanonKeys (Decode.optField j "m_user_responses")) (direct : Bool) (p : ProofU)
    (h : Decode.proofU j direct = .ok p) : Decode.proofU p.toTree direct = .ok p := by
  rw [Gabi.decode_encode_proofU direct p (decoded_wireOk_proofU h),
    ProofU.reread_eq_self p (decoded_sorted_proofU hwf hc h)]

/-- … and for any spelling from the second decoding on. -/
theorem decode_idempotent_proofU_any_spelling (j : Json) (direct : Bool) (p : ProofU)
    (h : Decode.proofU j direct = .ok p) :
    Decode.proofU p.toTree direct = .ok p.reread ∧ Decode.proofU p.reread.toTree direct = .ok p.reread :=
  ⟨Gabi.decode_encode_proofU direct p (decoded_wireOk_proofU h), ProofU.reread_fixed (decoded_wireOk_proofU h)⟩

/-- Proof lists (`ProofList.UnmarshalJSON`): every member is recognised as the kind it was decoded
    as and comes back unchanged. `CanonListTree`: every element of the array is canonically
    spelled. -/
theorem decode_idempotent_proofList (j : Json) (hwf : AllWF j) (hc : CanonListTree j) (direct : Bool)
    (pl : List Proof) (h : Decode.proofList j direct = .ok pl) :
    Decode.proofList (proofListToTree pl) direct = .ok pl := by
  rw [Gabi.decode_encode_proofList direct pl (decoded_list_wireOk hwf h)]
  congr 1
  conv => rhs; rw [← List.map_id pl]
  apply List.map_congr_left
  intro pr hpr
  obtain ⟨hs, hst⟩ := decoded_list_sorted hwf hc h pr hpr
  show pr.reread = pr
  rw [Proof.reread_eq_strip pr hs, hst]

theorem decode_idempotent_proofList_any_spelling (j : Json) (hwf : AllWF j) (direct : Bool)
    (pl : List Proof) (h : Decode.proofList j direct = .ok pl) :
    Decode.proofList (proofListToTree pl) direct = .ok (pl.map Proof.reread) ∧
    Decode.proofList (proofListToTree (pl.map Proof.reread)) direct = .ok (pl.map Proof.reread) :=
  ⟨Gabi.decode_encode_proofList direct pl (decoded_list_wireOk hwf h),
    proofList_reread_fixed (decoded_list_wireOk hwf h)⟩

/-! ## GOAL 4 — the order of the maps does not matter

  (stated before GOAL 3 because the general form of GOAL 3 uses it.) `ProofD.PermEq p q`: same
  scalar members, `AResponses`, `ADisclosed`, the response map of the non-revocation proof and the
  range-proof map of `q` are permutations of those of `p`. `ProofD.KeysNodup p`: the keys of
  `AResponses`, of the responses other than "alpha" and of the range-proof map are distinct
  (these maps are looked up; `ADisclosed` is only traversed and needs no condition). -/

/-- `reconstructZ` of a well-formed proof is invariant under permutation of `ADisclosed` and
    `AResponses`: the products (over the integers for the disclosed attributes, before the
    reduction modulo `n` for the responses) commute, and every step either contributes a factor or
    ends with the same outcome (`nil` exponentiation panic resp. error return). -/
theorem reconstructZ_order_independent (pk : PublicKey) (p q : ProofD) (h : p.PermEq q)
    (hw : p.wellFormed pk = true) : p.reconstructZ pk = q.reconstructZ pk :=
  ProofD.reconstructZ_perm pk h hw

/-- Well-formedness is needed for `reconstructZ` taken alone: on a malformed proof the panic that
    is hit first depends on the order (nil attribute versus index out of range). `Verify` is not
    affected because `ChallengeContribution` checks `wellFormed` first. -/
theorem reconstructZ_order_dependent_when_malformed :
    cexOrderD1.PermEq cexOrderD2 ∧ cexOrderD1.reconstructZ cexPk ≠ cexOrderD2.reconstructZ cexPk := by
  refine ⟨cexOrder_permEq, ?_⟩
  rw [cexOrder_reconstructZ.1, cexOrder_reconstructZ.2]
  decide

/-- GOAL 4, in full. `ProofD.Verify` (for every signature oracle, key, session and picks of
    `revocationAttrIndex`) gives the same verdict — the same panic, if any — on two proofs that
    differ only in the order in which their maps are listed. The challenge hash input
    (`[A, Z] ++ non-revocation contributions ++ range contributions`) does not depend on the list
    order: `Z` is a commutative product, the non-revocation contributions read the responses by
    name, and the range contributions are collected for index 0, 1, 2, … by lookup. -/
theorem verify_order_independent (o : SigOracle) (kid : String) (pk : PublicKey) (p q : ProofD)
    (h : p.PermEq q) (hnd : p.KeysNodup) (ctx nonce : Int) (issig : Bool) (i1 i2 : Int) :
    p.verifyWith o kid pk ctx nonce issig i1 i2 = q.verifyWith o kid pk ctx nonce issig i1 i2 :=
  ProofD.verifyWith_perm o kid pk h hnd ctx nonce issig i1 i2

/-- the picks `revocationAttrIndex` can make are the same up to order. -/
theorem revChoices_order_independent (p q : ProofD) (h : p.PermEq q) : p.revChoices.Perm q.revChoices :=
  ProofD.revChoices_perm h

/-- The same for `ProofList.Verify` (disclosure and issuance commitment proofs mixed): member by
    member permuted maps, distinct looked-up keys in the disclosure proofs. -/
theorem proofList_verify_order_independent (o : SigOracle) (keys : List (String × PublicKey))
    (pl pl' : List Proof) (h : List.Forall₂ ProofPermRel0 pl pl') (ctx nonce : Int) (issig : Bool)
    (kss : List String) (choices : List (Int × Int)) :
    proofListVerifyWith o keys pl ctx nonce issig kss choices =
      proofListVerifyWith o keys pl' ctx nonce issig kss choices :=
  proofListVerifyWith_perm o keys h ctx nonce issig kss choices

/-- Consequently `reread_verifies_same` holds without `MapsSorted`: encoding any proof the wire
    can carry and decoding it again yields a proof with the same verdict, whatever the omitted
    fields held and in whatever order the maps were listed. -/
theorem reread_verifies_same_any_order (direct : Bool) (p : ProofD) (hw : p.WireOk direct) :
    ∃ q, Decode.proofD p.toTree direct = .ok q ∧ q.revChoices.Perm p.revChoices ∧
      ∀ (o : SigOracle) (kid : String) (pk : PublicKey) (ctx nonce : Int) (issig : Bool) (i1 i2 : Int),
        q.verifyWith o kid pk ctx nonce issig i1 i2 = p.verifyWith o kid pk ctx nonce issig i1 i2 :=
  ⟨p.reread, decode_encode_proofD direct p hw, ProofD.reread_revChoices hw,
    fun o kid pk ctx nonce issig i1 i2 => ProofD.reread_verifyWith hw o kid pk ctx nonce issig i1 i2⟩

/-- … and so does `reread_list_verifies_same`. -/
theorem reread_list_verifies_same_any_order (direct : Bool) (pl : List Proof)
    (hw : ∀ pr ∈ pl, pr.WireOk direct) :
    ∃ ql, Decode.proofList (proofListToTree pl) direct = .ok ql ∧
      ∀ (o : SigOracle) (keys : List (String × PublicKey)) (ctx nonce : Int) (issig : Bool)
        (kss : List String) (choices : List (Int × Int)),
        proofListVerifyWith o keys ql ctx nonce issig kss choices =
          proofListVerifyWith o keys pl ctx nonce issig kss choices :=
  ⟨pl.map Proof.reread, Gabi.decode_encode_proofList direct pl hw,
    fun o keys ctx nonce issig kss choices => proofList_reread_verify hw o keys ctx nonce issig kss choices⟩

/-! ## GOAL 3 — the verdict is stable under any number of round trips

  `rewire direct` is one trip over the wire on `Except Unit ProofD`: canonical encoding followed by
  decoding; `(rewire direct)^[n]` is `Nat.iterate`. -/

/-- For a proof decoded from a well-formed, canonically spelled tree, any number of round trips
    returns the very same proof. -/
theorem wire_roundtrip_stable (j : Json) (hwf : AllWF j) (hc : CanonTree j) (direct : Bool) (p : ProofD)
    (h : Decode.proofD j direct = .ok p) (n : Nat) : (rewire direct)^[n] (.ok p) = .ok p :=
  rewire_iterate_of_fixed (decode_idempotent j hwf hc direct p h) n

/-- GOAL 3. … hence the same `verifyWith` verdict for every oracle, key, session and picks. -/
theorem wire_roundtrip_stable_verdict (j : Json) (hwf : AllWF j) (hc : CanonTree j) (direct : Bool)
    (p : ProofD) (h : Decode.proofD j direct = .ok p) (n : Nat) :
    ∃ q, (rewire direct)^[n] (.ok p) = .ok q ∧ q = p ∧
      ∀ (o : SigOracle) (kid : String) (pk : PublicKey) (ctx nonce : Int) (issig : Bool) (i1 i2 : Int),
        q.verifyWith o kid pk ctx nonce issig i1 i2 = p.verifyWith o kid pk ctx nonce issig i1 i2 :=
  ⟨p, wire_roundtrip_stable j hwf hc direct p h n, rfl, fun _ _ _ _ _ _ _ _ => rfl⟩

/-- For an arbitrarily spelled well-formed tree the sequence is stationary from the first round
    trip on … -/
theorem wire_roundtrip_stationary (j : Json) (hwf : AllWF j) (direct : Bool) (p : ProofD)
    (h : Decode.proofD j direct = .ok p) (n : Nat) : (rewire direct)^[n + 1] (.ok p) = .ok p.reread :=
  rewire_iterate_succ (Gabi.decoded_wireOk hwf h) n

/-- GOAL 3 without `CanonTree` (uses GOAL 4): every proof decoded from a well-formed tree keeps
    its verdict through any number of round trips; no round trip fails. -/
theorem wire_roundtrip_stable_verdict_any_spelling (j : Json) (hwf : AllWF j) (direct : Bool) (p : ProofD)
    (h : Decode.proofD j direct = .ok p) (n : Nat) :
    ∃ q, (rewire direct)^[n] (.ok p) = .ok q ∧ q.revChoices.Perm p.revChoices ∧
      ∀ (o : SigOracle) (kid : String) (pk : PublicKey) (ctx nonce : Int) (issig : Bool) (i1 i2 : Int),
        q.verifyWith o kid pk ctx nonce issig i1 i2 = p.verifyWith o kid pk ctx nonce issig i1 i2 := by
  have hw := Gabi.decoded_wireOk hwf h
  cases n with
  | zero => exact ⟨p, rfl, List.Perm.refl _, fun _ _ _ _ _ _ _ _ => rfl⟩
  | succ n =>
    exact ⟨p.reread, rewire_iterate_succ hw n, ProofD.reread_revChoices hw,
      fun o kid pk ctx nonce issig i1 i2 => ProofD.reread_verifyWith hw o kid pk ctx nonce issig i1 i2⟩

/-- The same for proof lists. -/
theorem wire_roundtrip_list_stable_verdict (j : Json) (hwf : AllWF j) (direct : Bool) (pl : List Proof)
    (h : Decode.proofList j direct = .ok pl) (n : Nat) :
    ∃ ql, (rewireList direct)^[n] (.ok pl) = .ok ql ∧
      ∀ (o : SigOracle) (keys : List (String × PublicKey)) (ctx nonce : Int) (issig : Bool)
        (kss : List String) (choices : List (Int × Int)),
        proofListVerifyWith o keys ql ctx nonce issig kss choices =
          proofListVerifyWith o keys pl ctx nonce issig kss choices := by
  have hw := decoded_list_wireOk hwf h
  cases n with
  | zero => exact ⟨pl, rfl, fun _ _ _ _ _ _ _ => rfl⟩
  | succ n =>
    exact ⟨pl.map Proof.reread, rewireList_iterate_succ hw n,
      fun o keys ctx nonce issig kss choices => proofList_reread_verify hw o keys ctx nonce issig kss choices⟩

/-- With canonical spelling the list itself is reproduced. -/
theorem wire_roundtrip_list_stable (j : Json) (hwf : AllWF j) (hc : CanonListTree j) (direct : Bool)
    (pl : List Proof) (h : Decode.proofList j direct = .ok pl) (n : Nat) :
    (rewireList direct)^[n] (.ok pl) = .ok pl :=
  rewireList_iterate_of_fixed (decode_idempotent_proofList j hwf hc direct pl h) n

/-! ## non-vacuity -/

/-- a proof with a non-revocation proof and a range proof, omitted fields filled with junk, maps
    not in key-text order ("10" < "9" as texts). -/
def exC : ProofD :=
  { c := some 5, a := some 7, eResponse := some 1, vResponse := some 2,
    aResponses := [(0, some 3), (9, some 4), (10, some 6)], aDisclosed := [(2, some 9), (1, some 8)],
    nonrev := some { cr := some 2, cu := some 3, nu := some 99, challenge := some 98,
                     responses := [("epsilon", some 2), ("alpha", some 77), ("beta", some 1)],
                     sacc := some { data := some [1, 2], pkCounter := 0 } },
    rangeProofs := some [(9, [some { cs := [some 1], ds := [none], vs := [], v5 := some 3,
                                     mResponse := some 1234, ld := 8, sign := 1, a := 1, k := some 0 }])] }

theorem exC_wireOk : exC.WireOk false := by
  constructor
  · exact bigOk_some _ _ (by decide)
  · exact bigOk_some _ _ (by decide)
  · exact bigOk_some _ _ (by decide)
  · exact bigOk_some _ _ (by decide)
  · constructor
    · decide
    · simp [exC, Int64]
    · simp [exC]; exact ⟨bigOk_some _ _ (by decide), bigOk_some _ _ (by decide), bigOk_some _ _ (by decide)⟩
  · constructor
    · decide
    · simp [exC, Int64]
    · simp [exC]; exact ⟨bigOk_some _ _ (by decide), bigOk_some _ _ (by decide)⟩
  · intro nr hnr
    simp only [exC, Option.some.injEq] at hnr
    subst hnr
    constructor
    · exact bigOk_some _ _ (by decide)
    · exact bigOk_some _ _ (by decide)
    · constructor
      · decide
      · simp; exact ⟨bigOk_some _ _ (by decide), bigOk_some _ _ (by decide)⟩
    · simp
  · intro m hm
    simp only [exC, Option.some.injEq] at hm
    subst hm
    constructor
    · decide
    · simp [Int64]
    · simp
      constructor
      · simp; exact bigOk_some _ _ (by decide)
      · simp; exact bigOk_none _
      · simp
      · exact bigOk_some _ _ (by decide)
      · exact bigOk_some _ _ (by decide)
      · simp
      · simp
      · simp [Int64]

/-- the hypotheses of the GOAL 1–3 theorems are met by the canonical tree of `exC` and the proof
    decoded from it (which differs from `exC`: omitted fields cleared, maps re-ordered). -/
example : AllWF exC.toTree ∧ CanonTree exC.toTree ∧ Decode.proofD exC.toTree false = .ok exC.reread ∧
    exC.reread ≠ exC :=
  ⟨(canonical_tree_closed false exC exC_wireOk).1, (canonical_tree_closed false exC exC_wireOk).2,
    decode_encode_proofD false exC exC_wireOk, by
      intro h
      have : exC.reread.nonrev = exC.nonrev := by rw [h]
      simp only [ProofD.reread, exC, Option.map_some, Option.some.injEq] at this
      have h2 := congrArg NonRevProof.nu this
      simp [NonRevProof.reread, NonRevProof.strip] at h2⟩

/-- `PermEq` / `KeysNodup` are met by the stripped and the re-read form of `exC`. -/
example : exC.strip.PermEq exC.reread ∧ exC.strip.KeysNodup :=
  ⟨ProofD.strip_permEq_reread exC_wireOk, ProofD.strip_keysNodup exC_wireOk⟩

/-- the maps of `exC` are indeed not in key-text order. -/
example : ¬ exC.MapsSorted := by
  intro h
  have := h.aResponses
  unfold KeyedSorted exC at this
  simp only [List.pairwise_cons, List.mem_cons, forall_eq_or_imp] at this
  exact absurd this.2.1.1 (by decide)

end Gabi.C18

#print axioms Gabi.C18.decoded_wire_ok
#print axioms Gabi.C18.decoded_omitted_fields_empty
#print axioms Gabi.C18.decoded_meets_hypotheses
#print axioms Gabi.C18.canonical_tree_closed
#print axioms Gabi.C18.decoded_not_sorted_counterexample
#print axioms Gabi.C18.decoded_alpha_counterexample
#print axioms Gabi.C18.reread_meets_hypotheses
#print axioms Gabi.C18.decode_idempotent
#print axioms Gabi.C18.decode_idempotent_any_spelling
#print axioms Gabi.C18.decode_idempotent_proofU
#print axioms Gabi.C18.decode_idempotent_proofU_any_spelling
#print axioms Gabi.C18.decode_idempotent_proofList
#print axioms Gabi.C18.decode_idempotent_proofList_any_spelling
#print axioms Gabi.C18.reconstructZ_order_independent
#print axioms Gabi.C18.reconstructZ_order_dependent_when_malformed
#print axioms Gabi.C18.verify_order_independent
#print axioms Gabi.C18.revChoices_order_independent
#print axioms Gabi.C18.proofList_verify_order_independent
#print axioms Gabi.C18.reread_verifies_same_any_order
#print axioms Gabi.C18.reread_list_verifies_same_any_order
#print axioms Gabi.C18.wire_roundtrip_stable
#print axioms Gabi.C18.wire_roundtrip_stable_verdict
#print axioms Gabi.C18.wire_roundtrip_stationary
#print axioms Gabi.C18.wire_roundtrip_stable_verdict_any_spelling
#print axioms Gabi.C18.wire_roundtrip_list_stable_verdict
#print axioms Gabi.C18.wire_roundtrip_list_stable
