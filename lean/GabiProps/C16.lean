/-
  C16 — Generated issuer keys are well-formed; generation leaves no worker running.
  Property theorems only; helper lemmas live in GabiProofs.KeyGen / GabiProofs.SafePrimeWorkers.

  Model: GabiModel.KeyGen (prepareBytes, findMatch and the receive loop of generateSafePrimePair,
  CanProve, the base derivation of GenerateKeyPair, RandomQR, the predicate `failures` evaluated
  on every generated key) and GabiModel.SafePrimeWorkers (transition system of
  safeprime.GenerateConcurrent and its consumer). `./check C16` runs the real generator, and
  compares the real prepareBytes / findMatch / CanProve with the model op by op.

  Primality is a hypothesis of the theorems (`Nat.Prime`); the executable predicate decides it with
  Miller–Rabin.
-/
import GabiModel.KeyGen
import GabiModel.SafePrimeWorkers
import GabiProofs.KeyGen
import GabiProofs.SafePrimeWorkers
import Mathlib.Tactic.NormNum.LegendreSymbol
namespace Gabi.C16
open Gabi Gabi.KeyGen

/-! ### candidate primes: size and primality -/

/-- `prepareBytes` on the buffer `Generate` allocates for a `qbits`-bit candidate (`qbits ≥ 2`):
    the value has its two top bits set (so it has exactly `qbits` bits), is odd, and the length
    of the buffer is unchanged. -/
theorem prepareBytes_top_bits (bytes : List UInt8) (qbits : Nat) (hq : 2 ≤ qbits)
    (hlen : bytes.length = (qbits + 7) / 8) :
    3 * 2 ^ (qbits - 2) ≤ ofBytesBE (prepareBytes bytes (topBits qbits)) ∧
    ofBytesBE (prepareBytes bytes (topBits qbits)) < 2 ^ qbits ∧
    ofBytesBE (prepareBytes bytes (topBits qbits)) % 2 = 1 ∧
    (prepareBytes bytes (topBits qbits)).length = bytes.length :=
  KeyGen.prepareBytes_top_bits bytes qbits hq hlen

/-- The theorem in the source comment of safeprime.go: if `q` is prime and
    `2^(2q) ≡ 1 (mod 2q+1)` then `2q+1` is prime (hence a safe prime). -/
theorem safe_prime_criterion (q : Nat) (hq : q.Prime) (h : 2 ^ (2 * q) % (2 * q + 1) = 1) :
    (2 * q + 1).Prime :=
  KeyGen.safe_prime_criterion q hq h

/-- The same for the test as `Generate` computes it (square-and-multiply), with a primality test
    that is right about `q`. -/
theorem candidateOk_safe_prime (isPrime : Nat → Bool) (q : Nat) (hsound : isPrime q = true → q.Prime)
    (h : candidateOk isPrime q = true) : q.Prime ∧ (2 * q + 1).Prime := by
  simp only [candidateOk, Bool.and_eq_true, beq_iff_eq] at h
  have hq := hsound h.2
  refine ⟨hq, KeyGen.safe_prime_criterion q hq ?_⟩
  rw [← powMod_eq]; exact h.1

/-- Two factors of `k` bits whose two top bits are set have a product of exactly `2k` bits. -/
theorem product_bitlen (k p q : Nat) (hk : 2 ≤ k)
    (hp : 3 * 2 ^ (k - 2) ≤ p) (hp' : p < 2 ^ k) (hq : 3 * 2 ^ (k - 2) ≤ q) (hq' : q < 2 ^ k) :
    natBitLen (p * q) = 2 * k :=
  KeyGen.product_bitlen k p q hk hp hp' hq hq'

/-- What `Generate(k)` returns, `2q'+1` for a `(k-1)`-bit `q'` with its two top bits set, has
    exactly `k` bits and again its two top bits set; so any two outputs multiply to `2k` bits:
    the modulus has exactly the requested length `Ln = 2k`. -/
theorem generated_modulus_length (k p' q' : Nat) (hk : 3 ≤ k)
    (hp : 3 * 2 ^ (k - 3) ≤ p') (hp' : p' < 2 ^ (k - 1))
    (hq : 3 * 2 ^ (k - 3) ≤ q') (hq' : q' < 2 ^ (k - 1)) :
    natBitLen (2 * p' + 1) = k ∧ natBitLen (2 * q' + 1) = k ∧
      natBitLen ((2 * p' + 1) * (2 * q' + 1)) = 2 * k := by
  obtain ⟨a1, a2, a3⟩ := safeprime_range k p' hk hp hp'
  obtain ⟨b1, b2, b3⟩ := safeprime_range k q' hk hq hq'
  exact ⟨a3, b3, KeyGen.product_bitlen k _ _ (by omega) a1 a2 b1 b2⟩

/-! ### the pair selection -/

/-- Whatever sequence of candidates the workers deliver, a pair returned by the receive loop of
    `generateSafePrimePair` passed every filter (`p' mod 8 ≠ 1`, `q' mod 8 ≠ 1`, `p ≢ q mod 8`,
    `bitlen(p·q) = Ln`) and consists of delivered candidates. -/
theorem pairLoop_output_filtered (ln : Nat) (stream : List Nat) (p q : Nat)
    (h : pairLoop ln [] stream = some (p, q)) :
    pairFilter ln p q = true ∧ p ∈ stream ∧ q ∈ stream := by
  obtain ⟨h1, h2, h3⟩ := pairLoop_sound ln stream [] p q (by simp) h
  exact ⟨h1, h2, h3.resolve_left (by simp)⟩

/-- For `p = 2p'+1`, `q = 2q'+1` with odd `p'`, `q'` the filter implies all six residue
    conditions of `keyproof.CanProve`, `p ≠ q`, `n ≡ 5 (mod 8)`, and the modulus length. -/
theorem pair_filter_implies_canProve (ln p' q' : Nat) (hp : p' % 2 = 1) (hq : q' % 2 = 1)
    (h : pairFilter ln (2 * p' + 1) (2 * q' + 1) = true) :
    canProveResidues p' q' = true ∧ 2 * p' + 1 ≠ 2 * q' + 1 ∧
      ((2 * p' + 1) * (2 * q' + 1)) % 8 = 5 ∧ natBitLen ((2 * p' + 1) * (2 * q' + 1)) = ln := by
  have := pairFilter_canProveResidues (ln := ln) (p := 2 * p' + 1) (q := 2 * q' + 1)
    (by omega) (by omega) h
  have e1 : (2 * p' + 1) / 2 = p' := by omega
  have e2 : (2 * q' + 1) / 2 = q' := by omega
  rwa [e1, e2] at this

/-- Hence `CanProve` (model) answers true on every filtered pair of safe primes. -/
theorem filtered_pair_canProve (ln p' q' : Nat) (hp : p' % 2 = 1) (hq : q' % 2 = 1)
    (hsp : safePrimeOk (2 * p' + 1) = true) (hsq : safePrimeOk (2 * q' + 1) = true)
    (h : pairFilter ln (2 * p' + 1) (2 * q' + 1) = true) : canProve p' q' = true := by
  have := (pair_filter_implies_canProve ln p' q' hp hq h).1
  simp [canProve, hsp, hsq, this]

/-- Safe primes above 7 are `≡ 2 (mod 3)` (as are their halves), so the modulus of a generated
    key is `≡ 1 (mod 3)`; with `pair_filter_implies_canProve` it is `≡ 5 (mod 8)`. -/
theorem modulus_mod3 (p' q' : Nat) (hp : p'.Prime) (hq : q'.Prime) (hp3 : 3 < p') (hq3 : 3 < q')
    (hP : (2 * p' + 1).Prime) (hQ : (2 * q' + 1).Prime) :
    p' % 3 = 2 ∧ q' % 3 = 2 ∧ ((2 * p' + 1) * (2 * q' + 1)) % 3 = 1 := by
  have key : ∀ r : Nat, r.Prime → 3 < r → (2 * r + 1).Prime → r % 3 = 2 := by
    intro r hr h3 hR
    have h0 : r % 3 ≠ 0 := by
      intro h
      have : 3 ∣ r := Nat.dvd_of_mod_eq_zero h
      have := (Nat.prime_dvd_prime_iff_eq Nat.prime_three hr).mp this
      omega
    have h1 : r % 3 ≠ 1 := by
      intro h
      have : 3 ∣ 2 * r + 1 := Nat.dvd_of_mod_eq_zero (by omega)
      have := (Nat.prime_dvd_prime_iff_eq Nat.prime_three hR).mp this
      omega
    omega
  have a := key p' hp hp3 hP
  have b := key q' hq hq3 hQ
  refine ⟨a, b, ?_⟩
  rw [Nat.mul_mod]
  have : (2 * p' + 1) % 3 = 2 := by omega
  have : (2 * q' + 1) % 3 = 2 := by omega
  simp [*]

/-! ### the public bases -/

/-- A draw accepted as `S` (Legendre symbol 1 modulo `p` and modulo `q`) is a square modulo
    `n = p·q` and coprime to `n`. -/
theorem S_is_QR (ln p q s : Nat) [Fact p.Prime] [Fact q.Prime] (hp2 : p ≠ 2) (hq2 : q ≠ 2)
    (hpq : p ≠ q) (h : sAccepted ln p q s = true) :
    IsSquare ((s : Int) : ZMod (p * q)) ∧ Nat.Coprime s (p * q) := by
  simp only [sAccepted, Bool.and_eq_true, beq_iff_eq] at h
  exact legendre_one_isSquare_mul p q hp2 hq2 hpq s (by exact_mod_cast h.1.2) (by exact_mod_cast h.2)

/-- `Z` and every `R_i` are powers of `S` modulo `n`, i.e. lie in the submonoid generated by `S`. -/
theorem bases_in_subgroup (n s xZ : Nat) (xR : List Nat) :
    ((deriveBases n s xZ xR).z : ZMod n) ∈ Submonoid.powers (s : ZMod n) ∧
    ∀ b ∈ (deriveBases n s xZ xR).r, (b : ZMod n) ∈ Submonoid.powers (s : ZMod n) :=
  deriveBases_powers n s xZ xR

/-- With `S` a unit this is membership in the cyclic subgroup `⟨S⟩` of `(ℤ/n)ˣ`. -/
theorem bases_in_unit_subgroup {n : Nat} (u : (ZMod n)ˣ) (b : ZMod n)
    (h : b ∈ Submonoid.powers (u : ZMod n)) :
    ∃ v : (ZMod n)ˣ, (v : ZMod n) = b ∧ v ∈ Subgroup.zpowers u :=
  power_mem_zpowers u b h

/-- … and since `S` is a square, so are `Z` and the `R_i`. -/
theorem bases_are_QR (n s xZ : Nat) (xR : List Nat) (hs : IsSquare (s : ZMod n)) :
    IsSquare ((deriveBases n s xZ xR).z : ZMod n) ∧
    ∀ b ∈ (deriveBases n s xZ xR).r, IsSquare (b : ZMod n) := by
  obtain ⟨h1, h2⟩ := deriveBases_powers n s xZ xR
  exact ⟨isSquare_of_mem_powers hs h1, fun b hb => isSquare_of_mem_powers hs (h2 b hb)⟩

/-- `G` and `H` (`RandomQR`): the square of a unit, reduced modulo `n`. -/
theorem GH_are_QR {n r g : Nat} (hn : n ≠ 0) (h : randomQR n r = some g) :
    IsSquare (g : ZMod n) ∧ IsUnit (g : ZMod n) ∧ g < n :=
  randomQR_square hn h

/-! ### derived parameters -/

/-- relations between the lengths that the protocol proofs rely on (Idemix specification §2.2,
    with `l_r = Lstatzk`). -/
def ParamsConsistent (p : SysParams) : Prop :=
  p.LeCommit = p.LePrime + p.Lstatzk + p.Lh ∧
  p.LmCommit = p.Lm + p.Lstatzk + p.Lh ∧
  p.LsCommit = p.LmCommit + 1 ∧
  p.LvCommit = p.Lv + p.Lstatzk + p.Lh ∧
  p.LvPrime = p.Ln + p.Lstatzk ∧
  p.LvPrimeCommit = p.LvPrime + p.Lstatzk + p.Lh ∧
  p.LRA = p.Ln + p.Lstatzk ∧
  p.Lh ≤ p.Lm ∧
  p.Lh + p.Lm ≤ p.LmCommit ∧
  p.LePrime - 1 + p.Lh ≤ p.LeCommit ∧
  p.LePrime + 1 < p.Le ∧
  p.Lstatzk + p.Lh + max (p.Lm + 4) (p.LePrime + 2) < p.Le ∧
  p.Ln + p.Lstatzk + p.Lh + max (p.Lm + p.Lstatzk + 3) (p.Lstatzk + 2) < p.Lv

instance (p : SysParams) : Decidable (ParamsConsistent p) := by
  unfold ParamsConsistent; infer_instance

/-- every parameter set of the source table, with the derived values computed by the regenerated
    `MakeDerivedParameters`, is consistent. -/
theorem derived_params_consistent :
    ∀ e ∈ Gen.defaultBaseParameters, e.2.Ln = e.1 ∧ ParamsConsistent (SysParams.ofBase e.2) := by
  decide

/-- the same for every modulus length when the other base lengths are those of the 1024-bit
    set (the toy sets the test-suite and the correspondence run register). -/
theorem derived_params_consistent_toy (ln : Nat) :
    ParamsConsistent (SysParams.ofBase { LePrime := 120, Lh := 256, Lm := 256, Ln := ln, Lstatzk := 80 }) := by
  simp [ParamsConsistent, SysParams.ofBase, Gen.makeDerivedParameters]

/-! ### what the evaluated predicate means -/

/-- A key pair on which `KeyPairWellFormed` (the predicate the correspondence run evaluates on
    every generated key) holds, and whose `p`, `q` are prime, has: distinct primes of half the
    modulus length, `n = p·q` of exactly `Ln` bits, `p' = (p-1)/2`, `q' = (q-1)/2`, the residue
    conditions (so `CanProve` holds), all of `S, Z, G, H, R_i` squares modulo `n` and units,
    derived parameters equal to the regenerated formulas, the requested number of bases and no
    worker left. (Membership of `Z`, `R_i` in `⟨S⟩` is checked by the order criterion
    `inSubgroup`, whose justification – `QR_n` is cyclic of order `p'q'` – is proved in `GabiProps/C16Subgroup.lean` (`qr_cyclic`, `inSubgroup_sound`, `wellFormed_bases_in_subgroup`).) -/
theorem wellFormed_sound (d : KeyPairData) (h : wellFormed d = true) [Fact d.p.Prime] [Fact d.q.Prime] :
    d.p ≠ d.q ∧ d.n = d.p * d.q ∧ natBitLen d.n = d.ln ∧
    natBitLen d.p = d.ln / 2 ∧ natBitLen d.q = d.ln / 2 ∧
    d.pPrime = (d.p - 1) / 2 ∧ d.qPrime = (d.q - 1) / 2 ∧
    d.p % 8 ≠ d.q % 8 ∧ d.pPrime % 8 ≠ 1 ∧ d.qPrime % 8 ≠ 1 ∧ canProve d.pPrime d.qPrime = true ∧
    (∀ x ∈ d.s :: d.z :: d.g :: d.h :: d.r,
      IsSquare ((x : Int) : ZMod (d.p * d.q)) ∧ Nat.Coprime x (d.p * d.q) ∧ 0 < x ∧ x < d.p * d.q) ∧
    d.params = SysParams.ofBase d.base ∧ d.base.Ln = d.ln ∧ d.r.length = d.nattr ∧ d.leaked = 0 := by
  rw [wellFormed_iff] at h
  simp only [checks, List.forall_mem_cons, List.not_mem_nil, false_imp_iff, implies_true, and_true,
    Bool.and_eq_true, beq_iff_eq, bne_iff_ne, ne_eq, List.all_eq_true] at h
  obtain ⟨h1, h2, h3, ⟨h4a, h4b⟩, ⟨h5a, h5b⟩, ⟨h6a, _⟩, h7, _, h9, ⟨h10a, h10b⟩, h11, h12, h13, h14, h15, h16,
    _, _, h19, ⟨h20a, h20b⟩, _, h22⟩ := h
  have hp2 : d.p ≠ 2 := by
    simp only [safePrimeOk, Bool.and_eq_true, decide_eq_true_eq] at h2; omega
  have hq2 : d.q ≠ 2 := by
    simp only [safePrimeOk, Bool.and_eq_true, decide_eq_true_eq] at h3; omega
  refine ⟨h1, h6a, h7, h5a, h5b, h4a, h4b, h9, h10a, h10b, h11, ?_, h20b, h20a, h19, h22⟩
  intro x hx
  simp only [List.mem_cons] at hx
  have hqr : isQR d.p d.q x = true := by
    rcases hx with rfl | rfl | rfl | rfl | hx
    · exact h12
    · exact h13
    · exact h15
    · exact h16
    · exact h14 x hx
  exact isQR_sound d.p d.q x hp2 hq2 h1 hqr

/-! ### the stop protocol of the safe-prime workers -/

open Conc.SafePrimeWorkers in
/-- Repaired send statement (`select { case <-stopped: return; case ints <- x: }`): in every
    reachable state in which the consumer has closed `stop` and no action is enabled, all `n`
    workers have returned (and `stopped` is closed). -/
theorem no_worker_left (n : Nat) (s : St) (hr : Reach .selectSend n s) (hf : s.cons = .finished)
    (hq : terminal .selectSend s = true) : s.done = n ∧ s.stopped = true :=
  quiescent_all_done (inv_of_reach hr) hf (terminal_iff.mp hq)

open Conc.SafePrimeWorkers in
/-- … and that state is reached after boundedly many steps in every schedule: any execution that
    starts after `close(stop)` has at most `measure s ≤ 6·n + 1` steps, so under any
    scheduler that keeps taking enabled steps every worker returns. -/
theorem stop_reaches_all (n : Nat) (s s' : St) (acts : List Act) (hr : Reach .selectSend n s)
    (hf : s.cons = .finished) (hrun : runActs .selectSend s acts = some s') :
    acts.length ≤ Conc.SafePrimeWorkers.measure s ∧ Conc.SafePrimeWorkers.measure s ≤ 6 * n + 1 ∧
      (terminal .selectSend s' = true → s'.done = n) := by
  have hi := inv_of_reach hr
  have h1 := run_length_le_measure acts hi hf hrun
  refine ⟨by omega, ?_, fun ht => ?_⟩
  · have := hi.workers
    have := hi.cap_eq
    simp only [Conc.SafePrimeWorkers.measure]
    split <;> omega
  · have hr' := reach_of_runActs acts hr hrun
    have hf' : s'.cons = .finished := by
      clear h1 hr'
      induction acts generalizing s with
      | nil => simp [runActs] at hrun; subst hrun; exact hf
      | cons a as ih =>
        simp only [runActs] at hrun
        cases hst : step .selectSend s a with
        | none => rw [hst] at hrun; exact absurd hrun (by simp)
        | some s1 =>
          rw [hst] at hrun
          exact ih s1 (Reach.step a hr hst) (finished_stable hf hst) hrun (inv_step hi hst)
    exact (no_worker_left n s' hr' hf' ht).1

open Conc.SafePrimeWorkers in
/-- The send statement before the repair (`default: ints <- x`) does NOT have the property: for
    every `n ≥ 1` there is a schedule (the consumer is descheduled between its last receive and
    `close(stop)`) after which no action is enabled and all `n` workers wait at the send forever. -/
theorem old_send_strands_all_workers (n : Nat) (hn : 0 < n) :
    ∃ s, Reach .blockingSend n s ∧ s.cons = .finished ∧ s.stopped = true ∧
      terminal .blockingSend s = true ∧ s.done = 0 ∧ s.sending = n :=
  ⟨leakState n, reach_of_runActs (leakSchedule n) Reach.init (run_leakSchedule .blockingSend n hn),
    rfl, rfl, terminal_iff.mpr (leakState_terminal n), rfl, rfl⟩

open Conc.SafePrimeWorkers in
/-- The same schedule is harmless for the repaired send statement: from its end state all workers
    still return. -/
theorem repaired_send_survives_leak_schedule (n : Nat) (hn : 0 < n) :
    Reach .selectSend n (leakState n) ∧ terminal .selectSend (leakState n) = (n == 0) := by
  refine ⟨reach_of_runActs (leakSchedule n) Reach.init (run_leakSchedule .selectSend n hn), ?_⟩
  have : (n == 0) = false := by simp; omega
  rw [this]
  simp [terminal, allActs, step, leakState]
  omega

/-! ### non-vacuity -/

/-- the filter is satisfiable by safe primes: `p = 23 = 2·11+1`, `q = 11 = 2·5+1`, `Ln = 8`. -/
example : pairFilter 8 23 11 = true ∧ canProve 11 5 = true := by decide

/-- the receive loop returns that pair from the stream `11, 83, 23` (83 is rejected: 41 ≡ 1 mod 8). -/
example : pairLoop 8 [] [11, 83, 23] = some (23, 11) := by decide

/-- an accepted `S` exists: 4 is a square modulo 23 and 11. -/
example : sAccepted 8 23 11 4 = true := by
  have h1 : legendreSymbol ((4 : Nat) : Int) ((23 : Nat) : Int) = 1 := by
    rw [legendreSymbol_eq_jacobiSym _ 23 (by norm_num)]; norm_num
  have h2 : legendreSymbol ((4 : Nat) : Int) ((11 : Nat) : Int) = 1 := by
    rw [legendreSymbol_eq_jacobiSym _ 11 (by norm_num)]; norm_num
  simp only [sAccepted, Bool.and_eq_true, beq_iff_eq, decide_eq_true_eq, Bool.not_eq_true',
    decide_eq_false_iff_not]
  exact ⟨⟨⟨by norm_num, by norm_num⟩, by exact_mod_cast h1⟩, by exact_mod_cast h2⟩

end Gabi.C16
