/-
  C01 — An accepted disclosure proof is internally consistent (decision-logic part).
  Property theorems about `ProofD.verifyWith` of the executable model GabiModel.Proofs (compared
  output-for-output with `ProofD.Verify` of proofs.go by `./check C01`): whenever the verdict is
  "accepted", the proof is well-formed for the key (disclosed / hidden indices partition, all
  inside the key's bases, secret key hidden), every response lies in the range the protocol
  allows, the challenge is the hash of context, reconstructed commitments and nonce, and every
  range proof has been structure-checked against the hidden response of its own index.
  The statements hold for every key, every oracle for the accumulator signature and every
  choice `i1`, `i2` of the two `revocationAttrIndex` calls. Helper lemmas: GabiProofs.VerifyLogic.
-/
import GabiModel.Proofs
import GabiModel.Prover
import GabiProofs.VerifyLogic
import GabiProofs.ParamsC01
import GabiProofs.GroupAlgebra
namespace Gabi.C01
open Gabi

section
variable {o : SigOracle} {kid : String} {pk : PublicKey} {p : ProofD} {ctx nonce : Int}
  {issig : Bool} {i1 i2 : Int}

/-- An accepted proof passes `wellFormed`; spelled out: no index is reported both as disclosed
    and as hidden, every disclosed and every hidden index refers to an existing base of the key
    (`0 ≤ k < len R`), every listed value is present, and the secret key (index 0) is hidden. -/
theorem accept_partition (h : p.verifyWith o kid pk ctx nonce issig i1 i2 = .ok true) :
    p.wellFormed pk = true ∧
    (∀ kv ∈ p.aDisclosed, ¬ p.aResponses.has kv.1) ∧
    (∀ kv ∈ p.aDisclosed, kv.2.isSome ∧ 0 ≤ kv.1 ∧ kv.1 < pk.r.length) ∧
    (∀ kv ∈ p.aResponses, kv.2.isSome ∧ 0 ≤ kv.1 ∧ kv.1 < pk.r.length) ∧
    (p.aResponses.get 0).isSome := by
  have hw := (ProofD.accept_facts h).1
  obtain ⟨_, h0, hA, hD, _⟩ := (ProofD.wellFormed_iff pk p).mp hw
  refine ⟨hw, ?_, ?_, hA, h0⟩
  · intro kv hkv; simp [(hD kv hkv).2.2.2]
  · intro kv hkv; exact ⟨(hD kv hkv).1, (hD kv hkv).2.1, (hD kv hkv).2.2.1⟩

/-- An accepted proof never reports a negative value that was hashed by magnitude: a disclosed
    value longer than `Lm` bits enters `reconstructZ` as the SHA-256 of the bytes of its absolute
    value (`attrExp`), so `-x` would verify wherever an oversized signed `x` does; `wellFormed`
    rejects such a value (for every entry of the disclosed map, in any order, before anything is
    reconstructed), hence no accepted proof contains one. No side condition. -/
theorem accept_disclosed_not_negative_oversized
    (h : p.verifyWith o kid pk ctx nonce issig i1 i2 = .ok true) :
    ∀ i a, (i, some a) ∈ p.aDisclosed → ¬ (a < 0 ∧ bitLen a > pk.params.Lm) := by
  have hw := (ProofD.accept_facts h).1
  obtain ⟨_, _, _, _, _, hN⟩ := (ProofD.wellFormed_iff pk p).mp hw
  intro i a hia
  exact hN (i, some a) hia a rfl

/-- In an accepted proof every hidden-value response lies in `[0, 2^(LmCommit+1))` and the
    exponent response in `[0, 2^(LeCommit+1))` (`correctResponseSizes`; in particular none is
    missing or negative). -/
theorem accept_ranges (h : p.verifyWith o kid pk ctx nonce issig i1 i2 = .ok true) :
    (∀ kv ∈ p.aResponses, ∃ r, kv.2 = some r ∧ 0 ≤ r ∧ r < 2 ^ (pk.params.LmCommit + 1)) ∧
    (∃ e, p.eResponse = some e ∧ 0 ≤ e ∧ e < 2 ^ (pk.params.LeCommit + 1)) := by
  obtain ⟨hA, e, he, he0, he1⟩ := (ProofD.accept_facts h).2.1
  refine ⟨?_, e, he, he0, Int.lt_of_le_sub_one he1⟩
  intro kv hkv
  obtain ⟨r, hr, h0, h1⟩ := hA kv hkv
  exact ⟨r, hr, h0, Int.lt_of_le_sub_one h1⟩

/-- The challenge of an accepted proof is the Fiat–Shamir hash of the context, the commitments
    the verifier reconstructs from the proof (`challengeContribution`, for the first choice
    `i1`) and the nonce. -/
theorem accept_challenge (h : p.verifyWith o kid pk ctx nonce issig i1 i2 = .ok true) :
    ∃ contrib p', (p.challengeContribution o kid pk i1).run = .ok (some (contrib, p')) ∧
      p.c = some ((createChallenge ctx nonce contrib issig : Nat) : Int) :=
  (ProofD.accept_facts h).2.2

/-- Every range proof of an accepted proof is checked (used by C12), `lookup` form: for the
    list of proofs the map yields for `index`, every non-nil proof sits on a hidden index, its
    structure can be extracted for that index, and the structure check succeeded with
    `MResponse` set to the hidden response `AResponses[index]`. No hypothesis on duplicates. -/
theorem accept_rangeproofs_lookup {rps : List (Int × List (Option RangeProof))}
    (h : p.verifyWith o kid pk ctx nonce issig i1 i2 = .ok true) (hrps : p.rangeProofs = some rps)
    {index : Int} {proofs : List (Option RangeProof)} (hl : rps.lookup index = some proofs)
    {rp : RangeProof} (hrp : some rp ∈ proofs) :
    p.aResponses.has index = true ∧ ∃ s, rp.extractStructure index pk = some s ∧
      s.verifyProofStructure pk { rp with mResponse := p.aResponses.get index } = true :=
  ProofD.accept_rangeproofs_lookup h hrps hl hrp

/-- The same for every entry of the decoded map. The hypothesis says that `rps` really is a map
    (no duplicate keys, as produced by the decoder); it is needed because `lookup` on an
    association list only sees the first entry of a key. No such hypothesis is needed for
    `aResponses`. -/
theorem accept_rangeproofs_checked {rps : List (Int × List (Option RangeProof))}
    (h : p.verifyWith o kid pk ctx nonce issig i1 i2 = .ok true) (hrps : p.rangeProofs = some rps)
    (hnd : (rps.map (·.1)).Nodup) :
    ∀ kv ∈ rps, ∀ rp, some rp ∈ kv.2 →
      p.aResponses.has kv.1 = true ∧ ∃ s, rp.extractStructure kv.1 pk = some s ∧
        s.verifyProofStructure pk { rp with mResponse := p.aResponses.get kv.1 } = true := by
  intro kv hkv rp hrp
  exact ProofD.accept_rangeproofs_lookup h hrps (lookup_of_mem_nodup hnd (show (kv.1, kv.2) ∈ rps from hkv)) hrp

/-- … and there are no nil entries: every element of every list is a range proof. -/
theorem accept_rangeproofs_nonnil {rps : List (Int × List (Option RangeProof))}
    (h : p.verifyWith o kid pk ctx nonce issig i1 i2 = .ok true) (hrps : p.rangeProofs = some rps) :
    ∀ kv ∈ rps, p.aResponses.has kv.1 = true ∧ ∀ rp ∈ kv.2, rp.isSome := by
  have hw := (ProofD.accept_facts h).1
  obtain ⟨_, _, _, _, hR, _⟩ := (ProofD.wellFormed_iff pk p).mp hw
  rw [hrps] at hR
  exact hR


/-- (used by C12) Under the hypotheses of `accept_rangeproofs_lookup`: every commitment `C_i` of
    the range proof is present and a unit modulo `n` (`0 < C_i < n`, `gcd(C_i, n) = 1`), and all
    of its responses `d_i`, `v_i`, `v5` are present and non-negative; the hidden response it is
    tied to is non-negative as well. -/
theorem accept_rangeproof_units {rps : List (Int × List (Option RangeProof))}
    (h : p.verifyWith o kid pk ctx nonce issig i1 i2 = .ok true) (hrps : p.rangeProofs = some rps)
    {index : Int} {proofs : List (Option RangeProof)} (hl : rps.lookup index = some proofs)
    {rp : RangeProof} (hrp : some rp ∈ proofs) :
    (∀ c ∈ rp.cs, ∃ x, c = some x ∧ 0 < x ∧ x < pk.n ∧ Int.gcd x pk.n = 1) ∧
    (∀ d ∈ rp.ds, ∃ x, d = some x ∧ 0 ≤ x) ∧ (∀ v ∈ rp.vs, ∃ x, v = some x ∧ 0 ≤ x) ∧
    (∃ x, rp.v5 = some x ∧ 0 ≤ x) ∧ (∃ m, p.aResponses.get index = some m ∧ 0 ≤ m) := by
  obtain ⟨_, s, _, hv⟩ := ProofD.accept_rangeproofs_lookup h hrps hl hrp
  exact RangeStructure.verifyProofStructure_units hv

/-- (used by C11) The non-revocation proof of an accepted disclosure proof has bases `C_r`, `C_u`
    that are present, positive and coprime to `n` (units modulo `n`; they need not be reduced
    below `n` — a refreshed prepared commitment may carry an unreduced `C_u`). -/
theorem accept_nonrev_units {nr : NonRevProof}
    (h : p.verifyWith o kid pk ctx nonce issig i1 i2 = .ok true) (hnr : p.nonrev = some nr) :
    ∃ cr cu, nr.cr = some cr ∧ nr.cu = some cu ∧
      0 < cr ∧ Int.gcd cr pk.n = 1 ∧ 0 < cu ∧ Int.gcd cu pk.n = 1 := by
  obtain ⟨cr, cu, h1, h2, ⟨a1, a3⟩, ⟨b1, b3⟩⟩ := ProofD.accept_nonrev_units h hnr
  exact ⟨cr, cu, h1, h2, a1, a3, b1, b3⟩
end

/-! ### non-vacuity: a concrete accepted proof

  Toy key `n = 253`, a valid signature on the attributes `[3, 5, 7]`, attribute 1 disclosed.
  The proof is produced by the prover model and accepted by `verifyWith` (checked by evaluation:
  SHA-256 and modular exponentiation do not reduce in the kernel). -/
namespace Demo

def params : SysParams := SysParams.ofBase toyBase
def sig : CLSignature := { a := 4, e := 2 ^ (params.Le - 1) + 5, v := 11 }
/-- `Z := A^e · S^v · ∏ R_i^{m_i}`, so that `sig` is a valid signature on `[3, 5, 7]`. -/
def pk : PublicKey :=
  { n := 253, s := 4, g := none, h := none, r := [9, 16, 25], counter := 0,
    z := (powMod 4 sig.e.toNat 253 * powMod 4 11 253 * powMod 9 3 253 * powMod 16 5 253 *
          powMod 25 7 253 % 253 : Nat),
    params := params, hasEcdsa := false, issuer := "demo" }
def rnd : DisclosureRandomness :=
  { r := 17, eCommit := 1234567, vCommit := 7654321, attr := [(0, 1111), (2, 2222)] }
def proof : GoM ProofD := createDisclosureProof pk sig [3, 5, 7] [1] rnd 42 43 false
def accepted : GoM Bool := do
  let p ← proof
  p.verifyWith (fun _ _ => none) "" pk 42 43 false (-1) (-1)

#guard accepted == .ok true
-- the same proof with an (empty, non-nil) range-proof map is accepted as well
#guard (do let p ← proof
           ({ p with rangeProofs := some [] }).verifyWith (fun _ _ => none) "" pk 42 43 false (-1) (-1))
        == (.ok true : GoM Bool)
-- `accept_disclosed_not_negative_oversized`: with the disclosed value replaced by a negative
-- value longer than `Lm` = 256 bits the proof is not well-formed (and not accepted); the
-- magnitude alone does not make it ill-formed
#guard (do let p ← proof
           pure (({ p with aDisclosed := [(1, some (-(2 ^ 300)))] }).wellFormed pk,
                 ({ p with aDisclosed := [(1, some (2 ^ 300))] }).wellFormed pk))
        == (.ok (false, true) : GoM (Bool × Bool))
#guard (do let p ← proof
           ({ p with aDisclosed := [(1, some (-(2 ^ 300)))] }).verifyWith (fun _ _ => none) "" pk 42 43 false (-1) (-1))
        == (.ok false : GoM Bool)

end Demo

/-! ### algebra and parameter arithmetic (helper proofs: GabiProofs.GroupAlgebra, GabiProofs.ParamsC01) -/

section Algebra
open Gabi.Alg
variable {G : Type*} [CommGroup G] {ι : Type*}

/-- **honest proofs reconstruct**: for a randomised signature `A'^e · ∏_D R_i^{a_i} · ∏_H R_j^{m_j} · S^{v'} = Z`
    the verifier's reconstruction `(Z/(A'^{E0}∏_D R_i^{a_i}))^{-c} A'^{ê} S^{v̂} ∏_H R_j^{ŝ_j}` from the
    honest responses equals the prover's commitment `A'^{ẽ} S^{ṽ} ∏_H R_j^{r_j}` — in every
    commutative group (so in particular in QR_n), for all exponents. -/
theorem honest_reconstructs {A' S Z : G} (R : ι → G) (D H : List ι) (a m rr : ι → ℤ)
    {e v' eC vC c E0 : ℤ}
    (hsig : A' ^ e * rep R a D * rep R m H * S ^ v' = Z) :
    (Z / (A' ^ E0 * rep R a D)) ^ (-c) * A' ^ (eC + c * (e - E0)) * S ^ (vC + c * v') *
        rep R (fun j => rr j + c * m j) H
      = A' ^ eC * S ^ vC * rep R rr H :=
  proofD_complete R D H a m rr hsig

/-- **special soundness**: two accepting transcripts with the same first message give
    `K^(c-c') = A'^Δe · S^Δv · ∏_H R_j^{Δs_j}` where `K = Z/(A'^{E0} ∏_D R_i^{a_i})` contains the
    *reported* disclosed values: the extractor's equation from which (CRYPTO-HYP: strong RSA,
    CL unforgeability) the disclosed values are the signed ones. -/
theorem special_soundness {A' S K T : G} (R : ι → G) (H : List ι) (s s' : ι → ℤ)
    {c c' eR eR' vR vR' : ℤ}
    (h1 : K ^ (-c) * A' ^ eR * S ^ vR * rep R s H = T)
    (h2 : K ^ (-c') * A' ^ eR' * S ^ vR' * rep R s' H = T) :
    K ^ (c - c') = A' ^ (eR - eR') * S ^ (vR - vR') * rep R (fun j => s j - s' j) H :=
  proofD_special_soundness R H s s' h1 h2
end Algebra

/-- **a trapdoor holder gains nothing by shifting a hidden response**: for every default
    parameter set (`ParamsSound`, proved from the regenerated tables) and group order
    `ord ≥ 2^(Ln-4)` (two Ln/2-bit safe primes: `order_lower_bound`), among `s + k·ord` at most
    `k = 0` passes the range check of `correctResponseSizes`. False for the toy parameters of the
    test-suite (`order_shift_toy_fails`). -/
theorem order_shift_excluded {P : SysParams} (hP : ParamsSound P) {ord s k : Int}
    (hord : 2 ^ (P.Ln - 4) ≤ ord) (hs0 : 0 ≤ s) (hs : s < 2 ^ (P.LmCommit + 1)) (hk : k ≠ 0) :
    ¬ (0 ≤ s + k * ord ∧ s + k * ord < 2 ^ (P.LmCommit + 1)) :=
  Gabi.order_shift_excluded hP hord hs0 hs hk

theorem order_shift_excluded_e {P : SysParams} (hP : ParamsSound P) {ord s k : Int}
    (hord : 2 ^ (P.Ln - 4) ≤ ord) (hs0 : 0 ≤ s) (hs : s < 2 ^ (P.LeCommit + 1)) (hk : k ≠ 0) :
    ¬ (0 ≤ s + k * ord ∧ s + k * ord < 2 ^ (P.LeCommit + 1)) :=
  Gabi.order_shift_excluded_e hP hord hs0 hs hk

/-- **… nor by shifting a disclosed value**: a different value with the same exponent modulo
    the group order is longer than `Lm` bits, so the verifier hashes it (`attrExp`) and uses a
    different exponent. -/
theorem disclosed_shift_excluded {P : SysParams} (hP : ParamsSound P) {ord a a' : Int}
    (hord : 2 ^ (P.Ln - 4) ≤ ord) (ha0 : 0 ≤ a) (ha : bitLen a ≤ P.Lm)
    (hc : a % ord = a' % ord) (hne : a ≠ a') : bitLen a' > P.Lm :=
  Gabi.disclosed_shift_excluded hP hord ha0 ha hc hne

/-- the default parameter sets of the current source satisfy the hypotheses above. -/
theorem default_params_sound {P : SysParams} (h : IsDefaultParams P) : ParamsSound P :=
  Gabi.default_params_sound h

end Gabi.C01

#print axioms Gabi.C01.accept_partition
#print axioms Gabi.C01.accept_disclosed_not_negative_oversized
#print axioms Gabi.C01.accept_ranges
#print axioms Gabi.C01.accept_challenge
#print axioms Gabi.C01.accept_rangeproofs_lookup
#print axioms Gabi.C01.accept_rangeproofs_checked
#print axioms Gabi.C01.accept_rangeproofs_nonnil
#print axioms Gabi.C01.accept_rangeproof_units
#print axioms Gabi.C01.accept_nonrev_units
