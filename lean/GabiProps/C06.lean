/-
  C06 — the issuance sub-proofs: `ProofS` (the issuer knows `e⁻¹`, so the signature was made
  with the private key) and `ProofU` (the user knows a representation of the commitment `U`).
  Completeness on the executable model, special soundness in the unit group.

  Property theorems only.  Algebra: `GabiProofs.GroupAlgebra` (A6, A7); transport:
  `GabiProofs.Bridge`, `GabiProofs.IssuanceLemmas`.
-/
import GabiModel.Prover
import GabiProofs.IssuanceLemmas
namespace Gabi.C06
open Gabi

/-- C06-1: **completeness of ProofS.**  If `A` lies in a subgroup of exponent dividing `order`
    (`A^order ≡ 1 mod n`; for an honestly issued signature `A ∈ QR_n`, `order = p'q'`), the proof
    produced by `Issuer.proveSignature` — for *any* commitment randomness `eCommit`, context and
    nonce — is accepted by `ProofS.Verify`.  `proveSignature … = some ps` contains the existence
    of `d = e⁻¹ mod order`. -/
theorem proofS_complete (pk : PublicKey) (order : Int) (sig : CLSignature)
    (ctx nonce2 eCommit : Int) (ps : ProofS)
    (hn : 1 < pk.n) (ho : 1 < order) (hA : goExp sig.a order pk.n = some 1)
    (h : proveSignature pk order sig ctx nonce2 eCommit = some ps) :
    ps.verify pk sig ctx nonce2 = .ok true := by
  obtain ⟨n, hN⟩ : ∃ n : ℕ, pk.n = n := ⟨pk.n.toNat, (Int.toNat_of_nonneg (by omega)).symm⟩
  have hn' : 1 < n := by rw [hN] at hn; exact_mod_cast hn
  exact proofS_complete_aux pk order sig ctx nonce2 eCommit ps hN hn' ho hA h

/-- C06-1 (totality): the issuer's proof computation succeeds when `e` is invertible modulo
    `order`. -/
theorem proveSignature_succeeds (pk : PublicKey) (order : Int) (sig : CLSignature)
    (ctx nonce2 eCommit : Int) (hn : 1 < pk.n) (ho : 1 < order)
    (hA : goExp sig.a order pk.n = some 1) (he : Int.gcd sig.e order = 1) :
    ∃ ps, proveSignature pk order sig ctx nonce2 eCommit = some ps := by
  obtain ⟨n, hN⟩ : ∃ n : ℕ, pk.n = n := ⟨pk.n.toNat, (Int.toNat_of_nonneg (by omega)).symm⟩
  have hn' : 1 < n := by rw [hN] at hn; exact_mod_cast hn
  rw [hN] at hA
  exact proveSignature_isSome pk order sig ctx nonce2 eCommit hN hn' (by omega)
    (isUnit_of_goExp_one (by omega) (by omega) hA) he

/-- C06-1 (special soundness, in `(ZMod n)ˣ`): two responses `(c, eR) ≠ (c', eR')` for which the
    verifier recomputes the same commitment `A^(c + eR·e) = A^(c' + eR'·e)` give
    `A^((c - c') + (eR - eR')·e) = 1`, i.e. a multiple of the order of `A` — from which `e⁻¹`
    modulo that order is computed when `c ≠ c'`.  (Abstract form: `Gabi.Alg.proofS_special_soundness`.) -/
theorem proofS_special_soundness (pk : PublicKey) (sig : CLSignature) (c c' eR eR' x : Int)
    (hn : 1 < pk.n) (hA : Int.gcd sig.a pk.n = 1)
    (h1 : goExp sig.a (c + eR * sig.e) pk.n = some x)
    (h2 : goExp sig.a (c' + eR' * sig.e) pk.n = some x) :
    zunit pk.n.toNat sig.a ^ ((c - c') + (eR - eR') * sig.e) = 1 := by
  obtain ⟨n, hN⟩ : ∃ n : ℕ, pk.n = n := ⟨pk.n.toNat, (Int.toNat_of_nonneg (by omega)).symm⟩
  have hn' : 1 < n := by rw [hN] at hn; exact_mod_cast hn
  rw [hN] at hA h1 h2 ⊢
  rw [Int.toNat_natCast]
  have hu := (isUnit_iff_gcd sig.a).mpr hA
  obtain ⟨_, _, c1⟩ := goExp_unit_eq hn' hu h1
  obtain ⟨_, _, c2⟩ := goExp_unit_eq hn' hu h2
  exact Alg.proofS_special_soundness (AC := zunit n sig.a ^ (c + eR * sig.e)) rfl
    (Units.ext (by rw [← c2, c1]))

/-- the parameter fact `ProofU` completeness needs: the challenge has 256 bits (SHA-256), so
    `vPrimeCommit + c·vPrime < 2^(LvPrimeCommit+1)` requires `256 + LvPrime ≤ LvPrimeCommit`. It
    holds for the three default parameter sets. -/
theorem default_params_vPrime :
    ∀ bits ∈ [1024, 2048, 4096], ∀ p, defaultSysParams bits = some p →
      256 + p.LvPrime ≤ p.LvPrimeCommit := by
  decide

/-- C06-2: **completeness of ProofU.**  A `CredentialBuilder` whose `U` is the user commitment
    to `(secret, vPrime, mUser)` (no keyshare server), with `vPrimeCommit ∈ [0, 2^LvPrimeCommit)`
    and `vPrime ∈ [0, 2^LvPrime)`, on a key with invertible `S`, `R_i`, blind-attribute indices in
    `[1, len R)`: `Commit` returns `[U, Ũ]` and the proof created for the Fiat–Shamir challenge
    of `[U, Ũ]` is accepted by `ProofU.Verify` — for every `skRandomizer`, every
    `mUserCommit`, context and nonce. -/
theorem proofU_complete (pk : PublicKey) (b : CredBuilder) (skRandomizer ctx nonce : Int)
    (hn : 1 < pk.n) (hs : Int.gcd pk.s pk.n = 1) (hr : ∀ x ∈ pk.r, Int.gcd x pk.n = 1)
    (hr0 : pk.r ≠ [])
    (hkeys : ∀ kv ∈ b.mUser, 1 ≤ kv.1 ∧ kv.1 < pk.r.length)
    (hU : userCommitment pk b.secret b.vPrime b.mUser none = .ok b.u)
    (hvc0 : 0 ≤ b.vPrimeCommit) (hvc1 : b.vPrimeCommit < 2 ^ pk.params.LvPrimeCommit)
    (hv0 : 0 ≤ b.vPrime) (hv1 : b.vPrime < 2 ^ pk.params.LvPrime)
    (hpar : 256 + pk.params.LvPrime ≤ pk.params.LvPrimeCommit) :
    ∃ Ut, b.commit pk skRandomizer = .ok [b.u, Ut] ∧
      (b.createProof skRandomizer (createChallenge ctx nonce [b.u, Ut] false)).verify pk ctx nonce =
        .ok true := by
  obtain ⟨n, hN⟩ : ∃ n : ℕ, pk.n = n := ⟨pk.n.toNat, (Int.toNat_of_nonneg (by omega)).symm⟩
  have hn' : 1 < n := by rw [hN] at hn; exact_mod_cast hn
  rw [hN] at hs hr
  exact proofU_complete_aux pk b skRandomizer ctx nonce hN hn' ((isUnit_iff_gcd _).mpr hs)
    (fun x hx => (isUnit_iff_gcd _).mpr (hr x hx)) hr0 hkeys hU hvc0 hvc1 hv0 hv1 hpar

/-- C06-2 (special soundness, abstract): see `Gabi.Alg.proofU_special_soundness`: two accepting
    transcripts with the same `U`, `Ũ` and challenges `c`, `c'` give
    `U^(c-c') = S^(Δv) · R0^(Δs) · ∏ R_i^(Δm_i)`. Restated here for the unit group of `ZMod n`. -/
theorem proofU_special_soundness {n : ℕ} {U Ut S R0 : (ZMod n)ˣ} {ι : Type} (R : ι → (ZMod n)ˣ)
    (L : List ι) (mR mR' : ι → ℤ) {c c' vR vR' sR sR' : ℤ}
    (h1 : U ^ (-c) * S ^ vR * R0 ^ sR * Alg.rep R mR L = Ut)
    (h2 : U ^ (-c') * S ^ vR' * R0 ^ sR' * Alg.rep R mR' L = Ut) :
    U ^ (c - c') = S ^ (vR - vR') * R0 ^ (sR - sR') * Alg.rep R (fun j => mR j - mR' j) L :=
  Alg.proofU_special_soundness R L mR mR' h1 h2

/-! ### non-vacuity (toy key `Gabi.toyKey`: `n = 77`, bases in `QR_77`, `order = 15`) -/

/-- hypotheses of `proofS_complete` are satisfiable: `A = 15` is the signature of C05's example
    (`15^15 ≡ 1 mod 77`). -/
example : ∃ ps, proveSignature toyKey 15 { a := 15, e := 11, v := 6 } 7 8 5 = some ps ∧
    ps.verify toyKey { a := 15, e := 11, v := 6 } 7 8 = .ok true := by
  have hA : goExp (15 : Int) 15 toyKey.n = some 1 := by
    rw [goExp_nonneg 15 15 toyKey.n (by decide) (by decide)]; decide
  obtain ⟨ps, h⟩ := proveSignature_succeeds toyKey 15 { a := 15, e := 11, v := 6 } 7 8 5
    (by decide) (by decide) hA (by decide)
  exact ⟨ps, h, proofS_complete toyKey 15 _ 7 8 5 ps (by decide) (by decide) hA h⟩

set_option exponentiation.threshold 400 in
/-- hypotheses of `proofU_complete` are satisfiable (one blind attribute at index 2). -/
example : ∃ (b : CredBuilder) (Ut : Int), b.commit toyKey 123 = .ok [b.u, Ut] ∧
    (b.createProof 123 (createChallenge 7 8 [b.u, Ut] false)).verify toyKey 7 8 = .ok true := by
  have hn : 1 < toyKey.n := by decide
  have hs : Int.gcd toyKey.s toyKey.n = 1 := by decide
  have hr : ∀ x ∈ toyKey.r, Int.gcd x toyKey.n = 1 := by decide
  obtain ⟨U, hU, _⟩ := userCommitment_spec (n := 77) toyKey 5 9 [(2, 4)] rfl (by decide)
    ((isUnit_iff_gcd _).mpr hs) (fun x hx => (isUnit_iff_gcd _).mpr (hr x hx)) (by decide)
    (by decide)
  let b : CredBuilder :=
    { secret := 5, vPrime := 9, vPrimeCommit := 1000, mUser := [(2, 4)], mUserCommit := [(2, 77)],
      u := U, keyshareP := none, context := 7, nonce2 := 8 }
  have hkeys : ∀ kv ∈ b.mUser, 1 ≤ kv.1 ∧ kv.1 < toyKey.r.length := by
    intro kv hkv
    have : kv = (2, 4) := by simpa [b] using hkv
    subst this; decide
  obtain ⟨Ut, h1, h2⟩ := proofU_complete toyKey b 123 7 8 hn hs hr (by decide) hkeys hU
    (show (0 : Int) ≤ 1000 by decide) (show (1000 : Int) < 2 ^ 300 by decide)
    (show (0 : Int) ≤ 9 by decide) (show (9 : Int) < 2 ^ 8 by decide) (by decide)
  exact ⟨b, Ut, h1, h2⟩

end Gabi.C06

#print axioms Gabi.C06.proofS_complete
#print axioms Gabi.C06.proveSignature_succeeds
#print axioms Gabi.C06.proofS_special_soundness
#print axioms Gabi.C06.default_params_vPrime
#print axioms Gabi.C06.proofU_complete
#print axioms Gabi.C06.proofU_special_soundness
