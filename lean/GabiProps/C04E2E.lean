/-
  C04 (end-to-end part) — completeness of the disclosure proof and the extractor's equation,
  for the executable model itself (to be merged into GabiProps/C04.lean).

  `GabiProps.C04` proves the parameter / shape / range part; `GabiProofs.GroupAlgebra` the algebra
  in an abstract commutative group. Here the two are joined through `GabiProofs.Bridge`
  (`goExp` ↔ `(ZMod n)ˣ`):
   7. the verifier's `reconstructZ` of an honest proof is the prover's commitment `Z~`;
   8. `ProofD.Verify` accepts the honest proof (full completeness);
   9. two model proofs with the same first message satisfy the extractor's equation;
  10. the reported disclosed values enter that equation through `attrExp` only.
  Helper lemmas: GabiProofs.DisclosureE2E. The units `zunit n x`, `E2E.baseU n pk i = zunit n R_i`,
  `E2E.knownU n pk A' disclosed = Z / (A'^(2^(Le-1)) · ∏ R_i^{attrExp a_i})` are defined in
  GabiProofs.Bridge / GabiProofs.DisclosureE2E.
-/
import GabiProps.C04
import GabiProps.C05
import GabiProofs.DisclosureE2E
namespace Gabi.C04
open Gabi

/-- the hypotheses on an issuer key used below: modulus `> 1`, and `Z`, `S`, every `R_i` coprime
    to the modulus (for a real key they are quadratic residues modulo a product of two safe
    primes). -/
structure KeyUnits (pk : PublicKey) : Prop where
  n_gt : 1 < pk.n
  z : Int.gcd pk.z pk.n = 1
  s : Int.gcd pk.s pk.n = 1
  r : ∀ b ∈ pk.r, Int.gcd b pk.n = 1

theorem KeyUnits.cast {pk : PublicKey} (h : KeyUnits pk) :
    pk.n = (pk.n.toNat : Int) ∧ 1 < pk.n.toNat ∧ IsUnit (pk.z : ZMod pk.n.toNat) ∧
      IsUnit (pk.s : ZMod pk.n.toNat) ∧ ∀ b ∈ pk.r, IsUnit (b : ZMod pk.n.toNat) := by
  have hN : pk.n = (pk.n.toNat : Int) := (Int.toNat_of_nonneg (by have := h.n_gt; omega)).symm
  refine ⟨hN, by have := h.n_gt; omega, ?_, ?_, ?_⟩
  · rw [isUnit_iff_gcd, ← hN]; exact h.z
  · rw [isUnit_iff_gcd, ← hN]; exact h.s
  · intro b hb; rw [isUnit_iff_gcd, ← hN]; exact h.r b hb

/-! ### 7. honest proofs reconstruct -/

/-- **The verifier's reconstruction equals the prover's commitment.** Key with invertible `Z`, `S`,
    `R_i`; `sig` a valid signature (without keyshare factor) on `attrs`; `D` a duplicate-free
    list of disclosed indices; *any* integers as randomness. If `CreateDisclosureProof` returns
    `p`, then the hidden indices are `U = getUndisclosedAttributes D`, the builder's `Commit` is
    `[A', Z~]`, the verifier's `reconstructZ p` returns exactly `Z~`, and the proof's challenge
    is the hash of `[A', Z~]`. (Uses `Alg.proofD_complete` in `(ZMod n)ˣ`.) -/
theorem honest_reconstructs_model (isPrime : Nat → Bool) {pk : PublicKey} (hk : KeyUnits pk)
    {sig : CLSignature} {attrs D : List Int} {rnd : DisclosureRandomness} {ctx nonce : Int}
    {issig : Bool} {p : ProofD}
    (hsig : clVerifyWith isPrime pk sig attrs = .ok true) (hkp : sig.keyshareP = none)
    (hlen : attrs.length ≤ pk.r.length) (hnd : D.Nodup)
    (h : createDisclosureProof pk sig attrs D rnd ctx nonce issig = .ok p) :
    ∃ U z, getUndisclosedAttributes D attrs.length = .ok U ∧
      disclosureCommit pk (clRandomize pk sig rnd.r) rnd U = .ok [(clRandomize pk sig rnd.r).a, z] ∧
      p.reconstructZ pk = .ok (some z) ∧ p.a = some (clRandomize pk sig rnd.r).a ∧
      p.c = some ((createChallenge ctx nonce [(clRandomize pk sig rnd.r).a, z] issig : Nat) : Int) := by
  obtain ⟨hN, hn, hz, hs, hr⟩ := hk.cast
  obtain ⟨z, h1, h2, h3, h4⟩ := E2E.honest_reconstructs_model isPrime pk sig attrs D rnd ctx nonce
    issig hN hn hz hs hr hlen hkp hsig hnd h
  obtain ⟨_, hD, _, _⟩ := createDisclosureProof_ok h
  refine ⟨complementList D attrs.length, z, ?_, h1, h2, h3, h4⟩
  rw [getUndisclosed_eq', if_neg]
  rintro ⟨v, hv, hvr⟩
  have := hD v hv
  omega

/-- The same for **every challenge** `c` (completeness of the underlying Σ-protocol): the responses
    `CreateProof(c)` computes make `reconstructZ` return the builder's commitment `Z~`; `A'` is a
    unit modulo `n`. -/
theorem createProof_reconstructs (isPrime : Nat → Bool) {pk : PublicKey} (hk : KeyUnits pk)
    {sig : CLSignature} {attrs D U : List Int} {rnd : DisclosureRandomness} (c : Int) {p : ProofD}
    (hsig : clVerifyWith isPrime pk sig attrs = .ok true) (hkp : sig.keyshareP = none)
    (hlen : attrs.length ≤ pk.r.length) (hnd : D.Nodup)
    (hU : getUndisclosedAttributes D attrs.length = .ok U)
    (hp : disclosureCreateProof pk attrs D U (clRandomize pk sig rnd.r) rnd c = .ok p) :
    ∃ z, disclosureCommit pk (clRandomize pk sig rnd.r) rnd U = .ok [(clRandomize pk sig rnd.r).a, z] ∧
      p.reconstructZ pk = .ok (some z) ∧ p.a = some (clRandomize pk sig rnd.r).a ∧ p.c = some c ∧
      Int.gcd (clRandomize pk sig rnd.r).a pk.n = 1 := by
  obtain ⟨hN, hn, hz, hs, hr⟩ := hk.cast
  obtain ⟨rfl, hD⟩ := getUndisclosed_ok hU
  obtain ⟨z, h1, h2, h3, h4, h5⟩ := E2E.createProof_reconstructs isPrime pk sig attrs D rnd c hN hn hz
    hs hr hlen hkp hsig hnd hD hp
  refine ⟨z, h1, h2, h3, h4, ?_⟩
  rw [isUnit_iff_gcd, ← hN] at h5
  exact h5

/-! ### 8. completeness -/

/-- **Completeness of selective disclosure (full strength).** For a sound parameter set, a key
    with invertible bases and at least as many bases as attributes, a valid signature on
    non-negative attributes (index 0: the secret key), a duplicate-free list `D` of disclosed
    indices in `[1, len attrs)` and randomness inside the documented ranges, the prover
    succeeds and `ProofD.Verify` accepts the result — for every accumulator-signature oracle and
    every pair of picks of `revocationAttrIndex` (the proof has no non-revocation part). -/
theorem honest_accepts (isPrime : Nat → Bool) (o : SigOracle) (kid : String) {pk : PublicKey}
    (hk : KeyUnits pk) (hP : ParamsSound pk.params)
    {sig : CLSignature} {attrs D : List Int} {rnd : DisclosureRandomness}
    (ctx nonce : Int) (issig : Bool) (i1 i2 : Int)
    (hsig : clVerifyWith isPrime pk sig attrs = .ok true) (hkp : sig.keyshareP = none)
    (hlen : attrs.length ≤ pk.r.length) (hpos : 0 < attrs.length) (hattrs : ∀ a ∈ attrs, 0 ≤ a)
    (hnd : D.Nodup) (hD : ∀ v ∈ D, 1 ≤ v ∧ v < (attrs.length : Int))
    (hrnd : rnd.InRange pk.params) :
    ∃ p, createDisclosureProof pk sig attrs D rnd ctx nonce issig = .ok p ∧
      p.verifyWith o kid pk ctx nonce issig i1 i2 = .ok true := by
  obtain ⟨hN, hn, hz, hs, hr⟩ := hk.cast
  exact E2E.honest_accepts_model isPrime o kid pk sig attrs D rnd ctx nonce issig i1 i2 hN hn hz hs hr
    hlen hpos hattrs hkp hsig hnd hD hP hrnd

/-- in particular for the two picks `-1` the verifier makes when there is no non-revocation
    proof. -/
theorem honest_accepts' (isPrime : Nat → Bool) (o : SigOracle) (kid : String) {pk : PublicKey}
    (hk : KeyUnits pk) (hP : ParamsSound pk.params)
    {sig : CLSignature} {attrs D : List Int} {rnd : DisclosureRandomness}
    (ctx nonce : Int) (issig : Bool)
    (hsig : clVerifyWith isPrime pk sig attrs = .ok true) (hkp : sig.keyshareP = none)
    (hlen : attrs.length ≤ pk.r.length) (hpos : 0 < attrs.length) (hattrs : ∀ a ∈ attrs, 0 ≤ a)
    (hnd : D.Nodup) (hD : ∀ v ∈ D, 1 ≤ v ∧ v < (attrs.length : Int))
    (hrnd : rnd.InRange pk.params) :
    ∃ p, createDisclosureProof pk sig attrs D rnd ctx nonce issig = .ok p ∧
      p.verifyWith o kid pk ctx nonce issig (-1) (-1) = .ok true :=
  honest_accepts isPrime o kid hk hP ctx nonce issig (-1) (-1) hsig hkp hlen hpos hattrs hnd hD hrnd

/-! ### 9. special soundness for the model's integers -/

/-- **The extractor's equation.** Two model proofs `p`, `p'` with the same `A'` (a unit), the same
    disclosed map and the same hidden keys (a map: no duplicates) for which `reconstructZ` returns
    the same commitment `z` satisfy in `(ZMod n)ˣ`
    `K^(c−c') = A'^(ê−ê') · S^(v̂−v̂') · ∏_{j hidden} R_j^(ŝ_j−ŝ'_j)` with
    `K = Z / (A'^(2^(Le−1)) · ∏_{i disclosed} R_i^{attrExp(a_i)})` built from the *reported*
    disclosed values. From here (CRYPTO-HYP: strong RSA) `c − c'` divides the exponent
    differences and `(A', ê−ê'/(c−c') + 2^(Le−1), …)` is a CL signature on the reported values. -/
theorem proofD_special_soundness_model {pk : PublicKey} (hk : KeyUnits pk) {p p' : ProofD}
    {a c c' er er' vr vr' z : Int} (hau : Int.gcd a pk.n = 1)
    (ha : p.a = some a) (ha' : p'.a = some a)
    (hc : p.c = some c) (hc' : p'.c = some c')
    (her : p.eResponse = some er) (her' : p'.eResponse = some er')
    (hvr : p.vResponse = some vr) (hvr' : p'.vResponse = some vr')
    (hdis : p'.aDisclosed = p.aDisclosed)
    (hkeys : p'.aResponses.map (·.1) = p.aResponses.map (·.1))
    (hnd : (p.aResponses.map (·.1)).Nodup)
    (h1 : p.reconstructZ pk = .ok (some z)) (h2 : p'.reconstructZ pk = .ok (some z)) :
    E2E.knownU pk.n.toNat pk a p.aDisclosed ^ (c - c') =
      zunit pk.n.toNat a ^ (er - er') * zunit pk.n.toNat pk.s ^ (vr - vr') *
        Alg.rep (E2E.baseU pk.n.toNat pk)
          (fun j => (p.aResponses.get j).getD 0 - (p'.aResponses.get j).getD 0)
          (p.aResponses.map (·.1)) := by
  obtain ⟨hN, hn, hz, hs, hr⟩ := hk.cast
  have hau' : IsUnit (a : ZMod pk.n.toNat) := by rw [isUnit_iff_gcd, ← hN]; exact hau
  exact E2E.proofD_special_soundness_model pk p p' hN hn hz hs hr hau' ha ha' hc hc' her her' hvr hvr'
    hdis hkeys hnd h1 h2

/-- The same with `K` unfolded:
    `A'^(2^(Le−1)·(c−c') + (ê−ê')) · (∏_{disclosed} R_i^{attrExp a_i})^(c−c') · ∏_{hidden} R_j^(ŝ_j−ŝ'_j) · S^(v̂−v̂') = Z^(c−c')`,
    the shape of the CL verification equation "in the exponent `c − c'`". -/
theorem proofD_extract_model {pk : PublicKey} (hk : KeyUnits pk) {p p' : ProofD}
    {a c c' er er' vr vr' z : Int} (hau : Int.gcd a pk.n = 1)
    (ha : p.a = some a) (ha' : p'.a = some a)
    (hc : p.c = some c) (hc' : p'.c = some c')
    (her : p.eResponse = some er) (her' : p'.eResponse = some er')
    (hvr : p.vResponse = some vr) (hvr' : p'.vResponse = some vr')
    (hdis : p'.aDisclosed = p.aDisclosed)
    (hkeys : p'.aResponses.map (·.1) = p.aResponses.map (·.1))
    (hnd : (p.aResponses.map (·.1)).Nodup)
    (h1 : p.reconstructZ pk = .ok (some z)) (h2 : p'.reconstructZ pk = .ok (some z)) :
    zunit pk.n.toNat a ^ ((2 : ℤ) ^ (pk.params.Le - 1) * (c - c') + (er - er')) *
        Alg.rep (fun kv : Int × Option Int => E2E.baseU pk.n.toNat pk kv.1)
          (fun kv => attrExp pk.params.Lm (kv.2.getD 0)) p.aDisclosed ^ (c - c') *
        Alg.rep (E2E.baseU pk.n.toNat pk)
          (fun j => (p.aResponses.get j).getD 0 - (p'.aResponses.get j).getD 0)
          (p.aResponses.map (·.1)) *
        zunit pk.n.toNat pk.s ^ (vr - vr') = zunit pk.n.toNat pk.z ^ (c - c') := by
  obtain ⟨hN, hn, hz, hs, hr⟩ := hk.cast
  have hau' : IsUnit (a : ZMod pk.n.toNat) := by rw [isUnit_iff_gcd, ← hN]; exact hau
  exact E2E.proofD_extract_model pk p p' hN hn hz hs hr hau' ha ha' hc hc' her her' hvr hvr'
    hdis hkeys hnd h1 h2

/-- what `K` is. -/
theorem knownU_def (n : ℕ) (pk : PublicKey) (a : Int) (disclosed : IntMap) :
    E2E.knownU n pk a disclosed =
      zunit n pk.z / (zunit n a ^ ((2 : ℤ) ^ (pk.params.Le - 1)) *
        Alg.rep (fun kv : Int × Option Int => zunit n (pk.r.getD kv.1.toNat 0))
          (fun kv => attrExp pk.params.Lm (kv.2.getD 0)) disclosed) := rfl

/-- what `reconstructZ` returns, for any proof it does not reject (unit `A'`, invertible bases):
    the representative in `[0, n)` of `K^(−c) · A'^ê · S^v̂ · ∏_{hidden} R_j^{ŝ_j}`. -/
theorem reconstructZ_value {pk : PublicKey} (hk : KeyUnits pk) {p : ProofD}
    {a c er vr z : Int} (hau : Int.gcd a pk.n = 1) (ha : p.a = some a) (hc : p.c = some c)
    (her : p.eResponse = some er) (hvr : p.vResponse = some vr)
    (h : p.reconstructZ pk = .ok (some z)) :
    0 ≤ z ∧ z < pk.n ∧
    (z : ZMod pk.n.toNat) =
      ((E2E.knownU pk.n.toNat pk a p.aDisclosed ^ (-c) * zunit pk.n.toNat a ^ er *
        zunit pk.n.toNat pk.s ^ vr *
        Alg.rep (fun kv : Int × Option Int => E2E.baseU pk.n.toNat pk kv.1) (fun kv => kv.2.getD 0)
          p.aResponses : (ZMod pk.n.toNat)ˣ) : ZMod pk.n.toNat) := by
  obtain ⟨hN, hn, hz, hs, hr⟩ := hk.cast
  have hau' : IsUnit (a : ZMod pk.n.toNat) := by rw [isUnit_iff_gcd, ← hN]; exact hau
  obtain ⟨_, _, z0, z1, zc⟩ := E2E.reconstructZ_unit_eq pk p hN hn hz hs hr ha hau' hc her hvr h
  exact ⟨z0, by omega, zc⟩

/-! ### 10. the disclosed values enter `K` through `attrExp` only -/

/-- `K` is a function of the list of pairs (disclosed index, `attrExp` of the reported value):
    two disclosed maps that agree after `attrExp` give the same `K` (e.g. a long value and its
    SHA-256 image). -/
theorem disclosed_values_enter_K (n : ℕ) (pk : PublicKey) (a : Int) (l l' : IntMap)
    (h : l.map (fun kv => (kv.1, attrExp pk.params.Lm (kv.2.getD 0))) =
      l'.map (fun kv => (kv.1, attrExp pk.params.Lm (kv.2.getD 0)))) :
    E2E.knownU n pk a l = E2E.knownU n pk a l' := E2E.knownU_congr pk a l l' h

/-- Changing the reported value of one disclosed index `i` from `x` to `x'` multiplies `K` by
    `R_i^(attrExp x − attrExp x')`; the two `K` coincide iff `R_i^(attrExp x − attrExp x') = 1`,
    i.e. (for `R_i` of order `ord`) iff `attrExp x ≡ attrExp x' (mod ord)`. Together with
    `C01.disclosed_shift_excluded` (such an `x' ≠ x` is longer than `Lm` bits, hence hashed) a
    different reported value means a different `K` in the extractor's equation. -/
theorem disclosed_value_changes_K (n : ℕ) (pk : PublicKey) (a : Int) (l1 l2 : IntMap) (i x x' : Int) :
    E2E.knownU n pk a (l1 ++ (i, some x') :: l2) =
        E2E.knownU n pk a (l1 ++ (i, some x) :: l2) *
          E2E.baseU n pk i ^ (attrExp pk.params.Lm x - attrExp pk.params.Lm x') ∧
    (E2E.knownU n pk a (l1 ++ (i, some x) :: l2) = E2E.knownU n pk a (l1 ++ (i, some x') :: l2) ↔
      E2E.baseU n pk i ^ (attrExp pk.params.Lm x - attrExp pk.params.Lm x') = 1) :=
  ⟨E2E.knownU_update pk a l1 l2 i x x', E2E.knownU_update_eq_iff pk a l1 l2 i x x'⟩

/-! ### non-vacuity

  Key: the toy key of `GabiProofs.CLLemmas` (`n = 77`, bases in `QR_77`, exponent 15) with the
  1024-bit *parameter set* (`ParamsSound` does not constrain the size of `n`). The signature is
  produced by the issuer model (`clSignWith`, valid by `C05.sign_verifies`), so every hypothesis of
  `honest_accepts` is discharged in the kernel; the `#guard`s evaluate the same instance. -/
namespace E2EDemo

def base : Gen.BaseParams := { LePrime := 120, Lh := 256, Lm := 256, Ln := 1024, Lstatzk := 80 }
def params : SysParams := SysParams.ofBase base
theorem params_sound : ParamsSound params := ofBase_sound (by decide)

def pk : PublicKey := { toyKey with params := params }

theorem pk_units : KeyUnits pk := ⟨by decide, by decide, by decide, by decide⟩

theorem pk_inGroup : pk.InGroup 15 := by
  refine ⟨by decide, by decide, by decide, by decide, ?_⟩
  intro b hb
  rw [goExp_nonneg b 15 pk.n (by decide) (by decide)]
  simp only [pk, toyKey, List.mem_cons, List.not_mem_nil, or_false] at hb
  rcases hb with rfl | rfl | rfl | rfl | rfl <;> decide

set_option exponentiation.threshold 2000

/-- `e = 2^(Le-1) + 1` lies in the signature interval and is invertible modulo 15. -/
def e : Int := 2 ^ 596 + 1
def rnd : DisclosureRandomness :=
  { r := 17, eCommit := 1234567, vCommit := 7654321, attr := [(0, 1111), (2, 2222)] }

theorem e_int : eInInterval pk.params e = true := by decide +kernel
theorem e_gcd : Int.gcd e 15 = 1 := by decide +kernel
theorem rnd_inRange : rnd.InRange pk.params := by
  refine ⟨by decide +kernel, by decide +kernel, by decide +kernel, by decide +kernel,
    by decide +kernel, by decide +kernel, ?_⟩
  intro kv hkv
  simp only [rnd, List.mem_cons, List.not_mem_nil, or_false] at hkv
  rcases hkv with rfl | rfl <;> exact ⟨by decide +kernel, by decide +kernel⟩

/-- there is a valid signature on `[3, 5, 7]` under `pk` (produced by the issuer model; the
    primality oracle accepts everything). -/
theorem sig_exists : ∃ sig, clVerifyWith (fun _ => true) pk sig [3, 5, 7] = .ok true ∧
    sig.keyshareP = none := by
  obtain ⟨sig, h⟩ := C05.sign_succeeds_of_nonneg pk 15 [3, 5, 7] 6 e pk_inGroup (by decide)
    (by decide) e_gcd
  exact ⟨sig, C05.sign_verifies _ pk 15 [3, 5, 7] 6 e sig pk_inGroup (by decide) e_int rfl h,
    (clSignWith_keyshareP h).1⟩

/-- **non-vacuity of `honest_accepts` / `honest_reconstructs_model`**: all hypotheses hold on this
    instance, so the prover model produces a proof and `verifyWith` accepts it (kernel-checked,
    no evaluation of SHA-256 or modular exponentiation needed). -/
example : ∃ sig p, clVerifyWith (fun _ => true) pk sig [3, 5, 7] = .ok true ∧
    createDisclosureProof pk sig [3, 5, 7] [1] rnd 42 43 false = .ok p ∧
    p.verifyWith (fun _ _ => none) "" pk 42 43 false (-1) (-1) = .ok true := by
  obtain ⟨sig, hsig, hkp⟩ := sig_exists
  obtain ⟨p, hp, hv⟩ := honest_accepts' (fun _ => true) (fun _ _ => none) "" pk_units params_sound
    (rnd := rnd) (D := [1]) 42 43 false hsig hkp (by decide) (by decide) (by decide) (by decide)
    (by decide) rnd_inRange
  exact ⟨sig, p, hsig, hp, hv⟩

/-- **non-vacuity of `proofD_special_soundness_model`**: the responses of the same builder to the
    two challenges `5 ≠ 9` are two proofs with the same `A'`, disclosed map, hidden keys and
    reconstructed commitment. -/
example : ∃ (p p' : ProofD) (a z : Int), p.c = some 5 ∧ p'.c = some 9 ∧ Int.gcd a pk.n = 1 ∧
    p.a = some a ∧ p'.a = some a ∧ p'.aDisclosed = p.aDisclosed ∧
    p'.aResponses.map (·.1) = p.aResponses.map (·.1) ∧ (p.aResponses.map (·.1)).Nodup ∧
    p.reconstructZ pk = .ok (some z) ∧ p'.reconstructZ pk = .ok (some z) := by
  obtain ⟨sig, hsig, hkp⟩ := sig_exists
  have hU : getUndisclosedAttributes [1] ([3, 5, 7] : List Int).length = .ok [0, 2] := by decide
  have hidx : ∀ v ∈ ([1] ++ [0, 2] : List Int), 0 ≤ v ∧ v.toNat < ([3, 5, 7] : List Int).length := by decide
  obtain ⟨p, hp⟩ := proof_total (pk := pk) (sigR := clRandomize pk sig rnd.r) (rnd := rnd) (c := 5) hidx
  obtain ⟨p', hp'⟩ := proof_total (pk := pk) (sigR := clRandomize pk sig rnd.r) (rnd := rnd) (c := 9) hidx
  obtain ⟨z, h1, h2, h3, h4, h5⟩ := createProof_reconstructs (fun _ => true) pk_units 5 hsig hkp
    (by decide) (by decide) hU hp
  obtain ⟨z', h1', h2', h3', h4', _⟩ := createProof_reconstructs (fun _ => true) pk_units 9 hsig hkp
    (by decide) (by decide) hU hp'
  rw [h1] at h1'
  obtain rfl : z = z' := by
    have := Except.ok.inj h1'
    simpa using this
  obtain ⟨_, hd, _, hk, _⟩ := proof_shape hp
  obtain ⟨_, hd', _, hk', _⟩ := proof_shape hp'
  exact ⟨p, p', _, z, h4, h4', h5, h3, h3', by rw [hd, hd'], by rw [hk, hk'], by rw [hk]; decide,
    h2, h2'⟩

/-- evaluation of the same instance. -/
def sig : Option CLSignature := clSignWith pk 15 1 [3, 5, 7] 6 e
#guard sig.isSome
#guard (do
  let s ← sig
  let p ← (createDisclosureProof pk s [3, 5, 7] [1] rnd 42 43 false).toOption
  (p.verifyWith (fun _ _ => none) "" pk 42 43 false (-1) (-1)).toOption) == some true
-- the verifier's reconstruction is the second element of the builder's commitment
#guard (do
  let s ← sig
  let p ← (createDisclosureProof pk s [3, 5, 7] [1] rnd 42 43 false).toOption
  let z ← (p.reconstructZ pk).toOption
  let cm ← (disclosureCommit pk (clRandomize pk s rnd.r) rnd [0, 2]).toOption
  pure (decide (cm = [(clRandomize pk s rnd.r).a, z.getD 0]))) == some true
-- a disclosed value and a different one with the same `attrExp` do not exist below `2^Lm`;
-- changing the disclosed value changes `K`, and the proof is rejected
#guard (do
  let s ← sig
  let p ← (createDisclosureProof pk s [3, 5, 7] [1] rnd 42 43 false).toOption
  ({ p with aDisclosed := [(1, some 6)] }.verifyWith (fun _ _ => none) "" pk 42 43 false (-1) (-1)).toOption)
    == some false

end E2EDemo

end Gabi.C04

#print axioms Gabi.C04.honest_reconstructs_model
#print axioms Gabi.C04.createProof_reconstructs
#print axioms Gabi.C04.honest_accepts
#print axioms Gabi.C04.honest_accepts'
#print axioms Gabi.C04.proofD_special_soundness_model
#print axioms Gabi.C04.proofD_extract_model
#print axioms Gabi.C04.reconstructZ_value
#print axioms Gabi.C04.disclosed_values_enter_K
#print axioms Gabi.C04.disclosed_value_changes_K
#print axioms Gabi.C04.E2EDemo.sig_exists
