/-
  C12 — A verified disclosure proof carrying range proofs establishes only true facts.

  Property theorems about the range-proof verifier of the executable model (GabiModel.Proofs:
  `RangeProof`, `rangeNewWithParams`, `extractStructure`, `verifyProofStructure`,
  `commitmentsFromProof`, `provesStatement`, `provenStatement`, `ProofD.rangeContributions`;
  compared output-for-output with rangeproof/proof.go and proofs.go by `./check C12`).
  Helper lemmas: GabiProofs.RangeLemmas, GabiProofs.VerifyLogic.

  Layers
   A. decision logic (no cryptography): every carried range proof is checked, sits on a hidden
      index of the same credential, and is verified with the hidden response of that index and
      the proof's own challenge; misplaced proofs cause rejection.
   B. descriptor arithmetic: the `int64` exponent is the intended one; every statement
      `provesStatement` / `provenStatement` reports follows from the established fact
      `sign·(a·m − k) ≥ 0`.
   C. extractor algebra: witnesses of the verified relations give `Σdᵢ² = sign·(a·m − k)`, or an
      explicit non-trivial relation between the attribute base and `S` (CRYPTO-HYP: strong RSA);
      transported to the model's integers through `(ZMod n)ˣ`.
   D. **defect found while proving C**: layer C needs every prover-supplied commitment `Cᵢ` to be
      invertible modulo `n` (`UnitCs`), which the verifier as modelled here does not check. With
      `Cᵢ = 0` every reconstructed commitment is the constant `0` and any (false) statement
      verifies – `forged_commitments_zero`, `Demo.forgedAccepted`.
   E. **second defect, repaired in Go commit d9916c2**: the statement of a range proof (its
      commitments `Cᵢ` and the descriptor `k`, `a`, `sign`, `l_d`) did not enter the Fiat–Shamir
      challenge. Now it is the head of the contribution list – `statement_in_challenge`,
      `different_descriptor_different_contributions`, `different_descriptor_different_challenge`.
-/
import GabiModel.Proofs
import GabiModel.Prover
import GabiProofs.RangeLemmas
import GabiProofs.VerifyLogic
import GabiProofs.DerLemmas
import GabiProps.C01
import GabiProps.C08
namespace Gabi.C12
open Gabi

/-! ## A. decision logic -/

section
variable {o : SigOracle} {kid : String} {pk : PublicKey} {p : ProofD} {ctx nonce : Int}
  {issig : Bool} {i1 i2 : Int}

/-- **every carried range proof has been checked** (strengthening of
    `Gabi.C01.accept_rangeproofs_checked`): in an accepted disclosure proof every range proof
    sits on a hidden index of that same proof, its structure extracts for that index and passes
    the structure check with `MResponse :=` the hidden response of that index; moreover its
    descriptor is well-formed: the bound is present and of at most `Lm+64` bits, `l_d ≤ Lm`,
    there are 3 or 4 squares, three squares only with factor 4, the sign is `±1` and the factor
    fits `int64` – so the structure is the one `rangeNewWithParams` builds with the exact
    exponent `−a·sign` (see `power_exact`). `hnd`: the decoded map has no duplicate keys. -/
theorem every_carried_proof_checked {rps : List (Int × List (Option RangeProof))}
    (h : p.verifyWith o kid pk ctx nonce issig i1 i2 = .ok true) (hrps : p.rangeProofs = some rps)
    (hnd : (rps.map (·.1)).Nodup) :
    ∀ kv ∈ rps, ∀ rp, some rp ∈ kv.2 →
      p.aResponses.has kv.1 = true ∧ ∃ s k, rp.extractStructure kv.1 pk = some s ∧
        s.verifyProofStructure pk { rp with mResponse := p.aResponses.get kv.1 } = true ∧
        rp.k = some k ∧ bitLen k ≤ pk.params.Lm + 64 ∧ rp.ld ≤ pk.params.Lm ∧
        (rp.cs.length = 3 ∨ rp.cs.length = 4) ∧ (rp.cs.length = 3 → rp.a = 4) ∧
        (rp.sign = 1 ∨ rp.sign = -1) ∧ rp.a ≤ 2 ^ 63 - 1 ∧
        rangeNewWithParams kv.1 rp.sign rp.a k rp.cs.length rp.ld = some s := by
  intro kv hkv rp hrp
  obtain ⟨hhas, s, hex, hv⟩ := Gabi.C01.accept_rangeproofs_checked h hrps hnd kv hkv rp hrp
  obtain ⟨k, hk, hld, hlen, hbl, h3, hnew⟩ := RangeProof.extractStructure_some hex
  obtain ⟨_, hs, ha, _⟩ := rangeNewWithParams_some hnew
  exact ⟨hhas, s, k, hex, hv, hk, hbl, hld, hlen, h3, hs, ha, hnew⟩

/-- **the range proof is tied to the attribute of the same credential**: the challenge of an
    accepted proof is the hash of the context, `[A', Z]` (the reconstructed commitment of the
    credential proof, built from the hidden responses `AResponses`), the non-revocation
    contributions, the range contributions `rc` and the nonce; and for every entry
    `index ↦ proofs` of the range-proof map, `rc` contains, as one contiguous block, the
    commitments reconstructed from those proofs with `MResponse := AResponses[index]` – the very
    response that enters `Z` for base `R_index` – and with the same challenge `c`. Hence the
    value extracted for `m` from the range proof and the attribute extracted from the
    credential proof come from the same response under the same challenge. -/
theorem mresponse_tied {rps : List (Int × List (Option RangeProof))}
    (h : p.verifyWith o kid pk ctx nonce issig i1 i2 = .ok true) (hrps : p.rangeProofs = some rps)
    {index : Int} {proofs : List (Option RangeProof)} (hl : rps.lookup index = some proofs) :
    ∃ a z c l1 rc, p.a = some a ∧ p.c = some c ∧
      c = ((createChallenge ctx nonce ([a, z] ++ l1 ++ rc) issig : Nat) : Int) ∧
      ∃ ss mresp css pre post, p.aResponses.get index = some mresp ∧
        List.Forall₂ (fun rp s => ∃ rp', rp = some rp' ∧ rp'.extractStructure index pk = some s) proofs ss ∧
        List.Forall₂ (fun (x : RangeStructure × Option RangeProof) cs => ∃ rp, x.2 = some rp ∧
          x.1.verifyProofStructure pk { rp with mResponse := some mresp } = true ∧
          x.1.commitmentsFromProof pk { rp with mResponse := some mresp } c = .ok cs) (ss.zip proofs) css ∧
        rc = pre ++ css.flatten ++ post :=
  ProofD.accept_range_at_index h hrps hl

/-- **order of the contributions** (mirrors the prover's loop `for index := 0; index <
    len(attributes)`): the range contributions of an accepted proof are the concatenation over
    `index = 0, 1, …, max hidden index` (increasing) of the per-index parts, each part being the
    concatenation, in list order, of the per-proof commitment lists (empty for an index without
    entry). -/
theorem contribution_order {rps : List (Int × List (Option RangeProof))}
    (h : p.verifyWith o kid pk ctx nonce issig i1 i2 = .ok true) (hrps : p.rangeProofs = some rps) :
    ∃ a z c l1 rc structs parts, p.a = some a ∧ p.c = some c ∧
      c = ((createChallenge ctx nonce ([a, z] ++ l1 ++ rc) issig : Nat) : Int) ∧
      (extractAll pk rps).run = .ok (some structs) ∧
      List.Forall₂ (RangeIndexRel pk p c structs rps) p.rangeIndices parts ∧
      rc = parts.flatten ∧ p.rangeIndices.Pairwise (· < ·) := by
  obtain ⟨a, z, c, l1, rc, structs, parts, h1, h2, h3, h4, h5, h6⟩ := ProofD.accept_range_shape h hrps
  exact ⟨a, z, c, l1, rc, structs, parts, h1, h2, h3, h4, h5, h6, p.rangeIndices_sorted⟩

end

/-- **a range proof attached to a non-hidden index causes rejection**: if some key of the
    range-proof map is not a key of `AResponses` (a disclosed or non-existent attribute), the
    proof is not well-formed and `Verify` returns false – for every key, oracle and choice. -/
theorem rangeproof_needs_hidden_index (o : SigOracle) (kid : String) (pk : PublicKey) (p : ProofD)
    (ctx nonce : Int) (issig : Bool) (i1 i2 : Int) {rps : List (Int × List (Option RangeProof))}
    (hrps : p.rangeProofs = some rps) {kv : Int × List (Option RangeProof)} (hkv : kv ∈ rps)
    (hh : p.aResponses.has kv.1 = false) :
    p.wellFormed pk = false ∧ p.verifyWith o kid pk ctx nonce issig i1 i2 = .ok false := by
  have hw := ProofD.not_wellFormed_of_range_not_hidden (pk := pk) hrps hkv hh
  exact ⟨hw, Gabi.C08.malformedD_rejected o kid pk p ctx nonce issig i1 i2 (by simp [hw])⟩

/-- … in particular a range proof on a **disclosed** index … -/
theorem rangeproof_on_disclosed_rejected (o : SigOracle) (kid : String) (pk : PublicKey) (p : ProofD)
    (ctx nonce : Int) (issig : Bool) (i1 i2 : Int) {rps : List (Int × List (Option RangeProof))}
    (hrps : p.rangeProofs = some rps) {kv : Int × List (Option RangeProof)} (hkv : kv ∈ rps)
    (hd : p.aDisclosed.has kv.1 = true) :
    p.verifyWith o kid pk ctx nonce issig i1 i2 = .ok false :=
  Gabi.C08.malformedD_rejected o kid pk p ctx nonce issig i1 i2
    (by simp [ProofD.not_wellFormed_of_range_disclosed (pk := pk) hrps hkv hd])

/-- … on an index **outside the key's bases** (negative or `≥ len R`) … -/
theorem rangeproof_outside_rejected (o : SigOracle) (kid : String) (pk : PublicKey) (p : ProofD)
    (ctx nonce : Int) (issig : Bool) (i1 i2 : Int) {rps : List (Int × List (Option RangeProof))}
    (hrps : p.rangeProofs = some rps) {kv : Int × List (Option RangeProof)} (hkv : kv ∈ rps)
    (ho : kv.1 < 0 ∨ (pk.r.length : Int) ≤ kv.1) :
    p.verifyWith o kid pk ctx nonce issig i1 i2 = .ok false :=
  Gabi.C08.malformedD_rejected o kid pk p ctx nonce issig i1 i2
    (by simp [ProofD.not_wellFormed_of_range_outside (pk := pk) hrps hkv ho])

/-- … and a nil entry in a list of range proofs. -/
theorem nil_rangeproof_rejected (o : SigOracle) (kid : String) (pk : PublicKey) (p : ProofD)
    (ctx nonce : Int) (issig : Bool) (i1 i2 : Int) {rps : List (Int × List (Option RangeProof))}
    (hrps : p.rangeProofs = some rps) {kv : Int × List (Option RangeProof)} (hkv : kv ∈ rps)
    (hn : none ∈ kv.2) :
    p.verifyWith o kid pk ctx nonce issig i1 i2 = .ok false :=
  Gabi.C08.malformedD_rejected o kid pk p ctx nonce issig i1 i2
    (by simp [ProofD.not_wellFormed_of_nil_rangeproof (pk := pk) hrps hkv hn])

/-- **moving a range proof to another attribute or credential** changes what is hashed: the
    structure extracted for `index` names the base `R_index`, and the proof is evaluated with
    `MResponse := AResponses[index]` of the disclosure proof that carries it (`mresponse_tied`).
    Here: the structures extracted for two different non-negative indices differ. -/
theorem structure_depends_on_index {rp : RangeProof} {pk : PublicKey} {i j : Nat} {s t : RangeStructure}
    (hi : rp.extractStructure (i : Int) pk = some s) (hj : rp.extractStructure (j : Int) pk = some t)
    (hne : i ≠ j) : s ≠ t := by
  obtain ⟨k, hk, _, _, _, _, hnew⟩ := RangeProof.extractStructure_some hi
  obtain ⟨k', hk', _, _, _, _, hnew'⟩ := RangeProof.extractStructure_some hj
  obtain ⟨_, _, _, hs⟩ := rangeNewWithParams_some hnew
  obtain ⟨_, _, _, ht⟩ := rangeNewWithParams_some hnew'
  intro he
  have : s.index = t.index := by rw [he]
  rw [hs, ht] at this
  simp only at this
  exact hne (by exact_mod_cast this)

/-! ## B. descriptor arithmetic -/

/-- **the exponent is the intended one**: for a factor `a ≤ MaxInt64` and `sign = ±1` the Go
    expression `-int64(a)*int64(sign)` (with wrap-around) equals the integer `−a·sign`. -/
theorem power_exact (a : Nat) (sign : Int) (ha : a ≤ 2 ^ 63 - 1) (hs : sign = 1 ∨ sign = -1) :
    wrap64 (-(wrap64 (a : Int)) * wrap64 sign) = -(a : Int) * sign :=
  Gabi.power_exact a sign ha hs

/-- **larger factors are refused** (`newWithParams` returns an error) … -/
theorem factor_guard (index sign : Int) (a : Nat) (k : Int) (nSplit ld : Nat) (ha : 2 ^ 63 ≤ a) :
    rangeNewWithParams index sign a k nSplit ld = none :=
  rangeNewWithParams_large index sign a k nSplit ld ha

/-- … **and the guard is necessary**: without it the factor `2^64−1` with sign `−1` would use the
    exponent `−1`, the exponent of the statement `1·m ≥ k`; a proof of `m ≥ k` would then be
    reported as a proof of `(2^64−1)·m ≤ k`. -/
theorem power_wraps_unguarded :
    wrap64 (-(wrap64 (((2 ^ 64 - 1 : Nat)) : Int)) * wrap64 (-1)) = -1 ∧
    wrap64 (-(wrap64 ((1 : Nat) : Int)) * wrap64 1) = -1 :=
  Gabi.power_wraps_unguarded

/-- **every statement the library says a proof proves or implies is a consequence of the
    established fact**: if `sign_p·(a_p·m − k) ≥ 0` holds for the attribute value `m` (any
    integer) and `ProvesStatement(sign, factor, bound)` returns true, then
    `sign·(factor·m − bound) ≥ 0`. Covers the three-square rescaling (`a_p = 4·factor`,
    `k ≥ 4·bound − 2` resp. `≤`, using integrality) and the overflow guard on `4·factor`. -/
theorem proves_sound {p : RangeProof} {m k : Int} {sign : Int} {factor : Nat} {bound : Int}
    (hk : p.k = some k) (hfact : p.sign * ((p.a : Int) * m - k) ≥ 0)
    (h : p.provesStatement sign factor bound = true) :
    sign * ((factor : Int) * m - bound) ≥ 0 :=
  RangeProof.proves_sound hk hfact h

/-- non-vacuity: a four-square descriptor `m ≥ 10` and `m = 12`; it implies `m ≥ 9`. -/
example : ∃ p : RangeProof, p.k = some 10 ∧ p.sign * ((p.a : Int) * 12 - 10) ≥ 0 ∧
    p.provesStatement 1 1 9 = true :=
  ⟨{ cs := [none, none, none, none], ds := [], vs := [], v5 := none, ld := 8, sign := 1, a := 1,
     k := some 10 }, by decide⟩

/-- **the statement the library reports is a consequence of the established fact** (three
    squares: for the only factor the verifier accepts, `a_p = 4`; the reported bound is
    `⌊(k+2)/4⌋`, Lean's `/` on `Int` with positive divisor being the floor like Go's `Rsh`). -/
theorem proven_statement_sound {p : RangeProof} {m k : Int} {sgn : Int} {f : Nat} {b : Int}
    (hk : p.k = some k) (hsign : p.sign = 1 ∨ p.sign = -1) (h3 : p.cs.length = 3 → p.a = 4)
    (hfact : p.sign * ((p.a : Int) * m - k) ≥ 0)
    (h : p.provenStatement = some (sgn, f, b)) :
    sgn * ((f : Int) * m - b) ≥ 0 :=
  RangeProof.proven_statement_sound hk hsign h3 hfact h

/-- `Int` division by 4 in the model is the floor: `4·q ≤ x < 4·q + 4`, also for negative `x`. -/
theorem div4_floor (x : Int) : 4 * (x / 4) ≤ x ∧ x < 4 * (x / 4) + 4 := by omega

/-- for the bound an honest three-square prover sends (`k = 4·bound − 2`) the reported bound is
    `bound` again. -/
theorem proven_statement_roundtrip (bound : Int) : (bound * 4 - 2 + 2) / 4 = bound :=
  provenStatement_bound_roundtrip bound

/-- non-vacuity of `proven_statement_sound` (three squares, `4m ≥ 38`, i.e. `m ≥ 10`, `m = 10`). -/
example : ∃ p : RangeProof, p.k = some 38 ∧ p.cs.length = 3 ∧ p.a = 4 ∧
    p.provenStatement = some (1, 1, 10) ∧ p.sign * ((p.a : Int) * 10 - 38) ≥ 0 :=
  ⟨{ cs := [none, none, none], ds := [], vs := [], v5 := none, ld := 8, sign := 1, a := 4,
     k := some 38 }, by decide⟩

/-- **the descriptor of an accepted range proof meets the hypotheses of the two theorems
    above** (sign `±1`, three squares only with factor 4): for an accepted disclosure proof the
    reported and implied statements of every carried range proof hold for every integer `m`
    for which that proof's established fact holds. -/
theorem accepted_reports_only_consequences {o : SigOracle} {kid : String} {pk : PublicKey} {p : ProofD}
    {ctx nonce : Int} {issig : Bool} {i1 i2 : Int} {rps : List (Int × List (Option RangeProof))}
    (h : p.verifyWith o kid pk ctx nonce issig i1 i2 = .ok true) (hrps : p.rangeProofs = some rps)
    (hnd : (rps.map (·.1)).Nodup) {kv : Int × List (Option RangeProof)} (hkv : kv ∈ rps)
    {rp : RangeProof} (hrp : some rp ∈ kv.2) :
    ∃ k, rp.k = some k ∧ ∀ m : Int, rp.sign * ((rp.a : Int) * m - k) ≥ 0 →
      (∀ sign factor bound, rp.provesStatement sign factor bound = true →
        sign * ((factor : Int) * m - bound) ≥ 0) ∧
      (∀ sgn f b, rp.provenStatement = some (sgn, f, b) → sgn * ((f : Int) * m - b) ≥ 0) := by
  obtain ⟨_, s, k, _, _, hk, _, _, _, h3, hs, _, _⟩ :=
    every_carried_proof_checked h hrps hnd kv hkv rp hrp
  refine ⟨k, hk, fun m hfact => ⟨?_, ?_⟩⟩
  · intro sign factor bound hp
    exact RangeProof.proves_sound hk hfact hp
  · intro sgn f b hp
    exact RangeProof.proven_statement_sound hk hs h3 hfact hp

/-! ## C. extractor algebra -/

section Algebra
open Gabi.Alg Gabi.QrAlg
variable {G : Type*} [CommGroup G]

/-- **completeness of every `QrStructure` proof** (abstract group): honest responses
    `randomiser + c·secret` for secrets satisfying `∏lhs = ∏ base^(power·secret)` reconstruct the
    prover's commitment. -/
theorem qr_complete (s : QrStructure) (B : String → G) (c : ℤ) (secret rand resp : String → ℤ)
    (hrel : Holds s B secret)
    (hresp : ∀ r ∈ s.rhs, resp r.secret = rand r.secret + c * secret r.secret) :
    fromProof s B c resp = fromSecrets s B rand :=
  QrAlg.qr_complete s B c secret rand resp hrel hresp

/-- **special soundness of every `QrStructure` proof**: two accepting transcripts with the same
    commitment give `(∏lhs)^(c−c') = ∏ base^(power·(resp−resp'))`. -/
theorem qr_special_soundness (s : QrStructure) (B : String → G) (c c' : ℤ) (resp resp' : String → ℤ)
    (h : fromProof s B c resp = fromProof s B c' resp') :
    lhsProd s B ^ (c - c') = rhsProd s B (fun n => resp n - resp' n) :=
  QrAlg.qr_special_soundness s B c c' resp resp' h

/-- **the extractor's equation**: witnesses of `Cᵢ = R^{dᵢ}S^{vᵢ}` (`i < n`) and of
    `R^e = S^{−v5} · R^{pw·m} · ∏Cᵢ^{dᵢ}` (the relation `mCorrect` encodes, `e = −sign·k`,
    `pw = −a·sign`) give a relation between `R` and `S` alone. -/
theorem relation_exponents {R S : G} (C : ℕ → G) (d v : ℕ → ℤ) (n : ℕ) (e pw m v5 : ℤ)
    (hC : ∀ i < n, C i = R ^ d i * S ^ v i)
    (hrel : R ^ e = S ^ (-v5) * R ^ (pw * m) * rep C d (List.range n)) :
    R ^ (e - pw * m - ((List.range n).map fun i => d i ^ 2).sum) =
      S ^ (((List.range n).map fun i => d i * v i).sum - v5) :=
  QrAlg.relation_exponents C d v n e pw m v5 hC hrel

/-- **relation ⇒ inequality**: if `R` and `S` have no non-trivial relation `R^x = S^y` with
    `|x| ≤ bnd` (CRYPTO-HYP: such a relation known to the prover breaks strong RSA; `bnd` is
    the size of the extracted exponents) then extracted witnesses satisfy
    `Σdᵢ² = sign·(a·m − k)`; in particular `sign·(a·m − k) ≥ 0`: **a false inequality has no
    witnesses**. -/
theorem relation_implies_inequality {R S : G} (C : ℕ → G) (d v : ℕ → ℤ) (n : ℕ)
    {sign : ℤ} (hs : sign = 1 ∨ sign = -1) (a k m v5 : ℤ) (bnd : ℤ)
    (hindep : ∀ x y : ℤ, |x| ≤ bnd → R ^ x = S ^ y → x = 0)
    (hsize : |sign * (a * m - k) - ((List.range n).map fun i => d i ^ 2).sum| ≤ bnd)
    (hC : ∀ i < n, C i = R ^ d i * S ^ v i)
    (hrel : R ^ (if sign = 1 then -k else k) =
      S ^ (-v5) * R ^ ((-a * sign) * m) * rep C d (List.range n)) :
    ((List.range n).map fun i => d i ^ 2).sum = sign * (a * m - k) ∧ 0 ≤ sign * (a * m - k) :=
  QrAlg.relation_implies_inequality C d v n hs a k m v5 bnd hindep hsize hC hrel

/-- the same with the unbounded independence hypothesis. -/
theorem relation_implies_inequality' {R S : G} (C : ℕ → G) (d v : ℕ → ℤ) (n : ℕ)
    {sign : ℤ} (hs : sign = 1 ∨ sign = -1) (a k m v5 : ℤ)
    (hindep : ∀ x y : ℤ, R ^ x = S ^ y → x = 0 ∧ y = 0)
    (hC : ∀ i < n, C i = R ^ d i * S ^ v i)
    (hrel : R ^ (if sign = 1 then -k else k) =
      S ^ (-v5) * R ^ ((-a * sign) * m) * rep C d (List.range n)) :
    ((List.range n).map fun i => d i ^ 2).sum = sign * (a * m - k) ∧ 0 ≤ sign * (a * m - k) :=
  QrAlg.relation_implies_inequality' C d v n hs a k m v5 hindep hC hrel

/-- hypothesis-free form: the inequality holds **or** an explicit non-trivial relation
    `R^x = S^y`, `x ≠ 0`, is exhibited. -/
theorem relation_implies_inequality_or_relation {R S : G} (C : ℕ → G) (d v : ℕ → ℤ) (n : ℕ)
    {sign : ℤ} (hs : sign = 1 ∨ sign = -1) (a k m v5 : ℤ)
    (hC : ∀ i < n, C i = R ^ d i * S ^ v i)
    (hrel : R ^ (if sign = 1 then -k else k) =
      S ^ (-v5) * R ^ ((-a * sign) * m) * rep C d (List.range n)) :
    (((List.range n).map fun i => d i ^ 2).sum = sign * (a * m - k) ∧ 0 ≤ sign * (a * m - k)) ∨
    (∃ x y : ℤ, x ≠ 0 ∧ R ^ x = S ^ y ∧
      x = sign * (a * m - k) - ((List.range n).map fun i => d i ^ 2).sum ∧
      y = ((List.range n).map fun i => d i * v i).sum - v5) :=
  QrAlg.relation_implies_inequality_or_relation C d v n hs a k m v5 hC hrel

/-- non-vacuity of the independence hypothesis: in `ℤ × ℤ` (written multiplicatively) the two
    generators have no non-trivial relation. -/
example : ∀ x y : ℤ, (Multiplicative.ofAdd ((1, 0) : ℤ × ℤ)) ^ x = (Multiplicative.ofAdd ((0, 1) : ℤ × ℤ)) ^ y →
    x = 0 ∧ y = 0 := by
  intro x y h
  have h' := congrArg Multiplicative.toAdd h
  simp only [toAdd_zpow, toAdd_ofAdd, Prod.smul_mk, smul_eq_mul, mul_one, mul_zero, Prod.mk.injEq] at h'
  exact ⟨h'.1, h'.2.symm⟩

/-- **the structure the verifier builds encodes exactly that relation**: for the structure
    returned by `rangeNewWithParams`, secrets satisfying `mCorrect` and all `cRep` relations (in
    any commutative group, for any interpretation `B` of the base names) satisfy
    `Σdᵢ² = sign·(a·m − k) ≥ 0`, or exhibit a non-trivial relation between `R_index` and `S`. -/
theorem range_structure_sound (B : String → G) (val : String → ℤ)
    {index sign : Int} {a : Nat} {k : Int} {n ld : Nat} {s : RangeStructure}
    (h : rangeNewWithParams index sign a k n ld = some s)
    (hm : Holds s.mCorrect B val) (hc : ∀ q ∈ s.cRep, Holds q B val) :
    (((List.range n).map fun i => val ("d" ++ toString i) ^ 2).sum = sign * ((a : ℤ) * val "m" - k) ∧
      0 ≤ sign * ((a : ℤ) * val "m" - k)) ∨
    (∃ x y : ℤ, x ≠ 0 ∧ B ("R" ++ toString index) ^ x = B "S" ^ y) :=
  QrAlg.range_structure_sound B val h hm hc

end Algebra

/-- **extraction on the model's integers**: two transcripts on which the model's
    `commitmentFromProof` reconstructs the same commitments for `mCorrect` and every `cRep`
    (as rewinding provides for one accepted Fiat–Shamir proof), all bases invertible modulo `N`
    (`BasesOk`; for the key's bases a property of the key, for the `Cᵢ` the predicate `UnitCs`,
    see `basesOk_of_unitCs`), response differences divisible by `c − c'` with quotients `w`
    (CRYPTO-HYP, strong RSA) and no `(c−c')`-torsion (CRYPTO-HYP `htors`), give
    `sign·(a·w(m) − k) = Σ w(dᵢ)² ≥ 0` for the extracted attribute `w(m)`, or a non-trivial
    relation between `R_index` and `S`. -/
theorem model_extract {index sign : Int} {a : Nat} {k : Int} {nS ld : Nat} {s : RangeStructure}
    (h : rangeNewWithParams index sign a k nS ld = some s) {N : ℕ} (hN : 1 < N) (c c' : Int)
    (bases results results' : String → Option Int) (w : String → ℤ)
    (hb : ∀ q ∈ s.mCorrect :: s.cRep, QrBridge.BasesOk N q bases)
    (hres : ∀ q ∈ s.mCorrect :: s.cRep, ∀ r ∈ q.rhs, (results r.secret).isSome)
    (hres' : ∀ q ∈ s.mCorrect :: s.cRep, ∀ r ∈ q.rhs, (results' r.secret).isSome)
    (heq : ∀ q ∈ s.mCorrect :: s.cRep,
      q.commitmentFromProof N c bases results = q.commitmentFromProof N c' bases results')
    (hdiv : ∀ name, QrBridge.intVals results name - QrBridge.intVals results' name = (c - c') * w name)
    (htors : ∀ q ∈ s.mCorrect :: s.cRep,
      (QrAlg.lhsProd q (QrBridge.unitBases N bases) / QrAlg.rhsProd q (QrBridge.unitBases N bases) w) ^ (c - c') = 1 →
        QrAlg.lhsProd q (QrBridge.unitBases N bases) = QrAlg.rhsProd q (QrBridge.unitBases N bases) w) :
    (((List.range nS).map fun i => w ("d" ++ toString i) ^ 2).sum = sign * ((a : ℤ) * w "m" - k) ∧
      0 ≤ sign * ((a : ℤ) * w "m" - k)) ∨
    (∃ x y : ℤ, x ≠ 0 ∧ QrBridge.unitBases N bases ("R" ++ toString index) ^ x =
      QrBridge.unitBases N bases "S" ^ y) :=
  range_model_extract h hN c c' bases results results' w hb hres hres' heq hdiv htors

/-- the bridge hypothesis for the bases the range verifier uses: `S` and `R_i` invertible
    (a property of the key) and every `Cᵢ` invertible (`UnitCs`, to be checked by
    `verifyProofStructure`). -/
theorem basesOk_of_unitCs {rp : RangeProof} {i : Nat} {pk : PublicKey} {s : RangeStructure} {N : ℕ}
    (h : rp.extractStructure (i : Int) pk = some s) (hN : pk.n = (N : Int))
    (hS : Int.gcd pk.s pk.n = 1) {b : Int} (hb : pk.r[i]? = some b) (hR : Int.gcd b pk.n = 1)
    (hC : UnitCs pk rp) :
    ∀ q ∈ s.mCorrect :: s.cRep, QrBridge.BasesOk N q (rangeBases pk rp) :=
  verifyProofStructure_basesOk h hN hS hb hR hC

/-- non-vacuity of the hypotheses of `basesOk_of_unitCs` (toy key of `Gabi.C01.Demo`, `n = 253`,
    `S = 4`, `R₂ = 25`, commitments `4, 9, 16, 25`). -/
def unitDemoRP : RangeProof :=
  { cs := [some 4, some 9, some 16, some 25], ds := [some 1, some 1, some 1, some 1],
    vs := [some 1, some 1, some 1, some 1], v5 := some 1, ld := 8, sign := 1, a := 1, k := some 5 }

example : (unitDemoRP.extractStructure ((2 : Nat) : Int) Gabi.C01.Demo.pk).isSome = true ∧
    Int.gcd Gabi.C01.Demo.pk.s Gabi.C01.Demo.pk.n = 1 ∧ Gabi.C01.Demo.pk.r[2]? = some 25 ∧
    Int.gcd 25 Gabi.C01.Demo.pk.n = 1 ∧ Gabi.C01.Demo.pk.n = ((253 : ℕ) : Int) := by decide

example : UnitCs Gabi.C01.Demo.pk unitDemoRP := by
  intro c hc
  simp only [unitDemoRP, List.mem_cons, List.not_mem_nil, or_false] at hc
  rcases hc with rfl | rfl | rfl | rfl
  · exact ⟨4, rfl, by decide, by decide, by decide⟩
  · exact ⟨9, rfl, by decide, by decide, by decide⟩
  · exact ⟨16, rfl, by decide, by decide, by decide⟩
  · exact ⟨25, rfl, by decide, by decide, by decide⟩

/-! ## D. the defect: non-invertible commitments void the check

  `verifyProofStructureOld` (GabiProofs.RangeLemmas) is the structure check as modelled when the
  defect was found: it bounds the bit length of `Cᵢ` but does not require `Cᵢ` to be invertible.
  Reproduced against the Go code: a `ProofD` whose range proof has `Cs = [0,0,0,0]`,
  `ds = vs = [1,1,1,1]`, `v5 = 1` and an arbitrary false bound verifies after a JSON round trip
  and `ProvesStatement` reports the false statement. -/

/-- **counterexample to "a false inequality cannot be proven"**: if all `Cᵢ` are `0` and all `d`
    responses positive, every commitment the verifier reconstructs is `0` – whatever the
    descriptor `(sign, a, k)`, the attribute response and the challenge – so the relations checked
    by the hash comparison hold for any statement, and any prover who can show the credential can
    attach such a "proof" of any statement. (When this defect was found the whole list was
    `replicate (n+1) 0`; since Go commit d9916c2 the list begins with the statement, here
    `0,…,0, k, a, sign, l_d`, see section E. The reconstructed part is still constant.) -/
theorem forged_commitments_zero {rp : RangeProof} {index : Int} {pk : PublicKey}
    {s : RangeStructure} (h : rp.extractStructure index pk = some s)
    (hv : s.verifyProofStructureOld pk rp = true) (hn : 1 < pk.n) {c : Int} (hc : 0 < c)
    (hcs : ∀ i < rp.cs.length, rp.cs[i]? = some (some 0))
    (hds : ∀ i < rp.cs.length, ∃ d, rp.ds[i]? = some (some d) ∧ 0 < d) :
    s.commitmentsFromProof pk rp c =
      .ok (List.replicate rp.cs.length 0 ++ [s.k, (s.a : Int), s.sign, (s.ld : Int)] ++
        List.replicate (rp.cs.length + 1) 0) :=
  RangeStructure.commitmentsFromProof_zero h hv hn hc hcs hds

/-! ### concrete forged proof on the toy key of `Gabi.C01.Demo`

  Attribute 2 has the value 7; the forged range proof claims `1·m ≥ 1000`. The forger runs the
  honest prover without range proofs, appends five zeros to the commitments before hashing, and
  attaches the all-zero range proof. -/
namespace Demo
open Gabi.C01.Demo

def forgedRP : RangeProof :=
  { cs := [some 0, some 0, some 0, some 0], ds := [some 1, some 1, some 1, some 1],
    vs := [some 1, some 1, some 1, some 1], v5 := some 1, ld := 8, sign := 1, a := 1, k := some 1000 }

def forged : GoM ProofD := do
  let sigR := clRandomize pk sig rnd.r
  let undisclosed ← getUndisclosedAttributes [1] 3
  let commit ← disclosureCommit pk sigR rnd undisclosed
  let c := createChallenge 42 43 (commit ++ [0, 0, 0, 0, 0]) false
  let p ← disclosureCreateProof pk [3, 5, 7] [1] undisclosed sigR rnd c
  pure { p with rangeProofs := some [(2, [some forgedRP])] }

/-- verdict of the model's verifier on the forged proof. -/
def forgedVerdict : GoM Bool := do
  let p ← forged
  p.verifyWith (fun _ _ => none) "" pk 42 43 false (-1) (-1)

/-- the hypotheses of `forged_commitments_zero` hold for the forged range proof. -/
def forgedHyps : Bool :=
  match forgedRP.extractStructure 2 pk with
  | some s => s.verifyProofStructureOld pk { forgedRP with mResponse := some 5 }
  | none => false

-- the statement is false for the signed value 7, the library reports it as proven
#guard decide (¬ ((1 : Int) * (1 * 7 - 1000) ≥ 0))
#guard forgedRP.provesStatement 1 1 1000
#guard forgedRP.provenStatement == some (1, 1, 1000)
#guard forgedHyps
-- With the repaired structure check (invertible `Cᵢ` required: Go commit 7f01777, mirrored in the model)
-- forged proof is ACCEPTED. Once `verifyProofStructure` requires invertible `Cᵢ` this verdict
-- becomes `.ok false`; flip the expected value then.
#guard forgedVerdict == .ok false

end Demo

/-! ## E. the statement enters the challenge (Go commit d9916c2)

  Before the repair `CommitmentsFromProof` / `CommitmentsFromSecrets` contributed only the
  reconstructed commitments of `mCorrect` and `cRep[i]`; the `Cᵢ` and the descriptor were not
  hashed, so they could be chosen after the challenge was known. Both functions now start their
  list with `statement(Cs) = C_0, …, C_{n-1}, k, a, sign, l_d`. -/

/-- **the statement is hashed**: whenever `commitmentsFromProof` returns a list `l`, every `Cᵢ` of
    the proof is present (`p.cs = cs.map some`) and `l` is exactly these `Cᵢ`, then the four
    descriptor values `k`, `a`, `sign`, `l_d` of the structure (the one the verifier extracted
    from the proof's descriptor), then `|cRep| + 1` reconstructed commitments. No hypothesis
    besides the successful return. -/
theorem statement_in_challenge {s : RangeStructure} {pk : PublicKey} {p : RangeProof} {c : Int}
    {l : List Int} (h : s.commitmentsFromProof pk p c = .ok l) :
    ∃ cs rest : List Int, p.cs = cs.map some ∧ rest.length = s.cRep.length + 1 ∧
      l = cs ++ [s.k, (s.a : Int), s.sign, (s.ld : Int)] ++ rest :=
  RangeStructure.commitmentsFromProof_shape h

/-- **different statements give different contributions**: two range proofs with equally many
    `Cᵢ` whose commitment lists differ, or whose structures differ in `k`, `a`, `sign` or `l_d`,
    never yield the same contribution list – whatever the keys, the challenges and the
    responses. (Equal length is needed: the list is a plain concatenation, and proofs with 3 and
    with 4 squares are told apart only by their position in it.) -/
theorem different_descriptor_different_contributions {s t : RangeStructure} {pk pk' : PublicKey}
    {p q : RangeProof} {c c' : Int} {l l' : List Int}
    (hs : s.commitmentsFromProof pk p c = .ok l) (ht : t.commitmentsFromProof pk' q c' = .ok l')
    (hlen : p.cs.length = q.cs.length)
    (hne : p.cs ≠ q.cs ∨ s.k ≠ t.k ∨ s.a ≠ t.a ∨ s.sign ≠ t.sign ∨ s.ld ≠ t.ld) : l ≠ l' := by
  obtain ⟨cs, rest, hcs, _, rfl⟩ := statement_in_challenge hs
  obtain ⟨cs', rest', hcs', _, rfl⟩ := statement_in_challenge ht
  intro he
  have hl : cs.length = cs'.length := by
    have := hlen; rw [hcs, hcs', List.length_map, List.length_map] at this; exact this
  have hb := statement_block_inj (pre := []) (post := []) (post' := []) hl
    (by simpa only [List.nil_append, List.append_nil] using he)
  obtain ⟨h1, h2, h3, h4, h5⟩ := hb
  rcases hne with h | h | h | h | h
  · exact h (by rw [hcs, hcs', h1])
  · exact h h2
  · exact h (by exact_mod_cast h3)
  · exact h h4
  · exact h (by exact_mod_cast h5)

/-- **… and different challenges, up to a SHA-256 collision**: place the two contribution lists
    after the same earlier contributions `pre` (same context, nonce and flag; anything may
    follow). If the resulting challenges coincide although the statements differ, the two hash
    inputs are an explicit SHA-256 collision. `hl`, `hl'`: the hash inputs are shorter than
    `256^126` bytes (as in `createChallenge_binds`). -/
theorem different_descriptor_different_challenge {s t : RangeStructure} {pk pk' : PublicKey}
    {p q : RangeProof} {c c' : Int} {l l' : List Int}
    (hs : s.commitmentsFromProof pk p c = .ok l) (ht : t.commitmentsFromProof pk' q c' = .ok l')
    (hlen : p.cs.length = q.cs.length)
    (hne : p.cs ≠ q.cs ∨ s.k ≠ t.k ∨ s.a ≠ t.a ∨ s.sign ≠ t.sign ∨ s.ld ≠ t.ld)
    (ctx nonce : Int) (issig : Bool) (pre post post' : List Int)
    (hl : (hashCommitInput (ctx :: (pre ++ l ++ post) ++ [nonce]) issig).length < 256 ^ 126)
    (hl' : (hashCommitInput (ctx :: (pre ++ l' ++ post') ++ [nonce]) issig).length < 256 ^ 126)
    (h : createChallenge ctx nonce (pre ++ l ++ post) issig =
      createChallenge ctx nonce (pre ++ l' ++ post') issig) :
    hashCommitInput (ctx :: (pre ++ l ++ post) ++ [nonce]) issig ≠
        hashCommitInput (ctx :: (pre ++ l' ++ post') ++ [nonce]) issig ∧
      Sha256.hash (hashCommitInput (ctx :: (pre ++ l ++ post) ++ [nonce]) issig) =
        Sha256.hash (hashCommitInput (ctx :: (pre ++ l' ++ post') ++ [nonce]) issig) := by
  rcases createChallenge_binds hl hl' h with ⟨_, he, _, _⟩ | hcol
  · exfalso
    obtain ⟨cs, rest, hcs, _, rfl⟩ := statement_in_challenge hs
    obtain ⟨cs', rest', hcs', _, rfl⟩ := statement_in_challenge ht
    have hl : cs.length = cs'.length := by
      have := hlen; rw [hcs, hcs', List.length_map, List.length_map] at this; exact this
    obtain ⟨h1, h2, h3, h4, h5⟩ := statement_block_inj hl he
    rcases hne with h | h | h | h | h
    · exact h (by rw [hcs, hcs', h1])
    · exact h h2
    · exact h (by exact_mod_cast h3)
    · exact h h4
    · exact h (by exact_mod_cast h5)
  · exact hcol

/-! non-vacuity: on the toy key of `Gabi.C01.Demo` the range proof `unitDemoRP` (`m ≥ 5`) and the
    same proof with the bound replaced by `6` both reconstruct; the lists start with
    `4, 9, 16, 25, k, 1, 1, 8` and differ in `k` only at that position. -/
def unitDemoRP' : RangeProof := { unitDemoRP with k := some 6 }

def demoContribs (rp : RangeProof) : GoM (List Int) :=
  match rp.extractStructure 2 Gabi.C01.Demo.pk with
  | some s => s.commitmentsFromProof Gabi.C01.Demo.pk { rp with mResponse := some 5 } 3
  | none => pure []

#guard (demoContribs unitDemoRP).toOption.map (·.take 8) == some [4, 9, 16, 25, 5, 1, 1, 8]
#guard (demoContribs unitDemoRP').toOption.map (·.take 8) == some [4, 9, 16, 25, 6, 1, 1, 8]
#guard (demoContribs unitDemoRP).toOption.map (·.length) == some 13

end Gabi.C12

#print axioms Gabi.C12.every_carried_proof_checked
#print axioms Gabi.C12.mresponse_tied
#print axioms Gabi.C12.contribution_order
#print axioms Gabi.C12.rangeproof_needs_hidden_index
#print axioms Gabi.C12.rangeproof_on_disclosed_rejected
#print axioms Gabi.C12.rangeproof_outside_rejected
#print axioms Gabi.C12.nil_rangeproof_rejected
#print axioms Gabi.C12.structure_depends_on_index
#print axioms Gabi.C12.power_exact
#print axioms Gabi.C12.factor_guard
#print axioms Gabi.C12.power_wraps_unguarded
#print axioms Gabi.C12.proves_sound
#print axioms Gabi.C12.proven_statement_sound
#print axioms Gabi.C12.accepted_reports_only_consequences
#print axioms Gabi.C12.qr_complete
#print axioms Gabi.C12.qr_special_soundness
#print axioms Gabi.C12.relation_exponents
#print axioms Gabi.C12.relation_implies_inequality
#print axioms Gabi.C12.relation_implies_inequality'
#print axioms Gabi.C12.relation_implies_inequality_or_relation
#print axioms Gabi.C12.range_structure_sound
#print axioms Gabi.C12.model_extract
#print axioms Gabi.C12.basesOk_of_unitCs
#print axioms Gabi.C12.forged_commitments_zero
#print axioms Gabi.C12.statement_in_challenge
#print axioms Gabi.C12.different_descriptor_different_contributions
#print axioms Gabi.C12.different_descriptor_different_challenge
