/-
  C11 — Non-revocation proofs are sound and tied to the credential.
  Property theorems about the executable model of the non-revocation verifier
  (GabiModel.Proofs: `NonRevProof.setExpected / challengeContributions / verifyWithChallenge`,
  `ProofD.challengeContribution / verifyWithChallenge / revChoices`; GabiModel.ReprProof:
  `QrStructure.commitmentFromProof`) and about the abstract algebra of the three proven
  relations (commutative group, integer exponents). ECDSA + CBOR are external: the signature
  check of the embedded accumulator is the oracle parameter `o : SigOracle`.
  Helper lemmas: GabiProofs.MiscLemmas.

  Known finding kept visible here: `ambiguity_witness` (revocationAttrIndex may have several
  candidates; Go picks one in map-iteration order). Repaired: index 0 (the secret key) is no
  candidate any more (`secret_key_never_revocation_index`, `accepted_choice_never_secret_key`).
-/
import GabiModel.Proofs
import GabiModel.ReprProof
import GabiProofs.MiscLemmas
import GabiProofs.GroupAlgebra
import GabiProofs.Bridge
namespace Gabi.C11
open Gabi Gabi.Misc

/-! ### the algebra: completeness -/

section Algebra
variable {G : Type*} [CommGroup G] {ι : Type*}
open Gabi.Alg

/-- Generic completeness of a representation proof (`QrRepresentationProofStructure`): if
    `lhs = ∏ baseⱼ^(powerⱼ·secretⱼ)` then for honest responses `randⱼ + c·secretⱼ` the
    verifier's reconstruction `(lhs⁻¹)^c · ∏ baseⱼ^(powerⱼ·respⱼ)` is the commitment
    `∏ baseⱼ^(powerⱼ·randⱼ)`. -/
theorem representation_complete (B : ι → G) (p sec rnd : ι → ℤ) (l : List ι) (c : ℤ) (lhs : G)
    (hl : lhs = rep B (fun j => p j * sec j) l) :
    (lhs⁻¹) ^ c * rep B (fun j => p j * (rnd j + c * sec j)) l = rep B (fun j => p j * rnd j) l :=
  repr_complete B p sec rnd l c lhs hl

/-- **Completeness of the non-revocation proof.** Witness `u^e = ν`; the prover picks `r₂ r₃`,
    publishes `C_r = g^r₂ h^r₃`, `C_u = u h^r₂` and proves knowledge of
    `α = e, β = e r₂, δ = e r₃, ε = r₂, ζ = r₃`. The three relations of the regenerated table
    hold, and for each of them honest responses `rand + c·secret` make the reconstructed
    commitment equal the prover's commitment. -/
theorem nonrev_complete {g h u ν : G} {e r2 r3 : ℤ} (hw : u ^ e = ν)
    (c ρα ρβ ρδ ρε ρζ : ℤ) :
    let Cr := g ^ r2 * h ^ r3
    let Cu := u * h ^ r2
    -- the relations
    (Cr = g ^ r2 * h ^ r3 ∧ ν = Cu ^ e * h ^ (-(e * r2)) ∧
      1 = Cr ^ e * g ^ (-(e * r2)) * h ^ (-(e * r3))) ∧
    -- relation "cr": lhs C_r, rhs G^ε H^ζ
    ((Cr⁻¹) ^ c * (g ^ (1 * (ρε + c * r2)) * h ^ (1 * (ρζ + c * r3))) =
        g ^ (1 * ρε) * h ^ (1 * ρζ)) ∧
    -- relation "nu": lhs ν, rhs C_u^α H^(-β)
    ((ν⁻¹) ^ c * (Cu ^ (1 * (ρα + c * e)) * h ^ ((-1) * (ρβ + c * (e * r2)))) =
        Cu ^ (1 * ρα) * h ^ ((-1) * ρβ)) ∧
    -- relation "one": lhs 1, rhs C_r^α G^(-β) H^(-δ)
    (((1 : G)⁻¹) ^ c * (Cr ^ (1 * (ρα + c * e)) * g ^ ((-1) * (ρβ + c * (e * r2))) *
          h ^ ((-1) * (ρδ + c * (e * r3)))) =
        Cr ^ (1 * ρα) * g ^ ((-1) * ρβ) * h ^ ((-1) * ρδ)) := by
  subst hw
  refine ⟨nonrev_relations rfl, ?_, ?_, ?_⟩
  · to_additive_goal; module
  · to_additive_goal; module
  · to_additive_goal; module

/-! ### the algebra: special soundness -/

/-- Generic special soundness of a representation proof: two accepting transcripts with the
    same commitment `T` give `lhs^(c-c') = ∏ baseⱼ^(powerⱼ·(sⱼ-s'ⱼ))`. -/
theorem representation_special_soundness (B : ι → G) (p s s' : ι → ℤ) (l : List ι) (c c' : ℤ)
    (lhs T : G)
    (h1 : (lhs⁻¹) ^ c * rep B (fun j => p j * s j) l = T)
    (h2 : (lhs⁻¹) ^ c' * rep B (fun j => p j * s' j) l = T) :
    lhs ^ (c - c') = rep B (fun j => p j * (s j - s' j)) l :=
  repr_special_soundness B p s s' l c c' lhs T h1 h2

/-- **Special soundness of the non-revocation proof.** Two accepting transcripts for the same
    `C_r, C_u, ν` and the same three commitments `T₁ T₂ T₃` under challenges `c`, `c'` yield the
    three relations in the exponent differences. -/
theorem nonrev_special_soundness {g h Cr Cu ν T1 T2 T3 : G}
    {c c' α α' β β' δ δ' ε ε' ζ ζ' : ℤ}
    (a1 : (Cr⁻¹) ^ c * (g ^ ε * h ^ ζ) = T1) (a1' : (Cr⁻¹) ^ c' * (g ^ ε' * h ^ ζ') = T1)
    (a2 : (ν⁻¹) ^ c * (Cu ^ α * h ^ (-β)) = T2) (a2' : (ν⁻¹) ^ c' * (Cu ^ α' * h ^ (-β')) = T2)
    (a3 : ((1 : G)⁻¹) ^ c * (Cr ^ α * g ^ (-β) * h ^ (-δ)) = T3)
    (a3' : ((1 : G)⁻¹) ^ c' * (Cr ^ α' * g ^ (-β') * h ^ (-δ')) = T3) :
    Cr ^ (c - c') = g ^ (ε - ε') * h ^ (ζ - ζ') ∧
    ν ^ (c - c') = Cu ^ (α - α') * h ^ (-(β - β')) ∧
    1 = Cr ^ (α - α') * g ^ (-(β - β')) * h ^ (-(δ - δ')) := by
  have e1 := ofMul_congr (a1.trans a1'.symm)
  have e2 := ofMul_congr (a2.trans a2'.symm)
  have e3 := ofMul_congr (a3.trans a3'.symm)
  simp only [ofMul_mul, ofMul_zpow, ofMul_inv, ofMul_one] at e1 e2 e3
  refine ⟨?_, ?_, ?_⟩
  · to_additive_goal; linear_combination (norm := module) (-1 : ℤ) • e1
  · to_additive_goal; linear_combination (norm := module) (-1 : ℤ) • e2
  · to_additive_goal; linear_combination (norm := module) (-1 : ℤ) • e3

/-- **The prover knows a valid witness** (exact-division case of the extractor): if all exponent
    differences are multiples of `Δc`, the group has no `Δc`-torsion and `g`, `h` satisfy no
    non-trivial relation, then `β₀ = α₀ ε₀` and `u := C_u · h^(-ε₀)` is an `α₀`-th root of the
    accumulator value: `u^α₀ = ν`. -/
theorem nonrev_extracts_witness {g h Cr Cu ν : G} {dc dε dζ dα dβ dδ ε₀ ζ₀ α₀ β₀ δ₀ : ℤ}
    (r1 : Cr ^ dc = g ^ dε * h ^ dζ)
    (r2 : ν ^ dc = Cu ^ dα * h ^ (-dβ))
    (r3 : 1 = Cr ^ dα * g ^ (-dβ) * h ^ (-dδ))
    (hε : dε = dc * ε₀) (hζ : dζ = dc * ζ₀) (hα : dα = dc * α₀) (hβ : dβ = dc * β₀)
    (hδ : dδ = dc * δ₀)
    (htors : ∀ x : G, x ^ dc = 1 → x = 1)
    (hindep : ∀ a b : ℤ, g ^ a * h ^ b = 1 → a = 0 ∧ b = 0) :
    Cr = g ^ ε₀ * h ^ ζ₀ ∧ β₀ = α₀ * ε₀ ∧ δ₀ = α₀ * ζ₀ ∧ (Cu * h ^ (-ε₀)) ^ α₀ = ν :=
  nonrev_extract r1 r2 r3 hε hζ hα hβ hδ htors hindep

/-- **Tied to the credential.** The verifier sets the `alpha` response of the non-revocation
    proof to the disclosure proof's response of the hidden attribute `i₀` (see
    `alpha_is_hidden_attr`), and both proofs answer the same challenge. Hence the extractor
    obtains the *same* exponent difference `s i₀ - s' i₀` for the base `R_{i₀}` of the CL
    relation and for `C_u` in the accumulator relation: the witness value proven
    non-revoked is the attribute hidden in that same credential. -/
theorem nonrev_linked_to_credential {A' S K T h Cu ν T2 : G} (R : ι → G) (i0 : ι) (H : List ι)
    (s s' : ι → ℤ) {c c' eR eR' vR vR' β β' : ℤ}
    (d1 : K ^ (-c) * A' ^ eR * S ^ vR * rep R s (i0 :: H) = T)
    (d2 : K ^ (-c') * A' ^ eR' * S ^ vR' * rep R s' (i0 :: H) = T)
    (a2 : (ν⁻¹) ^ c * (Cu ^ (s i0) * h ^ (-β)) = T2)
    (a2' : (ν⁻¹) ^ c' * (Cu ^ (s' i0) * h ^ (-β')) = T2) :
    K ^ (c - c') = A' ^ (eR - eR') * S ^ (vR - vR') *
        (R i0 ^ (s i0 - s' i0) * rep R (fun j => s j - s' j) H) ∧
    ν ^ (c - c') = Cu ^ (s i0 - s' i0) * h ^ (-(β - β')) := by
  refine ⟨proofD_special_soundness_sk R i0 H s s' d1 d2, ?_⟩
  have e2 := ofMul_congr (a2.trans a2'.symm)
  simp only [ofMul_mul, ofMul_zpow, ofMul_inv] at e2
  to_additive_goal; linear_combination (norm := module) (-1 : ℤ) • e2

end Algebra

/-! ### the model's verifier computes that algebra in `(ZMod n)ˣ` -/

section Model
open Gabi.Alg
variable {n : ℕ}

/-- `CommitmentsFromProof` on invertible bases never panics and returns the representative in
    `[0,n)` of `(∏ lhs)^(-c) · ∏ base^(power·response)` (unit group of `ZMod n`). -/
theorem commitmentFromProof_spec (hn : 1 < n) (s : QrStructure) (c : Int) (b r : String → Option Int)
    (hl : ∀ l ∈ s.lhs, UnitBase n b l.base) (hb : ∀ x ∈ s.rhs, UnitBase n b x.base)
    (hr : ∀ x ∈ s.rhs, (r x.secret).isSome = true) :
    ∃ v, s.commitmentFromProof n c b r = .ok v ∧ 0 ≤ v ∧ v < n ∧
      (v : ZMod n) = ((((rep (fun l : LhsContribution => baseU n b l.base) (fun l => l.power) s.lhs)⁻¹) ^ c *
        rep (fun x : RhsContribution => baseU n b x.base)
          (fun x => x.power * (r x.secret).getD 0) s.rhs : (ZMod n)ˣ) : ZMod n) :=
  commitmentFromProof_unit hn s c b r hl hb hr

/-- **Completeness in the model.** For an honest prover (`C_r = G^r₂H^r₃`, `C_u = u·H^r₂`,
    `u^e = ν` modulo `n`, all invertible) the three commitments the verifier reconstructs from
    the responses `rnd + c·secret` are exactly the integers `CommitmentsFromSecrets` produced –
    so prover and verifier hash the same list and the proof is accepted. -/
theorem nonrev_complete_model (hn : 1 < n) (pk : PublicKey) (hpk : pk.n = (n : Int))
    (p : NonRevProof) (g h cr cu nu e r2 r3 c : Int) (rnd : String → Int) (u : (ZMod n)ˣ)
    (hg : pk.g = some g) (hh : pk.h = some h)
    (hcr : p.cr = some cr) (hcu : p.cu = some cu) (hnu : p.nu = some nu)
    (ug : Int.gcd g n = 1) (uh : Int.gcd h n = 1) (ucr : Int.gcd cr n = 1) (ucu : Int.gcd cu n = 1)
    (unu : Int.gcd nu n = 1)
    (hCr : zunit n cr = zunit n g ^ r2 * zunit n h ^ r3)
    (hCu : zunit n cu = u * zunit n h ^ r2)
    (hw : u ^ e = zunit n nu) :
    revStructures.mapM (fun s => s.commitmentFromProof pk.n c (revBases pk p)
        (fun name => some (rnd name + c * revSecrets e r2 r3 name))) =
      revStructures.mapM (fun s => s.commitmentFromSecrets pk.n (revBases pk p)
        (fun name => some (rnd name))) ∧
    ∃ cs, revStructures.mapM (fun s => s.commitmentFromSecrets pk.n (revBases pk p)
        (fun name => some (rnd name))) = .ok cs :=
  nonrev_model_complete hn pk hpk p g h cr cu nu e r2 r3 c rnd u hg hh hcr hcu hnu ug uh ucr ucu unu
    hCr hCu hw

/-- **Special soundness in the model.** Two non-revocation proofs for the same `C_r, C_u, ν`
    whose reconstructed commitments coincide under challenges `c`, `c'` satisfy – with
    `R name` the difference of the two `name` responses – the three extracted relations in
    `(ZMod n)ˣ`; `nonrev_extracts_witness` turns these into a valid witness. Hypotheses on the
    key (`G`, `H` invertible) and the accumulator (`ν` invertible) are well-formedness
    conditions; invertibility of `C_r`, `C_u` is what `nonrev_units` guarantees. -/
theorem nonrev_special_soundness_model (hn : 1 < n) (pk : PublicKey) (hpk : pk.n = (n : Int))
    (p q : NonRevProof) (g h cr cu nu c c' : Int) (cs : List Int)
    (hg : pk.g = some g) (hh : pk.h = some h)
    (hcr : p.cr = some cr) (hcu : p.cu = some cu) (hnu : p.nu = some nu)
    (hcr' : q.cr = some cr) (hcu' : q.cu = some cu) (hnu' : q.nu = some nu)
    (ug : Int.gcd g n = 1) (uh : Int.gcd h n = 1) (ucr : Int.gcd cr n = 1) (ucu : Int.gcd cu n = 1)
    (unu : Int.gcd nu n = 1)
    (hp : ∀ name ∈ Gen.revSecretNames, (p.response name).isSome = true)
    (hq : ∀ name ∈ Gen.revSecretNames, (q.response name).isSome = true)
    (h1 : revStructures.mapM (fun s => s.commitmentFromProof pk.n c (revBases pk p) p.response) = .ok cs)
    (h2 : revStructures.mapM (fun s => s.commitmentFromProof pk.n c' (revBases pk q) q.response) = .ok cs) :
    let R := fun name => (p.response name).getD 0 - (q.response name).getD 0
    zunit n cr ^ (c - c') = zunit n g ^ R "epsilon" * zunit n h ^ R "zeta" ∧
    zunit n nu ^ (c - c') = zunit n cu ^ R "alpha" * zunit n h ^ (-R "beta") ∧
    1 = zunit n cr ^ R "alpha" * zunit n g ^ (-R "beta") * zunit n h ^ (-R "delta") :=
  nonrev_model_special_soundness hn pk hpk p q g h cr cu nu c c' cs hg hh hcr hcu hnu hcr' hcu' hnu'
    ug uh ucr ucu unu hp hq h1 h2

end Model

/-! ### the model: what `SetExpected` writes and what acceptance re-checks -/

/-- `SetExpected(pk, c, resp)` succeeds only for a proof whose embedded accumulator passes the
    signature check under a key with the right counter; it then stores `resp` as the `alpha`
    response, `c` as challenge and the *signed* accumulator's `ν` as `nu`; `C_r`, `C_u`, the
    embedded accumulator and all other responses are untouched. -/
theorem alpha_is_hidden_attr (o : SigOracle) (kid : String) (pk : PublicKey) (nr nr' : NonRevProof)
    (c resp : Int) (h : nr.setExpected o kid pk c resp = some nr') :
    nr'.response "alpha" = some resp ∧ nr'.challenge = some c ∧
    nr'.cr = nr.cr ∧ nr'.cu = nr.cu ∧ nr'.sacc = nr.sacc ∧
    (∀ name, name ≠ "alpha" → nr'.response name = nr.response name) ∧
    ∃ sacc acc, nr.sacc = some sacc ∧ sacc.unmarshalVerify o kid pk = some acc ∧
      pk.counter = sacc.pkCounter ∧ o kid (sacc.data.getD []) = some acc ∧
      nr'.nu = acc.nu ∧ acc.nu.isSome = true := by
  obtain ⟨_, _, _, _, _, sacc, acc, nu, hs, hv, hn, rfl, _, _⟩ :=
    (setExpected_eq_some_iff o kid pk nr nr' c resp).mp h
  obtain ⟨hc, ho⟩ := (unmarshalVerify_eq_some_iff o kid pk sacc acc).mp hv
  refine ⟨setExpectedResult_response_alpha nr nu c resp, rfl, rfl, rfl, rfl,
    fun name hne => setExpectedResult_response_other nr nu c resp name hne,
    sacc, acc, hs, hv, hc, ho, ?_, ?_⟩
  · rw [hn]; rfl
  · rw [hn]; rfl

/-- In `ProofD.ChallengeContribution` the value handed to `SetExpected` is literally the
    response of the hidden attribute at the chosen index, and the challenge is the proof's own
    `c`; the non-revocation contributions `[C_r, C_u, ν, commitments…]` enter the hash input. -/
theorem challengeContribution_sets_alpha (o : SigOracle) (kid : String) (pk : PublicKey)
    (p p' : ProofD) (nr : NonRevProof) (revIdx : Int) (l : List Int) (hnr : p.nonrev = some nr)
    (h : (p.challengeContribution o kid pk revIdx).run = .ok (some (l, p'))) :
    0 ≤ revIdx ∧ ∃ resp c nr', p.aResponses.get revIdx = some resp ∧ p.c = some c ∧
      nr.setExpected o kid pk c resp = some nr' ∧ p'.nonrev = some nr' ∧
      p'.aResponses = p.aResponses ∧ p'.c = p.c ∧
      ∃ a z contrib rc, nr'.challengeContributions pk = .ok contrib ∧
        l = [a, z] ++ contrib ++ rc :=
  challengeContribution_nonrev o kid pk p p' nr revIdx l hnr h

/-- `ProofD.VerifyWithChallenge` accepts a proof with a non-revocation part only if the
    non-revocation verifier accepts, and it **re-checks** that the `alpha` response equals the
    hidden-attribute response at the (second) chosen index. -/
theorem acceptance_rechecks_alpha (o : SigOracle) (kid : String) (pk : PublicKey) (p : ProofD)
    (nr : NonRevProof) (revIdx c' : Int) (acc : Option Accumulator) (hnr : p.nonrev = some nr)
    (h : p.verifyWithChallenge o kid pk revIdx c' = .ok (true, acc)) :
    0 ≤ revIdx ∧ ∃ resp, p.aResponses.get revIdx = some resp ∧ nr.response "alpha" = some resp ∧
      nr.verifyWithChallenge o kid pk c' = (true, acc) ∧ p.c = some c' :=
  proofD_accept_nonrev o kid pk p nr revIdx c' acc hnr h

/-- **The accumulator a verifier reads is the signature-checked one whose ν entered the
    challenge.** If the non-revocation verifier accepts and returns `a` then `a = some acc`
    where `acc` is what the signature oracle returns for the embedded bytes under this key,
    the key counter matches, the proof's `nu` (which `challengeContributions` hashes) is
    `acc.nu`, and the stored challenge is the recomputed one. In particular `acc.index` and
    `acc.time` are those of the signed accumulator the proof was checked against. -/
theorem accepted_accumulator_is_signed (o : SigOracle) (kid : String) (pk : PublicKey)
    (nr : NonRevProof) (c' : Int) (a : Option Accumulator)
    (h : nr.verifyWithChallenge o kid pk c' = (true, a)) :
    ∃ sacc acc, a = some acc ∧ nr.sacc = some sacc ∧
      sacc.unmarshalVerify o kid pk = some acc ∧ pk.counter = sacc.pkCounter ∧
      o kid (sacc.data.getD []) = some acc ∧ nr.nu = acc.nu ∧ acc.nu.isSome = true ∧
      nr.challenge = some c' ∧ (nr.response "alpha").getD 0 ≤ revBTwoZk := by
  obtain ⟨sacc, acc, nu, hs, _, _, hb, hv, hn, hpn, hc, ha⟩ :=
    (verifyWithChallenge_true_iff o kid pk nr c' a).mp h
  obtain ⟨hcnt, ho⟩ := (unmarshalVerify_eq_some_iff o kid pk sacc acc).mp hv
  exact ⟨sacc, acc, ha, hs, hv, hcnt, ho, by rw [hpn, hn], by rw [hn]; rfl, hc, hb⟩

/-- A wrong signature / undecodable accumulator, a key-counter mismatch, an accumulator without
    `ν`, or a `nu` field differing from the signed one are all rejected. -/
theorem altered_accumulator_rejected (o : SigOracle) (kid : String) (pk : PublicKey)
    (nr : NonRevProof) (c' : Int) (sacc : SignedAccumulator) (hs : nr.sacc = some sacc)
    (hbad : pk.counter ≠ sacc.pkCounter ∨ o kid (sacc.data.getD []) = none ∨
      (∃ acc, o kid (sacc.data.getD []) = some acc ∧ nr.nu ≠ acc.nu)) :
    (nr.verifyWithChallenge o kid pk c').1 = false := by
  cases hv : (nr.verifyWithChallenge o kid pk c').1 with
  | false => rfl
  | true =>
    exfalso
    have h : nr.verifyWithChallenge o kid pk c' = (true, (nr.verifyWithChallenge o kid pk c').2) := by
      rw [← hv]
    obtain ⟨sacc', acc, _, hs', _, hcnt, ho, hnu, _⟩ := accepted_accumulator_is_signed o kid pk nr c' _ h
    rw [hs] at hs'
    cases hs'
    rcases hbad with h1 | h2 | ⟨acc', h3, h4⟩
    · exact h1 hcnt
    · rw [h2] at ho; cases ho
    · rw [h3] at ho; cases ho; exact h4 hnu

/-- End to end: `ProofD.Verify` (for the two picks `i₁ i₂` of `revocationAttrIndex`) accepts a
    proof with a non-revocation part only if both picks denote the same hidden response, that
    response is the `alpha` of the non-revocation proof, the embedded accumulator is correctly
    signed for this key, and `[C_r, C_u, ν]` followed by the three reconstructed commitments were
    hashed into the challenge. -/
theorem accepted_proof_is_tied (o : SigOracle) (kid : String) (pk : PublicKey) (p : ProofD)
    (nr : NonRevProof) (ctx nonce : Int) (issig : Bool) (i1 i2 : Int) (hnr : p.nonrev = some nr)
    (h : p.verifyWith o kid pk ctx nonce issig i1 i2 = .ok true) :
    0 ≤ i1 ∧ 0 ≤ i2 ∧ ∃ resp nr' sacc acc cr cu nu cs a z rc,
      p.aResponses.get i1 = some resp ∧ p.aResponses.get i2 = some resp ∧
      nr.setExpected o kid pk (createChallenge ctx nonce ([a, z] ++ ([cr, cu, nu] ++ cs) ++ rc) issig) resp
        = some nr' ∧
      p.c = some (createChallenge ctx nonce ([a, z] ++ ([cr, cu, nu] ++ cs) ++ rc) issig : Int) ∧
      nr.cr = some cr ∧ nr.cu = some cu ∧ (0 < cr ∧ Int.gcd cr pk.n = 1) ∧ (0 < cu ∧ Int.gcd cu pk.n = 1) ∧
      nr.sacc = some sacc ∧ pk.counter = sacc.pkCounter ∧ o kid (sacc.data.getD []) = some acc ∧
      acc.nu = some nu ∧
      revStructures.mapM (fun s => s.commitmentFromProof pk.n
        (createChallenge ctx nonce ([a, z] ++ ([cr, cu, nu] ++ cs) ++ rc) issig)
        (revBases pk nr') nr'.response) = .ok cs ∧
      nr'.response "alpha" = some resp := by
  obtain ⟨contrib, p', acc0, hcc, hv⟩ := verifyWith_ok_true o kid pk p ctx nonce issig i1 i2 h
  obtain ⟨h1, resp, c, nr', hg1, hpc, hse, hnr', haR, hc', a, z, con, rc, hcon, hl⟩ :=
    challengeContribution_nonrev o kid pk p p' nr i1 contrib hnr hcc
  obtain ⟨h2, resp2, hg2, hal, hnv, hpc'⟩ := proofD_accept_nonrev o kid pk p' nr' i2 _ acc0 hnr' hv
  obtain ⟨hal', hch, hcr, hcu, hsacc, _, sacc, acc, hs, _, hcnt, ho, hnu, hnus⟩ :=
    alpha_is_hidden_attr o kid pk nr nr' c resp hse
  obtain ⟨cr, cu, nu, ch, cs, hcr', hcu', hnu', hch', hcs, hcon'⟩ :=
    nonrev_challengeContributions_ok pk nr' con hcon
  have hcc' : c = (createChallenge ctx nonce contrib issig : Int) := by
    rw [hc', hpc] at hpc'; exact Option.some.inj hpc'
  have hchc : ch = c := by rw [hch] at hch'; exact (Option.some.inj hch').symm
  rw [hal] at hal'
  cases hal'
  rw [haR] at hg2
  subst hcon' hl hchc
  obtain ⟨_, _, _, _, _, _, _, _, _, _, _, _, _, hbu⟩ :=
    (setExpected_eq_some_iff o kid pk nr nr' _ resp).mp hse
  obtain ⟨⟨cr0, cu0, hcr0, hcu0, hu1, hu2⟩, _⟩ := (basesAreUnits_iff pk nr').mp hbu
  rw [hcr'] at hcr0; cases hcr0
  rw [hcu'] at hcu0; cases hcu0
  refine ⟨h1, h2, resp, nr', sacc, acc, cr, cu, nu, cs, a, z, rc, hg1, hg2, ?_, ?_, ?_, ?_,
    (unitModN_iff _ _).mp hu1, (unitModN_iff _ _).mp hu2,
    hs, hcnt, ho, ?_, ?_, hal⟩
  · rw [← hcc']; exact hse
  · rw [← hcc']; exact hpc
  · rw [← hcr, hcr']
  · rw [← hcu, hcu']
  · rw [← hnu, hnu']
  · rw [← hcc']; exact hcs

/-! ### units: the repaired forgery -/

/-- Acceptance implies that the prover-chosen bases `C_r`, `C_u` are units modulo `n`
    (`0 < C`, `gcd(C, n) = 1`; no upper bound – a refreshed prepared commitment may carry an
    unreduced `C_u`, which is still a unit) and that every response is present and
    non-negative. -/
theorem nonrev_units (o : SigOracle) (kid : String) (pk : PublicKey) (nr : NonRevProof) (c' : Int)
    (a : Option Accumulator) (h : nr.verifyWithChallenge o kid pk c' = (true, a)) :
    (∃ cr cu, nr.cr = some cr ∧ nr.cu = some cu ∧
      (0 < cr ∧ Int.gcd cr pk.n = 1) ∧ (0 < cu ∧ Int.gcd cu pk.n = 1)) ∧
    ∀ kv ∈ nr.responses, ∃ r, kv.2 = some r ∧ 0 ≤ r := by
  obtain ⟨_, _, _, _, _, hb, _⟩ := (verifyWithChallenge_true_iff o kid pk nr c' a).mp h
  obtain ⟨⟨cr, cu, h1, h2, h3, h4⟩, h5⟩ := (basesAreUnits_iff pk nr).mp hb
  exact ⟨⟨cr, cu, h1, h2, (unitModN_iff _ _).mp h3, (unitModN_iff _ _).mp h4⟩, h5⟩

/-- `SetExpected` already fails on non-unit bases, so a forged proof does not even reach the
    hash computation. -/
theorem setExpected_requires_units (o : SigOracle) (kid : String) (pk : PublicKey)
    (nr nr' : NonRevProof) (c resp : Int) (h : nr.setExpected o kid pk c resp = some nr') :
    ∃ cr cu, nr.cr = some cr ∧ nr.cu = some cu ∧ (0 < cr ∧ Int.gcd cr pk.n = 1) ∧
      (0 < cu ∧ Int.gcd cu pk.n = 1) := by
  obtain ⟨_, _, _, _, _, _, _, _, _, _, _, rfl, _, hbu⟩ :=
    (setExpected_eq_some_iff o kid pk nr nr' c resp).mp h
  obtain ⟨⟨cr, cu, h1, h2, h3, h4⟩, _⟩ := (basesAreUnits_iff pk _).mp hbu
  exact ⟨cr, cu, h1, h2, (unitModN_iff _ _).mp h3, (unitModN_iff _ _).mp h4⟩

/-- **Why the check is needed (`commitmentZero`).** In `CommitmentsFromProof`, a rhs factor
    whose base is `0` with a positive exponent makes the reconstructed commitment `0`,
    independently of the challenge and of every other response. -/
theorem commitmentZero (s : QrStructure) (n ch : Int) (b r : String → Option Int) (hn : 0 < n)
    (hall : ∀ x ∈ s.rhs, (r x.secret).isSome = true)
    (x : RhsContribution) (hx : x ∈ s.rhs) (hb : b x.base = some 0) (res : Int)
    (hres : r x.secret = some res) (hpos : 0 < x.power * res) :
    s.commitmentFromProof n ch b r = .ok 0 :=
  Misc.commitmentZero s n ch b r hn hall x hx hb res hres hpos

/-- **The forgery against the old predicate** (no unit check): with `C_r = C_u = 0`, any
    non-zero challenge, any `alpha ≥ 1` and arbitrary other responses, the hashed contributions
    of the non-revocation proof are the constant list `[0, 0, ν, 0, 0, 0]` – no witness is
    needed to make the Fiat–Shamir equation hold. `nonrev_units` shows the repaired verifier
    rejects exactly this. -/
theorem zero_bases_forgery (pk : PublicKey) (p : NonRevProof) (nu ch alpha : Int)
    (hn : 1 < pk.n) (hcr : p.cr = some 0) (hcu : p.cu = some 0) (hnu : p.nu = some nu)
    (hch : p.challenge = some ch) (hch0 : ch ≠ 0)
    (hresp : ∀ name ∈ Gen.revSecretNames, (p.response name).isSome = true)
    (halpha : p.response "alpha" = some alpha) (hpos : 1 ≤ alpha) :
    p.challengeContributions pk = .ok [0, 0, nu, 0, 0, 0] ∧ p.basesAreUnits pk = false := by
  refine ⟨zero_bases_contributions pk p nu ch alpha hn hcr hcu hnu hch hch0 hresp halpha hpos, ?_⟩
  unfold NonRevProof.basesAreUnits
  rw [hcr, hcu]
  rfl

/-! ### `revocationAttrIndex` -/

/-- a proof with three hidden responses below the bound: the secret key at 0 (never a candidate)
    and two attributes at 1 and 2 (both candidates). -/
def ambiguousProof : ProofD :=
  { c := some 1, a := some 2, eResponse := some 3, vResponse := some 4,
    aResponses := [(0, some 5), (1, some 7), (2, some 6)], aDisclosed := [],
    nonrev := some { cr := some 2, cu := some 3, responses := [], sacc := none },
    rangeProofs := none }

/-- **Known finding (C11/revocation-attr-index-ambiguity).** `revocationAttrIndex` can have
    more than one candidate: then Go's choice depends on map iteration order. (Since the repair
    of `revocationAttrIndex` the secret key at index 0 is no candidate, although its response
    `5` is below the bound; the two attribute indices 1 and 2 still both are.) -/
theorem ambiguity_witness :
    ambiguousProof.revocationCandidates = [1, 2] ∧ ambiguousProof.revChoices = [1, 2] := by
  have h : ambiguousProof.revocationCandidates = [1, 2] := by
    rw [revocationCandidates_eq]
    have hlt : ∀ x : Int, x < 2 ^ 3 → x < revIdxMax := fun x hx =>
      lt_of_lt_of_le hx (pow_le_pow_right₀ (by norm_num) (by decide))
    have h5 : belowRevMax (0, some 5) = false := by
      rw [belowRevMax_some]; simp
    have h7 : belowRevMax (1, some 7) = true := by
      rw [belowRevMax_some]
      simp only [Bool.and_eq_true, decide_eq_true_eq]
      exact ⟨by decide, hlt 7 (by norm_num)⟩
    have h6 : belowRevMax (2, some 6) = true := by
      rw [belowRevMax_some]
      simp only [Bool.and_eq_true, decide_eq_true_eq]
      exact ⟨by decide, hlt 6 (by norm_num)⟩
    show (List.filter belowRevMax [(0, some 5), (1, some 7), (2, some 6)]).map (·.1) = [1, 2]
    simp [List.filter, h5, h7, h6]
  refine ⟨h, ?_⟩
  unfold ProofD.revChoices
  rw [h]
  rfl

/-- If exactly one hidden response other than the secret key (keys are unique, as in a Go map)
    is below `2^(AttributeSize+ChallengeLength+ZkStat+1)`, then `revocationAttrIndex` has no
    choice: `revChoices` is that singleton. The response at index 0 (the secret key) is not
    constrained: it is never a candidate. -/
theorem rev_index_unique (p : ProofD) (nr : NonRevProof) (hnr : p.nonrev = some nr)
    (hkeys : (p.aResponses.map (·.1)).Nodup) (i r : Int) (hi0 : i ≠ 0)
    (hi : (i, some r) ∈ p.aResponses)
    (hr : r < 2 ^ (Gen.revAttributeSize + Gen.revChallengeLength + Gen.revZkStat + 1))
    (hothers : ∀ kv ∈ p.aResponses, kv.1 ≠ i → kv.1 ≠ 0 →
      ∀ r', kv.2 = some r' → 2 ^ (Gen.revAttributeSize + Gen.revChallengeLength + Gen.revZkStat + 1) ≤ r') :
    p.revChoices = [i] := by
  apply revChoices_of_single p nr (i, some r) hnr
  apply filter_eq_singleton belowRevMax (·.1) _ _ hkeys hi
  · rw [belowRevMax_some]
    simp only [Bool.and_eq_true, decide_eq_true_eq]
    exact ⟨hi0, hr⟩
  · intro kv hkv hne
    obtain ⟨k, v⟩ := kv
    rcases v with _ | r'
    · rfl
    · rw [belowRevMax_some]
      by_cases hk : k = 0
      · simp [hk]
      · have := hothers (k, some r') hkv hne hk r' rfl
        simp only [Bool.and_eq_false_imp, decide_eq_true_eq, decide_eq_false_iff_not, not_lt]
        intro _
        exact this

/-- without a non-revocation part, or without candidate, the index is −1. -/
theorem rev_index_none (p : ProofD) :
    (p.nonrev = none → p.revChoices = [-1]) ∧
    (p.revocationCandidates = [] → p.revChoices = [-1]) := by
  unfold ProofD.revChoices
  refine ⟨fun h => by rw [h], fun h => ?_⟩
  rw [h]
  cases p.nonrev <;> rfl

/-- **The secret key is never the revocation attribute.** Index 0 of `AResponses` is the response
    of the holder-chosen secret key; the repaired `revocationAttrIndex` skips it, whatever its
    size. This is what rules out the class `foreign-witness-via-secret-key` of the battery: a
    holder who picks his secret key equal to the `e` of somebody else's (non-revoked) witness
    cannot make the verifier tie that foreign witness to his credential through index 0. -/
theorem secret_key_never_revocation_index : ∀ p : ProofD, (0 : Int) ∉ p.revocationCandidates :=
  zero_not_mem_revocationCandidates

/-- … hence no choice of `revocationAttrIndex` is 0: a choice is either `-1` or a candidate. -/
theorem revChoices_ne_zero (p : ProofD) : ∀ i ∈ p.revChoices, i ≠ 0 := by
  intro i hi h0
  subst h0
  unfold ProofD.revChoices at hi
  cases hn : p.nonrev with
  | none => rw [hn] at hi; simp at hi
  | some nr =>
    rw [hn] at hi
    cases hc : p.revocationCandidates with
    | nil => rw [hc] at hi; simp at hi
    | cons x xs =>
      rw [hc] at hi
      exact secret_key_never_revocation_index p (hc ▸ hi)

/-- **Corollary for accepted proofs** (companion of `accepted_proof_is_tied`). If `ProofD.Verify`
    accepts a proof with a non-revocation part for two picks `i₁ i₂` that `revocationAttrIndex`
    can actually make (`revChoices`), then both picks are attribute indices `≥ 1`: the hidden
    response that `accepted_proof_is_tied` identifies with the `alpha` of the non-revocation
    proof is never the response of the secret key at index 0. So the witness exponent `e` that
    the non-revocation proof speaks about is an issuer-signed attribute of the credential, not
    the holder-chosen secret key — the class `foreign-witness-via-secret-key` of the battery
    (secret key := `e` of a foreign witness, all real attributes large) is rejected. -/
theorem accepted_choice_never_secret_key (o : SigOracle) (kid : String) (pk : PublicKey)
    (p : ProofD) (nr : NonRevProof) (ctx nonce : Int) (issig : Bool) (i1 i2 : Int)
    (hnr : p.nonrev = some nr) (hi1 : i1 ∈ p.revChoices) (hi2 : i2 ∈ p.revChoices)
    (h : p.verifyWith o kid pk ctx nonce issig i1 i2 = .ok true) :
    (1 ≤ i1 ∧ 1 ≤ i2) ∧ i1 ∈ p.revocationCandidates ∧ i2 ∈ p.revocationCandidates := by
  obtain ⟨h1, h2, _⟩ := accepted_proof_is_tied o kid pk p nr ctx nonce issig i1 i2 hnr h
  have n1 := revChoices_ne_zero p i1 hi1
  have n2 := revChoices_ne_zero p i2 hi2
  refine ⟨⟨by omega, by omega⟩, ?_⟩
  unfold ProofD.revChoices at hi1 hi2
  rw [hnr] at hi1 hi2
  cases hc : p.revocationCandidates with
  | nil =>
    rw [hc] at hi1
    simp only [List.mem_singleton] at hi1
    omega
  | cons x xs =>
    rw [hc] at hi1 hi2
    exact ⟨hi1, hi2⟩

/-! ### non-vacuity -/

/-- toy key `n = 35`, `G = 4`, `H = 16`, counter 2. -/
def exPk : PublicKey :=
  { n := 35, z := 9, s := 11, g := some 4, h := some 16, r := [4, 16], counter := 2,
    params := SysParams.ofBase toyBase, hasEcdsa := true, issuer := "toy" }
def exAcc : Accumulator := { nu := some 29, index := 7, time := 1000, eventHash := [] }
def exOracle : SigOracle := fun kid data => if kid = "toy-2" ∧ data = [1, 2, 3] then some exAcc else none
def exNr : NonRevProof :=
  { cr := some 2, cu := some 3,
    responses := [("beta", some 1), ("delta", some 2), ("epsilon", some 3), ("zeta", some 4)],
    sacc := some { data := some [1, 2, 3], pkCounter := 2 } }

/-- the hypothesis of `alpha_is_hidden_attr` is satisfiable … -/
example : exNr.setExpected exOracle "toy-2" exPk 99 5 = some (setExpectedResult exNr 29 99 5) := by
  decide

set_option exponentiation.threshold 1024 in
/-- … and so is the hypothesis of `accepted_accumulator_is_signed` / `nonrev_units`. -/
example : (setExpectedResult exNr 29 99 5).verifyWithChallenge exOracle "toy-2" exPk 99 =
    (true, some exAcc) := by decide

set_option exponentiation.threshold 1024 in
/-- an unreduced `C_u = 3 + 35` (as a refreshed prepared commitment may carry) is still
    accepted: it is a unit, only not the canonical representative. -/
example : (setExpectedResult { exNr with cu := some 38 } 29 99 5).verifyWithChallenge
    exOracle "toy-2" exPk 99 = (true, some exAcc) := by decide

/-- `rev_index_unique`: hypotheses satisfiable – a small secret-key response at index 0 next to
    one small attribute response at index 1 leaves exactly the choice `1` (before the repair the
    choices were `[0, 1]`). -/
example : ({ ambiguousProof with aResponses := [(0, some 5), (1, some 7)] } : ProofD).revChoices
    = [1] := by
  refine rev_index_unique _ _ rfl (by decide) 1 7 (by decide) (by simp)
    (lt_of_lt_of_le (by norm_num : (7 : Int) < 2 ^ 3) (pow_le_pow_right₀ (by norm_num) (by decide)))
    ?_
  intro kv hkv h1 h0
  simp only [List.mem_cons, List.not_mem_nil, or_false] at hkv
  rcases hkv with rfl | rfl
  · exact absurd rfl h0
  · exact absurd rfl h1

/-- `zero_bases_forgery`: hypotheses satisfiable. -/
example : (⟨some 0, some 0, some 29, some 99,
      [("alpha", some 1), ("beta", some 1), ("delta", some 2), ("epsilon", some 3), ("zeta", some 4)],
      none⟩ : NonRevProof).challengeContributions exPk = .ok [0, 0, 29, 0, 0, 0] :=
  (zero_bases_forgery exPk _ 29 99 1 (by decide) rfl rfl rfl rfl (by decide) (by decide) (by decide)
    (by decide)).1

/-- `nonrev_extracts_witness`: all hypotheses hold for an honest prover in the free abelian
    group on `g, h` (`u = g`, `e = 7`, `r₂ = 3`, `r₃ = 5`, `Δc = 2`). -/
example : (gZ * hZ ^ (3 : ℤ) * hZ ^ (-(3 : ℤ))) ^ (7 : ℤ) = gZ ^ (7 : ℤ) := by
  refine (nonrev_extracts_witness (g := gZ) (h := hZ) (Cr := gZ ^ (3 : ℤ) * hZ ^ (5 : ℤ))
    (Cu := gZ * hZ ^ (3 : ℤ)) (ν := gZ ^ (7 : ℤ)) (dc := 2) (dε := 6) (dζ := 10) (dα := 14) (dβ := 42)
    (dδ := 70) (ε₀ := 3) (ζ₀ := 5) (α₀ := 7) (β₀ := 21) (δ₀ := 35) ?_ ?_ ?_ rfl rfl rfl rfl rfl
    (z2_torsion_free 2 (by norm_num)) z2_indep).2.2.2
  · apply z2_ext <;> simp [toAdd_mul, gZ, hZ]
  · apply z2_ext <;> simp [toAdd_mul, gZ, hZ]
  · apply z2_ext <;> simp [toAdd_mul, gZ, hZ]

/-- `nonrev_complete_model`: an honest instance modulo 35 (`u = 2`, `e = 2`, `ν = 4`,
    `r₂ = r₃ = 1`, `C_r = 4·16 = 29`, `C_u = 2·16 = 32`). -/
example : ∃ cs, revStructures.mapM (fun s => s.commitmentFromProof exPk.n 7
      (revBases exPk { cr := some 29, cu := some 32, nu := some 4, responses := [], sacc := none })
      (fun name => some (((fun _ => 5) : String → Int) name + 7 * revSecrets 2 1 1 name))) = .ok cs := by
  have hv : ∀ {x : Int}, Int.gcd x (35 : ℕ) = 1 → ((zunit 35 x : (ZMod 35)ˣ) : ZMod 35) = x :=
    fun h => zunit_val ((isUnit_iff_gcd _).mpr h)
  obtain ⟨h1, cs, h2⟩ := nonrev_complete_model (n := 35) (by norm_num) exPk rfl
    { cr := some 29, cu := some 32, nu := some 4, responses := [], sacc := none }
    4 16 29 32 4 2 1 1 7 (fun _ => 5) (zunit 35 2) rfl rfl rfl rfl rfl
    (by decide) (by decide) (by decide) (by decide) (by decide)
    (by apply Units.ext
        simp only [Units.val_mul, zpow_one]
        rw [hv (by decide), hv (by decide), hv (by decide)]
        decide)
    (by apply Units.ext
        simp only [Units.val_mul, zpow_one]
        rw [hv (by decide), hv (by decide), hv (by decide)]
        decide)
    (by apply Units.ext
        rw [zpow_ofNat, Units.val_pow_eq_pow_val]
        rw [hv (by decide), hv (by decide)]
        decide)
  exact ⟨cs, h1.trans h2⟩

end Gabi.C11

#print axioms Gabi.C11.representation_complete
#print axioms Gabi.C11.nonrev_complete
#print axioms Gabi.C11.representation_special_soundness
#print axioms Gabi.C11.nonrev_special_soundness
#print axioms Gabi.C11.nonrev_extracts_witness
#print axioms Gabi.C11.nonrev_linked_to_credential
#print axioms Gabi.C11.commitmentFromProof_spec
#print axioms Gabi.C11.nonrev_complete_model
#print axioms Gabi.C11.nonrev_special_soundness_model
#print axioms Gabi.C11.alpha_is_hidden_attr
#print axioms Gabi.C11.challengeContribution_sets_alpha
#print axioms Gabi.C11.acceptance_rechecks_alpha
#print axioms Gabi.C11.accepted_accumulator_is_signed
#print axioms Gabi.C11.altered_accumulator_rejected
#print axioms Gabi.C11.accepted_proof_is_tied
#print axioms Gabi.C11.nonrev_units
#print axioms Gabi.C11.setExpected_requires_units
#print axioms Gabi.C11.commitmentZero
#print axioms Gabi.C11.zero_bases_forgery
#print axioms Gabi.C11.ambiguity_witness
#print axioms Gabi.C11.rev_index_unique
#print axioms Gabi.C11.rev_index_none
#print axioms Gabi.C11.secret_key_never_revocation_index
#print axioms Gabi.C11.revChoices_ne_zero
#print axioms Gabi.C11.accepted_choice_never_secret_key
