/-
  C17 — Key-correctness proofs accept good keys and reject bad ones  (PARTIAL).
  Property theorems only; helper lemmas live in GabiProofs.KeyProofLemmas.
-/
import GabiModel.KeyProof
import GabiProofs.KeyProofLemmas
import GabiProofs.DerLemmas
import GabiProofs.QrMultipliers
import GabiProofs.RootSoundness
import GabiProofs.AsppComplete
namespace Gabi.C17
open Gabi Gabi.KeyProof

/-! ## 1. Gennaro component proofs -/

/-- **Square-free proof, what acceptance means.** If the verifier accepts then every one of the
    `squareFreeIters` round challenges (derived from the challenge by `GetHashNumber`) is an
    `N`-th power modulo `N`, the response being a root. -/
theorem squareFree_accept_rounds {n : Int} (hn : 0 < n) (challenge index : Int) (rs : List Int)
    (h : squareFreeVerifyProof n challenge index rs = .accept) :
    rs.length = Gen.kp_squareFreeIters ∧
    ∀ i, i < Gen.kp_squareFreeIters → ∃ r, rs[i]? = some r ∧
      r ^ n.toNat % n = roundChallenge challenge index i n := by
  unfold squareFreeVerifyProof at h
  rw [if_neg (by omega)] at h
  split at h
  · exact absurd h (by simp)
  · next hl =>
    refine ⟨not_not.mp hl, fun i hi => ?_⟩
    rw [firstFailure_accept_iff] at h
    have hi' := h i (List.mem_range.mpr hi)
    split at hi'
    · exact absurd hi' (by simp)
    · next r hr =>
      refine ⟨r, hr, ?_⟩
      rw [goExp_nonneg r n n hn (le_of_lt hn)] at hi'
      simpa [ofBool_accept_iff] using hi'

/-- **Square-free proof, completeness.** For a modulus `N` with `φ(N) ≥ 2` (every `N > 2`), whenever
    the real prover's computation goes through – `N` invertible modulo `φ(N)`, i.e. `gcd(N, φ(N)) = 1`,
    and every round challenge a unit – the verifier accepts what it produced. -/
theorem squareFree_complete (N : Nat) (challenge index : Int) (rs : List Int)
    (hφ : 2 ≤ Nat.totient N)
    (hb : squareFreeBuild N (Nat.totient N) challenge index = some rs) :
    squareFreeVerifyProof N challenge index rs = .accept := by
  have hN : 0 < N := Nat.pos_of_ne_zero (by rintro rfl; simp at hφ)
  have hNi : (0 : Int) < N := by exact_mod_cast hN
  unfold squareFreeBuild at hb
  rw [if_neg (by omega)] at hb
  cases hinv : goModInverse (N : Int) (Nat.totient N : Int) with
  | none => rw [hinv] at hb; exact absurd hb (by simp)
  | some m =>
    rw [hinv] at hb
    simp only at hb
    obtain ⟨hm0, -, hminv⟩ := goModInverse_some hinv
    rw [rounds_eq_some] at hb
    obtain ⟨hlen, hround⟩ := hb
    unfold squareFreeVerifyProof
    rw [if_neg (by omega), if_neg (by simpa using hlen), firstFailure_accept_iff]
    intro i hi
    have hi' := List.mem_range.mp hi
    have hr := hround i hi'
    have hlt : i < rs.length := by omega
    rw [List.getElem?_eq_getElem hlt] at hr ⊢
    simp only
    split at hr
    · exact absurd hr (by simp)
    · next hg =>
      have hg1 : Nat.gcd (roundChallenge challenge index i N).natAbs N = 1 := by
        simpa using hg
      obtain ⟨hc0, hcN⟩ := roundChallenge_range challenge index i hNi
      rw [goExp_nonneg _ _ _ hNi hm0] at hr
      have hr' := Option.some.inj hr
      rw [goExp_nonneg _ _ _ hNi (le_of_lt hNi), ← hr', ofBool_accept_iff]
      simp only [Int.toNat_natCast, decide_eq_true_eq]
      have h1 : (1 : Int) % (Nat.totient N : Int) = 1 := Int.emod_eq_of_lt (by omega) (by exact_mod_cast hφ)
      simp only [Int.natAbs_natCast] at hminv
      rw [h1] at hminv
      exact int_root_correct _ m N hc0 hcN hm0 hφ hg1 hminv


/-- **Disjoint-prime-product proof, what acceptance means.** `N` is not (probably) prime and every
    round challenge is an `odd(N−1)`-th power modulo `N`, where `odd(N−1)` is the odd part of `N−1`. -/
theorem disjointPrimeProduct_accept_rounds {n : Int} (challenge index : Int) (rs : List Int)
    (h : disjointPrimeProductVerifyProof n challenge index rs = .accept) :
    1 < n ∧ probablyPrime n.toNat = false ∧
    ∀ i, i < Gen.kp_squareFreeIters → ∃ r, rs[i]? = some r ∧
      r ^ (oddPartPred n).toNat % n = roundChallenge challenge index i n := by
  unfold disjointPrimeProductVerifyProof at h
  split at h
  · exact absurd h (by simp)
  · next hprime =>
    split at h
    · exact absurd h (by simp)
    · next hn1 =>
      have hn : 1 < n := by omega
      have hnp : probablyPrime n.toNat = false := by
        cases hpp : probablyPrime n.toNat with
        | false => rfl
        | true => exact absurd ⟨by omega, hpp⟩ hprime
      refine ⟨hn, hnp, fun i hi => ?_⟩
      simp only at h
      rw [firstFailure_accept_iff] at h
      have hi' := h i (List.mem_range.mpr hi)
      split at hi'
      · exact absurd hi' (by simp)
      · next r hr =>
        refine ⟨r, hr, ?_⟩
        have hodd0 : 0 ≤ oddPartPred n := by unfold oddPartPred; exact Int.natCast_nonneg _
        rw [goExp_nonneg r _ n (by omega) hodd0] at hi'
        simpa [ofBool_accept_iff] using hi'

/-- **Disjoint-prime-product proof, completeness.** For `N = p·q`, `p ≠ q` prime, which the
    primality oracle recognises as composite: whenever the real prover's computation goes through
    (`odd(N−1)` invertible modulo `φ(N) = (p−1)(q−1)`, all round challenges units) the verifier
    accepts its output. -/
theorem disjointPrimeProduct_complete (p q : Nat) (hp : p.Prime) (hq : q.Prime) (hne : p ≠ q)
    (hnp : probablyPrime (p * q) = false)
    (challenge index : Int) (rs : List Int)
    (hb : disjointPrimeProductBuild p q challenge index = some rs) :
    disjointPrimeProductVerifyProof ((p * q : Nat) : Int) challenge index rs = .accept := by
  have hp2 := hp.two_le
  have hq2 := hq.two_le
  have htot := totient_two_primes hp hq hne
  have hφ : 2 ≤ Nat.totient (p * q) := by
    rw [htot]
    rcases Nat.lt_or_ge p 3 with h | h
    · have : 3 ≤ q := by omega
      calc 2 = 1 * 2 := rfl
        _ ≤ (p - 1) * (q - 1) := Nat.mul_le_mul (by omega) (by omega)
    · calc 2 = 2 * 1 := rfl
        _ ≤ (p - 1) * (q - 1) := Nat.mul_le_mul (by omega) (by omega)
  have hN4 : 4 ≤ p * q := by
    calc 4 = 2 * 2 := rfl
      _ ≤ p * q := Nat.mul_le_mul hp2 hq2
  have hNi : (1 : Int) < ((p * q : Nat) : Int) := by exact_mod_cast (by omega : 1 < p * q)
  have hcastN : ((p : Int) * (q : Int)) = ((p * q : Nat) : Int) := by push_cast; ring
  have hcastφ : (((p : Int) - 1) * ((q : Int) - 1)) = ((Nat.totient (p * q) : Nat) : Int) := by
    rw [htot]; push_cast [Nat.cast_sub (by omega : 1 ≤ p), Nat.cast_sub (by omega : 1 ≤ q)]; ring
  unfold disjointPrimeProductBuild at hb
  simp only [hcastN, hcastφ] at hb
  clear hcastN hcastφ htot
  generalize p * q = N at hb hφ hN4 hNi hnp ⊢
  rw [if_neg (by omega)] at hb
  cases hinv : goModInverse (oddPartPred (N : Int)) (Nat.totient N : Int) with
  | none => rw [hinv] at hb; exact absurd hb (by simp)
  | some m =>
    rw [hinv] at hb
    simp only at hb
    obtain ⟨hm0, -, hminv⟩ := goModInverse_some hinv
    rw [rounds_eq_some] at hb
    obtain ⟨hlen, hround⟩ := hb
    unfold disjointPrimeProductVerifyProof
    have hnotprime : ¬ ((N : Int) > 0 ∧ probablyPrime (N : Int).toNat = true) := by
      rw [Int.toNat_natCast, hnp]; simp
    rw [if_neg hnotprime, if_neg (by omega)]
    simp only
    rw [firstFailure_accept_iff]
    intro i hi
    have hi' := List.mem_range.mp hi
    have hr := hround i hi'
    have hlt : i < rs.length := by omega
    rw [List.getElem?_eq_getElem hlt] at hr ⊢
    simp only
    split at hr
    · exact absurd hr (by simp)
    · next hg =>
      have hg1 : Nat.gcd (roundChallenge challenge index i (N : Int)).natAbs N = 1 := by
        rw [Int.natAbs_natCast] at hg; exact not_not.mp hg
      obtain ⟨hc0, hcN⟩ := roundChallenge_range challenge index i (by omega : (0 : Int) < (N : Int))
      have hodd0 : 0 ≤ oddPartPred (N : Int) := by unfold oddPartPred; exact Int.natCast_nonneg _
      rw [goExp_nonneg _ _ _ (by omega) hm0] at hr
      have hr' := Option.some.inj hr
      rw [goExp_nonneg _ _ _ (by omega) hodd0, ← hr', ofBool_accept_iff]
      simp only [decide_eq_true_eq]
      have h1 : (1 : Int) % (Nat.totient N : Int) = 1 := Int.emod_eq_of_lt (by omega) (by exact_mod_cast hφ)
      rw [Int.natAbs_natCast, h1] at hminv
      have hoddcast : oddPartPred (N : Int) = (((oddPartPred (N : Int)).toNat : Nat) : Int) :=
        (Int.toNat_of_nonneg hodd0).symm
      rw [hoddcast] at hminv
      exact int_root_correct _ m _ hc0 hcN hm0 hφ hg1 hminv


/-- **Prime-power-product proof, what acceptance means.** Every response squares, modulo `N`, to
    one of `c, −c, 2c, −2c` for its round challenge `c`. -/
theorem primePowerProduct_accept_rounds {n : Int} (hn : 0 < n) (challenge index : Int) (rs : List Int)
    (h : primePowerProductVerifyProof n challenge index rs = .accept) :
    ∀ i, i < Gen.kp_primePowerProductIters → ∃ r, rs[i]? = some r ∧
      let c := roundChallenge challenge index i n
      (r ^ 2 % n = c ∨ r ^ 2 % n = (-c) % n ∨ r ^ 2 % n = (2 * c) % n ∨ r ^ 2 % n = (-(2 * c)) % n) := by
  intro i hi
  unfold primePowerProductVerifyProof at h
  rw [if_neg (by omega), firstFailure_accept_iff] at h
  have hi' := h i (List.mem_range.mpr hi)
  split at hi'
  · exact absurd hi' (by simp)
  · next r hr =>
    refine ⟨r, hr, ?_⟩
    rw [ofBool_accept_iff] at hi'
    unfold pppRoundOk at hi'
    rw [goExp_nonneg r 2 n hn (by omega)] at hi'
    simpa [Bool.or_eq_true, decide_eq_true_eq, or_assoc] using hi'

/-- **Prime-power-product proof, completeness of one round.** If one of `c, −c, 2c, −2c` is a square
    modulo `N` (for a key satisfying the residue conditions this is `exists_sq_of_multiplier`), the
    prover – with any square-root routine meeting `SqrtSpec` – finds a response the verifier's
    round check accepts. -/
theorem primePowerProduct_round_complete {n : Int} (hn : 0 < n) (sqrt : Int → Option Int)
    (hs : SqrtSpec sqrt n) (c : Int) (hc : 0 ≤ c ∧ c < n)
    (hex : ∃ x : Int, x * x % n = c % n ∨ x * x % n = (-c) % n ∨ x * x % n = (2 * c) % n ∨
      x * x % n = (-(2 * c)) % n) :
    ∃ r, pppResponse sqrt n c = some r ∧ pppRoundOk n c r = true := by
  have hcmod : c % n = c := Int.emod_eq_of_lt hc.1 hc.2
  have h2 : (2 * ((-c) % n)) % n = (-(2 * c)) % n := by
    rw [Int.mul_emod, Int.emod_emod, ← Int.mul_emod]; congr 1; ring
  have ok : ∀ a r, sqrt a = some r → (a = c ∨ a = (-c) % n ∨ a = (2 * c) % n ∨ a = (2 * ((-c) % n)) % n) →
      pppRoundOk n c r = true := by
    intro a r hr ha
    obtain ⟨-, -, hsq⟩ := hs.sound a r hr
    unfold pppRoundOk
    rw [goExp_nonneg r 2 n hn (by omega)]
    have hpow : r ^ (2 : Int).toNat % n = a % n := by
      have : (2 : Int).toNat = 2 := rfl
      rw [this, pow_two]; exact hsq
    simp only [hpow, Bool.or_eq_true, decide_eq_true_eq]
    rcases ha with rfl | rfl | rfl | rfl
    · left; left; left; exact hcmod
    · left; left; right; exact Int.emod_emod_of_dvd _ (dvd_refl n)
    · left; right; exact Int.emod_emod_of_dvd _ (dvd_refl n)
    · right; rw [Int.emod_emod_of_dvd _ (dvd_refl n), h2]
  unfold pppResponse
  simp only
  cases h1 : sqrt c with
  | some r => exact ⟨r, rfl, ok c r h1 (Or.inl rfl)⟩
  | none =>
    cases h2' : sqrt ((-c) % n) with
    | some r => exact ⟨r, rfl, ok _ r h2' (Or.inr (Or.inl rfl))⟩
    | none =>
      cases h3 : sqrt ((2 * c) % n) with
      | some r => exact ⟨r, rfl, ok _ r h3 (Or.inr (Or.inr (Or.inl rfl)))⟩
      | none =>
        cases h4 : sqrt ((2 * ((-c) % n)) % n) with
        | some r => exact ⟨r, rfl, ok _ r h4 (Or.inr (Or.inr (Or.inr rfl)))⟩
        | none =>
          exfalso
          obtain ⟨x, hx⟩ := hex
          have none_of : ∀ a, sqrt a = none → ¬ ∃ x : Int, x * x % n = a % n := by
            intro a ha hx
            have := hs.complete a hx
            rw [ha] at this
            exact absurd this (by simp)
          rcases hx with hx | hx | hx | hx
          · exact none_of c h1 ⟨x, hx⟩
          · exact none_of _ h2' ⟨x, by rw [Int.emod_emod_of_dvd _ (dvd_refl n)]; exact hx⟩
          · exact none_of _ h3 ⟨x, by rw [Int.emod_emod_of_dvd _ (dvd_refl n)]; exact hx⟩
          · exact none_of _ h4 ⟨x, by rw [Int.emod_emod_of_dvd _ (dvd_refl n), h2]; exact hx⟩


/-- the model of the real prover is the instance with `common.ModSqrt(·, [P, Q])`. -/
theorem primePowerProductBuild_eq (p q challenge index : Int) :
    primePowerProductBuild p q challenge index =
      pppBuildWith (fun a => sqrtRoot? (modSqrt a [p, q])) (p * q) challenge index := rfl

/-- **Prime-power-product proof, completeness.** Whatever the prover outputs (with a square-root
    routine whose results are roots) is accepted by the verifier. -/
theorem primePowerProduct_complete {n : Int} (hn : 0 < n) (sqrt : Int → Option Int)
    (hsound : ∀ a r, sqrt a = some r → r * r % n = a % n)
    (challenge index : Int) (rs : List Int)
    (hb : pppBuildWith sqrt n challenge index = some rs) :
    primePowerProductVerifyProof n challenge index rs = .accept := by
  unfold pppBuildWith at hb
  rw [if_neg (by omega), rounds_eq_some] at hb
  obtain ⟨hlen, hround⟩ := hb
  unfold primePowerProductVerifyProof
  rw [if_neg (by omega), firstFailure_accept_iff]
  intro i hi
  have hi' := List.mem_range.mp hi
  have hr := hround i hi'
  have hlt : i < rs.length := by omega
  rw [List.getElem?_eq_getElem hlt] at hr ⊢
  simp only at hr ⊢
  split at hr
  · exact absurd hr (by simp)
  · rw [ofBool_accept_iff]
    obtain ⟨hc0, hcN⟩ := roundChallenge_range challenge index i hn
    generalize roundChallenge challenge index i n = c at hr hc0 hcN ⊢
    generalize rs[i] = r at hr ⊢
    have hcmod : c % n = c := Int.emod_eq_of_lt hc0 hcN
    have h2 : (2 * ((-c) % n)) % n = (-(2 * c)) % n := by
      rw [Int.mul_emod, Int.emod_emod, ← Int.mul_emod]; congr 1; ring
    have ok : ∀ a, sqrt a = some r → (a = c ∨ a = (-c) % n ∨ a = (2 * c) % n ∨ a = (2 * ((-c) % n)) % n) →
        pppRoundOk n c r = true := by
      intro a hr ha
      have hsq := hsound a r hr
      unfold pppRoundOk
      rw [goExp_nonneg r 2 n hn (by omega)]
      have hpow : r ^ (2 : Int).toNat % n = a % n := by
        have : (2 : Int).toNat = 2 := rfl
        rw [this, pow_two]; exact hsq
      simp only [hpow, Bool.or_eq_true, decide_eq_true_eq]
      rcases ha with rfl | rfl | rfl | rfl
      · left; left; left; exact hcmod
      · left; left; right; exact Int.emod_emod_of_dvd _ (dvd_refl n)
      · left; right; exact Int.emod_emod_of_dvd _ (dvd_refl n)
      · right; rw [Int.emod_emod_of_dvd _ (dvd_refl n), h2]
    unfold pppResponse at hr
    simp only at hr
    cases h1 : sqrt c with
    | some r1 => rw [h1] at hr; exact ok c (by rw [h1, Option.some.inj hr]) (Or.inl rfl)
    | none =>
      rw [h1] at hr
      cases h2' : sqrt ((-c) % n) with
      | some r2 => rw [h2'] at hr; exact ok _ (by rw [h2', Option.some.inj hr]) (Or.inr (Or.inl rfl))
      | none =>
        rw [h2'] at hr
        cases h3 : sqrt ((2 * c) % n) with
        | some r3 => rw [h3] at hr; exact ok _ (by rw [h3, Option.some.inj hr]) (Or.inr (Or.inr (Or.inl rfl)))
        | none =>
          rw [h3] at hr
          exact ok _ hr (Or.inr (Or.inr (Or.inr rfl)))

/-! ### keys satisfying the generation conditions (`KeyCond`, what `CanProve` tests; property C16) -/

/-- **Square-free proof on a good key.** For `N = (2p'+1)(2q'+1)` under `KeyCond`, if the round
    challenges are units modulo `N` (otherwise the Go prover panics "Generated number not in Z_N"),
    the prover produces a proof and the verifier accepts it. -/
theorem squareFree_complete_key {pp qp : Nat} (k : KeyCond pp qp) (challenge index : Int)
    (hunits : ∀ i, i < Gen.kp_squareFreeIters →
      Nat.gcd (roundChallenge challenge index i (((2 * pp + 1) * (2 * qp + 1) : Nat) : Int)).natAbs
        ((2 * pp + 1) * (2 * qp + 1)) = 1) :
    ∃ rs, squareFreeBuild (((2 * pp + 1) * (2 * qp + 1) : Nat) : Int)
        (Nat.totient ((2 * pp + 1) * (2 * qp + 1))) challenge index = some rs ∧
      squareFreeVerifyProof (((2 * pp + 1) * (2 * qp + 1) : Nat) : Int) challenge index rs = .accept := by
  have hcop := k.coprime_totient
  have htot := k.totient_eq
  have hpos : 0 < pp * qp := Nat.mul_pos k.pp_prime.pos k.qp_prime.pos
  have hφ : 2 ≤ Nat.totient ((2 * pp + 1) * (2 * qp + 1)) := by rw [htot]; omega
  generalize (2 * pp + 1) * (2 * qp + 1) = N at hcop hφ hunits ⊢
  have hN : 0 < N := Nat.pos_of_ne_zero (by rintro rfl; simp at hφ)
  have hinv : ∃ m, goModInverse (N : Int) (Nat.totient N : Int) = some m := by
    cases h : goModInverse (N : Int) (Nat.totient N : Int) with
    | some m => exact ⟨m, rfl⟩
    | none =>
      exfalso
      rw [goModInverse_none_iff _ _ (by exact_mod_cast (by omega : Nat.totient N ≠ 0))] at h
      exact h (by simpa [Int.gcd_natCast_natCast] using hcop)
  obtain ⟨m, hm⟩ := hinv
  obtain ⟨hm0, -, -⟩ := goModInverse_some hm
  have hb : ∃ rs, squareFreeBuild (N : Int) (Nat.totient N) challenge index = some rs := by
    unfold squareFreeBuild
    rw [if_neg (by omega), hm]
    apply rounds_isSome
    intro i hi
    have := hunits i hi
    simp only [Int.natAbs_natCast, this, ne_eq, not_true_eq_false, if_false]
    rw [goExp_nonneg _ _ _ (by exact_mod_cast hN) hm0]
    rfl
  obtain ⟨rs, hrs⟩ := hb
  exact ⟨rs, hrs, squareFree_complete N challenge index rs hφ hrs⟩

/-- **Prime-power-product proof on a good key.** Under `KeyCond` every unit round challenge has one
    of `c, −c, 2c, −2c` a square (`exists_sq_of_multiplier`), so a prover whose square-root routine
    meets `SqrtSpec` produces a proof, and the verifier accepts it. -/
theorem primePowerProduct_complete_key {pp qp : Nat} (k : KeyCond pp qp) (sqrt : Int → Option Int)
    (hs : SqrtSpec sqrt (((2 * pp + 1 : Nat) : Int) * ((2 * qp + 1 : Nat) : Int))) (challenge index : Int)
    (hunits : ∀ i, i < Gen.kp_primePowerProductIters →
      Nat.gcd (roundChallenge challenge index i (((2 * pp + 1 : Nat) : Int) * ((2 * qp + 1 : Nat) : Int))).natAbs
        (((2 * pp + 1 : Nat) : Int) * ((2 * qp + 1 : Nat) : Int)).natAbs = 1) :
    ∃ rs, pppBuildWith sqrt (((2 * pp + 1 : Nat) : Int) * ((2 * qp + 1 : Nat) : Int)) challenge index = some rs ∧
      primePowerProductVerifyProof (((2 * pp + 1 : Nat) : Int) * ((2 * qp + 1 : Nat) : Int)) challenge index rs = .accept := by
  have hp2 : 2 * pp + 1 ≠ 2 := by omega
  have hq2 : 2 * qp + 1 ≠ 2 := by omega
  have hn : (0 : Int) < ((2 * pp + 1 : Nat) : Int) * ((2 * qp + 1 : Nat) : Int) := by positivity
  have hb : ∃ rs, pppBuildWith sqrt (((2 * pp + 1 : Nat) : Int) * ((2 * qp + 1 : Nat) : Int)) challenge index = some rs := by
    unfold pppBuildWith
    rw [if_neg (by omega)]
    apply rounds_isSome
    intro i hi
    have hu := hunits i hi
    simp only [hu, ne_eq, not_true_eq_false, if_false]
    have hex := exists_sq_of_multiplier k.p_prime k.q_prime hp2 hq2 k.p_mod8 k.q_mod8 k.pq_mod8
      (roundChallenge challenge index i (((2 * pp + 1 : Nat) : Int) * ((2 * qp + 1 : Nat) : Int)))
      (by rw [Int.gcd_def]; exact hu)
    obtain ⟨r, hr, -⟩ := primePowerProduct_round_complete hn sqrt hs _
      (roundChallenge_range challenge index i hn) hex
    rw [hr]; rfl
  obtain ⟨rs, hrs⟩ := hb
  exact ⟨rs, hrs, primePowerProduct_complete hn sqrt (fun a r h => (hs.sound a r h).2.2) challenge index rs hrs⟩

/-- **Disjoint-prime-product proof on a good key**: `odd(N−1)` is invertible modulo `φ(N)`
    (`KeyCond.coprime_oddPart`), so – the primality oracle recognising `N` as composite and the
    round challenges being units – the prover produces a proof and the verifier accepts it. -/
theorem disjointPrimeProduct_complete_key {pp qp : Nat} (k : KeyCond pp qp) (challenge index : Int)
    (hnp : probablyPrime ((2 * pp + 1) * (2 * qp + 1)) = false)
    (hunits : ∀ i, i < Gen.kp_squareFreeIters →
      Nat.gcd (roundChallenge challenge index i (((2 * pp + 1 : Nat) : Int) * ((2 * qp + 1 : Nat) : Int))).natAbs
        (((2 * pp + 1 : Nat) : Int) * ((2 * qp + 1 : Nat) : Int)).natAbs = 1) :
    ∃ rs, disjointPrimeProductBuild ((2 * pp + 1 : Nat) : Int) ((2 * qp + 1 : Nat) : Int) challenge index = some rs ∧
      disjointPrimeProductVerifyProof (((2 * pp + 1) * (2 * qp + 1) : Nat) : Int) challenge index rs = .accept := by
  have hne : 2 * pp + 1 ≠ 2 * qp + 1 := by have := k.ne; omega
  have hcop := k.coprime_oddPart
  have htot := k.totient_eq
  have hpos : 0 < pp * qp := Nat.mul_pos k.pp_prime.pos k.qp_prime.pos
  have hcastN : ((2 * pp + 1 : Nat) : Int) * ((2 * qp + 1 : Nat) : Int) = (((2 * pp + 1) * (2 * qp + 1) : Nat) : Int) := by
    push_cast; ring
  have hcastφ : ((((2 * pp + 1 : Nat) : Int)) - 1) * ((((2 * qp + 1 : Nat) : Int)) - 1) =
      ((Nat.totient ((2 * pp + 1) * (2 * qp + 1)) : Nat) : Int) := by
    rw [htot]; push_cast; ring
  have hN4 : 4 ≤ (2 * pp + 1) * (2 * qp + 1) := by
    have : (2 * pp + 1) * (2 * qp + 1) = 4 * (pp * qp) + 2 * pp + 2 * qp + 1 := by ring
    omega
  have hb : ∃ rs, disjointPrimeProductBuild ((2 * pp + 1 : Nat) : Int) ((2 * qp + 1 : Nat) : Int) challenge index = some rs := by
    unfold disjointPrimeProductBuild
    simp only [hcastφ]
    rw [hcastN] at hunits ⊢
    have hφ0 : Nat.totient ((2 * pp + 1) * (2 * qp + 1)) ≠ 0 := by rw [htot]; omega
    generalize (2 * pp + 1) * (2 * qp + 1) = N at hcop hunits hN4 hφ0 ⊢
    rw [if_neg (by omega)]
    have hoddN : oddPartPred (N : Int) = (((stripTwos (N - 1)).1 : Nat) : Int) := by
      unfold oddPartPred
      have : ((N : Int) - 1).toNat = N - 1 := by omega
      rw [this]
      rfl
    cases h : goModInverse (oddPartPred (N : Int)) (Nat.totient N : Int) with
    | none =>
      exfalso
      rw [goModInverse_none_iff _ _ (by exact_mod_cast hφ0), hoddN] at h
      exact h (by simpa [Int.gcd_natCast_natCast] using hcop)
    | some m =>
      obtain ⟨hm0, -, -⟩ := goModInverse_some h
      simp only
      apply rounds_isSome
      intro i hi
      have := hunits i hi
      simp only [this, ne_eq, not_true_eq_false, if_false]
      rw [goExp_nonneg _ _ _ (by omega) hm0]
      rfl
  obtain ⟨rs, hrs⟩ := hb
  exact ⟨rs, hrs, disjointPrimeProduct_complete _ _ k.p_prime k.q_prime hne hnp challenge index rs hrs⟩

/-- **Almost-safe-prime-product proof, what acceptance means**: `N ≡ 1 (mod 3)` and every one of
    the 250 rounds passes `asppRound`, i.e. with `base_i` derived from the nonce, `x_i` from the
    challenge, `y = com_i·base_i^{x_i}` and `γ = 2^{bitlen N}`: one of `t, t⁻¹, t², t⁻²` equals `y^γ`
    for `t = base_i^{γ·r_i²}` (all modulo `N`). -/
theorem almostSafePrimeProduct_accept_rounds {n : Int} (hn : n ≠ 0) (challenge index nonce : Int) (coms rs : List Int)
    (h : almostSafePrimeProductVerifyProof n challenge index nonce coms rs = .accept) :
    n % 3 = 1 ∧ ∀ i, i < Gen.kp_almostSafePrimeProductIters → ∃ com r, coms[i]? = some com ∧ rs[i]? = some r ∧
      asppRound n (2 ^ bitLen n) (asppBase nonce i n) (asppX challenge index i n) com r = .accept := by
  unfold almostSafePrimeProductVerifyProof at h
  rw [if_neg hn] at h
  split at h
  · exact absurd h (by simp)
  · next h3 =>
    refine ⟨not_not.mp h3, fun i hi => ?_⟩
    simp only at h
    rw [firstFailure_accept_iff] at h
    have hi' := h i (List.mem_range.mpr hi)
    split at hi'
    · next com r hc hr => exact ⟨com, r, hc, hr, hi'⟩
    · exact absurd hi' (by simp)

/-- **Almost-safe-prime-product proof, completeness.** `N = (2p'+1)(2q'+1)` with both factors prime,
    `N ≡ 1 (mod 3)`, honest commitments `com_i = base_i^{log_i}` to unit bases: whatever the prover
    (with a square-root routine modulo `p'q'` whose results are roots) outputs is accepted. -/
theorem almostSafePrimeProduct_complete (pp qp N : Nat) (challenge index nonce : Int) (logs coms rs : List Int)
    (sqrt : Int → Option Int)
    (hNdef : N = (2 * pp + 1) * (2 * qp + 1))
    (hP : (2 * pp + 1).Prime) (hQ : (2 * qp + 1).Prime) (hne : pp ≠ qp) (hN3 : N % 3 = 1)
    (hsqrt : ∀ a s, sqrt a = some s → 0 ≤ s ∧ (s * s - a) % ((pp * qp : Nat) : Int) = 0)
    (hlogs : ∀ l ∈ logs, (0 : Int) ≤ l)
    (hcop : ∀ i, i < Gen.kp_almostSafePrimeProductIters → Nat.gcd (asppBase nonce i N).natAbs N = 1)
    (hcoms : ∀ i l, i < Gen.kp_almostSafePrimeProductIters → logs[i]? = some l →
      coms[i]? = some (asppBase nonce i N ^ l.toNat % N))
    (hb : asppBuildWith sqrt pp qp challenge index logs = some rs) :
    almostSafePrimeProductVerifyProof N challenge index nonce coms rs = .accept :=
  aspp_complete pp qp N challenge index nonce logs coms rs sqrt hNdef hP hQ hne hN3 hsqrt hlogs hcop hcoms hb

/-- the model of the real prover is the instance with `common.ModSqrt(·, [p', q'])`. -/
theorem almostSafePrimeProductBuild_is_instance (pp qp c i : Int) (logs : List Int) :
    almostSafePrimeProductBuild pp qp c i logs =
      asppBuildWith (fun a => sqrtRoot? (modSqrt a [pp, qp])) pp qp c i logs :=
  almostSafePrimeProductBuild_eq pp qp c i logs

/-! ### what the component proofs exclude (qualitative; the statistical bounds are NOT proved) -/

/-- **Not square-free ⇒ some unit has no `N`-th root**: if `p² ∣ N` there is a residue coprime to
    `N` for which no response passes the square-free round check `r^N ≡ c (mod N)`.
    (That the hash-derived challenges hit such residues with probability `≥ 1 − 1/p` per round is
    the statistical part, not proved.) -/
theorem squareFree_excludes_square_factor {N p : Nat} (hp : p.Prime) (hdiv : p ^ 2 ∣ N) (hN : 0 < N) :
    ∃ c : Nat, c < N ∧ Nat.Coprime c N ∧ ¬ ∃ r : Nat, r ^ N % N = c :=
  exists_not_nth_power_of_sq_dvd hp hdiv hN

/-- **A common odd prime of `odd(N−1)` and `φ(N)` ⇒ some unit has no `odd(N−1)`-th root** (the
    disjoint-prime-product round check): this is the case when a prime `s` divides both `p−1` and
    `q−1`, and also when `N` has a square factor. -/
theorem disjointPrimeProduct_excludes_common_factor {N e s : Nat} (hs : s.Prime) (hsφ : s ∣ Nat.totient N)
    (hse : s ∣ e) (hN : 1 < N) :
    ∃ c : Nat, c < N ∧ Nat.Coprime c N ∧ ¬ ∃ r : Nat, r ^ e % N = c :=
  exists_not_eth_power_of_common_prime hs hsφ hse hN

/-- **A third prime factor ⇒ some unit `c` has none of `c, −c, 2c, −2c` a square** (the
    prime-power-product round check fails for it whatever the response). -/
theorem primePowerProduct_excludes_third_factor {N p q r : Nat} (hp : p.Prime) (hq : q.Prime) (hr : r.Prime)
    (hpq : p ≠ q) (hpr : p ≠ r) (hqr : q ≠ r) (hp2 : p ≠ 2) (hq2 : q ≠ 2) (hr2 : r ≠ 2)
    (hdiv : p * q * r ∣ N) (hN : 0 < N) :
    ∃ c : Int, Int.gcd c N = 1 ∧
      ∀ m ∈ ([1, -1, 2, -2] : List Int), ¬ ∃ x : Int, (x * x - m * c) % (N : Int) = 0 :=
  exists_no_sq_multiplier_of_three_primes hp hq hr hpq hpr hqr hp2 hq2 hr2 hdiv hN

/-! ### the composition (quasisafeprimeproduct.go) -/

/-- the minimum-factor loop excludes every divisor `2 ≤ d < 1024`. -/
theorem noSmallFactor_spec {n : Int} (h : noSmallFactor n = true) (d : Nat) (hd2 : 2 ≤ d)
    (hd : d < Gen.kp_minimumFactor) : ¬ (d : Int) ∣ n := by
  unfold noSmallFactor at h
  rw [List.all_eq_true] at h
  have := h d (List.mem_range.mpr hd)
  have hd' : ¬ d < 2 := by omega
  simp only [decide_eq_true_eq, hd', decide_false, Bool.false_or, beq_iff_eq] at this
  intro hdvd
  have h1 : d ∣ n.natAbs := Int.natCast_dvd.mp hdvd
  have h2 : d ∣ Nat.gcd n.natAbs d := Nat.dvd_gcd h1 (dvd_refl d)
  rw [this] at h2
  have := Nat.le_of_dvd (by omega) h2
  omega

/-- **What `quasiSafePrimeProductVerifyProof` accepting means:** `N ≡ 5 (mod 8)`, no divisor in
    `[2, 1024)`, and each of the four component verifiers (with indices 0..3 under the same
    challenge) accepts. -/
theorem quasiSafePrimeProduct_accept {n challenge : Int} {pr : QsppProof}
    (h : quasiSafePrimeProductVerifyProof n challenge pr = .accept) :
    n % 8 = 5 ∧ noSmallFactor n = true ∧
    squareFreeVerifyProof n challenge 0 (unwrap (pr.sf.getD [])) = .accept ∧
    primePowerProductVerifyProof n challenge 1 (unwrap (pr.ppp.getD [])) = .accept ∧
    disjointPrimeProductVerifyProof n challenge 2 (unwrap (pr.dpp.getD [])) = .accept ∧
    almostSafePrimeProductVerifyProof n challenge 3 (pr.aspp.nonce.getD 0)
      (unwrap (pr.aspp.commitments.getD [])) (unwrap (pr.aspp.responses.getD [])) = .accept := by
  unfold quasiSafePrimeProductVerifyProof at h
  split at h
  · exact absurd h (by simp)
  · next h8 =>
    split at h
    · exact absurd h (by simp)
    · next hsf =>
      simp only [andThen_accept_iff] at h
      refine ⟨not_not.mp h8, ?_, h.1, h.2.1, h.2.2.1, h.2.2.2⟩
      cases hh : noSmallFactor n with
      | true => rfl
      | false => rw [hh] at hsf; exact absurd rfl hsf


/-! ## 2. The representation proof interpreter (zkproof/representationproof.go)

The interpreter `commitFromSecrets` / `commitFromProof` / `reprSides` is the one the model driver
executes (there over the integers modulo the group prime); here it runs over an arbitrary
commutative group `G` with integer powers, every named base of order dividing `order`.
The code's convention is `result = randomizer − secret·challenge (mod order)`. -/

section Repr
variable {G : Type} [CommGroup G]

/-- **Completeness.** If the relation holds on the secrets (`IsTrue`: both sides equal) then the
    commitment recomputed from the honest responses `r − s·c mod order` under challenge `c` equals
    the commitment made from the randomizers. -/
theorem repr_complete {order : Int} (ho : 0 < order) {bases : BaseLookup G} (hB : BasesInSubgroup order bases)
    (S : ReprStructure) (secret randomizer : String → Option Int) (c : Int) (l r t : G)
    (hrel : reprSides zpowOps order bases secret S = some (l, r)) (htrue : l = r)
    (ht : commitFromSecrets zpowOps order bases randomizer S = some t) :
    commitFromProof zpowOps order bases c (honestResult order c secret randomizer) S = some t := by
  unfold reprSides at hrel
  unfold commitFromSecrets at ht
  unfold commitFromProof
  rw [rhsProduct_eq_spec ho hB] at hrel ht
  cases hl : lhsProduct zpowOps order bases S.lhs with
  | none => rw [hl] at hrel; simp at hrel
  | some l' =>
    rw [hl] at hrel
    cases hS : rhsSpec bases secret S.rhs with
    | none => rw [hS] at hrel; simp at hrel
    | some Sv =>
      cases hR : rhsSpec bases randomizer S.rhs with
      | none => rw [hR] at ht; simp at ht
      | some Rv =>
        rw [hS] at hrel
        rw [hR] at ht
        simp only [Option.bind_eq_bind, Option.bind_some, Option.map_some, Option.pure_def,
          Option.some.injEq, Prod.mk.injEq] at hrel ht
        obtain ⟨h1, h2⟩ := hrel
        simp only [Option.bind_eq_bind, Option.bind_some]
        rw [rhsProduct_eq_spec ho hB, rhsSpec_honest hB secret randomizer c S.rhs Rv Sv hR hS]
        simp only [Option.map_some, Option.some.injEq]
        have hlS : l' = Sv := by
          have : l = Sv := by rw [htrue, ← h2]; simp [zpowOps]
          rw [← h1] at this; exact this
        rw [← ht, hlS]
        simp [zpowOps]

/-- **Special soundness.** Two accepting transcripts for the same commitment `t` with challenges
    `c`, `c'` give the relation "in the exponent `c − c'`": with `l` the left-hand side,
    `l^(c−c') = ∏ base^(power·(res'−res))`. -/
theorem repr_special_soundness {order : Int} (ho : 0 < order) {bases : BaseLookup G}
    (hB : BasesInSubgroup order bases) (S : ReprStructure) (c c' : Int) (res res' : String → Option Int) (t : G)
    (h1 : commitFromProof zpowOps order bases c res S = some t)
    (h2 : commitFromProof zpowOps order bases c' res' S = some t) :
    ∃ l W, lhsProduct zpowOps order bases S.lhs = some l ∧
      rhsSpec bases (resultDiff res' res) S.rhs = some W ∧ l ^ (c - c') = W := by
  unfold commitFromProof at h1 h2
  cases hl : lhsProduct zpowOps order bases S.lhs with
  | none => rw [hl] at h1; simp at h1
  | some l =>
    rw [hl] at h1 h2
    simp only [Option.bind_eq_bind, Option.bind_some] at h1 h2
    rw [rhsProduct_eq_spec ho hB] at h1 h2
    cases hX : rhsSpec bases res S.rhs with
    | none => rw [hX] at h1; simp at h1
    | some X =>
      cases hX' : rhsSpec bases res' S.rhs with
      | none => rw [hX'] at h2; simp at h2
      | some X' =>
        rw [hX] at h1; rw [hX'] at h2
        simp only [Option.map_some, Option.some.injEq] at h1 h2
        refine ⟨l, X' * X⁻¹, rfl, rhsSpec_diff res' res S.rhs X' X hX' hX, ?_⟩
        have e : zpowOps.pow l c * X = zpowOps.pow l c' * X' := by rw [h1, h2]
        simp only [zpowOps] at e
        rw [zpow_sub]
        calc l ^ c * (l ^ c')⁻¹ = (l ^ c * X) * (X⁻¹ * (l ^ c')⁻¹) := by group
          _ = (l ^ c' * X') * (X⁻¹ * (l ^ c')⁻¹) := by rw [e]
          _ = X' * X⁻¹ := by
            rw [mul_comm (l ^ c') X', mul_assoc, ← mul_assoc (l ^ c'), mul_comm (l ^ c') X⁻¹, mul_assoc X⁻¹,
              mul_inv_cancel, mul_one]

/-- **Knowledge extraction in a group of order `order`** (the group of the key proof has prime
    order, so every non-zero challenge difference is invertible): if `d·(c−c') ≡ 1 (mod order)` and
    the left-hand side has order dividing `order`, the values `d·(res'−res)` are a witness of the
    relation itself. The code does not check that prover-supplied commitments lie in the
    subgroup; for elements outside it this extraction holds up to the order-2 component. -/
theorem repr_extract {order : Int} (ho : 0 < order) {bases : BaseLookup G}
    (hB : BasesInSubgroup order bases) (S : ReprStructure) (c c' d : Int) (res res' : String → Option Int) (t : G)
    (h1 : commitFromProof zpowOps order bases c res S = some t)
    (h2 : commitFromProof zpowOps order bases c' res' S = some t)
    (hd : (d * (c - c')) % order = 1 % order)
    (hl : ∀ l, lhsProduct zpowOps order bases S.lhs = some l → l ^ order = 1) :
    ∃ l, lhsProduct zpowOps order bases S.lhs = some l ∧
      rhsSpec bases (scaleValues d (resultDiff res' res)) S.rhs = some l := by
  obtain ⟨l, W, hlp, hW, hpow⟩ := repr_special_soundness ho hB S c c' res res' t h1 h2
  refine ⟨l, hlp, ?_⟩
  rw [rhsSpec_scale d _ S.rhs W hW, ← hpow, ← zpow_mul, mul_comm (c - c') d]
  rw [← zpow_emod_of_zpow_eq_one l order _ (hl l hlp), hd, zpow_emod_of_zpow_eq_one l order _ (hl l hlp), zpow_one]

end Repr


/-! ## 3. Range proof (rangeproof.go) and the OR-composition (expstep.go) -/

/-- **The size limit that `verifyProofStructure` enforces** on the responses of the range secret:
    an upper bound `2^(l2+ε+2)` only. -/
theorem range_structure_limit (s : RangeStructure) (m : List (String × List (Option Int)))
    (h : rangeVerifyStructure s (some m) = true) (l : List (Option Int)) (hl : m.lookup s.rangeSecret = some l)
    (x : Int) (hx : some x ∈ l) : x < 2 ^ (s.l2 + Gen.kp_rangeProofEpsilon + 2) := by
  unfold rangeVerifyStructure at h
  simp only [Bool.and_eq_true] at h
  have h2 := h.2
  rw [hl] at h2
  simp only [List.all_eq_true] at h2
  simpa using h2 (some x) hx

/-- **There is no lower bound**: a response table whose range-secret responses are all negative
    passes the structure check (for a structure whose right-hand secrets are listed). Non-negativity
    of proof integers is guaranteed by `big.Int`'s JSON decoding, not by this verifier. -/
theorem range_structure_accepts_negative :
    rangeVerifyStructure (pedersenRange "x" 0 8)
      (some [("x", List.replicate Gen.kp_rangeProofIters (some (-1))),
             ("x_hider", List.replicate Gen.kp_rangeProofIters (some 0))]) = true := by
  decide

/-- **Binary-challenge extraction, the arithmetic.** In a round the representation proof receives
    `r − 2^(l2+ε+1) − bit·2^l1` for the range secret (`rangeRoundResult`). If one commitment can be
    opened for both bits with responses `r0` (bit 0) and `r1` (bit 1), special soundness
    (`repr_special_soundness` with `c = 0`, `c' = 1`) yields the secret `v0 − v1`, which is
    `2^l1 + r0 − r1`; with both responses in `[0, 2^(l2+ε+2))` it lies strictly within
    `2^(l2+ε+2)` of `2^l1`. -/
theorem range_extracted_bound (s : RangeStructure) (r0 r1 : Int)
    (h0 : 0 ≤ r0) (h1 : 0 ≤ r1)
    (hb0 : r0 < 2 ^ (s.l2 + Gen.kp_rangeProofEpsilon + 2)) (hb1 : r1 < 2 ^ (s.l2 + Gen.kp_rangeProofEpsilon + 2)) :
    let v0 := rangeRoundResult s 0 s.rangeSecret r0
    let v1 := rangeRoundResult s 1 s.rangeSecret r1
    v0 - v1 = 2 ^ s.l1 + r0 - r1 ∧
    -(2 : Int) ^ (s.l2 + Gen.kp_rangeProofEpsilon + 2) < (v0 - v1) - 2 ^ s.l1 ∧
    (v0 - v1) - 2 ^ s.l1 < 2 ^ (s.l2 + Gen.kp_rangeProofEpsilon + 2) := by
  have key : rangeRoundResult s 0 s.rangeSecret r0 - rangeRoundResult s 1 s.rangeSecret r1 = 2 ^ s.l1 + r0 - r1 := by
    simp only [rangeRoundResult, if_true, if_false, show (0 : Int) ≠ 1 by omega]
    ring
  simp only [key]
  refine ⟨trivial, ?_, ?_⟩ <;> omega

/-- **Honest responses respect the limit.** With a randomizer in `[−2^(l2+ε), 2^(l2+ε))` (what
    `commitmentsFromSecrets` draws) and a secret with `|2^l1 − secret| ≤ 2^(l2+ε)` (in particular
    `0 ≤ secret ≤ 2^l2` when `l1 ≤ l2+ε`), the response `rand + bit·(2^l1 − secret) + 2^(l2+ε+1)` of
    `buildProof` lies in `[0, 2^(l2+ε+2))`. -/
theorem range_honest_within_limit (l1 l2 : Nat) (rand secret bit : Int) (hbit : bit = 0 ∨ bit = 1)
    (hr0 : -(2 : Int) ^ (l2 + Gen.kp_rangeProofEpsilon) ≤ rand) (hr1 : rand < 2 ^ (l2 + Gen.kp_rangeProofEpsilon))
    (hs0 : -(2 : Int) ^ (l2 + Gen.kp_rangeProofEpsilon) ≤ 2 ^ l1 - secret)
    (hs1 : 2 ^ l1 - secret ≤ 2 ^ (l2 + Gen.kp_rangeProofEpsilon)) :
    let res := rand + bit * (2 ^ l1 - secret) + 2 ^ (l2 + Gen.kp_rangeProofEpsilon + 1)
    0 ≤ res ∧ res < 2 ^ (l2 + Gen.kp_rangeProofEpsilon + 2) := by
  have e1 : (2 : Int) ^ (l2 + Gen.kp_rangeProofEpsilon + 1) = 2 * 2 ^ (l2 + Gen.kp_rangeProofEpsilon) := by ring
  have e2 : (2 : Int) ^ (l2 + Gen.kp_rangeProofEpsilon + 2) = 4 * 2 ^ (l2 + Gen.kp_rangeProofEpsilon) := by ring
  simp only [e1, e2]
  rcases hbit with rfl | rfl <;> constructor <;> omega

/-- **Each round of the range proof is a representation proof under the round's challenge bit**
    (80 binary challenges = the low 80 bits of the global challenge). -/
theorem rangeCommitments_round {G : Type} (ops : GroupOps G) (order : Int) (bases : BaseLookup G) (s : RangeStructure)
    (challenge : Int) (res : List (String × List Int)) (cs : List G)
    (h : rangeCommitments ops order bases s challenge res = some cs) :
    cs.length = Gen.kp_rangeProofIters ∧
    ∀ i, i < Gen.kp_rangeProofIters → ∃ round c,
      cs[i]? = some c ∧
      commitFromProof ops order bases (bitOf challenge i) (listValues round) s.repr = some c := by
  unfold rangeCommitments at h
  rw [rounds_eq_some] at h
  refine ⟨h.1, fun i hi => ?_⟩
  have hi' := h.2 i hi
  have hlt : i < cs.length := by omega
  rw [List.getElem?_eq_getElem hlt] at hi' ⊢
  simp only [Option.bind_eq_bind] at hi'
  cases hm : (res.mapM fun (x : String × List Int) =>
      (x.2[i]?).bind fun r => pure (x.1, rangeRoundResult s (bitOf challenge i) x.1 r)) with
  | none =>
    exfalso
    have : (do
        let round ← res.mapM fun (x : String × List Int) =>
          (x.2[i]?).bind fun r => pure (x.1, rangeRoundResult s (bitOf challenge i) x.1 r)
        commitFromProof ops order bases (bitOf challenge i) (listValues round) s.repr) = some cs[i] := hi'
    rw [hm] at this
    simp at this
  | some round =>
    refine ⟨round, cs[i], rfl, ?_⟩
    have : (do
        let round ← res.mapM fun (x : String × List Int) =>
          (x.2[i]?).bind fun r => pure (x.1, rangeRoundResult s (bitOf challenge i) x.1 r)
        commitFromProof ops order bases (bitOf challenge i) (listValues round) s.repr) = some cs[i] := hi'
    rw [hm] at this
    simpa using this

/-- **`xor_split`: what the structure check of an exponentiation step enforces about the two
    sub-challenges** – both present and their XOR equal to the global challenge; nothing else. -/
theorem xor_split (bitname prename postname mulname modname : String) (bitlen : Nat) (challenge : Int)
    (p : StepProof) (h : stepVerifyStructure bitname prename postname mulname modname bitlen challenge p = true) :
    ∃ a b, p.achallenge = some a ∧ p.bchallenge = some b ∧ challenge = goXor a b := by
  unfold stepVerifyStructure at h
  split at h
  · next a b ha hb =>
    simp only [Bool.and_eq_true, decide_eq_true_eq] at h
    exact ⟨a, b, ha, hb, h.1.1⟩
  · exact absurd h (by simp)

/-- conversely the relation is all that is required of them: with complete branches any pair of
    sub-challenges that XORs to the challenge passes. -/
theorem xor_split_suffices (bitname prename postname mulname modname : String) (bitlen : Nat) (a b : Int)
    (p : StepProof) (ha : p.achallenge = some a) (hb : p.bchallenge = some b) (hl : p.leavesPresent = true)
    (hm : multStructureOk mulname prename modname postname bitlen p.b.mult = true) :
    stepVerifyStructure bitname prename postname mulname modname bitlen (goXor a b) p = true := by
  unfold stepVerifyStructure
  rw [ha, hb]
  simp [hl, hm]

/-- **One sub-challenge is free, the other is then forced** (non-negative values, as decoded
    from JSON): the prover may fix the sub-challenge of the branch it simulates before the global
    challenge `c` exists – the other one must be `c xor a` – so it cannot simulate both. -/
theorem xor_split_free_and_forced (a b c : Int) (ha : 0 ≤ a) (hb : 0 ≤ b) (hc : 0 ≤ c) :
    goXor a (goXor c a) = c ∧ (goXor a b = c → b = goXor c a) := by
  obtain ⟨a', rfl⟩ := Int.eq_ofNat_of_zero_le ha
  obtain ⟨b', rfl⟩ := Int.eq_ofNat_of_zero_le hb
  obtain ⟨c', rfl⟩ := Int.eq_ofNat_of_zero_le hc
  have hx : ∀ x y : Nat, goXor (x : Int) (y : Int) = ((x ^^^ y : Nat) : Int) := by
    intro x y
    unfold goXor
    simp
  simp only [hx]
  constructor
  · congr 1
    rw [Nat.xor_comm c' a', ← Nat.xor_assoc, Nat.xor_self, Nat.zero_xor]
  · intro h
    have h' : a' ^^^ b' = c' := by exact_mod_cast h
    congr 1
    rw [← h', Nat.xor_comm (a' ^^^ b') a', ← Nat.xor_assoc, Nat.xor_self, Nat.zero_xor]

/-- **The repaired branch B binds the multiplier** (fix_C17_1): with the environment's commitment
    for `mulname` known, the copy `Mul.Commit` inside the proof only occupies the first position of
    branch B's hash input – everything computed (the Pedersen representation, the bit relation, the
    multiplication proof) is independent of it, i.e. runs on the environment's commitment.
    (Before the repair the copy was the base of the representation: a step could be proven for a
    multiplier of the prover's choosing; failing input `expstep-mul-unlinked`.) -/
theorem expStepB_mul_commit_bound (g : Group) (bitname prename postname mulname modname : String) (bitlen : Nat)
    (challenge : Int) (bases : BaseLookup Nat) (outer copy : Int) (p : StepBProof) :
    (stepBCommitments g bitname prename postname mulname modname bitlen challenge bases (some outer)
        { p with mul := { p.mul with commit := copy } }).map (fun l => l.drop 1) =
      (stepBCommitments g bitname prename postname mulname modname bitlen challenge bases (some outer) p).map
        (fun l => l.drop 1) := by
  unfold stepBCommitments
  simp only [PedersenProof.results]
  cases pedersenCommitments g mulname challenge { p.mul with commit := outer } <;>
  cases commitFromProof g.ops g.order bases challenge
      (mergeValues (singleValue (bitname ++ "_hider") p.bit)
        (listValues [(mulname, p.mul.sresult), (mulname ++ "_hider", p.mul.hresult)]))
      { lhs := [⟨bitname, 1⟩, ⟨"g", -1⟩], rhs := [⟨"h", bitname ++ "_hider", 1⟩] } <;>
  cases multCommitments g mulname prename modname postname bitlen challenge bases
      (mergeValues (singleValue (bitname ++ "_hider") p.bit)
        (listValues [(mulname, p.mul.sresult), (mulname ++ "_hider", p.mul.hresult)])) p.mult <;>
  simp

/-! ## 4. The single Fiat–Shamir input (validkeyproof.go) -/

/-- **`challenge_covers_all`, membership**: the hashed list contains the group prime, the modulus
    and, as contiguous segments, the commitments of every sub-proof. -/
theorem challenge_covers_all (c : ChallengeParts) :
    c.groupPrime ∈ c.input ∧ c.n ∈ c.input ∧
    c.pprime <:+: c.input ∧ c.qprime <:+: c.input ∧ c.p <:+: c.input ∧ c.q <:+: c.input ∧
    c.pPprimeRel <:+: c.input ∧ c.qQprimeRel <:+: c.input ∧ c.pQNRel <:+: c.input ∧
    c.pprimeIsPrime <:+: c.input ∧ c.qprimeIsPrime <:+: c.input ∧ c.qspp <:+: c.input ∧
    c.basesValid <:+: c.input := by
  unfold ChallengeParts.input
  refine ⟨by simp, by simp, ?_, ?_, ?_, ?_, ?_, ?_, ?_, ?_, ?_, ?_, ?_⟩
  · exact ⟨[], c.qprime ++ c.p ++ c.q ++ [c.groupPrime, c.n] ++ c.pPprimeRel ++ c.qQprimeRel ++ c.pQNRel ++
      c.pprimeIsPrime ++ c.qprimeIsPrime ++ c.qspp ++ c.basesValid, by simp [List.append_assoc]⟩
  · exact ⟨c.pprime, c.p ++ c.q ++ [c.groupPrime, c.n] ++ c.pPprimeRel ++ c.qQprimeRel ++ c.pQNRel ++
      c.pprimeIsPrime ++ c.qprimeIsPrime ++ c.qspp ++ c.basesValid, by simp [List.append_assoc]⟩
  · exact ⟨c.pprime ++ c.qprime, c.q ++ [c.groupPrime, c.n] ++ c.pPprimeRel ++ c.qQprimeRel ++ c.pQNRel ++
      c.pprimeIsPrime ++ c.qprimeIsPrime ++ c.qspp ++ c.basesValid, by simp [List.append_assoc]⟩
  · exact ⟨c.pprime ++ c.qprime ++ c.p, [c.groupPrime, c.n] ++ c.pPprimeRel ++ c.qQprimeRel ++ c.pQNRel ++
      c.pprimeIsPrime ++ c.qprimeIsPrime ++ c.qspp ++ c.basesValid, by simp [List.append_assoc]⟩
  · exact ⟨c.pprime ++ c.qprime ++ c.p ++ c.q ++ [c.groupPrime, c.n], c.qQprimeRel ++ c.pQNRel ++
      c.pprimeIsPrime ++ c.qprimeIsPrime ++ c.qspp ++ c.basesValid, by simp [List.append_assoc]⟩
  · exact ⟨c.pprime ++ c.qprime ++ c.p ++ c.q ++ [c.groupPrime, c.n] ++ c.pPprimeRel, c.pQNRel ++
      c.pprimeIsPrime ++ c.qprimeIsPrime ++ c.qspp ++ c.basesValid, by simp [List.append_assoc]⟩
  · exact ⟨c.pprime ++ c.qprime ++ c.p ++ c.q ++ [c.groupPrime, c.n] ++ c.pPprimeRel ++ c.qQprimeRel,
      c.pprimeIsPrime ++ c.qprimeIsPrime ++ c.qspp ++ c.basesValid, by simp [List.append_assoc]⟩
  · exact ⟨c.pprime ++ c.qprime ++ c.p ++ c.q ++ [c.groupPrime, c.n] ++ c.pPprimeRel ++ c.qQprimeRel ++ c.pQNRel,
      c.qprimeIsPrime ++ c.qspp ++ c.basesValid, by simp [List.append_assoc]⟩
  · exact ⟨c.pprime ++ c.qprime ++ c.p ++ c.q ++ [c.groupPrime, c.n] ++ c.pPprimeRel ++ c.qQprimeRel ++ c.pQNRel ++
      c.pprimeIsPrime, c.qspp ++ c.basesValid, by simp [List.append_assoc]⟩
  · exact ⟨c.pprime ++ c.qprime ++ c.p ++ c.q ++ [c.groupPrime, c.n] ++ c.pPprimeRel ++ c.qQprimeRel ++ c.pQNRel ++
      c.pprimeIsPrime ++ c.qprimeIsPrime, c.basesValid, by simp [List.append_assoc]⟩
  · exact ⟨c.pprime ++ c.qprime ++ c.p ++ c.q ++ [c.groupPrime, c.n] ++ c.pPprimeRel ++ c.qQprimeRel ++ c.pQNRel ++
      c.pprimeIsPrime ++ c.qprimeIsPrime ++ c.qspp, [], by simp [List.append_assoc]⟩

/-- **`challenge_covers_all`, injectivity**: for parts of the lengths the structure prescribes
    (`numCommitments`, a function of the modulus size and the number of bases – `expectedLengths`),
    the hashed list determines every part. -/
theorem challenge_input_injective (c c' : ChallengeParts) (hlen : c.lengths = c'.lengths)
    (h : c.input = c'.input) : c = c' := by
  unfold ChallengeParts.lengths at hlen
  simp only [List.cons.injEq, and_true, true_and] at hlen
  obtain ⟨l1, l2, l3, l4, l5, l6, l7, l8, l9, l10, l11⟩ := hlen
  unfold ChallengeParts.input at h
  simp only [List.append_assoc] at h
  obtain ⟨e1, h⟩ := List.append_inj h l1
  obtain ⟨e2, h⟩ := List.append_inj h l2
  obtain ⟨e3, h⟩ := List.append_inj h l3
  obtain ⟨e4, h⟩ := List.append_inj h l4
  obtain ⟨e5, h⟩ := List.append_inj h (by simp)
  obtain ⟨e6, h⟩ := List.append_inj h l5
  obtain ⟨e7, h⟩ := List.append_inj h l6
  obtain ⟨e8, h⟩ := List.append_inj h l7
  obtain ⟨e9, h⟩ := List.append_inj h l8
  obtain ⟨e10, h⟩ := List.append_inj h l9
  obtain ⟨e11, e12⟩ := List.append_inj h l10
  simp only [List.cons.injEq, and_true] at e5
  cases c; cases c'
  simp_all

/-- **The challenge binds all of it** (with property C15): two proofs with the same challenge and
    parts of the prescribed lengths have the same group prime, modulus and commitments – or exhibit
    a SHA-256 collision. -/
theorem challenge_binds_parts (c c' : ChallengeParts) (hlen : c.lengths = c'.lengths)
    (hl : (hashCommitInput c.input false).length < 256 ^ 126)
    (hl' : (hashCommitInput c'.input false).length < 256 ^ 126)
    (h : hashCommit c.input false = hashCommit c'.input false) :
    c = c' ∨ (hashCommitInput c.input false ≠ hashCommitInput c'.input false ∧
      Sha256.hash (hashCommitInput c.input false) = Sha256.hash (hashCommitInput c'.input false)) := by
  rcases hashCommit_binds hl hl' h with heq | hcol
  · exact Or.inl (challenge_input_injective c c' hlen heq.1)
  · exact Or.inr hcol


/-! ## non-vacuity -/

/-- the key conditions are satisfiable: `p' = 23, q' = 29` (`P = 47`, `Q = 59`, both 6 bits). -/
theorem keyCond_example : KeyCond 23 29 where
  pp_prime := by norm_num
  qp_prime := by norm_num
  p_prime := by norm_num
  q_prime := by norm_num
  pp_odd := by norm_num
  qp_odd := by norm_num
  p_mod8 := by norm_num
  q_mod8 := by norm_num
  pp_mod8 := by norm_num
  qp_mod8 := by norm_num
  pq_mod8 := by norm_num
  ppqp_mod8 := by norm_num
  same_len := by decide

end Gabi.C17
