/-
  C07 — Proof randomness is never reused.
  Property theorems about the executable checker model GabiModel.Reuse (the two-transcript
  extractor and the pairwise freshness count that `./check C07` runs on proofs produced by the
  Go library) and about the provenance model of randomisers (a supply = strictly increasing
  counter). Helper lemmas: GabiProofs.MiscLemmas. The linearity of the prepared non-revocation
  commitment cache is the subject of C20.
-/
import GabiModel.Reuse
import GabiProofs.MiscLemmas
namespace Gabi.C07
open Gabi Gabi.Misc

/-! ### the two-transcript extractor -/

/-- The extractor returns `m'` exactly when the challenges differ, the division is exact and
    `m'` is the quotient `(s₁-s₂)/(c₁-c₂)`. -/
theorem extract_spec (c1 s1 c2 s2 m' : Int) :
    extract c1 s1 c2 s2 = some m' ↔
      c1 ≠ c2 ∧ (c1 - c2) ∣ (s1 - s2) ∧ m' = (s1 - s2) / (c1 - c2) :=
  extract_eq_some_iff c1 s1 c2 s2 m'

/-- The extractor fails exactly on equal challenges or an inexact division. -/
theorem extract_none_spec (c1 s1 c2 s2 : Int) :
    extract c1 s1 c2 s2 = none ↔ c1 = c2 ∨ ¬ (c1 - c2) ∣ (s1 - s2) :=
  extract_eq_none_iff c1 s1 c2 s2

/-- For two honest responses `sᵢ = rᵢ + cᵢ·m` to different challenges the extractor recovers
    the secret **iff** the commitment randomiser was reused. So "the extractor fails to recover
    the secret from any two proofs" is equivalent to "no randomiser is used twice". -/
theorem extractor_needs_reuse (c1 c2 r1 r2 m : Int) (hc : c1 ≠ c2) :
    extract c1 (r1 + c1 * m) c2 (r2 + c2 * m) = some m ↔ r1 = r2 :=
  extract_honest_iff c1 c2 r1 r2 m hc

/-- With fresh randomisers (`r₁ ≠ r₂`) the extractor returns nothing or a wrong value. -/
theorem fresh_randomisers_hide (c1 c2 r1 r2 m : Int) (hc : c1 ≠ c2) (hr : r1 ≠ r2) :
    extract c1 (r1 + c1 * m) c2 (r2 + c2 * m) = none ∨
      ∃ m', extract c1 (r1 + c1 * m) c2 (r2 + c2 * m) = some m' ∧ m' ≠ m := by
  cases h : extract c1 (r1 + c1 * m) c2 (r2 + c2 * m) with
  | none => exact Or.inl rfl
  | some m' =>
    refine Or.inr ⟨m', rfl, fun hm => hr ?_⟩
    subst hm
    exact (extract_honest_iff c1 c2 r1 r2 m' hc).mp h

/-- Reusing a randomiser under two different challenges reveals the secret: this is why reuse
    "totally breaks security" (credential.go:196-199). -/
theorem reuse_recovers_secret (c1 c2 r m : Int) (hc : c1 ≠ c2) :
    extract c1 (r + c1 * m) c2 (r + c2 * m) = some m :=
  (extract_honest_iff c1 c2 r r m hc).mpr rfl

/-- In terms of the checker's record type: the implied randomisers of two values for the same
    secret coincide iff the extractor succeeds (different challenges). -/
theorem extractorSucceeds_iff_same_randomizer (a b : TranscriptValue) (hm : a.m = b.m)
    (hc : a.c ≠ b.c) : extractorSucceeds a b = true ↔ a.randomizer = b.randomizer := by
  have ha : a.s = a.randomizer + a.c * a.m := by unfold TranscriptValue.randomizer; ring
  have hb : b.s = b.randomizer + b.c * a.m := by unfold TranscriptValue.randomizer; rw [hm]; ring
  unfold extractorSucceeds
  rw [Bool.and_eq_true, beq_iff_eq, beq_iff_eq, ha, hb]
  rw [extract_honest_iff a.c b.c a.randomizer b.randomizer a.m hc]
  exact ⟨fun h => h.1, fun h => ⟨h, hm⟩⟩

/-! ### provenance: a supply never hands out an index twice -/

/-- Any number of consecutive draws from a supply yields pairwise distinct indices, all at or
    above the starting state and below the final state (so later draws are fresh, too). -/
theorem supply_fresh (k s : Nat) :
    (drawMany k s).1.Nodup ∧ ∀ i ∈ (drawMany k s).1, s ≤ i ∧ i < (drawMany k s).2 :=
  ⟨drawMany_nodup k s, drawMany_ge k s⟩

/-- Any interleaving (`schedule`: which consumer — proof builder, session, goroutine — draws
    next) of draws from one supply: all indices handed out are distinct, every consumer's
    indices are distinct, and different consumers get disjoint index sets. -/
theorem supply_fresh_interleaved {κ} [DecidableEq κ] (schedule : List κ) (s : Nat) :
    ((runSchedule schedule s).1.map (·.2)).Nodup ∧
    (∀ k, (indicesOf k (runSchedule schedule s).1).Nodup) ∧
    (∀ k k', k ≠ k' →
      List.Disjoint (indicesOf k (runSchedule schedule s).1) (indicesOf k' (runSchedule schedule s).1)) :=
  ⟨runSchedule_nodup schedule s, fun k => indicesOf_nodup k schedule s,
   fun k k' h => indicesOf_disjoint k k' h schedule s⟩

/-- The run really is the given interleaving: consumers appear in schedule order. -/
theorem supply_schedule_faithful {κ} (schedule : List κ) (s : Nat) :
    (runSchedule schedule s).1.map (·.1) = schedule := runSchedule_consumers schedule s

/-! ### the freshness count the check computes -/

/-- `reuseCount = 0` iff (1) every pair of response values from different proofs – other than
    the secret-key randomiser deliberately shared within one session – has different implied
    randomisers and the extractor does not recover the secret from it, and (2) no two group
    elements (`A'`, `C_r`, `C_u`) of different proofs are equal. -/
theorem reuseCount_zero_iff (vals : List TranscriptValue) (els : List (Nat × String × Int)) :
    reuseCount vals els = 0 ↔
      vals.Pairwise (fun a b =>
        a.proof ≠ b.proof →
        ¬ (a.session = b.session ∧ a.slot = "secretkey" ∧ b.slot = "secretkey") →
          a.randomizer ≠ b.randomizer ∧ ¬ (extract a.c a.s b.c b.s = some a.m ∧ a.m = b.m)) ∧
      els.Pairwise (fun x y => x.1 ≠ y.1 → x.2.2 ≠ y.2.2) :=
  reuseCount_eq_zero_iff vals els

/-- A reused randomiser is counted: two values of different proofs (not the shared secret-key
    slot) with the same implied randomiser make the count positive. -/
theorem reuse_is_detected (a b : TranscriptValue) (hp : a.proof ≠ b.proof)
    (hs : ¬ (a.session = b.session ∧ a.slot = "secretkey" ∧ b.slot = "secretkey"))
    (hr : a.randomizer = b.randomizer) : 0 < reuseCount [a, b] [] := by
  rw [Nat.pos_iff_ne_zero]
  intro h
  have := ((reuseCount_zero_iff [a, b] []).mp h).1
  rw [List.pairwise_pair] at this
  exact (this hp hs).1 hr

/-! ### non-vacuity -/

example : extract 5 (11 + 5 * 7) 3 (11 + 3 * 7) = some 7 := reuse_recovers_secret 5 3 11 7 (by decide)
example : extract 5 (11 + 5 * 7) 3 (12 + 3 * 7) = none := by decide
example : (drawMany 3 10).1 = [10, 11, 12] := by decide
example : (runSchedule ["a", "b", "a"] 0).1 = [("a", 0), ("b", 1), ("a", 2)] := by decide
example : reuseCount [⟨0, 0, 5, "m1", 11 + 5 * 7, 7⟩, ⟨0, 1, 3, "m1", 12 + 3 * 7, 7⟩] [(0, "A", 4), (1, "A", 9)] = 0 := by
  decide
example : reuseCount [⟨0, 0, 5, "m1", 11 + 5 * 7, 7⟩, ⟨0, 1, 3, "m1", 11 + 3 * 7, 7⟩] [] = 1 := by decide

end Gabi.C07

#print axioms Gabi.C07.extract_spec
#print axioms Gabi.C07.extract_none_spec
#print axioms Gabi.C07.extractor_needs_reuse
#print axioms Gabi.C07.fresh_randomisers_hide
#print axioms Gabi.C07.reuse_recovers_secret
#print axioms Gabi.C07.extractorSucceeds_iff_same_randomizer
#print axioms Gabi.C07.supply_fresh
#print axioms Gabi.C07.supply_fresh_interleaved
#print axioms Gabi.C07.supply_schedule_faithful
#print axioms Gabi.C07.reuseCount_zero_iff
#print axioms Gabi.C07.reuse_is_detected
