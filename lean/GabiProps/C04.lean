/-
  C04 — Selective disclosure hides what is not disclosed (parameter / shape / counting part).
  Property theorems only; helper lemmas live in GabiProofs.Params.

  Contents
   1. the derived system parameters of every default set (1024/2048/4096) satisfy the
      inequalities the zero-knowledge and soundness arguments need; the toy set (Ln = 256) of the
      test-suite does NOT;
   2. honest responses stay inside the ranges the verifier checks (no wrap-around, no rejection);
   5. shape of a disclosure proof: the disclosed map has exactly the keys `D` with the true
      values, the responses have exactly the complementary keys; the timestamp contributions
      depend on the disclosed values only;
   6. counting form of statistical hiding: the response `r + c·m` with `r` uniform in
      `[0, 2^LmCommit)` has statistical distance at most `2^(-Lstatzk)` from the response for any
      other attribute value.
  The model definitions (`GabiModel.Prover`, `GabiModel.Keys`, `GabiModel.Generated`) are compared
  with the Go code by the correspondence run of `./check C04`.
-/
import GabiModel.Prover
import GabiProofs.Params
import GabiProps.C15
namespace Gabi.C04
open Gabi

/-! ### 1. parameter sets -/

/-- Every default parameter set satisfies all consistency facts collected in `ParamsSound`
    (`Lh = 256 ≤ Lm`, the definitions of the derived lengths, `Lh + Lm ≤ LmCommit`, response
    ranges below `2^(Ln-4)`, …). Proved from the regenerated tables by `decide` + `omega`. -/
theorem default_params_sound {P : SysParams} (h : IsDefaultParams P) : ParamsSound P :=
  Gabi.default_params_sound h

/-- The inequalities spelled out. -/
theorem derived_params_consistent {P : SysParams} (h : IsDefaultParams P) :
    P.Lh + P.Lm ≤ P.LmCommit ∧ P.Lh + P.LePrime - 1 + 1 ≤ P.LeCommit + 1 ∧
    P.LmCommit + 1 < P.Ln - 4 ∧ P.LeCommit + 1 < P.Ln - 4 ∧ P.Lm < P.Ln - 4 ∧
    P.LePrime < P.Le ∧ P.LvPrime + P.Lh + 1 ≤ P.LvPrimeCommit + 1 ∧
    P.Lv = P.Ln + 2 * P.Lstatzk + P.Lh + P.Lm + 4 :=
  Gabi.derived_params_consistent h

/-- `DefaultSystemParameters[bits]` yields a default set; the three table entries exist. -/
theorem defaultSysParams_isDefault {bits : Nat} {P : SysParams} (h : defaultSysParams bits = some P) :
    IsDefaultParams P := isDefaultParams_of_lookup h

theorem default_sets_exist :
    (∃ P, defaultSysParams 1024 = some P) ∧ (∃ P, defaultSysParams 2048 = some P) ∧
    (∃ P, defaultSysParams 4096 = some P) := Gabi.default_sets_exist

/-- The toy set of the test-suite (`Ln = 256 = Lm`) is *not* sound: the response ranges and the
    attribute length are not below `2^(Ln-4)`. Tests that use it exercise the code paths, not the
    security margins. -/
theorem toy_params_unsound :
    ¬ (toyParams.LmCommit + 1 < toyParams.Ln - 4) ∧ ¬ (toyParams.LeCommit + 1 < toyParams.Ln - 4) ∧
    ¬ (toyParams.Lm < toyParams.Ln - 4) ∧ ¬ ParamsSound toyParams ∧ ¬ IsDefaultParams toyParams :=
  ⟨toy_not_sound.1, toy_not_sound.2.1, toy_not_sound.2.2, toy_not_paramsSound, toy_not_default⟩

/-! ### 2. honest responses are in range -/

/-- The exponent used for a non-negative attribute is non-negative and below `2^max(lm,256)`:
    short values are used as they are, long ones are replaced by a SHA-256 value. -/
theorem attrExp_range {lm : Nat} {a : Int} (ha : 0 ≤ a) :
    0 ≤ attrExp lm a ∧ attrExp lm a < 2 ^ (max lm 256) := Gabi.attrExp_range ha

/-- … hence below `2^Lm` for every sound parameter set (`Lm ≥ 256`). -/
theorem attrExp_lt {P : SysParams} (hP : ParamsSound P) {a : Int} (ha : 0 ≤ a) :
    0 ≤ attrExp P.Lm a ∧ attrExp P.Lm a < 2 ^ P.Lm := attrExp_lt_Lm hP.Lm_ge ha

/-- The challenge is a SHA-256 value, i.e. below `2^Lh`. -/
theorem challenge_lt {P : SysParams} (hP : ParamsSound P) (context nonce : Int) (cs : List Int) (issig : Bool) :
    (createChallenge context nonce cs issig : Int) < 2 ^ P.Lh := by
  rw [hP.Lh_eq]
  exact_mod_cast Gabi.C15.hashCommit_lt (context :: cs ++ [nonce]) issig

/-- Attribute response `r + c·m` with `r < 2^LmCommit`, `c < 2^Lh`, `m < 2^Lm` lies in
    `[0, 2^(LmCommit+1))` – exactly the range `correctResponseSizes` accepts. -/
theorem responses_in_range {P : SysParams} (hP : ParamsSound P) {r c m : Int}
    (hr0 : 0 ≤ r) (hr : r < 2 ^ P.LmCommit) (hc0 : 0 ≤ c) (hc : c < 2 ^ P.Lh)
    (hm0 : 0 ≤ m) (hm : m < 2 ^ P.Lm) :
    0 ≤ r + c * m ∧ r + c * m < 2 ^ (P.LmCommit + 1) :=
  mResponse_in_range hP hr0 hr hc0 hc hm0 hm

/-- `e`-response `eCommit + c·(e − 2^(Le−1))` for `e` in the signature interval lies in
    `[0, 2^(LeCommit+1))`. -/
theorem e_response_in_range {P : SysParams} (hP : ParamsSound P) {eCommit c e : Int}
    (hr0 : 0 ≤ eCommit) (hr : eCommit < 2 ^ P.LeCommit) (hc0 : 0 ≤ c) (hc : c < 2 ^ P.Lh)
    (he0 : 2 ^ (P.Le - 1) ≤ e) (he : e ≤ 2 ^ (P.Le - 1) + 2 ^ (P.LePrime - 1)) :
    0 ≤ eCommit + c * (e - 2 ^ (P.Le - 1)) ∧
      eCommit + c * (e - 2 ^ (P.Le - 1)) < 2 ^ (P.LeCommit + 1) :=
  eResponse_in_range hP hr0 hr hc0 hc he0 he

/-- Model level: a proof built by `DisclosureProofBuilder.CreateProof` from in-range randomness,
    non-negative attributes, a challenge below `2^Lh` and a signature exponent in its interval
    passes the verifier's `correctResponseSizes`. -/
theorem honest_proof_sizes_ok {pk : PublicKey} (hP : ParamsSound pk.params) {attrs D U : List Int}
    {sigR : CLSignature} {rnd : DisclosureRandomness} {c : Int} {p : ProofD}
    (hrnd : rnd.InRange pk.params) (hc0 : 0 ≤ c) (hc : c < 2 ^ pk.params.Lh)
    (hattrs : ∀ a ∈ attrs, 0 ≤ a) (he : eInInterval pk.params sigR.e = true)
    (h : disclosureCreateProof pk attrs D U sigR rnd c = .ok p) :
    p.correctResponseSizes pk = .ok true :=
  createProof_sizes_ok hP hrnd hc0 hc hattrs he h

/-- … and so does the output of `Credential.CreateDisclosureProof` (its challenge is a hash). -/
theorem honest_disclosure_sizes_ok {pk : PublicKey} (hP : ParamsSound pk.params) {sig : CLSignature}
    {attrs D : List Int} {rnd : DisclosureRandomness} {context nonce : Int} {issig : Bool} {p : ProofD}
    (hrnd : rnd.InRange pk.params) (hattrs : ∀ a ∈ attrs, 0 ≤ a)
    (he : eInInterval pk.params sig.e = true)
    (h : createDisclosureProof pk sig attrs D rnd context nonce issig = .ok p) :
    p.correctResponseSizes pk = .ok true := by
  obtain ⟨commit, _, _, hp⟩ := createDisclosureProof_ok h
  have he' : eInInterval pk.params (clRandomize pk sig rnd.r).e = true := he
  exact createProof_sizes_ok hP hrnd (Int.natCast_nonneg _) (challenge_lt hP _ _ _ _) hattrs he' hp

/-! ### 5. shape of a disclosure proof -/

/-- `getUndisclosedAttributes` returns the ascending complement of `D` in `[0,n)`. -/
theorem undisclosed_is_complement {D : List Int} {n : Nat} {U : List Int}
    (h : getUndisclosedAttributes D n = .ok U) :
    (∀ i, i ∈ U ↔ (0 ≤ i ∧ i < (n : Int) ∧ i ∉ D)) ∧ U.Pairwise (· < ·) := by
  obtain ⟨rfl, _⟩ := getUndisclosed_ok h
  exact ⟨mem_complementList D n, complementList_sorted D n⟩

/-- It panics (index out of range, as the Go code does on `check[v]`) exactly when some disclosed
    index is outside `[0,n)`; otherwise it returns. -/
theorem undisclosed_error_iff (D : List Int) (n : Nat) :
    (∃ e, getUndisclosedAttributes D n = .error e) ↔ ∃ v ∈ D, v < 0 ∨ v ≥ (n : Int) :=
  getUndisclosed_error_iff D n

theorem undisclosed_ok_iff (D : List Int) (n : Nat) :
    (∃ U, getUndisclosedAttributes D n = .ok U) ↔ ∀ v ∈ D, 0 ≤ v ∧ v < (n : Int) := by
  constructor
  · rintro ⟨U, h⟩; exact (getUndisclosed_ok h).2
  · intro h
    cases hg : getUndisclosedAttributes D n with
    | ok U => exact ⟨U, rfl⟩
    | error e =>
      obtain ⟨v, hv, hvr⟩ := (getUndisclosed_error_iff D n).mp ⟨e, hg⟩
      have := h v hv; omega

/-- `CreateProof`: the disclosed map has exactly the keys `D` (in order) carrying the *true*
    attribute values; the response map has exactly the keys `U`, each response being
    `randomiser + c·attrExp(value)`; nothing else about the attributes enters the proof. All
    indices are valid positions of `attrs`. -/
theorem proof_shape {pk : PublicKey} {attrs D U : List Int} {sigR : CLSignature}
    {rnd : DisclosureRandomness} {c : Int} {p : ProofD}
    (h : disclosureCreateProof pk attrs D U sigR rnd c = .ok p) :
    (∀ v ∈ D ++ U, 0 ≤ v ∧ v.toNat < attrs.length) ∧
    p.aDisclosed = D.map (fun v => (v, some (attrs.getD v.toNat 0))) ∧
    p.aDisclosed.map (·.1) = D ∧
    p.aResponses.map (·.1) = U ∧
    p.aResponses = U.map (fun v =>
      (v, some (rnd.attrRand v + c * attrExp pk.params.Lm (attrs.getD v.toNat 0)))) ∧
    p.c = some c ∧ p.a = some sigR.a ∧
    p.eResponse = some (rnd.eCommit + c * (sigR.e - 2 ^ (pk.params.Le - 1))) ∧
    p.vResponse = some (rnd.vCommit + c * sigR.v) ∧ p.nonrev = none ∧ p.rangeProofs = none := by
  rw [disclosureCreateProof_eq] at h
  split at h
  · next hr =>
    cases h
    refine ⟨?_, rfl, ?_, ?_, rfl, rfl, rfl, rfl, rfl, rfl, rfl⟩
    · intro v hv
      rcases List.mem_append.mp hv with hv | hv
      · exact hr.2 v hv
      · exact hr.1 v hv
    · simp [List.map_map, Function.comp_def]
    · simp [List.map_map, Function.comp_def]
  · cases h

/-- `CreateProof` fails (panics) only on an index outside `attrs`. -/
theorem proof_total {pk : PublicKey} {attrs D U : List Int} {sigR : CLSignature}
    {rnd : DisclosureRandomness} {c : Int}
    (h : ∀ v ∈ D ++ U, 0 ≤ v ∧ v.toNat < attrs.length) :
    ∃ p, disclosureCreateProof pk attrs D U sigR rnd c = .ok p := by
  rw [disclosureCreateProof_eq, if_pos]
  · exact ⟨_, rfl⟩
  · exact ⟨fun v hv => h v (List.mem_append_right _ hv), fun v hv => h v (List.mem_append_left _ hv)⟩

/-- `Credential.CreateDisclosureProof`: disclosed keys are exactly `D` with the true values, hidden
    keys are exactly the ascending complement of `D` in `[0, len attrs)`; the two key sets are
    disjoint and cover every attribute position. -/
theorem disclosure_proof_shape {pk : PublicKey} {sig : CLSignature} {attrs D : List Int}
    {rnd : DisclosureRandomness} {context nonce : Int} {issig : Bool} {p : ProofD}
    (h : createDisclosureProof pk sig attrs D rnd context nonce issig = .ok p) :
    p.aDisclosed = D.map (fun v => (v, some (attrs.getD v.toNat 0))) ∧
    (∀ i, i ∈ p.aResponses.map (·.1) ↔ (0 ≤ i ∧ i < (attrs.length : Int) ∧ i ∉ D)) ∧
    (p.aResponses.map (·.1)).Pairwise (· < ·) ∧
    (∀ i : Int, 0 ≤ i → i < (attrs.length : Int) → (i ∈ D ∨ i ∈ p.aResponses.map (·.1))) := by
  obtain ⟨commit, _, _, hp⟩ := createDisclosureProof_ok h
  obtain ⟨_, hd, _, hu, _⟩ := proof_shape hp
  refine ⟨hd, ?_, ?_, ?_⟩
  · rw [hu]; exact mem_complementList D attrs.length
  · rw [hu]; exact complementList_sorted D attrs.length
  · intro i h0 h1
    by_cases hi : i ∈ D
    · exact Or.inl hi
    · right; rw [hu]; exact (mem_complementList D attrs.length i).mpr ⟨h0, h1, hi⟩

/-- The timestamp-request contributions depend on `D` and the disclosed values only: two
    attribute lists of equal length that agree on the disclosed positions give the same list. -/
theorem timestamp_independent {attrs attrs' D : List Int} (hlen : attrs.length = attrs'.length)
    (hag : ∀ i : Nat, (i : Int) ∈ D → attrs.getD i 0 = attrs'.getD i 0) :
    timestampContributions attrs D = timestampContributions attrs' D :=
  timestampContributions_congr hlen hag

/-- Every hidden position holds `0`, every disclosed position the attribute. -/
theorem timestamp_entries (attrs D : List Int) :
    (timestampContributions attrs D).length = attrs.length ∧
    ∀ i : Nat, i < attrs.length →
      (timestampContributions attrs D)[i]? = some (if (i : Int) ∈ D then attrs.getD i 0 else 0) :=
  ⟨timestampContributions_length attrs D, timestampContributions_getElem? attrs D⟩

theorem timestamp_hidden_zero (attrs D : List Int) (i : Nat) (hi : i < attrs.length)
    (hD : (i : Int) ∉ D) : (timestampContributions attrs D)[i]? = some 0 := by
  rw [timestampContributions_getElem? attrs D i hi, if_neg hD]

/-! ### 6. statistical hiding, counting form -/

section Hiding
open Finset

/-- For offsets `x, x' ≤ B` the response sets `{r + x | r < N}` and `{r + x' | r < N}` differ in
    at most `B` points (in each direction): all but `B` of the `N` possible responses are
    equally likely under both secrets. -/
theorem response_hiding (N B x x' : Nat) (hx : x ≤ B) (hx' : x' ≤ B) :
    ((range N).image (· + x) \ (range N).image (· + x')).card ≤ B ∧
    ((range N).image (· + x') \ (range N).image (· + x)).card ≤ B ∧
    ((range N).image (· + x)).card = N ∧ ((range N).image (· + x')).card = N :=
  ⟨shifted_range_sdiff_card_le N B x x' hx hx', shifted_range_sdiff_card_le N B x' x hx' hx,
   image_add_range_card N x, image_add_range_card N x'⟩

/-- The statistical distance between the uniform distributions on two `N`-element sets is
    `(|A∖A'| + |A'∖A|) / 2N`. -/
theorem statDist_formula (A A' : Finset Nat) (N : Nat) :
    uniformStatDist A A' N = (((A \ A').card + (A' \ A).card : Nat) : ℚ) / (2 * N) :=
  uniformStatDist_eq A A' N

/-- With `B·2^L ≤ N` the statistical distance of the two response distributions is at most
    `2^(-L)`. -/
theorem response_hiding_dist (N B L x x' : Nat) (hx : x ≤ B) (hx' : x' ≤ B)
    (hN : B * 2 ^ L ≤ N) (hN0 : 0 < N) :
    uniformStatDist ((range N).image (· + x)) ((range N).image (· + x')) N ≤ 1 / 2 ^ L :=
  response_statDist_le N B L x x' hx hx' hN hN0

/-- For the system parameters: `N = 2^LmCommit` randomisers, offsets `c·m < B = 2^(Lh+Lm)`,
    and `B · 2^Lstatzk = N`. -/
theorem params_hiding_ratio {P : SysParams} (hP : ParamsSound P) :
    2 ^ (P.Lh + P.Lm) * 2 ^ P.Lstatzk = 2 ^ P.LmCommit := Gabi.params_hiding_ratio hP

/-- Hence for any challenge `c < 2^Lh` and any two attribute exponents `m, m' < 2^Lm` the
    responses `r + c·m` and `r + c·m'` (`r` uniform below `2^LmCommit`) are within statistical
    distance `2^(-Lstatzk)` (80 resp. 128 bits). -/
theorem attribute_response_hiding {P : SysParams} (hP : ParamsSound P) {c m m' : Nat}
    (hc : c < 2 ^ P.Lh) (hm : m < 2 ^ P.Lm) (hm' : m' < 2 ^ P.Lm) :
    uniformStatDist ((range (2 ^ P.LmCommit)).image (· + c * m))
      ((range (2 ^ P.LmCommit)).image (· + c * m')) (2 ^ P.LmCommit) ≤ 1 / 2 ^ P.Lstatzk := by
  have hb : ∀ {k}, k < 2 ^ P.Lm → c * k ≤ 2 ^ (P.Lh + P.Lm) := by
    intro k hk; rw [pow_add]; exact Nat.mul_le_mul hc.le hk.le
  exact response_statDist_le _ (2 ^ (P.Lh + P.Lm)) P.Lstatzk _ _ (hb hm) (hb hm')
    (Gabi.params_hiding_ratio hP).le (by positivity)

end Hiding

/-! ### non-vacuity -/

/-- a default set satisfies the hypotheses `ParamsSound`. -/
example : ∃ P, IsDefaultParams P ∧ ParamsSound P := by
  obtain ⟨P, hP⟩ := Gabi.default_sets_exist.2.1
  exact ⟨P, isDefaultParams_of_lookup hP, Gabi.default_params_sound (isDefaultParams_of_lookup hP)⟩

/-- the range hypotheses of `responses_in_range` / `e_response_in_range` are satisfiable. -/
example : ∃ (P : SysParams) (r c m : Int), ParamsSound P ∧ 0 ≤ r ∧ r < 2 ^ P.LmCommit ∧ 0 ≤ c ∧
    c < 2 ^ P.Lh ∧ 0 ≤ m ∧ m < 2 ^ P.Lm := by
  obtain ⟨P, hP⟩ := Gabi.default_sets_exist.1
  exact ⟨P, 0, 0, 0, Gabi.default_params_sound (isDefaultParams_of_lookup hP), le_refl _, by positivity,
    le_refl _, by positivity, le_refl _, by positivity⟩

/-- `getUndisclosedAttributes`, `disclosureCreateProof`, `timestampContributions` on a small
    instance (5 attributes, positions 1 and 3 disclosed). -/
example : getUndisclosedAttributes [1, 3] 5 = .ok [0, 2, 4] := by decide
example : getUndisclosedAttributes [1, 5] 5 = .error (GoPanic.indexOutOfRange "check[v]") := by decide
example : timestampContributions [10, 11, 12, 13, 14] [1, 3] = [0, 11, 0, 13, 0] := by decide

/-- counting bound on a small instance: windows of length 8 shifted by 1 and 3. -/
example : ((Finset.range 8).image (· + 1) \ (Finset.range 8).image (· + 3)).card = 2 := by decide

end Gabi.C04

#print axioms Gabi.C04.default_params_sound
#print axioms Gabi.C04.derived_params_consistent
#print axioms Gabi.C04.toy_params_unsound
#print axioms Gabi.C04.attrExp_range
#print axioms Gabi.C04.challenge_lt
#print axioms Gabi.C04.responses_in_range
#print axioms Gabi.C04.e_response_in_range
#print axioms Gabi.C04.honest_proof_sizes_ok
#print axioms Gabi.C04.honest_disclosure_sizes_ok
#print axioms Gabi.C04.undisclosed_is_complement
#print axioms Gabi.C04.undisclosed_error_iff
#print axioms Gabi.C04.undisclosed_ok_iff
#print axioms Gabi.C04.proof_shape
#print axioms Gabi.C04.proof_total
#print axioms Gabi.C04.disclosure_proof_shape
#print axioms Gabi.C04.timestamp_independent
#print axioms Gabi.C04.timestamp_entries
#print axioms Gabi.C04.timestamp_hidden_zero
#print axioms Gabi.C04.response_hiding
#print axioms Gabi.C04.statDist_formula
#print axioms Gabi.C04.response_hiding_dist
#print axioms Gabi.C04.attribute_response_hiding
