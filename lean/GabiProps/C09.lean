/-
  C09 — Revocation witnesses under updates.
  "For every history of revocations and every witness issued at any point in it, applying the
   issuer's update messages in any batching, order, repetition or overlap - including one update
   object applied to several witnesses - leaves a non-revoked witness valid against the newest
   accumulator it has been shown and never moves it backwards, while a revoked witness is
   reported as revoked and can never again be made valid against an accumulator from which its
   value was removed. A failed update leaves the witness exactly as it was."

  Property theorems about the executable model `GabiModel.Revocation` (compared output-for-output
  with revocation/api.go and proof.go:276-342 by the correspondence ops of `./check C09`).
  Helper lemmas: `GabiProofs.RevLemmas`; the algebra is done in an arbitrary commutative group
  and transported to `goExp` through `GabiProofs.Bridge` (`(ZMod n)ˣ`).
-/
import GabiModel.Revocation
import GabiProofs.RevLemmas
namespace Gabi.C09
open Gabi Gabi.Rev

/-! ### the algebra of a witness update (any commutative group) -/

/-- `u^e = ν` (old accumulator), `ν'^prod = ν` (`prod` = product of the removed values),
    `a·e + b·prod = 1`: the updated witness `u^b · ν'^a` is a witness for `e` against `ν'`. -/
theorem update_algebra {G : Type*} [CommGroup G] {u ν ν' : G} {e prod a b : ℤ} (hu : u ^ e = ν)
    (hν : ν' ^ prod = ν) (hab : a * e + b * prod = 1) : (u ^ b * ν' ^ a) ^ e = ν' :=
  Rev.update_algebra hu hν hab

/-- the updated witness does not depend on the Bezout pair the gcd routine happens to return. -/
theorem update_algebra_indep {G : Type*} [CommGroup G] {u ν ν' : G} {e prod a b a' b' : ℤ}
    (hu : u ^ e = ν) (hν : ν' ^ prod = ν) (hab : a * e + b * prod = 1)
    (hab' : a' * e + b' * prod = 1) : u ^ b * ν' ^ a = u ^ b' * ν' ^ a' :=
  Rev.update_algebra_indep hu hν hab hab'

/-- **the chain lemma** for an honest history `ν_k = ν_{k-1}^{d_k}`, `d_k·e_k ≡ 1 (mod ord)`,
    `ν₀^ord = 1`: `ν_j ^ (e_{i+1}⋯e_j) = ν_i` for `i ≤ j`. -/
theorem accumulator_chain {G : Type*} [CommGroup G] {ν₀ : G} {ord : ℤ} {es ds : List ℤ}
    (hν : ν₀ ^ ord = 1) (h : InvPairs ord es ds) {i j : ℕ} (hij : i ≤ j) :
    accAt ν₀ ds j ^ window es i j = accAt ν₀ ds i := accAt_window hν h hij

/-- the Bezout step along an honest history, for a value coprime to the removed ones. -/
theorem honest_step {G : Type*} [CommGroup G] {ν₀ u : G} {ord e a b : ℤ} {es ds : List ℤ}
    (hν : ν₀ ^ ord = 1) (h : InvPairs ord es ds) {i j : ℕ} (hij : i ≤ j)
    (hu : u ^ e = accAt ν₀ ds i) (hab : a * e + b * window es i j = 1) :
    (u ^ b * accAt ν₀ ds j ^ a) ^ e = accAt ν₀ ds j := Rev.honest_step hν h hij hu hab

/-- a value coprime to every removed value is coprime to every window product, so a Bezout pair
    exists. -/
theorem bezout_exists {e : ℤ} {es : List ℤ} (h : ∀ x ∈ es, IsCoprime e x) (i j : ℕ) :
    ∃ a b : ℤ, a * e + b * window es i j = 1 := isCoprime_window h i j

/-! ### revoked: no Bezout pair, `revoked` is reported -/

/-- if the witness's own value divides the removed product (it is one of the removed values)
    and is not `±1`, the gcd is not 1. -/
theorem revoked_no_bezout {e prod : Int} (hd : e ∣ prod) (he : e.natAbs ≠ 1) :
    Int.gcd e prod ≠ 1 := gcd_ne_one_of_dvd hd he

/-- … hence no pair `(a, b)` with `a·e + b·prod = 1` exists when `e` is among the values removed
    in the window. -/
theorem revoked_no_pair {e a b : ℤ} {es : List ℤ} {i j : ℕ} (he : e.natAbs ≠ 1)
    (hmem : e ∈ (es.drop i).take (j - i)) : a * e + b * window es i j ≠ 1 :=
  no_bezout_of_removed he hmem

/-- model level: on the path of `Witness.update` that reaches the gcd, a gcd `≠ 1` makes it
    return `revoked`, the witness unchanged. -/
theorem revoked_reported {pk : PublicKey} {w : Witness} {upd upd' : Update} {newAcc : SAcc}
    {prod : Int} (hv : upd.verify pk = some newAcc) (hne : upd.events ≠ [])
    (hidx : w.sacc.index < newAcc.index)
    (hstart : (upd.events.head?.map (·.index)).getD 0 ≤ w.sacc.index + 1)
    (hp : upd.productFrom (w.sacc.index + 1) = some (prod, upd'))
    (hg : (xgcd w.e.toNat prod.toNat).1 ≠ 1) :
    w.update pk upd = (.revoked, w, upd') := update_revoked hv hne hidx hstart hp hg

/-- … in particular when the witness value (`> 1`) divides the positive removed product. -/
theorem revoked_reported_of_dvd {pk : PublicKey} {w : Witness} {upd upd' : Update}
    {newAcc : SAcc} {prod : Int} (hv : upd.verify pk = some newAcc) (hne : upd.events ≠ [])
    (hidx : w.sacc.index < newAcc.index)
    (hstart : (upd.events.head?.map (·.index)).getD 0 ≤ w.sacc.index + 1)
    (hp : upd.productFrom (w.sacc.index + 1) = some (prod, upd'))
    (he : 1 < w.e) (hprod : 0 < prod) (hd : w.e ∣ prod) :
    w.update pk upd = (.revoked, w, upd') :=
  update_revoked hv hne hidx hstart hp (xgcd_ne_one_of_dvd he hprod hd)

/-- an honest update message whose events include the removal of the witness's own value is
    answered with `revoked`; the witness is left exactly as it was. -/
theorem revoked_by_honest_update {pk : PublicKey} {es : List Int} {nu : ℕ → Int}
    (hpos : ∀ x ∈ es, 0 < x) {w : Witness} (he : 1 < w.e) {upd : Update} {frm hi : ℕ}
    (U : HonestUpdate pk es nu upd frm hi) (h1 : frm ≤ w.sacc.index + 1)
    (h2 : w.sacc.index < hi)
    (hmem : w.e ∈ (es.drop w.sacc.index).take (hi - w.sacc.index)) :
    ∃ upd', w.update pk upd = (.revoked, w, upd') := revoked_update hpos he U h1 h2 hmem

/-! ### failure is the identity; the index never decreases; `ok` means valid -/

/-- **a failed update leaves the witness exactly as it was**: every exit of `Witness.update`
    other than `ok` (error, revoked, panic) returns the witness it was given. -/
theorem failed_update_is_identity (pk : PublicKey) (w : Witness) (upd : Update)
    (h : (w.update pk upd).1 ≠ .ok) : (w.update pk upd).2.1 = w :=
  update_not_ok_witness pk w upd h

/-- the witness only ever changes on `ok`, for a verified update whose accumulator is strictly
    newer (greater index, or equal index and later time). -/
theorem changed_only_if_newer {pk : PublicKey} {w : Witness} {upd : Update}
    (h : (w.update pk upd).2.1 ≠ w) :
    (w.update pk upd).1 = .ok ∧ upd.verify pk = some upd.sacc ∧
      (w.sacc.index < upd.sacc.index ∨
        (w.sacc.index = upd.sacc.index ∧ w.sacc.time < upd.sacc.time)) := update_changed h

/-- **never backwards**: whatever update is applied, the index of the accumulator the witness
    carries does not decrease, and its value `e` is untouched. -/
theorem update_never_backwards (pk : PublicKey) (w : Witness) (upd : Update) :
    w.sacc.index ≤ (w.update pk upd).2.1.sacc.index ∧ (w.update pk upd).2.1.e = w.e :=
  update_index_mono pk w upd

/-- **`ok` keeps the witness valid.** In the exit that recomputes `u` validity has been
    re-checked by the code itself; in the exits that keep the witness nothing changes. The one
    remaining exit (same index, later time: only the signed accumulator is replaced) keeps validity
    provided accumulators of equal index carry equal values – which the code does *not* check
    (`same_index_unchecked` shows the hypothesis cannot be dropped). -/
theorem ok_update_valid (pk : PublicKey) (w : Witness) (upd : Update)
    (hok : (w.update pk upd).1 = .ok) (hw : witnessValid pk w = true)
    (hsame : upd.sacc.index = w.sacc.index → w.sacc.time < upd.sacc.time →
      upd.sacc.nu = w.sacc.nu) :
    witnessValid pk (w.update pk upd).2.1 = true := update_ok_valid pk w upd hok hw hsame

/-- whenever `u` is changed, the new witness is valid against the accumulator of the update –
    even if the old one was not. -/
theorem changed_u_valid (pk : PublicKey) (w : Witness) (upd : Update)
    (hok : (w.update pk upd).1 = .ok) (hch : (w.update pk upd).2.1.u ≠ w.u) :
    witnessValid pk (w.update pk upd).2.1 = true := update_changed_valid pk w upd hok hch

/-- **model behaviour outside the property's honest-issuer reading**: an issuer-signed accumulator
    with the same index, a later time and a *different* value is accepted with `ok`, and the
    formerly valid witness is now invalid (`Witness.Update` returns nil without re-verifying).
    An honest issuer never signs two different values for one index. -/
theorem same_index_unchecked :
    witnessValid toyKey toyWitness = true ∧
    (toyWitness.update toyKey toyBadUpdate).1 = .ok ∧
    witnessValid toyKey (toyWitness.update toyKey toyBadUpdate).2.1 = false :=
  Rev.same_index_unchecked

/-! ### one update object, several witnesses -/

/-- **cache coherence**: on an object whose cache (if any) holds the true product for its cached
    start index, `productFrom` returns the true product for the requested start index and leaves
    an object with the same accumulator and events and, again, a coherent cache. -/
theorem cache_coherent (u : Update) (frm : Nat) (hc : CacheOk u) :
    (trueProduct u.events frm = none ∧ u.productFrom frm = none) ∨
    ∃ p u', trueProduct u.events frm = some p ∧ u.productFrom frm = some (p, u') ∧
      u'.sacc = u.sacc ∧ u'.events = u.events ∧ CacheOk u' := productFrom_coherent u frm hc

/-- a freshly received object is coherent. -/
theorem fresh_coherent (sacc : SAcc) (events : List Event) :
    CacheOk { sacc := sacc, events := events } := cacheOk_fresh sacc events

/-- **shared update object**: with a coherent cache the result and the resulting witness are
    those obtained with a fresh copy of the object; the object handed back is coherent and has the
    same accumulator and events. -/
theorem shared_update_object (pk : PublicKey) (w : Witness) (upd : Update) (hc : CacheOk upd) :
    (w.update pk upd).1 = (w.update pk upd.fresh).1 ∧
    (w.update pk upd).2.1 = (w.update pk upd.fresh).2.1 ∧
    (w.update pk upd).2.2.sacc = upd.sacc ∧ (w.update pk upd).2.2.events = upd.events ∧
    CacheOk (w.update pk upd).2.2 :=
  ⟨(update_shared pk w upd hc).1, (update_shared pk w upd hc).2, update_object pk w upd hc⟩

/-- … hence handing one object from witness to witness gives every witness what a fresh copy
    would have given it. -/
theorem shared_update_object_all (pk : PublicKey) (upd : Update) (hc : CacheOk upd)
    (ws : List Witness) :
    (updateAll pk upd ws).1 =
      ws.map (fun w => ((w.update pk upd.fresh).1, (w.update pk upd.fresh).2.1)) :=
  updateAll_eq_fresh pk upd hc ws

/-! ### the main induction: a non-revoked witness tracks the honest history -/

/-- one honest update, any window `frm..hi`, any coherent cache state, applied to a valid witness
    for a value `e > 1` coprime to the values removed in `(idx, hi]`, standing at `idx`:
    * the witness ends valid at `stepIdx idx (frm, hi)` (`= hi` if the update is newer and
      connects, `= idx` otherwise);
    * the call returns `ok`, except when the update does not connect (`idx + 1 < frm`): then
      `err`, witness unchanged;
    * the update object remains an honest update for the same window. -/
theorem nonrevoked_step {pk : PublicKey} {N : ℕ} {ord : Int} {es : List Int} {nu : ℕ → Int}
    (H : Honest pk N ord es nu) {e : Int} (he : 1 < e) {w : Witness} {idx : ℕ}
    (T : TracksAt pk nu e w idx) {upd : Update} {frm hi : ℕ}
    (U : HonestUpdate pk es nu upd frm hi)
    (hcop : idx < hi → frm ≤ idx + 1 → ∀ x ∈ (es.drop idx).take (hi - idx), Int.gcd e x = 1) :
    TracksAt pk nu e (w.update pk upd).2.1 (stepIdx idx (frm, hi)) ∧
    HonestUpdate pk es nu (w.update pk upd).2.2 frm hi ∧
    ((w.update pk upd).1 = .ok ∨
      ((w.update pk upd).1 = .err ∧ idx + 1 < frm ∧ idx < hi ∧ (w.update pk upd).2.1 = w)) :=
  honest_update H he T U hcop

/-- **non-revoked witnesses track the history.** Honest history (`Honest`: modulus, an exponent
    annihilating `ν₀`, positive removed values `es`, accumulators produced by
    `Accumulator.Remove`), a witness for a value `e > 1` coprime to all removed values, valid at
    index `idx`. After *any* list of honest update messages – any windows, any order, repeated,
    overlapping – the witness is valid against the accumulator of the index computed by the index
    machine `stepIdx` (see `index_machine`: it never decreases and jumps exactly to the end of a
    newer connecting window). -/
theorem nonrevoked_tracks {pk : PublicKey} {N : ℕ} {ord : Int} {es : List Int} {nu : ℕ → Int}
    (H : Honest pk N ord es nu) {e : Int} (he : 1 < e) (hcop : ∀ x ∈ es, Int.gcd e x = 1)
    (ups : List (Update × ℕ × ℕ)) (hU : ∀ x ∈ ups, HonestUpdate pk es nu x.1 x.2.1 x.2.2)
    {w : Witness} {idx : ℕ} (T : TracksAt pk nu e w idx) :
    TracksAt pk nu e (applyAll pk w (ups.map (·.1))) ((ups.map (·.2)).foldl stepIdx idx) :=
  honest_sequence H he hcop ups hU T

/-- the index machine never decreases, and jumps exactly to the end of a newer connecting window. -/
theorem index_machine (idx : ℕ) (win : ℕ × ℕ) (wins : List (ℕ × ℕ)) :
    idx ≤ stepIdx idx win ∧ stepIdx idx win ≤ max idx win.2 ∧
    (idx < win.2 → win.1 ≤ idx + 1 → stepIdx idx win = win.2) ∧
    idx ≤ wins.foldl stepIdx idx :=
  ⟨le_stepIdx idx win, stepIdx_le_max idx win,
    fun h1 h2 => by unfold stepIdx; rw [if_pos ⟨h1, h2⟩], le_foldl_stepIdx wins idx⟩

/-- one honest update object handed to several witnesses (each for its own value, at its own
    index, the cache being filled and replaced along the way): every one ends valid where the
    index machine says. -/
theorem nonrevoked_shared {pk : PublicKey} {N : ℕ} {ord : Int} {es : List Int} {nu : ℕ → Int}
    (H : Honest pk N ord es nu) {frm hi : ℕ} (ws : List (Witness × ℕ))
    (hT : ∀ x ∈ ws, 1 < x.1.e ∧ (∀ y ∈ es, Int.gcd x.1.e y = 1) ∧ TracksAt pk nu x.1.e x.1 x.2)
    {upd : Update} (U : HonestUpdate pk es nu upd frm hi) :
    List.Forall₂ (fun (x : Witness × ℕ) (r : UpdateResult × Witness) =>
        TracksAt pk nu x.1.e r.2 (stepIdx x.2 (frm, hi)))
      ws (updateAll pk upd (ws.map (·.1))).1 := honest_shared H ws hT U

/-! ### a revoked witness never gets past its removal -/

/-- the value `e = es[k]` is removed by event `k+1` and is coprime to the values removed before;
    its witness stands at `idx ≤ k`. Any honest update leaves it valid for the accumulator it
    stands at, at an index `≤ k` (`stepIdxRemoved`), and every connecting update that reaches
    beyond `k` is answered with `revoked`. -/
theorem revoked_step {pk : PublicKey} {N : ℕ} {ord : Int} {es : List Int} {nu : ℕ → Int}
    (H : Honest pk N ord es nu) {e : Int} (he : 1 < e) {k : ℕ} (hk : k < es.length)
    (hek : es[k] = e) (hcop : ∀ j, ∀ hj : j < es.length, j < k → Int.gcd e es[j] = 1)
    {w : Witness} {idx : ℕ} (hidx : idx ≤ k) (T : TracksAt pk nu e w idx)
    {upd : Update} {frm hi : ℕ} (U : HonestUpdate pk es nu upd frm hi) :
    TracksAt pk nu e (w.update pk upd).2.1 (stepIdxRemoved k idx (frm, hi)) ∧
    HonestUpdate pk es nu (w.update pk upd).2.2 frm hi ∧
    (k < hi → frm ≤ idx + 1 → (w.update pk upd).1 = .revoked) :=
  removed_update H he hk hek hcop hidx T U

/-- **never again**: after any list of honest updates the witness of a removed value still
    carries an accumulator of index `≤ k`, i.e. one that still contains its value; `Witness.update`
    never attaches it to an accumulator from which its value was removed. (That no *other*
    procedure can produce such a witness is the strong-RSA assumption, outside this model.) -/
theorem revoked_never_passes {pk : PublicKey} {N : ℕ} {ord : Int} {es : List Int} {nu : ℕ → Int}
    (H : Honest pk N ord es nu) {e : Int} (he : 1 < e) {k : ℕ} (hk : k < es.length)
    (hek : es[k] = e) (hcop : ∀ j, ∀ hj : j < es.length, j < k → Int.gcd e es[j] = 1)
    (ups : List (Update × ℕ × ℕ)) (hU : ∀ x ∈ ups, HonestUpdate pk es nu x.1 x.2.1 x.2.2)
    {w : Witness} {idx : ℕ} (hidx : idx ≤ k) (T : TracksAt pk nu e w idx) :
    ∃ idx', idx ≤ idx' ∧ idx' ≤ k ∧ TracksAt pk nu e (applyAll pk w (ups.map (·.1))) idx' :=
  removed_sequence H he hk hek hcop ups hU hidx T

/-! ### non-vacuity: a concrete history satisfying the hypotheses
  `n = 77`, `ord = 15`, `ν₀ = 4`, removed values 7 then 11 (`ν₁ = 53`, `ν₂ = 9`), a witness
  `u = 60` for `e = 13` issued at index 0, the update message for events 1..2. -/

example : Honest toyKey 77 15 [7, 11] toyNu := toy_honest
example : TracksAt toyKey toyNu 13 toyWitness 0 := toy_tracks
example : HonestUpdate toyKey [7, 11] toyNu toyUpdate 1 2 := toy_update
example : CacheOk toyUpdate := toy_update.cache

/-- the toy witness, given the toy update, is valid at index 2 (instance of `nonrevoked_step`). -/
example : TracksAt toyKey toyNu 13 (toyWitness.update toyKey toyUpdate).2.1 2 :=
  (nonrevoked_step toy_honest (by norm_num) toy_tracks toy_update
    (fun _ _ x hx => by
      have : x = 7 ∨ x = 11 := by simpa using hx
      rcases this with rfl | rfl <;> decide)).1

/-- a Bezout pair exists for the toy value 13 and the toy window `7·11`. -/
example : ∃ a b : ℤ, a * 13 + b * window [7, 11] 0 2 = 1 :=
  bezout_exists (e := 13) (es := [7, 11]) (fun x hx => by
    have : x = 7 ∨ x = 11 := by simpa using hx
    rcases this with rfl | rfl <;> exact Int.isCoprime_iff_gcd_eq_one.mpr (by decide)) 0 2

end Gabi.C09

#print axioms Gabi.C09.update_algebra
#print axioms Gabi.C09.update_algebra_indep
#print axioms Gabi.C09.accumulator_chain
#print axioms Gabi.C09.revoked_no_bezout
#print axioms Gabi.C09.revoked_reported
#print axioms Gabi.C09.revoked_by_honest_update
#print axioms Gabi.C09.failed_update_is_identity
#print axioms Gabi.C09.changed_only_if_newer
#print axioms Gabi.C09.update_never_backwards
#print axioms Gabi.C09.ok_update_valid
#print axioms Gabi.C09.changed_u_valid
#print axioms Gabi.C09.same_index_unchecked
#print axioms Gabi.C09.cache_coherent
#print axioms Gabi.C09.shared_update_object
#print axioms Gabi.C09.shared_update_object_all
#print axioms Gabi.C09.nonrevoked_step
#print axioms Gabi.C09.nonrevoked_tracks
#print axioms Gabi.C09.nonrevoked_shared
#print axioms Gabi.C09.revoked_step
#print axioms Gabi.C09.revoked_never_passes
