/-
  C13 — Every true inequality within the documented size limits can be proven, with either
  square-decomposition method, and the proof is reported as proving the requested statement;
  several statements can be combined.

  Property theorems about the proving side of range proofs. Model: GabiModel.Prover
  (`rangeProvable`, `tableLd`: when `NewProofStructure` + `CommitmentsFromSecrets` succeed),
  GabiModel.Proofs (`rangeNewWithParams`, `provesStatement`, `provenStatement`,
  `ProofD.rangeContributions`), GabiModel.ReprProof (`commitmentFromSecrets`,
  `commitmentFromProof`), GabiModel.MathUtil (`sumFourSquaresWith`); compared output-for-output
  with rangeproof/proof.go, rangeproof/splitutils.go and proofs.go by `./check C13`.
  Helper lemmas: GabiProofs.RangeLemmas, GabiProofs.MathUtilLemmas.

  Recorded known finding (C13/three-square-le-at-equality): with the three-square table the
  statement `m ≤ bound` is rescaled to `4m ≤ 4·bound − 2`, i.e. `m ≤ bound − 1`; it cannot be
  proven at `m = bound` (`three_square_le_not_at_equality`).
-/
import GabiModel.Proofs
import GabiModel.Prover
import GabiModel.Generated
import GabiProofs.RangeLemmas
import GabiProofs.MathUtilLemmas
namespace Gabi.C13
open Gabi

/-! ## which statements the prover can commit to -/

/-- **three-square rescaling**: the table splitter proves `4m − (4b − 2) ≥ 0`, which is `m ≥ b`
    – but for `≤` it proves `−(4m − (4b − 2)) ≥ 0`, which is `m ≤ b − 1`, not `m ≤ b`. -/
theorem three_square_rescale (m b : Int) :
    (4 * m - (4 * b - 2) ≥ 0 ↔ m ≥ b) ∧ (-(4 * m - (4 * b - 2)) ≥ 0 ↔ m ≤ b - 1) :=
  ⟨rescale_ge m b, rescale_le m b⟩

/-- **known finding C13/three-square-le-at-equality**: with the three-square table (any size)
    the true statement `m ≤ b` is not provable at `m = b` … -/
theorem three_square_le_not_at_equality (b : Int) (table : Nat) (ht : 0 < table) :
    rangeProvable (-1) 1 b b table = false :=
  rangeProvable_table_le_at_equality b table ht

/-- … while `m ≥ b` at `m = b` is provable as soon as the table has more than two entries, and
    four squares prove `m ≤ b` at `m = b`. -/
theorem at_equality_provable (b : Int) :
    (∀ table, 2 < table → rangeProvable 1 1 b b table = true) ∧ rangeProvable (-1) 1 b b 0 = true :=
  ⟨fun table ht => rangeProvable_table_ge_at_equality b table ht, rangeProvable_four_le_at_equality b⟩

/-- **four squares: every true statement within the limits is provable, and nothing else**:
    the prover succeeds iff the sign is `±1`, the factor fits `int64`, the statement
    `sign·(factor·m − bound) ≥ 0` is true and the difference is below `2^256` (roots of at most
    `l_d = 128` bits). Holds for every integer `m` (hidden attributes are non-negative). -/
theorem four_square_provable (sign : Int) (factor : Nat) (bound m : Int) :
    rangeProvable sign factor bound m 0 = true ↔
      (sign = 1 ∨ sign = -1) ∧ factor ≤ 2 ^ 63 - 1 ∧
      0 ≤ sign * ((factor : Int) * m - bound) ∧ sign * ((factor : Int) * m - bound) < 2 ^ 256 :=
  rangeProvable_four_iff sign factor bound m

/-- non-vacuity / both directions at a concrete point. -/
example : rangeProvable 1 3 10 4 0 = true ∧ rangeProvable 1 3 13 4 0 = false ∧
    rangeProvable (-1) 3 12 4 0 = true := by decide

/-- **a decomposition exists and passes the size check**: every `0 ≤ d < 2^256` is a sum of
    four squares (Lagrange) and every root has at most `128 = Gen.fourSquaresLd` bits – the check
    `dᵢ.BitLen() ≤ l_d` of `CommitmentsFromSecrets`. -/
theorem split_exists (d : Nat) (hd : d < 2 ^ 256) :
    ∃ a b c e : Nat, a ^ 2 + b ^ 2 + c ^ 2 + e ^ 2 = d ∧
      natBitLen a ≤ Gen.fourSquaresLd ∧ natBitLen b ≤ Gen.fourSquaresLd ∧
      natBitLen c ≤ Gen.fourSquaresLd ∧ natBitLen e ≤ Gen.fourSquaresLd :=
  split_exists_nat d 128 (by simpa using hd)

/-- **any correct splitter passes the size check**: whatever decomposition into four
    non-negative squares the splitter returns for `d < 2^256` (`QuadOk`, the specification
    `sumFourSquaresWith_spec` proves for the library's splitter), every root has at most
    `Gen.fourSquaresLd` bits. -/
theorem splitter_output_fits {d : Nat} {q : Quad} (h : QuadOk d q) (hd : d < 2 ^ 256) :
    bitLen q.1 ≤ Gen.fourSquaresLd ∧ bitLen q.2.1 ≤ Gen.fourSquaresLd ∧
    bitLen q.2.2.1 ≤ Gen.fourSquaresLd ∧ bitLen q.2.2.2 ≤ Gen.fourSquaresLd :=
  quadOk_small (n := 128) h (by simpa using hd)

/-- … in particular the library's `SumFourSquares` wrapper, given a correct inner routine. -/
theorem library_splitter_fits (special : Nat → Quad) (d : Nat) (hd : d < 2 ^ 256)
    (hs : ∀ k, k % 4 = 2 → QuadOk k (special k)) :
    let q := sumFourSquaresWith special d
    q.1 ^ 2 + q.2.1 ^ 2 + q.2.2.1 ^ 2 + q.2.2.2 ^ 2 = (d : Int) ∧
    bitLen q.1 ≤ Gen.fourSquaresLd ∧ bitLen q.2.1 ≤ Gen.fourSquaresLd ∧
    bitLen q.2.2.1 ≤ Gen.fourSquaresLd ∧ bitLen q.2.2.2 ≤ Gen.fourSquaresLd := by
  have h := sumFourSquaresWith_spec special d hs
  exact ⟨h.2.2.2.2, splitter_output_fits h hd⟩

/-- **three-square table** with `table > 0` entries (factor 1): `m ≥ bound` is provable iff it is
    true and `4(m − bound) + 2 < table`; `m ≤ bound` is provable iff `m ≤ bound − 1` (sic, the
    known finding) and `4(bound − m) − 2 < table`. The residue condition `≡ 2 (mod 4)` of the
    table is automatically met. -/
theorem table_provable (sign : Int) (bound m : Int) (table : Nat) (ht : 0 < table) :
    rangeProvable sign 1 bound m table = true ↔
      (sign = 1 ∧ bound ≤ m ∧ 4 * (m - bound) + 2 < (table : Int)) ∨
      (sign = -1 ∧ m ≤ bound - 1 ∧ 4 * (bound - m) - 2 < (table : Int)) :=
  rangeProvable_table_iff sign bound m table ht

/-- **table roots pass the size check**: every root `x` of a decomposition of a value `d` the
    table accepts (`d < len`) has fewer than `SquaresTable.Ld()` bits. -/
theorem table_root_fits {x d len : Nat} (hx : x ^ 2 ≤ d) (hd : d < len) : natBitLen x < tableLd len :=
  Gabi.table_root_fits hx hd

/-- `Ld()` of the test-suite table (`GenerateSquaresTable(65535)`, 65536 entries). -/
example : tableLd 65536 = 10 := by decide

/-- the table only supports factor 1. -/
theorem table_needs_factor_one (sign : Int) (factor : Nat) (bound m : Int) (table : Nat)
    (ht : 0 < table) (hf : factor ≠ 1) : rangeProvable sign factor bound m table = false :=
  rangeProvable_table_factor sign factor bound m table ht hf

/-! ## the proof is reported as proving the requested statement -/

/-- **four squares**: the descriptor the honest prover sends for `sign·(factor·m − bound) ≥ 0`
    is `(sign, a = factor, k = bound)`; `ProvesStatement(sign, factor, bound)` is true and
    `ProvenStatement()` returns the request. -/
theorem four_square_reported (p : RangeProof) {sign : Int} (hs : sign = 1 ∨ sign = -1) (factor : Nat)
    (bound : Int) (hlen : p.cs.length = 4) (hsign : p.sign = sign) (ha : p.a = factor)
    (hk : p.k = some bound) :
    p.provesStatement sign factor bound = true ∧ p.provenStatement = some (sign, factor, bound) := by
  constructor
  · unfold RangeProof.provesStatement
    have hns : ¬ (sign ≠ 1 ∧ sign ≠ -1) := by rcases hs with h | h <;> simp [h]
    rw [if_neg hns, hk]
    simp [hlen, hsign, ha]
  · unfold RangeProof.provenStatement
    rw [hk]
    simp [hlen, hsign, ha]

/-- **three squares**: the honest descriptor for `sign·(m − bound) ≥ 0` is
    `(sign, a = 4, k = 4·bound − 2)`; `ProvesStatement(sign, 1, bound)` is true and
    `ProvenStatement()` returns `(sign, 1, bound)`. -/
theorem three_square_reported (p : RangeProof) {sign : Int} (hs : sign = 1 ∨ sign = -1)
    (bound : Int) (hlen : p.cs.length = 3) (hsign : p.sign = sign) (ha : p.a = 4)
    (hk : p.k = some (bound * 4 - 2)) :
    p.provesStatement sign 1 bound = true ∧ p.provenStatement = some (sign, 1, bound) := by
  constructor
  · unfold RangeProof.provesStatement
    have hns : ¬ (sign ≠ 1 ∧ sign ≠ -1) := by rcases hs with h | h <;> simp [h]
    rw [if_neg hns, hk]
    simp [hlen, hsign, ha]
  · unfold RangeProof.provenStatement
    rw [hk]
    simp only [hlen, if_true, Option.map_some, hsign, ha]
    have : (bound * 4 - 2 + 2) / 4 = bound := by omega
    rw [this]

/-- **the verifier accepts the honest descriptor**: within the documented limits (`l_d ≤ Lm`,
    bound of at most `Lm + 64` bits, factor at most `MaxInt64`, 4 squares or 3 squares with
    factor 4) `ExtractStructure` succeeds and returns the prover's structure. -/
theorem honest_descriptor_extracts (p : RangeProof) (index : Int) (pk : PublicKey) (k : Int)
    (hk : p.k = some k) (hld : p.ld ≤ pk.params.Lm) (hbl : bitLen k ≤ pk.params.Lm + 64)
    (hlen : p.cs.length = 4 ∨ (p.cs.length = 3 ∧ p.a = 4)) :
    p.extractStructure index pk = rangeNewWithParams index p.sign p.a k p.cs.length p.ld := by
  unfold RangeProof.extractStructure
  rw [hk]
  simp only [Option.bind_eq_bind, Option.bind_some]
  have : (decide (p.ld > pk.params.Lm) || decide (p.cs.length < 3) || decide (p.cs.length > 4) ||
      decide (bitLen k > pk.params.Lm + 64) || (decide (p.cs.length = 3) && decide (p.a ≠ 4))) = false := by
    rcases hlen with h | ⟨h, h'⟩
    · simp [h]; omega
    · simp [h, h']; omega
  rw [this]
  simp

/-! ## completeness algebra -/

section Algebra
open Gabi.Alg Gabi.QrAlg
variable {G : Type*} [CommGroup G]

/-- **completeness of every `QrStructure` proof** (any commutative group): if the secrets
    satisfy `∏lhs = ∏ base^(power·secret)`, honest responses `randomiser + c·secret` make the
    verifier's reconstruction `(∏lhs)⁻¹^c · ∏ base^(power·response)` equal the prover's commitment
    `∏ base^(power·randomiser)`. -/
theorem qr_complete (s : QrStructure) (B : String → G) (c : ℤ) (secret rand resp : String → ℤ)
    (hrel : Holds s B secret)
    (hresp : ∀ r ∈ s.rhs, resp r.secret = rand r.secret + c * secret r.secret) :
    fromProof s B c resp = fromSecrets s B rand :=
  QrAlg.qr_complete s B c secret rand resp hrel hresp

/-- **special soundness** (for reference; used by C12). -/
theorem qr_special_soundness (s : QrStructure) (B : String → G) (c c' : ℤ) (resp resp' : String → ℤ)
    (h : fromProof s B c resp = fromProof s B c' resp') :
    lhsProd s B ^ (c - c') = rhsProd s B (fun n => resp n - resp' n) :=
  QrAlg.qr_special_soundness s B c c' resp resp' h

/-- **the honest prover's secrets satisfy the range relation**: for a square decomposition
    `Σdᵢ² = sign·(a·m − k)`, commitments `Cᵢ = R^{dᵢ}S^{vᵢ}` and `v5 = Σdᵢvᵢ`,
    `R^{−sign·k} = S^{−v5} · R^{−a·sign·m} · ∏Cᵢ^{dᵢ}`. -/
theorem honest_range_relation {R S : G} (C : ℕ → G) (d v : ℕ → ℤ) (n : ℕ)
    {sign : ℤ} (hs : sign = 1 ∨ sign = -1) (a k m v5 : ℤ)
    (hC : ∀ i < n, C i = R ^ d i * S ^ v i)
    (hsq : ((List.range n).map fun i => d i ^ 2).sum = sign * (a * m - k))
    (hv5 : v5 = ((List.range n).map fun i => d i * v i).sum) :
    R ^ (if sign = 1 then -k else k) =
      S ^ (-v5) * R ^ ((-a * sign) * m) * rep C d (List.range n) :=
  QrAlg.honest_range_relation C d v n hs a k m v5 hC hsq hv5

/-- non-vacuity of `honest_range_relation`: `m = 12 ≥ k = 10`, `2 = 1² + 1² + 0² + 0²`, arbitrary
    `R`, `S` and hiders. -/
example (R S : G) (v : ℕ → ℤ) :
    R ^ (if (1 : ℤ) = 1 then -(10 : ℤ) else 10) =
      S ^ (-(v 0 + v 1)) * R ^ ((-1 * 1) * (12 : ℤ)) *
        rep (fun i => R ^ (if i < 2 then (1 : ℤ) else 0) * S ^ v i) (fun i => if i < 2 then 1 else 0)
          (List.range 4) :=
  QrAlg.honest_range_relation _ (fun i => if i < 2 then 1 else 0) v 4 (Or.inl rfl) 1 10 12 _
    (fun _ _ => rfl) (by decide) (by simp [List.range_succ])

/-- … hence every sub-statement of the structure `rangeNewWithParams` builds. -/
theorem honest_structure_holds (B : String → G) (val : String → ℤ)
    {index sign : Int} {a : Nat} {k : Int} {n ld : Nat} {s : RangeStructure}
    (h : rangeNewWithParams index sign a k n ld = some s)
    (hC : ∀ i < n, B ("C" ++ toString i) =
        B ("R" ++ toString index) ^ val ("d" ++ toString i) * B "S" ^ val ("v" ++ toString i))
    (hsq : ((List.range n).map fun i => val ("d" ++ toString i) ^ 2).sum =
      sign * ((a : ℤ) * val "m" - k))
    (hv5 : val "v5" = ((List.range n).map fun i => val ("d" ++ toString i) * val ("v" ++ toString i)).sum) :
    Holds s.mCorrect B val ∧ ∀ q ∈ s.cRep, Holds q B val :=
  range_structure_complete B val h hC hsq hv5

end Algebra

/-- **the honest proof verifies, on the model's integers**: for invertible bases modulo `N`,
    an honest decomposition and responses `randomiser + c·secret`, the verifier's
    `commitmentFromProof` returns, for `mCorrect` and every `cRep`, exactly the integer the
    prover's `commitmentFromSecrets` produced – so the verifier recomputes the prover's challenge
    hash input. (The size checks of `verifyProofStructure` on honest responses are not covered
    here.) -/
theorem honest_commitments_reconstruct {index sign : Int} {a : Nat} {k : Int} {nS ld : Nat}
    {s : RangeStructure} (h : rangeNewWithParams index sign a k nS ld = some s) {N : ℕ} (hN : 1 < N)
    (c : Int) (bases rnd secrets results : String → Option Int)
    (hb : ∀ q ∈ s.mCorrect :: s.cRep, QrBridge.BasesOk N q bases)
    (hrnd : ∀ q ∈ s.mCorrect :: s.cRep, ∀ r ∈ q.rhs, (rnd r.secret).isSome)
    (hres : ∀ q ∈ s.mCorrect :: s.cRep, ∀ r ∈ q.rhs, (results r.secret).isSome)
    (hresp : ∀ name, QrBridge.intVals results name =
      QrBridge.intVals rnd name + c * QrBridge.intVals secrets name)
    (hC : ∀ i < nS, QrBridge.unitBases N bases ("C" ++ toString i) =
        QrBridge.unitBases N bases ("R" ++ toString index) ^ QrBridge.intVals secrets ("d" ++ toString i) *
          QrBridge.unitBases N bases "S" ^ QrBridge.intVals secrets ("v" ++ toString i))
    (hsq : ((List.range nS).map fun i => QrBridge.intVals secrets ("d" ++ toString i) ^ 2).sum =
      sign * ((a : ℤ) * QrBridge.intVals secrets "m" - k))
    (hv5 : QrBridge.intVals secrets "v5" =
      ((List.range nS).map fun i => QrBridge.intVals secrets ("d" ++ toString i) *
        QrBridge.intVals secrets ("v" ++ toString i)).sum) :
    ∀ q ∈ s.mCorrect :: s.cRep, ∃ v, q.commitmentFromSecrets N bases rnd = .ok v ∧
      q.commitmentFromProof N c bases results = .ok v :=
  range_model_complete h hN c bases rnd secrets results hb hrnd hres hresp hC hsq hv5

/-! ## several statements in one proof -/

/-- **order and combination of the contributions**: a successful `rangeContributions` returns the
    concatenation over `index = 0, 1, …, max hidden index` (in increasing order – the prover's
    loop `for index := 0; index < len(attributes)`) of the per-index parts; the part of an index
    with an entry `index ↦ proofs` is the concatenation, in list order, of the commitments of each
    proof (any number of statements per attribute, any number of attributes), evaluated with
    `MResponse := AResponses[index]`; an index without entry contributes nothing. -/
theorem contribution_order {pk : PublicKey} {p : ProofD} {c : Int}
    {rc : List Int} {rps' : Option RPMap} {rps : RPMap}
    (h : (p.rangeContributions pk c).run = .ok (some (rc, rps')))
    (hrps : p.rangeProofs = some rps) :
    ∃ structs parts, (extractAll pk rps).run = .ok (some structs) ∧
      List.Forall₂ (RangeIndexRel pk p c structs rps) p.rangeIndices parts ∧
      rc = parts.flatten ∧
      p.rangeIndices = (List.range (p.maxAttribute.toNat + 1)).map (fun (i : Nat) => (i : Int)) := by
  obtain ⟨structs, parts, h1, h2, h3⟩ := ProofD.rangeContributions_shape h hrps
  exact ⟨structs, parts, h1, h2, h3, rfl⟩

/-- the meaning of `RangeIndexRel` spelled out (definitional). -/
theorem rangeIndexRel_iff (pk : PublicKey) (p : ProofD) (c : Int)
    (structs : List (Int × List RangeStructure)) (rps : RPMap) (index : Int) (part : List Int) :
    RangeIndexRel pk p c structs rps index part ↔
      (match structs.lookup index, rps.lookup index with
       | some ss, some proofs => ∃ mresp css, p.aResponses.get index = some mresp ∧
           List.Forall₂ (fun (x : RangeStructure × Option RangeProof) cs => ∃ rp, x.2 = some rp ∧
             x.1.verifyProofStructure pk { rp with mResponse := some mresp } = true ∧
             x.1.commitmentsFromProof pk { rp with mResponse := some mresp } c = .ok cs)
             (ss.zip proofs) css ∧ part = css.flatten
       | _, _ => part = []) := Iff.rfl

/-- a proof without range-proof map contributes nothing. -/
theorem no_rangeproofs_no_contribution {pk : PublicKey} {p : ProofD} {c : Int}
    (hrps : p.rangeProofs = none) : (p.rangeContributions pk c).run = .ok (some ([], none)) :=
  ProofD.rangeContributions_none hrps

end Gabi.C13

#print axioms Gabi.C13.three_square_rescale
#print axioms Gabi.C13.three_square_le_not_at_equality
#print axioms Gabi.C13.at_equality_provable
#print axioms Gabi.C13.four_square_provable
#print axioms Gabi.C13.split_exists
#print axioms Gabi.C13.splitter_output_fits
#print axioms Gabi.C13.library_splitter_fits
#print axioms Gabi.C13.table_provable
#print axioms Gabi.C13.table_root_fits
#print axioms Gabi.C13.table_needs_factor_one
#print axioms Gabi.C13.four_square_reported
#print axioms Gabi.C13.three_square_reported
#print axioms Gabi.C13.honest_descriptor_extracts
#print axioms Gabi.C13.qr_complete
#print axioms Gabi.C13.qr_special_soundness
#print axioms Gabi.C13.honest_range_relation
#print axioms Gabi.C13.honest_structure_holds
#print axioms Gabi.C13.honest_commitments_reconstruct
#print axioms Gabi.C13.contribution_order
#print axioms Gabi.C13.rangeIndexRel_iff
#print axioms Gabi.C13.no_rangeproofs_no_contribution
