/-
  C10 — Update messages are authenticated hash chains.
  "Updating a witness, verifying an update message, or prepending older events to one succeeds
   only if the accumulator carries a valid issuer signature for the matching key counter and the
   supplied events form a gap-free, correctly indexed hash chain ending in the event hash signed
   inside that accumulator. Any altered, dropped, inserted, reordered or re-indexed event, any
   substituted hash, accumulator or signature - and any hash that merely shares a prefix with
   the expected one - is rejected, leaving the receiver's state unchanged."

  Property theorems about the executable model `GabiModel.Revocation` (compared output-for-output
  with revocation/api.go by the correspondence ops of `./check C10`). The ECDSA signature on the
  accumulator is abstract in the model (`SAcc.sigOk`). Helper lemmas: `GabiProofs.RevLemmas`.
-/
import GabiModel.Revocation
import GabiProofs.RevLemmas
namespace Gabi.C10
open Gabi Gabi.Rev

/-! ### hashes are compared whole, and are self-delimiting -/

/-- `Hash.Equal` is equality of the whole byte strings. -/
theorem hashEqual_iff (a b : Hash) : hashEqual a b = true ↔ a = b := Rev.hashEqual_iff a b

/-- a hash that merely shares a prefix with the expected one (a truncation or an extension) is
    not equal to it. -/
theorem prefix_not_equal (a t : Hash) (ht : t ≠ []) :
    hashEqual (a ++ t) a = false ∧ hashEqual a (a ++ t) = false := hashEqual_append_false a t ht

/-- `Event.hashEquals h` holds only for the event's own well-formed hash … -/
theorem hashEquals_iff (ev : Event) (h : Hash) :
    ev.hashEquals h = true ↔ hashAlgOk h = true ∧ ev.hash = h := Rev.hashEquals_iff ev h

/-- … so every other byte string – in particular every proper prefix and every proper extension
    of the right hash – is rejected. -/
theorem wrong_hash_rejected (ev : Event) (h : Hash) (hne : h ≠ ev.hash) :
    ev.hashEquals h = false := by
  cases hh : ev.hashEquals h with
  | false => rfl
  | true => exact absurd ((Rev.hashEquals_iff ev h).mp hh).2.symm hne

theorem prefix_rejected (ev : Event) (h t : Hash) (ht : t ≠ []) :
    (ev.hash = h ++ t → ev.hashEquals h = false) ∧
    (ev.hash = h → ev.hashEquals (h ++ t) = false) := by
  constructor
  · intro he
    apply wrong_hash_rejected
    rw [he]; intro hc; exact ht (List.self_eq_append_right.mp hc)
  · intro he
    apply wrong_hash_rejected
    rw [he]; intro hc; exact ht (List.append_right_eq_self.mp hc)

/-- the multihash frame: exactly SHA2-256 code, digest length, digest. -/
theorem hashDecode_spec (h : Hash) (d : List UInt8) :
    hashDecode h = some d ↔
      2 ≤ h.length ∧ ∃ rest, uvarint h = some (sha2_256Code, rest) ∧
        uvarint rest = some (d.length, d) ∧ d.length ≤ 2 ^ 31 - 1 := hashDecode_eq_some_iff h d

/-- for digests shorter than 128 bytes (single-byte varints; SHA-256 has 32) the frame is
    literally `0x12 ‖ len ‖ digest`, and every such string decodes. -/
theorem hashDecode_length {h : Hash} {d : List UInt8} (hd : hashDecode h = some d)
    (hlen : d.length < 128) : h = 0x12 :: d.length.toUInt8 :: d := hashDecode_short hd hlen

theorem hashDecode_frame (d : List UInt8) (hlen : d.length < 128) :
    hashDecode (0x12 :: d.length.toUInt8 :: d) = some d := Rev.hashDecode_frame d hlen

/-- **self-delimiting**: no proper extension – hence no proper truncation – of a well-formed
    hash is well-formed. -/
theorem hash_self_delimiting {h t : Hash} (h1 : hashAlgOk h = true)
    (h2 : hashAlgOk (h ++ t) = true) : t = [] := hashAlgOk_append h1 h2

/-- the hash the model computes for an event is itself well-formed. -/
theorem event_hash_wellformed (ev : Event) : hashAlgOk ev.hash = true := hashAlgOk_eventHash ev

/-! ### the hashed bytes bind the whole event -/

/-- index (8 bytes) ‖ well-formed parent hash ‖ minimal bytes of `E ≥ 0` is injective. -/
theorem event_hash_input_injective {e1 e2 : Event}
    (h1 : hashAlgOk e1.parentHash = true) (h2 : hashAlgOk e2.parentHash = true)
    (p1 : 0 ≤ e1.e) (p2 : 0 ≤ e2.e) (i1 : e1.index < 2 ^ 64) (i2 : e2.index < 2 ^ 64)
    (h : e1.hashBytes = e2.hashBytes) : e1 = e2 :=
  event_hashBytes_injective h1 h2 p1 p2 i1 i2 h

/-- equal event hashes: equal events, or an explicit SHA-256 collision. -/
theorem event_hash_binds {e1 e2 : Event}
    (h1 : hashAlgOk e1.parentHash = true) (h2 : hashAlgOk e2.parentHash = true)
    (p1 : 0 ≤ e1.e) (p2 : 0 ≤ e2.e) (i1 : e1.index < 2 ^ 64) (i2 : e2.index < 2 ^ 64)
    (h : e1.hash = e2.hash) :
    e1 = e2 ∨ (e1.hashBytes ≠ e2.hashBytes ∧
      Sha256.hash e1.hashBytes = Sha256.hash e2.hashBytes) :=
  Rev.event_hash_binds h1 h2 p1 p2 i1 i2 h

/-- the well-formedness requirement on the (first) parent hash is needed: without it two
    different events have the same hashed bytes (one byte moved from the parent hash to `E`). -/
theorem malformed_parent_ambiguous :
    ambiguousEvent1 ≠ ambiguousEvent2 ∧
      ambiguousEvent1.hashBytes = ambiguousEvent2.hashBytes ∧
      hashAlgOk ambiguousEvent1.parentHash = true ∧
      hashAlgOk ambiguousEvent2.parentHash = false := ambiguous_hashBytes

/-! ### what `Update.Verify` / `EventList.Verify` accept -/

/-- **an update verifies only if** the key counter matches, the signature is valid, and the
    events are accepted against the event hash inside the signed accumulator; the accumulator
    returned is the signed one. (And conversely.) -/
theorem verify_update_logic (pk : PublicKey) (u : Update) (acc : SAcc) :
    u.verify pk = some acc ↔
      pk.counter = u.sacc.pkCounter ∧ u.sacc.sigOk = true ∧ acc = u.sacc ∧
        eventsVerify u.events u.sacc.eventHash = true := verify_eq_some_iff pk u acc

/-- a wrong key counter or an invalid signature is rejected whatever the events are. -/
theorem bad_signature_rejected (pk : PublicKey) (u : Update)
    (h : pk.counter ≠ u.sacc.pkCounter ∨ u.sacc.sigOk = false) : u.verify pk = none := by
  cases hv : u.verify pk with
  | none => rfl
  | some acc =>
    obtain ⟨h1, h2, -, -⟩ := (verify_eq_some_iff pk u acc).mp hv
    rcases h with h | h
    · exact absurd h1 h
    · rw [h2] at h; exact absurd h (by simp)

/-- **what an accepted event list is**: empty, or: the last event hashes to the hash in the
    accumulator; the first parent hash is a well-formed hash; every later event carries the
    (well-formed) hash of its predecessor; the indices count up by one from the first – no gap,
    no repetition, no reordering. -/
theorem eventsVerify_spec (evs : List Event) (h : Hash) :
    eventsVerify evs h = true ↔
      evs = [] ∨
      ((∃ last, evs.getLast? = some last ∧ last.hashEquals h = true) ∧
       (∀ f, evs.head? = some f → hashAlgOk f.parentHash = true) ∧
       List.IsChain (fun a b : Event => a.hashEquals b.parentHash = true) evs ∧
       ∀ k (hk : k < evs.length), evs[k].index = (evs.head?.map (·.index)).getD 0 + k) :=
  Rev.eventsVerify_spec evs h

/-- **an accepted chain is bound by the signed hash**: two accepted lists for the same accumulator
    hash (values `≥ 0`, indices `< 2^64`, as every Go value is) are nested – one is a suffix of
    the other – or a SHA-256 collision exists. -/
theorem chain_nested {l1 l2 : List Event} {h : Hash}
    (v1 : eventsVerify l1 h = true) (v2 : eventsVerify l2 h = true)
    (r1 : ∀ e ∈ l1, e.InRange) (r2 : ∀ e ∈ l2, e.InRange) :
    l1 <:+ l2 ∨ l2 <:+ l1 ∨ Sha256Collision := chain_suffix v1 v2 r1 r2

/-- … and two accepted lists of equal length are equal (or a collision exists): any altered,
    inserted-for-dropped, reordered or re-indexed event changes the list and is therefore
    rejected. -/
theorem chain_binds {l1 l2 : List Event} {h : Hash}
    (v1 : eventsVerify l1 h = true) (v2 : eventsVerify l2 h = true)
    (r1 : ∀ e ∈ l1, e.InRange) (r2 : ∀ e ∈ l2, e.InRange) (hlen : l1.length = l2.length) :
    l1 = l2 ∨ Sha256Collision := Rev.chain_binds v1 v2 r1 r2 hlen

/-- tampering with the events of an accepted update (same signed accumulator, as many events,
    but not the same events) is rejected – unless a SHA-256 collision exists. -/
theorem tampered_events_rejected {pk : PublicKey} {u u' : Update} {acc : SAcc}
    (hv : u.verify pk = some acc) (hs : u'.sacc = u.sacc) (hne : u'.events ≠ u.events)
    (hlen : u'.events.length = u.events.length)
    (r : ∀ e ∈ u.events, e.InRange) (r' : ∀ e ∈ u'.events, e.InRange)
    (hnc : ¬ Sha256Collision) : u'.verify pk = none := by
  cases hv' : u'.verify pk with
  | none => rfl
  | some acc' =>
    obtain ⟨-, -, -, v⟩ := (verify_eq_some_iff pk u acc).mp hv
    obtain ⟨-, -, -, v'⟩ := (verify_eq_some_iff pk u' acc').mp hv'
    rw [hs] at v'
    rcases Rev.chain_binds v' v r' r hlen with h | h
    · exact absurd h hne
    · exact absurd h hnc

/-- events can only be dropped from the *front* of an accepted list (giving the update message
    for a later window); any other sublist of different length that is accepted would be a suffix
    too. -/
theorem dropped_event_rejected {l1 l2 : List Event} {h : Hash}
    (v1 : eventsVerify l1 h = true) (r1 : ∀ e ∈ l1, e.InRange) (r2 : ∀ e ∈ l2, e.InRange)
    (hlen : l2.length ≤ l1.length) (hns : ¬ l2 <:+ l1) (hnc : ¬ Sha256Collision) :
    eventsVerify l2 h = false := by
  cases v2 : eventsVerify l2 h with
  | false => rfl
  | true =>
    rcases chain_suffix v1 v2 r1 r2 with h | h | h
    · have := h.eq_of_length (by have := h.length_le; omega)
      subst this; exact absurd List.suffix_rfl hns
    · exact absurd h hns
    · exact absurd h hnc

/-! ### `Witness.Update` and `Update.Prepend`: success needs verification, failure changes nothing -/

/-- `Witness.update` returns `ok` only for an update that verifies (signature, key counter,
    event chain). -/
theorem update_ok_requires_verify {pk : PublicKey} {w : Witness} {upd : Update}
    (h : (w.update pk upd).1 = .ok) :
    pk.counter = upd.sacc.pkCounter ∧ upd.sacc.sigOk = true ∧
      eventsVerify upd.events upd.sacc.eventHash = true := by
  obtain ⟨h1, h2, -, h4⟩ := (verify_eq_some_iff pk upd upd.sacc).mp (update_ok_verified h)
  exact ⟨h1, h2, h4⟩

/-- an update that does not verify: `err`, witness and update object exactly as they were. -/
theorem failed_verify_leaves_state {pk : PublicKey} {w : Witness} {upd : Update}
    (h : upd.verify pk = none) : w.update pk upd = (.err, w, upd) := update_verify_none h

/-- every non-`ok` exit of `Witness.update` returns the witness it was given. -/
theorem failed_update_leaves_witness (pk : PublicKey) (w : Witness) (upd : Update)
    (h : (w.update pk upd).1 ≠ .ok) : (w.update pk upd).2.1 = w :=
  update_not_ok_witness pk w upd h

/-- **`Prepend` is atomic**: it either fails (`none`: the model returns no new state, the update
    is the old one) or returns an update with the *same* signed accumulator whose event list
    `evs ++ (a suffix of the old events)` has been verified against that accumulator's event
    hash; prepending nothing returns the update itself. -/
theorem prepend_atomic {u u' : Update} {evs : List Event} (h : u.prepend evs = some u') :
    u'.sacc = u.sacc ∧
      ((evs = [] ∧ u' = u) ∨
       (evs ≠ [] ∧ eventsVerify u'.events u.sacc.eventHash = true ∧
         ∃ m, m ≤ u.events.length ∧ u'.events = evs ++ u.events.drop m)) := prepend_some h

/-- if the update had been verified before (as `Prepend` presupposes), the result verifies. -/
theorem prepend_verified {pk : PublicKey} {u u' : Update} {evs : List Event} {acc : SAcc}
    (hv : u.verify pk = some acc) (h : u.prepend evs = some u') : u'.verify pk = some acc := by
  obtain ⟨h1, h2, h3, h4⟩ := (verify_eq_some_iff pk u acc).mp hv
  obtain ⟨hs, hc⟩ := prepend_some h
  rw [verify_eq_some_iff, hs]
  refine ⟨h1, h2, h3, ?_⟩
  rcases hc with ⟨-, rfl⟩ | ⟨-, hev, -⟩
  · exact h4
  · exact hev

/-- a prepended list that does not produce an accepted chain is refused. -/
theorem failed_prepend_leaves_state {u : Update} {evs : List Event} (hne : evs ≠ [])
    (hbad : ∀ m, m ≤ u.events.length →
      eventsVerify (evs ++ u.events.drop m) u.sacc.eventHash = false) :
    u.prepend evs = none := by
  cases h : u.prepend evs with
  | none => rfl
  | some u' =>
    obtain ⟨-, hc⟩ := prepend_some h
    rcases hc with ⟨h1, -⟩ | ⟨-, hev, m, hm, hm'⟩
    · exact absurd h1 hne
    · rw [hm', hbad m hm] at hev; exact absurd hev (by simp)

/-! ### non-vacuity -/

/-- an accepted two-event update (the toy history of `GabiProofs.RevLemmas`). -/
example : toyUpdate.verify toyKey = some toyUpdate.sacc := toy_update.verified

example : eventsVerify toyUpdate.events toyUpdate.sacc.eventHash = true :=
  ((verify_update_logic toyKey toyUpdate toyUpdate.sacc).mp toy_update.verified).2.2.2

example : ∀ e ∈ toyUpdate.events, e.InRange := by
  intro e he
  have : e = toyEv1 ∨ e = toyEv2 := by simpa [toyUpdate] using he
  rcases this with rfl | rfl <;> exact ⟨by decide, by decide⟩

example : hashAlgOk toyEv0.parentHash = true := by decide

end Gabi.C10

#print axioms Gabi.C10.hashEqual_iff
#print axioms Gabi.C10.prefix_not_equal
#print axioms Gabi.C10.prefix_rejected
#print axioms Gabi.C10.hashDecode_length
#print axioms Gabi.C10.hash_self_delimiting
#print axioms Gabi.C10.event_hash_input_injective
#print axioms Gabi.C10.event_hash_binds
#print axioms Gabi.C10.malformed_parent_ambiguous
#print axioms Gabi.C10.verify_update_logic
#print axioms Gabi.C10.bad_signature_rejected
#print axioms Gabi.C10.eventsVerify_spec
#print axioms Gabi.C10.chain_nested
#print axioms Gabi.C10.chain_binds
#print axioms Gabi.C10.tampered_events_rejected
#print axioms Gabi.C10.dropped_event_rejected
#print axioms Gabi.C10.update_ok_requires_verify
#print axioms Gabi.C10.failed_verify_leaves_state
#print axioms Gabi.C10.failed_update_leaves_witness
#print axioms Gabi.C10.prepend_atomic
#print axioms Gabi.C10.prepend_verified
#print axioms Gabi.C10.failed_prepend_leaves_state
