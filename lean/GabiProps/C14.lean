/-
  C14 — Keyshare protocol.
  Property theorems about the executable model GabiModel.Keyshare (the keyshare server's second
  move `KeyshareResponse`, keyshare.go:152-200, and the randomiser length rule of
  `NewKeyshareCommitments`, keyshare.go:215-251) and the abstract group algebra of the merged
  proofs (GabiProofs.GroupAlgebra). The CBOR encoding + SHA-256 comparison of `h_W` is external:
  its outcome is the parameter `hashMatches`. Helper lemmas: GabiProofs.MiscLemmas.
-/
import GabiModel.Keyshare
import GabiProofs.MiscLemmas
import GabiProofs.GroupAlgebra
import GabiProofs.NumLemmas
import GabiProofs.DerLemmas
namespace Gabi.C14
open Gabi Gabi.Misc

/-! ### when does the server release a response -/

/-- A response `(c, s)` is released **iff** the challenge inputs of the second message hash to
    the value committed in the first, every key id in the inputs is known to the server, every
    per-input contribution can be computed (`R₀` exists, `R₀^rnd mod n` is defined), `c` is the
    Fiat–Shamir challenge over the flattened contributions with context defaulting to 1, and
    `s = rnd + c·secret + userResponse`. `ksContrib` is the model's per-input contribution:
    `[value, commitment, others…]` for inputs without key, `[value, commitment·R₀^rnd mod n,
    others…]` for key-bound inputs. -/
theorem server_release_logic (keys : List (String × PublicKey)) (secret rnd : Int) (hashMatches : Bool)
    (ctx : Option Int) (nonce resp : Int) (issig : Bool) (inputs : List KsInput) (c : Nat) (s : Int) :
    keyshareResponse keys secret rnd hashMatches ctx nonce resp issig inputs = some (c, s) ↔
      hashMatches = true ∧
      (∀ i ∈ inputs, ∀ id, i.keyId = some id → (keys.lookup id).isSome = true) ∧
      ∃ contribs, inputs.mapM (ksContrib keys rnd) = some contribs ∧
        c = createChallenge (ctx.getD 1) nonce contribs.flatten issig ∧
        s = rnd + (c : Int) * secret + resp :=
  keyshareResponse_eq_some_iff keys secret rnd hashMatches ctx nonce resp issig inputs c s

/-- the per-input contribution, spelled out. -/
theorem contribution_spec (keys : List (String × PublicKey)) (rnd : Int) (i : KsInput) :
    (i.keyId = none → ksContrib keys rnd i = some (i.value :: i.commitment :: i.others)) ∧
    (∀ id pk r0 w, i.keyId = some id → keys.lookup id = some pk → pk.r[0]? = some r0 →
        goExp r0 rnd pk.n = some w →
        ksContrib keys rnd i = some (i.value :: (i.commitment * w % pk.n) :: i.others)) :=
  ⟨fun h => ksContrib_none_key h, fun _ _ _ _ h1 h2 h3 h4 => ksContrib_some_key h1 h2 h3 h4⟩

/-- Hash mismatch ⇒ error, no response — whatever the other inputs are. -/
theorem no_release_on_mismatch (keys : List (String × PublicKey)) (secret rnd : Int)
    (ctx : Option Int) (nonce resp : Int) (issig : Bool) (inputs : List KsInput) :
    keyshareResponse keys secret rnd false ctx nonce resp issig inputs = none :=
  keyshareResponse_hash_mismatch keys secret rnd ctx nonce resp issig inputs

/-- An input naming a key the server does not know ⇒ error, no response (even when the hash
    matches). -/
theorem no_release_unknown_key (keys : List (String × PublicKey)) (secret rnd : Int) (hashMatches : Bool)
    (ctx : Option Int) (nonce resp : Int) (issig : Bool) (inputs : List KsInput)
    (i : KsInput) (hi : i ∈ inputs) (id : String) (hid : i.keyId = some id)
    (hk : keys.lookup id = none) :
    keyshareResponse keys secret rnd hashMatches ctx nonce resp issig inputs = none :=
  keyshareResponse_unknown_key keys secret rnd hashMatches ctx nonce resp issig inputs i hi id hid hk

/-- The response never depends on the secret unless it is released: in particular the output
    is the same error for every secret when the hash does not match. -/
theorem mismatch_independent_of_secret (keys : List (String × PublicKey)) (secret secret' rnd : Int)
    (ctx : Option Int) (nonce resp : Int) (issig : Bool) (inputs : List KsInput) :
    keyshareResponse keys secret rnd false ctx nonce resp issig inputs =
    keyshareResponse keys secret' rnd false ctx nonce resp issig inputs := by
  rw [no_release_on_mismatch, no_release_on_mismatch]

/-! ### both sides compute the same challenge -/

/-- If `total i` is the commitment that ends up in the merged proof of input `i` – the user's
    commitment times the server's `R₀^rnd` (mod `n`) for every key-bound input, the user's own
    commitment otherwise – then the server releases, and its challenge is the hash over
    `[value_i, total_i, others_i…]`, i.e. exactly the list a verifier's
    `ProofList.challengeContributions` recomputes for the merged proofs. -/
theorem same_challenge (keys : List (String × PublicKey)) (secret rnd : Int)
    (ctx : Option Int) (nonce resp : Int) (issig : Bool) (inputs : List KsInput)
    (total : KsInput → Int)
    (ht : ∀ i ∈ inputs, match i.keyId with
      | none => total i = i.commitment
      | some id => ∃ pk r0 w, keys.lookup id = some pk ∧ pk.r[0]? = some r0 ∧
          goExp r0 rnd pk.n = some w ∧ total i = i.commitment * w % pk.n) :
    keyshareResponse keys secret rnd true ctx nonce resp issig inputs =
      some (createChallenge (ctx.getD 1) nonce
              (inputs.map fun i => i.value :: total i :: i.others).flatten issig,
            rnd + (createChallenge (ctx.getD 1) nonce
              (inputs.map fun i => i.value :: total i :: i.others).flatten issig : Int) * secret + resp) :=
  keyshareResponse_same_challenge keys secret rnd ctx nonce resp issig inputs total ht

/-- The same with the exponentiation spelled out for a positive modulus and a non-negative
    randomiser: `W_i = comm_i · (R₀^rnd mod n) mod n`. -/
theorem same_challenge_explicit (keys : List (String × PublicKey)) (secret rnd : Int) (hrnd : 0 ≤ rnd)
    (ctx : Option Int) (nonce resp : Int) (issig : Bool) (inputs : List KsInput)
    (pkOf : KsInput → PublicKey) (r0Of : KsInput → Int)
    (hk : ∀ i ∈ inputs, ∀ id, i.keyId = some id →
      keys.lookup id = some (pkOf i) ∧ (pkOf i).r[0]? = some (r0Of i) ∧ 0 < (pkOf i).n)
    (c : Nat) (s : Int)
    (h : keyshareResponse keys secret rnd true ctx nonce resp issig inputs = some (c, s)) :
    c = createChallenge (ctx.getD 1) nonce
          (inputs.map fun i => i.value ::
            (match i.keyId with
             | none => i.commitment
             | some _ => i.commitment * (r0Of i ^ rnd.toNat % (pkOf i).n) % (pkOf i).n) ::
            i.others).flatten issig := by
  rw [same_challenge keys secret rnd ctx nonce resp issig inputs
    (fun i => match i.keyId with
             | none => i.commitment
             | some _ => i.commitment * (r0Of i ^ rnd.toNat % (pkOf i).n) % (pkOf i).n)] at h
  · exact (Prod.mk.inj (Option.some.inj h)).1.symm
  · intro i hi
    cases hid : i.keyId with
    | none => simp only
    | some id =>
      obtain ⟨h1, h2, h3⟩ := hk i hi id hid
      exact ⟨pkOf i, r0Of i, _, h1, h2, goExp_nonneg _ _ _ h3 hrnd, rfl⟩

/-- The challenge binds the contribution list (up to a SHA-256 collision): if the server's
    challenge equals the one a verifier computes from another list then the lists agree. -/
theorem challenge_binds {ctx ctx' n n' : Int} {cs cs' : List Int} {b b' : Bool}
    (hl : (hashCommitInput (ctx :: cs ++ [n]) b).length < 256 ^ 126)
    (hl' : (hashCommitInput (ctx' :: cs' ++ [n']) b').length < 256 ^ 126)
    (h : createChallenge ctx n cs b = createChallenge ctx' n' cs' b') :
    (ctx = ctx' ∧ cs = cs' ∧ n = n' ∧ b = b') ∨
      (hashCommitInput (ctx :: cs ++ [n]) b ≠ hashCommitInput (ctx' :: cs' ++ [n']) b' ∧
        Sha256.hash (hashCommitInput (ctx :: cs ++ [n]) b) =
          Sha256.hash (hashCommitInput (ctx' :: cs' ++ [n']) b')) :=
  createChallenge_binds hl hl' h

/-! ### the merged proofs verify for secret = user share + server share -/

section Algebra
variable {G : Type*} [CommGroup G] {ι : Type*}
open Gabi.Alg

/-- Disclosure proof: the credential is signed on `m_u + ks`; user randomiser `r_u`, server
    randomiser `w`; the merged secret-key response `(r_u + c·m_u) + (w + c·ks)` makes the
    verifier's reconstruction equal the merged commitment `T_user · R₀^w`. -/
theorem joint_complete_disclosure {A' S Z : G} (R : ι → G) (i0 : ι) (D H : List ι) (a m rr : ι → ℤ)
    {e v' eC vC c E0 mu ks ru w : ℤ}
    (hsig : A' ^ e * rep R a D * (R i0 ^ (mu + ks) * rep R m H) * S ^ v' = Z) :
    (Z / (A' ^ E0 * rep R a D)) ^ (-c) * A' ^ (eC + c * (e - E0)) * S ^ (vC + c * v') *
        (R i0 ^ ((ru + c * mu) + (w + c * ks)) * rep R (fun j => rr j + c * m j) H)
      = (A' ^ eC * S ^ vC * (R i0 ^ ru * rep R rr H)) * R i0 ^ w :=
  keyshare_proofD R i0 D H a m rr hsig

/-- Issuance proof `ProofU`: `U = U_user · R₀^ks`, merged commitment `Ũ_user · R₀^w`. -/
theorem joint_complete_issuance {S R0 : G} (R : ι → G) (L : List ι) (m mt : ι → ℤ)
    {v' vt c mu ks ru w : ℤ} :
    ((S ^ v' * R0 ^ mu * rep R m L) * R0 ^ ks) ^ (-c) * S ^ (vt + c * v') *
        R0 ^ ((ru + c * mu) + (w + c * ks)) * rep R (fun j => mt j + c * m j) L
      = (S ^ vt * R0 ^ ru * rep R mt L) * R0 ^ w :=
  keyshare_proofU R L m mt

/-- The server's own part: `P = R₀^ks`, `W = R₀^w`, response `w + c·ks`. -/
theorem joint_complete_server {R0 : G} {ks w c : ℤ} :
    (R0 ^ ks) ^ (-c) * R0 ^ (w + c * ks) = R0 ^ w := keyshare_server_complete

/-- The model's released response *is* the merged response of the algebra: with the user's
    response `r_u + c·m_u` the server returns `(r_u + c·m_u) + (w + c·ks)`. -/
theorem released_response_is_merged (keys : List (String × PublicKey)) (ks w : Int) (hm : Bool)
    (ctx : Option Int) (nonce ru mu : Int) (issig : Bool) (inputs : List KsInput) (c : Nat) (s : Int)
    (h : keyshareResponse keys ks w hm ctx nonce (ru + c * mu) issig inputs = some (c, s)) :
    s = (ru + c * mu) + (w + c * ks) := by
  obtain ⟨_, _, _, _, _, hs⟩ := (server_release_logic _ _ _ _ _ _ _ _ _ _ _).mp h
  rw [hs]; ring

end Algebra

/-! ### randomiser length -/

/-- `NewKeyshareCommitments` picks the 1024-bit `LmCommit` as soon as one 1024-bit key takes
    part (and refuses secrets longer than `Lm(1024) - 1` bits), the 2048-bit one otherwise. -/
theorem randomizer_length_ok (keyBits : List Nat) (secretBits lm lc1024 lc2048 : Nat) :
    (1024 ∈ keyBits → secretBits ≤ lm - 1 →
      keyshareRandomizerLength keyBits secretBits lm lc1024 lc2048 = some lc1024) ∧
    (1024 ∈ keyBits → lm - 1 < secretBits →
      keyshareRandomizerLength keyBits secretBits lm lc1024 lc2048 = none) ∧
    (1024 ∉ keyBits →
      keyshareRandomizerLength keyBits secretBits lm lc1024 lc2048 = some lc2048) := by
  unfold keyshareRandomizerLength
  refine ⟨fun h1 h2 => ?_, fun h1 h2 => ?_, fun h1 => ?_⟩
  · have : keyBits.contains 1024 = true := by simpa using h1
    rw [if_pos this, if_neg (by omega)]
  · have : keyBits.contains 1024 = true := by simpa using h1
    rw [if_pos this, if_pos (by omega)]
  · have : ¬ keyBits.contains 1024 = true := by simpa using h1
    rw [if_neg this]

/-- the regenerated parameters the rule is applied to. -/
theorem default_lengths :
    (defaultSysParams 1024).map (fun P => (P.Lm, P.LmCommit)) = some (256, 592) ∧
    (defaultSysParams 2048).map (fun P => (P.Lm, P.LmCommit)) = some (256, 640) ∧
    (defaultSysParams 4096).map (fun P => (P.Lm, P.LmCommit)) = some (512, 896) := by decide

set_option exponentiation.threshold 1024

/-- **General bound.** Server randomiser `< 2^L`, challenge `< 2^256`, server secret
    `< 2^255` (`Lm(1024) - 1` bits), user response `r_u + c·m_u` with the user's randomiser
    `< 2^592` (prooflist.go:144 always uses `LmCommit(1024)`) and user secret `< 2^255`:
    the total response is below `2^L + 2^592 + 2^512`. -/
theorem total_response_bound (L : Nat) {rnd c ks ru mu : Int}
    (hrnd : rnd < 2 ^ L) (hc0 : 0 ≤ c) (hc : c < 2 ^ 256)
    (hks0 : 0 ≤ ks) (hks : ks < 2 ^ 255) (hru : ru < 2 ^ 592) (hmu0 : 0 ≤ mu) (hmu : mu < 2 ^ 255) :
    rnd + c * ks + (ru + c * mu) < 2 ^ L + 2 ^ 592 + 2 ^ 512 := by
  have h1 : c * ks < 2 ^ (256 + 255) := mul_lt_two_pow hc0 hks0 hc hks
  have h2 : c * mu < 2 ^ (256 + 255) := mul_lt_two_pow hc0 hmu0 hc hmu
  have : (2 : Int) ^ 512 = 2 ^ (256 + 255) + 2 ^ (256 + 255) := by norm_num
  omega

/-- **No 1024-bit key takes part** (`L = LmCommit(2048) = 640`): the total response always
    fits the verifier's range `≤ 2^(LmCommit+1) - 1` of a 2048-bit key (and a fortiori of a
    4096-bit key, `LmCommit = 896`). -/
theorem total_response_fits_2048 {rnd c ks ru mu : Int}
    (hrnd : rnd < 2 ^ 640) (hc0 : 0 ≤ c) (hc : c < 2 ^ 256)
    (hks0 : 0 ≤ ks) (hks : ks < 2 ^ 255) (hru : ru < 2 ^ 592) (hmu0 : 0 ≤ mu) (hmu : mu < 2 ^ 255) :
    rnd + c * ks + (ru + c * mu) ≤ 2 ^ (640 + 1) - 1 := by
  have := total_response_bound 640 hrnd hc0 hc hks0 hks hru hmu0 hmu
  have : (2 : Int) ^ 640 + 2 ^ 592 + 2 ^ 512 ≤ 2 ^ (640 + 1) - 1 := by norm_num
  omega

/-- **A 1024-bit key takes part** (`L = LmCommit(1024) = 592`): the provable bound is
    `2^593 + 2^512`, which is *above* the verifier's limit `2^593 - 1` … -/
theorem total_response_bound_1024 {rnd c ks ru mu : Int}
    (hrnd : rnd < 2 ^ 592) (hc0 : 0 ≤ c) (hc : c < 2 ^ 256)
    (hks0 : 0 ≤ ks) (hks : ks < 2 ^ 255) (hru : ru < 2 ^ 592) (hmu0 : 0 ≤ mu) (hmu : mu < 2 ^ 255) :
    rnd + c * ks + (ru + c * mu) < 2 ^ 593 + 2 ^ 512 := by
  have := total_response_bound 592 hrnd hc0 hc hks0 hks hru hmu0 hmu
  have : (2 : Int) ^ 592 + 2 ^ 592 + 2 ^ 512 = 2 ^ 593 + 2 ^ 512 := by norm_num
  omega

/-- … it fits whenever the two randomisers leave `2^512` of head-room (for uniform 592-bit
    randomisers this fails with probability about `2^-161`) … -/
theorem total_response_fits_1024 {rnd c ks ru mu : Int}
    (hsum : rnd + ru + 2 ^ 512 ≤ 2 ^ 593) (hc0 : 0 ≤ c) (hc : c < 2 ^ 256)
    (hks0 : 0 ≤ ks) (hks : ks < 2 ^ 255) (hmu0 : 0 ≤ mu) (hmu : mu < 2 ^ 255) :
    rnd + c * ks + (ru + c * mu) ≤ 2 ^ (592 + 1) - 1 := by
  have h1 : c * ks < 2 ^ (256 + 255) := mul_lt_two_pow hc0 hks0 hc hks
  have h2 : c * mu < 2 ^ (256 + 255) := mul_lt_two_pow hc0 hmu0 hc hmu
  have : (2 : Int) ^ 512 = 2 ^ (256 + 255) + 2 ^ (256 + 255) := by norm_num
  have : (2 : Int) ^ (592 + 1) = 2 ^ 593 := by norm_num
  omega

/-- … and it does **not** always fit: admissible values (all hypotheses of
    `total_response_bound_1024` hold) whose total exceeds `2^593 - 1`, so that
    `ProofD.correctResponseSizes` of a 1024-bit key rejects the honest joint proof. -/
theorem total_response_can_overflow_1024 :
    ∃ rnd c ks ru mu : Int, 0 ≤ rnd ∧ rnd < 2 ^ 592 ∧ 0 ≤ c ∧ c < 2 ^ 256 ∧ 0 ≤ ks ∧ ks < 2 ^ 255 ∧
      0 ≤ ru ∧ ru < 2 ^ 592 ∧ 0 ≤ mu ∧ mu < 2 ^ 255 ∧
      2 ^ (592 + 1) - 1 < rnd + c * ks + (ru + c * mu) :=
  ⟨2 ^ 592 - 1, 1, 1, 2 ^ 592 - 1, 1, by norm_num, by norm_num, by norm_num, by norm_num,
   by norm_num, by norm_num, by norm_num, by norm_num, by norm_num, by norm_num, by norm_num⟩

/-! ### non-vacuity -/

/-- a toy key: `n = 35`, `R₀ = 4`. -/
def toyPk : PublicKey :=
  { n := 35, z := 9, s := 11, g := none, h := none, r := [4, 16], counter := 0,
    params := SysParams.ofBase toyBase, hasEcdsa := false, issuer := "toy" }

example : ∃ c s, keyshareResponse [("k", toyPk)] 3 5 true none 7 100 false
    [⟨some "k", 2, 6, [8]⟩, ⟨none, 1, 2, []⟩] = some (c, s) := by
  refine ⟨_, _, same_challenge [("k", toyPk)] 3 5 none 7 100 false _
    (fun i => match i.keyId with | none => i.commitment | some _ => i.commitment * (4 ^ 5 % 35) % 35) ?_⟩
  intro i hi
  simp only [List.mem_cons, List.not_mem_nil, or_false] at hi
  rcases hi with rfl | rfl
  · exact ⟨toyPk, 4, _, rfl, rfl, goExp_nonneg 4 5 35 (by decide) (by decide), rfl⟩
  · rfl

example : keyshareRandomizerLength [2048, 1024] 255 256 592 640 = some 592 := by decide
example : keyshareRandomizerLength [2048, 1024] 256 256 592 640 = none := by decide
example : keyshareRandomizerLength [2048, 4096] 300 256 592 640 = some 640 := by decide

end Gabi.C14

#print axioms Gabi.C14.server_release_logic
#print axioms Gabi.C14.contribution_spec
#print axioms Gabi.C14.no_release_on_mismatch
#print axioms Gabi.C14.no_release_unknown_key
#print axioms Gabi.C14.same_challenge
#print axioms Gabi.C14.same_challenge_explicit
#print axioms Gabi.C14.challenge_binds
#print axioms Gabi.C14.joint_complete_disclosure
#print axioms Gabi.C14.joint_complete_issuance
#print axioms Gabi.C14.joint_complete_server
#print axioms Gabi.C14.released_response_is_merged
#print axioms Gabi.C14.randomizer_length_ok
#print axioms Gabi.C14.default_lengths
#print axioms Gabi.C14.total_response_bound
#print axioms Gabi.C14.total_response_fits_2048
#print axioms Gabi.C14.total_response_bound_1024
#print axioms Gabi.C14.total_response_fits_1024
#print axioms Gabi.C14.total_response_can_overflow_1024
