/-
  C08 — Malformed proof lists are rejected with a verdict, never a panic.
  Property theorems about the executable model GabiModel.Proofs (compared output-for-output with
  proofs.go / prooflist.go / revocation/proof.go / rangeproof/proof.go by `./check C08`).
  In the model a Go panic is the `.error` outcome of `GoM = Except GoPanic`, an `error` return is
  `failure` of `GoE`, and the decoded proof types carry `Option` in every nil-able position, so
  "every syntactically decodable proof" is "every value of `ProofD` / `ProofU`".
  Helper lemmas: GabiProofs.VerifyLogic.

  FINDING (see `verifyD_panics_without_units`): `reconstructZ` multiplies by
  `new(big.Int).Exp(R_i, a_i, N)` without a nil check; for a *negative* disclosed attribute and a
  base `R_i` that is not a unit modulo `N` Go's `Exp` returns nil and the multiplication panics.
  `PublicKey.WellFormed` (bases in `(0,n)`) does not exclude this; a key whose bases are units
  (every honestly generated key: `R_i ∈ QR_n`) does. The totality theorems for disclosure proofs
  therefore assume `Int.gcd R_i N = 1` for all bases (or, alternatively, non-negative disclosed
  attributes).
-/
import GabiModel.Proofs
import GabiProofs.VerifyLogic
namespace Gabi.C08
open Gabi

/-! ### issuance proofs (`ProofU`) -/

/-- `ProofU.Verify` returns a verdict for every decoded value and every key (no hypothesis on
    the key at all): missing `U`, `c`, responses, nil or out-of-range `m_user_responses` keys. -/
theorem verifyU_total (pk : PublicKey) (p : ProofU) (ctx nonce : Int) :
    ∃ b, p.verify pk ctx nonce = .ok b :=
  ProofU.verify_isOk pk p ctx nonce

/-- … and a `ProofU` that is not well-formed for the key is rejected. -/
theorem malformedU_rejected (pk : PublicKey) (p : ProofU) (ctx nonce : Int)
    (h : ¬ p.wellFormed pk) : p.verify pk ctx nonce = .ok false := by
  have h' : p.wellFormed pk = false := by simpa using h
  simp [ProofU.verify, ProofU.challengeContribution, h']
  rfl

/-! ### disclosure proofs (`ProofD`) -/

/-- A `ProofD` that is not well-formed for the key (missing/null field, index outside the key's
    bases or negative, index both disclosed and hidden, secret key not hidden, range proof on a
    non-hidden index or nil range proof) is rejected — for every key, oracle and choice. -/
theorem malformedD_rejected (o : SigOracle) (kid : String) (pk : PublicKey) (p : ProofD)
    (ctx nonce : Int) (issig : Bool) (i1 i2 : Int) (h : ¬ p.wellFormed pk) :
    p.verifyWith o kid pk ctx nonce issig i1 i2 = .ok false := by
  have h' : p.wellFormed pk = false := by simpa using h
  simp [ProofD.verifyWith, ProofD.challengeContribution, h']
  rfl

/-- Most general form of totality for `ProofD.Verify`: the only dereference that well-formedness
    does not guard is the result of `Exp(R_i, a_i, N)` in `reconstructZ`; if those exponentiations
    have results (`ProofD.ExpSafe`), verification returns a verdict. Covers partial, misplaced
    and inconsistent non-revocation and range sub-proofs, and every choice `i1`, `i2` of
    `revocationAttrIndex` (also choices that are not candidates). -/
theorem verifyD_total_of_expSafe (o : SigOracle) (kid : String) (pk : PublicKey) (p : ProofD)
    (ctx nonce : Int) (issig : Bool) (i1 i2 : Int)
    (hs : p.wellFormed pk = true → p.ExpSafe pk) :
    ∃ b, p.verifyWith o kid pk ctx nonce issig i1 i2 = .ok b :=
  ProofD.verifyWith_isOk o kid pk p ctx nonce issig i1 i2 hs

/-- Totality for keys whose bases are units modulo `n` (true for every honestly generated key;
    this is the "well-formed public key" of the property). No other hypothesis: the proof is an
    arbitrary decoded value. -/
theorem verifyD_total (o : SigOracle) (kid : String) (pk : PublicKey) (p : ProofD)
    (ctx nonce : Int) (issig : Bool) (i1 i2 : Int)
    (hpk : ∀ b ∈ pk.r, Int.gcd b pk.n = 1) :
    ∃ b, p.verifyWith o kid pk ctx nonce issig i1 i2 = .ok b :=
  verifyD_total_of_expSafe o kid pk p ctx nonce issig i1 i2 (fun _ => ProofD.expSafe_of_coprime pk p hpk)

/-- Totality for an arbitrary key when no disclosed attribute is negative. -/
theorem verifyD_total_of_nonneg (o : SigOracle) (kid : String) (pk : PublicKey) (p : ProofD)
    (ctx nonce : Int) (issig : Bool) (i1 i2 : Int)
    (hnn : ∀ kv ∈ p.aDisclosed, ∀ a, kv.2 = some a → 0 ≤ a) :
    ∃ b, p.verifyWith o kid pk ctx nonce issig i1 i2 = .ok b :=
  verifyD_total_of_expSafe o kid pk p ctx nonce issig i1 i2 (fun _ => ProofD.expSafe_of_nonneg pk p hnn)

/-- The hypothesis of `verifyD_total` cannot be weakened to `PublicKey.WellFormed`: for the key
    `n = 15, R = [4, 3]` (well-formed in that sense, but `gcd(3,15) ≠ 1`) and the well-formed
    proof disclosing attribute 1 as `-1`, verification panics (nil result of `Exp`). -/
theorem verifyD_panics_without_units :
    cexPk.WellFormed ∧ cexD.wellFormed cexPk = true ∧
    ∀ (o : SigOracle) (kid : String) (ctx nonce : Int) (issig : Bool) (i1 i2 : Int),
      cexD.verifyWith o kid cexPk ctx nonce issig i1 i2 = .error (.nilDeref "Exp") :=
  ⟨cexPk_wellFormed, cexD_wellFormed, cexD_verify_panics⟩

/-! ### proof lists -/

/-- an empty proof list is rejected. -/
theorem verifyList_empty_rejected (o : SigOracle) (keys : List (String × PublicKey))
    (ctx nonce : Int) (issig : Bool) (kss : List String) (choices : List (Int × Int)) :
    proofListVerifyWith o keys [] ctx nonce issig kss choices = .ok false := by
  simp [proofListVerifyWith]
  rfl

/-- a list with a different number of proofs than keys, or than (a non-empty list of) keyshare
    server names, is rejected. -/
theorem verifyList_length_mismatch_rejected (o : SigOracle) (keys : List (String × PublicKey))
    (pl : List Proof) (ctx nonce : Int) (issig : Bool) (kss : List String) (choices : List (Int × Int))
    (h : pl.length ≠ keys.length ∨ (kss ≠ [] ∧ pl.length ≠ kss.length)) :
    proofListVerifyWith o keys pl ctx nonce issig kss choices = .ok false := by
  unfold proofListVerifyWith
  rw [if_pos]
  · rfl
  · rcases h with h | ⟨h1, h2⟩
    · simp [h]
    · have : kss.length > 0 := List.length_pos_iff.mpr h1
      simp [h2, this]

/-- `ProofList.Verify` returns a verdict for all arguments — any mix of proofs, any number of
    keys, keyshare names and choices (also fewer choices than proofs) — when the bases of the
    keys are units. The second loop dereferences stored secret-key responses; the proof shows
    they are present for every proof whose own check succeeded. -/
theorem verifyList_total (o : SigOracle) (keys : List (String × PublicKey)) (pl : List Proof)
    (ctx nonce : Int) (issig : Bool) (kss : List String) (choices : List (Int × Int))
    (hpk : ∀ kp ∈ keys, ∀ b ∈ kp.2.r, Int.gcd b kp.2.n = 1) :
    ∃ b, proofListVerifyWith o keys pl ctx nonce issig kss choices = .ok b :=
  proofListVerifyWith_isOk o keys pl ctx nonce issig kss choices
    (fun x hx p _ _ => ProofD.expSafe_of_coprime x.2.2 p (hpk x.2 (List.of_mem_zip hx).2))

/-- general form: it suffices that the exponentiations of the well-formed disclosure proofs in
    the list have results. -/
theorem verifyList_total_of_expSafe (o : SigOracle) (keys : List (String × PublicKey)) (pl : List Proof)
    (ctx nonce : Int) (issig : Bool) (kss : List String) (choices : List (Int × Int))
    (hs : ∀ x ∈ pl.zip keys, ∀ p, x.1 = .d p → p.wellFormed x.2.2 = true → p.ExpSafe x.2.2) :
    ∃ b, proofListVerifyWith o keys pl ctx nonce issig kss choices = .ok b :=
  proofListVerifyWith_isOk o keys pl ctx nonce issig kss choices hs

/-- A list that contains a proof which is malformed for its key is never accepted (for any
    key material). `j` is the position; `choices` must cover it (see `verifyList_short_choices`). -/
theorem verifyList_malformed_not_accepted (o : SigOracle) (keys : List (String × PublicKey))
    (pl : List Proof) (ctx nonce : Int) (issig : Bool) (kss : List String) (choices : List (Int × Int))
    (j : Nat) (h1 : j < pl.length) (h2 : j < keys.length) (h3 : j < choices.length)
    (hmal : (pl[j]).wellFormed (keys[j]).2 = false) :
    proofListVerifyWith o keys pl ctx nonce issig kss choices ≠ .ok true :=
  proofListVerifyWith_malformed o keys pl ctx nonce issig kss choices
    (mem_zip_zip_of_index pl keys choices j h1 h2 h3) hmal

/-- … hence, with keys whose bases are units, the verdict is rejection. -/
theorem verifyList_malformed_rejected (o : SigOracle) (keys : List (String × PublicKey))
    (pl : List Proof) (ctx nonce : Int) (issig : Bool) (kss : List String) (choices : List (Int × Int))
    (hpk : ∀ kp ∈ keys, ∀ b ∈ kp.2.r, Int.gcd b kp.2.n = 1)
    (j : Nat) (h1 : j < pl.length) (h2 : j < keys.length) (h3 : j < choices.length)
    (hmal : (pl[j]).wellFormed (keys[j]).2 = false) :
    proofListVerifyWith o keys pl ctx nonce issig kss choices = .ok false := by
  obtain ⟨b, hb⟩ := verifyList_total o keys pl ctx nonce issig kss choices hpk
  cases b with
  | false => exact hb
  | true => exact absurd hb (verifyList_malformed_not_accepted o keys pl ctx nonce issig kss choices j h1 h2 h3 hmal)

/-- Modelling caveat, not a Go behaviour: the model parameter `choices` (the picks of the two
    `revocationAttrIndex` calls per proof) is zipped with the proofs, so proofs beyond
    `choices.length` are skipped; with no choices every list passing the length guard is
    "accepted". Statements about acceptance of lists must assume `choices.length = pl.length`
    (`choiceCombos` only produces such lists). -/
theorem verifyList_short_choices (o : SigOracle) (keys : List (String × PublicKey)) (pl : List Proof)
    (ctx nonce : Int) (issig : Bool) (kss : List String)
    (h1 : pl ≠ []) (h2 : pl.length = keys.length) (h3 : kss = [] ∨ pl.length = kss.length) :
    proofListVerifyWith o keys pl ctx nonce issig kss [] = .ok true :=
  proofListVerifyWith_nil_choices o keys pl ctx nonce issig kss h1 h2 h3

/-! ### non-vacuity of the hypotheses -/

/-- a key whose bases are units (toy size). -/
example : ∀ b ∈ ([4, 9] : List Int), Int.gcd b 253 = 1 := by decide

/-- a malformed proof exists for every key: everything missing. -/
example (pk : PublicKey) :
    ¬ (ProofD.wellFormed pk ⟨none, none, none, none, [], [], none, none⟩) := by
  simp [ProofD.wellFormed]

example (pk : PublicKey) : ¬ (ProofU.wellFormed pk ⟨none, none, none, none, []⟩) := by
  simp [ProofU.wellFormed]

end Gabi.C08

#print axioms Gabi.C08.verifyU_total
#print axioms Gabi.C08.malformedU_rejected
#print axioms Gabi.C08.malformedD_rejected
#print axioms Gabi.C08.verifyD_total_of_expSafe
#print axioms Gabi.C08.verifyD_total
#print axioms Gabi.C08.verifyD_total_of_nonneg
#print axioms Gabi.C08.verifyD_panics_without_units
#print axioms Gabi.C08.verifyList_empty_rejected
#print axioms Gabi.C08.verifyList_length_mismatch_rejected
#print axioms Gabi.C08.verifyList_total
#print axioms Gabi.C08.verifyList_total_of_expSafe
#print axioms Gabi.C08.verifyList_malformed_not_accepted
#print axioms Gabi.C08.verifyList_malformed_rejected
#print axioms Gabi.C08.verifyList_short_choices
