/-
  C18 (part) — "a re-read proof … verifies exactly as the original did".
  The fields of a disclosure proof that are not serialised (Go tags `json:"-"`:
  `revocation.Proof.nu`, `.challenge`, the response "alpha"; `rangeproof.Proof.mResponse`) do not
  influence verification, and the model's decoder (`GabiModel.Decode`, validated against
  encoding/json + gabi's unmarshalers by the msg-roundtrip ops) inverts a canonical encoder.
  Helper lemmas: GabiProofs.OmittedFields (stripping), GabiProofs.ProofCodec (encoder, decoder).
-/
import GabiModel.Proofs
import GabiModel.Decode
import GabiProofs.OmittedFields
import GabiProofs.ProofCodec
namespace Gabi.C18
open Gabi Gabi.Wire Lean

/-! ## fields that are not serialised do not matter -/

/-- `SetExpected` overwrites `nu`, `challenge` and "alpha" before anything reads them: it returns
    the very same proof (or the same error) whether or not these fields were cleared before. -/
theorem setExpected_ignores_omitted (o : SigOracle) (kid : String) (pk : PublicKey) (nr : NonRevProof)
    (c resp : Int) : nr.strip.setExpected o kid pk c resp = nr.setExpected o kid pk c resp :=
  NonRevProof.setExpected_strip o kid pk nr c resp

/-- A disclosure proof whose omitted fields hold arbitrary junk gets the verdict of the proof with
    these fields cleared — for every signature oracle, key, session and pair of
    `revocationAttrIndex` picks; "verdict" includes a panic, should there be one. No hypothesis
    on the proof is needed (in particular none on duplicate response names). -/
theorem omitted_fields_restored (o : SigOracle) (kid : String) (pk : PublicKey) (p : ProofD)
    (ctx nonce : Int) (issig : Bool) (i1 i2 : Int) :
    p.strip.verifyWith o kid pk ctx nonce issig i1 i2 = p.verifyWith o kid pk ctx nonce issig i1 i2 :=
  ProofD.omitted_fields_restored o kid pk p ctx nonce issig i1 i2

/-- … and the picks `revocationAttrIndex` can make are the same. -/
theorem revChoices_strip (p : ProofD) : p.strip.revChoices = p.revChoices := ProofD.revChoices_strip p

/-- The same for `ProofList.Verify` with every member stripped. -/
theorem proofList_verify_strip (o : SigOracle) (keys : List (String × PublicKey)) (pl : List Proof)
    (ctx nonce : Int) (issig : Bool) (kss : List String) (choices : List (Int × Int)) :
    proofListVerifyWith o keys (pl.map Proof.strip) ctx nonce issig kss choices =
      proofListVerifyWith o keys pl ctx nonce issig kss choices :=
  Gabi.proofList_verify_strip o keys pl ctx nonce issig kss choices

/-- (not needed by the theorems above, recorded for the model's "maps have no duplicate keys"
    convention:) the response map of a decoded non-revocation proof has distinct names whenever
    the JSON object is a well-formed tree map — which every parsed object is. -/
theorem decoded_responses_nodup (direct : Bool) (t : Std.TreeMap.Raw String Json compare) (ht : t.WF)
    (l : List (String × Option Int)) (h : Decode.strMap (.obj t) direct = .ok l) :
    (l.map (·.1)).Nodup := Gabi.decoded_responses_nodup direct t ht l h

/-! ## leaves of the message trees -/

/-- big integers travel as `{"$i": hex}`: the hexadecimal text (with sign) parses back. -/
theorem hex_int_roundtrip (z : Int) : parseHexInt? (hexOfInt z) = some z := parseHexInt_hexOfInt z

/-- byte strings travel as `{"$b": hex}`. -/
theorem hex_bytes_roundtrip (bs : List UInt8) : parseHexBytes? (hexOfBytes bs) = some bs :=
  parseHexBytes_hexOfBytes bs

/-- a `*big.Int` position: `null` for nil, else the leaf; negative numbers only pass when the
    decoder is called directly (`direct`), as in Go. -/
theorem big_roundtrip (direct : Bool) (x : Option Int) (h : ∀ z, x = some z → direct = true ∨ 0 ≤ z) :
    Decode.big (Enc.big x) direct = .ok x := decode_big direct x h

/-! ## the decoder inverts the canonical encoder -/

/-- `Decode.proofD (p.toTree) = p.reread` for every proof the wire can carry (`WireOk`:
    non-negative integers unless `direct`, distinct 64-bit map keys, 64-bit counters; nothing is
    assumed about the omitted fields). `reread` clears the omitted fields and lists every map in
    the order of its key texts — the order in which a JSON object yields its members. -/
theorem decode_encode (direct : Bool) (p : ProofD) (hw : p.WireOk direct) :
    Decode.proofD p.toTree direct = .ok p.reread := decode_encode_proofD direct p hw

/-- for a proof whose maps are already listed in that order the result is exactly `p.strip`. -/
theorem decode_encode_sorted (direct : Bool) (p : ProofD) (hw : p.WireOk direct) (hs : p.MapsSorted) :
    Decode.proofD p.toTree direct = .ok p.strip := by
  rw [decode_encode direct p hw, ProofD.reread_eq_strip p hs]

/-- in general `reread` is `strip` up to a permutation of each association list. -/
theorem reread_is_strip_up_to_order (direct : Bool) (p : ProofD) (hw : p.WireOk direct) :
    p.reread.c = p.c ∧ p.reread.a = p.a ∧ p.reread.eResponse = p.eResponse ∧
    p.reread.vResponse = p.vResponse ∧
    p.reread.aResponses.Perm p.aResponses ∧ p.reread.aDisclosed.Perm p.aDisclosed ∧
    (∀ nr, p.nonrev = some nr → ∃ nr', p.reread.nonrev = some nr' ∧ nr'.cr = nr.cr ∧ nr'.cu = nr.cu ∧
      nr'.nu = none ∧ nr'.challenge = none ∧ nr'.sacc = nr.sacc ∧
      nr'.responses.Perm nr.strip.responses) ∧
    (p.nonrev = none → p.reread.nonrev = none) ∧
    (∀ m, p.rangeProofs = some m → ∃ m', p.reread.rangeProofs = some m' ∧ m'.Perm (stripRPMap m)) ∧
    (p.rangeProofs = none → p.reread.rangeProofs = none) :=
  ProofD.reread_perm direct p hw

/-- issuance commitment proofs (`ProofU`: four integers and one map, nothing omitted). -/
theorem decode_encode_proofU (direct : Bool) (p : ProofU) (hw : p.WireOk direct)
    (hs : KeyedSorted toString p.mUserResponses) :
    Decode.proofU p.toTree direct = .ok p := by
  rw [Gabi.decode_encode_proofU direct p hw, ProofU.reread_eq_self p hs]

/-- proof lists: every member is recognised as what it was (`A` resp. `U` present). -/
theorem decode_encode_proofList (direct : Bool) (pl : List Proof) (hw : ∀ pr ∈ pl, pr.WireOk direct)
    (hs : ∀ pr ∈ pl, pr.MapsSorted) :
    Decode.proofList (proofListToTree pl) direct = .ok (pl.map Proof.strip) := by
  rw [Gabi.decode_encode_proofList direct pl hw]
  congr 1
  exact List.map_congr_left (fun pr hpr => Proof.reread_eq_strip pr (hs pr hpr))

/-! ## a re-read proof verifies as the original did -/

/-- Encoding a wire-representable proof and decoding it again yields a proof with the same
    verdict as the original — whatever `SetExpected` / `ChallengeContribution` of an earlier
    verification (or anybody else) had left in the omitted fields. -/
theorem reread_verifies_same (direct : Bool) (p : ProofD) (hw : p.WireOk direct) (hs : p.MapsSorted) :
    ∃ q, Decode.proofD p.toTree direct = .ok q ∧ q.revChoices = p.revChoices ∧
      ∀ (o : SigOracle) (kid : String) (pk : PublicKey) (ctx nonce : Int) (issig : Bool) (i1 i2 : Int),
        q.verifyWith o kid pk ctx nonce issig i1 i2 = p.verifyWith o kid pk ctx nonce issig i1 i2 :=
  ⟨p.strip, decode_encode_sorted direct p hw hs, revChoices_strip p,
    fun o kid pk ctx nonce issig i1 i2 => omitted_fields_restored o kid pk p ctx nonce issig i1 i2⟩

/-- The same for a whole proof list. -/
theorem reread_list_verifies_same (direct : Bool) (pl : List Proof) (hw : ∀ pr ∈ pl, pr.WireOk direct)
    (hs : ∀ pr ∈ pl, pr.MapsSorted) :
    ∃ ql, Decode.proofList (proofListToTree pl) direct = .ok ql ∧
      ∀ (o : SigOracle) (keys : List (String × PublicKey)) (ctx nonce : Int) (issig : Bool)
        (kss : List String) (choices : List (Int × Int)),
        proofListVerifyWith o keys ql ctx nonce issig kss choices =
          proofListVerifyWith o keys pl ctx nonce issig kss choices :=
  ⟨pl.map Proof.strip, decode_encode_proofList direct pl hw hs,
    fun o keys ctx nonce issig kss choices => proofList_verify_strip o keys pl ctx nonce issig kss choices⟩

/-! ## non-vacuity -/

/-- a proof with a non-revocation proof and a range proof, all omitted fields filled with junk. -/
def exD : ProofD :=
  { c := some 5, a := some 7, eResponse := some 1, vResponse := some 2,
    aResponses := [(0, some 3), (1, some 4)], aDisclosed := [(2, some 9)],
    nonrev := some { cr := some 2, cu := some 3, nu := some 99, challenge := some 98,
                     responses := [("alpha", some 77), ("beta", some 1), ("epsilon", some 2)],
                     sacc := some { data := some [1, 2], pkCounter := 0 } },
    rangeProofs := some [(1, [some { cs := [some 1], ds := [none], vs := [], v5 := some 3,
                                     mResponse := some 1234, ld := 8, sign := 1, a := 1, k := some 0 }])] }

example : exD.WireOk false := by
  constructor
  · exact bigOk_some _ _ (by decide)
  · exact bigOk_some _ _ (by decide)
  · exact bigOk_some _ _ (by decide)
  · exact bigOk_some _ _ (by decide)
  · constructor
    · decide
    · simp [exD, Int64]
    · simp [exD]; exact ⟨bigOk_some _ _ (by decide), bigOk_some _ _ (by decide)⟩
  · constructor
    · decide
    · simp [exD, Int64]
    · simp [exD]; exact bigOk_some _ _ (by decide)
  · intro nr hnr
    simp only [exD, Option.some.injEq] at hnr
    subst hnr
    constructor
    · exact bigOk_some _ _ (by decide)
    · exact bigOk_some _ _ (by decide)
    · constructor
      · decide
      · simp; exact ⟨bigOk_some _ _ (by decide), bigOk_some _ _ (by decide)⟩
    · simp
  · intro m hm
    simp only [exD, Option.some.injEq] at hm
    subst hm
    constructor
    · decide
    · simp [Int64]
    · simp
      constructor
      · simp; exact bigOk_some _ _ (by decide)
      · simp; exact bigOk_none _
      · simp
      · exact bigOk_some _ _ (by decide)
      · exact bigOk_some _ _ (by decide)
      · simp
      · simp
      · simp [Int64]

example : exD.MapsSorted := by
  constructor
  · unfold KeyedSorted; decide
  · unfold KeyedSorted; decide
  · intro nr hnr
    simp only [exD, Option.some.injEq] at hnr
    subst hnr
    unfold KeyedSorted; decide
  · intro m hm
    simp only [exD, Option.some.injEq] at hm
    subst hm
    unfold KeyedSorted; decide

/-- the omitted fields of `exD` are really different from the stripped ones. -/
example : exD.strip ≠ exD := by decide

end Gabi.C18

#print axioms Gabi.C18.setExpected_ignores_omitted
#print axioms Gabi.C18.omitted_fields_restored
#print axioms Gabi.C18.revChoices_strip
#print axioms Gabi.C18.proofList_verify_strip
#print axioms Gabi.C18.decoded_responses_nodup
#print axioms Gabi.C18.hex_int_roundtrip
#print axioms Gabi.C18.hex_bytes_roundtrip
#print axioms Gabi.C18.big_roundtrip
#print axioms Gabi.C18.decode_encode
#print axioms Gabi.C18.decode_encode_sorted
#print axioms Gabi.C18.reread_is_strip_up_to_order
#print axioms Gabi.C18.decode_encode_proofU
#print axioms Gabi.C18.decode_encode_proofList
#print axioms Gabi.C18.reread_verifies_same
#print axioms Gabi.C18.reread_list_verifies_same
