/-
  C17 (companion) — the STRUCTURE of the composed key-correctness proof: which statement
  `NewValidKeyProofStructure(N, Bases)` wires together.  Property theorems only; definitions of the
  reading (`holds`, `Claim`, `claims`, `secrets`, …) and helper lemmas live in
  GabiProofs.KeyProofTree, the model of the constructors in GabiModel.KeyProofTree.

  The model's constructors are tied to the real ones by the correspondence op `kp-structure`
  (and `kp-substructure`, `kp-structure-full`): the canonical text of the real structure values
  equals the text of the model's values, for moduli of 16 … 2048 bits and 0 … 6 bases.

  What is proved here, about the MODEL of the structure:
    §1 the flat list of claims: primality of BOTH "pprime" and "qprime" at (bitlen N + 1)/2 bits,
       the relations p = 2p'+1, q = 2q'+1, p·q = N, one isSquare claim per base in order;
    §2 the wiring of the sub-proofs: the exponentiation proofs inside the prime proof talk about the
       prime proof's own commitments; step i of an exponentiation proof uses bit i, base power i,
       intermediate results i-1 and i;
    §3 soundness of the wiring under the *ideal reading* (relations read in the exponent of g over
       ℤ; AND/OR composition as in the code): the tree entails the intended number-theoretic
       statement.  A structure in which the second prime proof is wired to "pprime" (the slip this
       file exists for) satisfies the reading with a composite q';
    §4 name hygiene; §5 counting (agrees with the formulas `kp-challenge` is checked with).
  NOT proved: that proofs accepted by VerifyProof make the relations hold over ℤ (soundness of
  the Σ-protocols, range proofs, Fiat–Shamir), that the traversal of the tree by
  commitmentsFromProof uses every part of the structure, and the relation `agenproof` that
  primeproof.go builds on the fly (unpredictability of the Euler witness `a`).
-/
import GabiModel.KeyProofTree
import GabiProofs.KeyProofTree
namespace Gabi.C17Tree
open Gabi Gabi.KeyProof

/-! ## 1. The claims of the key statement -/

/-- **(a) Both primes.** The primality claims of the key statement are exactly: "pprime" is prime
    and "qprime" is prime, both at bit length `(bitlen N + 1)/2`. -/
theorem claims_primality (n : Int) (bases : List Int) :
    (validKeyStructure n bases).claims.filterMap Claim.primeOf =
      [("pprime", (bitLen n + 1) / 2), ("qprime", (bitLen n + 1) / 2)] := by
  simp only [ValidKeyStructure.claims, List.filterMap_append, filterMap_primeOf_isSquare]
  rfl

/-- **(b) p = 2p'+1 and q = 2q'+1**, as wired: `p¹·pprime⁻²·g⁻¹ = h^p_hider·h^(−2·pprime_hider)`
    and the same for q; **(c) p·q = N**: `g^N = p^q · h^(−pqnrel)`. -/
theorem claims_relations (n : Int) (bases : List Int) :
    let c := (validKeyStructure n bases).claims
    Claim.linear ⟨[⟨"p", 1⟩, ⟨"pprime", -2⟩, ⟨"g", -1⟩], [⟨"h", "p_hider", 1⟩, ⟨"h", "pprime_hider", -2⟩]⟩ ∈ c ∧
    Claim.linear ⟨[⟨"q", 1⟩, ⟨"qprime", -2⟩, ⟨"g", -1⟩], [⟨"h", "q_hider", 1⟩, ⟨"h", "qprime_hider", -2⟩]⟩ ∈ c ∧
    Claim.linear ⟨[⟨"g", n⟩], [⟨"p", "q", 1⟩, ⟨"h", "pqnrel", -1⟩]⟩ ∈ c ∧
    Claim.pedersen "p" ∈ c ∧ Claim.pedersen "q" ∈ c ∧ Claim.pedersen "pprime" ∈ c ∧ Claim.pedersen "qprime" ∈ c := by
  simp [validKeyStructure, ValidKeyStructure.claims, pedStructure]

/-- **(d) The bases.** The isSquare claims are exactly one per supplied base, in order, each about
    that base and the modulus `N`. -/
theorem claims_squares (n : Int) (bases : List Int) :
    (validKeyStructure n bases).claims.filterMap Claim.squareOf = bases.zipIdx.map fun (b, i) => (i, b, n) := by
  have hp : ∀ s : PrimeStructure, s.claims.filterMap Claim.squareOf = [] := fun s => rfl
  simp only [ValidKeyStructure.claims, List.filterMap_append, hp, List.append_nil]
  exact filterMap_squareOf_isSquare n bases

/-! ## 2. Wiring of the sub-proofs -/

/-- **The prime proof talks about its own commitments.** In `newPrimeProofStructure(name, l)` the two
    exponentiation proofs are `ares = a^halfp mod name` and `anegres = aneg^halfp mod name` over the
    commitments `a`, `aneg`, `halfp`, `ares`, `anegres` of this very prime proof; `halfPRep` relates
    `name` and `halfp` (`name = 2·halfp + 1`); the three result relations say `ares = 1`, `ares = −1`
    (OR-composed) and `anegres = −1`; the three range proofs are over `prea`, `a`, `aneg`. -/
theorem prime_wiring (name : String) (l : Nat) :
    let s := primeStructure name l
    s.primeName = name ∧ s.bitlen = l ∧
    s.aExp = expStructure s.a.name s.halfP.name s.primeName s.aRes.name s.bitlen ∧
    s.anegExp = expStructure s.aneg.name s.halfP.name s.primeName s.anegRes.name s.bitlen ∧
    s.halfPRep.lhs = [⟨s.primeName, 1⟩, ⟨s.halfP.name, -2⟩, ⟨"g", -1⟩] ∧
    s.aPlus1ResRep.lhs = [⟨s.aRes.name, 1⟩, ⟨"g", -1⟩] ∧
    s.aMin1ResRep.lhs = [⟨s.aRes.name, 1⟩, ⟨"g", 1⟩] ∧
    s.anegResRep.lhs = [⟨s.anegRes.name, 1⟩, ⟨"g", 1⟩] ∧
    (∀ r ∈ s.halfPRep.rhs ++ s.aPlus1ResRep.rhs ++ s.aMin1ResRep.rhs ++ s.anegResRep.rhs, r.base = "h") ∧
    s.preaRange = pedRangeStructure s.prea.name 0 s.bitlen ∧
    s.aRange = pedRangeStructure s.a.name 0 s.bitlen ∧
    s.anegRange = pedRangeStructure s.aneg.name 0 s.bitlen := by
  refine ⟨rfl, rfl, rfl, rfl, rfl, rfl, rfl, rfl, ?_, rfl, rfl, rfl⟩
  simp [primeStructure]

/-- **Step `i` of an exponentiation proof** (at least two bits) is the step over the `i`-th bit
    commitment and the `i`-th base-power commitment, from the previous intermediate result (the
    `start` commitment for `i = 0`) to the `i`-th one (the `result` for the last step); the `i`-th
    base-power relation is `base_0 = start·base`, `base_i = base_{i-1}²`; all modulo the proof's
    `mod`. -/
theorem exp_wiring (base e md r : String) (l i : Nat) (hl : 2 ≤ l) (hi : i < l) :
    let s := expStructure base e md r l
    ∃ bit pw st rel, s.expBits[i]? = some bit ∧ s.basePows[i]? = some pw ∧
      s.interSteps[i]? = some st ∧ s.basePowRels[i]? = some rel ∧
      st = stepStructure bit.name (if i = 0 then s.start.name else expInterName s.myname (i - 1))
             (if i = l - 1 then s.result else expInterName s.myname i) pw.name s.md l ∧
      rel = (if i = 0 then mulStructure s.start.name s.base s.md pw.name l
             else mulStructure (expBaseName s.myname (i - 1)) (expBaseName s.myname (i - 1)) s.md pw.name l) ∧
      (∀ j, j < l - 1 → s.interRess[j]?.map (·.name) = some (expInterName s.myname j)) ∧
      (∀ j, j < l → s.basePows[j]?.map (·.name) = some (expBaseName s.myname j)) := by
  intro s
  refine ⟨pedStructure (expBitName s.myname i), pedStructure (expBaseName s.myname i),
    expInterStep s.myname md r l i, expBasePowRel s.myname base md l i, ?_, ?_, ?_, ?_, ?_, ?_, ?_, ?_⟩
  · simp [s, expStructure, hi]
  · simp [s, expStructure, hi]
  · simp [s, expStructure, hi]
  · simp [s, expStructure, hi]
  · unfold expInterStep
    by_cases h0 : i = 0
    · subst h0; rw [if_pos rfl, if_pos rfl, if_neg (by omega)]; rfl
    · rw [if_neg h0, if_neg h0]
      by_cases hlast : i = l - 1
      · rw [if_pos hlast, if_pos hlast]; rfl
      · rw [if_neg hlast, if_neg hlast]; rfl
  · unfold expBasePowRel
    split <;> rfl
  · intro j hj; simp [s, expStructure, hj, pedStructure]
  · intro j hj; simp [s, expStructure, hj, pedStructure]

/-- the exponent-bits relation of an exponentiation proof: `exponent⁻¹ · ∏ bit_i^(2^i) = h^…`, i.e.
    `exponent = Σ 2^i·bit_i`. -/
theorem exp_bit_equation (base e md r : String) (l : Nat) :
    (expStructure base e md r l).expBitEq.lhs =
      ⟨e, -1⟩ :: (List.range l).map fun i => ⟨expBitName (expName base e md r) i, (2 : Int) ^ i⟩ := rfl

/-! ## 3. Soundness of the wiring under the ideal reading -/

/-- **Multiplication proof:** `result ≡ m1·m2 (mod mod)`. -/
theorem mul_statement {v : String → Int} (hv : Ideal v) (m1 m2 md result : String) (l : Nat)
    (h : (mulStructure m1 m2 md result l).holds v) : v result ≡ v m1 * v m2 [ZMOD v md] :=
  mul_sound hv m1 m2 md result l h

/-- **Exponentiation step:** `bit = 0 ∧ post = pre`, or `bit = 1 ∧ post ≡ mul·pre (mod mod)`. -/
theorem step_statement {v : String → Int} (hv : Ideal v) (bit pre post mul md : String) (l : Nat)
    (h : (stepStructure bit pre post mul md l).holds v) :
    (v bit = 0 ∧ v post = v pre) ∨ (v bit = 1 ∧ v post ≡ v mul * v pre [ZMOD v md]) :=
  step_sound hv bit pre post mul md l h

/-- **Exponentiation proof** (at least two bits): `0 ≤ exponent < 2^l` and
    `result ≡ base^exponent (mod mod)`. -/
theorem exp_statement {v : String → Int} (hv : Ideal v) (base exponent md result : String) (l : Nat) (hl : 2 ≤ l)
    (h : (expStructure base exponent md result l).holds v) :
    0 ≤ v exponent ∧ v exponent < 2 ^ l ∧ v result ≡ v base ^ (v exponent).toNat [ZMOD v md] :=
  exp_sound hv base exponent md result l hl h

/-- **Prime proof:** Euler-criterion evidence for the value of `name`: `name = 2h+1`, some `a` with
    `a^h ≡ ±1 (mod name)`, some `aneg` with `aneg^h ≡ −1 (mod name)`. -/
theorem prime_statement {v : String → Int} (hv : Ideal v) (name : String) (l : Nat) (hl : 2 ≤ l)
    (h : (primeStructure name l).holds v) : EulerEvidence (v name) l :=
  prime_sound hv name l hl h

/-- **Bases-valid proof:** every supplied base is a square modulo `n`. -/
theorem isSquare_statement {v : String → Int} (hv : Ideal v) (n : Int) (squares : List Int)
    (h : (isSquareStructure n squares).holds v) :
    ∀ i (hi : i < squares.length), ∃ r : Int, r * r ≡ squares[i] [ZMOD n] :=
  isSquare_sound hv n squares h

/-- **The key statement.** Under the ideal reading, whatever satisfies the tree built by
    `NewValidKeyProofStructure(N, Bases)` (N of at least 3 bits) has `p = 2p'+1`, `q = 2q'+1`,
    `p·q = N`, Euler-criterion evidence for `p'` AND for `q'`, and every base a square modulo `N`. -/
theorem key_statement {v : String → Int} (hv : Ideal v) (n : Int) (bases : List Int) (hn : 3 ≤ bitLen n)
    (h : (validKeyStructure n bases).holds v) :
    v "p" = 2 * v "pprime" + 1 ∧ v "q" = 2 * v "qprime" + 1 ∧ v "p" * v "q" = n ∧
    EulerEvidence (v "pprime") ((bitLen n + 1) / 2) ∧ EulerEvidence (v "qprime") ((bitLen n + 1) / 2) ∧
    ∀ i (hi : i < bases.length), ∃ r : Int, r * r ≡ bases[i] [ZMOD n] :=
  validKey_sound hv n bases hn h

/-- the honest assignment for `N = 7·7` (`p' = q' = 3`; that p ≠ q is not part of this statement —
    it is the disjoint-prime-product proof's), base `4 = 2²`. -/
def exampleValuation : String → Int := valOf (validKeyWitness 3 3 2 2 2 2 [4] [2])

set_option maxRecDepth 100000 in
set_option maxHeartbeats 8000000 in
/-- **Non-vacuity:** the reading of the tree for `N = 49` is satisfiable (by the values an honest
    prover commits to), so `key_statement` is not vacuous.  (Kernel evaluation; string operations
    make this the slowest proof of the file.) -/
theorem key_statement_satisfiable :
    Ideal exampleValuation ∧ (validKeyStructure 49 [4]).holds exampleValuation ∧ 3 ≤ bitLen 49 := by
  refine ⟨⟨by decide +kernel, by decide +kernel⟩, by decide +kernel, by decide⟩

/-- the structure with the slip `qprimeIsPrime = newPrimeProofStructure("pprime", …)`. -/
def slipStructure (n : Int) (bases : List Int) : ValidKeyStructure :=
  { validKeyStructure n bases with qprimeIsPrime := primeStructure "pprime" (primeBitlen n) }

/-- the honest assignment for `p' = 3`, and `q' = 9` (not a prime), `N = 7·19`. -/
def slipValuation : String → Int :=
  valOf ([("g", 1), ("h", 0), ("p", 7), ("q", 19), ("pprime", 3), ("qprime", 9)] ++
    primeWitness "pprime" 3 2 2 (primeBitlen 133) ++ isSquareWitness 133 [4] [2])

set_option maxRecDepth 100000 in
set_option maxHeartbeats 8000000 in
/-- **The slip is visible in the statement.** With the second prime proof wired to "pprime" the
    tree is satisfied by an assignment in which `q' = 9`: nothing is stated about `q'` any more
    (for the true structure `key_statement` gives Euler-criterion evidence for `q'`, which `9` does
    not have).  The op `kp-structure` reports this slip as a difference to the model. -/
theorem slip_loses_qprime :
    Ideal slipValuation ∧ (slipStructure 133 [4]).holds slipValuation ∧ slipValuation "qprime" = 9 ∧
    ¬ EulerEvidence (slipValuation "qprime") (primeBitlen 133) := by
  refine ⟨⟨by decide +kernel, by decide +kernel⟩, by decide +kernel, by decide +kernel, ?_⟩
  rw [show slipValuation "qprime" = 9 by decide +kernel]
  exact no_evidence_for_nine _

/-! ## 4. Name hygiene -/

/-- **(e) Secret names of a prime proof.** Every secret name for which the prime proof over `name`
    carries a response is `name_hider` (the hider of the commitment whose primality is proven) or
    begins with `name_primeproof_`. -/
theorem prime_secret_names (name : String) (l : Nat) :
    ∀ x ∈ (primeStructure name l).secrets,
      x = joinU [name, "hider"] ∨ HasPre (joinU [name, "primeproof"] ++ "_") x :=
  prime_secrets_pre name l

/-- **(e) The two prime proofs of the key statement share no secret name** (responses are looked
    up by name in merged tables, so a shared name would tie the two proofs together). -/
theorem prime_proofs_share_no_secret (n : Int) (bases : List Int) :
    let s := validKeyStructure n bases
    ∀ x ∈ s.pprimeIsPrime.secrets, x ∉ s.qprimeIsPrime.secrets :=
  prime_secrets_disjoint _ _

/-- **(e) Inside one exponentiation proof** the commitments it introduces (bits, base powers,
    start, intermediate results) have pairwise different names; in particular the steps use a
    different bit, base power and intermediate result per position. -/
theorem exp_inner_names_distinct (base e md r : String) (l : Nat) :
    (expStructure base e md r l).innerNames.Nodup :=
  exp_innerNames_nodup base e md r l

/-! ## 5. Counting -/

/-- **(f) Segment lengths.** The number of hash-input entries each part of the structure
    contributes (numCommitments of the tree) equals the formula the Fiat–Shamir op `kp-challenge`
    is checked with. -/
theorem segment_lengths_agree (n : Int) (bases : List Int) :
    (validKeyStructure n bases).segmentLengths = expectedLengths (bitLen n) bases.length := by
  simp [validKeyStructure, ValidKeyStructure.segmentLengths, expectedLengths, prime_numCommitments,
    isSquare_numCommitments, ped_numCommitments, ReprStructure.numCommitments, primeBitlen]

/-- **(f) numRangeProofs** of the tree: with `b = (bitlen N + 1)/2` and `k` bases,
    `2·(4 + 2·(3b + (b−1))) + 2k`. -/
theorem numRangeProofs_formula (n : Int) (bases : List Int) :
    (validKeyStructure n bases).numRangeProofs =
      2 * (4 + 2 * (3 * primeBitlen n + (primeBitlen n - 1))) + 2 * bases.length := by
  simp [validKeyStructure, ValidKeyStructure.numRangeProofs, primeStructure, PrimeStructure.numRangeProofs,
    exp_numRangeProofs, isSquareStructure, IsSquareStructure.numRangeProofs, sumBy, Function.comp_def,
    MulStructure.numRangeProofs]
  ring

example : (validKeyStructure 77 [4, 37]).numRangeProofs = 72 := by
  rw [numRangeProofs_formula]; decide

end Gabi.C17Tree
