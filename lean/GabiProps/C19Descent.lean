/-
  C19 (companion) — the inner routine of `SumFourSquares` and the sieve of `RandomPrimeInRange`.

  `GabiProps/C19.lean` proves the `SumFourSquares` wrapper correct *given* the postcondition of the
  randomised inner routine `sumFourSquaresSpecial`. This file removes that assumption down to the two
  library oracles the routine calls (`ProbablyPrime`, `ModSqrt`): the deterministic core of the routine —
  Cornacchia's descent, i.e. Euclid's algorithm on `(p, √−1 mod p)` stopped at the first remainder
  below `√p` — is modelled exactly as the Go loop is written (`Gabi.Cornacchia.cornacchia`,
  mathutil.go:257-294, compared output-for-output with the Go loop on all `1 ≤ p ≤ 300`,
  `1 ≤ w ≤ 310`, and with the real routine on 1539 arguments up to 200 bits) and proved sound and
  complete. What remains unproved is only that the outer loop finds a suitable random draw
  (probabilistic termination) and the correctness of the two oracles.

  Second part: the small-prime sieve of `RandomPrimeInRange` discards no prime, and every candidate
  it builds lies in the requested interval. (`Gabi.Sieve.candidate`, the model of the byte
  construction, reproduced all 4895 candidates of 321 runs of the real `RandomPrimeInRange` fed from
  a logging reader.)

  Helper lemmas: GabiProofs.Cornacchia, GabiProofs.Sieve.
-/
import GabiModel.MathUtil
import GabiProofs.MathUtilLemmas
import GabiProofs.Cornacchia
import GabiProofs.Sieve
namespace Gabi.C19
open Gabi Gabi.Cornacchia Gabi.Sieve

/-! ### Cornacchia's descent (the loop of `sumFourSquaresSpecial`) -/

/-- the `BitLen` pre-test in front of every `p > r²` comparison is only an optimisation: it never
    fails when the comparison would succeed … -/
theorem cornacchia_bitLen_pretest {p r : Nat} (h : p > r * r) :
    2 * (natBitLen r : Int) - 1 ≤ (natBitLen p : Int) := bitLen_pretest h

/-- … so the guarded test of the Go code is exactly `r² < p`, and the loop as written is plain
    Euclidean descent on `(p, w)`. -/
theorem cornacchia_is_euclid (p w : Nat) : cornacchia p w = descent p true p w :=
  cornacchia_eq_descent p w

/-- (a) soundness: for a prime `p ≡ 1 (mod 4)` and a root `w` of `−1` modulo `p`, `0 < w < p`,
    whatever pair the loop returns is a decomposition `a² + b² = p`. -/
theorem cornacchia_sound {p w a b : Nat} (hp : p.Prime) (h4 : p % 4 = 1) (hw0 : 0 < w) (hwp : w < p)
    (hw : (w * w + 1) % p = 0) (h : cornacchia p w = some (a, b)) : a * a + b * b = p :=
  Cornacchia.cornacchia_sound ⟨hp, by omega, hw0, hwp, hw⟩ h

/-- (b) completeness: under the same hypotheses the loop terminates with a result; it never `break`s
    (no Euclidean remainder becomes 0 before one drops below `√p`), so no retry is caused by it. -/
theorem cornacchia_complete {p w : Nat} (hp : p.Prime) (h4 : p % 4 = 1) (hw0 : 0 < w) (hwp : w < p)
    (hw : (w * w + 1) % p = 0) : ∃ a b, cornacchia p w = some (a, b) ∧ a * a + b * b = p :=
  cornacchia_total ⟨hp, by omega, hw0, hwp, hw⟩

/-! ### one pass of `sumFourSquaresSpecial` -/

/-- (c) postcondition of a successful pass with the random draws `x, y`: if `z = n − x² − y²` is a prime
    `≡ 1 (mod 4)` the output `(x, y, a, b)` has non-negative entries with `x² + y² + a² + b² = n`;
    the shortcut `z = 2` returns `(x, y, 1, 1)` with `x² + y² + 1 + 1 = n`. `isPrime` is
    `ProbablyPrime(10)`, `sqrtNegOne z` is `ModSqrt(z − 1, z)`; both are assumed correct (`OraclesOk`). -/
theorem special_postcondition {isPrime : Nat → Bool} {sqrtNegOne : Nat → Nat}
    (ho : OraclesOk isPrime sqrtNegOne) {n x y : Nat} {q : Quad}
    (h : specialAttempt isPrime sqrtNegOne n x y = some q) : QuadOk n q := specialAttempt_ok ho h

/-- the shortcut, explicitly. -/
theorem special_shortcut (isPrime : Nat → Bool) (sqrtNegOne : Nat → Nat) {n x y : Nat}
    (hz : (n : Int) - x * x - y * y = 2) :
    specialAttempt isPrime sqrtNegOne n x y = some ((x : Int), (y : Int), 1, 1) ∧
      (x : Int) * x + y * y + 1 + 1 = n := by
  refine ⟨by simp [specialAttempt, hz], by linarith⟩

/-- a pass fails (next random draw) exactly when `z` is neither 2 nor an accepted prime `≡ 1 (mod 4)`;
    the descent itself never causes a retry. -/
theorem special_pass_succeeds_iff {isPrime : Nat → Bool} {sqrtNegOne : Nat → Nat}
    (ho : OraclesOk isPrime sqrtNegOne) (n x y : Nat) :
    (specialAttempt isPrime sqrtNegOne n x y).isSome = true ↔
      ((n : Int) - x * x - y * y = 2 ∨
        (0 < (n : Int) - x * x - y * y ∧ ((n : Int) - x * x - y * y).toNat % 4 = 1 ∧
          isPrime ((n : Int) - x * x - y * y).toNat = true)) := specialAttempt_isSome ho n x y

/-- every value `sumFourSquaresSpecial(n)` can return on an argument `n ≡ 2 (mod 4)` (the constant for
    `n < 4`, else the result of a successful pass) is a correct decomposition. -/
theorem special_output_ok {isPrime : Nat → Bool} {sqrtNegOne : Nat → Nat}
    (ho : OraclesOk isPrime sqrtNegOne) {n : Nat} (hn : n % 4 = 2) {q : Quad}
    (h : SpecialOutput isPrime sqrtNegOne n q) : QuadOk n q := specialOutput_ok ho hn h

/-! ### `SumFourSquares` end to end -/

/-- (d) `SumFourSquares n` is correct for every `n`, given only that the inner routine returned *some*
    value it can return (i.e. its random search ended) and that `ProbablyPrime` / `ModSqrt` are correct:
    the result is non-negative with `x² + y² + z² + w² = n`. Combines `sumFourSquares_wrapper`
    (C19.lean) with the descent theorems above. -/
theorem sumFourSquares_correct_given_descent {isPrime : Nat → Bool} {sqrtNegOne : Nat → Nat}
    (ho : OraclesOk isPrime sqrtNegOne) (special : Nat → Quad) (n : Nat)
    (hs : n ≠ 0 → SpecialOutput isPrime sqrtNegOne (sumFourSquaresInnerArg n)
      (special (sumFourSquaresInnerArg n))) :
    QuadOk n (sumFourSquaresWith special n) :=
  sumFourSquaresWith_spec_arg special n
    (fun hn => specialOutput_ok ho (sumFourSquaresInnerArg_mod n hn) (hs hn))

/-! ### `RandomPrimeInRange`: sieve and interval -/

/-- `sieve_sound`: a candidate (always `≥ 2^start`) rejected by the small-prime sieve is composite:
    the sieve discards no prime. -/
theorem sieve_sound {start p : Nat} (hge : 2 ^ start ≤ p)
    (h : randomPrimeCandidateOk Gen.smallPrimes Gen.smallPrimesProduct start p = false) :
    ¬ p.Prime := rejected_not_prime hge h

/-- without the range hypothesis: a rejected number is composite or one of the table primes
    (in particular the sieve rejects no prime larger than 53). -/
theorem sieve_rejects_only_small_primes {start p : Nat}
    (h : randomPrimeCandidateOk Gen.smallPrimes Gen.smallPrimesProduct start p = false)
    (hp : p.Prime) : p ∈ Gen.smallPrimes ∧ p ≤ 53 := rejected_prime_is_small h hp

/-- what rejection means: some table prime `q` divides the candidate (and, for `start ≤ 6`, the
    candidate's residue modulo the table product is not `q` itself). -/
theorem sieve_rejected_iff (start p : Nat) :
    randomPrimeCandidateOk Gen.smallPrimes Gen.smallPrimesProduct start p = false ↔
      ∃ q ∈ Gen.smallPrimes, q ∣ p ∧ (6 < start ∨ p % Gen.smallPrimesProduct ≠ q) :=
  candidate_rejected_iff start p

/-- the table: primes, and `SmallPrimesProduct` is their product. -/
theorem sieve_table : (∀ q ∈ Gen.smallPrimes, q.Prime) ∧ Gen.smallPrimes.prod = Gen.smallPrimesProduct :=
  ⟨smallPrimes_prime, smallPrimes_prod⟩

/-- every candidate built from `(length+7)/8` random bytes (first byte masked to `length mod 8` bits,
    last bit set, added to `2^start`) lies in `(2^start, 2^start + 2^length)` and is odd; hence so does
    every returned value, by construction and not only by the checked membership predicate. -/
theorem randomPrime_candidate_in_range {start length : Nat} {bytes : List UInt8} (hl : 1 ≤ length)
    (hlen : bytes.length = (length + 7) / 8) :
    2 ^ start < candidate start length bytes ∧
      candidate start length bytes < 2 ^ start + 2 ^ length ∧
      (1 ≤ start → candidate start length bytes % 2 = 1) := candidate_range hl hlen

/-! ### non-vacuity -/

/-- the hypotheses of (a)/(b) hold for `p = 13`, `w = 5` (and the result is `3² + 2² = 13`). -/
example : ∃ a b, cornacchia 13 5 = some (a, b) ∧ a * a + b * b = 13 :=
  cornacchia_complete (by norm_num) (by norm_num) (by norm_num) (by norm_num) (by norm_num)

/-- oracles satisfying `OraclesOk` exist (and accept every prime). -/
example : ∃ (isPrime : Nat → Bool) (sqrtNegOne : Nat → Nat),
    OraclesOk isPrime sqrtNegOne ∧ ∀ z, z.Prime → isPrime z = true := exists_oracles

/-- a successful pass exists: `n = 18`, draws `x = 2, y = 1` give `z = 13`. -/
example : ∃ isPrime sqrtNegOne, OraclesOk isPrime sqrtNegOne ∧
    (specialAttempt isPrime sqrtNegOne 18 2 1).isSome = true := by
  obtain ⟨ip, sq, ho, hacc⟩ := exists_oracles
  refine ⟨ip, sq, ho, ?_⟩
  have h13 : ((18 : Nat) : Int) - ((2 : Nat) : Int) * (2 : Nat) - ((1 : Nat) : Int) * (1 : Nat) = 13 := by
    norm_num
  rw [special_pass_succeeds_iff ho, h13]
  exact Or.inr ⟨by norm_num, by decide, hacc 13 (by norm_num)⟩

/-- a rejected candidate in range: `start = 7`, `p = 129 = 3·43`. -/
example : 2 ^ 7 ≤ 129 ∧ randomPrimeCandidateOk Gen.smallPrimes Gen.smallPrimesProduct 7 129 = false := by
  decide

/-- a byte string of the right length for `length = 12`. -/
example : ([0xff, 0xfe] : List UInt8).length = (12 + 7) / 8 := by decide

end Gabi.C19

#print axioms Gabi.C19.cornacchia_bitLen_pretest
#print axioms Gabi.C19.cornacchia_is_euclid
#print axioms Gabi.C19.cornacchia_sound
#print axioms Gabi.C19.cornacchia_complete
#print axioms Gabi.C19.special_postcondition
#print axioms Gabi.C19.special_shortcut
#print axioms Gabi.C19.special_pass_succeeds_iff
#print axioms Gabi.C19.special_output_ok
#print axioms Gabi.C19.sumFourSquares_correct_given_descent
#print axioms Gabi.C19.sieve_sound
#print axioms Gabi.C19.sieve_rejects_only_small_primes
#print axioms Gabi.C19.sieve_rejected_iff
#print axioms Gabi.C19.sieve_table
#print axioms Gabi.C19.randomPrime_candidate_in_range
