/-
  C03 — Linked secrets in a proof list.
  "Verification of a proof list with a keyshare-server labelling accepts the list only if all
  proofs carrying the same label prove knowledge of the same secret-key value (with no labelling:
  all proofs in the list). Lists that combine credentials or issuance commitments holding
  different secrets under one label are rejected even though each member verifies on its own,
  also when the colluding holders pool all their secrets."

  Property theorems about `proofListVerifyWith` (prooflist.go:ProofList.Verify), `ProofU` and
  `ProofD` of GabiModel.Proofs; helper lemmas live in GabiProofs.ListLogic.

  `choices` is the model's parameter for the picks of `revocationAttrIndex` (one pair per proof);
  the theorems need `pl.length ≤ choices.length` (every proof has its pair) — with fewer pairs
  the model only looks at a prefix of the list, see `C02.choices_nil_accepts`.
-/
import GabiModel.Proofs
import GabiProofs.ListLogic
import GabiProofs.NumLemmas
import Mathlib.Tactic.NormNum
import Mathlib.Algebra.Group.Basic
import Mathlib.Algebra.Group.Commute.Basic
import Mathlib.Tactic.Ring
import Mathlib.Tactic.LinearCombination
namespace Gabi.C03
open Gabi

/-! ### the decision logic: one label, one secret-key response -/

/-- **Same label ⇒ same response.** In an accepted list any two proofs with the same
    keyshare-server label (`SameLabel kss i j`: no labelling at all, or `kss[i] = kss[j]`) report
    the same secret-key response, and that response is present (non-nil) in both.
    `Proof.secretKeyResponse` is `AResponses[0]` of a disclosure proof and `SResponse` of an
    issuance commitment proof. -/
theorem same_label_same_response {o : SigOracle} {keys : List (String × PublicKey)}
    {pl : List Proof} {ctx nonce : Int} {issig : Bool} {kss : List String}
    {choices : List (Int × Int)}
    (h : proofListVerifyWith o keys pl ctx nonce issig kss choices = .ok true)
    (hc : pl.length ≤ choices.length) {i j : Nat} (hij : i < j) (hj : j < pl.length)
    (hlab : SameLabel kss i j) :
    ∃ v, (pl[i]'(by omega)).secretKeyResponse = some v ∧ (pl[j]'hj).secretKeyResponse = some v :=
  accepted_linked h hc hij hj hlab.labelOf_eq

/-- the same as an equation between the two reported responses. -/
theorem same_label_same_response_eq {o : SigOracle} {keys : List (String × PublicKey)}
    {pl : List Proof} {ctx nonce : Int} {issig : Bool} {kss : List String}
    {choices : List (Int × Int)}
    (h : proofListVerifyWith o keys pl ctx nonce issig kss choices = .ok true)
    (hc : pl.length ≤ choices.length) {i j : Nat} (hij : i < j) (hj : j < pl.length)
    (hlab : SameLabel kss i j) :
    (pl[i]'(by omega)).secretKeyResponse = (pl[j]'hj).secretKeyResponse ∧
      ((pl[i]'(by omega)).secretKeyResponse).isSome = true := by
  obtain ⟨v, h1, h2⟩ := same_label_same_response h hc hij hj hlab
  rw [h1, h2]; exact ⟨rfl, rfl⟩

/-- with no labelling every pair of proofs is linked. -/
theorem no_labelling_all_linked {o : SigOracle} {keys : List (String × PublicKey)}
    {pl : List Proof} {ctx nonce : Int} {issig : Bool} {choices : List (Int × Int)}
    (h : proofListVerifyWith o keys pl ctx nonce issig [] choices = .ok true)
    (hc : pl.length ≤ choices.length) {i j : Nat} (hij : i < j) (hj : j < pl.length) :
    ∃ v, (pl[i]'(by omega)).secretKeyResponse = some v ∧ (pl[j]'hj).secretKeyResponse = some v :=
  same_label_same_response h hc hij hj (Or.inl rfl)

/-- **Different responses under one label ⇒ rejected.** Whatever else is in the list and whatever
    the individual proofs look like (each may verify on its own): if two proofs with the same
    label report different secret-key responses, the list is not accepted. The result is
    `false` or a (modelled) panic, never `true`. -/
theorem different_response_rejected {o : SigOracle} {keys : List (String × PublicKey)}
    {pl : List Proof} {ctx nonce : Int} {issig : Bool} {kss : List String}
    {choices : List (Int × Int)}
    (hc : pl.length ≤ choices.length) {i j : Nat} (hij : i < j) (hj : j < pl.length)
    (hlab : SameLabel kss i j)
    (hne : (pl[i]'(by omega)).secretKeyResponse ≠ (pl[j]'hj).secretKeyResponse) :
    proofListVerifyWith o keys pl ctx nonce issig kss choices ≠ .ok true := by
  intro h
  exact hne (same_label_same_response_eq h hc hij hj hlab).1

/-- a linked proof without a secret-key response is rejected as well. -/
theorem missing_response_rejected {o : SigOracle} {keys : List (String × PublicKey)}
    {pl : List Proof} {ctx nonce : Int} {issig : Bool} {kss : List String}
    {choices : List (Int × Int)}
    (hc : pl.length ≤ choices.length) {i j : Nat} (hij : i < j) (hj : j < pl.length)
    (hlab : SameLabel kss i j)
    (hnone : (pl[i]'(by omega)).secretKeyResponse = none ∨ (pl[j]'hj).secretKeyResponse = none) :
    proofListVerifyWith o keys pl ctx nonce issig kss choices ≠ .ok true := by
  intro h
  obtain ⟨v, h1, h2⟩ := same_label_same_response h hc hij hj hlab
  rcases hnone with hn | hn
  · rw [hn] at h1; cases h1
  · rw [hn] at h2; cases h2

/-! ### the reported response is the whole exponent of the secret-key base `R₀` -/

/-- An accepted issuance commitment proof has no second response for base index 0: every entry
    of `MUserResponses` has key ≥ 1 (so `SResponse` cannot be complemented by an
    `MUserResponses[0]`), and an accepted disclosure proof hides index 0 and does not disclose
    it. -/
theorem proofU_no_second_secret_response {o : SigOracle} {keys : List (String × PublicKey)}
    {pl : List Proof} {ctx nonce : Int} {issig : Bool} {kss : List String}
    {choices : List (Int × Int)}
    (h : proofListVerifyWith o keys pl ctx nonce issig kss choices = .ok true)
    (hc : pl.length ≤ choices.length) :
    (∀ p, Proof.u p ∈ pl → (∀ kv ∈ p.mUserResponses, 1 ≤ kv.1) ∧ p.mUserResponses.has 0 = false) ∧
    (∀ p, Proof.d p ∈ pl → (∃ s, p.aResponses.get 0 = some s) ∧ p.aDisclosed.has 0 = false ∧
        (∀ kv ∈ p.aDisclosed, 1 ≤ kv.1)) := by
  constructor
  · intro p hp
    obtain ⟨-, key, -, hw⟩ := accepted_member h hc hp
    have hk := ProofU.wellFormed_keys (show p.wellFormed key.2 = true from hw)
    refine ⟨hk, ?_⟩
    unfold IntMap.has
    cases hl : List.lookup 0 p.mUserResponses with
    | none => rfl
    | some v =>
      have := hk _ (lookup_some_mem _ _ _ hl)
      simp at this
  · intro p hp
    obtain ⟨-, key, -, hw⟩ := accepted_member h hc hp
    obtain ⟨h1, -, h3, h4⟩ := ProofD.wellFormed_facts (show p.wellFormed key.2 = true from hw)
    exact ⟨h1, h4, h3⟩

/-- **Issuance commitment: effective = reported.** For a well-formed `ProofU` the reconstructed
    commitment is `U^{-c} · S^{v'} · R₀^{s} · ∏ R_i^{m_i} (mod n)` where `s` is exactly the
    reported `SResponse` and every other factor uses a base `R_i` with `i ≥ 1`: no other factor
    contributes to the exponent of `R₀`. (`IsFactor pk (i, m) t` says `t = R_i^m mod n`.) -/
theorem effective_equals_reported_U {pk : PublicKey} {p : ProofU} {v : Int}
    (hw : p.wellFormed pk = true) (h : p.reconstructUcommit pk = .ok (some v)) :
    ∃ u c vp s r0 uc sv r0s ts,
      p.u = some u ∧ p.c = some c ∧ p.vPrimeResponse = some vp ∧
      (Proof.u p).secretKeyResponse = some s ∧ pk.r[0]? = some r0 ∧
      modPow u (-c) pk.n = some uc ∧ modPow pk.s vp pk.n = some sv ∧
      modPow r0 s pk.n = some r0s ∧
      List.Forall₂ (IsFactor pk) p.mUserResponses ts ∧ (∀ kv ∈ p.mUserResponses, 1 ≤ kv.1) ∧
      v % pk.n = (uc * sv * r0s * ts.prod) % pk.n := by
  obtain ⟨u, c, vp, s, r0, uc, sv, r0s, ts, h1, h2, h3, h4, h5, h6, h7, h8, h9, h10⟩ :=
    ProofU.reconstructUcommit_closed h
  exact ⟨u, c, vp, s, r0, uc, sv, r0s, ts, h1, h2, h3, h4, h5, h6, h7, h8, h9,
    ProofU.wellFormed_keys hw, h10⟩

/-- **Disclosure proof: effective = reported.** For a well-formed `ProofD` whose response map has
    no duplicate keys (a Go map cannot have any; the model's association list could) the
    reconstructed `Z` is
    `(Z·(A^{2^{le-1}}·∏_{disclosed} R_i^{a_i})^{-1})^{-c} · A^{e} · (∏₁ · R₀^{s} · ∏₂) · S^{v} mod n`
    where `s` is exactly the reported `AResponses[0]`, the other hidden factors `∏₁, ∏₂` use bases
    `R_i` with `i ≥ 1`, and so do the disclosed factors: `R₀` appears with exponent `s` only. -/
theorem effective_equals_reported_D {pk : PublicKey} {p : ProofD} {z : Int}
    (hw : p.wellFormed pk = true) (hnd : (p.aResponses.map (·.1)).Nodup)
    (h : p.reconstructZ pk = .ok (some z)) :
    ∃ a c er vr num0 ds inv knownC ae sv s r0 r0s l1 l2 ts1 ts2,
      p.a = some a ∧ p.c = some c ∧ p.eResponse = some er ∧ p.vResponse = some vr ∧
      goExp a (2 ^ (pk.params.Le - 1)) pk.n = some num0 ∧
      List.Forall₂ (IsDisclosedFactor pk) p.aDisclosed ds ∧ (∀ kv ∈ p.aDisclosed, 1 ≤ kv.1) ∧
      goModInverse (num0 * ds.prod) pk.n = some inv ∧
      modPow (pk.z * inv) (-c) pk.n = some knownC ∧ modPow a er pk.n = some ae ∧
      modPow pk.s vr pk.n = some sv ∧
      (Proof.d p).secretKeyResponse = some s ∧ pk.r[0]? = some r0 ∧
      modPow r0 s pk.n = some r0s ∧
      p.aResponses = l1 ++ (0, some s) :: l2 ∧ (∀ kv ∈ l1 ++ l2, 1 ≤ kv.1) ∧
      List.Forall₂ (IsFactor pk) l1 ts1 ∧ List.Forall₂ (IsFactor pk) l2 ts2 ∧
      z = knownC * ae * (ts1.prod * r0s * ts2.prod) * sv % pk.n := by
  obtain ⟨a, c, er, vr, num0, ds, inv, knownC, ae, sv, ts, h1, h2, h3, h4, h5, h6, h7, h8, h9,
    h10, h11, h12⟩ := ProofD.reconstructZ_closed h
  obtain ⟨⟨s, hs⟩, hA, hD, -⟩ := ProofD.wellFormed_facts hw
  obtain ⟨l1, l2, hl, hne⟩ := lookup_split _ _ _ hnd (IntMap.get_some_lookup hs)
  rw [hl] at h11
  obtain ⟨ts1, r2, rfl, hf1, hf2⟩ := forall₂_append_left _ _ _ h11
  cases hf2 with
  | @cons _ r0s _ ts2 hr0 hf2 =>
    obtain ⟨b, r, -, hb, hr, hpow⟩ := hr0
    simp only at hb hr
    have hsr : s = r := Option.some.inj hr
    subst hsr
    have hge : ∀ kv ∈ l1 ++ l2, 1 ≤ kv.1 := by
      intro kv hkv
      have h0 : 0 ≤ kv.1 := hA kv (by
        rw [hl]
        rcases List.mem_append.1 hkv with hm | hm
        · exact List.mem_append_left _ hm
        · exact List.mem_append_right _ (List.mem_cons_of_mem _ hm))
      have := hne kv hkv
      omega
    refine ⟨a, c, er, vr, num0, ds, inv, knownC, ae, sv, s, b, r0s, l1, l2, ts1, ts2, h1, h2, h3,
      h4, h5, h6, hD, h7, h8, h9, h10, hs, hb, hpow, hl, hge, hf1, hf2, ?_⟩
    rw [h12, List.prod_append, List.prod_cons, mul_assoc ts1.prod]

/-! ### what the linked response proves: the same secret-key value in every member -/

/-- **Linked extraction** (the algebra of the knowledge extractor, in any commutative group).
    Member `k` (`k = 1, 2`) of a list verifies the equation `T_k = K_k^{-c} · R_k^{s} · W_k`, where
    `R_k` is the secret-key base `R₀` of its key, `s` the reported secret-key response (the whole
    exponent of `R₀` by `effective_equals_reported_*`) and `W_k` the remaining factors. Two
    accepting transcripts of the same prover with the same commitments `T_k`, challenges `c`, `c'`
    and linked responses `s`, `s'` (the same in both members by `same_label_same_response`) give
    for *both* members `K_k^{c-c'} = R_k^{s-s'} · (W_k / W_k')`: the extracted exponent of the
    secret-key base is the same integer `s - s'` relative to `c - c'`. -/
theorem linked_extraction {G : Type} [CommGroup G] (K₁ K₂ R₁ R₂ W₁ W₁' W₂ W₂' T₁ T₂ : G)
    (c c' s s' : ℤ)
    (h₁ : T₁ = K₁ ^ (-c) * R₁ ^ s * W₁) (h₁' : T₁ = K₁ ^ (-c') * R₁ ^ s' * W₁')
    (h₂ : T₂ = K₂ ^ (-c) * R₂ ^ s * W₂) (h₂' : T₂ = K₂ ^ (-c') * R₂ ^ s' * W₂') :
    K₁ ^ (c - c') = R₁ ^ (s - s') * (W₁ / W₁') ∧ K₂ ^ (c - c') = R₂ ^ (s - s') * (W₂ / W₂') := by
  have key : ∀ (K R W W' T : G), T = K ^ (-c) * R ^ s * W → T = K ^ (-c') * R ^ s' * W' →
      K ^ (c - c') = R ^ (s - s') * (W / W') := by
    intro K R W W' T e e'
    have E : (K ^ c)⁻¹ * R ^ s * W = (K ^ c')⁻¹ * R ^ s' * W' := by
      rw [← zpow_neg, ← zpow_neg, ← e, ← e']
    rw [zpow_sub, zpow_sub, ← div_eq_mul_inv, ← div_eq_mul_inv, div_mul_div_comm,
      div_eq_div_iff_mul_eq_mul]
    have e1 : K ^ c * (R ^ s' * W') = K ^ c * K ^ c' * ((K ^ c')⁻¹ * R ^ s' * W') := by
      rw [mul_assoc (K ^ c), mul_assoc (K ^ c')⁻¹, mul_inv_cancel_left]
    have e2 : R ^ s * W * K ^ c' = K ^ c * K ^ c' * ((K ^ c)⁻¹ * R ^ s * W) := by
      rw [mul_comm (K ^ c) (K ^ c'), mul_assoc (K ^ c'), mul_assoc (K ^ c)⁻¹, mul_inv_cancel_left,
        mul_comm]
    rw [e1, e2, E]
  exact ⟨key K₁ R₁ W₁ W₁' T₁ h₁ h₁', key K₂ R₂ W₂ W₂' T₂ h₂ h₂'⟩

/-- … hence, whenever the division is exact (`s - s' = (c - c') · m`), both members prove
    knowledge of the *same* secret-key value `m = (s - s')/(c - c')`:
    `K_k^{c-c'} = (R_k^{m})^{c-c'} · (W_k / W_k')` for `k = 1, 2`. -/
theorem linked_extraction_same_secret {G : Type} [CommGroup G]
    (K₁ K₂ R₁ R₂ W₁ W₁' W₂ W₂' T₁ T₂ : G) (c c' s s' m : ℤ)
    (h₁ : T₁ = K₁ ^ (-c) * R₁ ^ s * W₁) (h₁' : T₁ = K₁ ^ (-c') * R₁ ^ s' * W₁')
    (h₂ : T₂ = K₂ ^ (-c) * R₂ ^ s * W₂) (h₂' : T₂ = K₂ ^ (-c') * R₂ ^ s' * W₂')
    (hm : s - s' = (c - c') * m) :
    K₁ ^ (c - c') = (R₁ ^ m) ^ (c - c') * (W₁ / W₁') ∧
      K₂ ^ (c - c') = (R₂ ^ m) ^ (c - c') * (W₂ / W₂') := by
  obtain ⟨e1, e2⟩ := linked_extraction K₁ K₂ R₁ R₂ W₁ W₁' W₂ W₂' T₁ T₂ c c' s s' h₁ h₁' h₂ h₂'
  rw [← zpow_mul, ← zpow_mul, mul_comm m, ← hm]
  exact ⟨e1, e2⟩

/-- the extracted value is determined by the transcripts alone: it is the same for every member,
    whichever equation it is read from. -/
theorem extracted_secret_unique (c c' s s' m₁ m₂ : ℤ) (hc : c ≠ c')
    (h1 : s - s' = (c - c') * m₁) (h2 : s - s' = (c - c') * m₂) : m₁ = m₂ := by
  have : (c - c') * m₁ = (c - c') * m₂ := by rw [← h1, ← h2]
  exact mul_left_cancel₀ (sub_ne_zero.2 hc) this

/-! ### non-vacuity -/

/-- the hypotheses of `same_label_same_response` are satisfiable: the two-proof list `Gabi.Ex`
    (GabiProofs.ListLogic §9) is accepted with no labelling and with the labelling `["a","a"]`;
    both members report the secret-key response `0`. -/
example : ∃ v, (Ex.pl[0]'(Nat.zero_lt_two)).secretKeyResponse = some v ∧
    (Ex.pl[1]'(Nat.one_lt_two)).secretKeyResponse = some v :=
  same_label_same_response (Ex.accepted ["a", "a"] (Or.inr rfl)) (Nat.le_refl 2)
    Nat.zero_lt_one Nat.one_lt_two (Or.inr rfl)

example : ∃ v, (Ex.pl[0]'(Nat.zero_lt_two)).secretKeyResponse = some v ∧
    (Ex.pl[1]'(Nat.one_lt_two)).secretKeyResponse = some v :=
  no_labelling_all_linked (Ex.accepted [] (Or.inl rfl)) (Nat.le_refl 2) Nat.zero_lt_one Nat.one_lt_two

/-- … and those of `different_response_rejected`: replacing the second member's `SResponse` by 1
    gives a list that is rejected under one label — for every key list, session, pick list and
    whatever the rest of the second proof looks like. -/
example (o : SigOracle) (keys : List (String × PublicKey)) (ctx nonce : Int) (issig : Bool)
    (choices : List (Int × Int)) (hc : 2 ≤ choices.length) (p2 : ProofU) :
    proofListVerifyWith o keys [.u (Ex.proofU Ex.C 0), .u { p2 with sResponse := some 1 }] ctx nonce
      issig ["a", "a"] choices ≠ .ok true :=
  different_response_rejected (pl := [.u (Ex.proofU Ex.C 0), .u { p2 with sResponse := some 1 }])
    hc Nat.zero_lt_one Nat.one_lt_two (Or.inr rfl) (by simp [Proof.secretKeyResponse, Ex.proofU])

/-- with *different* labels the same two responses are not compared: the linking is per label
    (`SameLabel` fails for `["a","b"]`). -/
example : ¬ SameLabel ["a", "b"] 0 1 := by
  rintro (h | h)
  · cases h
  · simp at h

/-- the hypotheses of `effective_equals_reported_U` hold for the example proofs. -/
example : (Ex.proofU Ex.C 55).wellFormed Ex.pk = true ∧
    ∃ v, (Ex.proofU Ex.C 55).reconstructUcommit Ex.pk = .ok (some v) := by
  have h := Ex.contrib Ex.C 55 Ex.modPow_s55
  obtain ⟨hw, -⟩ := ProofU.challengeContribution_ok h
  refine ⟨hw, ?_⟩
  unfold ProofU.challengeContribution at h
  rw [hw] at h
  simp only [Bool.not_true, Bool.false_eq_true, if_false] at h
  obtain ⟨r, hr, h⟩ := GoM.bind_ok h
  cases r with
  | none => cases h
  | some v => exact ⟨v, hr⟩

/-- hypotheses of `linked_extraction` are satisfiable (ℤ-multiples written multiplicatively are
    not needed: the trivial transcripts in any group). -/
example : ∃ (K R W W' T : Multiplicative ℤ) (c c' s s' : ℤ), c ≠ c' ∧
    T = K ^ (-c) * R ^ s * W ∧ T = K ^ (-c') * R ^ s' * W' :=
  ⟨Multiplicative.ofAdd 3, Multiplicative.ofAdd 1, 1, 1, Multiplicative.ofAdd 0, 1, 2, 3, 6,
    by decide, by decide, by decide⟩

/-- **Why `effective_equals_reported_D` needs `Nodup` (model representation).** The model keeps
    `map[int]*big.Int` as an association list; `ProofD.wellFormed` does not exclude a repeated
    key, `AResponses[0]` reads the first entry, but `reconstructZ` multiplies all entries: with
    `[(0, 1), (0, 1)]` the reported response is 1 while `R₀ = 16` enters with exponent 2.
    A Go map cannot hold a key twice, so this cannot happen in Go; in the model it can only
    arise through `Decode.intMap`, which keeps the JSON keys `"0"` and `"00"` apart where Go's
    decoder merges them (last one wins). -/
example : IntMap.get [(0, some 1), (0, some 1)] 0 = some 1 ∧
    ProofD.reconstructZ.go Ex.pk [(0, some 1), (0, some 1)] 1 = .ok (some (16 * 16)) := by
  have h16 : modPow 16 1 253 = some 16 := by
    unfold modPow; rw [goExp_nonneg _ _ _ (by norm_num) (by norm_num)]; norm_num
  refine ⟨rfl, ?_⟩
  unfold ProofD.reconstructZ.go
  simp only [Ex.pk, idx, deref]
  simp [h16]
  unfold ProofD.reconstructZ.go
  simp only [idx, deref]
  simp [h16]
  rfl

end Gabi.C03

#print axioms Gabi.C03.same_label_same_response
#print axioms Gabi.C03.same_label_same_response_eq
#print axioms Gabi.C03.no_labelling_all_linked
#print axioms Gabi.C03.different_response_rejected
#print axioms Gabi.C03.missing_response_rejected
#print axioms Gabi.C03.proofU_no_second_secret_response
#print axioms Gabi.C03.effective_equals_reported_U
#print axioms Gabi.C03.effective_equals_reported_D
#print axioms Gabi.C03.linked_extraction
#print axioms Gabi.C03.linked_extraction_same_secret
#print axioms Gabi.C03.extracted_secret_unique
