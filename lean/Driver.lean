import GabiModel
import GabiModel.Wire
import GabiModel.Ops
open Gabi Gabi.Wire Lean

partial def loop (h : IO.FS.Stream) (out : IO.FS.Stream) (st : Ops.State) : IO Unit := do
  let line ← h.getLine
  if line.isEmpty then return ()
  let l := line.trimAscii.toString
  if l.isEmpty then loop h out st else
  let (st', res) := match Json.parse l with
    | .error e => (st, s!"bad-op json {e}")
    | .ok j => Ops.step st j
  out.putStrLn res
  loop h out st'

def main : IO Unit := do
  let stdin ← IO.getStdin
  let stdout ← IO.getStdout
  loop stdin stdout Ops.State.init
  stdout.flush
