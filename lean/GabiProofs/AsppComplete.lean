/-
  GabiProofs.AsppComplete — completeness of the "almost safe prime product" proof
  (almostsafeprimeproduct.go): the verifier model accepts what the prover model produces.
-/
import GabiModel.KeyProof
import GabiProofs.KeyProofLemmas
import Mathlib.Data.ZMod.Basic
import Mathlib.Data.ZMod.Units
import Mathlib.RingTheory.Coprime.Lemmas
import Mathlib.Data.Nat.Totient
import Mathlib.Tactic.Ring
import Mathlib.Tactic.Linarith
import Mathlib.Tactic.LinearCombination

namespace Gabi.KeyProof
open Gabi

/-! ## group core -/

/-- if `B^(4·odd) = 1` and `4 ∣ 2^k` then `B^(2^k·u)` only depends on `u` modulo `odd`. -/
theorem zpow_gamma_congr {G : Type*} [_root_.Group G] (B : G) (odd k : ℕ) (hk : 2 ≤ k)
    (hB : B ^ (4 * odd) = 1) (u v : ℤ) (h : (odd : ℤ) ∣ u - v) :
    B ^ ((2 ^ k : ℤ) * u) = B ^ ((2 ^ k : ℤ) * v) := by
  obtain ⟨t, ht⟩ := h
  obtain ⟨j, rfl⟩ : ∃ j, k = j + 2 := ⟨k - 2, by omega⟩
  have e : (2 ^ (j + 2) : ℤ) * u = (2 ^ (j + 2) : ℤ) * v + ((4 * odd : ℕ) : ℤ) * (2 ^ j * t) := by
    push_cast
    rw [pow_add]
    linear_combination (2 ^ j * 2 ^ 2) * ht
  rw [e, zpow_add, zpow_mul B ((4 * odd : ℕ) : ℤ), zpow_natCast, hB, one_zpow, mul_one]

/-- the four acceptance alternatives at the level of the unit group. -/
theorem aspp_group_cases {G : Type*} [_root_.Group G] (B : G) (odd k : ℕ) (hk : 2 ≤ k)
    (hB : B ^ (4 * odd) = 1) (a s : ℤ)
    (h : (odd : ℤ) ∣ s - a ∨ (odd : ℤ) ∣ s + a ∨ (odd : ℤ) ∣ 2 * s - a ∨ (odd : ℤ) ∣ 2 * s + a) :
    B ^ ((2 ^ k : ℤ) * s) = B ^ ((2 ^ k : ℤ) * a) ∨
    (B ^ ((2 ^ k : ℤ) * s))⁻¹ = B ^ ((2 ^ k : ℤ) * a) ∨
    (B ^ ((2 ^ k : ℤ) * s)) ^ 2 = B ^ ((2 ^ k : ℤ) * a) ∨
    ((B ^ ((2 ^ k : ℤ) * s)) ^ 2)⁻¹ = B ^ ((2 ^ k : ℤ) * a) := by
  have hsq : (B ^ ((2 ^ k : ℤ) * s)) ^ 2 = B ^ ((2 ^ k : ℤ) * (2 * s)) := by
    rw [sq, ← zpow_add]
    congr 1
    ring
  rcases h with h | h | h | h
  · exact Or.inl (zpow_gamma_congr B odd k hk hB s a h)
  · refine Or.inr (Or.inl ?_)
    have := zpow_gamma_congr B odd k hk hB s (-a) (by simpa using h)
    rw [this, mul_neg, zpow_neg, inv_inv]
  · refine Or.inr (Or.inr (Or.inl ?_))
    rw [hsq]
    exact zpow_gamma_congr B odd k hk hB (2 * s) a h
  · refine Or.inr (Or.inr (Or.inr ?_))
    rw [hsq]
    have := zpow_gamma_congr B odd k hk hB (2 * s) (-a) (by simpa using h)
    rw [this, mul_neg, zpow_neg, inv_inv]

/-! ## integers in `[0,N)` against `ZMod N` -/

theorem int_eq_of_zmod_eq {N : ℕ} {a b : ℤ} (ha0 : 0 ≤ a) (haN : a < N) (hb0 : 0 ≤ b) (hbN : b < N)
    (h : (a : ZMod N) = (b : ZMod N)) : a = b := by
  rw [ZMod.intCast_eq_intCast_iff'] at h
  rwa [Int.emod_eq_of_lt ha0 haN, Int.emod_eq_of_lt hb0 hbN] at h

/-- Go's `ModInverse` of a representative of a unit exists and represents the inverse unit. -/
theorem goModInverse_of_unit {N : ℕ} (hN : 1 < N) (t : ℤ) (T : (ZMod N)ˣ)
    (hT : (t : ZMod N) = (T : ZMod N)) :
    ∃ t', goModInverse t N = some t' ∧ 0 ≤ t' ∧ t' < N ∧ (t' : ZMod N) = ((T⁻¹ : (ZMod N)ˣ) : ZMod N) := by
  have hN0 : ((N : ℕ) : ℤ) ≠ 0 := by omega
  have hunit : IsUnit (t : ZMod N) := by rw [hT]; exact T.isUnit
  have hgcd : Int.gcd t N = 1 := by
    rw [ZMod.coe_int_isUnit_iff_isCoprime, Int.isCoprime_iff_gcd_eq_one, Int.gcd_comm] at hunit
    exact hunit
  cases hinv : goModInverse t N with
  | none => exact absurd hgcd ((goModInverse_none_iff t N hN0).mp hinv)
  | some t' =>
    obtain ⟨h0, hlt, hmul⟩ := goModInverse_some hinv
    simp only [Int.natAbs_natCast] at hlt hmul
    refine ⟨t', rfl, h0, hlt, ?_⟩
    have h1 : ((t * t' : ℤ) : ZMod N) = ((1 : ℤ) : ZMod N) :=
      (ZMod.intCast_eq_intCast_iff' _ _ _).mpr hmul
    push_cast at h1
    rw [hT] at h1
    calc (t' : ZMod N) = ((T⁻¹ : (ZMod N)ˣ) : ZMod N) * ((T : ZMod N) * (t' : ZMod N)) := by
          rw [← mul_assoc, Units.inv_mul, one_mul]
      _ = ((T⁻¹ : (ZMod N)ˣ) : ZMod N) := by rw [h1, mul_one]

/-! ## the prover's response -/

theorem aspp_dvd_cases (o a x1 x3 inv2 r : ℤ) (h1 : o ∣ x1 - a) (hi : o ∣ 1 - 2 * inv2)
    (h3 : o ∣ x3 - inv2 * x1) :
    (o ∣ r * r - x1 → o ∣ r * r - a) ∧ (o ∣ r * r - (o - x1) → o ∣ r * r + a) ∧
    (o ∣ r * r - x3 → o ∣ 2 * (r * r) - a) ∧ (o ∣ r * r - (o - x3) → o ∣ 2 * (r * r) + a) := by
  obtain ⟨c1, h1⟩ := h1
  obtain ⟨e, hi⟩ := hi
  obtain ⟨c3, h3⟩ := h3
  refine ⟨?_, ?_, ?_, ?_⟩
  · rintro ⟨d, hd⟩
    exact ⟨d + c1, by linear_combination hd + h1⟩
  · rintro ⟨d, hd⟩
    exact ⟨d + 1 - c1, by linear_combination hd - h1⟩
  · rintro ⟨d, hd⟩
    exact ⟨2 * d + 2 * c3 - e * x1 + c1, by linear_combination 2 * hd + 2 * h3 - x1 * hi + h1⟩
  · rintro ⟨d, hd⟩
    exact ⟨2 * d + 2 - 2 * c3 + e * x1 - c1, by linear_combination 2 * hd - 2 * h3 + x1 * hi - h1⟩

theorem asppResponse_spec (odd : ℕ) (log x r : ℤ) (sqrt : ℤ → Option ℤ)
    (hsqrt : ∀ a s, sqrt a = some s → 0 ≤ s ∧ (s * s - a) % (odd : ℤ) = 0)
    (hresp : asppResponse sqrt (4 * (odd : ℤ)) odd log x = some r) :
    0 ≤ r ∧ ((odd : ℤ) ∣ r * r - (log + x) ∨ (odd : ℤ) ∣ r * r + (log + x) ∨
      (odd : ℤ) ∣ 2 * (r * r) - (log + x) ∨ (odd : ℤ) ∣ 2 * (r * r) + (log + x)) := by
  unfold asppResponse at hresp
  simp only at hresp
  cases hinv : goModInverse 2 (odd : ℤ) with
  | none => rw [hinv] at hresp; exact absurd hresp (by simp)
  | some inv2 =>
    rw [hinv] at hresp
    simp only at hresp
    obtain ⟨-, -, hmul⟩ := goModInverse_some hinv
    simp only [Int.natAbs_natCast] at hmul
    have hi : (odd : ℤ) ∣ 1 - 2 * inv2 := Int.ModEq.dvd hmul
    have h1 : (odd : ℤ) ∣ (log + x) % (4 * (odd : ℤ)) % (odd : ℤ) - (log + x) := by
      rw [Int.emod_emod_of_dvd _ (Dvd.intro_left 4 rfl)]
      exact ⟨-((log + x) / (odd : ℤ)), by rw [Int.emod_def]; ring⟩
    have h3 : (odd : ℤ) ∣ (inv2 * ((log + x) % (4 * (odd : ℤ)) % (odd : ℤ))) % (odd : ℤ)
        - inv2 * ((log + x) % (4 * (odd : ℤ)) % (odd : ℤ)) :=
      ⟨-((inv2 * ((log + x) % (4 * (odd : ℤ)) % (odd : ℤ))) / (odd : ℤ)), by rw [Int.emod_def]; ring⟩
    obtain ⟨c1, c2, c3, c4⟩ := aspp_dvd_cases (odd : ℤ) (log + x) _ _ inv2 r h1 hi h3
    have key : ∀ a, sqrt a = some r → 0 ≤ r ∧ (odd : ℤ) ∣ r * r - a := fun a h =>
      ⟨(hsqrt a r h).1, Int.dvd_of_emod_eq_zero (hsqrt a r h).2⟩
    split at hresp
    · next s hs =>
      cases Option.some.inj hresp
      exact ⟨(key _ hs).1, Or.inl (c1 (key _ hs).2)⟩
    · split at hresp
      · next s hs =>
        cases Option.some.inj hresp
        exact ⟨(key _ hs).1, Or.inr (Or.inl (c2 (key _ hs).2))⟩
      · split at hresp
        · next s hs =>
          cases Option.some.inj hresp
          exact ⟨(key _ hs).1, Or.inr (Or.inr (Or.inl (c3 (key _ hs).2)))⟩
        · exact ⟨(key _ hresp).1, Or.inr (Or.inr (Or.inr (c4 (key _ hresp).2)))⟩

/-! ## one round -/

theorem two_pow_toNat (k : ℕ) : ((2 : ℤ) ^ k).toNat = 2 ^ k := by
  rw [show (2 : ℤ) ^ k = ((2 ^ k : ℕ) : ℤ) by push_cast; rfl]
  exact Int.toNat_natCast _

/-- acceptance of a round from the number-theoretic relation between response and exponent. -/
theorem asppRound_accept_of {N : ℕ} (odd : ℕ) (k : ℕ) (base x log r : ℤ)
    (hN : 1 < N) (hk : 2 ≤ k)
    (hbase : 0 ≤ base ∧ base < N) (hcop : Nat.gcd base.natAbs N = 1)
    (heuler : ∀ b : ℕ, Nat.Coprime b N → b ^ (4 * odd) % N = 1)
    (hx : 0 ≤ x) (hlog : 0 ≤ log) (hr : 0 ≤ r)
    (hrel : (odd : ℤ) ∣ r * r - (log + x) ∨ (odd : ℤ) ∣ r * r + (log + x) ∨
      (odd : ℤ) ∣ 2 * (r * r) - (log + x) ∨ (odd : ℤ) ∣ 2 * (r * r) + (log + x)) :
    asppRound N (2 ^ k) base x (base ^ log.toNat % N) r = .accept := by
  have hNi : (0 : ℤ) < N := by omega
  have hg0 : (0 : ℤ) ≤ 2 ^ k := by positivity
  obtain ⟨l, rfl⟩ := Int.eq_ofNat_of_zero_le hlog
  obtain ⟨xn, rfl⟩ := Int.eq_ofNat_of_zero_le hx
  obtain ⟨rn, rfl⟩ := Int.eq_ofNat_of_zero_le hr
  -- the unit
  have hcop' : Nat.Coprime base.natAbs N := hcop
  let B : (ZMod N)ˣ := ZMod.unitOfCoprime base.natAbs hcop'
  have hBval : (B : ZMod N) = (base : ZMod N) := by
    rw [ZMod.coe_unitOfCoprime]
    conv_rhs => rw [← Int.natAbs_of_nonneg hbase.1]
    simp
  have hB4 : B ^ (4 * odd) = 1 := by
    apply Units.ext
    rw [Units.val_pow_eq_pow_val, ZMod.coe_unitOfCoprime, Units.val_one, ← Nat.cast_pow,
      ← ZMod.natCast_mod, heuler _ hcop', Nat.cast_one]
  -- the two group elements
  have hcases := aspp_group_cases B odd k hk hB4 ((l : ℤ) + xn) ((rn : ℤ) * rn) hrel
  have hU : B ^ ((2 ^ k : ℤ) * ((l : ℤ) + xn)) = B ^ (2 ^ k * (l + xn)) := by
    rw [← zpow_natCast]; push_cast; rfl
  have hT : B ^ ((2 ^ k : ℤ) * ((rn : ℤ) * rn)) = B ^ (2 ^ k * (rn * rn)) := by
    rw [← zpow_natCast]; push_cast; rfl
  rw [hU, hT] at hcases
  -- the verifier's integers
  set yg : ℤ := (base ^ l % (N : ℤ) * (base ^ xn % (N : ℤ)) % (N : ℤ)) ^ (2 ^ k) % (N : ℤ) with hyg
  set t1 : ℤ := ((base ^ (2 ^ k) % (N : ℤ)) ^ rn % (N : ℤ)) ^ rn % (N : ℤ) with ht1
  have hygc : (yg : ZMod N) = ((B ^ (2 ^ k * (l + xn)) : (ZMod N)ˣ) : ZMod N) := by
    rw [hyg, Units.val_pow_eq_pow_val, hBval]
    simp only [ZMod.intCast_mod, Int.cast_pow, Int.cast_mul]
    ring
  have ht1c : (t1 : ZMod N) = ((B ^ (2 ^ k * (rn * rn)) : (ZMod N)ˣ) : ZMod N) := by
    rw [ht1, Units.val_pow_eq_pow_val, hBval]
    simp only [ZMod.intCast_mod, Int.cast_pow]
    ring
  have hyg_r : 0 ≤ yg ∧ yg < N := ⟨Int.emod_nonneg _ (by omega), Int.emod_lt_of_pos _ hNi⟩
  have ht1_r : 0 ≤ t1 ∧ t1 < N := ⟨Int.emod_nonneg _ (by omega), Int.emod_lt_of_pos _ hNi⟩
  obtain ⟨t2, ht2, ht2_0, ht2_N, ht2c⟩ := goModInverse_of_unit hN t1 _ ht1c
  have ht3c : ((t1 ^ 2 % (N : ℤ) : ℤ) : ZMod N)
      = (((B ^ (2 ^ k * (rn * rn))) ^ 2 : (ZMod N)ˣ) : ZMod N) := by
    rw [ZMod.intCast_mod, Int.cast_pow, ht1c, Units.val_pow_eq_pow_val _ 2]
  have ht3_r : 0 ≤ t1 ^ 2 % (N : ℤ) ∧ t1 ^ 2 % (N : ℤ) < N :=
    ⟨Int.emod_nonneg _ (by omega), Int.emod_lt_of_pos _ hNi⟩
  obtain ⟨t4, ht4, ht4_0, ht4_N, ht4c⟩ := goModInverse_of_unit hN _ _ ht3c
  -- run the verifier
  unfold asppRound expInPlace
  simp only [goExp_nonneg _ _ _ hNi (Int.natCast_nonneg _), goExp_nonneg _ _ _ hNi hg0,
    goExp_nonneg _ 2 _ hNi (by norm_num), Option.getD_some, Int.toNat_natCast, two_pow_toNat]
  rw [← hyg, ← ht1]
  rw [show Int.toNat 2 = 2 from rfl, ht2]
  simp only
  rw [ht4]
  simp only
  rw [ofBool_accept_iff]
  simp only [Bool.or_eq_true, decide_eq_true_eq]
  rcases hcases with h | h | h | h
  · refine Or.inl (Or.inl (Or.inl ?_))
    exact int_eq_of_zmod_eq ht1_r.1 ht1_r.2 hyg_r.1 hyg_r.2 (by rw [ht1c, hygc, h])
  · refine Or.inl (Or.inl (Or.inr ?_))
    exact int_eq_of_zmod_eq ht2_0 ht2_N hyg_r.1 hyg_r.2 (by rw [ht2c, hygc, h])
  · refine Or.inl (Or.inr ?_)
    exact int_eq_of_zmod_eq ht3_r.1 ht3_r.2 hyg_r.1 hyg_r.2 (by rw [ht3c, hygc, h])
  · refine Or.inr ?_
    exact int_eq_of_zmod_eq ht4_0 ht4_N hyg_r.1 hyg_r.2 (by rw [ht4c, hygc, h])

/-- **Completeness of one round** (the hypotheses `0 < odd`, `odd` odd of the version below are
    not needed: when `2` has no inverse modulo `odd` the prover model has no response). -/
theorem asppRound_complete' {N : ℕ} (odd : ℕ) (k : ℕ) (base x log r : ℤ)
    (sqrt : ℤ → Option ℤ)
    (hN : 1 < N) (hk : 2 ≤ k)
    (hbase : 0 ≤ base ∧ base < N) (hcop : Nat.gcd base.natAbs N = 1)
    (heuler : ∀ b : ℕ, Nat.Coprime b N → b ^ (4 * odd) % N = 1)
    (hx : 0 ≤ x) (hlog : 0 ≤ log)
    (hsqrt : ∀ a s, sqrt a = some s → 0 ≤ s ∧ (s * s - a) % (odd : ℤ) = 0)
    (hresp : asppResponse sqrt (4 * (odd : ℤ)) odd log x = some r) :
    asppRound N (2 ^ k) base x (base ^ log.toNat % N) r = .accept := by
  obtain ⟨hr, hrel⟩ := asppResponse_spec odd log x r sqrt hsqrt hresp
  exact asppRound_accept_of odd k base x log r hN hk hbase hcop heuler hx hlog hr hrel

set_option linter.unusedVariables false in
/-- **GOAL 1: completeness of one round**, with the signature asked for (`hodd`, `hodd2` unused). -/
theorem asppRound_complete {N : ℕ} (odd : ℕ) (k : ℕ) (base x log r : ℤ)
    (sqrt : ℤ → Option ℤ)
    (hN : 1 < N) (hk : 2 ≤ k) (hodd : 0 < odd) (hodd2 : odd % 2 = 1)
    (hbase : 0 ≤ base ∧ base < N) (hcop : Nat.gcd base.natAbs N = 1)
    (heuler : ∀ b : ℕ, Nat.Coprime b N → b ^ (4 * odd) % N = 1)
    (hx : 0 ≤ x) (hlog : 0 ≤ log)
    (hsqrt : ∀ a s, sqrt a = some s → 0 ≤ s ∧ (s * s - a) % (odd : ℤ) = 0)
    (hresp : asppResponse sqrt (4 * (odd : ℤ)) odd log x = some r) :
    asppRound N (2 ^ k) base x (base ^ log.toNat % N) r = .accept :=
  asppRound_complete' odd k base x log r sqrt hN hk hbase hcop heuler hx hlog hsqrt hresp

/-! ## all rounds -/

/-- `almostSafePrimeProductBuild` with an arbitrary square-root routine. -/
def asppBuildWith (sqrt : ℤ → Option ℤ) (pp qp challenge index : ℤ) (logs : List ℤ) :
    Option (List ℤ) :=
  let n := (2 * pp + 1) * (2 * qp + 1)
  let phi := 4 * (pp * qp)
  let odd := pp * qp
  rounds Gen.kp_almostSafePrimeProductIters fun i =>
    match logs[i]? with
    | none => none
    | some lg => asppResponse sqrt phi odd lg (asppX challenge index i n)

theorem almostSafePrimeProductBuild_eq (pp qp c i : ℤ) (logs : List ℤ) :
    almostSafePrimeProductBuild pp qp c i logs
      = asppBuildWith (fun a => sqrtRoot? (modSqrt a [pp, qp])) pp qp c i logs := rfl

/-- Euler for a product of two distinct primes `2p'+1`, `2q'+1`. -/
theorem euler_two_safe (pp qp : ℕ) (hP : (2 * pp + 1).Prime) (hQ : (2 * qp + 1).Prime)
    (hne : pp ≠ qp) (b : ℕ) (hb : Nat.Coprime b ((2 * pp + 1) * (2 * qp + 1))) :
    b ^ (4 * (pp * qp)) % ((2 * pp + 1) * (2 * qp + 1)) = 1 := by
  have hN : 1 < (2 * pp + 1) * (2 * qp + 1) := by
    have := hP.two_le; have := hQ.two_le; nlinarith
  have hφ : Nat.totient ((2 * pp + 1) * (2 * qp + 1)) = 4 * (pp * qp) := by
    rw [totient_two_primes hP hQ (by omega)]
    simp only [Nat.add_sub_cancel]
    ring
  have h := Nat.ModEq.pow_totient hb
  rw [hφ] at h
  unfold Nat.ModEq at h
  rw [h, Nat.mod_eq_of_lt hN]

/-- **GOAL 2: completeness of the almost-safe-prime-product proof.** -/
theorem aspp_complete (pp qp N : ℕ) (challenge index nonce : ℤ) (logs coms rs : List ℤ)
    (sqrt : ℤ → Option ℤ)
    (hNdef : N = (2 * pp + 1) * (2 * qp + 1))
    (hP : (2 * pp + 1).Prime) (hQ : (2 * qp + 1).Prime) (hne : pp ≠ qp)
    (hN3 : N % 3 = 1)
    (hsqrt : ∀ a s, sqrt a = some s → 0 ≤ s ∧ (s * s - a) % ((pp * qp : ℕ) : ℤ) = 0)
    (hlogs : ∀ l ∈ logs, (0 : ℤ) ≤ l)
    (hcop : ∀ i, i < Gen.kp_almostSafePrimeProductIters →
      Nat.gcd (asppBase nonce i N).natAbs N = 1)
    (hcoms : ∀ i l, i < Gen.kp_almostSafePrimeProductIters → logs[i]? = some l →
      coms[i]? = some (asppBase nonce i N ^ l.toNat % N))
    (hb : asppBuildWith sqrt pp qp challenge index logs = some rs) :
    almostSafePrimeProductVerifyProof N challenge index nonce coms rs = .accept := by
  have hN : 1 < N := by
    have := hP.two_le; have := hQ.two_le; rw [hNdef]; nlinarith
  have hNi : (0 : ℤ) < N := by omega
  have hcast : (2 * (pp : ℤ) + 1) * (2 * (qp : ℤ) + 1) = (N : ℤ) := by
    rw [hNdef]; push_cast; rfl
  have heuler : ∀ b : ℕ, Nat.Coprime b N → b ^ (4 * (pp * qp)) % N = 1 := by
    intro b hbN
    rw [hNdef] at hbN ⊢
    exact euler_two_safe pp qp hP hQ hne b hbN
  have hk : 2 ≤ bitLen (N : ℤ) := by
    rw [bitLen_eq_natBitLen, Int.natAbs_natCast]
    by_contra hlt
    have := (natBitLen_le_iff N 1).mp (by omega)
    omega
  unfold asppBuildWith at hb
  simp only at hb
  rw [rounds_eq_some] at hb
  obtain ⟨hlen, hround⟩ := hb
  unfold almostSafePrimeProductVerifyProof
  rw [if_neg (by omega), if_neg (by omega)]
  simp only
  rw [firstFailure_accept_iff]
  intro i hi
  have hi' := List.mem_range.mp hi
  have hr := hround i hi'
  have hlt : i < rs.length := by omega
  rw [List.getElem?_eq_getElem hlt] at hr ⊢
  cases hl : logs[i]? with
  | none => rw [hl] at hr; exact absurd hr (by simp)
  | some lg =>
    rw [hl] at hr
    simp only at hr
    rw [hcoms i lg hi' hl]
    simp only
    have hlg : 0 ≤ lg := hlogs lg (List.mem_of_getElem? hl)
    have hresp : asppResponse sqrt (4 * ((pp * qp : ℕ) : ℤ)) ((pp * qp : ℕ) : ℤ) lg
        (asppX challenge index i N) = some rs[i] := by
      rw [hcast] at hr
      push_cast
      exact hr
    refine asppRound_complete' (pp * qp) (bitLen (N : ℤ)) _ _ lg rs[i] sqrt hN hk ?_ (hcop i hi') heuler
      ?_ hlg hsqrt hresp
    · exact ⟨Int.emod_nonneg _ (by omega), Int.emod_lt_of_pos _ hNi⟩
    · exact Int.natCast_nonneg _

/-- GOAL 2 for the model's own builder (`common.ModSqrt` as square-root routine). -/
theorem aspp_complete_build (pp qp N : ℕ) (challenge index nonce : ℤ) (logs coms rs : List ℤ)
    (hNdef : N = (2 * pp + 1) * (2 * qp + 1))
    (hP : (2 * pp + 1).Prime) (hQ : (2 * qp + 1).Prime) (hne : pp ≠ qp)
    (hN3 : N % 3 = 1)
    (hsqrt : ∀ a s, sqrtRoot? (modSqrt a [(pp : ℤ), (qp : ℤ)]) = some s →
      0 ≤ s ∧ (s * s - a) % ((pp * qp : ℕ) : ℤ) = 0)
    (hlogs : ∀ l ∈ logs, (0 : ℤ) ≤ l)
    (hcop : ∀ i, i < Gen.kp_almostSafePrimeProductIters →
      Nat.gcd (asppBase nonce i N).natAbs N = 1)
    (hcoms : ∀ i l, i < Gen.kp_almostSafePrimeProductIters → logs[i]? = some l →
      coms[i]? = some (asppBase nonce i N ^ l.toNat % N))
    (hb : almostSafePrimeProductBuild pp qp challenge index logs = some rs) :
    almostSafePrimeProductVerifyProof N challenge index nonce coms rs = .accept :=
  aspp_complete pp qp N challenge index nonce logs coms rs _ hNdef hP hQ hne hN3 hsqrt hlogs hcop hcoms
    (by rw [← almostSafePrimeProductBuild_eq]; exact hb)

end Gabi.KeyProof
