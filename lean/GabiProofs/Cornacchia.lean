/-
  GabiProofs.Cornacchia — the deterministic core of `sumFourSquaresSpecial`
  (internal/common/mathutil.go:220-296): Cornacchia's descent for `a² + b² = p`.

  For a prime `p ≡ 1 (mod 4)` and `w` with `w² ≡ −1 (mod p)`, `0 < w < p`, the Go loop runs Euclid's
  algorithm on `(p, w)` and returns the first remainder `r_k` with `r_k² < p` together with the next
  remainder `r_{k+1}`. We give a functional model of the loop exactly as written (`cornacchia`),
  show that it is the plain Euclidean descent (`descent`), and prove that the descent always
  stops with `r_k² + r_{k+1}² = p`.

  Proof idea (elementary, no continued-fraction symmetry needed). Along Euclid's sequence keep the
  unsigned cofactors `s_i` (`s_0 = 0, s_1 = 1, s_{i+1} = s_{i-1} + q_i s_i`). The lattice
  `{(x, y) | x ≡ w·y (mod p)}` has a Gram matrix divisible by `p`, which gives the invariants
    p ∣ r_i² + s_i²,   p ∣ r_{i+1}² + s_{i+1}²,   p ∣ r_i r_{i+1} − s_i s_{i+1},   r_i s_{i+1} + r_{i+1} s_i = p.
  At the stopping index the size bounds force `r_k² + s_k² = p` and then
  `r_k r_{k+1} − s_k s_{k+1} = 0`, from which `r_{k+1} = s_k`.
-/
import GabiModel.MathUtil
import GabiProofs.NumLemmas
import GabiProofs.MathUtilLemmas
import Mathlib.Tactic.Ring
import Mathlib.Tactic.Linarith
import Mathlib.Tactic.LinearCombination
import Mathlib.Tactic.Push
import Mathlib.Data.Nat.Prime.Basic
import Mathlib.Algebra.Order.Ring.Abs
import Mathlib.Algebra.Order.Group.Int
import Mathlib.NumberTheory.LegendreSymbol.Basic

namespace Gabi.Cornacchia
open Gabi

/-! ## 1. The Go loop, as written -/

/-- the guarded comparison of the Go code:
    `if 2*r.BitLen()-1 <= p.BitLen() { t1.Mul(r, r); if p.Cmp(t1) > 0 { … } }`
    (Go `int` arithmetic: for `r = 0` the left side is `-1`). -/
def sqTest (p r : Nat) : Bool :=
  decide (2 * (natBitLen r : Int) - 1 ≤ (natBitLen p : Int)) && decide (r * r < p)

/-- the inner `for { … }` of `sumFourSquaresSpecial` (mathutil.go:270-294) on the state `(z, w)`;
    `none` = `break` (a remainder became 0: the outer loop retries with fresh random `x, y`).
    The guard `w = 0` is unreachable from `cornacchia` (Go would panic with a division by zero). -/
def goLoop (p : Nat) (z w : Nat) : Option (Nat × Nat) :=
  if hw : w = 0 then none else
  let z1 := z % w                                   -- z.Mod(z, w)
  if hz : z1 = 0 then none                          -- if z.BitLen() == 0 { break }
  else if sqTest p z1 then some (z1, w % z1)        -- w.Mod(w, z); return x, y, z, w
  else
    let w1 := w % z1                                -- w.Mod(w, z)
    if w1 = 0 then none                             -- if w.BitLen() == 0 { break }
    else if sqTest p w1 then some (z1 % w1, w1)     -- z.Mod(z, w); return x, y, z, w
    else goLoop p z1 w1
termination_by w
decreasing_by
  have h1 : z % w < w := Nat.mod_lt _ (Nat.pos_of_ne_zero hw)
  have h2 : w % (z % w) < z % w := Nat.mod_lt _ (Nat.pos_of_ne_zero hz)
  omega

/-- mathutil.go:257-294 after `p.Set(z)` and `w = ModSqrt(p-1, p)`: the pre-test on `w` itself, then the
    loop started at `(z, w) = (p, w)`. Returns the final `(z, w)`.
    `w = 0` is outside the domain (Go: `z.Mod(z, 0)` panics; cannot happen for a root of `−1`). -/
def cornacchia (p w : Nat) : Option (Nat × Nat) :=
  if w = 0 then none
  else if sqTest p w then some (p % w, w)           -- z.Mod(z, w); return x, y, z, w
  else goLoop p p w

/-! ## 2. The bit-length pre-test is only an optimisation -/

/-- `p > r²` implies the bit-length pre-test `2·bitLen r − 1 ≤ bitLen p` … -/
theorem bitLen_pretest {p r : Nat} (h : r * r < p) :
    2 * (natBitLen r : Int) - 1 ≤ (natBitLen p : Int) := by
  by_cases hr : r = 0
  · subst hr
    have : natBitLen 0 = 0 := by simp [natBitLen]
    rw [this]; omega
  · have h1 := two_pow_natBitLen_le r hr
    have h2 := lt_two_pow_natBitLen p
    have hpos := (natBitLen_pos_iff r).mpr hr
    have h3 : 2 ^ (natBitLen r - 1) * 2 ^ (natBitLen r - 1) ≤ r * r := Nat.mul_le_mul h1 h1
    rw [← Nat.pow_add] at h3
    have h4 : 2 ^ (natBitLen r - 1 + (natBitLen r - 1)) < 2 ^ natBitLen p := by omega
    have h5 := (Nat.pow_lt_pow_iff_right (by norm_num : 1 < 2)).mp h4
    omega

/-- … hence the guarded test is exactly `r² < p`. -/
theorem sqTest_eq (p r : Nat) : sqTest p r = decide (r * r < p) := by
  unfold sqTest
  by_cases h : r * r < p
  · simp [h, bitLen_pretest h]
  · simp [h]

/-! ## 3. Plain Euclidean descent -/

/-- Euclid on consecutive remainders `(a, b)`: stop at the first `b` with `b² < p` and return it with
    the next remainder; `swap` records in which of the two Go variables (`z`, `w`) it sits. -/
def descent (p : Nat) (swap : Bool) (a b : Nat) : Option (Nat × Nat) :=
  if h : b = 0 then none
  else if b * b < p then some (if swap then (a % b, b) else (b, a % b))
  else descent p (!swap) b (a % b)
termination_by b
decreasing_by exact Nat.mod_lt _ (Nat.pos_of_ne_zero h)

theorem goLoop_eq_descent (p : Nat) : ∀ (w z : Nat), w ≠ 0 →
    goLoop p z w = descent p false w (z % w) := by
  intro w
  induction w using Nat.strongRecOn with
  | _ w ih =>
    intro z hw
    rw [goLoop, dif_neg hw]
    simp only [sqTest_eq]
    rw [descent]
    by_cases hz : z % w = 0
    · simp [hz]
    · rw [dif_neg hz, dif_neg hz]
      by_cases h1 : z % w * (z % w) < p
      · simp [h1]
      · simp only [h1, decide_false, Bool.false_eq_true, if_false, Bool.not_false]
        rw [descent]
        by_cases hw1 : w % (z % w) = 0
        · simp [hw1]
        · rw [if_neg hw1, dif_neg hw1]
          by_cases h2 : w % (z % w) * (w % (z % w)) < p
          · simp [h2]
          · simp only [h2, decide_false, Bool.false_eq_true, if_false, Bool.not_true]
            have hlt : w % (z % w) < w :=
              lt_trans (Nat.mod_lt _ (Nat.pos_of_ne_zero hz)) (Nat.mod_lt _ (Nat.pos_of_ne_zero hw))
            exact ih _ hlt _ hw1

/-- the Go routine is Euclid's descent on `(p, w)`. -/
theorem cornacchia_eq_descent (p w : Nat) : cornacchia p w = descent p true p w := by
  unfold cornacchia
  rw [descent]
  by_cases hw : w = 0
  · simp [hw]
  · rw [if_neg hw, dif_neg hw, sqTest_eq]
    by_cases h1 : w * w < p
    · simp [h1]
    · simp only [h1, decide_false, Bool.false_eq_true, if_false, Bool.not_true]
      exact goLoop_eq_descent p w p hw

/-! ## 4. The invariant -/

/-- invariant for consecutive remainders `a = r_i > b = r_{i+1}` with unsigned cofactors
    `s = s_i ≤ t = s_{i+1}`. -/
structure Inv (p a b s t : Nat) : Prop where
  n1 : (p : Int) ∣ (a : Int) * a + s * s
  n2 : (p : Int) ∣ (b : Int) * b + t * t
  ip : (p : Int) ∣ (a : Int) * b - s * t
  det : a * t + b * s = p
  lt : b < a
  st : s ≤ t

/-- start of the descent: `(r_0, r_1, s_0, s_1) = (p, w, 0, 1)`. -/
theorem Inv.init {p w : Nat} (hwp : w < p) (hw : p ∣ w * w + 1) : Inv p p w 0 1 where
  n1 := ⟨p, by push_cast; ring⟩
  n2 := by
    have : (p : Int) ∣ ((w * w + 1 : Nat) : Int) := Int.natCast_dvd_natCast.mpr hw
    simpa using this
  ip := ⟨w, by push_cast; ring⟩
  det := by omega
  lt := hwp
  st := by omega

/-- one Euclidean step preserves the invariant. -/
theorem Inv.step {p a b s t : Nat} (h : Inv p a b s t) (hb : b ≠ 0) :
    Inv p b (a % b) t (s + a / b * t) := by
  obtain ⟨⟨k1, h1⟩, ⟨k2, h2⟩, ⟨k3, h3⟩, det, lt, st⟩ := h
  refine ⟨⟨k2, h2⟩, ⟨k1 - 2 * (a / b : Nat) * k3 + (a / b : Nat) * (a / b : Nat) * k2, ?_⟩,
    ⟨k3 - (a / b : Nat) * k2, ?_⟩, ?_, Nat.mod_lt _ (Nat.pos_of_ne_zero hb), ?_⟩
  · push_cast
    rw [Int.emod_def]
    linear_combination h1 - 2 * ((a : Int) / b) * h3 + ((a : Int) / b) * ((a : Int) / b) * h2
  · push_cast
    rw [Int.emod_def]
    linear_combination h3 - ((a : Int) / b) * h2
  · have := Nat.div_add_mod a b
    calc b * (s + a / b * t) + a % b * t = (b * (a / b) + a % b) * t + b * s := by ring
      _ = a * t + b * s := by rw [this]
      _ = p := det
  · have hq : 1 ≤ a / b := (Nat.one_le_div_iff (Nat.pos_of_ne_zero hb)).mpr (le_of_lt lt)
    calc t = 1 * t := (Nat.one_mul t).symm
      _ ≤ a / b * t := Nat.mul_le_mul_right t hq
      _ ≤ s + a / b * t := Nat.le_add_left _ _

/-- a remainder never becomes 0 while the previous one is still `> √p`. -/
theorem Inv.ne_zero {p a b s t : Nat} (h : Inv p a b s t) (hp : p.Prime) (big : p < a * a) :
    b ≠ 0 := by
  intro hb
  subst hb
  obtain ⟨-, n2, -, det, -, -⟩ := h
  have hpt : p ∣ t * t := by
    have : (p : Int) ∣ ((t * t : Nat) : Int) := by simpa using n2
    exact Int.natCast_dvd_natCast.mp this
  have hpt' : p ∣ t := by
    rcases (Nat.Prime.dvd_mul hp).mp hpt with h | h <;> exact h
  obtain ⟨m, hm⟩ := hpt'
  have hp0 := hp.pos
  have h1 : p * (a * m) = p * 1 := by
    calc p * (a * m) = a * (p * m) + 0 * s := by ring
      _ = p := by rw [← hm]; exact det
      _ = p * 1 := (Nat.mul_one p).symm
  have h2 : a * m = 1 := Nat.eq_of_mul_eq_mul_left hp0 h1
  have h3 : a = 1 := Nat.eq_one_of_mul_eq_one_right h2
  subst h3
  have := hp.two_le
  omega

/-- at the stopping index `b = r_k` (`r_{k-1}² > p > r_k²`): `r_k² + r_{k+1}² = p`. -/
theorem Inv.final {p a b s t : Nat} (h : Inv p a b s t) (hp : p.Prime) (h2 : p ≠ 2)
    (big : p < a * a) (hb0 : b ≠ 0) (hb : b * b < p) :
    b * b + (a % b) * (a % b) = p := by
  have hstep := h.step hb0
  obtain ⟨-, n2, ip, det, lt, st⟩ := h
  have hp0 : 0 < p := hp.pos
  have hbpos : 0 < b := Nat.pos_of_ne_zero hb0
  have ha0 : 0 < a := by omega
  -- step 1: `t² < p`
  have hat : a * t ≤ p := by omega
  have htt : t * t < p := by
    by_contra hcon
    push Not at hcon
    have h1 : (a * t) * (a * t) ≤ p * p := Nat.mul_le_mul hat hat
    nlinarith
  -- step 2: `b² + t² = p`
  have hsum : b * b + t * t = p := by
    have n2' : p ∣ b * b + t * t := by
      have : (p : Int) ∣ ((b * b + t * t : Nat) : Int) := by simpa using n2
      exact Int.natCast_dvd_natCast.mp this
    obtain ⟨k, hk⟩ := n2'
    have hbb : 0 < b * b := Nat.mul_pos hbpos hbpos
    have hk1 : k = 1 := by
      rcases k with _ | _ | k
      · omega
      · rfl
      · exfalso
        have : p * (k + 1 + 1) = p * k + 2 * p := by ring
        omega
    subst hk1; omega
  -- step 3: `t < b`
  have htb : t < b := by
    by_contra hcon
    push Not at hcon
    rcases Nat.eq_or_lt_of_le hcon with heq | hlt
    · subst heq
      have hdvd : 2 ∣ p := ⟨b * b, by omega⟩
      rcases (Nat.dvd_prime hp).mp hdvd with h | h <;> omega
    · have hab : a * b < p := lt_of_lt_of_le (Nat.mul_lt_mul_of_pos_left hlt ha0) hat
      have hstt : s * t ≤ t * t := Nat.mul_le_mul_right t st
      have habs : |(a : Int) * b - s * t| < p := by
        rw [abs_lt]
        constructor
        · have : ((s * t : Nat) : Int) < p := by exact_mod_cast lt_of_le_of_lt hstt htt
          push_cast at this
          have h0 : (0 : Int) ≤ (a : Int) * b := by positivity
          linarith
        · have : ((a * b : Nat) : Int) < p := by exact_mod_cast hab
          push_cast at this
          have h0 : (0 : Int) ≤ (s : Int) * t := by positivity
          linarith
      have hzero := Int.eq_zero_of_abs_lt_dvd ip habs
      have hab_st : a * b = s * t := by
        have : ((a * b : Nat) : Int) = ((s * t : Nat) : Int) := by push_cast; linarith
        exact_mod_cast this
      have hat' : a * p = t * p := by
        calc a * p = a * (b * b + t * t) := by rw [hsum]
          _ = (a * b) * b + a * t * t := by ring
          _ = (s * t) * b + a * t * t := by rw [hab_st]
          _ = t * (a * t + b * s) := by ring
          _ = t * p := by rw [det]
      have : a = t := Nat.eq_of_mul_eq_mul_right hp0 hat'
      subst this
      omega
  -- step 4: the next remainder equals `t`
  obtain ⟨-, -, ip', det', -, -⟩ := hstep
  have hc : a % b < b := Nat.mod_lt _ hbpos
  set c := a % b with hcdef
  set d := s + a / b * t with hddef
  have hbd : b * d ≤ p := by omega
  have hbc : b * c < p := lt_of_le_of_lt (Nat.mul_le_mul_left b (le_of_lt hc)) hb
  have htd : t * d < p := by
    rcases Nat.eq_zero_or_pos d with hd | hd
    · rw [hd]; simpa using hp0
    · exact lt_of_lt_of_le (Nat.mul_lt_mul_of_pos_right htb hd) hbd
  have habs : |(b : Int) * c - t * d| < p := by
    rw [abs_lt]
    constructor
    · have : ((t * d : Nat) : Int) < p := by exact_mod_cast htd
      push_cast at this
      have h0 : (0 : Int) ≤ (b : Int) * c := by positivity
      linarith
    · have : ((b * c : Nat) : Int) < p := by exact_mod_cast hbc
      push_cast at this
      have h0 : (0 : Int) ≤ (t : Int) * d := by positivity
      linarith
  have hzero := Int.eq_zero_of_abs_lt_dvd ip' habs
  have hbc_td : b * c = t * d := by
    have : ((b * c : Nat) : Int) = ((t * d : Nat) : Int) := by push_cast; linarith
    exact_mod_cast this
  have hcp : c * p = t * p := by
    calc c * p = c * (b * b + t * t) := by rw [hsum]
      _ = (b * c) * b + c * t * t := by ring
      _ = (t * d) * b + c * t * t := by rw [hbc_td]
      _ = t * (b * d + c * t) := by ring
      _ = t * p := by rw [det']
  have hct : c = t := Nat.eq_of_mul_eq_mul_right hp0 hcp
  rw [hct]; exact hsum

/-! ## 5. Soundness and completeness of the descent -/

theorem descent_spec {p : Nat} (hp : p.Prime) (h2 : p ≠ 2) : ∀ (b a s t : Nat) (sw : Bool),
    Inv p a b s t → p < a * a →
    ∃ x y, descent p sw a b = some (x, y) ∧ x * x + y * y = p := by
  intro b
  induction b using Nat.strongRecOn with
  | _ b ih =>
    intro a s t sw hinv big
    have hb0 := hinv.ne_zero hp big
    rw [descent, dif_neg hb0]
    by_cases hb : b * b < p
    · rw [if_pos hb]
      have hfin := hinv.final hp h2 big hb0 hb
      cases sw
      · exact ⟨b, a % b, by simp, hfin⟩
      · exact ⟨a % b, b, by simp, by omega⟩
    · rw [if_neg hb]
      have hbig : p < b * b := by
        rcases Nat.lt_or_ge p (b * b) with h | h
        · exact h
        · exfalso
          have heq : b * b = p := by omega
          have hdvd : b ∣ p := ⟨b, heq.symm⟩
          rcases (Nat.dvd_prime hp).mp hdvd with h1 | h1
          · subst h1; have := hp.two_le; omega
          · subst h1
            have := hp.two_le
            have : b * b ≥ 2 * b := Nat.mul_le_mul_right b this
            omega
      exact ih (a % b) (Nat.mod_lt _ (Nat.pos_of_ne_zero hb0)) b t (s + a / b * t) (!sw)
        (hinv.step hb0) hbig

/-- hypotheses on the inputs of the descent: `p` an odd prime (the Go code only gets here with
    `p ≡ 1 (mod 4)`; `p ≠ 2` is all that is used) and `w` a square root of `−1` modulo `p`. -/
structure Input (p w : Nat) : Prop where
  prime : p.Prime
  ne_two : p ≠ 2
  pos : 0 < w
  lt : w < p
  root : (w * w + 1) % p = 0

theorem cornacchia_total {p w : Nat} (h : Input p w) :
    ∃ x y, cornacchia p w = some (x, y) ∧ x * x + y * y = p := by
  rw [cornacchia_eq_descent]
  have hp2 := h.prime.two_le
  exact descent_spec h.prime h.ne_two w p 0 1 true
    (Inv.init h.lt (Nat.dvd_of_mod_eq_zero h.root)) (by nlinarith)

/-- (a) soundness: whatever the loop returns is a two-squares decomposition of `p`. -/
theorem cornacchia_sound {p w a b : Nat} (h : Input p w) (hr : cornacchia p w = some (a, b)) :
    a * a + b * b = p := by
  obtain ⟨x, y, hxy, hs⟩ := cornacchia_total h
  rw [hr] at hxy
  cases hxy
  exact hs

/-- (b) completeness: on such inputs the loop never `break`s (no remainder becomes 0 before the
    stopping index) and terminates with a result. -/
theorem cornacchia_complete {p w : Nat} (h : Input p w) : (cornacchia p w).isSome = true := by
  obtain ⟨x, y, hxy, -⟩ := cornacchia_total h
  simp [hxy]

/-! ## 6. One iteration of the outer loop of `sumFourSquaresSpecial` -/

/-- one pass of the outer `for` of `sumFourSquaresSpecial(n)` with the random draws `x, y`
    (mathutil.go:237-294); `none` = `continue` / `break` (another pass with fresh `x, y`).
    `isPrime` stands for `z.ProbablyPrime(10)` and `sqrtNegOne z` for `ModSqrt(z-1, z)`.
    Negative `z = n − x² − y²` is rejected by `ProbablyPrime` (false for negative numbers). -/
def specialAttempt (isPrime : Nat → Bool) (sqrtNegOne : Nat → Nat) (n x y : Nat) : Option Quad :=
  let z : Int := (n : Int) - x * x - y * y
  if z = 2 then some ((x : Int), (y : Int), 1, 1)
  else if z ≤ 0 ∨ z.toNat % 4 ≠ 1 then none
  else if !isPrime z.toNat then none
  else (cornacchia z.toNat (sqrtNegOne z.toNat)).map (fun ab => ((x : Int), (y : Int), (ab.1 : Int), (ab.2 : Int)))

/-- outputs of `sumFourSquaresSpecial(n)`: the constant answer for `n < 4`, otherwise the result of a
    successful pass for some draw `x, y`. -/
def SpecialOutput (isPrime : Nat → Bool) (sqrtNegOne : Nat → Nat) (n : Nat) (q : Quad) : Prop :=
  (n < 4 ∧ q = (1, 1, 0, 0)) ∨ (4 ≤ n ∧ ∃ x y : Nat, specialAttempt isPrime sqrtNegOne n x y = some q)

/-- the two oracles used by the routine are correct on `z`: -/
structure OraclesOk (isPrime : Nat → Bool) (sqrtNegOne : Nat → Nat) : Prop where
  prime_ok : ∀ z, isPrime z = true → z.Prime
  sqrt_ok : ∀ z, z.Prime → z % 4 = 1 →
    0 < sqrtNegOne z ∧ sqrtNegOne z < z ∧ (sqrtNegOne z * sqrtNegOne z + 1) % z = 0

theorem specialAttempt_ok {isPrime : Nat → Bool} {sqrtNegOne : Nat → Nat}
    (ho : OraclesOk isPrime sqrtNegOne) {n x y : Nat} {q : Quad}
    (h : specialAttempt isPrime sqrtNegOne n x y = some q) : QuadOk n q := by
  unfold specialAttempt at h
  simp only at h
  split_ifs at h with h1 h2 h3
  · cases h
    refine ⟨by positivity, by positivity, by norm_num, by norm_num, ?_⟩
    simp only
    linarith
  · push Not at h2
    obtain ⟨hz0, hz4⟩ := h2
    have hpr : isPrime ((n : Int) - x * x - y * y).toNat = true := by simpa using h3
    set z := ((n : Int) - x * x - y * y).toNat with hzdef
    have hzz : (z : Int) = (n : Int) - x * x - y * y := Int.toNat_of_nonneg (le_of_lt hz0)
    have hp := ho.prime_ok z hpr
    obtain ⟨w0, wlt, wroot⟩ := ho.sqrt_ok z hp hz4
    have hin : Input z (sqrtNegOne z) := ⟨hp, by omega, w0, wlt, wroot⟩
    cases hc : cornacchia z (sqrtNegOne z) with
    | none => rw [hc] at h; simp at h
    | some ab =>
      obtain ⟨a, b⟩ := ab
      rw [hc] at h
      simp only [Option.map_some, Option.some.injEq] at h
      subst h
      have hs := cornacchia_sound hin hc
      have hs' : (a : Int) * a + b * b = z := by exact_mod_cast hs
      refine ⟨by positivity, by positivity, by positivity, by positivity, ?_⟩
      simp only
      linarith

/-- a pass succeeds exactly on the draws with `z = 2` or `z ≡ 1 (mod 4)` accepted as prime. -/
theorem specialAttempt_isSome {isPrime : Nat → Bool} {sqrtNegOne : Nat → Nat}
    (ho : OraclesOk isPrime sqrtNegOne) (n x y : Nat) :
    (specialAttempt isPrime sqrtNegOne n x y).isSome = true ↔
      ((n : Int) - x * x - y * y = 2 ∨
        (0 < (n : Int) - x * x - y * y ∧ ((n : Int) - x * x - y * y).toNat % 4 = 1 ∧
          isPrime ((n : Int) - x * x - y * y).toNat = true)) := by
  unfold specialAttempt
  simp only
  split_ifs with h1 h2 h3
  · simp [h1]
  · simp only [Option.isSome_none, Bool.false_eq_true, false_iff]
    rintro (h | ⟨h4, h5, -⟩)
    · exact h1 h
    · rcases h2 with h2 | h2
      · omega
      · exact h2 h5
  · simp only [Option.isSome_none, Bool.false_eq_true, false_iff]
    rintro (h | ⟨-, -, h6⟩)
    · exact h1 h
    · simp [h6] at h3
  · push Not at h2
    obtain ⟨hz0, hz4⟩ := h2
    have hpr : isPrime ((n : Int) - x * x - y * y).toNat = true := by simpa using h3
    have hp := ho.prime_ok _ hpr
    obtain ⟨w0, wlt, wroot⟩ := ho.sqrt_ok _ hp hz4
    have hin : Input _ (sqrtNegOne ((n : Int) - x * x - y * y).toNat) := ⟨hp, by omega, w0, wlt, wroot⟩
    have := cornacchia_complete hin
    simp only [Option.isSome_map, this, true_iff]
    exact Or.inr ⟨hz0, hz4, hpr⟩

theorem specialOutput_ok {isPrime : Nat → Bool} {sqrtNegOne : Nat → Nat}
    (ho : OraclesOk isPrime sqrtNegOne) {n : Nat} (hn : n % 4 = 2) {q : Quad}
    (h : SpecialOutput isPrime sqrtNegOne n q) : QuadOk n q := by
  rcases h with ⟨h4, rfl⟩ | ⟨-, x, y, h⟩
  · have : n = 2 := by omega
    subst this
    refine ⟨by norm_num, by norm_num, by norm_num, by norm_num, ?_⟩
    norm_num
  · exact specialAttempt_ok ho h

/-! ## 7. The oracle hypotheses are satisfiable (non-vacuity) -/

/-- a square root of `−1` exists modulo every prime `p ≡ 1 (mod 4)` (Euler's criterion). -/
theorem exists_sqrtNegOne {p : Nat} (hp : p.Prime) (h4 : p % 4 = 1) :
    ∃ w, 0 < w ∧ w < p ∧ (w * w + 1) % p = 0 := by
  have : Fact p.Prime := ⟨hp⟩
  obtain ⟨y, hy⟩ := (ZMod.exists_sq_eq_neg_one_iff (p := p)).mpr (by omega)
  refine ⟨y.val, ?_, ZMod.val_lt y, ?_⟩
  · rcases Nat.eq_zero_or_pos y.val with h0 | h0
    · exfalso
      have : y = 0 := (ZMod.val_eq_zero y).mp h0
      subst this
      have h1 : (-1 : ZMod p) = 0 := by rw [hy]; simp
      exact one_ne_zero (neg_eq_zero.mp h1)
    · exact h0
  · apply Nat.mod_eq_zero_of_dvd
    rw [← ZMod.natCast_eq_zero_iff]
    push_cast
    rw [ZMod.natCast_zmod_val, ← hy]
    ring

/-- there are oracles satisfying `OraclesOk` that accept every prime: the theorems above are not
    vacuous. -/
theorem exists_oracles : ∃ (isPrime : Nat → Bool) (sqrtNegOne : Nat → Nat),
    OraclesOk isPrime sqrtNegOne ∧ ∀ z, z.Prime → isPrime z = true := by
  classical
  refine ⟨fun z => decide z.Prime,
    fun z => if h : z.Prime ∧ z % 4 = 1 then (exists_sqrtNegOne h.1 h.2).choose else 0, ⟨?_, ?_⟩, ?_⟩
  · intro z hz; simpa using hz
  · intro z hp h4
    have h : z.Prime ∧ z % 4 = 1 := ⟨hp, h4⟩
    simp only [dif_pos h]
    exact (exists_sqrtNegOne h.1 h.2).choose_spec
  · intro z hz; simpa using hz

end Gabi.Cornacchia

#print axioms Gabi.Cornacchia.bitLen_pretest
#print axioms Gabi.Cornacchia.cornacchia_eq_descent
#print axioms Gabi.Cornacchia.cornacchia_sound
#print axioms Gabi.Cornacchia.cornacchia_complete
#print axioms Gabi.Cornacchia.specialAttempt_ok
#print axioms Gabi.Cornacchia.specialAttempt_isSome
#print axioms Gabi.Cornacchia.specialOutput_ok
#print axioms Gabi.Cornacchia.exists_oracles
