/-
  GabiProofs.ConcSched — the scheduler of GabiModel.Conc.HB (`runS`) only produces executions
  that conform to the skeleton and whose synchronisation objects behaved: the invariant `SInv`
  holds initially and is preserved by every step, for every schedule (`runS_inv`). This ties the
  `∀ e, Conforms prog e → WF e → RaceFree e` theorems to "all schedules of the transition system".
-/
import GabiProofs.ConcHB
namespace Gabi.Conc.HB

/-- invariant of the scheduler. -/
structure SInv (prog : Prog) (st : SSt) : Prop where
  conf : Conforms prog st.trace
  wf : WF st.trace
  below : ∀ (i : Nat) (ev : Event), st.trace[i]? = some ev → ev.pc < st.pcOf ev.tid
  present : ∀ t p, p < st.pcOf t → ∃ (i : Nat) (ev : Event), st.trace[i]? = some ev ∧ ev.tid = t ∧ ev.pc = p
  rel : ∀ o, o ∈ st.released → ∃ (i : Nat) (ev : Event), st.trace[i]? = some ev ∧ ev.act = Act.rel o
  heldUniq : ∀ m t t', (m, t) ∈ st.held → (m, t') ∈ st.held → t = t'
  heldNodup : st.held.Nodup
  locks : ∀ (i : Nat) (ev : Event) (m : Nat), st.trace[i]? = some ev → ev.act = Act.lock m →
    (m, ev.tid) ∈ st.held ∨
    ∃ (u : Nat) (c : Event), i < u ∧ st.trace[u]? = some c ∧ c.tid = ev.tid ∧ c.act = Act.unlock m

theorem sinit_inv (prog : Prog) (n : Nat) : SInv prog (sinit n) := by
  refine ⟨⟨?_, ?_, ?_⟩, ⟨?_, ?_⟩, ?_, ?_, ?_, ?_, ?_, ?_⟩ <;> simp [sinit, SSt.pcOf]
  intro t p
  by_cases h : t < n
  · simp [h]
  · have : (List.replicate n 0)[t]? = none := by simp; omega
    rw [this]; simp


theorem getElem?_snoc {α : Type} (l : List α) (x y : α) (i : Nat) :
    (l ++ [x])[i]? = some y ↔ (l[i]? = some y) ∨ (i = l.length ∧ y = x) := by
  by_cases h : i < l.length
  · rw [List.getElem?_append_left h]
    constructor
    · exact Or.inl
    · rintro (h' | ⟨h', _⟩)
      · exact h'
      · omega
  · rw [List.getElem?_append_right (by omega)]
    have hn : l[i]? = none := by simp; omega
    rw [hn]
    by_cases h2 : i = l.length
    · subst h2
      simp
      constructor
      · intro h'; exact h'.symm
      · intro h'; exact h'.symm
    · have : ([x] : List α)[i - l.length]? = none := by simp; omega
      rw [this]; simp; intro h3; exact absurd h3 h2

theorem lt_length_of_getElem? {α : Type} {l : List α} {i : Nat} {y : α} (h : l[i]? = some y) : i < l.length := by
  by_contra hge
  have : l[i]? = none := by simp; omega
  rw [this] at h; simp at h

theorem pcOf_set (pcs : List Nat) (t v u : Nat) (ht : t < pcs.length) :
    (pcs.set t v).getD u 0 = if u = t then v else pcs.getD u 0 := by
  simp only [List.getD_eq_getElem?_getD, List.getElem?_set]
  by_cases h : t = u
  · subst h; simp [ht]
  · have : ¬ u = t := fun h' => h h'.symm
    simp [h, this]

theorem sstep_inv (prog : Prog) (st : SSt) (t : Nat) (h : SInv prog st) : SInv prog (sstep prog st t) := by
  unfold sstep
  split
  case isFalse => exact h
  case isTrue ht =>
  split
  case h_1 => exact h
  case h_2 a hprog =>
  split
  case isFalse => exact h
  case isTrue hen =>
  -- the step is taken
  set pc := st.pcOf t with hpc
  set ev : Event := ⟨t, pc, a⟩ with hev
  have hpcOf : ∀ u, (st.pcs.set t (pc + 1)).getD u 0 = if u = t then pc + 1 else st.pcOf u := by
    intro u; exact pcOf_set st.pcs t (pc + 1) u ht
  have lift : ∀ (i : Nat) (x : Event), st.trace[i]? = some x → (st.trace ++ [ev])[i]? = some x :=
    fun i x hx => (getElem?_snoc _ _ _ _).mpr (Or.inl hx)
  have split' : ∀ (i : Nat) (x : Event), (st.trace ++ [ev])[i]? = some x →
      (st.trace[i]? = some x ∧ i < st.trace.length) ∨ (i = st.trace.length ∧ x = ev) := by
    intro i x hx
    rcases (getElem?_snoc _ _ _ _).mp hx with h1 | h1
    · exact Or.inl ⟨h1, lt_length_of_getElem? h1⟩
    · exact Or.inr h1
  refine ⟨⟨?_, ?_, ?_⟩, ⟨?_, ?_⟩, ?_, ?_, ?_, ?_, ?_, ?_⟩
  · -- act
    intro i x hx
    rcases split' i x hx with ⟨h1, _⟩ | ⟨_, rfl⟩
    · exact h.conf.act i x h1
    · exact hprog
  · -- prefixClosed
    intro j x hx p hp
    rcases split' j x hx with ⟨h1, _⟩ | ⟨hj, rfl⟩
    · obtain ⟨i, y, hij, hy, hyt, hyp⟩ := h.conf.prefixClosed j x h1 p hp
      exact ⟨i, y, hij, lift i y hy, hyt, hyp⟩
    · obtain ⟨i, y, hy, hyt, hyp⟩ := h.present t p hp
      exact ⟨i, y, by rw [hj]; exact lt_length_of_getElem? hy, lift i y hy, hyt, hyp⟩
  · -- mono
    intro i j x y hij hx hy hxy
    rcases split' j y hy with ⟨h2, hjl⟩ | ⟨hj, rfl⟩
    · rcases split' i x hx with ⟨h1, _⟩ | ⟨hi, _⟩
      · exact h.conf.mono i j x y hij h1 h2 hxy
      · omega
    · rcases split' i x hx with ⟨h1, _⟩ | ⟨hi, _⟩
      · have := h.below i x h1
        rw [hxy] at this; exact this
      · omega
  · -- token
    intro j x o hx hxa
    rcases split' j x hx with ⟨h1, _⟩ | ⟨hj, rfl⟩
    · obtain ⟨i, y, hij, hy, hya⟩ := h.wf.token j x o h1 hxa
      exact ⟨i, y, hij, lift i y hy, hya⟩
    · simp only [hev] at hxa
      subst hxa
      simp only [senabled, List.contains_eq_mem, decide_eq_true_eq] at hen
      obtain ⟨i, y, hy, hya⟩ := h.rel o hen
      exact ⟨i, y, by rw [hj]; exact lt_length_of_getElem? hy, lift i y hy, hya⟩
  · -- mutex
    intro i j x y m hij hx hy hxa hya
    rcases split' i x hx with ⟨h1, hil⟩ | ⟨hi, _⟩
    · rcases split' j y hy with ⟨h2, _⟩ | ⟨hj, rfl⟩
      · obtain ⟨u, c, hiu, huj, hc, hct, hca⟩ := h.wf.mutex i j x y m hij h1 h2 hxa hya
        exact ⟨u, c, hiu, huj, lift u c hc, hct, hca⟩
      · simp only [hev] at hya
        subst hya
        simp only [senabled, Bool.not_eq_true', List.any_eq_false, beq_iff_eq] at hen
        rcases h.locks i x m h1 hxa with hheld | ⟨u, c, hiu, hc, hct, hca⟩
        · exact absurd rfl (hen _ hheld)
        · exact ⟨u, c, hiu, by rw [hj]; exact lt_length_of_getElem? hc, lift u c hc, hct, hca⟩
    · have := lt_length_of_getElem? hy
      simp at this; omega
  · -- below
    intro i x hx
    show x.pc < (st.pcs.set t (pc + 1)).getD x.tid 0
    rw [hpcOf]
    rcases split' i x hx with ⟨h1, _⟩ | ⟨_, rfl⟩
    · have := h.below i x h1
      split
      · next heq => rw [heq] at this; omega
      · exact this
    · simp [hev]
  · -- present
    intro u p hp
    have hp' : p < (st.pcs.set t (pc + 1)).getD u 0 := hp
    rw [hpcOf] at hp'
    by_cases hut : u = t
    · subst hut
      simp at hp'
      by_cases hpp : p = pc
      · exact ⟨st.trace.length, ev, (getElem?_snoc _ _ _ _).mpr (Or.inr ⟨rfl, rfl⟩), rfl, hpp.symm⟩
      · obtain ⟨i, y, hy, hyt, hyp⟩ := h.present u p (by omega)
        exact ⟨i, y, lift i y hy, hyt, hyp⟩
    · simp [hut] at hp'
      obtain ⟨i, y, hy, hyt, hyp⟩ := h.present u p hp'
      exact ⟨i, y, lift i y hy, hyt, hyp⟩
  · -- rel
    intro o ho
    have old : o ∈ st.released → ∃ (i : Nat) (ev' : Event), (st.trace ++ [ev])[i]? = some ev' ∧ ev'.act = Act.rel o := by
      intro ho'
      obtain ⟨i, y, hy, hya⟩ := h.rel o ho'
      exact ⟨i, y, lift i y hy, hya⟩
    cases a <;> simp only at ho <;> try exact old ho
    rename_i o'
    rcases List.mem_cons.mp ho with rfl | ho'
    · exact ⟨st.trace.length, ev, (getElem?_snoc _ _ _ _).mpr (Or.inr ⟨rfl, rfl⟩), rfl⟩
    · exact old ho'
  · -- heldUniq
    intro m u u' hu hu'
    cases a <;> simp only at hu hu'
    case lock m' =>
      simp only [senabled, Bool.not_eq_true', List.any_eq_false, beq_iff_eq] at hen
      rcases List.mem_cons.mp hu with h1 | h1 <;> rcases List.mem_cons.mp hu' with h2 | h2
      · cases h1; cases h2; rfl
      · cases h1; exact absurd rfl (hen _ h2)
      · cases h2; exact absurd rfl (hen _ h1)
      · exact h.heldUniq m u u' h1 h2
    case unlock m' =>
      exact h.heldUniq m u u' (List.mem_of_mem_erase hu) (List.mem_of_mem_erase hu')
    all_goals exact h.heldUniq m u u' hu hu'
  · -- heldNodup
    cases a <;> simp only
    case lock m' =>
      simp only [senabled, Bool.not_eq_true', List.any_eq_false, beq_iff_eq] at hen
      refine List.nodup_cons.mpr ⟨?_, h.heldNodup⟩
      intro hmem; exact absurd rfl (hen _ hmem)
    case unlock m' => exact h.heldNodup.erase _
    all_goals exact h.heldNodup
  · -- locks
    intro i x m hx hxa
    rcases split' i x hx with ⟨h1, hil⟩ | ⟨hi, rfl⟩
    · rcases h.locks i x m h1 hxa with hheld | ⟨u, c, hiu, hc, hct, hca⟩
      · cases a <;> simp only
        case lock m' => exact Or.inl (List.mem_cons_of_mem _ hheld)
        case unlock m' =>
          by_cases heq : (m, x.tid) = (m', t)
          · right
            cases heq
            exact ⟨st.trace.length, ev, hil, (getElem?_snoc _ _ _ _).mpr (Or.inr ⟨rfl, rfl⟩), rfl, rfl⟩
          · exact Or.inl ((List.mem_erase_of_ne heq).mpr hheld)
        all_goals exact Or.inl hheld
      · exact Or.inr ⟨u, c, hiu, lift u c hc, hct, hca⟩
    · simp only [hev] at hxa
      subst hxa
      left
      exact List.mem_cons_self

/-- every schedule of the scheduler yields an execution of the skeleton whose synchronisation
    objects behaved. -/
theorem runS_inv (prog : Prog) (n : Nat) (sched : List Nat) : SInv prog (runS prog n sched) := by
  unfold runS
  have : ∀ (st : SSt), SInv prog st → SInv prog (sched.foldl (sstep prog) st) := by
    induction sched with
    | nil => intro st h; exact h
    | cons t rest ih => intro st h; exact ih _ (sstep_inv prog st t h)
  exact this _ (sinit_inv prog n)

end Gabi.Conc.HB
