/-
  GabiProofs.ProofPerm — verification does not depend on the order in which the association
  lists that model Go maps (`AResponses`, `ADisclosed`, the responses of the non-revocation
  proof, the range-proof map) are listed, as long as keys that are looked up are distinct.
-/
import GabiModel.Proofs
import GabiProofs.VerifyLogic
import GabiProofs.OmittedFields
import Mathlib.Data.List.Perm.Basic
import Mathlib.Tactic.Ring

namespace Gabi

/-! ## 1. lookups and folds under permutation -/

theorem lookup_perm {α β} [BEq α] [LawfulBEq α] {l l' : List (α × β)} (hp : l.Perm l')
    (hnd : (l.map (·.1)).Nodup) (k : α) : l.lookup k = l'.lookup k := by
  have hnd' : (l'.map (·.1)).Nodup := (hp.map _).nodup_iff.mp hnd
  cases h : l.lookup k with
  | some v => exact (lookup_of_mem_nodup hnd' (hp.subset (lookup_mem h))).symm
  | none =>
    cases h' : l'.lookup k with
    | none => rfl
    | some v =>
      rw [lookup_of_mem_nodup hnd (hp.symm.subset (lookup_mem h'))] at h
      cases h

theorem IntMap.get_perm {m m' : IntMap} (hp : m.Perm m') (hnd : (m.map (·.1)).Nodup) (k : Int) :
    m.get k = m'.get k := by
  unfold IntMap.get
  rw [lookup_perm hp hnd]

theorem IntMap.has_perm {m m' : IntMap} (hp : m.Perm m') (hnd : (m.map (·.1)).Nodup) (k : Int) :
    m.has k = m'.has k := by
  unfold IntMap.has
  rw [lookup_perm hp hnd]

/-- a monadic left fold whose steps commute (on the members of the list) does not depend on the
    order of the list. -/
theorem foldlM_perm {α σ} {f : σ → α → GoM σ} {l l' : List α} (hp : l.Perm l')
    (hc : ∀ a ∈ l, ∀ b ∈ l, ∀ s, (f s a >>= (f · b)) = (f s b >>= (f · a))) (init : σ) :
    l.foldlM f init = l'.foldlM f init := by
  induction hp generalizing init with
  | nil => rfl
  | cons x _ ih =>
    rw [List.foldlM_cons, List.foldlM_cons]
    congr 1
    funext s
    exact ih (fun a ha b hb => hc a (List.mem_cons_of_mem _ ha) b (List.mem_cons_of_mem _ hb)) s
  | swap x y l =>
    simp only [List.foldlM_cons]
    rw [← bind_assoc, ← bind_assoc]
    congr 1
    exact hc y (List.mem_cons_self ..) x (List.mem_cons_of_mem _ (List.mem_cons_self ..)) init
  | trans h1 _ ih1 ih2 =>
    rw [ih1 hc init]
    exact ih2 (fun a ha b hb => hc a (h1.symm.subset ha) b (h1.symm.subset hb)) init

/-! ## 2. proofs that differ in the order of their maps only -/

structure NonRevProof.PermEq (p q : NonRevProof) : Prop where
  cr : p.cr = q.cr
  cu : p.cu = q.cu
  nu : p.nu = q.nu
  challenge : p.challenge = q.challenge
  responses : p.responses.Perm q.responses
  sacc : p.sacc = q.sacc

/-- same scalar members, every map a permutation of its counterpart. -/
structure ProofD.PermEq (p q : ProofD) : Prop where
  c : p.c = q.c
  a : p.a = q.a
  eResponse : p.eResponse = q.eResponse
  vResponse : p.vResponse = q.vResponse
  aResponses : p.aResponses.Perm q.aResponses
  aDisclosed : p.aDisclosed.Perm q.aDisclosed
  nonrev : OptRel NonRevProof.PermEq p.nonrev q.nonrev
  rangeProofs : OptRel List.Perm p.rangeProofs q.rangeProofs

/-- the keys that verification looks up are distinct: hidden-attribute indices, response names
    (other than "alpha", which `SetExpected` replaces), range-proof indices. `ADisclosed` is only
    ever traversed, so it needs no such condition. -/
structure ProofD.KeysNodup (p : ProofD) : Prop where
  aResponses : (p.aResponses.map (·.1)).Nodup
  nonrev : ∀ nr, p.nonrev = some nr → ((nr.responses.filter (·.1 ≠ "alpha")).map (·.1)).Nodup
  rangeProofs : ∀ m, p.rangeProofs = some m → (m.map (·.1)).Nodup

theorem OptRel.getD_perm {α} {x y : Option (List α)} (h : OptRel List.Perm x y) :
    (x.getD []).Perm (y.getD []) := by
  cases x <;> cases y <;> first | exact List.Perm.refl _ | exact absurd h id | exact h

theorem ProofD.wellFormed_perm (pk : PublicKey) {p q : ProofD} (h : p.PermEq q)
    (hnd : (p.aResponses.map (·.1)).Nodup) : p.wellFormed pk = q.wellFormed pk := by
  have hhas : p.aResponses.has = q.aResponses.has := funext (IntMap.has_perm h.aResponses hnd)
  unfold ProofD.wellFormed
  rw [h.c, h.a, h.eResponse, h.vResponse, IntMap.get_perm h.aResponses hnd 0, h.aResponses.all_eq, hhas,
    h.aDisclosed.all_eq, (OptRel.getD_perm h.rangeProofs).all_eq]

/-! ## 3. `reconstructZ` -/

/-- the factor a disclosed attribute contributes to the numerator. -/
def discFactor (pk : PublicKey) (kv : Int × Option Int) : Option Int :=
  match kv.2, pk.r[kv.1.toNat]? with
  | some attr, some b => goExp b (attrExp pk.params.Lm attr) pk.n
  | _, _ => none

theorem discStep_eq (pk : PublicKey) (kv : Int × Option Int)
    (h : kv.2.isSome ∧ 0 ≤ kv.1 ∧ kv.1 < pk.r.length) (num : Int) :
    (do let attr ← deref "ADisclosed" kv.2
        let b ← idx "R[i]" pk.r kv.1
        let t ← deref "Exp" (goExp b (attrExp pk.params.Lm attr) pk.n)
        pure (num * t) : GoM Int) =
      match discFactor pk kv with
      | some t => .ok (num * t)
      | none => .error (.nilDeref "Exp") := by
  obtain ⟨i, v⟩ := kv
  obtain ⟨hv, h0, h1⟩ := h
  simp only [] at hv h0 h1
  cases v with
  | none => simp at hv
  | some attr =>
    have hlt : i.toNat < pk.r.length := by omega
    have hidx : idx "R[i]" pk.r i = .ok pk.r[i.toNat] := by
      rw [idx_ok_iff]; exact ⟨h0, List.getElem?_eq_getElem hlt⟩
    simp only [deref_some, GoM.ok_bind, hidx, discFactor, List.getElem?_eq_getElem hlt]
    cases goExp pk.r[i.toNat] (attrExp pk.params.Lm attr) pk.n with
    | none => rfl
    | some t => rfl

theorem discFold_perm (pk : PublicKey) {l l' : IntMap} (hp : l.Perm l')
    (h : ∀ kv ∈ l, kv.2.isSome ∧ 0 ≤ kv.1 ∧ kv.1 < pk.r.length) (num0 : Int) :
    (l.foldlM (fun (num : Int) kv => do
      let attr ← deref "ADisclosed" kv.2
      let b ← idx "R[i]" pk.r kv.1
      let t ← deref "Exp" (goExp b (attrExp pk.params.Lm attr) pk.n)
      pure (num * t)) num0 : GoM Int) =
    l'.foldlM (fun (num : Int) kv => do
      let attr ← deref "ADisclosed" kv.2
      let b ← idx "R[i]" pk.r kv.1
      let t ← deref "Exp" (goExp b (attrExp pk.params.Lm attr) pk.n)
      pure (num * t)) num0 := by
  apply foldlM_perm hp
  intro a ha b hb s
  simp only [discStep_eq pk a (h a ha), discStep_eq pk b (h b hb)]
  cases discFactor pk a <;> cases discFactor pk b <;> simp only [bind, Except.bind]
  rw [mul_right_comm]

/-- the factor a hidden attribute's response contributes. -/
def respFactor (pk : PublicKey) (kv : Int × Option Int) : Option Int :=
  match kv.2, pk.r[kv.1.toNat]? with
  | some r, some b => modPow b r pk.n
  | _, _ => none

def respStep (pk : PublicKey) (acc : Option Int) (kv : Int × Option Int) : Option Int :=
  match acc, respFactor pk kv with
  | some a, some t => some (a * t)
  | _, _ => none

theorem respStep_foldl_none (pk : PublicKey) (l : IntMap) : l.foldl (respStep pk) none = none := by
  induction l with
  | nil => rfl
  | cons kv l ih => exact ih

theorem respStep_comm (pk : PublicKey) (acc : Option Int) (a b : Int × Option Int) :
    respStep pk (respStep pk acc a) b = respStep pk (respStep pk acc b) a := by
  unfold respStep
  cases acc <;> cases respFactor pk a <;> cases respFactor pk b <;> simp only []
  rw [mul_right_comm]

theorem reconstructZ_go_eq (pk : PublicKey) (l : IntMap) (rs : Int)
    (h : ∀ kv ∈ l, kv.2.isSome ∧ 0 ≤ kv.1 ∧ kv.1 < pk.r.length) :
    ProofD.reconstructZ.go pk l rs = .ok (l.foldl (respStep pk) (some rs)) := by
  induction l generalizing rs with
  | nil => rfl
  | cons kv rest ih =>
    obtain ⟨i, v⟩ := kv
    obtain ⟨hv, h0, h1⟩ := h (i, v) (List.mem_cons_self ..)
    simp only [] at hv h0 h1
    cases v with
    | none => simp at hv
    | some r =>
      have hlt : i.toNat < pk.r.length := by omega
      have hidx : idx "R[i]" pk.r i = .ok pk.r[i.toNat] := by
        rw [idx_ok_iff]; exact ⟨h0, List.getElem?_eq_getElem hlt⟩
      unfold ProofD.reconstructZ.go
      simp only [hidx, deref_some, GoM.ok_bind, List.foldl_cons, respStep, respFactor,
        List.getElem?_eq_getElem hlt]
      cases modPow pk.r[i.toNat] r pk.n with
      | none =>
        simp only []
        rw [show (List.foldl (respStep pk) none rest) = none from respStep_foldl_none pk rest]
        rfl
      | some t =>
        simp only []
        exact ih _ (fun kv' hkv' => h kv' (List.mem_cons_of_mem _ hkv'))

theorem reconstructZ_go_perm (pk : PublicKey) {l l' : IntMap} (hp : l.Perm l')
    (h : ∀ kv ∈ l, kv.2.isSome ∧ 0 ≤ kv.1 ∧ kv.1 < pk.r.length) (rs : Int) :
    ProofD.reconstructZ.go pk l rs = ProofD.reconstructZ.go pk l' rs := by
  rw [reconstructZ_go_eq pk l rs h,
    reconstructZ_go_eq pk l' rs (fun kv hkv => h kv (hp.symm.subset hkv))]
  congr 1
  exact hp.foldl_eq' (fun a _ b _ acc => respStep_comm pk acc a b) _

/-- `reconstructZ` of a well-formed proof does not depend on the order of `ADisclosed` and
    `AResponses` (no distinctness needed: both are only traversed, the products commute). For
    proofs that are not well-formed the statement is false — which panic is hit first depends on
    the order — but `ChallengeContribution` checks `wellFormed` first. -/
theorem ProofD.reconstructZ_perm (pk : PublicKey) {p q : ProofD} (h : p.PermEq q)
    (hw : p.wellFormed pk = true) : p.reconstructZ pk = q.reconstructZ pk := by
  rw [ProofD.wellFormed_iff] at hw
  obtain ⟨_, _, hA, hD, _⟩ := hw
  have hfold := discFold_perm pk h.aDisclosed (fun kv hkv => ⟨(hD kv hkv).1, (hD kv hkv).2.1, (hD kv hkv).2.2.1⟩)
  have hgo := reconstructZ_go_perm pk h.aResponses hA 1
  unfold ProofD.reconstructZ
  simp only [h.a, h.c, h.eResponse, h.vResponse, hfold, hgo]

/-! ## 4. the non-revocation proof -/

theorem NonRevProof.response_perm {p q : NonRevProof} (h : p.responses.Perm q.responses)
    (hnd : (p.responses.map (·.1)).Nodup) : p.response = q.response := by
  funext name
  unfold NonRevProof.response
  rw [lookup_perm h hnd]

theorem NonRevProof.structureOk_perm {p q : NonRevProof} (h : p.PermEq q)
    (hnd : (p.responses.map (·.1)).Nodup) : p.structureOk = q.structureOk := by
  unfold NonRevProof.structureOk
  rw [NonRevProof.response_perm h.responses hnd, h.cr, h.cu, h.nu, h.challenge]

theorem NonRevProof.basesAreUnits_perm (pk : PublicKey) {p q : NonRevProof} (h : p.PermEq q) :
    p.basesAreUnits pk = q.basesAreUnits pk := by
  unfold NonRevProof.basesAreUnits
  rw [h.cr, h.cu, h.responses.all_eq]

/-- what `SetExpected` writes. -/
def NonRevProof.withExpected (p : NonRevProof) (nu c r : Int) : NonRevProof :=
  { p with nu := some nu, challenge := some c,
           responses := ("alpha", some r) :: p.responses.filter (·.1 ≠ "alpha") }

theorem NonRevProof.withExpected_perm {p q : NonRevProof} (h : p.PermEq q) (nu c r : Int) :
    (p.withExpected nu c r).PermEq (q.withExpected nu c r) :=
  ⟨h.cr, h.cu, rfl, rfl, List.Perm.cons _ (h.responses.filter _), h.sacc⟩

theorem NonRevProof.withExpected_nodup {p : NonRevProof}
    (hnd : ((p.responses.filter (·.1 ≠ "alpha")).map (·.1)).Nodup) (nu c r : Int) :
    ((p.withExpected nu c r).responses.map (·.1)).Nodup := by
  show (("alpha" :: (p.responses.filter (·.1 ≠ "alpha")).map (·.1))).Nodup
  rw [List.nodup_cons]
  refine ⟨?_, hnd⟩
  intro hm
  obtain ⟨x, hx, hxa⟩ := List.mem_map.mp hm
  have := (List.mem_filter.mp hx).2
  simp [hxa] at this

theorem NonRevProof.setExpected_eq (o : SigOracle) (kid : String) (pk : PublicKey) (p : NonRevProof)
    (c r : Int) :
    p.setExpected o kid pk c r =
      if (p.cr.isNone || p.cu.isNone) = true then none else
      match p.sacc with
      | none => none
      | some sacc =>
        if (pk.g.isNone || pk.h.isNone || !pk.hasEcdsa) = true then none else
        match sacc.unmarshalVerify o kid pk with
        | none => none
        | some acc =>
          match acc.nu with
          | none => none
          | some nu =>
            if (!(p.withExpected nu c r).structureOk || !(p.withExpected nu c r).basesAreUnits pk) = true
            then none else some (p.withExpected nu c r) := by
  obtain ⟨cr, cu, nu0, ch, rs, sa⟩ := p
  unfold NonRevProof.setExpected NonRevProof.withExpected
  simp only []
  split
  · rfl
  · cases sa with
    | none => rfl
    | some sacc =>
      simp only []
      split
      · rfl
      · show (sacc.unmarshalVerify o kid pk >>= _) = _
        cases sacc.unmarshalVerify o kid pk with
        | none => rfl
        | some acc =>
          simp only []
          show (acc.nu >>= _) = _
          cases acc.nu with
          | none => rfl
          | some nu =>
            simp only []
            show (if _ then _ else _) = _
            split <;> rfl

theorem NonRevProof.setExpected_perm (o : SigOracle) (kid : String) (pk : PublicKey) {p q : NonRevProof}
    (h : p.PermEq q) (hnd : ((p.responses.filter (·.1 ≠ "alpha")).map (·.1)).Nodup) (c r : Int) :
    OptRel (fun p' q' => p'.PermEq q' ∧ (p'.responses.map (·.1)).Nodup)
      (p.setExpected o kid pk c r) (q.setExpected o kid pk c r) := by
  rw [NonRevProof.setExpected_eq, NonRevProof.setExpected_eq, ← h.cr, ← h.cu, ← h.sacc]
  split
  · trivial
  · cases p.sacc with
    | none => trivial
    | some sacc =>
      simp only []
      split
      · trivial
      · cases sacc.unmarshalVerify o kid pk with
        | none => trivial
        | some acc =>
          simp only []
          cases acc.nu with
          | none => trivial
          | some nu =>
            simp only []
            have hpe := NonRevProof.withExpected_perm h nu c r
            have hnd' := NonRevProof.withExpected_nodup hnd nu c r
            rw [← NonRevProof.structureOk_perm hpe hnd', ← NonRevProof.basesAreUnits_perm pk hpe]
            split
            · trivial
            · exact ⟨hpe, hnd'⟩

theorem NonRevProof.challengeContributions_perm (pk : PublicKey) {p q : NonRevProof} (h : p.PermEq q)
    (hnd : (p.responses.map (·.1)).Nodup) : p.challengeContributions pk = q.challengeContributions pk := by
  have hb : revBases pk p = revBases pk q := by
    funext name
    unfold revBases
    rw [h.cu, h.cr, h.nu]
  unfold NonRevProof.challengeContributions
  rw [h.cr, h.cu, h.nu, h.challenge, NonRevProof.response_perm h.responses hnd, hb]

theorem NonRevProof.verifyWithChallenge_perm (o : SigOracle) (kid : String) (pk : PublicKey)
    {p q : NonRevProof} (h : p.PermEq q) (hnd : (p.responses.map (·.1)).Nodup) (c' : Int) :
    p.verifyWithChallenge o kid pk c' = q.verifyWithChallenge o kid pk c' := by
  unfold NonRevProof.verifyWithChallenge
  rw [h.sacc, NonRevProof.structureOk_perm h hnd, NonRevProof.basesAreUnits_perm pk h,
    NonRevProof.response_perm h.responses hnd, h.nu, h.challenge]

/-! ## 5. traversals in `GoE` under permutation -/

theorem GoE.run_bind_of_none {α β} {x : GoE α} (hx : x.run = .ok none) (f : α → GoE β) :
    (x >>= f).run = .ok none := by
  rw [OptionT.run_bind]
  show (x.run >>= _) = _
  rw [hx]
  rfl

theorem GoE.run_bind_of_some {α β} {x : GoE α} {a : α} (hx : x.run = .ok (some a)) (f : α → GoE β) :
    (x >>= f).run = (f a).run := by
  rw [OptionT.run_bind]
  show (x.run >>= _) = _
  rw [hx]
  rfl

theorem GoE.Rel.of_run {α β} {R : α → β → Prop} {x x' : GoE α} {y y' : GoE β} (hx : x.run = x'.run)
    (hy : y.run = y'.run) (h : GoE.Rel R x' y') : GoE.Rel R x y := by
  unfold GoE.Rel at h ⊢
  rw [hx, hy]
  exact h

/-- two computations that do not panic can be exchanged. -/
theorem GoE.Rel.swap {α β γ δ} {R : γ → δ → Prop} {x : GoE α} {y : GoE β} (hx : GoE.IsOk x)
    (hy : GoE.IsOk y) {f : α → β → GoE γ} {g : β → α → GoE δ} (hfg : ∀ a b, GoE.Rel R (f a b) (g b a)) :
    GoE.Rel R (x >>= fun a => y >>= fun b => f a b) (y >>= fun b => x >>= fun a => g b a) := by
  obtain ⟨oa, hoa⟩ := hx
  obtain ⟨ob, hob⟩ := hy
  cases oa with
  | none =>
    cases ob with
    | none =>
      unfold GoE.Rel
      rw [GoE.run_bind_of_none hoa, GoE.run_bind_of_none hob]
      trivial
    | some b =>
      unfold GoE.Rel
      rw [GoE.run_bind_of_none hoa, GoE.run_bind_of_some hob, GoE.run_bind_of_none hoa]
      trivial
  | some a =>
    cases ob with
    | none =>
      unfold GoE.Rel
      rw [GoE.run_bind_of_some hoa, GoE.run_bind_of_none hob, GoE.run_bind_of_none hob]
      trivial
    | some b =>
      have h1 : (x >>= fun a => y >>= fun b => f a b).run = (f a b).run := by
        rw [GoE.run_bind_of_some hoa, GoE.run_bind_of_some hob]
      have h2 : (y >>= fun b => x >>= fun a => g b a).run = (g b a).run := by
        rw [GoE.run_bind_of_some hob, GoE.run_bind_of_some hoa]
      exact GoE.Rel.of_run h1 h2 (hfg a b)

theorem GoE.Rel.trans {α β γ} {R : α → β → Prop} {S : β → γ → Prop} {T : α → γ → Prop}
    {x : GoE α} {y : GoE β} {z : GoE γ} (h1 : GoE.Rel R x y) (h2 : GoE.Rel S y z)
    (hT : ∀ a b c, R a b → S b c → T a c) : GoE.Rel T x z := by
  unfold GoE.Rel at h1 h2 ⊢
  generalize x.run = a at h1 ⊢
  generalize y.run = b at h1 h2
  generalize z.run = c at h2 ⊢
  rcases a with e | _ | a <;> rcases b with e' | _ | b <;> rcases c with e'' | _ | c <;>
    simp only [] at h1 h2 ⊢ <;> first | exact h1.trans h2 | exact hT _ _ _ h1 h2

/-- additional knowledge about the successful outcomes of the left computation. -/
theorem GoE.Rel.and_left {α β} {R : α → β → Prop} {P : α → Prop} {x : GoE α} {y : GoE β}
    (h : GoE.Rel R x y) (hP : ∀ a, x.run = .ok (some a) → P a) : GoE.Rel (fun a b => R a b ∧ P a) x y := by
  unfold GoE.Rel at h ⊢
  generalize hx : x.run = a at h hP ⊢
  generalize y.run = b at h ⊢
  rcases a with e | _ | a <;> rcases b with e' | _ | b <;> simp only [] at h ⊢ <;>
    first | exact h | exact ⟨h, hP a rfl⟩

/-- traversing a permuted list with a function that does not panic yields a permuted result (or
    the error return in both cases). -/
theorem GoE.mapM_perm {α β} (g : α → GoE β) {l l' : List α} (hp : l.Perm l')
    (hok : ∀ a ∈ l, GoE.IsOk (g a)) : GoE.Rel List.Perm (l.mapM g) (l'.mapM g) := by
  induction hp with
  | nil => exact GoE.Rel.pure (List.Perm.refl _)
  | cons x _ ih =>
    rw [List.mapM_cons, List.mapM_cons]
    apply GoE.Rel.bind_same
    intro b
    apply GoE.Rel.bind (ih (fun a ha => hok a (List.mem_cons_of_mem _ ha)))
    intro bs bs' hbs
    exact GoE.Rel.pure (List.Perm.cons b hbs)
  | swap x y l =>
    simp only [List.mapM_cons, bind_assoc, pure_bind]
    apply GoE.Rel.swap (hok y (List.mem_cons_self ..)) (hok x (List.mem_cons_of_mem _ (List.mem_cons_self ..)))
    intro b b'
    apply GoE.Rel.bind_same
    intro bs
    exact GoE.Rel.pure (List.Perm.swap b' b bs)
  | trans h1 _ ih1 ih2 =>
    exact GoE.Rel.trans (ih1 hok) (ih2 (fun a ha => hok a (h1.symm.subset ha))) (fun _ _ _ => List.Perm.trans)

/-! ## 6. range proofs -/

theorem ProofD.maxAttribute_perm {p q : ProofD} (h : p.aResponses.Perm q.aResponses) :
    p.maxAttribute = q.maxAttribute := by
  unfold ProofD.maxAttribute
  apply h.foldl_eq'
  intro x _ y _ m
  split_ifs <;> omega

theorem ProofD.rangeIndices_perm {p q : ProofD} (h : p.aResponses.Perm q.aResponses) :
    p.rangeIndices = q.rangeIndices := by
  unfold ProofD.rangeIndices
  rw [ProofD.maxAttribute_perm h]

theorem extractAll_perm (pk : PublicKey) {rps rps' : RPMap} (hp : rps.Perm rps')
    (hsome : ∀ kv ∈ rps, ∀ rp ∈ kv.2, rp.isSome) :
    GoE.Rel List.Perm (extractAll pk rps) (extractAll pk rps') := by
  unfold extractAll
  apply GoE.mapM_perm _ hp
  intro kv hkv
  apply GoE.isOk_bind
  · apply GoE.mapM_isOk
    intro rp hrp
    exact extractStep_isOk pk kv.1 (hsome kv hkv rp hrp)
  · intro _ _; exact GoE.isOk_pure _

theorem extractAll_keys {pk : PublicKey} {rps : RPMap} {structs : List (Int × List RangeStructure)}
    (h : (extractAll pk rps).run = .ok (some structs)) : structs.map (·.1) = rps.map (·.1) := by
  have := extractAll_ok_some h
  clear h
  induction this with
  | nil => rfl
  | cons hab _ ih => simp only [List.map_cons, ih, hab.1]

theorem rangeOuter_perm (pk : PublicKey) {p q : ProofD} (hget : p.aResponses.get = q.aResponses.get) (c : Int)
    {structs structs' : List (Int × List RangeStructure)} {rps rps' : RPMap}
    (hs : ∀ k, structs.lookup k = structs'.lookup k) (hr : ∀ k, rps.lookup k = rps'.lookup k) (index : Int)
    (st st' : List Int × RPMap) (hst : st.1 = st'.1 ∧ st.2.Perm st'.2) :
    GoE.Rel (StepRel (fun s s' : List Int × RPMap => s.1 = s'.1 ∧ s.2.Perm s'.2))
      (rangeOuter pk p c structs rps index st) (rangeOuter pk q c structs' rps' index st') := by
  unfold rangeOuter
  rw [← hs index, ← hr index, ← hget]
  cases structs.lookup index with
  | none => exact GoE.Rel.pure hst
  | some ss =>
    cases rps.lookup index with
    | none => exact GoE.Rel.pure hst
    | some proofs =>
      simp only []
      apply GoE.Rel.bind_same
      intro mresp
      rw [hst.1]
      apply GoE.Rel.bind_same
      intro st1
      exact GoE.Rel.pure ⟨rfl, hst.2.map _⟩

/-- the range-proof part of `ChallengeContribution` under permutation of `AResponses` and of the
    range-proof map: same contributions, permuted updated map. -/
theorem ProofD.rangeContributions_perm (pk : PublicKey) {p q : ProofD} (c : Int)
    (har : p.aResponses.Perm q.aResponses) (hnd : (p.aResponses.map (·.1)).Nodup)
    (hrp : OptRel List.Perm p.rangeProofs q.rangeProofs)
    (hrnd : ∀ m, p.rangeProofs = some m → (m.map (·.1)).Nodup)
    (hsome : ∀ m, p.rangeProofs = some m → ∀ kv ∈ m, ∀ rp ∈ kv.2, rp.isSome) :
    GoE.Rel (fun r r' => r.1 = r'.1 ∧ OptRel List.Perm r.2 r'.2)
      (p.rangeContributions pk c) (q.rangeContributions pk c) := by
  rw [ProofD.rangeContributions_eq, ProofD.rangeContributions_eq, ← ProofD.rangeIndices_perm har]
  have hget : p.aResponses.get = q.aResponses.get := funext (IntMap.get_perm har hnd)
  cases hp : p.rangeProofs with
  | none =>
    cases hq : q.rangeProofs with
    | none => exact GoE.Rel.pure ⟨rfl, trivial⟩
    | some rps' => rw [hp, hq] at hrp; exact absurd hrp id
  | some rps =>
    cases hq : q.rangeProofs with
    | none => rw [hp, hq] at hrp; exact absurd hrp id
    | some rps' =>
      rw [hp, hq] at hrp
      have hperm : rps.Perm rps' := hrp
      simp only []
      apply GoE.Rel.bind ((extractAll_perm pk hperm (hsome rps hp)).and_left (fun s hs => extractAll_keys hs))
      rintro structs structs' ⟨hsp, hkeys⟩
      have hs : ∀ k, structs.lookup k = structs'.lookup k :=
        lookup_perm hsp (by rw [hkeys]; exact hrnd rps hp)
      have hr : ∀ k, rps.lookup k = rps'.lookup k := lookup_perm hperm (hrnd rps hp)
      apply GoE.Rel.bind (Q := fun st st' : List Int × RPMap => st.1 = st'.1 ∧ st.2.Perm st'.2)
      · apply GoE.Rel.forIn (Q := Eq) (List.forall₂_eq_eq_eq ▸ rfl)
        · intro a a' haa' s s' hss'
          subst haa'
          exact rangeOuter_perm pk hget c hs hr a s s' hss'
        · exact ⟨rfl, hperm⟩
      · intro st st' hst
        exact GoE.Rel.pure ⟨hst.1, hst.2⟩

/-! ## 7. `VerifyWithChallenge` -/

theorem ProofD.correctResponseSizes_perm (pk : PublicKey) {p q : ProofD} (h : p.PermEq q)
    (hsome : ∀ kv ∈ p.aResponses, kv.2.isSome) : p.correctResponseSizes pk = q.correctResponseSizes pk := by
  unfold ProofD.correctResponseSizes
  simp only []
  rw [← h.eResponse]
  congr 1
  apply foldlM_perm h.aResponses
  intro a ha b hb s
  obtain ⟨ra, hra⟩ := Option.isSome_iff_exists.mp (hsome a ha)
  obtain ⟨rb, hrb⟩ := Option.isSome_iff_exists.mp (hsome b hb)
  simp only [hra, hrb, deref_some, GoM.ok_bind, GoM.pure_eq_ok]
  rw [Bool.and_right_comm]

/-- the lookups of a proof are unambiguous (as after `SetExpected`): hidden-attribute indices
    and all response names are distinct. -/
structure ProofD.RespNodup (p : ProofD) : Prop where
  aResponses : (p.aResponses.map (·.1)).Nodup
  nonrev : ∀ nr, p.nonrev = some nr → (nr.responses.map (·.1)).Nodup

theorem ProofD.verifyWithChallenge_perm (o : SigOracle) (kid : String) (pk : PublicKey) {p q : ProofD}
    (h : p.PermEq q) (hnd : p.RespNodup) (i c' : Int) :
    p.verifyWithChallenge o kid pk i c' = q.verifyWithChallenge o kid pk i c' := by
  unfold ProofD.verifyWithChallenge
  rw [← ProofD.wellFormed_perm pk h hnd.aResponses]
  by_cases hw : p.wellFormed pk = true
  · have hsome : ∀ kv ∈ p.aResponses, kv.2.isSome := by
      rw [ProofD.wellFormed_iff] at hw
      exact fun kv hkv => (hw.2.2.1 kv hkv).1
    simp only [hw, Bool.not_true, Bool.false_eq_true, if_false]
    rw [← ProofD.correctResponseSizes_perm pk h hsome, ← h.c, ← IntMap.get_perm h.aResponses hnd.aResponses]
    have hnr := h.nonrev
    cases hp : p.nonrev with
    | none =>
      cases hq : q.nonrev with
      | none => rfl
      | some nr' => rw [hp, hq] at hnr; exact absurd hnr id
    | some nr =>
      cases hq : q.nonrev with
      | none => rw [hp, hq] at hnr; exact absurd hnr id
      | some nr' =>
        rw [hp, hq] at hnr
        have hpe : nr.PermEq nr' := hnr
        simp only []
        rw [← NonRevProof.verifyWithChallenge_perm o kid pk hpe (hnd.nonrev nr hp),
          ← NonRevProof.response_perm hpe.responses (hnd.nonrev nr hp)]
  · simp only [hw, Bool.not_false, if_true]

/-! ## 8. `ChallengeContribution` and `Verify` -/

/-- same contributions; updated proofs equal up to order, with unambiguous lookups. -/
def ContribPermRel (r r' : List Int × ProofD) : Prop := r.1 = r'.1 ∧ r.2.PermEq r'.2 ∧ r.2.RespNodup

theorem ProofD.challengeContribution_perm (o : SigOracle) (kid : String) (pk : PublicKey) {p q : ProofD}
    (h : p.PermEq q) (hnd : p.KeysNodup) (i : Int) :
    GoE.Rel ContribPermRel (p.challengeContribution o kid pk i) (q.challengeContribution o kid pk i) := by
  unfold ProofD.challengeContribution
  simp only []
  rw [← ProofD.wellFormed_perm pk h hnd.aResponses]
  by_cases hw : p.wellFormed pk = true
  · simp only [hw, Bool.not_true, Bool.false_eq_true, if_false]
    rw [← ProofD.reconstructZ_perm pk h hw, ← h.a, ← h.c, ← IntMap.get_perm h.aResponses hnd.aResponses]
    have hrsome : ∀ m, p.rangeProofs = some m → ∀ kv ∈ m, ∀ rp ∈ kv.2, rp.isSome := by
      intro m hm kv hkv
      rw [ProofD.wellFormed_iff] at hw
      exact (hw.2.2.2.2.1 kv (by rw [hm]; exact hkv)).2
    apply GoE.Rel.bind_same; intro z
    apply GoE.Rel.bind_same; intro a
    apply GoE.Rel.bind_same; intro c
    have hnr := h.nonrev
    cases hp : p.nonrev with
    | none =>
      cases hq : q.nonrev with
      | some nr' => rw [hp, hq] at hnr; exact absurd hnr id
      | none =>
        simp only []
        apply GoE.Rel.bind (ProofD.rangeContributions_perm pk c h.aResponses hnd.aResponses h.rangeProofs
          hnd.rangeProofs hrsome)
        intro r r' hr
        apply GoE.Rel.pure
        refine ⟨by rw [hr.1], ⟨rfl, rfl, h.eResponse, h.vResponse, h.aResponses, h.aDisclosed, trivial, hr.2⟩,
          ⟨hnd.aResponses, ?_⟩⟩
        intro nr hnr'
        cases hnr'
    | some nr =>
      cases hq : q.nonrev with
      | none => rw [hp, hq] at hnr; exact absurd hnr id
      | some nr' =>
        rw [hp, hq] at hnr
        have hpe : nr.PermEq nr' := hnr
        simp only []
        apply GoE.Rel.bind_same; intro resp
        have hse := NonRevProof.setExpected_perm o kid pk hpe (hnd.nonrev nr hp) c resp
        cases hs : nr.setExpected o kid pk c resp with
        | none =>
          cases hs' : nr'.setExpected o kid pk c resp with
          | none => exact GoE.Rel.failure_bind _ _
          | some x' => rw [hs, hs'] at hse; exact absurd hse id
        | some x =>
          cases hs' : nr'.setExpected o kid pk c resp with
          | none => rw [hs, hs'] at hse; exact absurd hse id
          | some x' =>
            rw [hs, hs'] at hse
            have hse' : x.PermEq x' ∧ (x.responses.map (fun kv => kv.1)).Nodup := hse
            obtain ⟨hxe, hxnd⟩ := hse'
            simp only []
            rw [← NonRevProof.challengeContributions_perm pk hxe hxnd]
            apply GoE.Rel.bind_same; intro contrib
            apply GoE.Rel.bind (ProofD.rangeContributions_perm pk
              (p := { p with nonrev := some x }) (q := { q with nonrev := some x' }) c h.aResponses
              hnd.aResponses h.rangeProofs hnd.rangeProofs hrsome)
            intro r r' hr
            apply GoE.Rel.pure
            refine ⟨by rw [hr.1], ⟨rfl, rfl, h.eResponse, h.vResponse, h.aResponses, h.aDisclosed, hxe, hr.2⟩,
              ⟨hnd.aResponses, ?_⟩⟩
            intro nr2 hnr2
            have : some x = some nr2 := hnr2
            cases this
            exact hxnd
  · simp only [hw, Bool.not_false, if_true]
    exact GoE.Rel.failure_bind _ _

/-- GOAL 4: `ProofD.Verify` does not depend on the order in which the maps of the proof are
    listed, provided the keys that are looked up are distinct. "Verdict" includes a panic. -/
theorem ProofD.verifyWith_perm (o : SigOracle) (kid : String) (pk : PublicKey) {p q : ProofD}
    (h : p.PermEq q) (hnd : p.KeysNodup) (ctx nonce : Int) (issig : Bool) (i1 i2 : Int) :
    p.verifyWith o kid pk ctx nonce issig i1 i2 = q.verifyWith o kid pk ctx nonce issig i1 i2 := by
  unfold ProofD.verifyWith
  have hc := ProofD.challengeContribution_perm o kid pk h hnd i1
  unfold GoE.Rel at hc
  generalize (p.challengeContribution o kid pk i1).run = x at hc ⊢
  generalize (q.challengeContribution o kid pk i1).run = y at hc ⊢
  rcases x with e | _ | ⟨l, p'⟩ <;> rcases y with e' | _ | ⟨l', q'⟩ <;> simp only [] at hc
  · rw [hc]
  · rfl
  · obtain ⟨h1, h2, h3⟩ := hc
    simp only [] at h1 h2 h3
    subst h1
    show (do let r ← p'.verifyWithChallenge o kid pk i2 _; pure r.1) =
      (do let r ← q'.verifyWithChallenge o kid pk i2 _; pure r.1)
    rw [ProofD.verifyWithChallenge_perm o kid pk h2 h3]

theorem ProofD.revChoices_perm {p q : ProofD} (h : p.PermEq q) : p.revChoices.Perm q.revChoices := by
  have hc : p.revocationCandidates.Perm q.revocationCandidates := by
    unfold ProofD.revocationCandidates
    exact h.aResponses.filterMap _
  unfold ProofD.revChoices
  have hnr := h.nonrev
  cases hp : p.nonrev with
  | none =>
    cases hq : q.nonrev with
    | none => exact List.Perm.refl _
    | some _ => rw [hp, hq] at hnr; exact absurd hnr id
  | some _ =>
    cases hq : q.nonrev with
    | none => rw [hp, hq] at hnr; exact absurd hnr id
    | some _ =>
      simp only []
      cases hpc : p.revocationCandidates with
      | nil =>
        rw [hpc] at hc
        rw [hc.symm.eq_nil]
      | cons a l =>
        cases hqc : q.revocationCandidates with
        | nil => rw [hpc, hqc] at hc; exact absurd hc.symm (by simp)
        | cons b l' => rw [hpc, hqc] at hc; exact hc

/-! ## 9. issuance commitment proofs -/

structure ProofU.PermEq (p q : ProofU) : Prop where
  u : p.u = q.u
  c : p.c = q.c
  vPrimeResponse : p.vPrimeResponse = q.vPrimeResponse
  sResponse : p.sResponse = q.sResponse
  mUserResponses : p.mUserResponses.Perm q.mUserResponses

theorem ProofU.wellFormed_perm (pk : PublicKey) {p q : ProofU} (h : p.PermEq q) :
    p.wellFormed pk = q.wellFormed pk := by
  unfold ProofU.wellFormed
  rw [h.u, h.c, h.vPrimeResponse, h.sResponse, h.mUserResponses.all_eq]

def uStep (pk : PublicKey) (acc : Option Int) (kv : Int × Option Int) : Option Int :=
  match acc, respFactor pk kv with
  | some a, some t => some (a * t % pk.n)
  | _, _ => none

theorem uStep_foldl_none (pk : PublicKey) (l : IntMap) : l.foldl (uStep pk) none = none := by
  induction l with
  | nil => rfl
  | cons kv l ih => exact ih

theorem mul_emod_mul_emod_comm (a x y n : Int) : a * x % n * y % n = a * y % n * x % n := by
  have h1 : a * x % n * y % n = a * x * y % n := by
    rw [Int.mul_emod (a * x % n), Int.emod_emod, ← Int.mul_emod]
  have h2 : a * y % n * x % n = a * y * x % n := by
    rw [Int.mul_emod (a * y % n), Int.emod_emod, ← Int.mul_emod]
  rw [h1, h2, mul_right_comm]

theorem uStep_comm (pk : PublicKey) (acc : Option Int) (a b : Int × Option Int) :
    uStep pk (uStep pk acc a) b = uStep pk (uStep pk acc b) a := by
  unfold uStep
  cases acc <;> cases respFactor pk a <;> cases respFactor pk b <;> simp only []
  rw [mul_emod_mul_emod_comm]

theorem reconstructUcommit_go_eq (pk : PublicKey) (l : IntMap) (acc : Int)
    (h : ∀ kv ∈ l, kv.2.isSome ∧ 1 ≤ kv.1 ∧ kv.1 < pk.r.length) :
    ProofU.reconstructUcommit.go pk l acc = .ok (l.foldl (uStep pk) (some acc)) := by
  induction l generalizing acc with
  | nil => rfl
  | cons kv rest ih =>
    obtain ⟨i, v⟩ := kv
    obtain ⟨hv, h0, h1⟩ := h (i, v) (List.mem_cons_self ..)
    simp only [] at hv h0 h1
    cases v with
    | none => simp at hv
    | some r =>
      have hlt : i.toNat < pk.r.length := by omega
      have hidx : idx "R[i]" pk.r i = .ok pk.r[i.toNat] := by
        rw [idx_ok_iff]; exact ⟨by omega, List.getElem?_eq_getElem hlt⟩
      unfold ProofU.reconstructUcommit.go
      simp only [hidx, deref_some, GoM.ok_bind, List.foldl_cons, uStep, respFactor,
        List.getElem?_eq_getElem hlt]
      cases modPow pk.r[i.toNat] r pk.n with
      | none =>
        simp only []
        rw [show (List.foldl (uStep pk) none rest) = none from uStep_foldl_none pk rest]
        rfl
      | some t =>
        simp only []
        exact ih _ (fun kv' hkv' => h kv' (List.mem_cons_of_mem _ hkv'))

theorem ProofU.reconstructUcommit_perm (pk : PublicKey) {p q : ProofU} (h : p.PermEq q)
    (hw : p.wellFormed pk = true) : p.reconstructUcommit pk = q.reconstructUcommit pk := by
  rw [ProofU.wellFormed_iff] at hw
  obtain ⟨_, _, _, _, _, hm⟩ := hw
  have hgo : ∀ acc, ProofU.reconstructUcommit.go pk p.mUserResponses acc =
      ProofU.reconstructUcommit.go pk q.mUserResponses acc := by
    intro acc
    rw [reconstructUcommit_go_eq pk _ acc hm,
      reconstructUcommit_go_eq pk _ acc (fun kv hkv => hm kv (h.mUserResponses.symm.subset hkv))]
    congr 1
    exact h.mUserResponses.foldl_eq' (fun a _ b _ acc => uStep_comm pk acc a b) _
  unfold ProofU.reconstructUcommit
  simp only [h.u, h.c, h.vPrimeResponse, h.sResponse, hgo]

theorem ProofU.challengeContribution_perm (pk : PublicKey) {p q : ProofU} (h : p.PermEq q) :
    p.challengeContribution pk = q.challengeContribution pk := by
  unfold ProofU.challengeContribution
  rw [← ProofU.wellFormed_perm pk h]
  by_cases hw : p.wellFormed pk = true
  · simp only [hw, Bool.not_true, Bool.false_eq_true, if_false]
    rw [← ProofU.reconstructUcommit_perm pk h hw, ← h.u]
  · simp only [hw, Bool.not_false, if_true]

theorem ProofU.verifyWithChallenge_perm (pk : PublicKey) {p q : ProofU} (h : p.PermEq q) (c' : Int) :
    p.verifyWithChallenge pk c' = q.verifyWithChallenge pk c' := by
  unfold ProofU.verifyWithChallenge ProofU.correctResponseSizes
  rw [← ProofU.wellFormed_perm pk h, h.vPrimeResponse, h.c]

/-! ## 10. `ProofList.Verify` -/

/-- members of two proof lists that differ in the order of their maps only (before verification). -/
def ProofPermRel0 : Proof → Proof → Prop
  | .d p, .d q => p.PermEq q ∧ p.KeysNodup
  | .u p, .u q => p.PermEq q
  | _, _ => False

/-- the same after `ChallengeContribution` has updated the proofs. -/
def ProofPermRel1 : Proof → Proof → Prop
  | .d p, .d q => p.PermEq q ∧ p.RespNodup
  | .u p, .u q => p.PermEq q
  | _, _ => False

theorem proofListVerifyWith_perm (o : SigOracle) (keys : List (String × PublicKey)) {pl pl' : List Proof}
    (h : List.Forall₂ ProofPermRel0 pl pl') (ctx nonce : Int) (issig : Bool) (kss : List String)
    (choices : List (Int × Int)) :
    proofListVerifyWith o keys pl ctx nonce issig kss choices =
      proofListVerifyWith o keys pl' ctx nonce issig kss choices := by
  apply GoM.Rel.eq
  unfold proofListVerifyWith
  have hlen : pl.length = pl'.length := h.length_eq
  have hemp : pl.isEmpty = pl'.isEmpty := by
    cases h <;> rfl
  rw [hemp, hlen]
  split
  · exact GoM.Rel.pure rfl
  · apply GoM.Rel.bind (Q := fun s s' => s.1 = s'.1 ∧ s.2.1 = s'.2.1 ∧ List.Forall₂ ProofPermRel1 s.2.2 s'.2.2)
    · apply GoM.Rel.forIn
        (Q := fun x x' => (ProofPermRel0 x.1.1 x'.1.1 ∧ x.1.2 = x'.1.2) ∧ x.2 = x'.2)
        (forall₂_zip_right (forall₂_zip_right h keys) choices)
      · rintro ⟨⟨pr, kid, pk⟩, ch⟩ ⟨⟨pr', kid', pk'⟩, ch'⟩ ⟨⟨h1, h2⟩, h3⟩ s s' ⟨hs1, hs2, hs3⟩
        simp only [Prod.mk.injEq] at h1 h2 h3
        obtain ⟨rfl, rfl⟩ := h2
        subst h3
        cases pr with
        | d p =>
          cases pr' with
          | u q => exact absurd h1 id
          | d q =>
            obtain ⟨hpe, hnd⟩ : p.PermEq q ∧ p.KeysNodup := h1
            apply GoM.Rel.bind (ProofD.challengeContribution_perm o kid pk hpe hnd ch.1).run
            intro r r' hr
            rcases r with _ | ⟨c, p1⟩ <;> rcases r' with _ | ⟨c', q1⟩ <;> try exact absurd hr id
            · exact GoM.Rel.pure ⟨rfl, hs2, hs3⟩
            · obtain ⟨hc, hq, hq'⟩ : c = c' ∧ p1.PermEq q1 ∧ p1.RespNodup := hr
              exact GoM.Rel.pure ⟨rfl, by simp only [hs2, hc], forall₂_append_singleton hs3 ⟨hq, hq'⟩⟩
        | u p =>
          cases pr' with
          | d q => exact absurd h1 id
          | u q =>
            have hpe : p.PermEq q := h1
            apply GoM.Rel.bind (Q := Eq) (x := p.challengeContribution pk) (y := q.challengeContribution pk)
            · rw [ProofU.challengeContribution_perm pk hpe]
              exact GoM.Rel.refl (fun _ => rfl) _
            rintro r r' rfl
            cases r with
            | none => exact GoM.Rel.pure ⟨rfl, hs2, hs3⟩
            | some c => exact GoM.Rel.pure ⟨rfl, by simp only [hs2], forall₂_append_singleton hs3 hpe⟩
      · exact ⟨rfl, rfl, List.Forall₂.nil⟩
    · rintro ⟨r1, l1, u1⟩ ⟨r1', l1', u1'⟩ ⟨h1, h2, h3⟩
      simp only [] at h1 h2 h3
      subst h1 h2
      cases r1 with
      | some r => exact GoM.Rel.pure rfl
      | none =>
        simp only []
        apply GoM.Rel.bind (Q := Eq)
        · apply GoM.Rel.forIn (R := Eq)
            (Q := fun x x' => (ProofPermRel1 x.1.1 x'.1.1 ∧ x.1.2 = x'.1.2) ∧ x.2 = x'.2)
            (forall₂_zip_right (forall₂_zip_right h3 keys) choices)
          · rintro ⟨⟨pr, kid, pk⟩, ch⟩ ⟨⟨pr', kid', pk'⟩, ch'⟩ ⟨⟨h1, h2⟩, h3⟩ s s' rfl
            simp only [Prod.mk.injEq] at h1 h2 h3
            obtain ⟨rfl, rfl⟩ := h2
            subst h3
            cases pr with
            | d q => cases pr' with
              | d q' =>
                obtain ⟨hpe, hnd⟩ : q.PermEq q' ∧ q.RespNodup := h1
                have e1 : q.verifyWithChallenge o kid pk ch.2 = q'.verifyWithChallenge o kid pk ch.2 := by
                  funext c'
                  exact ProofD.verifyWithChallenge_perm o kid pk hpe hnd ch.2 c'
                have e2 : (Proof.d q).secretKeyResponse = (Proof.d q').secretKeyResponse :=
                  IntMap.get_perm hpe.aResponses hnd.aResponses 0
                simp only [e1, e2]
                exact GoM.Rel.refl (R := StepRel Eq) (fun st => by cases st <;> exact rfl) _
              | u q' => exact absurd h1 id
            | u q => cases pr' with
              | d q' => exact absurd h1 id
              | u q' =>
                have hpe : q.PermEq q' := h1
                have e1 : q.verifyWithChallenge pk = q'.verifyWithChallenge pk := by
                  funext c'
                  exact ProofU.verifyWithChallenge_perm pk hpe c'
                have e2 : (Proof.u q).secretKeyResponse = (Proof.u q').secretKeyResponse := hpe.sResponse
                simp only [e1, e2]
                exact GoM.Rel.refl (R := StepRel Eq) (fun st => by cases st <;> exact rfl) _
          · rfl
        · rintro s s' rfl
          exact GoM.Rel.refl (fun _ => rfl) _

end Gabi
