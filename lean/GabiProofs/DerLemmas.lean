/-
  GabiProofs.DerLemmas — injectivity / prefix-freeness of the DER encoder in GabiModel.Der
  and binding of `hashCommit` / `createChallenge` up to SHA-256 collisions.
-/
import GabiModel.HashTool
import Mathlib.Tactic.Ring
import Mathlib.Tactic.Linarith
import Mathlib.Data.Nat.Log
import Mathlib.Data.List.Basic

namespace Gabi

/-! ### `ofBytesBE` -/

theorem toUInt8_toNat (n : Nat) : (n.toUInt8).toNat = n % 256 := by simp

theorem ofBytesBE_foldl (acc : Nat) (bs : List UInt8) :
    bs.foldl (fun a b => a * 256 + b.toNat) acc = acc * 256 ^ bs.length + ofBytesBE bs := by
  unfold ofBytesBE
  induction bs generalizing acc with
  | nil => simp
  | cons x xs ih =>
    simp only [List.foldl_cons, List.length_cons]
    rw [ih (acc * 256 + x.toNat), ih (0 * 256 + x.toNat)]
    ring

theorem ofBytesBE_nil : ofBytesBE [] = 0 := rfl

theorem ofBytesBE_cons (x : UInt8) (xs : List UInt8) :
    ofBytesBE (x :: xs) = x.toNat * 256 ^ xs.length + ofBytesBE xs := by
  have := ofBytesBE_foldl (0 * 256 + x.toNat) xs
  simp only [Nat.zero_mul, Nat.zero_add] at this
  simpa [ofBytesBE] using this

theorem ofBytesBE_lt (bs : List UInt8) : ofBytesBE bs < 256 ^ bs.length := by
  induction bs with
  | nil => simp [ofBytesBE_nil]
  | cons x xs ih =>
    rw [ofBytesBE_cons, List.length_cons, Nat.pow_succ]
    have hx : x.toNat < 256 := x.toNat_lt
    nlinarith

theorem ofBytesBE_injective_of_length {a b : List UInt8} (hl : a.length = b.length)
    (h : ofBytesBE a = ofBytesBE b) : a = b := by
  induction a generalizing b with
  | nil =>
    cases b with
    | nil => rfl
    | cons y ys => simp at hl
  | cons x xs ih =>
    cases b with
    | nil => simp at hl
    | cons y ys =>
      simp only [List.length_cons, Nat.add_right_cancel_iff] at hl
      rw [ofBytesBE_cons, ofBytesBE_cons, hl] at h
      have hA := ofBytesBE_lt xs
      have hB := ofBytesBE_lt ys
      rw [hl] at hA
      have hP : 0 < 256 ^ ys.length := Nat.pow_pos (by norm_num)
      have h1 : (x.toNat * 256 ^ ys.length + ofBytesBE xs) / 256 ^ ys.length = x.toNat := by
        rw [Nat.add_comm, Nat.add_mul_div_right _ _ hP, Nat.div_eq_of_lt hA, Nat.zero_add]
      have h2 : (y.toNat * 256 ^ ys.length + ofBytesBE ys) / 256 ^ ys.length = y.toNat := by
        rw [Nat.add_comm, Nat.add_mul_div_right _ _ hP, Nat.div_eq_of_lt hB, Nat.zero_add]
      have hxy : x.toNat = y.toNat := by rw [← h1, ← h2, h]
      have hrest : ofBytesBE xs = ofBytesBE ys := by
        rw [hxy] at h; exact Nat.add_left_cancel h
      rw [UInt8.toNat_inj.mp hxy, ih hl hrest]

namespace Der

/-! ### 1. `toBytesFixed` -/

theorem toBytesFixed_length (k n : Nat) : (toBytesFixed k n).length = k := by
  induction k with
  | zero => rfl
  | succ k ih => simp [toBytesFixed, ih]

theorem ofBytesBE_toBytesFixed (k n : Nat) : ofBytesBE (toBytesFixed k n) = n % 256 ^ k := by
  induction k with
  | zero => simp [toBytesFixed, ofBytesBE_nil, Nat.mod_one]
  | succ k ih =>
    rw [toBytesFixed, ofBytesBE_cons, ih, toBytesFixed_length, toUInt8_toNat, Nat.mod_mod,
      Nat.mod_pow_succ]
    ring

theorem toBytesFixed_injective {k a b : Nat} (ha : a < 256 ^ k) (hb : b < 256 ^ k)
    (h : toBytesFixed k a = toBytesFixed k b) : a = b := by
  have := congrArg ofBytesBE h
  rwa [ofBytesBE_toBytesFixed, ofBytesBE_toBytesFixed, Nat.mod_eq_of_lt ha,
    Nat.mod_eq_of_lt hb] at this

/-! ### `natBitLen` -/

theorem lt_two_pow_natBitLen (n : Nat) : n < 2 ^ natBitLen n := by
  unfold natBitLen
  split
  · next h => subst h; simp
  · exact Nat.lt_log2_self

theorem natBitLen_le_of_lt {n m : Nat} (h : n < 2 ^ m) : natBitLen n ≤ m := by
  unfold natBitLen
  split
  · exact Nat.zero_le _
  · next hn => exact (Nat.log2_lt hn).mpr h

theorem two_pow_le_of_natBitLen {n : Nat} (hn : n ≠ 0) : 2 ^ (natBitLen n - 1) ≤ n := by
  unfold natBitLen
  rw [if_neg hn]
  exact Nat.log2_self_le hn

theorem pow256 (k : Nat) : (256 : Nat) ^ k = 2 ^ (8 * k) := by
  rw [Nat.pow_mul]

/-! ### 2. `derLen` -/

theorem lenBytes_length (n : Nat) : (lenBytes n).length = (natBitLen n + 7) / 8 :=
  toBytesFixed_length _ _

theorem lt_pow_lenBytes (n : Nat) : n < 256 ^ ((natBitLen n + 7) / 8) := by
  rw [pow256]
  calc n < 2 ^ natBitLen n := lt_two_pow_natBitLen n
    _ ≤ 2 ^ (8 * ((natBitLen n + 7) / 8)) := Nat.pow_le_pow_right (by norm_num) (by omega)

/-- number of long-form length octets is below 128 when `n < 256^127`. -/
theorem lenLen_lt {n : Nat} (h : n < 256 ^ 127) : (natBitLen n + 7) / 8 < 128 := by
  rw [pow256] at h
  have := natBitLen_le_of_lt h
  omega

theorem lenLen_pos {n : Nat} (h : ¬ n < 128) : 1 ≤ (natBitLen n + 7) / 8 := by
  have : ¬ natBitLen n ≤ 0 := by
    intro hle
    have := lt_two_pow_natBitLen n
    have h0 : natBitLen n = 0 := by omega
    rw [h0] at this
    omega
  omega

/-- Prefix-freeness of definite-length octets, for lengths below `256^127`
    (so that the long-form initial octet `0x80 + k` does not wrap). -/
theorem derLen_prefix_free' {a b : Nat} {r r' : List UInt8}
    (ha : a < 256 ^ 127) (hb : b < 256 ^ 127)
    (h : derLen a ++ r = derLen b ++ r') : a = b ∧ r = r' := by
  have hLa := lenLen_lt ha
  have hLb := lenLen_lt hb
  unfold derLen at h
  by_cases h1 : a < 128 <;> by_cases h2 : b < 128
  · simp only [h1, h2, if_true, List.cons_append, List.nil_append, List.cons.injEq] at h
    obtain ⟨hh, ht⟩ := h
    have := congrArg UInt8.toNat hh
    rw [toUInt8_toNat, toUInt8_toNat] at this
    exact ⟨by omega, ht⟩
  · simp only [h1, h2, if_true, if_false, List.cons_append, List.nil_append, List.cons.injEq] at h
    have := congrArg UInt8.toNat h.1
    rw [toUInt8_toNat, toUInt8_toNat, lenBytes_length] at this
    omega
  · simp only [h1, h2, if_true, if_false, List.cons_append, List.nil_append, List.cons.injEq] at h
    have := congrArg UInt8.toNat h.1
    rw [toUInt8_toNat, toUInt8_toNat, lenBytes_length] at this
    omega
  · simp only [h1, h2, if_false, List.cons_append, List.cons.injEq] at h
    obtain ⟨hh, ht⟩ := h
    have hk := congrArg UInt8.toNat hh
    rw [toUInt8_toNat, toUInt8_toNat, lenBytes_length, lenBytes_length] at hk
    have hk' : (natBitLen a + 7) / 8 = (natBitLen b + 7) / 8 := by omega
    have hlen : (lenBytes a).length = (lenBytes b).length := by
      rw [lenBytes_length, lenBytes_length, hk']
    obtain ⟨hc, hr⟩ := List.append_inj ht hlen
    refine ⟨?_, hr⟩
    unfold lenBytes at hc
    rw [hk'] at hc
    have hA := lt_pow_lenBytes a
    rw [hk'] at hA
    exact toBytesFixed_injective hA (lt_pow_lenBytes b) hc

theorem derLen_prefix_free {a b : Nat} {r r' : List UInt8}
    (ha : a < 256 ^ 126) (hb : b < 256 ^ 126)
    (h : derLen a ++ r = derLen b ++ r') : a = b ∧ r = r' :=
  derLen_prefix_free'
    (lt_trans ha (Nat.pow_lt_pow_right (by norm_num) (by norm_num)))
    (lt_trans hb (Nat.pow_lt_pow_right (by norm_num) (by norm_num))) h

/-! ### 3. `intContent` -/

theorem intContent_length (z : Int) : (intContent z).length = intContentLen z :=
  toBytesFixed_length _ _

theorem intContentLen_pos (z : Int) : 1 ≤ intContentLen z := by
  unfold intContentLen; omega

/-- two's-complement range: `-2^(8k-1) ≤ z < 2^(8k-1)` for `k = intContentLen z`. -/
theorem intContent_range (z : Int) :
    -(2 : Int) ^ (8 * intContentLen z - 1) ≤ z ∧ z < (2 : Int) ^ (8 * intContentLen z - 1) := by
  unfold intContentLen
  split
  · next hz =>
    have h1 := lt_two_pow_natBitLen z.toNat
    have h2 : (2 : Nat) ^ natBitLen z.toNat ≤ 2 ^ (8 * (natBitLen z.toNat / 8 + 1) - 1) :=
      Nat.pow_le_pow_right (by norm_num) (by omega)
    have h3 : z.toNat < 2 ^ (8 * (natBitLen z.toNat / 8 + 1) - 1) := lt_of_lt_of_le h1 h2
    have h4 : (z.toNat : Int) < ((2 ^ (8 * (natBitLen z.toNat / 8 + 1) - 1) : Nat) : Int) := by
      exact_mod_cast h3
    rw [Int.toNat_of_nonneg hz] at h4
    push_cast at h4
    have hpos : (0 : Int) < 2 ^ (8 * (natBitLen z.toNat / 8 + 1) - 1) := by positivity
    constructor <;> linarith
  · next hz =>
    have hz' : 0 ≤ -z - 1 := by omega
    have h1 := lt_two_pow_natBitLen (-z - 1).toNat
    have h2 : (2 : Nat) ^ natBitLen (-z - 1).toNat ≤
        2 ^ (8 * (natBitLen (-z - 1).toNat / 8 + 1) - 1) :=
      Nat.pow_le_pow_right (by norm_num) (by omega)
    have h3 := lt_of_lt_of_le h1 h2
    have h4 : ((-z - 1).toNat : Int) <
        ((2 ^ (8 * (natBitLen (-z - 1).toNat / 8 + 1) - 1) : Nat) : Int) := by
      exact_mod_cast h3
    rw [Int.toNat_of_nonneg hz'] at h4
    push_cast at h4
    have hpos : (0 : Int) < 2 ^ (8 * (natBitLen (-z - 1).toNat / 8 + 1) - 1) := by positivity
    constructor <;> linarith

theorem intContent_injective {a b : Int} (h : intContent a = intContent b) : a = b := by
  have hk : intContentLen a = intContentLen b := by
    rw [← intContent_length, ← intContent_length, h]
  have hra := intContent_range a
  have hrb := intContent_range b
  have hkpos := intContentLen_pos b
  unfold intContent at h
  simp only [hk] at h hra
  generalize intContentLen b = k at *
  have hM : (0 : Int) < 256 ^ k := by positivity
  have hlt : ∀ z : Int, (z % (256 ^ k : Int)).toNat < 256 ^ k := by
    intro z
    have h1 := Int.emod_lt_of_pos z hM
    have h0 := Int.emod_nonneg z (ne_of_gt hM)
    have : ((z % (256 ^ k : Int)).toNat : Int) < ((256 ^ k : Nat) : Int) := by
      rw [Int.toNat_of_nonneg h0]; push_cast; exact h1
    exact_mod_cast this
  have hnat := toBytesFixed_injective (hlt a) (hlt b) h
  have hmod : a % (256 ^ k : Int) = b % (256 ^ k : Int) := by
    have : ((a % (256 ^ k : Int)).toNat : Int) = ((b % (256 ^ k : Int)).toNat : Int) := by
      rw [hnat]
    rwa [Int.toNat_of_nonneg (Int.emod_nonneg a (ne_of_gt hM)),
      Int.toNat_of_nonneg (Int.emod_nonneg b (ne_of_gt hM))] at this
  have hdvd : (256 ^ k : Int) ∣ a - b := by
    have := Int.emod_eq_emod_iff_emod_sub_eq_zero.mp hmod
    exact Int.dvd_of_emod_eq_zero this
  have hpow : (256 : Int) ^ k = 2 * 2 ^ (8 * k - 1) := by
    have : 8 * k = (8 * k - 1) + 1 := by omega
    calc (256 : Int) ^ k = (2 ^ 8) ^ k := by norm_num
      _ = 2 ^ (8 * k) := by rw [← pow_mul]
      _ = 2 ^ ((8 * k - 1) + 1) := by rw [← this]
      _ = 2 * 2 ^ (8 * k - 1) := by rw [pow_succ]; ring
  have habs : |a - b| < (256 ^ k : Int) := by
    rw [hpow, abs_lt]
    constructor <;> linarith [hra.1, hra.2, hrb.1, hrb.2]
  have := Int.eq_zero_of_abs_lt_dvd hdvd habs
  omega

/-! ### 4. `derInt` -/

theorem derInt_ne_nil (z : Int) : derInt z ≠ [] := by simp [derInt]

theorem derInt_prefix_free' {a b : Int} {r r' : List UInt8}
    (ha : intContentLen a < 256 ^ 127) (hb : intContentLen b < 256 ^ 127)
    (h : derInt a ++ r = derInt b ++ r') : a = b ∧ r = r' := by
  unfold derInt at h
  simp only [List.cons_append, List.cons.injEq, true_and, List.append_assoc,
    intContent_length] at h
  obtain ⟨hk, ht⟩ := derLen_prefix_free' ha hb h
  have hlen : (intContent a).length = (intContent b).length := by
    rw [intContent_length, intContent_length, hk]
  obtain ⟨hc, hr⟩ := List.append_inj ht hlen
  exact ⟨intContent_injective hc, hr⟩

theorem derInt_prefix_free {a b : Int} {r r' : List UInt8}
    (ha : intContentLen a < 256 ^ 126) (hb : intContentLen b < 256 ^ 126)
    (h : derInt a ++ r = derInt b ++ r') : a = b ∧ r = r' :=
  derInt_prefix_free'
    (lt_trans ha (Nat.pow_lt_pow_right (by norm_num) (by norm_num)))
    (lt_trans hb (Nat.pow_lt_pow_right (by norm_num) (by norm_num))) h

/-! ### 5. concatenations of `derInt` -/

theorem derInts_flatten_injective' {xs ys : List Int}
    (hx : ∀ x ∈ xs, intContentLen x < 256 ^ 127) (hy : ∀ y ∈ ys, intContentLen y < 256 ^ 127)
    (h : (xs.map derInt).flatten = (ys.map derInt).flatten) : xs = ys := by
  induction xs generalizing ys with
  | nil =>
    cases ys with
    | nil => rfl
    | cons y ys =>
      simp only [List.map_nil, List.flatten_nil, List.map_cons, List.flatten_cons] at h
      have := congrArg List.length h
      have hne := derInt_ne_nil y
      cases hd : derInt y with
      | nil => exact absurd hd hne
      | cons _ _ => rw [hd] at h; simp at h
  | cons x xs ih =>
    cases ys with
    | nil =>
      simp only [List.map_nil, List.flatten_nil, List.map_cons, List.flatten_cons] at h
      have hne := derInt_ne_nil x
      cases hd : derInt x with
      | nil => exact absurd hd hne
      | cons _ _ => rw [hd] at h; simp at h
    | cons y ys =>
      simp only [List.map_cons, List.flatten_cons] at h
      obtain ⟨hxy, hrest⟩ := derInt_prefix_free' (hx x (List.mem_cons_self ..))
        (hy y (List.mem_cons_self ..)) h
      rw [hxy, ih (fun z hz => hx z (List.mem_cons_of_mem _ hz))
        (fun z hz => hy z (List.mem_cons_of_mem _ hz)) hrest]

theorem derInts_flatten_injective {xs ys : List Int}
    (hx : ∀ x ∈ xs, intContentLen x < 256 ^ 126) (hy : ∀ y ∈ ys, intContentLen y < 256 ^ 126)
    (h : (xs.map derInt).flatten = (ys.map derInt).flatten) : xs = ys :=
  derInts_flatten_injective'
    (fun x m => lt_trans (hx x m) (Nat.pow_lt_pow_right (by norm_num) (by norm_num)))
    (fun y m => lt_trans (hy y m) (Nat.pow_lt_pow_right (by norm_num) (by norm_num))) h

theorem intContentLen_lt_derInt_length (z : Int) : intContentLen z < (derInt z).length := by
  simp [derInt, intContent_length]; omega

theorem length_le_flatten_of_mem {α : Type} {l : List α} {L : List (List α)} (h : l ∈ L) :
    l.length ≤ L.flatten.length := by
  induction L with
  | nil => simp at h
  | cons m L ih =>
    rw [List.flatten_cons, List.length_append]
    rcases List.mem_cons.mp h with rfl | h
    · omega
    · have := ih h; omega

theorem intContentLen_lt_flatten {xs : List Int} {x : Int} (h : x ∈ xs) :
    intContentLen x < ((xs.map derInt).flatten).length :=
  lt_of_lt_of_le (intContentLen_lt_derInt_length x)
    (length_le_flatten_of_mem (List.mem_map_of_mem h))

end Der

/-! ### 6. `hashCommitInput` -/

open Der

/-- body of the hashed SEQUENCE. -/
theorem hashCommitItems_flatten (vs : List Int) (b : Bool) :
    (hashCommitItems vs b).flatten =
      (if b then [1, 1, 0xff] else []) ++ (((vs.length : Int) :: vs).map derInt).flatten := by
  cases b <;> simp [hashCommitItems, derBool]

theorem hashCommitInput_eq (vs : List Int) (b : Bool) :
    hashCommitInput vs b =
      0x30 :: (derLen (hashCommitItems vs b).flatten.length ++ (hashCommitItems vs b).flatten) :=
  rfl

theorem body_length_lt_input (vs : List Int) (b : Bool) :
    (hashCommitItems vs b).flatten.length < (hashCommitInput vs b).length := by
  rw [hashCommitInput_eq]; simp; omega

/-- Injectivity of the hash input, for inputs shorter than `256^127` bytes. -/
theorem hashCommitInput_injective' {vs vs' : List Int} {b b' : Bool}
    (hl : (hashCommitInput vs b).length < 256 ^ 127)
    (hl' : (hashCommitInput vs' b').length < 256 ^ 127)
    (h : hashCommitInput vs b = hashCommitInput vs' b') : vs = vs' ∧ b = b' := by
  have hbl := lt_trans (body_length_lt_input vs b) hl
  have hbl' := lt_trans (body_length_lt_input vs' b') hl'
  rw [hashCommitInput_eq, hashCommitInput_eq] at h
  simp only [List.cons.injEq, true_and] at h
  obtain ⟨hlen, hbody⟩ := derLen_prefix_free' hbl hbl' h
  rw [hashCommitItems_flatten] at hbody hbl
  rw [hashCommitItems_flatten] at hbody hbl'
  have hx : ∀ x ∈ ((vs.length : Int) :: vs), intContentLen x < 256 ^ 127 := by
    intro x hx
    refine lt_trans (intContentLen_lt_flatten hx) (lt_of_le_of_lt ?_ hbl)
    rw [List.length_append]; omega
  have hy : ∀ x ∈ ((vs'.length : Int) :: vs'), intContentLen x < 256 ^ 127 := by
    intro x hx
    refine lt_trans (intContentLen_lt_flatten hx) (lt_of_le_of_lt ?_ hbl')
    rw [List.length_append]; omega
  cases b <;> cases b'
  · simp only [Bool.false_eq_true, if_false, List.nil_append] at hbody
    have := derInts_flatten_injective' hx hy hbody
    exact ⟨(List.cons.inj this).2, rfl⟩
  · exfalso
    simp [derInt] at hbody
  · exfalso
    simp [derInt] at hbody
  · simp only [if_true, List.append_cancel_left_eq] at hbody
    have := derInts_flatten_injective' hx hy hbody
    exact ⟨(List.cons.inj this).2, rfl⟩

theorem hashCommitInput_injective {vs vs' : List Int} {b b' : Bool}
    (hl : (hashCommitInput vs b).length < 256 ^ 126)
    (hl' : (hashCommitInput vs' b').length < 256 ^ 126)
    (h : hashCommitInput vs b = hashCommitInput vs' b') : vs = vs' ∧ b = b' :=
  hashCommitInput_injective'
    (lt_trans hl (Nat.pow_lt_pow_right (by norm_num) (by norm_num)))
    (lt_trans hl' (Nat.pow_lt_pow_right (by norm_num) (by norm_num))) h

/-! ### SHA-256 output length -/

namespace Sha256

theorem compress_size (h : Array UInt32) (m : ByteArray) (off : Nat) :
    (compress h m off).size = 8 := by
  unfold compress
  simp only [Id.run, bind, pure]
  rfl

theorem foldl_compress_size (m : ByteArray) (l : List Nat) (h : Array UInt32) (hh : h.size = 8) :
    (List.foldl (fun b a => compress b m (a * 64)) h l).size = 8 := by
  induction l generalizing h with
  | nil => exact hh
  | cons a l ih => exact ih _ (compress_size _ _ _)

theorem foldl_push4_size (l : List UInt32) (init : ByteArray) :
    (List.foldl (fun (b : ByteArray) (a : UInt32) =>
      (((b.push (a >>> 24).toUInt8).push (a >>> 16).toUInt8).push (a >>> 8).toUInt8).push a.toUInt8)
      init l).size = init.size + 4 * l.length := by
  induction l generalizing init with
  | nil => simp
  | cons a l ih =>
    rw [List.foldl_cons, ih]
    simp only [ByteArray.size_push, List.length_cons]
    omega

theorem sha256_size (msg : ByteArray) : (sha256 msg).size = 32 := by
  unfold sha256
  simp only [Std.Legacy.Range.forIn_eq_forIn_range', List.forIn_pure_yield_eq_foldl,
    Array.forIn_pure_yield_eq_foldl, bind_pure_comp, map_pure, pure_bind]
  show ByteArray.size (Array.foldl _ _ _) = 32
  rw [← Array.foldl_toList, foldl_push4_size, Array.length_toList, foldl_compress_size _ _ _ rfl]
  rfl

theorem toList_loop_length (bs : ByteArray) (i : Nat) (r : List UInt8) :
    (ByteArray.toList.loop bs i r).length = r.length + (bs.size - i) := by
  induction i, r using ByteArray.toList.loop.induct bs with
  | case1 i r hlt ih =>
    rw [ByteArray.toList.loop.eq_1, if_pos hlt, ih, List.length_cons]; omega
  | case2 i r hge =>
    rw [ByteArray.toList.loop.eq_1, if_neg hge, List.length_reverse]; omega

theorem byteArray_toList_length (bs : ByteArray) : bs.toList.length = bs.size := by
  unfold ByteArray.toList
  rw [toList_loop_length]; simp

/-- the model's SHA-256 always returns 32 bytes. -/
theorem hash_length (bs : List UInt8) : (Sha256.hash bs).length = 32 := by
  unfold Sha256.hash
  rw [byteArray_toList_length, sha256_size]

end Sha256

/-! ### 7. `hashCommit` binds its arguments up to a SHA-256 collision -/

theorem hashCommit_binds' {vs vs' : List Int} {b b' : Bool}
    (hl : (hashCommitInput vs b).length < 256 ^ 127)
    (hl' : (hashCommitInput vs' b').length < 256 ^ 127)
    (h : hashCommit vs b = hashCommit vs' b') :
    (vs = vs' ∧ b = b') ∨
      (hashCommitInput vs b ≠ hashCommitInput vs' b' ∧
        Sha256.hash (hashCommitInput vs b) = Sha256.hash (hashCommitInput vs' b')) := by
  by_cases heq : hashCommitInput vs b = hashCommitInput vs' b'
  · exact Or.inl (hashCommitInput_injective' hl hl' heq)
  · refine Or.inr ⟨heq, ?_⟩
    unfold hashCommit at h
    exact ofBytesBE_injective_of_length
      (by rw [Sha256.hash_length, Sha256.hash_length]) h

theorem hashCommit_binds {vs vs' : List Int} {b b' : Bool}
    (hl : (hashCommitInput vs b).length < 256 ^ 126)
    (hl' : (hashCommitInput vs' b').length < 256 ^ 126)
    (h : hashCommit vs b = hashCommit vs' b') :
    (vs = vs' ∧ b = b') ∨
      (hashCommitInput vs b ≠ hashCommitInput vs' b' ∧
        Sha256.hash (hashCommitInput vs b) = Sha256.hash (hashCommitInput vs' b')) :=
  hashCommit_binds'
    (lt_trans hl (Nat.pow_lt_pow_right (by norm_num) (by norm_num)))
    (lt_trans hl' (Nat.pow_lt_pow_right (by norm_num) (by norm_num))) h

/-! ### 8. `createChallenge` -/

theorem createChallenge_binds' {ctx ctx' n n' : Int} {cs cs' : List Int} {b b' : Bool}
    (hl : (hashCommitInput (ctx :: cs ++ [n]) b).length < 256 ^ 127)
    (hl' : (hashCommitInput (ctx' :: cs' ++ [n']) b').length < 256 ^ 127)
    (h : createChallenge ctx n cs b = createChallenge ctx' n' cs' b') :
    (ctx = ctx' ∧ cs = cs' ∧ n = n' ∧ b = b') ∨
      (hashCommitInput (ctx :: cs ++ [n]) b ≠ hashCommitInput (ctx' :: cs' ++ [n']) b' ∧
        Sha256.hash (hashCommitInput (ctx :: cs ++ [n]) b) =
          Sha256.hash (hashCommitInput (ctx' :: cs' ++ [n']) b')) := by
  unfold createChallenge at h
  rcases hashCommit_binds' hl hl' h with ⟨hv, hb⟩ | hcol
  · left
    simp only [List.cons_append, List.cons.injEq] at hv
    obtain ⟨hc, hrest⟩ := hv
    obtain ⟨hcs, hn⟩ := List.append_inj' hrest rfl
    exact ⟨hc, hcs, (List.cons.inj hn).1, hb⟩
  · exact Or.inr hcol

theorem createChallenge_binds {ctx ctx' n n' : Int} {cs cs' : List Int} {b b' : Bool}
    (hl : (hashCommitInput (ctx :: cs ++ [n]) b).length < 256 ^ 126)
    (hl' : (hashCommitInput (ctx' :: cs' ++ [n']) b').length < 256 ^ 126)
    (h : createChallenge ctx n cs b = createChallenge ctx' n' cs' b') :
    (ctx = ctx' ∧ cs = cs' ∧ n = n' ∧ b = b') ∨
      (hashCommitInput (ctx :: cs ++ [n]) b ≠ hashCommitInput (ctx' :: cs' ++ [n']) b' ∧
        Sha256.hash (hashCommitInput (ctx :: cs ++ [n]) b) =
          Sha256.hash (hashCommitInput (ctx' :: cs' ++ [n']) b')) :=
  createChallenge_binds'
    (lt_trans hl (Nat.pow_lt_pow_right (by norm_num) (by norm_num)))
    (lt_trans hl' (Nat.pow_lt_pow_right (by norm_num) (by norm_num))) h

/-! ### The size bound on `derLen` is necessary: `.toUInt8` wraps for 128 length octets. -/

-- `256^127` needs 128 length octets; `0x80 + 128` wraps to `0x00`, which is `derLen 0`.
#eval (Der.derLen (256 ^ 127)).head? == (Der.derLen 0).head?   -- true
#eval (Der.derLen (256 ^ 127)).length                           -- 129
-- counterexample to the unbounded statement: a = 256^127, b = 0, r = [], r' = tail
#eval decide (Der.derLen (256 ^ 127) ++ [] = Der.derLen 0 ++ (Der.derLen (256 ^ 127)).tail)  -- true
-- the bound 256^127 used in the primed theorems is tight: 256^127 - 1 still encodes with 0xff
#eval (Der.derLen (256 ^ 127 - 1)).head?                        -- some 255

end Gabi

#print axioms Gabi.Der.toBytesFixed_length
#print axioms Gabi.Der.toBytesFixed_injective
#print axioms Gabi.Der.derLen_prefix_free
#print axioms Gabi.Der.intContent_length
#print axioms Gabi.Der.intContent_injective
#print axioms Gabi.Der.derInt_prefix_free
#print axioms Gabi.Der.derInts_flatten_injective
#print axioms Gabi.hashCommitInput_injective
#print axioms Gabi.ofBytesBE_injective_of_length
#print axioms Gabi.Sha256.hash_length
#print axioms Gabi.hashCommit_binds
#print axioms Gabi.createChallenge_binds
#print axioms Gabi.Der.derLen_prefix_free'
#print axioms Gabi.hashCommitInput_injective'
#print axioms Gabi.hashCommit_binds'
#print axioms Gabi.createChallenge_binds'
