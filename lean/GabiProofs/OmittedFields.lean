/-
  GabiProofs.OmittedFields — the fields of a disclosure proof that are not serialised
  (Go tags `json:"-"`: `revocation.Proof.nu`, `.challenge`, the response "alpha";
  `rangeproof.Proof.mResponse`) do not influence verification.
-/
import GabiModel.Proofs
import GabiProofs.VerifyLogic

namespace Gabi

/-! ## 1. stripping the omitted fields -/

/-- what is left of a non-revocation proof on the wire. -/
def NonRevProof.strip (nr : NonRevProof) : NonRevProof :=
  { nr with nu := none, challenge := none, responses := nr.responses.filter (·.1 ≠ "alpha") }

/-- what is left of a range proof on the wire. -/
def RangeProof.strip (rp : RangeProof) : RangeProof := { rp with mResponse := none }

def stripRPMap (m : RPMap) : RPMap := m.map (fun kv => (kv.1, kv.2.map (Option.map RangeProof.strip)))

/-- strip the range proofs only. -/
def ProofD.stripRange (p : ProofD) : ProofD := { p with rangeProofs := p.rangeProofs.map stripRPMap }

/-- strip the non-revocation proof only. -/
def ProofD.stripNonrev (p : ProofD) : ProofD := { p with nonrev := p.nonrev.map NonRevProof.strip }

/-- what is left of a disclosure proof on the wire. -/
def ProofD.strip (p : ProofD) : ProofD :=
  { p with nonrev := p.nonrev.map NonRevProof.strip, rangeProofs := p.rangeProofs.map stripRPMap }

theorem ProofD.strip_eq (p : ProofD) : p.strip = p.stripNonrev.stripRange := rfl

theorem NonRevProof.setExpected_strip (o : SigOracle) (kid : String) (pk : PublicKey) (nr : NonRevProof)
    (c resp : Int) : nr.strip.setExpected o kid pk c resp = nr.setExpected o kid pk c resp := by
  unfold NonRevProof.setExpected NonRevProof.strip
  simp only [List.filter_filter, Bool.and_self]

/-! ## 2. a relational lifting for `GoE` -/

/-- two `GoE` computations end the same way (same panic / both error return / related values). -/
def GoE.Rel {α β} (R : α → β → Prop) (x : GoE α) (y : GoE β) : Prop :=
  match x.run, y.run with
  | .error e, .error e' => e = e'
  | .ok none, .ok none => True
  | .ok (some a), .ok (some b) => R a b
  | _, _ => False

theorem GoE.Rel.pure {α β} {R : α → β → Prop} {a : α} {b : β} (h : R a b) :
    GoE.Rel R (pure a) (pure b) := h

theorem GoE.Rel.failure {α β} {R : α → β → Prop} : GoE.Rel R (Alternative.failure : GoE α) (Alternative.failure : GoE β) :=
  trivial

theorem GoE.Rel.failure_bind {α α' β β'} {R : β → β' → Prop} (f : α → GoE β) (g : α' → GoE β') :
    GoE.Rel R ((Alternative.failure : GoE α) >>= f) ((Alternative.failure : GoE α') >>= g) := trivial

theorem GoE.Rel.refl {α} {R : α → α → Prop} (hR : ∀ a, R a a) (x : GoE α) : GoE.Rel R x x := by
  unfold GoE.Rel
  cases h : x.run with
  | error e => rfl
  | ok oa => cases oa with
    | none => trivial
    | some a => exact hR a

theorem GoE.Rel.of_eq {α} {x y : GoE α} (h : x = y) : GoE.Rel Eq x y := by
  subst h; exact GoE.Rel.refl (fun _ => rfl) x

theorem GoE.Rel.mono {α β} {R R' : α → β → Prop} {x : GoE α} {y : GoE β} (h : GoE.Rel R x y)
    (hRR : ∀ a b, R a b → R' a b) : GoE.Rel R' x y := by
  unfold GoE.Rel at h ⊢
  split at h <;> simp_all

theorem GoE.Rel.bind {α β γ δ} {Q : α → β → Prop} {R : γ → δ → Prop} {x : GoE α} {y : GoE β}
    {f : α → GoE γ} {g : β → GoE δ} (hxy : GoE.Rel Q x y)
    (hfg : ∀ a b, Q a b → GoE.Rel R (f a) (g b)) : GoE.Rel R (x >>= f) (y >>= g) := by
  unfold GoE.Rel at hxy ⊢
  rw [OptionT.run_bind, OptionT.run_bind]
  show match (x.run >>= _), (y.run >>= _) with
    | .error e, .error e' => e = e'
    | .ok none, .ok none => True
    | .ok (some a), .ok (some b) => R a b
    | _, _ => False
  cases hx : x.run with
  | error e =>
    cases hy : y.run with
    | error e' => rw [hx, hy] at hxy; exact hxy
    | ok ob => rw [hx, hy] at hxy; cases ob <;> simp at hxy
  | ok oa =>
    cases hy : y.run with
    | error e' => rw [hx, hy] at hxy; cases oa <;> simp at hxy
    | ok ob =>
      rw [hx, hy] at hxy
      cases oa with
      | none => cases ob with
        | none => trivial
        | some b => simp at hxy
      | some a => cases ob with
        | none => simp at hxy
        | some b => exact hfg a b hxy

/-- both sides run the same `GoM` action first. -/
theorem GoE.Rel.bind_same {α γ δ} {R : γ → δ → Prop} (x : GoE α)
    {f : α → GoE γ} {g : α → GoE δ} (hfg : ∀ a, GoE.Rel R (f a) (g a)) :
    GoE.Rel R (x >>= f) (x >>= g) :=
  GoE.Rel.bind (GoE.Rel.of_eq rfl) (fun a _ hab => hab ▸ hfg a)

def StepRel {σ σ'} (R : σ → σ' → Prop) : ForInStep σ → ForInStep σ' → Prop
  | .yield a, .yield b => R a b
  | .done a, .done b => R a b
  | _, _ => False

theorem GoE.Rel.forIn {α α' σ σ'} {Q : α → α' → Prop} {R : σ → σ' → Prop} {l : List α} {l' : List α'}
    (hl : List.Forall₂ Q l l') {f : α → σ → GoE (ForInStep σ)} {f' : α' → σ' → GoE (ForInStep σ')}
    (hf : ∀ a a', Q a a' → ∀ s s', R s s' → GoE.Rel (StepRel R) (f a s) (f' a' s'))
    {init : σ} {init' : σ'} (hinit : R init init') :
    GoE.Rel R (forIn l init f) (forIn l' init' f') := by
  induction hl generalizing init init' with
  | nil => rw [List.forIn_nil, List.forIn_nil]; exact GoE.Rel.pure hinit
  | @cons a a' l l' haa' _ ih =>
    rw [List.forIn_cons, List.forIn_cons]
    apply GoE.Rel.bind (hf a a' haa' init init' hinit)
    intro st st' hst
    cases st with
    | done s => cases st' with
      | done s' => exact GoE.Rel.pure hst
      | yield s' => exact absurd hst id
    | yield s => cases st' with
      | done s' => exact absurd hst id
      | yield s' => exact ih hst

/-! ## 3. range proofs: `MResponse` is overwritten before it is read -/

theorem RangeProof.extractStructure_strip (rp : RangeProof) (index : Int) (pk : PublicKey) :
    rp.strip.extractStructure index pk = rp.extractStructure index pk := rfl

theorem extractStep_strip (pk : PublicKey) (index : Int) (rp : Option RangeProof) :
    extractStep pk index (rp.map RangeProof.strip) = extractStep pk index rp := by
  cases rp <;> rfl

theorem GoE.mapM_congr_map {α β} (g : α → α) (f : α → GoE β) (h : ∀ a, f (g a) = f a) (l : List α) :
    (l.map g).mapM f = l.mapM f := by
  induction l with
  | nil => rfl
  | cons a rest ih => rw [List.map_cons, List.mapM_cons, List.mapM_cons, ih, h]

theorem extractAll_strip (pk : PublicKey) (rps : RPMap) :
    extractAll pk (stripRPMap rps) = extractAll pk rps := by
  unfold extractAll stripRPMap
  apply GoE.mapM_congr_map
  intro kv
  simp only []
  rw [GoE.mapM_congr_map _ _ (extractStep_strip pk kv.1)]

theorem lookup_stripRPMap (rps : RPMap) (index : Int) :
    (stripRPMap rps).lookup index = (rps.lookup index).map (·.map (Option.map RangeProof.strip)) := by
  unfold stripRPMap
  induction rps with
  | nil => rfl
  | cons kv rest ih =>
    rw [List.map_cons, List.lookup_cons, List.lookup_cons, ih]
    cases index == kv.1 <;> rfl

theorem rangeInner_strip (pk : PublicKey) (c mresp : Int) (s : RangeStructure) (rp : Option RangeProof)
    (st : List Int × List (Option RangeProof)) :
    rangeInner pk c mresp (s, rp.map RangeProof.strip) st = rangeInner pk c mresp (s, rp) st := by
  cases rp <;> rfl

theorem rangeInner_forIn_strip (pk : PublicKey) (c mresp : Int) (ss : List RangeStructure)
    (proofs : List (Option RangeProof)) (init : List Int × List (Option RangeProof)) :
    forIn (ss.zip (proofs.map (Option.map RangeProof.strip))) init (rangeInner pk c mresp) =
      forIn (ss.zip proofs) init (rangeInner pk c mresp) := by
  induction ss generalizing proofs init with
  | nil => simp
  | cons s ss ih =>
    cases proofs with
    | nil => simp
    | cons rp proofs =>
      rw [List.map_cons, List.zip_cons_cons, List.zip_cons_cons, List.forIn_cons, List.forIn_cons,
        rangeInner_strip]
      congr 1
      funext r
      cases r with
      | done _ => rfl
      | yield st => exact ih proofs st

/-- the loop state of `rangeContributions`: same contributions, same range proofs up to `MResponse`. -/
def RangeStRel (s s' : List Int × RPMap) : Prop := s.1 = s'.1 ∧ stripRPMap s.2 = stripRPMap s'.2

theorem RangeProof.strip_strip (rp : RangeProof) : rp.strip.strip = rp.strip := rfl

theorem stripRPMap_idem (m : RPMap) : stripRPMap (stripRPMap m) = stripRPMap m := by
  unfold stripRPMap
  rw [List.map_map]
  apply List.map_congr_left
  intro kv _
  simp only [Function.comp, List.map_map]
  congr 1
  apply List.map_congr_left
  intro rp _
  cases rp <;> rfl

theorem stripRPMap_update (m m' : RPMap) (h : stripRPMap m = stripRPMap m') (index : Int)
    (new : List (Option RangeProof)) :
    stripRPMap (m.map (fun kv => if kv.1 = index then (kv.1, new) else kv)) =
      stripRPMap (m'.map (fun kv => if kv.1 = index then (kv.1, new) else kv)) := by
  have key : ∀ m : RPMap, stripRPMap (m.map (fun kv => if kv.1 = index then (kv.1, new) else kv)) =
      (stripRPMap m).map (fun kv => if kv.1 = index then (kv.1, new.map (Option.map RangeProof.strip)) else kv) := by
    intro m
    unfold stripRPMap
    rw [List.map_map, List.map_map]
    apply List.map_congr_left
    intro kv _
    simp only [Function.comp]
    split <;> rfl
  rw [key, key, h]

theorem rangeOuter_strip (pk : PublicKey) (p p' : ProofD) (hp : p'.aResponses = p.aResponses) (c : Int)
    (structs : List (Int × List RangeStructure)) (rps : RPMap) (index : Int) (st st' : List Int × RPMap)
    (hst : RangeStRel st' st) :
    GoE.Rel (StepRel RangeStRel) (rangeOuter pk p' c structs (stripRPMap rps) index st')
      (rangeOuter pk p c structs rps index st) := by
  unfold rangeOuter
  rw [lookup_stripRPMap, hp]
  cases structs.lookup index with
  | none => exact GoE.Rel.pure hst
  | some ss =>
    cases rps.lookup index with
    | none => exact GoE.Rel.pure hst
    | some proofs =>
      simp only [Option.map_some]
      apply GoE.Rel.bind_same
      intro mresp
      rw [rangeInner_forIn_strip, hst.1]
      apply GoE.Rel.bind_same
      intro st1
      exact GoE.Rel.pure ⟨rfl, stripRPMap_update _ _ hst.2 _ _⟩

theorem ProofD.rangeContributions_stripRange (pk : PublicKey) (p : ProofD) (c : Int) :
    GoE.Rel (fun r r' => r.1 = r'.1 ∧ r.2.map stripRPMap = r'.2.map stripRPMap)
      (p.stripRange.rangeContributions pk c) (p.rangeContributions pk c) := by
  rw [ProofD.rangeContributions_eq, ProofD.rangeContributions_eq]
  cases hrp : p.rangeProofs with
  | none =>
    have : p.stripRange.rangeProofs = none := by simp [ProofD.stripRange, hrp]
    rw [this]
    exact GoE.Rel.pure ⟨rfl, rfl⟩
  | some rps =>
    have : p.stripRange.rangeProofs = some (stripRPMap rps) := by simp [ProofD.stripRange, hrp]
    rw [this]
    simp only []
    rw [extractAll_strip]
    apply GoE.Rel.bind_same
    intro structs
    have hidx : p.stripRange.rangeIndices = p.rangeIndices := rfl
    rw [hidx]
    apply GoE.Rel.bind (Q := RangeStRel)
    · apply GoE.Rel.forIn (Q := Eq) (List.forall₂_eq_eq_eq ▸ rfl)
      · intro a a' haa' s s' hss'
        subst haa'
        exact rangeOuter_strip pk p p.stripRange rfl c structs rps a s' s hss'
      · exact ⟨rfl, stripRPMap_idem rps⟩
    · intro st st' hst
      exact GoE.Rel.pure ⟨hst.1, by simp [hst.2]⟩

/-! ## 4. `ChallengeContribution` and `VerifyWithChallenge` -/

theorem ProofD.wellFormed_stripRange (pk : PublicKey) (p : ProofD) :
    p.stripRange.wellFormed pk = p.wellFormed pk := by
  unfold ProofD.wellFormed ProofD.stripRange
  cases p.rangeProofs with
  | none => rfl
  | some rps =>
    simp only [Option.map_some, Option.getD_some, stripRPMap, List.all_map]
    congr 1
    congr 1
    funext kv
    have : ((fun x : Option RangeProof => x.isSome) ∘ Option.map RangeProof.strip) = fun x => x.isSome := by
      funext x; cases x <;> rfl
    simp [List.all_map, this]

theorem ProofD.wellFormed_strip (pk : PublicKey) (p : ProofD) :
    p.strip.wellFormed pk = p.wellFormed pk := by
  rw [ProofD.strip_eq, ProofD.wellFormed_stripRange]
  rfl

theorem ProofD.verifyWithChallenge_stripRange (o : SigOracle) (kid : String) (pk : PublicKey) (p : ProofD)
    (i c' : Int) :
    p.stripRange.verifyWithChallenge o kid pk i c' = p.verifyWithChallenge o kid pk i c' := by
  unfold ProofD.verifyWithChallenge
  rw [ProofD.wellFormed_stripRange]
  rfl

/-- result relation of `challengeContribution`: same contributions, same proof up to `MResponse`. -/
def ContribRel (r r' : List Int × ProofD) : Prop := r.1 = r'.1 ∧ r.2.stripRange = r'.2.stripRange

theorem ProofD.challengeContribution_strip (o : SigOracle) (kid : String) (pk : PublicKey) (p : ProofD)
    (i : Int) :
    GoE.Rel ContribRel (p.strip.challengeContribution o kid pk i) (p.challengeContribution o kid pk i) := by
  unfold ProofD.challengeContribution
  simp only []
  rw [ProofD.wellFormed_strip]
  by_cases hw : p.wellFormed pk = true
  · simp only [hw, Bool.not_true, Bool.false_eq_true, if_false]
    have hz : ProofD.reconstructZ pk p.strip = ProofD.reconstructZ pk p := rfl
    rw [hz]
    apply GoE.Rel.bind_same; intro z
    apply GoE.Rel.bind_same; intro a
    apply GoE.Rel.bind_same; intro c
    have hnrs : p.strip.nonrev = p.nonrev.map NonRevProof.strip := rfl
    rw [hnrs]
    cases hnr : p.nonrev with
    | none =>
      have hps : p.strip = p.stripRange := by
        unfold ProofD.strip ProofD.stripRange; rw [hnr]; rfl
      simp only [Option.map_none]
      rw [hps]
      apply GoE.Rel.bind (ProofD.rangeContributions_stripRange pk p c)
      intro r r' hr
      apply GoE.Rel.pure
      refine ⟨by rw [hr.1], ?_⟩
      simp only [ProofD.stripRange, hr.2, hnr]
    | some nr =>
      simp only [Option.map_some]
      apply GoE.Rel.bind_same; intro resp
      rw [NonRevProof.setExpected_strip]
      cases nr.setExpected o kid pk c resp with
      | none => exact GoE.Rel.failure_bind _ _
      | some nr' =>
        simp only []
        apply GoE.Rel.bind_same; intro contrib
        apply GoE.Rel.bind (ProofD.rangeContributions_stripRange pk { p with nonrev := some nr' } c)
        intro r r' hr
        apply GoE.Rel.pure
        refine ⟨by rw [hr.1], ?_⟩
        simp only [ProofD.stripRange, hr.2]
        rfl
  · simp only [hw, Bool.not_false, if_true]
    exact GoE.Rel.failure_bind _ _

/-! ## 5. `ProofD.Verify` -/

/-- whatever the omitted fields hold, the verdict (including a panic, if any) is the one of the
    proof with these fields cleared. -/
theorem ProofD.omitted_fields_restored (o : SigOracle) (kid : String) (pk : PublicKey) (p : ProofD)
    (ctx nonce : Int) (issig : Bool) (i1 i2 : Int) :
    p.strip.verifyWith o kid pk ctx nonce issig i1 i2 = p.verifyWith o kid pk ctx nonce issig i1 i2 := by
  unfold ProofD.verifyWith
  have h := ProofD.challengeContribution_strip o kid pk p i1
  unfold GoE.Rel at h
  generalize (p.strip.challengeContribution o kid pk i1).run = x at h ⊢
  generalize (p.challengeContribution o kid pk i1).run = y at h ⊢
  rcases x with e | _ | ⟨l, q⟩ <;> rcases y with e' | _ | ⟨l', q'⟩ <;> simp only [] at h
  · rw [h]
  · rfl
  · obtain ⟨h1, h2⟩ := h
    simp only [] at h1 h2
    subst h1
    show (do let r ← q.verifyWithChallenge o kid pk i2 _; pure r.1) =
      (do let r ← q'.verifyWithChallenge o kid pk i2 _; pure r.1)
    rw [← ProofD.verifyWithChallenge_stripRange o kid pk q, h2, ProofD.verifyWithChallenge_stripRange]

theorem ProofD.revChoices_strip (p : ProofD) : p.strip.revChoices = p.revChoices := by
  unfold ProofD.revChoices
  have h1 : p.strip.nonrev = p.nonrev.map NonRevProof.strip := rfl
  have h2 : p.strip.revocationCandidates = p.revocationCandidates := rfl
  rw [h1, h2]
  cases p.nonrev <;> rfl

/-! ## 6. `ProofList.Verify` -/

def GoM.Rel {α β} (R : α → β → Prop) (x : GoM α) (y : GoM β) : Prop :=
  match x, y with
  | .error e, .error e' => e = e'
  | .ok a, .ok b => R a b
  | _, _ => False

theorem GoM.Rel.pure {α β} {R : α → β → Prop} {a : α} {b : β} (h : R a b) :
    GoM.Rel R (Pure.pure a) (Pure.pure b) := h

theorem GoM.Rel.eq {α} {x y : GoM α} (h : GoM.Rel Eq x y) : x = y := by
  unfold GoM.Rel at h
  cases x <;> cases y <;> simp_all

theorem GoM.Rel.refl {α} {R : α → α → Prop} (hR : ∀ a, R a a) (x : GoM α) : GoM.Rel R x x := by
  cases x with
  | error e => exact rfl
  | ok a => exact hR a

theorem GoM.Rel.bind {α β γ δ} {Q : α → β → Prop} {R : γ → δ → Prop} {x : GoM α} {y : GoM β}
    {f : α → GoM γ} {g : β → GoM δ} (hxy : GoM.Rel Q x y)
    (hfg : ∀ a b, Q a b → GoM.Rel R (f a) (g b)) : GoM.Rel R (x >>= f) (y >>= g) := by
  cases x with
  | error e => cases y with
    | error e' => exact hxy
    | ok b => exact absurd hxy id
  | ok a => cases y with
    | error e' => exact absurd hxy id
    | ok b => exact hfg a b hxy

theorem GoM.Rel.bind_same {α γ δ} {R : γ → δ → Prop} (x : GoM α)
    {f : α → GoM γ} {g : α → GoM δ} (hfg : ∀ a, GoM.Rel R (f a) (g a)) :
    GoM.Rel R (x >>= f) (x >>= g) :=
  GoM.Rel.bind (GoM.Rel.refl (R := Eq) (fun _ => rfl) x) (fun a _ hab => hab ▸ hfg a)

theorem GoM.Rel.forIn {α α' σ σ'} {Q : α → α' → Prop} {R : σ → σ' → Prop} {l : List α} {l' : List α'}
    (hl : List.Forall₂ Q l l') {f : α → σ → GoM (ForInStep σ)} {f' : α' → σ' → GoM (ForInStep σ')}
    (hf : ∀ a a', Q a a' → ∀ s s', R s s' → GoM.Rel (StepRel R) (f a s) (f' a' s'))
    {init : σ} {init' : σ'} (hinit : R init init') :
    GoM.Rel R (forIn l init f) (forIn l' init' f') := by
  induction hl generalizing init init' with
  | nil => rw [List.forIn_nil, List.forIn_nil]; exact GoM.Rel.pure hinit
  | @cons a a' l l' haa' _ ih =>
    rw [List.forIn_cons, List.forIn_cons]
    apply GoM.Rel.bind (hf a a' haa' init init' hinit)
    intro st st' hst
    cases st with
    | done s => cases st' with
      | done s' => exact GoM.Rel.pure hst
      | yield s' => exact absurd hst id
    | yield s => cases st' with
      | done s' => exact absurd hst id
      | yield s' => exact ih hst

def OptRel {α β} (R : α → β → Prop) : Option α → Option β → Prop
  | none, none => True
  | some a, some b => R a b
  | _, _ => False

theorem GoE.Rel.run {α β} {R : α → β → Prop} {x : GoE α} {y : GoE β} (h : GoE.Rel R x y) :
    GoM.Rel (OptRel R) x.run y.run := by
  unfold GoE.Rel at h
  unfold GoM.Rel
  generalize x.run = a at h ⊢
  generalize y.run = b at h ⊢
  rcases a with e | _ | a <;> rcases b with e' | _ | b <;> exact h

/-- clear the omitted fields of a member of a proof list. -/
def Proof.strip : Proof → Proof
  | .d p => .d p.strip
  | .u p => .u p

/-- two proofs that differ in `MResponse` fields only. -/
def ProofRel : Proof → Proof → Prop
  | .d q, .d q' => q.stripRange = q'.stripRange
  | .u q, .u q' => q = q'
  | _, _ => False

theorem forall₂_zip_right {α α' β} {R : α → α' → Prop} {l : List α} {l' : List α'}
    (h : List.Forall₂ R l l') (m : List β) :
    List.Forall₂ (fun x x' => R x.1 x'.1 ∧ x.2 = x'.2) (l.zip m) (l'.zip m) := by
  induction h generalizing m with
  | nil => simp
  | @cons a a' l l' haa' _ ih =>
    cases m with
    | nil => simp
    | cons b m => exact List.Forall₂.cons ⟨haa', rfl⟩ (ih m)

theorem forall₂_append_singleton {α β} {R : α → β → Prop} {l : List α} {l' : List β} {a : α} {b : β}
    (h : List.Forall₂ R l l') (hab : R a b) : List.Forall₂ R (l ++ [a]) (l' ++ [b]) := by
  induction h with
  | nil => exact List.Forall₂.cons hab List.Forall₂.nil
  | cons h1 _ ih => exact List.Forall₂.cons h1 ih

theorem forall₂_map_left_self {α} {R : α → α → Prop} (g : α → α) (l : List α) (h : ∀ a, R (g a) a) :
    List.Forall₂ R (l.map g) l := by
  induction l with
  | nil => exact List.Forall₂.nil
  | cons a l ih => exact List.Forall₂.cons (h a) ih

theorem proofList_verify_strip (o : SigOracle) (keys : List (String × PublicKey)) (pl : List Proof)
    (ctx nonce : Int) (issig : Bool) (kss : List String) (choices : List (Int × Int)) :
    proofListVerifyWith o keys (pl.map Proof.strip) ctx nonce issig kss choices =
      proofListVerifyWith o keys pl ctx nonce issig kss choices := by
  apply GoM.Rel.eq
  unfold proofListVerifyWith
  simp only [List.isEmpty_map, List.length_map]
  split
  · exact GoM.Rel.pure rfl
  · apply GoM.Rel.bind (Q := fun s s' => s.1 = s'.1 ∧ s.2.1 = s'.2.1 ∧ List.Forall₂ ProofRel s.2.2 s'.2.2)
    · apply GoM.Rel.forIn
        (Q := fun x x' => x.1.1 = x'.1.1.strip ∧ x.1.2 = x'.1.2 ∧ x.2 = x'.2)
      · have h1 := forall₂_map_left_self (R := fun a b => a = Proof.strip b) Proof.strip pl (fun _ => rfl)
        have h2 := forall₂_zip_right (forall₂_zip_right h1 keys) choices
        exact List.Forall₂.imp (fun _ _ h => ⟨h.1.1, h.1.2, h.2⟩) h2
      · rintro ⟨⟨pr, kid, pk⟩, ch⟩ ⟨⟨pr', kid', pk'⟩, ch'⟩ ⟨h1, h2, h3⟩ s s' ⟨hs1, hs2, hs3⟩
        simp only [Prod.mk.injEq] at h1 h2 h3
        obtain ⟨rfl, rfl⟩ := h2
        subst h1 h3
        cases pr' with
        | d p =>
          simp only [Proof.strip]
          apply GoM.Rel.bind (ProofD.challengeContribution_strip o kid pk p ch.1).run
          intro r r' hr
          rcases r with _ | ⟨c, q⟩ <;> rcases r' with _ | ⟨c', q'⟩ <;> try exact absurd hr id
          · exact GoM.Rel.pure ⟨rfl, hs2, hs3⟩
          · obtain ⟨hc, hq⟩ := hr
            simp only [] at hc hq
            exact GoM.Rel.pure ⟨rfl, by simp only [hs2, hc], forall₂_append_singleton hs3 hq⟩
        | u p =>
          simp only [Proof.strip]
          apply GoM.Rel.bind_same
          intro r
          cases r with
          | none => exact GoM.Rel.pure ⟨rfl, hs2, hs3⟩
          | some c => exact GoM.Rel.pure ⟨rfl, by simp only [hs2], forall₂_append_singleton hs3 rfl⟩
      · exact ⟨rfl, rfl, List.Forall₂.nil⟩
    · rintro ⟨r1, l1, u1⟩ ⟨r1', l1', u1'⟩ ⟨h1, h2, h3⟩
      simp only [] at h1 h2 h3
      subst h1 h2
      cases r1 with
      | some r => exact GoM.Rel.pure rfl
      | none =>
        simp only []
        apply GoM.Rel.bind (Q := Eq)
        · apply GoM.Rel.forIn (R := Eq)
            (Q := fun x x' => (ProofRel x.1.1 x'.1.1 ∧ x.1.2 = x'.1.2) ∧ x.2 = x'.2)
            (forall₂_zip_right (forall₂_zip_right h3 keys) choices)
          · rintro ⟨⟨pr, kid, pk⟩, ch⟩ ⟨⟨pr', kid', pk'⟩, ch'⟩ ⟨⟨h1, h2⟩, h3⟩ s s' rfl
            simp only [Prod.mk.injEq] at h1 h2 h3
            obtain ⟨rfl, rfl⟩ := h2
            subst h3
            cases pr with
            | d q => cases pr' with
              | d q' =>
                have e1 : q.verifyWithChallenge o kid pk ch.2 = q'.verifyWithChallenge o kid pk ch.2 := by
                  funext c'
                  rw [← ProofD.verifyWithChallenge_stripRange o kid pk q, h1,
                    ProofD.verifyWithChallenge_stripRange]
                have e2 : (Proof.d q).secretKeyResponse = (Proof.d q').secretKeyResponse := by
                  have h1' : q.stripRange = q'.stripRange := h1
                  show q.stripRange.aResponses.get 0 = q'.stripRange.aResponses.get 0
                  rw [h1']
                simp only [e1, e2]
                exact GoM.Rel.refl (R := StepRel Eq) (fun st => by cases st <;> exact rfl) _
              | u q' => exact absurd h1 id
            | u q => cases pr' with
              | d q' => exact absurd h1 id
              | u q' =>
                have : q = q' := h1
                subst this
                exact GoM.Rel.refl (R := StepRel Eq) (fun st => by cases st <;> exact rfl) _
          · rfl
        · rintro s s' rfl
          exact GoM.Rel.refl (fun _ => rfl) _

end Gabi
