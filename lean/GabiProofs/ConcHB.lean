/-
  GabiProofs.ConcHB — lemmas of the happens-before calculus of GabiModel.Conc.HB:
  * lock-protected accesses of different threads are ordered (`hb_of_prot`);
  * the fork–join discipline theorem `forkJoin_race_free`: if the children's conflicting accesses
    are protected by a common mutex, EVERY execution of the fork–join skeleton is race free
    (accesses of main before the `go` statements / after `Wait` are ordered through the tokens).
-/
import GabiModel.Conc.HB
import Mathlib.Logic.Relation
import Mathlib.Tactic.Ring
import Mathlib.Tactic.Linarith
namespace Gabi.Conc.HB

theorem edge_po {e : Exec} {i j : Nat} {a b : Event} (hij : i < j) (ha : e[i]? = some a)
    (hb : e[j]? = some b) (ht : a.tid = b.tid) : Edge e i j :=
  ⟨hij, a, b, ha, hb, by simp [edgeB, ht]⟩

theorem edge_sync {e : Exec} {i j : Nat} {a b : Event} (hij : i < j) (ha : e[i]? = some a)
    (hb : e[j]? = some b) (hs : syncs a.act b.act = true) : Edge e i j :=
  ⟨hij, a, b, ha, hb, by simp [edgeB, hs]⟩

theorem hb_chain3 {e : Exec} {i r k j : Nat} (h1 : Edge e i r) (h2 : Edge e r k) (h3 : k = j ∨ Edge e k j) :
    HB e i j := by
  have h12 : HB e i k := Relation.TransGen.tail (Relation.TransGen.single h1) h2
  rcases h3 with rfl | h3
  · exact h12
  · exact Relation.TransGen.tail h12 h3

/-- two events of one thread appear in pc order. -/
theorem Conforms.lt_of_pc_lt {prog : Prog} {e : Exec} (hc : Conforms prog e) {i j : Nat} {a b : Event}
    (ha : e[i]? = some a) (hb : e[j]? = some b) (ht : a.tid = b.tid) (hp : a.pc < b.pc) : i < j := by
  rcases Nat.lt_trichotomy i j with h | h | h
  · exact h
  · subst h; rw [ha] at hb; cases hb; omega
  · have := hc.mono j i b a h hb ha ht.symm; omega

/-- a program point occurs at most once. -/
theorem Conforms.inj {prog : Prog} {e : Exec} (hc : Conforms prog e) {i j : Nat} {a b : Event}
    (ha : e[i]? = some a) (hb : e[j]? = some b) (ht : a.tid = b.tid) (hp : a.pc = b.pc) : i = j := by
  rcases Nat.lt_trichotomy i j with h | h | h
  · have := hc.mono i j a b h ha hb ht; omega
  · exact h
  · have := hc.mono j i b a h hb ha ht.symm; omega

/-- program point (t, p) lies inside a critical section of mutex m. -/
def ProtAt (prog : Prog) (m t p : Nat) : Prop :=
  ∃ a, a < p ∧ (prog t)[a]? = some (.lock m) ∧ ∀ b, a < b → (prog t)[b]? = some (.unlock m) → p < b

/-- accesses of different threads inside critical sections of the same mutex are ordered by
    happens-before, in the order in which they occur. -/
theorem hb_of_prot {prog : Prog} {e : Exec} (hc : Conforms prog e) (hw : WF e) {i j : Nat} {x y : Event} {m : Nat}
    (hij : i < j) (hx : e[i]? = some x) (hy : e[j]? = some y) (hne : x.tid ≠ y.tid)
    (px : ProtAt prog m x.tid x.pc) (py : ProtAt prog m y.tid y.pc) : HB e i j := by
  obtain ⟨a, hap, hla, hua⟩ := px
  obtain ⟨a', hap', hla', hua'⟩ := py
  obtain ⟨l0, lx, hl0i, hlx, hlxt, hlxp⟩ := hc.prefixClosed i x hx a hap
  obtain ⟨l1, ly, hl1j, hly, hlyt, hlyp⟩ := hc.prefixClosed j y hy a' hap'
  have hlxa : lx.act = .lock m := by
    have := hc.act l0 lx hlx; rw [hlxt, hlxp, hla] at this; exact (Option.some.inj this).symm
  have hlya : ly.act = .lock m := by
    have := hc.act l1 ly hly; rw [hlyt, hlyp, hla'] at this; exact (Option.some.inj this).symm
  have hl01 : l0 ≠ l1 := by
    intro h; subst h; rw [hlx] at hly; cases hly; exact hne (hlxt.symm.trans hlyt)
  rcases Nat.lt_or_gt_of_ne hl01 with h | h
  · -- x's section was entered first: its unlock precedes y's lock
    obtain ⟨u, c, hl0u, hul1, hcu, hct, hca⟩ := hw.mutex l0 l1 lx ly m h hlx hly hlxa hlya
    have hctx : c.tid = x.tid := hct.trans hlxt
    have hcpc : a < c.pc := by
      have := hc.mono l0 u lx c hl0u hlx hcu hct.symm; omega
    have hcprog : (prog x.tid)[c.pc]? = some (.unlock m) := by
      have := hc.act u c hcu; rw [hctx, hca] at this; exact this
    have hpc : x.pc < c.pc := hua c.pc hcpc hcprog
    have hiu : i < u := hc.lt_of_pc_lt hx hcu hctx.symm hpc
    refine hb_chain3 (edge_po hiu hx hcu hctx.symm) (edge_sync hul1 hcu hly ?_) (Or.inr (edge_po hl1j hly hy hlyt))
    simp [hca, hlya, syncs]
  · -- otherwise y's unlock would precede x's lock, hence y itself: impossible
    obtain ⟨u, c, hl1u, hul0, hcu, hct, hca⟩ := hw.mutex l1 l0 ly lx m h hly hlx hlya hlxa
    have hcty : c.tid = y.tid := hct.trans hlyt
    have hcpc : a' < c.pc := by
      have := hc.mono l1 u ly c hl1u hly hcu hct.symm; omega
    have hcprog : (prog y.tid)[c.pc]? = some (.unlock m) := by
      have := hc.act u c hcu; rw [hcty, hca] at this; exact this
    have hpc : y.pc < c.pc := hua' c.pc hcpc hcprog
    have huj : u < j := by omega
    have := hc.mono u j c y huj hcu hy hcty
    omega


/-! ### structure of fork–join programs -/

section forkJoin
variable (pre post : List Act) (body : Nat → List Act) (n : Nat)

def spawns (n : Nat) : List Act := (List.range n).map (fun i => Act.rel (spawnTok (i + 1)))
def waits (n : Nat) : List Act := (List.range n).map (fun i => Act.acq (doneTok (i + 1)))

theorem fj_main : forkJoin pre post body n 0 = pre ++ spawns n ++ waits n ++ post := by
  simp [forkJoin, spawns, waits]

theorem fj_child {t : Nat} (h1 : 1 ≤ t) (hn : t ≤ n) :
    forkJoin pre post body n t = Act.acq (spawnTok t) :: (body t ++ [Act.rel (doneTok t)]) := by
  have : t ≠ 0 := by omega
  simp [forkJoin, this, hn]

theorem fj_other {t : Nat} (h1 : t ≠ 0) (hn : n < t) : forkJoin pre post body n t = [] := by
  have : ¬ t ≤ n := by omega
  simp [forkJoin, h1, this]

theorem spawns_get {p : Nat} {a : Act} (h : (spawns n)[p]? = some a) : p < n ∧ a = Act.rel (spawnTok (p + 1)) := by
  unfold spawns at h
  rw [List.getElem?_map] at h
  by_cases hp : p < n
  · rw [List.getElem?_range hp] at h; simp at h; exact ⟨hp, h.symm⟩
  · have : (List.range n)[p]? = none := by simp; omega
    rw [this] at h; simp at h

theorem waits_get {p : Nat} {a : Act} (h : (waits n)[p]? = some a) : p < n ∧ a = Act.acq (doneTok (p + 1)) := by
  unfold waits at h
  rw [List.getElem?_map] at h
  by_cases hp : p < n
  · rw [List.getElem?_range hp] at h; simp at h; exact ⟨hp, h.symm⟩
  · have : (List.range n)[p]? = none := by simp; omega
    rw [this] at h; simp at h

theorem spawns_length : (spawns n).length = n := by simp [spawns]
theorem waits_length : (waits n).length = n := by simp [waits]

/-- where an action of main sits. -/
theorem main_cases {p : Nat} {a : Act} (h : (forkJoin pre post body n 0)[p]? = some a) :
    (p < pre.length ∧ pre[p]? = some a) ∨
    (pre.length ≤ p ∧ p < pre.length + n ∧ a = Act.rel (spawnTok (p - pre.length + 1))) ∨
    (pre.length + n ≤ p ∧ p < pre.length + 2 * n ∧ a = Act.acq (doneTok (p - (pre.length + n) + 1))) ∨
    (pre.length + 2 * n ≤ p ∧ post[p - (pre.length + 2 * n)]? = some a) := by
  rw [fj_main] at h
  by_cases h1 : p < pre.length
  · left; refine ⟨h1, ?_⟩
    rw [List.append_assoc, List.append_assoc, List.getElem?_append_left h1] at h; exact h
  · right
    have h1' : pre.length ≤ p := by omega
    rw [List.append_assoc, List.append_assoc, List.getElem?_append_right h1'] at h
    by_cases h2 : p - pre.length < n
    · left
      rw [List.getElem?_append_left (by rw [spawns_length]; exact h2)] at h
      obtain ⟨_, ha⟩ := spawns_get n h
      exact ⟨h1', by omega, ha⟩
    · right
      have h2' : (spawns n).length ≤ p - pre.length := by rw [spawns_length]; omega
      rw [List.getElem?_append_right h2', spawns_length] at h
      by_cases h3 : p - pre.length - n < n
      · left
        rw [List.getElem?_append_left (by rw [waits_length]; exact h3)] at h
        obtain ⟨_, ha⟩ := waits_get n h
        refine ⟨by omega, by omega, ?_⟩
        rw [ha]; congr 2; omega
      · right
        have h3' : (waits n).length ≤ p - pre.length - n := by rw [waits_length]; omega
        rw [List.getElem?_append_right h3', waits_length] at h
        refine ⟨by omega, ?_⟩
        rw [← h]; congr 1; omega

/-- the Wait for child t sits at pc |pre| + n + (t-1) of main. -/
theorem main_wait {t : Nat} (h1 : 1 ≤ t) (hn : t ≤ n) :
    (forkJoin pre post body n 0)[pre.length + n + (t - 1)]? = some (Act.acq (doneTok t)) := by
  rw [fj_main]
  rw [List.append_assoc, List.append_assoc, List.getElem?_append_right (by omega)]
  rw [List.getElem?_append_right (by rw [spawns_length]; omega), spawns_length]
  rw [List.getElem?_append_left (by rw [waits_length]; omega)]
  unfold waits
  rw [List.getElem?_map, List.getElem?_range (by omega)]
  simp; congr 1; omega

/-- where an action of a child sits. -/
theorem child_cases {t p : Nat} {a : Act} (h1 : 1 ≤ t) (hn : t ≤ n)
    (h : (forkJoin pre post body n t)[p]? = some a) :
    (p = 0 ∧ a = Act.acq (spawnTok t)) ∨
    (1 ≤ p ∧ p ≤ (body t).length ∧ (body t)[p - 1]? = some a) ∨
    (p = (body t).length + 1 ∧ a = Act.rel (doneTok t)) := by
  rw [fj_child pre post body n h1 hn] at h
  cases p with
  | zero => left; simp at h; exact ⟨rfl, h.symm⟩
  | succ q =>
    right
    rw [List.getElem?_cons_succ] at h
    by_cases hq : q < (body t).length
    · left
      rw [List.getElem?_append_left hq] at h
      exact ⟨by omega, by omega, by simpa using h⟩
    · right
      rw [List.getElem?_append_right (by omega)] at h
      have : q - (body t).length = 0 := by
        by_contra hne
        have : ([Act.rel (doneTok t)] : List Act)[q - (body t).length]? = none := by
          simp; omega
        rw [this] at h; simp at h
      rw [this] at h; simp at h
      exact ⟨by omega, h.symm⟩

theorem tid_le {t p : Nat} {a : Act} (h : (forkJoin pre post body n t)[p]? = some a) : t = 0 ∨ (1 ≤ t ∧ t ≤ n) := by
  by_cases h0 : t = 0
  · exact Or.inl h0
  · by_cases hn : t ≤ n
    · exact Or.inr ⟨by omega, hn⟩
    · rw [fj_other pre post body n h0 (by omega)] at h; simp at h

theorem spawnTok_ne_doneTok (a b : Nat) : spawnTok a ≠ doneTok b := by unfold spawnTok doneTok; omega

theorem conflict_not_tok {a b : Act} (h : conflict a b = true) : a.isTok = false ∧ b.isTok = false := by
  cases a <;> cases b <;> simp [conflict, Act.isTok] at h ⊢

/-- body position p protected in the body ⇒ program point p+1 protected in the child's program. -/
theorem protAt_of_prot {t p m : Nat} (h1 : 1 ≤ t) (hn : t ≤ n) (hp : Prot (body t) m p) :
    ProtAt (forkJoin pre post body n) m t (p + 1) := by
  obtain ⟨a, hap, hla, hua⟩ := hp
  refine ⟨a + 1, by omega, ?_, ?_⟩
  · rw [fj_child pre post body n h1 hn, List.getElem?_cons_succ]
    have : a < (body t).length := by
      by_contra hlt
      have : (body t)[a]? = none := by simp; omega
      rw [this] at hla; simp at hla
    rw [List.getElem?_append_left this]; exact hla
  · intro b hab hb
    rcases child_cases pre post body n h1 hn hb with ⟨hb0, _⟩ | ⟨hb1, _, hbb⟩ | ⟨_, hbb⟩
    · omega
    · have := hua (b - 1) (by omega) hbb; omega
    · simp at hbb

variable (hpre : ∀ a ∈ pre, a.isTok = false) (hpost : ∀ a ∈ post, a.isTok = false)
  (hbody : ∀ t, ∀ a ∈ body t, a.isTok = false)
include hpre hpost hbody

/-- the `go` statement for child u is the only release of its spawn token. -/
theorem rel_spawn_loc {t p u : Nat} (h : (forkJoin pre post body n t)[p]? = some (Act.rel (spawnTok u))) :
    t = 0 ∧ p + 1 = pre.length + u ∧ 1 ≤ u := by
  rcases tid_le pre post body n h with h0 | ⟨h1, hn⟩
  · subst h0
    rcases main_cases pre post body n h with ⟨_, hp⟩ | ⟨h1, h2, ha⟩ | ⟨_, _, ha⟩ | ⟨_, hp⟩
    · have := hpre _ (List.mem_of_getElem? hp); simp [Act.isTok] at this
    · simp [spawnTok] at ha; exact ⟨rfl, by omega, by omega⟩
    · simp at ha
    · have := hpost _ (List.mem_of_getElem? hp); simp [Act.isTok] at this
  · rcases child_cases pre post body n h1 hn h with ⟨_, ha⟩ | ⟨_, _, hp⟩ | ⟨_, ha⟩
    · simp at ha
    · have := hbody t _ (List.mem_of_getElem? hp); simp [Act.isTok] at this
    · simp at ha; exact absurd ha (spawnTok_ne_doneTok u t)

/-- the Done of child u is the only release of its done token. -/
theorem rel_done_loc {t p u : Nat} (h : (forkJoin pre post body n t)[p]? = some (Act.rel (doneTok u))) :
    t = u ∧ p = (body u).length + 1 := by
  rcases tid_le pre post body n h with h0 | ⟨h1, hn⟩
  · subst h0
    rcases main_cases pre post body n h with ⟨_, hp⟩ | ⟨h1, h2, ha⟩ | ⟨_, _, ha⟩ | ⟨_, hp⟩
    · have := hpre _ (List.mem_of_getElem? hp); simp [Act.isTok] at this
    · simp at ha; exact absurd ha.symm (spawnTok_ne_doneTok _ u)
    · simp at ha
    · have := hpost _ (List.mem_of_getElem? hp); simp [Act.isTok] at this
  · rcases child_cases pre post body n h1 hn h with ⟨_, ha⟩ | ⟨_, _, hp⟩ | ⟨hp, ha⟩
    · simp at ha
    · have := hbody t _ (List.mem_of_getElem? hp); simp [Act.isTok] at this
    · simp [doneTok] at ha; subst ha; exact ⟨rfl, hp⟩


/-- **Fork–join discipline.** Main runs `pre`, starts children 1..n, waits for all, runs `post`.
    If any two conflicting accesses of different children are inside critical sections of a
    common mutex, then every execution (any interleaving, any prefix) is race free. -/
theorem forkJoin_race_free
    (hcc : ∀ t u, t ≠ u → 1 ≤ t → t ≤ n → 1 ≤ u → u ≤ n → ∀ p q a b,
      (body t)[p]? = some a → (body u)[q]? = some b → conflict a b = true →
      ∃ m, Prot (body t) m p ∧ Prot (body u) m q)
    (e : Exec) (hc : Conforms (forkJoin pre post body n) e) (hw : WF e) : RaceFree e := by
  intro i j x y hij hx hy hcf
  obtain ⟨hxt, hyt⟩ := conflict_not_tok hcf
  have hxa := hc.act i x hx
  have hya := hc.act j y hy
  by_cases hsame : x.tid = y.tid
  · exact Relation.TransGen.single (edge_po hij hx hy hsame)
  -- the begin event of a child that has run something
  have begin_of : ∀ (k : Nat) (z : Event), e[k]? = some z → 1 ≤ z.tid → z.tid ≤ n → 1 ≤ z.pc →
      ∃ (b r : Nat) (bz rz : Event), b < k ∧ r < b ∧ e[b]? = some bz ∧ e[r]? = some rz ∧ bz.tid = z.tid ∧
        rz.tid = 0 ∧ rz.pc + 1 = pre.length + z.tid ∧ syncs rz.act bz.act = true := by
    intro k z hz h1 hn hpc
    obtain ⟨b, bz, hbk, hbz, hbt, hbp⟩ := hc.prefixClosed k z hz 0 (by omega)
    have hba : bz.act = Act.acq (spawnTok z.tid) := by
      have := hc.act b bz hbz
      rw [hbt, hbp, fj_child pre post body n h1 hn] at this
      simpa using this.symm
    obtain ⟨r, rz, hrb, hrz, hra⟩ := hw.token b bz _ hbz hba
    have hrl := hc.act r rz hrz
    rw [hra] at hrl
    obtain ⟨hr0, hrp, _⟩ := rel_spawn_loc pre post body n hpre hpost hbody hrl
    exact ⟨b, r, bz, rz, hbk, hrb, hbz, hrz, hbt, hr0, hrp, by simp [hra, hba, syncs]⟩
  -- the Wait of main for child t, once main is in `post`
  have wait_of : ∀ (k : Nat) (z : Event) (t : Nat), e[k]? = some z → z.tid = 0 → pre.length + 2 * n ≤ z.pc →
      1 ≤ t → t ≤ n →
      ∃ (w r : Nat) (wz rz : Event), w < k ∧ r < w ∧ e[w]? = some wz ∧ e[r]? = some rz ∧ wz.tid = 0 ∧
        rz.tid = t ∧ rz.pc = (body t).length + 1 ∧ syncs rz.act wz.act = true := by
    intro k z t hz hz0 hpc h1 hn
    obtain ⟨w, wz, hwk, hwz, hwt, hwp⟩ := hc.prefixClosed k z hz (pre.length + n + (t - 1)) (by omega)
    have hwa : wz.act = Act.acq (doneTok t) := by
      have := hc.act w wz hwz
      rw [hwt, hz0, hwp, main_wait pre post body n h1 hn] at this
      exact (Option.some.inj this).symm
    obtain ⟨r, rz, hrw, hrz, hra⟩ := hw.token w wz _ hwz hwa
    have hrl := hc.act r rz hrz
    rw [hra] at hrl
    obtain ⟨hrt, hrp⟩ := rel_done_loc pre post body n hpre hpost hbody hrl
    exact ⟨w, r, wz, rz, hwk, hrw, hwz, hrz, hwt.trans hz0, hrt, hrp, by simp [hra, hwa, syncs]⟩
  rcases tid_le pre post body n hxa with hx0 | ⟨hx1, hxn⟩ <;>
  rcases tid_le pre post body n hya with hy0 | ⟨hy1, hyn⟩
  · exact absurd (hx0.trans hy0.symm) hsame
  · -- x in main, y in a child
    rw [hx0] at hxa
    rcases child_cases pre post body n hy1 hyn hya with ⟨_, hb⟩ | ⟨hyp1, hyp2, _⟩ | ⟨_, hb⟩
    · rw [hb] at hyt; simp [Act.isTok] at hyt
    · rcases main_cases pre post body n hxa with ⟨hxp, _⟩ | ⟨_, _, ha⟩ | ⟨_, _, ha⟩ | ⟨hxp, _⟩
      · -- x before the go statement
        obtain ⟨b, r, bz, rz, hbj, hrb, hbz, hrz, hbt, hr0, hrp, hsy⟩ := begin_of j y hy hy1 hyn hyp1
        have hir : i < r := hc.lt_of_pc_lt hx hrz (hx0.trans hr0.symm) (by omega)
        exact hb_chain3 (edge_po hir hx hrz (hx0.trans hr0.symm)) (edge_sync hrb hrz hbz hsy)
          (Or.inr (edge_po hbj hbz hy hbt))
      · rw [ha] at hxt; simp [Act.isTok] at hxt
      · rw [ha] at hxt; simp [Act.isTok] at hxt
      · -- x after Wait but before y: impossible
        exfalso
        obtain ⟨w, r, wz, rz, hwi, hrw, hwz, hrz, hw0, hrt, hrp, _⟩ := wait_of i x y.tid hx hx0 hxp hy1 hyn
        have : j < r := hc.lt_of_pc_lt hy hrz hrt.symm (by omega)
        omega
    · rw [hb] at hyt; simp [Act.isTok] at hyt
  · -- x in a child, y in main
    rw [hy0] at hya
    rcases child_cases pre post body n hx1 hxn hxa with ⟨_, hb⟩ | ⟨hxp1, hxp2, _⟩ | ⟨_, hb⟩
    · rw [hb] at hxt; simp [Act.isTok] at hxt
    · rcases main_cases pre post body n hya with ⟨hyp, _⟩ | ⟨_, _, ha⟩ | ⟨_, _, ha⟩ | ⟨hyp, _⟩
      · -- y before the go statement but after x: impossible
        exfalso
        obtain ⟨b, r, bz, rz, hbi, hrb, hbz, hrz, hbt, hr0, hrp, _⟩ := begin_of i x hx hx1 hxn hxp1
        have : j < r := hc.lt_of_pc_lt hy hrz (hy0.trans hr0.symm) (by omega)
        omega
      · rw [ha] at hyt; simp [Act.isTok] at hyt
      · rw [ha] at hyt; simp [Act.isTok] at hyt
      · -- y after Wait
        obtain ⟨w, r, wz, rz, hwj, hrw, hwz, hrz, hw0, hrt, hrp, hsy⟩ := wait_of j y x.tid hy hy0 hyp hx1 hxn
        have hir : i < r := hc.lt_of_pc_lt hx hrz hrt.symm (by omega)
        exact hb_chain3 (edge_po hir hx hrz hrt.symm) (edge_sync hrw hrz hwz hsy)
          (Or.inr (edge_po hwj hwz hy (hw0.trans hy0.symm)))
    · rw [hb] at hxt; simp [Act.isTok] at hxt
  · -- two different children
    rcases child_cases pre post body n hx1 hxn hxa with ⟨_, hb⟩ | ⟨hxp1, _, hxb⟩ | ⟨_, hb⟩
    · rw [hb] at hxt; simp [Act.isTok] at hxt
    · rcases child_cases pre post body n hy1 hyn hya with ⟨_, hb⟩ | ⟨hyp1, _, hyb⟩ | ⟨_, hb⟩
      · rw [hb] at hyt; simp [Act.isTok] at hyt
      · obtain ⟨m, hpx, hpy⟩ := hcc x.tid y.tid hsame hx1 hxn hy1 hyn _ _ _ _ hxb hyb hcf
        have px := protAt_of_prot pre post body n hx1 hxn hpx
        have py := protAt_of_prot pre post body n hy1 hyn hpy
        rw [Nat.sub_add_cancel hxp1] at px
        rw [Nat.sub_add_cancel hyp1] at py
        exact hb_of_prot hc hw hij hx hy hsame px py
      · rw [hb] at hyt; simp [Act.isTok] at hyt
    · rw [hb] at hxt; simp [Act.isTok] at hxt

end forkJoin


/-! ### token ordering outside fork–join (channel hand-over) -/

/-- x lies before the only release of token o in its thread, y after an acquire of o in its
    thread: whenever both occurred, x occurred first and happens-before y. -/
theorem token_order {prog : Prog} {e : Exec} (hc : Conforms prog e) (hw : WF e) {i j : Nat} {x y : Event}
    {o a b : Nat} (hx : e[i]? = some x) (hy : e[j]? = some y)
    (hrel : ∀ t' p', (prog t')[p']? = some (Act.rel o) → t' = x.tid ∧ p' = a) (hap : x.pc < a)
    (hacq : (prog y.tid)[b]? = some (Act.acq o)) (hb : b < y.pc) : i < j ∧ HB e i j := by
  obtain ⟨k, kz, hkj, hkz, hkt, hkp⟩ := hc.prefixClosed j y hy b hb
  have hka : kz.act = Act.acq o := by
    have := hc.act k kz hkz; rw [hkt, hkp, hacq] at this; exact (Option.some.inj this).symm
  obtain ⟨r, rz, hrk, hrz, hra⟩ := hw.token k kz o hkz hka
  have hrl := hc.act r rz hrz
  rw [hra] at hrl
  obtain ⟨hrt, hrp⟩ := hrel _ _ hrl
  have hir : i < r := hc.lt_of_pc_lt hx hrz hrt.symm (by omega)
  exact ⟨by omega, hb_chain3 (edge_po hir hx hrz hrt.symm) (edge_sync hrk hrz hkz (by simp [hra, hka, syncs]))
    (Or.inr (edge_po hkj hkz hy hkt))⟩

/-! ### soundness of the executable checks (used for the concrete witness executions) -/

theorem conforms_of_conformsB {prog : Prog} {e : Exec} (h : conformsB prog e = true) : Conforms prog e := by
  unfold conformsB at h
  rw [List.all_eq_true] at h
  have hj : ∀ (j : Nat) (x : Event), e[j]? = some x →
      ((prog x.tid)[x.pc]? == some x.act) = true ∧
      (∀ p, p < x.pc → ∃ i, i < j ∧ ∃ z, e[i]? = some z ∧ z.tid = x.tid ∧ z.pc = p) ∧
      (∀ i, i < j → ∀ z, e[i]? = some z → z.tid = x.tid → z.pc < x.pc) := by
    intro j x hx
    have hlt : j < e.length := by
      by_contra hge
      have : e[j]? = none := by simp; omega
      rw [this] at hx; simp at hx
    have := h j (List.mem_range.mpr hlt)
    rw [hx] at this
    simp only [Bool.and_eq_true, List.all_eq_true, List.any_eq_true, List.mem_range] at this
    obtain ⟨⟨h1, h2⟩, h3⟩ := this
    refine ⟨h1, ?_, ?_⟩
    · intro p hp
      obtain ⟨i, hi, hm⟩ := h2 p hp
      refine ⟨i, hi, ?_⟩
      cases hz : e[i]? with
      | none => rw [hz] at hm; simp at hm
      | some z => rw [hz] at hm; simp at hm; exact ⟨z, rfl, hm.1, hm.2⟩
    · intro i hi z hz hzt
      have := h3 i hi
      rw [hz] at this
      simp at this
      rcases this with h' | h'
      · exact absurd hzt h'
      · exact h'
  refine ⟨?_, ?_, ?_⟩
  · intro i ev hev
    have := (hj i ev hev).1
    simpa using this
  · intro j ev hev p hp
    obtain ⟨i, hi, z, hz, hzt, hzp⟩ := (hj j ev hev).2.1 p hp
    exact ⟨i, z, hi, hz, hzt, hzp⟩
  · intro i j a b hij ha hb hab
    exact (hj j b hb).2.2 i hij a ha hab

theorem wf_of_wfB {e : Exec} (h : wfB e = true) : WF e := by
  unfold wfB at h
  rw [List.all_eq_true] at h
  have hlt : ∀ (j : Nat) (x : Event), e[j]? = some x → j < e.length := by
    intro j x hx
    by_contra hge
    have : e[j]? = none := by simp; omega
    rw [this] at hx; simp at hx
  refine ⟨?_, ?_⟩
  · intro j ev o hev hact
    have := h j (List.mem_range.mpr (hlt j ev hev))
    rw [hev] at this
    simp only [hact, List.any_eq_true, List.mem_range] at this
    obtain ⟨i, hi, hm⟩ := this
    cases hz : e[i]? with
    | none => rw [hz] at hm; simp at hm
    | some z => rw [hz] at hm; simp at hm; exact ⟨i, z, hi, hz, hm⟩
  · intro i j a b m hij ha hb haa hba
    have := h j (List.mem_range.mpr (hlt j b hb))
    rw [hb] at this
    simp only [hba, List.all_eq_true, List.mem_range] at this
    have := this i hij
    rw [ha] at this
    simp only [haa, bne_self_eq_false, Bool.false_or, List.any_eq_true, List.mem_range, Bool.and_eq_true,
      decide_eq_true_eq] at this
    obtain ⟨u, huj, hiu, hm⟩ := this
    cases hc : e[u]? with
    | none => rw [hc] at hm; simp at hm
    | some c => rw [hc] at hm; simp at hm; exact ⟨u, c, hiu, huj, hc, hm.1, hm.2⟩

/-- happens-before from position i needs a direct edge out of i. -/
theorem exists_edge_of_hb {e : Exec} {i j : Nat} (h : HB e i j) : ∃ k, Edge e i k := by
  induction h with
  | single hab => exact ⟨_, hab⟩
  | tail _ _ ih => exact ih

end Gabi.Conc.HB
