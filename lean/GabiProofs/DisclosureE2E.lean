/-
  GabiProofs.DisclosureE2E — the disclosure proof end to end in the unit group of `ZMod n`:
  `ProofD.reconstructZ` and `disclosureCommit` as unit-group expressions, the honest prover's
  proof reconstructs to the prover's commitment, acceptance by `ProofD.verifyWith`, and the
  extractor's equation for two model proofs with the same reconstructed commitment.
-/
import GabiModel.Prover
import GabiProofs.CLLemmas
import GabiProofs.Params
import GabiProofs.VerifyLogic
import GabiProofs.ListLogic
import Mathlib.Data.List.Perm.Basic
import Mathlib.Data.List.Nodup

namespace Gabi.E2E

variable {n : ℕ}

/-! ### bases and products over the model's maps -/

/-- the base `R_i` of the key as a unit modulo `n` (junk outside the list). -/
noncomputable def baseU (n : ℕ) (pk : PublicKey) (i : Int) : (ZMod n)ˣ :=
  zunit n (pk.r.getD i.toNat 0)

/-- `∏_{(i, x) ∈ l} R_i ^ f(x)` for an association list of the model. -/
noncomputable def mapU (n : ℕ) (pk : PublicKey) (f : Int → ℤ) (l : IntMap) : (ZMod n)ˣ :=
  Alg.rep (fun kv : Int × Option Int => baseU n pk kv.1) (fun kv => f (kv.2.getD 0)) l

theorem mapU_nil (pk : PublicKey) (f : Int → ℤ) : mapU n pk f [] = 1 := rfl

theorem mapU_cons (pk : PublicKey) (f : Int → ℤ) (i : Int) (x : Option Int) (l : IntMap) :
    mapU n pk f ((i, x) :: l) = baseU n pk i ^ f (x.getD 0) * mapU n pk f l := by
  simp [mapU]

theorem base_isUnit {pk : PublicKey} (hr : ∀ b ∈ pk.r, IsUnit (b : ZMod n)) {i : Int}
    (hi : i.toNat < pk.r.length) : IsUnit ((pk.r.getD i.toNat 0 : Int) : ZMod n) := by
  rw [List.getD_eq_getElem?_getD, List.getElem?_eq_getElem hi, Option.getD_some]
  exact hr _ (List.getElem_mem hi)

theorem idx_base {pk : PublicKey} (w : String) {i : Int} (h0 : 0 ≤ i) (h1 : i < pk.r.length) :
    idx w pk.r i = .ok (pk.r.getD i.toNat 0) := by
  rw [idx_eq, if_pos ⟨h0, by omega⟩]

/-- the disclosed-attribute loop of `reconstructZ`. -/
theorem disclosed_fold_spec (hn : 1 < n) (pk : PublicKey) (hN : pk.n = n)
    (hr : ∀ b ∈ pk.r, IsUnit (b : ZMod n)) :
    ∀ (l : IntMap) (num0 : Int) (u : (ZMod n)ˣ),
      (∀ kv ∈ l, kv.2.isSome ∧ 0 ≤ kv.1 ∧ kv.1 < pk.r.length) → (num0 : ZMod n) = (u : ZMod n) →
      ∃ v : Int, l.foldlM (fun (num : Int) kv => do
          let attr ← deref "ADisclosed" kv.2
          let b ← idx "R[i]" pk.r kv.1
          let t ← deref "Exp" (goExp b (attrExp pk.params.Lm attr) pk.n)
          (pure (num * t) : GoM Int)) num0 = .ok v ∧
        (v : ZMod n) = ((u * mapU n pk (attrExp pk.params.Lm) l : (ZMod n)ˣ) : ZMod n) := by
  intro l
  induction l with
  | nil =>
    intro num0 u _ hc
    exact ⟨num0, rfl, by rw [mapU_nil, mul_one, hc]⟩
  | cons kv l ih =>
    intro num0 u h hc
    obtain ⟨i, x⟩ := kv
    obtain ⟨hx, h0, h1⟩ := h (i, x) List.mem_cons_self
    obtain ⟨attr, rfl⟩ := Option.isSome_iff_exists.mp hx
    obtain ⟨t, ht, _, _, htc⟩ := goExp_unit hn (base_isUnit hr (i := i) (by omega))
      (attrExp pk.params.Lm attr)
    rw [List.foldlM_cons]
    simp only [deref_some, GoM.ok_bind, idx_base "R[i]" h0 h1, hN, ht]
    obtain ⟨v, hv, hvc⟩ := ih (num0 * t) (u * baseU n pk i ^ attrExp pk.params.Lm attr)
      (fun kv hkv => h kv (List.mem_cons_of_mem _ hkv)) (mul_unit hc htc)
    refine ⟨v, ?_, ?_⟩
    · rw [← hN]; exact hv
    · rw [hvc, mapU_cons, Option.getD_some, mul_assoc]

/-- the hidden-response loop of `reconstructZ`. -/
theorem reconstructZ_go_spec (hn : 1 < n) (pk : PublicKey) (hN : pk.n = n)
    (hr : ∀ b ∈ pk.r, IsUnit (b : ZMod n)) :
    ∀ (l : IntMap) (rs : Int) (u : (ZMod n)ˣ),
      (∀ kv ∈ l, kv.2.isSome ∧ 0 ≤ kv.1 ∧ kv.1 < pk.r.length) → (rs : ZMod n) = (u : ZMod n) →
      ∃ v : Int, ProofD.reconstructZ.go pk l rs = .ok (some v) ∧
        (v : ZMod n) = ((u * mapU n pk id l : (ZMod n)ˣ) : ZMod n) := by
  intro l
  induction l with
  | nil =>
    intro rs u _ hc
    exact ⟨rs, rfl, by rw [mapU_nil, mul_one, hc]⟩
  | cons kv l ih =>
    intro rs u h hc
    obtain ⟨i, x⟩ := kv
    obtain ⟨hx, h0, h1⟩ := h (i, x) List.mem_cons_self
    obtain ⟨r, rfl⟩ := Option.isSome_iff_exists.mp hx
    obtain ⟨t, ht, _, _, htc⟩ := goExp_unit hn (base_isUnit hr (i := i) (by omega)) r
    unfold ProofD.reconstructZ.go
    simp only [deref_some, GoM.ok_bind, idx_base "R[i]" h0 h1, hN, modPow, ht]
    obtain ⟨v, hv, hvc⟩ := ih (rs * t) (u * baseU n pk i ^ r)
      (fun kv hkv => h kv (List.mem_cons_of_mem _ hkv)) (mul_unit hc htc)
    refine ⟨v, hv, ?_⟩
    rw [hvc, mapU_cons, Option.getD_some, mul_assoc]; rfl

/-! ### `reconstructZ` in the unit group -/

/-- `K = Z / (A'^(2^(Le-1)) · ∏_{disclosed} R_i^{attrExp(a_i)})`: the part of the verification
    equation fixed by the reported disclosed values. -/
noncomputable def knownU (n : ℕ) (pk : PublicKey) (a : Int) (disclosed : IntMap) : (ZMod n)ˣ :=
  zunit n pk.z / (zunit n a ^ ((2 : ℤ) ^ (pk.params.Le - 1)) *
    mapU n pk (attrExp pk.params.Lm) disclosed)

/-- the value `reconstructZ` computes: `K^(-c) · A'^ê · S^v̂ · ∏_{hidden} R_j^{ŝ_j}`. -/
noncomputable def reconU (n : ℕ) (pk : PublicKey) (a c er vr : Int) (disclosed hidden : IntMap) :
    (ZMod n)ˣ :=
  knownU n pk a disclosed ^ (-c) * zunit n a ^ er * zunit n pk.s ^ vr * mapU n pk id hidden

/-- **`reconstructZ`, forward**: on a key whose `Z`, `S`, `R_i` are units, for a proof with all
    fields present, a unit `A'` and all indices inside the key, `reconstructZ` returns the
    representative in `[0,n)` of `reconU`. -/
theorem reconstructZ_spec (pk : PublicKey) (p : ProofD) (hN : pk.n = n) (hn : 1 < n)
    (hz : IsUnit (pk.z : ZMod n)) (hs : IsUnit (pk.s : ZMod n))
    (hr : ∀ b ∈ pk.r, IsUnit (b : ZMod n))
    {a c er vr : Int} (ha : p.a = some a) (hau : IsUnit (a : ZMod n)) (hc : p.c = some c)
    (her : p.eResponse = some er) (hvr : p.vResponse = some vr)
    (hD : ∀ kv ∈ p.aDisclosed, kv.2.isSome ∧ 0 ≤ kv.1 ∧ kv.1 < pk.r.length)
    (hA : ∀ kv ∈ p.aResponses, kv.2.isSome ∧ 0 ≤ kv.1 ∧ kv.1 < pk.r.length) :
    ∃ z : Int, p.reconstructZ pk = .ok (some z) ∧ 0 ≤ z ∧ z < n ∧
      (z : ZMod n) = ((reconU n pk a c er vr p.aDisclosed p.aResponses : (ZMod n)ˣ) : ZMod n) := by
  have hn0 : 0 < n := by omega
  obtain ⟨num0, hnum0, _, _, num0c⟩ := goExp_unit hn hau ((2 : ℤ) ^ (pk.params.Le - 1))
  obtain ⟨num, hnum, numc⟩ := disclosed_fold_spec hn pk hN hr p.aDisclosed num0 _ hD num0c
  obtain ⟨inv, hinv, _, _, invc⟩ := goModInverse_unit hn0 (isUnit_of_cast numc)
  rw [zunit_of_cast numc] at invc
  have hknown : ((pk.z * inv : Int) : ZMod n) =
      ((knownU n pk a p.aDisclosed : (ZMod n)ˣ) : ZMod n) := by
    unfold knownU
    rw [div_eq_mul_inv]; push_cast; rw [invc, zunit_val hz]
  obtain ⟨kc, hkc, _, _, kcc⟩ := goExp_unit hn (isUnit_of_cast hknown) (-c)
  rw [zunit_of_cast hknown] at kcc
  obtain ⟨ae, hae, _, _, aec⟩ := goExp_unit hn hau er
  obtain ⟨sv, hsv, _, _, svc⟩ := goExp_unit hn hs vr
  obtain ⟨rs, hrs, rsc⟩ := reconstructZ_go_spec hn pk hN hr p.aResponses 1 1 hA (by simp)
  rw [one_mul] at rsc
  rw [← hN] at hnum0 hinv hkc hae hsv
  refine ⟨kc * ae * rs * sv % pk.n, ?_, ?_⟩
  · unfold ProofD.reconstructZ
    simp only [ha, hc, her, hvr, deref_some, GoM.ok_bind, hnum0, hnum, hinv, modPow, hkc, hae, hsv,
      hrs]
    rfl
  · rw [hN]
    refine ⟨(emod_range hn0 _).1, (emod_range hn0 _).2, ?_⟩
    rw [cast_emod]; unfold reconU; push_cast
    rw [kcc, aec, svc, rsc]
    ring

/-! ### the prover's commitment in the unit group -/

theorem commit_fold_spec (hn : 1 < n) (pk : PublicKey) (hN : pk.n = n)
    (hr : ∀ b ∈ pk.r, IsUnit (b : ZMod n)) (rr : Int → Int) :
    ∀ (U : List Int) (z0 : Int) (u : (ZMod n)ˣ),
      (∀ v ∈ U, 0 ≤ v ∧ v < pk.r.length) → 0 ≤ z0 → z0 < n → (z0 : ZMod n) = (u : ZMod n) →
      ∃ z : Int, U.foldlM (fun (z : Int) v => do
          let b ← idx "R[v]" pk.r v
          let t ← deref "ModPow" (modPow b (rr v) pk.n)
          (pure (z * t % pk.n) : GoM Int)) z0 = .ok z ∧ 0 ≤ z ∧ z < n ∧
        (z : ZMod n) = ((u * Alg.rep (baseU n pk) rr U : (ZMod n)ˣ) : ZMod n) := by
  intro U
  induction U with
  | nil =>
    intro z0 u _ h0 h1 hc
    exact ⟨z0, rfl, h0, h1, by rw [Alg.rep_nil, mul_one, hc]⟩
  | cons v U ih =>
    intro z0 u h h0 h1 hc
    obtain ⟨hv0, hv1⟩ := h v List.mem_cons_self
    obtain ⟨t, ht, _, _, htc⟩ := goExp_unit hn (base_isUnit hr (i := v) (by omega)) (rr v)
    rw [List.foldlM_cons]
    simp only [idx_base "R[v]" hv0 hv1, GoM.ok_bind, hN, modPow, ht, deref_some]
    obtain ⟨m0, m1, mc⟩ := mul_emod_unit (by omega : 0 < n) hc htc
    obtain ⟨z, hz, z0', z1', zc⟩ := ih _ _ (fun w hw => h w (List.mem_cons_of_mem _ hw)) m0 m1 mc
    refine ⟨z, ?_, z0', z1', ?_⟩
    · rw [← hN]; rw [← hN] at hz; exact hz
    · rw [zc, Alg.rep_cons, mul_assoc]; rfl

/-- **`DisclosureProofBuilder.Commit`, forward**: `[A', Z~]` with
    `Z~ = A'^ẽ · S^ṽ · ∏_{hidden} R_j^{r_j}` reduced modulo `n`. -/
theorem disclosureCommit_spec (pk : PublicKey) (sigR : CLSignature) (rnd : DisclosureRandomness)
    (U : List Int) (hN : pk.n = n) (hn : 1 < n) (hs : IsUnit (pk.s : ZMod n))
    (hr : ∀ b ∈ pk.r, IsUnit (b : ZMod n)) (hau : IsUnit (sigR.a : ZMod n))
    (hU : ∀ v ∈ U, 0 ≤ v ∧ v < pk.r.length) :
    ∃ zc : Int, disclosureCommit pk sigR rnd U = .ok [sigR.a, zc] ∧ 0 ≤ zc ∧ zc < n ∧
      (zc : ZMod n) = ((zunit n sigR.a ^ rnd.eCommit * zunit n pk.s ^ rnd.vCommit *
        Alg.rep (baseU n pk) rnd.attrRand U : (ZMod n)ˣ) : ZMod n) := by
  have hn0 : 0 < n := by omega
  obtain ⟨ae, hae, _, _, aec⟩ := goExp_unit hn hau rnd.eCommit
  obtain ⟨sv, hsv, _, _, svc⟩ := goExp_unit hn hs rnd.vCommit
  have h1 : ((1 : Int) : ZMod n) = ((1 : (ZMod n)ˣ) : ZMod n) := by simp
  obtain ⟨m0, m1, mc⟩ := mul_emod_unit hn0 (mul_unit h1 aec) svc
  obtain ⟨z, hz, z0, z1, zc⟩ := commit_fold_spec hn pk hN hr rnd.attrRand U _ _ hU m0 m1 mc
  rw [one_mul] at zc
  refine ⟨z, ?_, z0, z1, zc⟩
  rw [← hN] at hae hsv hz
  simp only [modPow] at hz
  unfold disclosureCommit
  simp only [modPow, hae, hsv, deref_some, GoM.ok_bind, Option.getD_none, hz]
  rfl

/-! ### the signed block split into disclosed and hidden part -/

theorem rep_map {G ι κ : Type*} [CommGroup G] (R : ι → G) (m : ι → ℤ) (g : κ → ι) (l : List κ) :
    Alg.rep R m (l.map g) = Alg.rep (fun k => R (g k)) (fun k => m (g k)) l := by
  simp [Alg.rep, List.map_map, Function.comp_def]

theorem rep_perm {G ι : Type*} [CommGroup G] (R : ι → G) (m : ι → ℤ) {l l' : List ι}
    (h : l.Perm l') : Alg.rep R m l = Alg.rep R m l' :=
  (h.map _).prod_eq

theorem mapU_map (pk : PublicKey) (f : Int → ℤ) (g : Int → Int) (l : List Int) :
    mapU n pk f (l.map fun v => (v, some (g v))) = Alg.rep (baseU n pk) (fun v => f (g v)) l := by
  unfold mapU
  rw [rep_map]
  rfl

theorem zip_eq_range_map (bases exps : List Int) (h : exps.length ≤ bases.length) :
    bases.zip exps = (List.range exps.length).map fun i => (bases.getD i 0, exps.getD i 0) := by
  apply List.ext_getElem
  · simp; omega
  · intro i h1 h2
    simp only [List.length_zip] at h1
    have hb : i < bases.length := by omega
    have he : i < exps.length := by omega
    simp [List.getD_eq_getElem?_getD, List.getElem?_eq_getElem hb, List.getElem?_eq_getElem he]

/-- `RepresentToBases` as a product over the index list `0 … len-1`. -/
theorem repU_eq_rep_range (pk : PublicKey) (lm : ℕ) (exps : List Int)
    (h : exps.length ≤ pk.r.length) :
    repU n lm pk.r exps =
      Alg.rep (baseU n pk) (fun j => attrExp lm (exps.getD j.toNat 0))
        ((List.range exps.length).map Int.ofNat) := by
  unfold repU
  rw [zip_eq_range_map _ _ h, rep_map, rep_map]
  rfl

theorem complement_perm (D : List Int) (len : ℕ) (hnd : D.Nodup)
    (hD : ∀ v ∈ D, 0 ≤ v ∧ v < (len : Int)) :
    (D ++ complementList D len).Perm ((List.range len).map Int.ofNat) := by
  rw [List.perm_ext_iff_of_nodup]
  · intro a
    rw [List.mem_append, mem_complementList, List.mem_map]
    constructor
    · rintro (h | ⟨h0, h1, _⟩)
      · exact ⟨a.toNat, List.mem_range.mpr (by have := hD a h; omega), by have := hD a h; simp; omega⟩
      · exact ⟨a.toNat, List.mem_range.mpr (by omega), by simp; omega⟩
    · rintro ⟨i, hi, rfl⟩
      rw [List.mem_range] at hi
      by_cases h : Int.ofNat i ∈ D
      · exact Or.inl h
      · exact Or.inr ⟨by simp, by simpa using hi, h⟩
  · rw [List.nodup_append]
    refine ⟨hnd, ((complementList_sorted D len).imp (fun h => ne_of_lt h)), ?_⟩
    intro a ha b hb hab
    subst hab
    exact ((mem_complementList D len a).mp hb).2.2 ha
  · exact (List.nodup_range).map (fun a b h => by simpa using h)

/-- the signed block is the product of its disclosed and its hidden part. -/
theorem repU_split (pk : PublicKey) (lm : ℕ) (attrs D : List Int)
    (h : attrs.length ≤ pk.r.length) (hnd : D.Nodup)
    (hD : ∀ v ∈ D, 0 ≤ v ∧ v < (attrs.length : Int)) :
    repU n lm pk.r attrs =
      Alg.rep (baseU n pk) (fun j => attrExp lm (attrs.getD j.toNat 0)) D *
      Alg.rep (baseU n pk) (fun j => attrExp lm (attrs.getD j.toNat 0))
        (complementList D attrs.length) := by
  rw [repU_eq_rep_range pk lm attrs h, ← Alg.rep_append]
  exact (rep_perm _ _ (complement_perm D attrs.length hnd hD)).symm

/-! ### the (randomised) signature in the unit group -/

/-- an accepted signature without keyshare factor on a key with invertible bases: `A` is a unit
    and `A^e · ∏ R_i^{attrExp(m_i)} · S^v = Z` in `(ZMod n)ˣ`. -/
theorem clVerifyWith_repU (isPrime : Nat → Bool) (pk : PublicKey) (sig : CLSignature) (ms : List Int)
    (hN : pk.n = n) (hn : 1 < n) (hz : IsUnit (pk.z : ZMod n)) (hs : IsUnit (pk.s : ZMod n))
    (hr : ∀ b ∈ pk.r, IsUnit (b : ZMod n)) (hlen : ms.length ≤ pk.r.length)
    (hkp : sig.keyshareP = none) (h : clVerifyWith isPrime pk sig ms = .ok true) :
    IsUnit (sig.a : ZMod n) ∧
      zunit n sig.a ^ sig.e * repU n pk.params.Lm pk.r ms * zunit n pk.s ^ sig.v = zunit n pk.z := by
  obtain ⟨r, hrr, hua, _, heq⟩ := clVerifyWith_units isPrime pk sig ms hN hn hz hs h
  obtain ⟨r', hr', _, _, rc⟩ := representToBases_spec hn pk.r pk.params.Lm hr ms hlen
  rw [hN, hr'] at hrr
  obtain rfl := Except.ok.inj hrr
  rw [hkp] at heq
  simp only [blockWithKeyshare] at heq
  rw [zunit_of_cast rc] at heq
  exact ⟨hua, heq⟩

/-- `CLSignature.Randomize`: `A' = A · S^r` (a unit), same `e`, `v' = v − e·r`. -/
theorem clRandomize_unit (pk : PublicKey) (sig : CLSignature) (rr : Int)
    (hN : pk.n = n) (hn : 1 < n) (hs : IsUnit (pk.s : ZMod n)) (hua : IsUnit (sig.a : ZMod n)) :
    IsUnit ((clRandomize pk sig rr).a : ZMod n) ∧
      zunit n (clRandomize pk sig rr).a = zunit n sig.a * zunit n pk.s ^ rr ∧
      0 ≤ (clRandomize pk sig rr).a ∧ (clRandomize pk sig rr).a < n := by
  obtain ⟨sr, hsr, _, _, src⟩ := goExp_unit hn hs rr
  have ha' : (((clRandomize pk sig rr).a : Int) : ZMod n) =
      ((zunit n sig.a * zunit n pk.s ^ rr : (ZMod n)ˣ) : ZMod n) := by
    simp only [clRandomize, hN, hsr, Option.getD_some]
    rw [cast_emod]; push_cast; rw [src, zunit_val hua]
  refine ⟨isUnit_of_cast ha', zunit_of_cast ha', ?_, ?_⟩
  · simp only [clRandomize, hN]; exact (emod_range (by omega) _).1
  · simp only [clRandomize, hN]; exact (emod_range (by omega) _).2

/-- the randomised signature satisfies the verification equation, split into disclosed and
    hidden part. -/
theorem randomized_sig_eq (isPrime : Nat → Bool) (pk : PublicKey) (sig : CLSignature)
    (attrs D : List Int) (rr : Int)
    (hN : pk.n = n) (hn : 1 < n) (hz : IsUnit (pk.z : ZMod n)) (hs : IsUnit (pk.s : ZMod n))
    (hr : ∀ b ∈ pk.r, IsUnit (b : ZMod n)) (hlen : attrs.length ≤ pk.r.length)
    (hkp : sig.keyshareP = none) (h : clVerifyWith isPrime pk sig attrs = .ok true)
    (hnd : D.Nodup) (hD : ∀ v ∈ D, 0 ≤ v ∧ v < (attrs.length : Int)) :
    IsUnit ((clRandomize pk sig rr).a : ZMod n) ∧
    zunit n (clRandomize pk sig rr).a ^ sig.e *
        Alg.rep (baseU n pk) (fun j => attrExp pk.params.Lm (attrs.getD j.toNat 0)) D *
        Alg.rep (baseU n pk) (fun j => attrExp pk.params.Lm (attrs.getD j.toNat 0))
          (complementList D attrs.length) *
        zunit n pk.s ^ (sig.v - sig.e * rr) = zunit n pk.z := by
  obtain ⟨hua, heq⟩ := clVerifyWith_repU isPrime pk sig attrs hN hn hz hs hr hlen hkp h
  obtain ⟨hua', ha', _, _⟩ := clRandomize_unit pk sig rr hN hn hs hua
  refine ⟨hua', ?_⟩
  have := Alg.cl_randomize rr heq
  rw [repU_split pk pk.params.Lm attrs D hlen hnd hD, ← mul_assoc, ← ha'] at this
  exact this

/-! ### 1. the honest proof reconstructs to the prover's commitment -/

/-- **`CreateProof(c)` reconstructs, for every challenge `c`**: the responses the builder computes
    for the challenge `c` make the verifier's `reconstructZ` return the builder's commitment. -/
theorem createProof_reconstructs (isPrime : Nat → Bool) (pk : PublicKey) (sig : CLSignature)
    (attrs D : List Int) (rnd : DisclosureRandomness) (c : Int)
    (hN : pk.n = n) (hn : 1 < n) (hz : IsUnit (pk.z : ZMod n)) (hs : IsUnit (pk.s : ZMod n))
    (hr : ∀ b ∈ pk.r, IsUnit (b : ZMod n)) (hlen : attrs.length ≤ pk.r.length)
    (hkp : sig.keyshareP = none) (hsig : clVerifyWith isPrime pk sig attrs = .ok true)
    (hnd : D.Nodup) (hD : ∀ v ∈ D, 0 ≤ v ∧ v < (attrs.length : Int)) {p : ProofD}
    (hp : disclosureCreateProof pk attrs D (complementList D attrs.length)
      (clRandomize pk sig rnd.r) rnd c = .ok p) :
    ∃ z : Int,
      disclosureCommit pk (clRandomize pk sig rnd.r) rnd (complementList D attrs.length) =
        .ok [(clRandomize pk sig rnd.r).a, z] ∧
      p.reconstructZ pk = .ok (some z) ∧ p.a = some (clRandomize pk sig rnd.r).a ∧
      p.c = some c ∧ IsUnit ((clRandomize pk sig rnd.r).a : ZMod n) := by
  set U := complementList D attrs.length with hUdef
  set sigR := clRandomize pk sig rnd.r with hsigR
  obtain ⟨hua', heq⟩ := randomized_sig_eq isPrime pk sig attrs D rnd.r hN hn hz hs hr hlen hkp hsig hnd hD
  have hU : ∀ v ∈ U, 0 ≤ v ∧ v < (pk.r.length : Int) := by
    intro v hv
    have := (mem_complementList D attrs.length v).mp hv
    omega
  have hDr : ∀ v ∈ D, 0 ≤ v ∧ v < (pk.r.length : Int) := by
    intro v hv; have := hD v hv; omega
  obtain ⟨zc, hzc, zc0, zc1, zcc⟩ := disclosureCommit_spec pk sigR rnd U hN hn hs hr hua' hU
  rw [disclosureCreateProof_eq] at hp
  split at hp
  swap
  · cases hp
  have hp' := Except.ok.inj hp
  have hpa : p.a = some sigR.a := by rw [← hp']
  have hpc : p.c = some c := by rw [← hp']
  have hpe : p.eResponse = some (rnd.eCommit + c * (sigR.e - 2 ^ (pk.params.Le - 1))) := by
    rw [← hp']
  have hpv : p.vResponse = some (rnd.vCommit + c * sigR.v) := by rw [← hp']
  have hpA : p.aResponses = U.map fun v => (v, some (rnd.attrRand v +
      c * attrExp pk.params.Lm (attrs.getD v.toNat 0))) := by rw [← hp']
  have hpD : p.aDisclosed = D.map fun v => (v, some (attrs.getD v.toNat 0)) := by rw [← hp']
  obtain ⟨z, hz', z0, z1, zcast⟩ := reconstructZ_spec pk p hN hn hz hs hr hpa hua' hpc hpe hpv
    (by
      intro kv hkv
      rw [hpD] at hkv
      obtain ⟨v, hv, rfl⟩ := List.mem_map.mp hkv
      exact ⟨rfl, hDr v hv⟩)
    (by
      intro kv hkv
      rw [hpA] at hkv
      obtain ⟨v, hv, rfl⟩ := List.mem_map.mp hkv
      exact ⟨rfl, hU v hv⟩)
  have hzz : z = zc := by
    apply eq_of_cast_eq z0 z1 zc0 zc1
    rw [zcast, zcc]
    congr 1
    unfold reconU knownU
    rw [hpD, hpA, mapU_map, mapU_map]
    exact Alg.proofD_complete (baseU n pk) D U _ _ rnd.attrRand heq
  subst hzz
  exact ⟨z, hzc, hz', hpa, hpc, hua'⟩

/-- **honest proofs reconstruct (model level)**: the proof of `CreateDisclosureProof` (challenge =
    hash of the commitment). -/
theorem honest_reconstructs_model (isPrime : Nat → Bool) (pk : PublicKey) (sig : CLSignature)
    (attrs D : List Int) (rnd : DisclosureRandomness) (ctx nonce : Int) (issig : Bool)
    (hN : pk.n = n) (hn : 1 < n) (hz : IsUnit (pk.z : ZMod n)) (hs : IsUnit (pk.s : ZMod n))
    (hr : ∀ b ∈ pk.r, IsUnit (b : ZMod n)) (hlen : attrs.length ≤ pk.r.length)
    (hkp : sig.keyshareP = none) (hsig : clVerifyWith isPrime pk sig attrs = .ok true)
    (hnd : D.Nodup) {p : ProofD}
    (h : createDisclosureProof pk sig attrs D rnd ctx nonce issig = .ok p) :
    ∃ z : Int,
      disclosureCommit pk (clRandomize pk sig rnd.r) rnd (complementList D attrs.length) =
        .ok [(clRandomize pk sig rnd.r).a, z] ∧
      p.reconstructZ pk = .ok (some z) ∧ p.a = some (clRandomize pk sig rnd.r).a ∧
      p.c = some ((createChallenge ctx nonce [(clRandomize pk sig rnd.r).a, z] issig : Nat) : Int) := by
  obtain ⟨commit, hD, hcommit, hp⟩ := createDisclosureProof_ok h
  obtain ⟨z, h1, h2, h3, h4, _⟩ := createProof_reconstructs isPrime pk sig attrs D rnd _ hN hn hz hs hr
    hlen hkp hsig hnd hD hp
  rw [h1] at hcommit
  obtain rfl := Except.ok.inj hcommit
  exact ⟨z, h1, h2, h3, h4⟩

/-! ### 2. acceptance -/

/-- `ChallengeContribution` of a proof without non-revocation and range parts: `[A', Z~]`, the
    proof is unchanged. -/
theorem challengeContribution_plain (o : SigOracle) (kid : String) (pk : PublicKey) (p : ProofD)
    (i : Int) {a z c : Int} (hw : p.wellFormed pk = true) (hz : p.reconstructZ pk = .ok (some z))
    (ha : p.a = some a) (hc : p.c = some c) (hnr : p.nonrev = none) (hrp : p.rangeProofs = none) :
    (p.challengeContribution o kid pk i).run = .ok (some ([a, z], p)) := by
  have hrc : (p.rangeContributions pk c).run = .ok (some ([], none)) := by
    unfold ProofD.rangeContributions
    simp only [hrp]
    rfl
  unfold ProofD.challengeContribution
  simp only [hw, Bool.not_true, Bool.false_eq_true, if_false]
  rw [GoE.run_bind_ok_some_iff]
  refine ⟨z, hz, ?_⟩
  rw [GoE.run_bind_ok_some_iff]
  refine ⟨a, (GoE.run_liftM_ok_some_iff _ _).mpr (by rw [ha]; rfl), ?_⟩
  rw [GoE.run_bind_ok_some_iff]
  refine ⟨c, (GoE.run_liftM_ok_some_iff _ _).mpr (by rw [hc]; rfl), ?_⟩
  simp only [hnr]
  rw [GoE.run_bind_ok_some_iff]
  refine ⟨([], none), hrc, ?_⟩
  have : ({ p with nonrev := none, rangeProofs := none } : ProofD) = p := by
    cases p; simp only at hrp hnr; subst hrp hnr; rfl
  simp only [GoE.run_pure, List.append_nil]
  rw [this]

theorem verifyWithChallenge_plain (o : SigOracle) (kid : String) (pk : PublicKey) (p : ProofD)
    (i : Int) {c' : Int} (hw : p.wellFormed pk = true) (hnr : p.nonrev = none)
    (hsz : p.correctResponseSizes pk = .ok true) (hc : p.c = some c') :
    p.verifyWithChallenge o kid pk i c' = .ok (true, none) := by
  unfold ProofD.verifyWithChallenge
  simp only [hw, hnr, hsz, hc, Bool.not_true, Bool.false_eq_true, if_false, GoM.pure_eq_ok,
    GoM.ok_bind, deref_some, decide_true]

/-- `ProofD.Verify` accepts a well-formed proof without non-revocation / range parts whose
    challenge is the hash of `[A', reconstructed Z~]` and whose responses have the right sizes. -/
theorem verifyWith_plain (o : SigOracle) (kid : String) (pk : PublicKey) (p : ProofD)
    (ctx nonce : Int) (issig : Bool) (i1 i2 : Int) {a z : Int}
    (hw : p.wellFormed pk = true) (hz : p.reconstructZ pk = .ok (some z))
    (ha : p.a = some a) (hc : p.c = some ((createChallenge ctx nonce [a, z] issig : Nat) : Int))
    (hnr : p.nonrev = none) (hrp : p.rangeProofs = none)
    (hsz : p.correctResponseSizes pk = .ok true) :
    p.verifyWith o kid pk ctx nonce issig i1 i2 = .ok true := by
  unfold ProofD.verifyWith
  rw [challengeContribution_plain o kid pk p i1 hw hz ha hc hnr hrp]
  simp only [GoM.ok_bind]
  rw [verifyWithChallenge_plain o kid pk p i2 hw hnr hsz hc]
  rfl

theorem createChallenge_lt_256 (ctx nonce : Int) (cs : List Int) (issig : Bool) :
    createChallenge ctx nonce cs issig < 2 ^ 256 := by
  have h := ofBytesBE_lt (Sha256.hash (hashCommitInput (ctx :: cs ++ [nonce]) issig))
  rw [Sha256.hash_length] at h
  have : (256 : Nat) ^ 32 = 2 ^ 256 := by norm_num
  unfold createChallenge hashCommit; omega

theorem lookup_map_self {β : Type} (g : Int → β) (l : List Int) (k : Int) :
    (l.map fun v => (v, g v)).lookup k = if k ∈ l then some (g k) else none := by
  induction l with
  | nil => simp
  | cons a l ih =>
    rw [List.map_cons, List.lookup_cons]
    by_cases hka : k = a
    · subst hka; simp
    · have : (k == a) = false := by simpa using hka
      rw [this, ih]
      simp [hka]

/-- `Credential.CreateDisclosureProof` succeeds when the disclosed indices are inside the
    attribute list and the key has enough invertible bases. -/
theorem createDisclosureProof_isOk (pk : PublicKey) (sig : CLSignature)
    (attrs D : List Int) (rnd : DisclosureRandomness) (ctx nonce : Int) (issig : Bool)
    (hN : pk.n = n) (hn : 1 < n) (hs : IsUnit (pk.s : ZMod n))
    (hr : ∀ b ∈ pk.r, IsUnit (b : ZMod n)) (hlen : attrs.length ≤ pk.r.length)
    (hua : IsUnit (sig.a : ZMod n)) (hD : ∀ v ∈ D, 0 ≤ v ∧ v < (attrs.length : Int)) :
    ∃ p, createDisclosureProof pk sig attrs D rnd ctx nonce issig = .ok p := by
  obtain ⟨hua', _⟩ := clRandomize_unit pk sig rnd.r hN hn hs hua
  have hU : ∀ v ∈ complementList D attrs.length, 0 ≤ v ∧ v < (attrs.length : Int) := by
    intro v hv
    have := (mem_complementList D attrs.length v).mp hv
    omega
  obtain ⟨zc, hzc, _⟩ := disclosureCommit_spec pk (clRandomize pk sig rnd.r) rnd
    (complementList D attrs.length) hN hn hs hr hua' (fun v hv => by have := hU v hv; omega)
  unfold createDisclosureProof
  rw [getUndisclosed_eq', if_neg (by rintro ⟨v, hv, h⟩; have := hD v hv; omega)]
  simp only [GoM.ok_bind, hzc]
  rw [disclosureCreateProof_eq, if_pos]
  · exact ⟨_, rfl⟩
  · exact ⟨fun v hv => by have := hU v hv; omega, fun v hv => by have := hD v hv; omega⟩

/-- an honest disclosure proof is well-formed for the key, provided no disclosed attribute is
    negative and longer than `Lm` bits (`wellFormed` refuses such a disclosed value; without
    `hneg` the statement is false, e.g. for `attrs = [0, -(2^300)]`, `D = [1]`, `Lm = 256`). -/
theorem honest_wellFormed (pk : PublicKey) (sig : CLSignature)
    (attrs D : List Int) (rnd : DisclosureRandomness) (ctx nonce : Int) (issig : Bool)
    (hlen : attrs.length ≤ pk.r.length) (hpos : 0 < attrs.length)
    (hD : ∀ v ∈ D, 1 ≤ v)
    (hneg : ∀ v ∈ D, ∀ a, attrs[v.toNat]? = some a → ¬ (a < 0 ∧ bitLen a > pk.params.Lm)) {p : ProofD}
    (h : createDisclosureProof pk sig attrs D rnd ctx nonce issig = .ok p) :
    p.wellFormed pk = true ∧ p.nonrev = none ∧ p.rangeProofs = none := by
  obtain ⟨commit, hDr, _, hp⟩ := createDisclosureProof_ok h
  rw [disclosureCreateProof_eq] at hp
  split at hp
  swap
  · cases hp
  have hp' := Except.ok.inj hp
  have hmemU := mem_complementList D attrs.length
  refine ⟨?_, by rw [← hp'], by rw [← hp']⟩
  rw [ProofD.wellFormed_iff, ← hp']
  refine ⟨⟨rfl, rfl, rfl, rfl⟩, ?_, ?_, ?_, ?_, ?_⟩
  · simp only [IntMap.get]
    rw [lookup_map_self, if_pos]
    · rfl
    · rw [hmemU]
      exact ⟨le_refl _, by omega, fun h0 => by have := hD 0 h0; omega⟩
  · intro kv hkv
    obtain ⟨v, hv, rfl⟩ := List.mem_map.mp hkv
    have := (hmemU v).mp hv
    exact ⟨rfl, this.1, by simp only; omega⟩
  · intro kv hkv
    obtain ⟨v, hv, rfl⟩ := List.mem_map.mp hkv
    have := hDr v hv
    refine ⟨rfl, this.1, by simp only; omega, ?_⟩
    simp only [IntMap.has]
    rw [lookup_map_self, if_neg]
    · rfl
    · rw [hmemU]; exact fun hh => hh.2.2 hv
  · intro kv hkv
    simp at hkv
  · intro kv hkv a ha
    obtain ⟨v, hv, rfl⟩ := List.mem_map.mp hkv
    have hlt : v.toNat < attrs.length := by have := hDr v hv; omega
    refine hneg v hv a ?_
    simp only [Option.some.injEq] at ha
    rw [← ha, List.getD_eq_getElem?_getD, List.getElem?_eq_getElem hlt, Option.getD_some]

/-- **completeness of the disclosure proof (model level)**: the honest prover's proof exists
    and `ProofD.Verify` accepts it, for every oracle and every pair of picks. -/
theorem honest_accepts_model (isPrime : Nat → Bool) (o : SigOracle) (kid : String)
    (pk : PublicKey) (sig : CLSignature)
    (attrs D : List Int) (rnd : DisclosureRandomness) (ctx nonce : Int) (issig : Bool) (i1 i2 : Int)
    (hN : pk.n = n) (hn : 1 < n) (hz : IsUnit (pk.z : ZMod n)) (hs : IsUnit (pk.s : ZMod n))
    (hr : ∀ b ∈ pk.r, IsUnit (b : ZMod n)) (hlen : attrs.length ≤ pk.r.length)
    (hpos : 0 < attrs.length) (hattrs : ∀ a ∈ attrs, 0 ≤ a)
    (hkp : sig.keyshareP = none) (hsig : clVerifyWith isPrime pk sig attrs = .ok true)
    (hnd : D.Nodup) (hD : ∀ v ∈ D, 1 ≤ v ∧ v < (attrs.length : Int))
    (hP : ParamsSound pk.params) (hrnd : rnd.InRange pk.params) :
    ∃ p, createDisclosureProof pk sig attrs D rnd ctx nonce issig = .ok p ∧
      p.verifyWith o kid pk ctx nonce issig i1 i2 = .ok true := by
  obtain ⟨hua, _⟩ := clVerifyWith_repU isPrime pk sig attrs hN hn hz hs hr hlen hkp hsig
  obtain ⟨he, _⟩ := clVerifyWith_ok_true isPrime pk sig attrs hsig
  obtain ⟨p, hp⟩ := createDisclosureProof_isOk pk sig attrs D rnd ctx nonce issig hN hn hs hr hlen hua
    (fun v hv => by have := hD v hv; omega)
  refine ⟨p, hp, ?_⟩
  obtain ⟨z, _, hz', hpa, hpc⟩ := honest_reconstructs_model isPrime pk sig attrs D rnd ctx nonce issig
    hN hn hz hs hr hlen hkp hsig hnd hp
  obtain ⟨hw, hnr, hrp⟩ := honest_wellFormed pk sig attrs D rnd ctx nonce issig hlen hpos
    (fun v hv => (hD v hv).1)
    (fun v _ a ha hh => absurd (hattrs a (List.mem_of_getElem? ha)) (by omega)) hp
  obtain ⟨commit, _, _, hcp⟩ := createDisclosureProof_ok hp
  have hsz := createProof_sizes_ok hP hrnd (Int.natCast_nonneg _)
    (by rw [hP.Lh_eq]; exact_mod_cast createChallenge_lt_256 _ _ _ _) hattrs
    (show eInInterval pk.params (clRandomize pk sig rnd.r).e = true from he) hcp
  exact verifyWith_plain o kid pk p ctx nonce issig i1 i2 hw hz' hpa hpc hnr hrp hsz

/-! ### 3. special soundness for two model proofs -/

/-- **`reconstructZ`, backward**: whatever `reconstructZ` returns for a proof with a unit `A'` on a
    key with invertible bases is the representative of `reconU`; all indices are inside the key
    and all values present. -/
theorem reconstructZ_unit_eq (pk : PublicKey) (p : ProofD) (hN : pk.n = n) (hn : 1 < n)
    (hz : IsUnit (pk.z : ZMod n)) (hs : IsUnit (pk.s : ZMod n))
    (hr : ∀ b ∈ pk.r, IsUnit (b : ZMod n))
    {a c er vr z : Int} (ha : p.a = some a) (hau : IsUnit (a : ZMod n)) (hc : p.c = some c)
    (her : p.eResponse = some er) (hvr : p.vResponse = some vr)
    (h : p.reconstructZ pk = .ok (some z)) :
    (∀ kv ∈ p.aDisclosed, kv.2.isSome ∧ 0 ≤ kv.1 ∧ kv.1 < pk.r.length) ∧
    (∀ kv ∈ p.aResponses, kv.2.isSome ∧ 0 ≤ kv.1 ∧ kv.1 < pk.r.length) ∧
    0 ≤ z ∧ z < n ∧
    (z : ZMod n) = ((reconU n pk a c er vr p.aDisclosed p.aResponses : (ZMod n)ˣ) : ZMod n) := by
  obtain ⟨_, _, _, _, _, ds, _, _, _, _, ts, _, _, _, _, _, hds, _, _, _, _, hts, _⟩ :=
    ProofD.reconstructZ_closed h
  have hD : ∀ kv ∈ p.aDisclosed, kv.2.isSome ∧ 0 ≤ kv.1 ∧ kv.1 < pk.r.length := by
    intro kv hkv
    obtain ⟨t, _, b, attr, h0, hb, hv, _⟩ := forall₂_mem_left hds hkv
    have hlt : kv.1.toNat < pk.r.length := by
      by_contra hcon
      rw [List.getElem?_eq_none (by omega)] at hb
      cases hb
    exact ⟨by rw [hv]; rfl, h0, by omega⟩
  have hA : ∀ kv ∈ p.aResponses, kv.2.isSome ∧ 0 ≤ kv.1 ∧ kv.1 < pk.r.length := by
    intro kv hkv
    obtain ⟨t, _, b, r, h0, hb, hv, _⟩ := forall₂_mem_left hts hkv
    have hlt : kv.1.toNat < pk.r.length := by
      by_contra hcon
      rw [List.getElem?_eq_none (by omega)] at hb
      cases hb
    exact ⟨by rw [hv]; rfl, h0, by omega⟩
  obtain ⟨z', hz', z0, z1, zc⟩ := reconstructZ_spec pk p hN hn hz hs hr ha hau hc her hvr hD hA
  rw [h] at hz'
  obtain rfl : z = z' := Option.some.inj (Except.ok.inj hz')
  exact ⟨hD, hA, z0, z1, zc⟩

theorem intMap_get_of_mem {l : IntMap} (hnd : (l.map (·.1)).Nodup) {kv : Int × Option Int}
    (h : kv ∈ l) : l.get kv.1 = kv.2 := by
  unfold IntMap.get
  rw [lookup_of_mem_nodup hnd (show (kv.1, kv.2) ∈ l from h)]

/-- for a map without duplicate keys the product over its entries is the product over its key
    list of `R_j ^ f(l[j])`. -/
theorem mapU_eq_rep_keys (pk : PublicKey) (f : Int → ℤ) (l : IntMap) (hnd : (l.map (·.1)).Nodup) :
    mapU n pk f l =
      Alg.rep (baseU n pk) (fun j => f ((l.get j).getD 0)) (l.map (·.1)) := by
  unfold mapU
  rw [rep_map]
  apply Alg.rep_congr
  intro kv hkv
  rw [intMap_get_of_mem hnd hkv]

/-- **special soundness of the disclosure proof for the model's integers**: two proofs with the
    same `A'`, the same disclosed map and the same hidden keys whose `reconstructZ` returns the same
    commitment `z` satisfy, in `(ZMod n)ˣ`,
    `K^(c-c') = A'^(ê-ê') · S^(v̂-v̂') · ∏_{j hidden} R_j^(ŝ_j-ŝ'_j)`,
    `K = Z / (A'^(2^(Le-1)) · ∏_{i disclosed} R_i^{attrExp(a_i)})`. -/
theorem proofD_special_soundness_model (pk : PublicKey) (p p' : ProofD) (hN : pk.n = n) (hn : 1 < n)
    (hz : IsUnit (pk.z : ZMod n)) (hs : IsUnit (pk.s : ZMod n))
    (hr : ∀ b ∈ pk.r, IsUnit (b : ZMod n))
    {a c c' er er' vr vr' z : Int} (hau : IsUnit (a : ZMod n))
    (ha : p.a = some a) (ha' : p'.a = some a)
    (hc : p.c = some c) (hc' : p'.c = some c')
    (her : p.eResponse = some er) (her' : p'.eResponse = some er')
    (hvr : p.vResponse = some vr) (hvr' : p'.vResponse = some vr')
    (hdis : p'.aDisclosed = p.aDisclosed)
    (hkeys : p'.aResponses.map (·.1) = p.aResponses.map (·.1))
    (hnd : (p.aResponses.map (·.1)).Nodup)
    (h1 : p.reconstructZ pk = .ok (some z)) (h2 : p'.reconstructZ pk = .ok (some z)) :
    knownU n pk a p.aDisclosed ^ (c - c') =
      zunit n a ^ (er - er') * zunit n pk.s ^ (vr - vr') *
        Alg.rep (baseU n pk)
          (fun j => (p.aResponses.get j).getD 0 - (p'.aResponses.get j).getD 0)
          (p.aResponses.map (·.1)) := by
  obtain ⟨_, _, _, _, zc⟩ := reconstructZ_unit_eq pk p hN hn hz hs hr ha hau hc her hvr h1
  obtain ⟨_, _, _, _, zc'⟩ := reconstructZ_unit_eq pk p' hN hn hz hs hr ha' hau hc' her' hvr' h2
  have e1 : reconU n pk a c er vr p.aDisclosed p.aResponses =
      reconU n pk a c' er' vr' p.aDisclosed p'.aResponses := by
    apply Units.ext
    rw [← zc, zc', hdis]
  unfold reconU at e1
  rw [mapU_eq_rep_keys pk id _ hnd, mapU_eq_rep_keys pk id p'.aResponses (hkeys ▸ hnd), hkeys] at e1
  exact Alg.proofD_special_soundness (baseU n pk) (p.aResponses.map (·.1)) _ _ e1 rfl

theorem extract_of_K {G : Type*} [CommGroup G] {Z A Dp S H : G} {E0 dc de dv : ℤ}
    (h : (Z / (A ^ E0 * Dp)) ^ dc = A ^ de * S ^ dv * H) :
    A ^ (E0 * dc + de) * Dp ^ dc * H * S ^ dv = Z ^ dc := by
  have h := Alg.ofMul_congr h
  simp only [ofMul_mul, ofMul_zpow, ofMul_div] at h
  to_additive_goal
  linear_combination (norm := module) (-1 : ℤ) • h

/-- the same equation with `K` unfolded: a CL-signature-shaped relation "in the exponent
    `c − c'`" on the *reported* disclosed values. -/
theorem proofD_extract_model (pk : PublicKey) (p p' : ProofD) (hN : pk.n = n) (hn : 1 < n)
    (hz : IsUnit (pk.z : ZMod n)) (hs : IsUnit (pk.s : ZMod n))
    (hr : ∀ b ∈ pk.r, IsUnit (b : ZMod n))
    {a c c' er er' vr vr' z : Int} (hau : IsUnit (a : ZMod n))
    (ha : p.a = some a) (ha' : p'.a = some a)
    (hc : p.c = some c) (hc' : p'.c = some c')
    (her : p.eResponse = some er) (her' : p'.eResponse = some er')
    (hvr : p.vResponse = some vr) (hvr' : p'.vResponse = some vr')
    (hdis : p'.aDisclosed = p.aDisclosed)
    (hkeys : p'.aResponses.map (·.1) = p.aResponses.map (·.1))
    (hnd : (p.aResponses.map (·.1)).Nodup)
    (h1 : p.reconstructZ pk = .ok (some z)) (h2 : p'.reconstructZ pk = .ok (some z)) :
    zunit n a ^ ((2 : ℤ) ^ (pk.params.Le - 1) * (c - c') + (er - er')) *
        mapU n pk (attrExp pk.params.Lm) p.aDisclosed ^ (c - c') *
        Alg.rep (baseU n pk)
          (fun j => (p.aResponses.get j).getD 0 - (p'.aResponses.get j).getD 0)
          (p.aResponses.map (·.1)) *
        zunit n pk.s ^ (vr - vr') = zunit n pk.z ^ (c - c') :=
  extract_of_K (proofD_special_soundness_model pk p p' hN hn hz hs hr hau ha ha' hc hc' her her'
    hvr hvr' hdis hkeys hnd h1 h2)

/-! ### 4. the disclosed values enter `K` through `attrExp` only -/

theorem mapU_append (pk : PublicKey) (f : Int → ℤ) (l l' : IntMap) :
    mapU n pk f (l ++ l') = mapU n pk f l * mapU n pk f l' := Alg.rep_append _ _ _ _

/-- `K` is a function of the pairs (index, `attrExp` of the reported value). -/
theorem knownU_congr (pk : PublicKey) (a : Int) (l l' : IntMap)
    (h : l.map (fun kv => (kv.1, attrExp pk.params.Lm (kv.2.getD 0))) =
      l'.map (fun kv => (kv.1, attrExp pk.params.Lm (kv.2.getD 0)))) :
    knownU n pk a l = knownU n pk a l' := by
  unfold knownU mapU Alg.rep
  have : ∀ m : IntMap, (m.map fun kv => baseU n pk kv.1 ^ attrExp pk.params.Lm (kv.2.getD 0)) =
      (m.map (fun kv => (kv.1, attrExp pk.params.Lm (kv.2.getD 0)))).map
        (fun q : Int × Int => baseU n pk q.1 ^ q.2) := by
    intro m; rw [List.map_map]; rfl
  rw [this l, this l', h]

/-- changing the reported value of one disclosed index from `x` to `x'` multiplies `K` by
    `R_i ^ (attrExp x − attrExp x')`. -/
theorem knownU_update (pk : PublicKey) (a : Int) (l1 l2 : IntMap) (i x x' : Int) :
    knownU n pk a (l1 ++ (i, some x') :: l2) =
      knownU n pk a (l1 ++ (i, some x) :: l2) *
        baseU n pk i ^ (attrExp pk.params.Lm x - attrExp pk.params.Lm x') := by
  unfold knownU
  rw [mapU_append, mapU_append, mapU_cons, mapU_cons, Option.getD_some, Option.getD_some]
  to_additive_goal
  module

/-- … so the two `K` coincide iff `R_i ^ (attrExp x − attrExp x') = 1`. -/
theorem knownU_update_eq_iff (pk : PublicKey) (a : Int) (l1 l2 : IntMap) (i x x' : Int) :
    knownU n pk a (l1 ++ (i, some x) :: l2) = knownU n pk a (l1 ++ (i, some x') :: l2) ↔
      baseU n pk i ^ (attrExp pk.params.Lm x - attrExp pk.params.Lm x') = 1 := by
  rw [knownU_update pk a l1 l2 i x x', eq_comm, mul_eq_left]

end Gabi.E2E

#print axioms Gabi.E2E.honest_reconstructs_model
#print axioms Gabi.E2E.honest_accepts_model
#print axioms Gabi.E2E.proofD_special_soundness_model
#print axioms Gabi.E2E.proofD_extract_model
#print axioms Gabi.E2E.knownU_update_eq_iff
