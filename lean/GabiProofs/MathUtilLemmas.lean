import GabiModel.MathUtil
import GabiProofs.NumLemmas
import Mathlib.Tactic.Ring
import Mathlib.Tactic.Linarith
import Mathlib.Tactic.NormNum
import Mathlib.Tactic.LinearCombination
import Mathlib.Tactic.SplitIfs
import Mathlib.Data.Int.GCD
import Mathlib.Data.Nat.GCD.Basic

namespace Gabi

/-! ## 1. CRT -/

theorem crt_def (a pa b pb : Int) : crt a pa b pb =
    if (xgcd pa.toNat pb.toNat).1 ≠ 1 then none
    else some ((a * (xgcd pa.toNat pb.toNat).2.2 * pb
      + b * (xgcd pa.toNat pb.toNat).2.1 * pa) % (pa * pb)) := rfl

theorem crt_some {a pa b pb x : Int} (hpa : 0 < pa) (hpb : 0 < pb)
    (h : crt a pa b pb = some x) :
    0 ≤ x ∧ x < pa * pb ∧ x % pa = a % pa ∧ x % pb = b % pb := by
  rw [crt_def] at h
  split at h
  · exact absurd h (by simp)
  · next hg =>
    have hg1 : (xgcd pa.toNat pb.toNat).1 = 1 := not_not.mp hg
    have hb := xgcd_bezout pa.toNat pb.toNat
    rw [hg1, Int.toNat_of_nonneg (le_of_lt hpa), Int.toNat_of_nonneg (le_of_lt hpb)] at hb
    have hx := Option.some.inj h
    set s2 := (xgcd pa.toNat pb.toNat).2.1
    set s1 := (xgcd pa.toNat pb.toNat).2.2
    have hpos : 0 < pa * pb := Int.mul_pos hpa hpb
    subst hx
    refine ⟨Int.emod_nonneg _ (ne_of_gt hpos), Int.emod_lt_of_pos _ hpos, ?_, ?_⟩
    · rw [Int.emod_emod_of_dvd _ (dvd_mul_right pa pb)]
      have : a * s1 * pb + b * s2 * pa = a + pa * (b * s2 - a * s2) := by
        push_cast at hb
        linear_combination a * hb
      rw [this, Int.add_mul_emod_self_left]
    · rw [Int.emod_emod_of_dvd _ (dvd_mul_left pb pa)]
      have : a * s1 * pb + b * s2 * pa = b + pb * (a * s1 - b * s1) := by
        push_cast at hb
        linear_combination b * hb
      rw [this, Int.add_mul_emod_self_left]

theorem crt_none_iff (a pa b pb : Int) (hpa : 0 < pa) (hpb : 0 < pb) :
    crt a pa b pb = none ↔ Int.gcd pa pb ≠ 1 := by
  rw [crt_def, xgcd_gcd]
  have h1 : pa.toNat = pa.natAbs := by omega
  have h2 : pb.toNat = pb.natAbs := by omega
  rw [Int.gcd_def, h1, h2]
  split <;> simp_all

/-! ## 2. FastMod -/

theorem fastModLoop_succ (fuel b c cur : Nat) : fastModLoop (fuel + 1) b c cur =
    if cur / 2 ^ b = 0 then cur
    else fastModLoop fuel b c (cur % 2 ^ b + cur / 2 ^ b * c) := rfl

theorem fastModLoop_small (fuel b c cur : Nat) (h : cur < 2 ^ b) :
    fastModLoop fuel b c cur = cur := by
  cases fuel with
  | zero => rfl
  | succ f => rw [fastModLoop_succ, if_pos (Nat.div_eq_of_lt h)]

/-- every loop step preserves the residue modulo `p` (because `2^b = p + c ≡ c`). -/
theorem fastModLoop_mod (fuel b c p cur : Nat) (hpc : p + c = 2 ^ b) :
    fastModLoop fuel b c cur % p = cur % p := by
  induction fuel generalizing cur with
  | zero => rfl
  | succ f ih =>
    rw [fastModLoop_succ]
    split
    · rfl
    · rw [ih]
      have hdm := Nat.mod_add_div cur (2 ^ b)
      have : cur = (cur % 2 ^ b + cur / 2 ^ b * c) + cur / 2 ^ b * p := by
        rw [← hpc] at hdm
        conv_lhs => rw [← hdm]
        rw [← hpc]
        ring
      conv_rhs => rw [this]
      rw [Nat.add_mul_mod_self_right]

theorem fastModLoop_lt0 (f b c cur : Nat) (h2c : 2 * c ≤ 2 ^ b) (h : cur < 2 ^ b + c) :
    fastModLoop (f + 1) b c cur < 2 ^ b := by
  have hP : 0 < 2 ^ b := Nat.two_pow_pos _
  rw [fastModLoop_succ]
  split
  · next h0 =>
    rcases (Nat.div_eq_zero_iff).mp h0 with h0 | h0 <;> omega
  · next h0 =>
    have hge : 2 ^ b ≤ cur := by
      by_contra hlt
      exact h0 (Nat.div_eq_of_lt (by omega))
    have hq : cur / 2 ^ b = 1 := Nat.div_eq_of_lt_le (by omega) (by omega)
    have hdm := Nat.mod_add_div cur (2 ^ b)
    rw [hq] at hdm ⊢
    rw [fastModLoop_small]
    all_goals omega

theorem fastModLoop_lt (j : Nat) : ∀ (fuel b c cur : Nat), 2 * c ≤ 2 ^ b →
    cur < 2 ^ b + 2 ^ b * 2 ^ j → j + 2 ≤ fuel → fastModLoop fuel b c cur < 2 ^ b := by
  induction j with
  | zero =>
    intro fuel b c cur h2c h hf
    have hP : 0 < 2 ^ b := Nat.two_pow_pos _
    obtain ⟨f, rfl⟩ : ∃ f, fuel = f + 2 := ⟨fuel - 2, by omega⟩
    rw [fastModLoop_succ]
    split
    · next h0 =>
      rcases (Nat.div_eq_zero_iff).mp h0 with h0 | h0 <;> omega
    · next h0 =>
      have hge : 2 ^ b ≤ cur := by
        by_contra hlt
        exact h0 (Nat.div_eq_of_lt (by omega))
      have hq : cur / 2 ^ b = 1 := Nat.div_eq_of_lt_le (by omega) (by omega)
      have hdm := Nat.mod_add_div cur (2 ^ b)
      rw [hq] at hdm ⊢
      apply fastModLoop_lt0 _ _ _ _ h2c
      omega
  | succ j ih =>
    intro fuel b c cur h2c h hf
    have hP : 0 < 2 ^ b := Nat.two_pow_pos _
    obtain ⟨f, rfl⟩ : ∃ f, fuel = f + 1 := ⟨fuel - 1, by omega⟩
    rw [fastModLoop_succ]
    split
    · next h0 =>
      rcases (Nat.div_eq_zero_iff).mp h0 with h0 | h0 <;> omega
    · apply ih _ _ _ _ h2c _ (by omega)
      have hr : cur % 2 ^ b < 2 ^ b := Nat.mod_lt _ hP
      have hq : cur / 2 ^ b < 1 + 2 ^ (j + 1) := by
        rw [Nat.div_lt_iff_lt_mul hP]
        calc cur < 2 ^ b + 2 ^ b * 2 ^ (j + 1) := h
          _ = (1 + 2 ^ (j + 1)) * 2 ^ b := by ring
      have hqc : cur / 2 ^ b * (2 * c) ≤ 2 ^ (j + 1) * 2 ^ b :=
        Nat.mul_le_mul (by omega) h2c
      have e1 : cur / 2 ^ b * (2 * c) = 2 * (cur / 2 ^ b * c) := by ring
      have e2 : 2 ^ (j + 1) * 2 ^ b = 2 * (2 ^ b * 2 ^ j) := by ring
      omega

theorem nat_mod_of_lt_two_mul (r p : Nat) (h : r < 2 * p) :
    r % p = if r ≥ p then r - p else r := by
  split
  · next hge =>
    rw [Nat.mod_eq_sub_mod hge, Nat.mod_eq_of_lt (by omega)]
  · next hlt => exact Nat.mod_eq_of_lt (by omega)

/-- general form: any `FastMod` record satisfying the invariants established by `set`. -/
theorem fastMod_mod_of (m : FastMod) (hb : 1 ≤ m.b)
    (hpc : m.p + m.c = 2 ^ m.b) (hcp : m.c ≤ m.p) (x : Int) :
    m.mod x = x % (m.p : Int) := by
  unfold FastMod.mod
  split_ifs with h1 h2 h3
  · rfl
  · rfl
  · exact (Int.emod_eq_of_lt (by omega) h3).symm
  · obtain ⟨xn, rfl⟩ := Int.eq_ofNat_of_zero_le (by omega : 0 ≤ x)
    have hP : 0 < 2 ^ m.b := Nat.two_pow_pos _
    have hxp : m.p ≤ xn := by omega
    show (if xn / 2 ^ m.b = 0 then (((xn - m.p : Nat)) : Int)
      else if fastModLoop (natBitLen xn + 1) m.b m.c xn ≥ m.p
        then ((fastModLoop (natBitLen xn + 1) m.b m.c xn - m.p : Nat) : Int)
        else (fastModLoop (natBitLen xn + 1) m.b m.c xn : Int)) = (xn : Int) % (m.p : Int)
    rw [← Int.natCast_mod xn m.p]
    split
    · next h4 =>
      have hlt : xn < 2 ^ m.b := by
        rcases (Nat.div_eq_zero_iff).mp h4 with h0 | h0 <;> omega
      have := nat_mod_of_lt_two_mul xn m.p (by omega)
      rw [if_pos (by omega)] at this
      rw [this]
    · next h4 =>
      have hge : 2 ^ m.b ≤ xn := by
        by_contra hlt
        exact h4 (Nat.div_eq_of_lt (by omega))
      have hk : xn < 2 ^ natBitLen xn := lt_two_pow_natBitLen xn
      have hbk : m.b < natBitLen xn :=
        (Nat.pow_lt_pow_iff_right (by norm_num : 1 < 2)).mp (by omega)
      have hpow : 2 ^ m.b * 2 ^ (natBitLen xn - m.b) = 2 ^ natBitLen xn := by
        rw [← Nat.pow_add]; congr 1; omega
      have hlt := fastModLoop_lt (natBitLen xn - m.b) (natBitLen xn + 1) m.b m.c xn
        (by omega) (by omega) (by omega)
      have hmod := fastModLoop_mod (natBitLen xn + 1) m.b m.c m.p xn hpc
      have := nat_mod_of_lt_two_mul (fastModLoop (natBitLen xn + 1) m.b m.c xn) m.p (by omega)
      rw [← hmod, this]
      split <;> rfl

theorem fastMod_set_p (p : Nat) : (FastMod.set p).p = p := rfl
theorem fastMod_set_b (p : Nat) : (FastMod.set p).b = natBitLen p := rfl
theorem fastMod_set_c (p : Nat) : (FastMod.set p).c = 2 ^ natBitLen p - p := rfl

theorem fastMod_spec (p : Nat) (hp : 0 < p) (x : Int) :
    (FastMod.set p).mod x = x % (p : Int) := by
  have hlt := lt_two_pow_natBitLen p
  have hle := two_pow_natBitLen_le p (by omega)
  have hb : 1 ≤ natBitLen p := (natBitLen_pos_iff p).mpr (by omega)
  have h2 : 2 ^ natBitLen p = 2 * 2 ^ (natBitLen p - 1) := by
    rw [← Nat.pow_succ']; congr 1; omega
  apply fastMod_mod_of (FastMod.set p)
  · exact hb
  · rw [fastMod_set_p, fastMod_set_c, fastMod_set_b]; omega
  · rw [fastMod_set_p, fastMod_set_c]; omega

theorem fastMod_range (p : Nat) (hp : 0 < p) (x : Int) :
    0 ≤ (FastMod.set p).mod x ∧ (FastMod.set p).mod x < p := by
  rw [fastMod_spec p hp x]
  have : (0 : Int) < p := by exact_mod_cast hp
  exact ⟨Int.emod_nonneg _ (ne_of_gt this), Int.emod_lt_of_pos _ this⟩

/-! ## 3. Four squares wrapper -/

def QuadOk (k : Nat) (q : Quad) : Prop :=
  0 ≤ q.1 ∧ 0 ≤ q.2.1 ∧ 0 ≤ q.2.2.1 ∧ 0 ≤ q.2.2.2 ∧
    q.1 ^ 2 + q.2.1 ^ 2 + q.2.2.1 ^ 2 + q.2.2.2 ^ 2 = (k : Int)

/-- the parity re-pairing and halving step of the odd case. -/
def oddStep (q : Quad) : Quad :=
  let (x, y, z, w) := q
  let (y, z, w) := if x % 2 ≠ y % 2 then (if x % 2 = z % 2 then (z, y, w) else (w, z, y)) else (y, z, w)
  let (x, y) := if x < y then (y, x) else (x, y)
  let (z, w) := if z < w then (w, z) else (z, w)
  ((x + y) / 2, (x - y) / 2, (z + w) / 2, (z - w) / 2)

def scaleQuad (q : Quad) (k : Nat) : Quad :=
  (q.1 * 2 ^ k, q.2.1 * 2 ^ k, q.2.2.1 * 2 ^ k, q.2.2.2 * 2 ^ k)

theorem sumFourSquaresWith_eq (special : Nat → Quad) (n : Nat) :
    sumFourSquaresWith special n =
      if n = 0 then (0, 0, 0, 0) else
      if n % 4 = 2 then special n
      else if n % 4 = 0 then
        let td := shiftToTwoMod4 (natBitLen n + 1) (n / 2) 1
        let td' := if td.2 % 2 = 1 then (td.1 / 2, td.2 + 1) else td
        scaleQuad (if td'.1 = 0 then (0, 0, 0, 0)
          else if td'.1 % 4 = 2 then special td'.1
          else oddStep (special (2 * td'.1))) (td'.2 / 2)
      else oddStep (special (2 * n)) := by
  rfl


theorem sq_emod_four (x : Int) : x ^ 2 % 4 = x % 2 := by
  obtain ⟨k, hk⟩ : ∃ k, x = 2 * k + x % 2 := ⟨x / 2, by omega⟩
  rcases Int.emod_two_eq_zero_or_one x with h0 | h0
  · rw [h0] at hk ⊢
    have : x ^ 2 = 4 * k ^ 2 := by rw [hk]; ring
    omega
  · rw [h0] at hk ⊢
    have : x ^ 2 = 4 * (k ^ 2 + k) + 1 := by rw [hk]; ring
    omega

theorem half_sq (x y : Int) (h : x % 2 = y % 2) :
    2 * (((x + y) / 2) ^ 2 + ((x - y) / 2) ^ 2) = x ^ 2 + y ^ 2 := by
  obtain ⟨a, ha⟩ : ∃ a, x + y = 2 * a := ⟨(x + y) / 2, by omega⟩
  obtain ⟨b, hb⟩ : ∃ b, x - y = 2 * b := ⟨(x - y) / 2, by omega⟩
  rw [ha, hb, Int.mul_ediv_cancel_left _ (by norm_num), Int.mul_ediv_cancel_left _ (by norm_num)]
  have hx : x = a + b := by omega
  have hy : y = a - b := by omega
  subst hx hy
  ring

theorem pair_ok (m : Nat) (a b c d : Int) (hm : (2 * m) % 4 = 2)
    (ha : 0 ≤ a) (hb : 0 ≤ b) (hc : 0 ≤ c) (hd : 0 ≤ d)
    (hsum : a ^ 2 + b ^ 2 + c ^ 2 + d ^ 2 = 2 * (m : Int))
    (hab : a % 2 = b % 2) (hba : b ≤ a) (hdc : d ≤ c) :
    QuadOk m ((a + b) / 2, (a - b) / 2, (c + d) / 2, (c - d) / 2) := by
  have sa := sq_emod_four a
  have sb := sq_emod_four b
  have sc := sq_emod_four c
  have sd := sq_emod_four d
  have hcd : c % 2 = d % 2 := by omega
  have p1 := half_sq a b hab
  have p2 := half_sq c d hcd
  refine ⟨?_, ?_, ?_, ?_, ?_⟩ <;> simp only <;> omega

theorem oddStep_ok (m : Nat) (q : Quad) (hm : (2 * m) % 4 = 2) (h : QuadOk (2 * m) q) :
    QuadOk m (oddStep q) := by
  obtain ⟨x, y, z, w⟩ := q
  obtain ⟨hx, hy, hz, hw, hsum⟩ := h
  simp only at hx hy hz hw hsum
  have sx := sq_emod_four x
  have sy := sq_emod_four y
  have sz := sq_emod_four z
  have sw := sq_emod_four w
  push_cast at hsum
  unfold oddStep
  simp only []
  split_ifs
  all_goals simp only [] at *
  all_goals
    apply pair_ok m _ _ _ _ hm <;> omega

theorem shiftToTwoMod4_succ (fuel temp d : Nat) : shiftToTwoMod4 (fuel + 1) temp d =
    if temp % 4 = 2 then (temp, d) else shiftToTwoMod4 fuel (temp / 2) (d + 1) := rfl

/-- with enough fuel the shift loop stops at a value `≡ 2 (mod 4)` and keeps `temp * 2^d`. -/
theorem shiftToTwoMod4_spec (fuel : Nat) : ∀ (temp d : Nat), temp ≠ 0 → temp % 2 = 0 →
    temp < 2 ^ fuel →
    (shiftToTwoMod4 fuel temp d).1 % 4 = 2 ∧
    (shiftToTwoMod4 fuel temp d).1 * 2 ^ (shiftToTwoMod4 fuel temp d).2 = temp * 2 ^ d ∧
    d ≤ (shiftToTwoMod4 fuel temp d).2 := by
  induction fuel with
  | zero => intro temp d h0 _ hlt; simp at hlt; exact absurd hlt h0
  | succ f ih =>
    intro temp d h0 hev hlt
    rw [shiftToTwoMod4_succ]
    split
    · next h2 => exact ⟨h2, rfl, le_refl _⟩
    · next h2 =>
      rw [Nat.pow_succ] at hlt
      obtain ⟨i1, i2, i3⟩ := ih (temp / 2) (d + 1) (by omega) (by omega) (by omega)
      refine ⟨i1, ?_, by omega⟩
      rw [i2, Nat.pow_succ]
      have : temp = 2 * (temp / 2) := by omega
      conv_rhs => rw [this]
      ring

theorem quadOk_zero : QuadOk 0 (0, 0, 0, 0) := by
  unfold QuadOk; simp

theorem scaleQuad_ok (T k : Nat) (q : Quad) (h : QuadOk T q) :
    QuadOk (T * 2 ^ (2 * k)) (scaleQuad q k) := by
  obtain ⟨x, y, z, w⟩ := q
  obtain ⟨hx, hy, hz, hw, hsum⟩ := h
  simp only at hx hy hz hw hsum
  have hp : (0 : Int) ≤ 2 ^ k := by positivity
  refine ⟨mul_nonneg hx hp, mul_nonneg hy hp, mul_nonneg hz hp, mul_nonneg hw hp, ?_⟩
  simp only [scaleQuad]
  push_cast
  rw [← hsum]
  ring

theorem sumFourSquaresInnerArg_eq (n : Nat) : sumFourSquaresInnerArg n =
    if n = 0 then 0 else
    if n % 4 = 2 then n
    else if n % 4 = 0 then
      let td := shiftToTwoMod4 (natBitLen n + 1) (n / 2) 1
      let T := if td.2 % 2 = 1 then td.1 / 2 else td.1
      if T = 0 then 0 else if T % 4 = 2 then T else 2 * T
    else 2 * n := rfl

/-- core statement: for `n ≠ 0` the wrapper consults the inner routine at exactly one argument
    `sumFourSquaresInnerArg n`, which is `≡ 2 (mod 4)`, and a correct answer there suffices. -/
theorem sumFourSquares_core (special : Nat → Quad) (n : Nat) (hn : n ≠ 0) :
    sumFourSquaresInnerArg n % 4 = 2 ∧
    (QuadOk (sumFourSquaresInnerArg n) (special (sumFourSquaresInnerArg n)) →
      QuadOk n (sumFourSquaresWith special n)) := by
  rw [sumFourSquaresWith_eq, sumFourSquaresInnerArg_eq, if_neg hn, if_neg hn]
  split_ifs with h2 h4
  · exact ⟨h2, id⟩
  · obtain ⟨s1, s2, s3⟩ := shiftToTwoMod4_spec (natBitLen n + 1) (n / 2) 1 (by omega) (by omega)
      (by have := lt_two_pow_natBitLen n; rw [Nat.pow_succ]; omega)
    simp only []
    generalize shiftToTwoMod4 (natBitLen n + 1) (n / 2) 1 = td at s1 s2 s3 ⊢
    obtain ⟨t, d⟩ := td
    simp only at s1 s2 s3 ⊢
    have hnn : t * 2 ^ d = n := by rw [s2]; omega
    -- the parity adjustment
    obtain ⟨T, D, hTD, hT', hT, hD, hn'⟩ : ∃ T D,
        (if d % 2 = 1 then (t / 2, d + 1) else (t, d)) = (T, D)
        ∧ (if d % 2 = 1 then t / 2 else t) = T
        ∧ (T % 4 = 2 ∨ T % 2 = 1) ∧ D % 2 = 0 ∧ T * 2 ^ D = n := by
      split
      · next hd =>
        refine ⟨t / 2, d + 1, rfl, rfl, Or.inr (by omega), by omega, ?_⟩
        rw [← hnn, Nat.pow_succ]
        have : t = 2 * (t / 2) := by omega
        conv_rhs => rw [this]
        ring
      · next hd => exact ⟨t, d, rfl, rfl, Or.inl s1, by omega, hnn⟩
    rw [hTD, hT']
    simp only []
    have hD2 : D = 2 * (D / 2) := by omega
    have hT0 : T ≠ 0 := by
      rintro rfl
      rw [Nat.zero_mul] at hn'
      exact hn hn'.symm
    rw [if_neg hT0, if_neg hT0]
    have fin : ∀ q, QuadOk T q → QuadOk n (scaleQuad q (D / 2)) := by
      intro q hq
      have := scaleQuad_ok T (D / 2) q hq
      rw [← hD2, hn'] at this
      exact this
    split_ifs with c2
    · exact ⟨c2, fun h => fin _ h⟩
    · exact ⟨by omega, fun h => fin _ (oddStep_ok T _ (by omega) h)⟩
  · exact ⟨by omega, fun h => oddStep_ok n _ (by omega) h⟩

theorem sumFourSquaresWith_zero (special : Nat → Quad) :
    sumFourSquaresWith special 0 = (0, 0, 0, 0) := rfl

theorem sumFourSquaresInnerArg_zero : sumFourSquaresInnerArg 0 = 0 := rfl

/-- the inner routine is only ever invoked on arguments `≡ 2 (mod 4)`. -/
theorem sumFourSquaresInnerArg_mod (n : Nat) (hn : n ≠ 0) : sumFourSquaresInnerArg n % 4 = 2 :=
  (sumFourSquares_core (fun _ => (0, 0, 0, 0)) n hn).1

/-- strengthened wrapper correctness: it suffices that the inner routine is right on the single
    argument the wrapper derives. -/
theorem sumFourSquaresWith_spec_arg (special : Nat → Quad) (n : Nat)
    (hs : n ≠ 0 → QuadOk (sumFourSquaresInnerArg n) (special (sumFourSquaresInnerArg n))) :
    QuadOk n (sumFourSquaresWith special n) := by
  by_cases hn : n = 0
  · subst hn; exact quadOk_zero
  · exact (sumFourSquares_core special n hn).2 (hs hn)

theorem sumFourSquaresWith_spec (special : Nat → Quad) (n : Nat)
    (hs : ∀ k, k % 4 = 2 → QuadOk k (special k)) :
    QuadOk n (sumFourSquaresWith special n) :=
  sumFourSquaresWith_spec_arg special n (fun hn => hs _ (sumFourSquaresInnerArg_mod n hn))

/-! ## 4. groupFoldExp -/

theorem groupFoldExp_def (e order : Int) : groupFoldExp e order =
    if (if e < 0 then e + order else e) ≥ order then none
    else some (if e < 0 then e + order else e) := rfl

set_option linter.unusedVariables false in
theorem groupFoldExp_some {e order r : Int} (ho : 0 < order)
    (h : groupFoldExp e order = some r) :
    r < order ∧ (r - e) % order = 0 ∧ (e ≥ -order → 0 ≤ r) := by
  rw [groupFoldExp_def] at h
  by_cases hc : (if e < 0 then e + order else e) ≥ order
  · rw [if_pos hc] at h
    exact absurd h (by simp)
  · rw [if_neg hc] at h
    have hr := Option.some.inj h
    subst hr
    refine ⟨by omega, ?_, ?_⟩
    · split
      · have : e + order - e = order := by ring
        rw [this, Int.emod_self]
      · simp
    · intro hge
      split <;> omega

theorem groupFoldExp_none_iff (e order : Int) :
    groupFoldExp e order = none ↔ (if e < 0 then e + order else e) ≥ order := by
  rw [groupFoldExp_def]
  split <;> simp_all

/-! ## 5. randomPrimeInRangeOk -/

theorem randomPrimeInRangeOk_interval {start length p : Nat}
    (h : randomPrimeInRangeOk start length p = true) :
    2 ^ start < p ∧ p < 2 ^ start + 2 ^ length ∧ p % 2 = 1 := by
  unfold randomPrimeInRangeOk at h
  simp only [Bool.and_eq_true, decide_eq_true_eq] at h
  exact ⟨h.1.1.1, h.1.1.2, h.1.2⟩

/-- bonus: the primality oracle accepted the output -/
theorem randomPrimeInRangeOk_prime {start length p : Nat}
    (h : randomPrimeInRangeOk start length p = true) : probablyPrime p = true := by
  unfold randomPrimeInRangeOk at h
  simp only [Bool.and_eq_true, decide_eq_true_eq] at h
  exact h.2

end Gabi

#print axioms Gabi.crt_some
#print axioms Gabi.crt_none_iff
#print axioms Gabi.fastMod_spec
#print axioms Gabi.fastMod_range
#print axioms Gabi.sumFourSquaresWith_spec
#print axioms Gabi.sumFourSquaresWith_spec_arg
#print axioms Gabi.sumFourSquaresInnerArg_mod
#print axioms Gabi.groupFoldExp_some
#print axioms Gabi.groupFoldExp_none_iff
#print axioms Gabi.randomPrimeInRangeOk_interval
