/-
  GabiProofs.CLLemmas — the CL-signature part of the model (`GabiModel/CL.lean`) expressed in the
  unit group of `ZMod n`: `representToBases`, `clVerifyWith`, `clSignWith`, `clRandomize`.
-/
import GabiModel.CL
import GabiProofs.Bridge
import GabiProofs.GroupAlgebra

namespace Gabi

variable {n : ℕ}

/-! ### Go slice indexing -/

theorem idx_natCast {α} (what : String) (l : List α) (i : ℕ) {a : α} (h : l[i]? = some a) :
    idx what l (i : Int) = .ok a := by
  unfold idx
  have : ¬ ((i : Int) < 0) := by omega
  simp only [this, if_false, Int.toNat_natCast, h]
  rfl

theorem idx_ok {α} {what : String} {l : List α} {i : Int} {a : α} (h : idx what l i = .ok a) :
    0 ≤ i ∧ l[i.toNat]? = some a := by
  unfold idx at h
  split at h
  · cases h
  · next hi =>
    split at h
    · next b hb =>
      have : b = a := by
        have := h; simp only [pure, Except.pure] at this; exact Except.ok.inj this
      subst this
      exact ⟨by omega, hb⟩
    · cases h

/-! ### `RepresentToBases` -/

/-- the representation `∏ bases_i ^ attrExp(exps_i)` in the unit group; the product runs over
    `bases.zip exps`, i.e. over the first `exps.length` bases. -/
noncomputable def repU (n : ℕ) (lm : ℕ) (bases exps : List Int) : (ZMod n)ˣ :=
  Alg.rep (fun p : Int × Int => zunit n p.1) (fun p => attrExp lm p.2) (bases.zip exps)

theorem repU_nil_right (lm : ℕ) (bases : List Int) : repU n lm bases [] = 1 := by
  simp [repU]

theorem repU_cons (lm : ℕ) (b e : Int) (bases exps : List Int) :
    repU n lm (b :: bases) (e :: exps) = zunit n b ^ attrExp lm e * repU n lm bases exps := by
  simp [repU]

theorem representToBases_go_nil (bases : List Int) (m : Int) (lm i : ℕ) (r : Int) :
    representToBases.go bases m lm i [] r = .ok r := rfl

theorem representToBases_go_cons (bases : List Int) (m : Int) (lm i : ℕ) (e : Int) (es : List Int)
    (r : Int) :
    representToBases.go bases m lm i (e :: es) r =
      (idx "bases[i]" bases i >>= fun b =>
        match goExp b (attrExp lm e) m with
        | some t => representToBases.go bases m lm (i + 1) es (r * t % m)
        | none => throw (.nilDeref "Exp returned nil")) := rfl

/-- `RepresentToBases` on invertible bases (at least as many bases as exponents): it does not
    panic, and the accumulator is multiplied by the representation. -/
theorem representToBases_go_spec (hn : 1 < n) (bases : List Int) (lm : ℕ)
    (hb : ∀ b ∈ bases, IsUnit (b : ZMod n)) :
    ∀ (es : List Int) (i : ℕ) (r : Int) (u : (ZMod n)ˣ), i + es.length ≤ bases.length →
      0 ≤ r → r < n → (r : ZMod n) = (u : ZMod n) →
      ∃ r', representToBases.go bases n lm i es r = .ok r' ∧ 0 ≤ r' ∧ r' < n ∧
        (r' : ZMod n) = ((u * repU n lm (bases.drop i) es : (ZMod n)ˣ) : ZMod n) := by
  intro es
  induction es with
  | nil =>
    intro i r u _ h0 h1 hc
    exact ⟨r, rfl, h0, h1, by rw [repU_nil_right, mul_one, hc]⟩
  | cons e es ih =>
    intro i r u hlen h0 h1 hc
    simp only [List.length_cons] at hlen
    have hi : i < bases.length := by omega
    have hget : bases[i]? = some bases[i] := List.getElem?_eq_getElem hi
    have hbu : IsUnit ((bases[i] : Int) : ZMod n) := hb _ (List.getElem_mem hi)
    obtain ⟨t, ht, _, _, htc⟩ := goExp_unit hn hbu (attrExp lm e)
    rw [representToBases_go_cons, idx_natCast _ _ _ hget]
    simp only [bind, Except.bind, ht]
    obtain ⟨m0, m1, mc⟩ := mul_emod_unit (by omega : 0 < n) hc htc
    obtain ⟨r', hr', a, b, c⟩ := ih (i + 1) _ _ (by omega) m0 m1 mc
    refine ⟨r', hr', a, b, ?_⟩
    rw [c, List.drop_eq_getElem_cons hi, repU_cons, mul_assoc]

theorem representToBases_spec (hn : 1 < n) (bases : List Int) (lm : ℕ)
    (hb : ∀ b ∈ bases, IsUnit (b : ZMod n)) (es : List Int) (hlen : es.length ≤ bases.length) :
    ∃ r, representToBases bases es n lm = .ok r ∧ 0 ≤ r ∧ r < n ∧
      (r : ZMod n) = ((repU n lm bases es : (ZMod n)ˣ) : ZMod n) := by
  obtain ⟨r, h, a, b, c⟩ := representToBases_go_spec hn bases lm hb es 0 1 1 (by omega) (by omega)
    (by exact_mod_cast hn) (by simp)
  refine ⟨r, h, a, b, ?_⟩
  rw [c]; simp

/-! ### `RepresentToPublicKey`: the guard against negative oversized exponents -/

theorem negOversized_iff {lm : ℕ} {m : Int} :
    negOversized lm m = true ↔ (m < 0 ∧ bitLen m > lm) := by
  simp [negOversized]

theorem any_negOversized_eq_false_iff {lm : ℕ} {ms : List Int} :
    ms.any (negOversized lm) = false ↔ ∀ m ∈ ms, ¬ (m < 0 ∧ bitLen m > lm) := by
  rw [List.any_eq_false]
  constructor
  · intro h m hm hc
    exact h m hm (negOversized_iff.mpr hc)
  · intro h m hm hc
    exact h m hm (negOversized_iff.mp hc)

/-- non-negative exponents pass the guard. -/
theorem any_negOversized_of_nonneg {lm : ℕ} {ms : List Int} (h : ∀ m ∈ ms, 0 ≤ m) :
    ms.any (negOversized lm) = false :=
  any_negOversized_eq_false_iff.mpr fun m hm hc => absurd (h m hm) (by omega)

/-- the error return of `RepresentToPublicKey`: it comes before any base is indexed, so it is
    returned whatever the number of bases is. -/
theorem representToPublicKey_of_any {pk : PublicKey} {ms : List Int}
    (h : ms.any (negOversized pk.params.Lm) = true) : representToPublicKey pk ms = .ok none := by
  unfold representToPublicKey
  rw [if_pos h]
  rfl

theorem representToPublicKey_ok {pk : PublicKey} {ms : List Int} {r : Int}
    (h : ms.any (negOversized pk.params.Lm) = false)
    (hr : representToBases pk.r ms pk.n pk.params.Lm = .ok r) :
    representToPublicKey pk ms = .ok (some r) := by
  unfold representToPublicKey
  rw [if_neg (by rw [h]; exact Bool.false_ne_true), hr]
  rfl

theorem representToPublicKey_error {pk : PublicKey} {ms : List Int} {err : GoPanic}
    (h : ms.any (negOversized pk.params.Lm) = false)
    (hr : representToBases pk.r ms pk.n pk.params.Lm = .error err) :
    representToPublicKey pk ms = .error err := by
  unfold representToPublicKey
  rw [if_neg (by rw [h]; exact Bool.false_ne_true), hr]
  rfl

/-- inversion: a value returned by `RepresentToPublicKey` is the one of `RepresentToBases`, and
    no exponent of the block is negative and longer than `Lm`. -/
theorem representToPublicKey_ok_some {pk : PublicKey} {ms : List Int} {r : Int}
    (h : representToPublicKey pk ms = .ok (some r)) :
    ms.any (negOversized pk.params.Lm) = false ∧
      representToBases pk.r ms pk.n pk.params.Lm = .ok r := by
  cases hany : ms.any (negOversized pk.params.Lm) with
  | true =>
    rw [representToPublicKey_of_any hany] at h
    cases h
  | false =>
    refine ⟨rfl, ?_⟩
    cases hr : representToBases pk.r ms pk.n pk.params.Lm with
    | error err =>
      rw [representToPublicKey_error hany hr] at h
      cases h
    | ok r' =>
      rw [representToPublicKey_ok hany hr] at h
      cases h
      rfl

theorem representToPublicKey_join_ok {pk : PublicKey} {ms : List Int} {r : Int}
    (h : ms.any (negOversized pk.params.Lm) = false)
    (hr : representToBases pk.r ms pk.n pk.params.Lm = .ok r) :
    (representToPublicKey pk ms).toOption.join = some r := by
  rw [representToPublicKey_ok h hr]
  rfl

theorem representToPublicKey_join_of_any {pk : PublicKey} {ms : List Int}
    (h : ms.any (negOversized pk.params.Lm) = true) :
    (representToPublicKey pk ms).toOption.join = none := by
  rw [representToPublicKey_of_any h]
  rfl

/-- the issuer signs nothing when the guard of `RepresentToPublicKey` fires. -/
theorem clSignWith_of_negOversized {pk : PublicKey} {order u : Int} {ms : List Int} {v e : Int}
    (h : ms.any (negOversized pk.params.Lm) = true) : clSignWith pk order u ms v e = none := by
  unfold clSignWith
  rw [representToPublicKey_join_of_any h]
  rfl

/-- a block that the issuer signed has no negative message longer than `Lm`. -/
theorem clSignWith_some_guard {pk : PublicKey} {order u : Int} {ms : List Int} {v e : Int}
    {sig : CLSignature} (h : clSignWith pk order u ms v e = some sig) :
    ms.any (negOversized pk.params.Lm) = false := by
  cases hany : ms.any (negOversized pk.params.Lm) with
  | false => rfl
  | true =>
    rw [clSignWith_of_negOversized hany] at h
    cases h

noncomputable def keyshareU (n : ℕ) : Option Int → (ZMod n)ˣ
  | some p => zunit n p
  | none => 1

/-- `CLSignature.Verify` when the guard of `RepresentToPublicKey` fires: `false`, after the checks
    on `e` and the computation of `A^e`, whatever the number of bases is. -/
theorem clVerifyWith_of_negOversized (isPrime : Nat → Bool) (pk : PublicKey) (sig : CLSignature)
    (ms : List Int) {ae : Int}
    (hint : eInInterval pk.params sig.e = true) (hprime : isPrime sig.e.toNat = true)
    (hae : goExp sig.a sig.e pk.n = some ae)
    (hany : ms.any (negOversized pk.params.Lm) = true) :
    clVerifyWith isPrime pk sig ms = .ok false := by
  unfold clVerifyWith
  simp only [hint, hprime, hae, representToPublicKey_of_any hany, deref, bind, Except.bind, pure,
    Except.pure, Bool.not_true, Bool.false_eq_true, if_false]

theorem clVerifyWith_iff (isPrime : Nat → Bool) (pk : PublicKey) (sig : CLSignature) (ms : List Int)
    (hN : pk.n = n) (hn : 1 < n) (hz0 : 0 ≤ pk.z) (hz1 : pk.z < pk.n)
    (hz : IsUnit (pk.z : ZMod n)) (hs : IsUnit (pk.s : ZMod n))
    (hr : ∀ b ∈ pk.r, IsUnit (b : ZMod n)) (ha : IsUnit (sig.a : ZMod n))
    (hp : ∀ p, sig.keyshareP = some p → IsUnit (p : ZMod n))
    (hlen : ms.length ≤ pk.r.length)
    (hint : eInInterval pk.params sig.e = true) (hprime : isPrime sig.e.toNat = true) :
    ∃ b, clVerifyWith isPrime pk sig ms = .ok b ∧
      (b = true ↔ (ms.any (negOversized pk.params.Lm) = false ∧
        zunit n sig.a ^ sig.e * (repU n pk.params.Lm pk.r ms * keyshareU n sig.keyshareP) *
        zunit n pk.s ^ sig.v = zunit n pk.z)) := by
  obtain ⟨ae, hae, ae0, ae1, aec⟩ := goExp_unit hn ha sig.e
  obtain ⟨sv, hsv, sv0, sv1, svc⟩ := goExp_unit hn hs sig.v
  obtain ⟨r, hrr, r0, r1, rc⟩ := representToBases_spec hn pk.r pk.params.Lm hr ms hlen
  cases hany : ms.any (negOversized pk.params.Lm) with
  | true =>
    rw [← hN] at hae
    exact ⟨false, clVerifyWith_of_negOversized isPrime pk sig ms hint hprime hae hany, by simp⟩
  | false =>
  have hrp : representToPublicKey pk ms = .ok (some r) :=
    representToPublicKey_ok hany (by rw [hN]; exact hrr)
  unfold clVerifyWith
  simp only [hint, hprime, hN, hae, hrp, modPow, hsv, deref, bind, Except.bind, pure, Except.pure]
  simp only [Bool.not_true, Bool.false_eq_true, if_false]
  refine ⟨_, rfl, ?_⟩
  rw [decide_eq_true_iff, true_and]
  have hn0 : 0 < n := by omega
  rw [hN] at hz1
  rw [← cast_eq_iff hz0 hz1 (emod_range hn0 _).1 (emod_range hn0 _).2, cast_emod, ← zunit_val hz,
    eq_comm, ← Units.val_inj]
  obtain ⟨a, e, v, kp⟩ := sig
  cases kp with
  | none =>
    simp only [keyshareU, mul_one]
    push_cast
    rw [aec, rc, svc]
  | some p =>
    simp only [keyshareU]
    push_cast
    rw [aec, rc, svc, zunit_val (hp p rfl)]
theorem clSignWith_spec (pk : PublicKey) (order u : Int) (ms : List Int) (v e : Int)
    (hN : pk.n = n) (hn : 1 < n)
    (hz : IsUnit (pk.z : ZMod n)) (hs : IsUnit (pk.s : ZMod n))
    (hr : ∀ b ∈ pk.r, IsUnit (b : ZMod n)) (hu : IsUnit (u : ZMod n))
    (hlen : ms.length ≤ pk.r.length) (ho : 1 < order) {sig : CLSignature}
    (h : clSignWith pk order u ms v e = some sig) :
    sig.e = e ∧ sig.v = v ∧ sig.keyshareP = none ∧ 0 ≤ sig.a ∧ sig.a < n ∧
      ∃ d k : Int, d * e = 1 + k * order ∧
        (sig.a : ZMod n) =
          (((zunit n pk.z / (zunit n pk.s ^ v * repU n pk.params.Lm pk.r ms * zunit n u)) ^ d :
            (ZMod n)ˣ) : ZMod n) := by
  obtain ⟨sv, hsv, sv0, sv1, svc⟩ := goExp_unit hn hs v
  obtain ⟨r, hrr, r0, r1, rc⟩ := representToBases_spec hn pk.r pk.params.Lm hr ms hlen
  have hrp := representToPublicKey_join_ok (clSignWith_some_guard h) (by rw [hN]; exact hrr)
  unfold clSignWith at h
  simp only [hN, hrp, hsv, Option.bind_eq_bind, Option.bind_some,
    Option.bind_eq_some_iff, Option.pure_def, Option.some.injEq] at h
  obtain ⟨inv, hinv, d, hd, a, ha, rfl⟩ := h
  have hn0 : 0 < n := by omega
  -- numerator
  have hnum : ((sv * r * u % (n : Int) : Int) : ZMod n) =
      ((zunit n pk.s ^ v * repU n pk.params.Lm pk.r ms * zunit n u : (ZMod n)ˣ) : ZMod n) := by
    rw [cast_emod]; push_cast; rw [svc, rc, zunit_val hu]
  obtain ⟨inv', hinv', i0, i1, ic⟩ := commonModInverse_unit hn (isUnit_of_cast hnum)
  rw [hinv] at hinv'
  obtain rfl := Option.some.inj hinv'
  rw [zunit_of_cast hnum] at ic
  -- q
  have hq : ((pk.z * inv % (n : Int) : Int) : ZMod n) =
      ((zunit n pk.z / (zunit n pk.s ^ v * repU n pk.params.Lm pk.r ms * zunit n u) : (ZMod n)ˣ) :
        ZMod n) := by
    rw [cast_emod, div_eq_mul_inv]; push_cast; rw [ic, zunit_val hz]
  obtain ⟨a0, a1, ac⟩ := goExp_unit_eq hn (isUnit_of_cast hq) ha
  rw [zunit_of_cast hq] at ac
  obtain ⟨d1, d2, d3⟩ := commonModInverse_some ho hd
  refine ⟨rfl, rfl, rfl, a0, a1, d, (e * d) / order, ?_, ac⟩
  have := Int.emod_add_mul_ediv (e * d) order
  rw [d3] at this
  linear_combination -this
theorem repU_zpow_order (lm : ℕ) (bases exps : List Int) (k : Int)
    (h : ∀ b ∈ bases, zunit n b ^ k = 1) : repU n lm bases exps ^ k = 1 := by
  apply Alg.rep_zpow_eq_one
  intro p hp
  exact h p.1 (List.of_mem_zip hp).1

/-- the hypotheses on an issuer key used by the CL theorems: modulus `> 1`, `Z` reduced, and all
    bases in a subgroup of exponent dividing `order` (for a real key: `QR_n`, `order = p'q'`). -/
structure PublicKey.InGroup (pk : PublicKey) (order : Int) : Prop where
  n_gt : 1 < pk.n
  z_nonneg : 0 ≤ pk.z
  z_lt : pk.z < pk.n
  order_gt : 1 < order
  bases : ∀ b ∈ pk.s :: pk.z :: pk.r, goExp b order pk.n = some 1

/-- the block the verifier multiplies in: `R` or `R · P` (product over ℤ, not reduced). -/
def blockWithKeyshare (r : Int) : Option Int → Int
  | some p => r * p
  | none => r

/-- `CLSignature.Verify` when all partial computations succeed (pure computation) and the guard
    of `RepresentToPublicKey` lets the block pass. -/
theorem clVerifyWith_of_parts (isPrime : Nat → Bool) (pk : PublicKey) (sig : CLSignature) (ms : List Int)
    {ae r sv : Int}
    (hint : eInInterval pk.params sig.e = true) (hprime : isPrime sig.e.toNat = true)
    (hae : goExp sig.a sig.e pk.n = some ae)
    (hany : ms.any (negOversized pk.params.Lm) = false)
    (hr : representToBases pk.r ms pk.n pk.params.Lm = .ok r)
    (hsv : goExp pk.s sig.v pk.n = some sv) :
    clVerifyWith isPrime pk sig ms =
      .ok (decide (pk.z = ae * blockWithKeyshare r sig.keyshareP * sv % pk.n)) := by
  unfold clVerifyWith
  simp only [hint, hprime, hae, representToPublicKey_ok hany hr, modPow, hsv, deref, bind,
    Except.bind, pure, Except.pure, Bool.not_true, Bool.false_eq_true, if_false]
  obtain ⟨a, e, v, kp⟩ := sig
  cases kp <;> rfl

/-- inversion: what an accepting `CLSignature.Verify` has checked. -/
theorem clVerifyWith_ok_true (isPrime : Nat → Bool) (pk : PublicKey) (sig : CLSignature) (ms : List Int)
    (h : clVerifyWith isPrime pk sig ms = .ok true) :
    eInInterval pk.params sig.e = true ∧ isPrime sig.e.toNat = true ∧
    ∃ ae r sv, goExp sig.a sig.e pk.n = some ae ∧
      representToBases pk.r ms pk.n pk.params.Lm = .ok r ∧
      goExp pk.s sig.v pk.n = some sv ∧
      pk.z = ae * blockWithKeyshare r sig.keyshareP * sv % pk.n := by
  cases hint : eInInterval pk.params sig.e with
  | false =>
    unfold clVerifyWith at h
    simp [hint] at h
    cases h
  | true =>
  cases hprime : isPrime sig.e.toNat with
  | false =>
    unfold clVerifyWith at h
    simp [hint, hprime] at h
    cases h
  | true =>
  refine ⟨rfl, rfl, ?_⟩
  cases hae : goExp sig.a sig.e pk.n with
  | none =>
    unfold clVerifyWith at h
    simp [hint, hprime, hae, deref, bind, Except.bind] at h
  | some ae =>
  cases hany : ms.any (negOversized pk.params.Lm) with
  | true =>
    rw [clVerifyWith_of_negOversized isPrime pk sig ms hint hprime hae hany] at h
    cases h
  | false =>
  cases hr : representToBases pk.r ms pk.n pk.params.Lm with
  | error err =>
    unfold clVerifyWith at h
    simp [hint, hprime, hae, representToPublicKey_error hany hr, deref, bind, Except.bind, pure,
      Except.pure] at h
  | ok r =>
  cases hsv : goExp pk.s sig.v pk.n with
  | none =>
    unfold clVerifyWith at h
    simp [hint, hprime, hae, representToPublicKey_ok hany hr, hsv, modPow, deref, bind,
      Except.bind, pure, Except.pure] at h
  | some sv =>
    rw [clVerifyWith_of_parts isPrime pk sig ms hint hprime hae hany hr hsv] at h
    exact ⟨ae, r, sv, rfl, rfl, rfl, of_decide_eq_true (Except.ok.inj h)⟩

/-- inversion, the guard: an accepted block has no negative message longer than `Lm`
    (`RepresentToPublicKey` returned no error). -/
theorem clVerifyWith_ok_true_guard (isPrime : Nat → Bool) (pk : PublicKey) (sig : CLSignature)
    (ms : List Int) (h : clVerifyWith isPrime pk sig ms = .ok true) :
    ms.any (negOversized pk.params.Lm) = false := by
  cases hint : eInInterval pk.params sig.e with
  | false =>
    unfold clVerifyWith at h
    simp [hint] at h
    cases h
  | true =>
  cases hprime : isPrime sig.e.toNat with
  | false =>
    unfold clVerifyWith at h
    simp [hint, hprime] at h
    cases h
  | true =>
  cases hae : goExp sig.a sig.e pk.n with
  | none =>
    unfold clVerifyWith at h
    simp [hint, hprime, hae, deref, bind, Except.bind] at h
  | some ae =>
  cases hany : ms.any (negOversized pk.params.Lm) with
  | true =>
    rw [clVerifyWith_of_negOversized isPrime pk sig ms hint hprime hae hany] at h
    cases h
  | false => rfl
theorem eInInterval_pos {p : SysParams} {e : Int} (h : eInInterval p e = true) : 0 < e := by
  unfold eInInterval at h
  simp only [Bool.and_eq_true, decide_eq_true_eq] at h
  have : (0 : Int) < 2 ^ (p.Le - 1) := by positivity
  omega

/-- an accepted signature, seen in the unit group: `A`, the block and `Z` are units and the
    verification equation holds there. Only `Z` and `S` are assumed invertible. -/
theorem clVerifyWith_units (isPrime : Nat → Bool) (pk : PublicKey) (sig : CLSignature) (ms : List Int)
    (hN : pk.n = n) (hn : 1 < n) (hz : IsUnit (pk.z : ZMod n)) (hs : IsUnit (pk.s : ZMod n))
    (h : clVerifyWith isPrime pk sig ms = .ok true) :
    ∃ r, representToBases pk.r ms pk.n pk.params.Lm = .ok r ∧
      IsUnit (sig.a : ZMod n) ∧ IsUnit ((blockWithKeyshare r sig.keyshareP : Int) : ZMod n) ∧
      zunit n sig.a ^ sig.e * zunit n (blockWithKeyshare r sig.keyshareP) * zunit n pk.s ^ sig.v =
        zunit n pk.z := by
  obtain ⟨hint, hprime, ae, r, sv, hae, hr, hsv, heq⟩ := clVerifyWith_ok_true isPrime pk sig ms h
  refine ⟨r, hr, ?_⟩
  rw [hN] at hae hsv heq
  have hn0 : 0 < n := by omega
  have he := eInInterval_pos hint
  have haec := goExp_cast hn0 sig.a sig.e (by omega) hae
  obtain ⟨_, _, svc⟩ := goExp_unit_eq hn hs hsv
  have hzc : (pk.z : ZMod n) = (ae : ZMod n) * (blockWithKeyshare r sig.keyshareP : Int) * sv := by
    conv_lhs => rw [heq]
    rw [cast_emod]; push_cast; rfl
  have hu : IsUnit ((ae : ZMod n) * ((blockWithKeyshare r sig.keyshareP : Int) : ZMod n) * sv) :=
    hzc ▸ hz
  have hu1 := isUnit_of_mul_isUnit_left hu
  have huae := isUnit_of_mul_isUnit_left hu1
  have hub := isUnit_of_mul_isUnit_right hu1
  have hua : IsUnit (sig.a : ZMod n) := by
    rw [haec] at huae
    exact (isUnit_pow_iff (by omega)).mp huae
  refine ⟨hua, hub, ?_⟩
  apply Units.ext
  push_cast
  rw [zunit_val hz, zunit_val hub, hzc, ← svc, haec]
  congr 2
  obtain ⟨k, hk⟩ := Int.eq_ofNat_of_zero_le (by omega : 0 ≤ sig.e)
  rw [hk, zpow_natCast, Units.val_pow_eq_pow_val, zunit_val hua, Int.toNat_natCast]

theorem clRandomize_verifies_aux (isPrime : Nat → Bool) (pk : PublicKey) (sig : CLSignature)
    (ms : List Int) (rr : Int)
    (hN : pk.n = n) (hn : 1 < n) (hz0 : 0 ≤ pk.z) (hz1 : pk.z < pk.n)
    (hz : IsUnit (pk.z : ZMod n)) (hs : IsUnit (pk.s : ZMod n))
    (h : clVerifyWith isPrime pk sig ms = .ok true) :
    clVerifyWith isPrime pk (clRandomize pk sig rr) ms = .ok true := by
  obtain ⟨hint, hprime, _⟩ := clVerifyWith_ok_true isPrime pk sig ms h
  have hany := clVerifyWith_ok_true_guard isPrime pk sig ms h
  obtain ⟨r, hr, hua, hub, heq⟩ := clVerifyWith_units isPrime pk sig ms hN hn hz hs h
  have hn0 : 0 < n := by omega
  have heq' := Alg.cl_randomize rr heq
  -- the randomised signature
  obtain ⟨sr, hsr, _, _, src⟩ := goExp_unit hn hs rr
  have ha' : (((clRandomize pk sig rr).a : Int) : ZMod n) =
      ((zunit n sig.a * zunit n pk.s ^ rr : (ZMod n)ˣ) : ZMod n) := by
    simp only [clRandomize, hN, hsr, Option.getD_some]
    rw [cast_emod]; push_cast; rw [src, zunit_val hua]
  obtain ⟨ae', hae', _, _, aec'⟩ := goExp_unit hn (isUnit_of_cast ha') sig.e
  rw [zunit_of_cast ha'] at aec'
  obtain ⟨sv', hsv', _, _, svc'⟩ := goExp_unit hn hs (sig.v - sig.e * rr)
  rw [← hN] at hae' hsv'
  have := clVerifyWith_of_parts isPrime pk (clRandomize pk sig rr) ms (ae := ae') (r := r) (sv := sv')
    hint hprime hae' hany hr hsv'
  rw [this]
  congr 1
  rw [decide_eq_true_iff]
  simp only [clRandomize]
  rw [hN] at hz1 ⊢
  apply eq_of_cast_eq hz0 hz1 (emod_range hn0 _).1 (emod_range hn0 _).2
  rw [cast_emod, ← zunit_val hz, ← heq']
  push_cast
  rw [aec', svc', zunit_val hub]
/-- results of `RepresentToBases` are reduced (or the initial `1`). -/
theorem representToBases_go_range (hn : 0 < n) (bases : List Int) (lm : ℕ) :
    ∀ (es : List Int) (i : ℕ) (r r' : Int), 0 ≤ r → r < n →
      representToBases.go bases n lm i es r = .ok r' → 0 ≤ r' ∧ r' < n := by
  intro es
  induction es with
  | nil =>
    intro i r r' h0 h1 h
    obtain rfl := Except.ok.inj h
    exact ⟨h0, h1⟩
  | cons e es ih =>
    intro i r r' h0 h1 h
    rw [representToBases_go_cons] at h
    cases hb : idx "bases[i]" bases (i : Int) with
    | error err => simp [hb, bind, Except.bind] at h
    | ok b =>
      cases ht : goExp b (attrExp lm e) n with
      | none => simp [hb, ht, bind, Except.bind, throw, throwThe, MonadExceptOf.throw] at h
      | some t =>
        simp only [hb, ht, bind, Except.bind] at h
        exact ih _ _ _ (emod_range hn _).1 (emod_range hn _).2 h

theorem representToBases_range (hn : 1 < n) {bases es : List Int} {lm : ℕ} {r : Int}
    (h : representToBases bases es n lm = .ok r) : 0 ≤ r ∧ r < n :=
  representToBases_go_range (by omega) bases lm es 0 1 r (by omega) (by exact_mod_cast hn) h

/-- the issuer's signing computation succeeds on a key whose bases are invertible, for `e`
    invertible modulo `order`, on a block without a negative message longer than `Lm` (for such a
    message `RepresentToPublicKey` returns its error and nothing is signed:
    `clSignWith_of_negOversized`). -/
theorem clSignWith_isSome (pk : PublicKey) (order u : Int) (ms : List Int) (v e : Int)
    (hN : pk.n = n) (hn : 1 < n)
    (hz : IsUnit (pk.z : ZMod n)) (hs : IsUnit (pk.s : ZMod n))
    (hr : ∀ b ∈ pk.r, IsUnit (b : ZMod n)) (hu : IsUnit (u : ZMod n))
    (hlen : ms.length ≤ pk.r.length) (hany : ms.any (negOversized pk.params.Lm) = false)
    (ho : 0 < order) (he : Int.gcd e order = 1) :
    ∃ sig, clSignWith pk order u ms v e = some sig := by
  obtain ⟨sv, hsv, sv0, sv1, svc⟩ := goExp_unit hn hs v
  obtain ⟨r, hrr, r0, r1, rc⟩ := representToBases_spec hn pk.r pk.params.Lm hr ms hlen
  have hrp := representToPublicKey_join_ok hany (by rw [hN]; exact hrr)
  have hnum : ((sv * r * u % (n : Int) : Int) : ZMod n) =
      ((zunit n pk.s ^ v * repU n pk.params.Lm pk.r ms * zunit n u : (ZMod n)ˣ) : ZMod n) := by
    rw [cast_emod]; push_cast; rw [svc, rc, zunit_val hu]
  obtain ⟨inv, hinv, i0, i1, ic⟩ := commonModInverse_unit hn (isUnit_of_cast hnum)
  have hq : ((pk.z * inv % (n : Int) : Int) : ZMod n) =
      ((zunit n pk.z * (zunit n (sv * r * u % (n : Int)))⁻¹ : (ZMod n)ˣ) : ZMod n) := by
    rw [cast_emod]; push_cast; rw [ic, zunit_val hz]
  cases hd : commonModInverse e order with
  | none => exact absurd he ((commonModInverse_none_iff e order ho).mp hd)
  | some d =>
    obtain ⟨a, ha, _⟩ := goExp_unit hn (isUnit_of_cast hq) d
    refine ⟨{ a := a, e := e, v := v }, ?_⟩
    unfold clSignWith
    simp only [hN, hrp, hsv, Option.bind_eq_bind, Option.bind_some, hinv, hd, ha,
      Option.pure_def]
/-- a signature produced by the issuer carries no keyshare factor and the given `e`, `v`. -/
theorem clSignWith_keyshareP {pk : PublicKey} {order u : Int} {ms : List Int} {v e : Int}
    {sig : CLSignature} (h : clSignWith pk order u ms v e = some sig) :
    sig.keyshareP = none ∧ sig.e = e ∧ sig.v = v := by
  unfold clSignWith at h
  simp only [Option.bind_eq_bind, Option.bind_eq_some_iff, Option.pure_def, Option.some.injEq] at h
  obtain ⟨_, _, _, _, _, _, _, _, _, _, rfl⟩ := h
  exact ⟨rfl, rfl, rfl⟩

/-! ### a toy key for non-vacuity examples: `n = 7·11`, `QR_77` has exponent `p'q' = 3·5 = 15` -/

/-- toy parameters: `e ∈ [8, 12]`; `256 + LvPrime ≤ LvPrimeCommit`. -/
def toyParamsCL : SysParams :=
  { LePrime := 3, Lh := 8, Lm := 8, Ln := 7, Lstatzk := 1, Le := 4, LeCommit := 12, LmCommit := 17,
    LRA := 8, LsCommit := 18, Lv := 20, LvCommit := 29, LvPrime := 8, LvPrimeCommit := 300 }

def toyKey : PublicKey :=
  { n := 77, z := 9, s := 4, g := none, h := none, r := [16, 25, 36], counter := 0,
    params := toyParamsCL, hasEcdsa := false, issuer := "toy" }

theorem toyKey_inGroup : toyKey.InGroup 15 := by
  refine ⟨by decide, by decide, by decide, by decide, ?_⟩
  intro b hb
  rw [goExp_nonneg b 15 toyKey.n (by decide) (by decide)]
  simp only [toyKey, List.mem_cons, List.not_mem_nil, or_false] at hb
  rcases hb with rfl | rfl | rfl | rfl | rfl <;> decide

end Gabi
