/-
  GabiProofs.MiscLemmas — helper lemmas for the property files C07 (randomiser reuse),
  C11 (non-revocation proofs) and C14 (keyshare protocol).
-/
import GabiModel.Reuse
import GabiModel.Proofs
import GabiModel.Keyshare
import GabiProofs.NumLemmas
import GabiProofs.GroupAlgebra
import GabiProofs.ListLogic
import GabiProofs.Bridge
import Mathlib.Data.List.Nodup
import Mathlib.Data.List.Pairwise
import Mathlib.Data.List.Forall2
import Mathlib.Tactic.Ring
import Mathlib.Tactic.NormNum
import Mathlib.Tactic.LinearCombination
import Mathlib.Tactic.Linarith
import Mathlib.Algebra.Group.Basic
import Mathlib.Algebra.Group.Prod
import Mathlib.Algebra.Group.TypeTags.Basic

namespace Gabi.Misc
open Gabi

/-! ## C07: the two-transcript extractor -/

theorem extract_eq_some_iff (c1 s1 c2 s2 m' : Int) :
    extract c1 s1 c2 s2 = some m' ↔
      c1 ≠ c2 ∧ (c1 - c2) ∣ (s1 - s2) ∧ m' = (s1 - s2) / (c1 - c2) := by
  unfold extract
  by_cases hc : c1 = c2
  · simp [hc]
  · rw [if_neg hc]
    by_cases hd : (s1 - s2) % (c1 - c2) = 0
    · rw [if_pos hd]
      have : (c1 - c2) ∣ (s1 - s2) := Int.dvd_of_emod_eq_zero hd
      constructor
      · intro h; exact ⟨hc, this, (Option.some.inj h).symm⟩
      · rintro ⟨_, _, h⟩; rw [h]
    · rw [if_neg hd]
      constructor
      · intro h; exact absurd h (by simp)
      · rintro ⟨_, h, _⟩; exact absurd (Int.emod_eq_zero_of_dvd h) hd

theorem extract_eq_none_iff (c1 s1 c2 s2 : Int) :
    extract c1 s1 c2 s2 = none ↔ c1 = c2 ∨ ¬ (c1 - c2) ∣ (s1 - s2) := by
  unfold extract
  by_cases hc : c1 = c2
  · simp [hc]
  · rw [if_neg hc]
    by_cases hd : (s1 - s2) % (c1 - c2) = 0
    · rw [if_pos hd]
      have : (c1 - c2) ∣ (s1 - s2) := Int.dvd_of_emod_eq_zero hd
      simp [hc, this]
    · rw [if_neg hd]
      have : ¬ (c1 - c2) ∣ (s1 - s2) := fun h => hd (Int.emod_eq_zero_of_dvd h)
      simp [this]

/-- for honest responses the extractor's quotient is the secret iff the randomisers agree. -/
theorem extract_honest_iff (c1 c2 r1 r2 m : Int) (hc : c1 ≠ c2) :
    extract c1 (r1 + c1 * m) c2 (r2 + c2 * m) = some m ↔ r1 = r2 := by
  have hd : c1 - c2 ≠ 0 := sub_ne_zero.mpr hc
  rw [extract_eq_some_iff]
  have key : r1 + c1 * m - (r2 + c2 * m) = (r1 - r2) + (c1 - c2) * m := by ring
  constructor
  · rintro ⟨_, hdvd, hq⟩
    have h2 : (c1 - c2) * ((r1 + c1 * m - (r2 + c2 * m)) / (c1 - c2)) =
        r1 + c1 * m - (r2 + c2 * m) := Int.mul_ediv_cancel' hdvd
    rw [← hq, key] at h2
    linarith
  · intro h
    subst h
    refine ⟨hc, ?_, ?_⟩
    · rw [key]; simp
    · rw [key]; simp [hd]


/-! ## C14: the keyshare server's release rule -/

theorem mapM_option_eq_some_iff {α β} (f : α → Option β) :
    ∀ (l : List α) (r : List β), l.mapM f = some r ↔ List.Forall₂ (fun a b => f a = some b) l r
  | [], r => by
    rw [List.mapM_nil]
    constructor
    · intro h; cases Option.some.inj h; exact List.Forall₂.nil
    · intro h; cases h; rfl
  | a :: l, r => by
    rw [List.mapM_cons]
    cases hfa : f a with
    | none =>
      constructor
      · intro h; exact absurd h (by simp)
      · intro h; cases h with | cons h1 _ => rw [hfa] at h1; exact absurd h1 (by simp)
    | some b =>
      cases hl : l.mapM f with
      | none =>
        constructor
        · intro h; exact absurd h (by simp)
        · intro h
          cases h with
          | cons h1 h2 =>
            rw [← mapM_option_eq_some_iff f l] at h2
            rw [hl] at h2; exact absurd h2 (by simp)
      | some r' =>
        have ih := (mapM_option_eq_some_iff f l r').mp hl
        constructor
        · intro h
          have : b :: r' = r := by simpa using h
          subst this
          exact List.Forall₂.cons hfa ih
        · intro h
          cases h with
          | cons h1 h2 =>
            rw [hfa] at h1
            cases Option.some.inj h1
            have := (mapM_option_eq_some_iff f l _).mpr h2
            rw [hl] at this
            cases Option.some.inj this
            rfl

theorem mapM_option_eq_some_map {α β} (f : α → Option β) (g : α → β) (l : List α)
    (h : ∀ a ∈ l, f a = some (g a)) : l.mapM f = some (l.map g) := by
  rw [mapM_option_eq_some_iff]
  induction l with
  | nil => exact List.Forall₂.nil
  | cons a l ih =>
    exact List.Forall₂.cons (h a (by simp)) (ih fun x hx => h x (by simp [hx]))


/-- the per-input challenge contribution the keyshare server computes. -/
def ksContrib (keys : List (String × PublicKey)) (rnd : Int) (i : KsInput) : Option (List Int) :=
  match i.keyId with
  | none => some (i.value :: i.commitment :: i.others)
  | some id => do
    let pk ← keys.lookup id
    let r0 ← pk.r[0]?
    let w ← goExp r0 rnd pk.n
    some (i.value :: (i.commitment * w % pk.n) :: i.others)

def ksUnknownKey (keys : List (String × PublicKey)) (inputs : List KsInput) : Bool :=
  inputs.any (fun i => match i.keyId with
      | some id => (keys.lookup id).isNone
      | none => false)

theorem keyshareResponse_eq (keys : List (String × PublicKey)) (secret rnd : Int) (hm : Bool)
    (ctx : Option Int) (nonce resp : Int) (issig : Bool) (inputs : List KsInput) :
    keyshareResponse keys secret rnd hm ctx nonce resp issig inputs =
      if ksUnknownKey keys inputs then none else
      match inputs.mapM (ksContrib keys rnd) with
      | none => none
      | some contribs =>
        if !hm then none else
        some (createChallenge (ctx.getD 1) nonce contribs.flatten issig,
              rnd + (createChallenge (ctx.getD 1) nonce contribs.flatten issig : Int) * secret + resp) := by
  unfold keyshareResponse ksUnknownKey
  dsimp only
  generalize (inputs.any _) = b
  generalize hx : List.mapM (m := Option) (β := List Int) _ inputs = x
  have hx' : inputs.mapM (ksContrib keys rnd) = x := hx
  rw [hx']
  cases b <;> cases x <;> cases hm <;> rfl
theorem ksUnknownKey_eq_false_iff (keys : List (String × PublicKey)) (inputs : List KsInput) :
    ksUnknownKey keys inputs = false ↔
      ∀ i ∈ inputs, ∀ id, i.keyId = some id → (keys.lookup id).isSome = true := by
  unfold ksUnknownKey
  rw [List.any_eq_false]
  constructor
  · intro h i hi id hid
    have := h i hi
    rw [hid] at this
    cases hl : List.lookup id keys with
    | none => simp only [hl] at this; simp at this
    | some _ => rfl
  · intro h i hi
    cases hid : i.keyId with
    | none => simp
    | some id =>
      have := h i hi id hid
      cases hl : List.lookup id keys with
      | none => rw [hl] at this; simp at this
      | some _ => simp [hl]

/-- full characterisation of a released response. -/
theorem keyshareResponse_eq_some_iff (keys : List (String × PublicKey)) (secret rnd : Int) (hm : Bool)
    (ctx : Option Int) (nonce resp : Int) (issig : Bool) (inputs : List KsInput) (c : Nat) (s : Int) :
    keyshareResponse keys secret rnd hm ctx nonce resp issig inputs = some (c, s) ↔
      hm = true ∧
      (∀ i ∈ inputs, ∀ id, i.keyId = some id → (keys.lookup id).isSome = true) ∧
      ∃ contribs, inputs.mapM (ksContrib keys rnd) = some contribs ∧
        c = createChallenge (ctx.getD 1) nonce contribs.flatten issig ∧
        s = rnd + (c : Int) * secret + resp := by
  rw [keyshareResponse_eq, ← ksUnknownKey_eq_false_iff]
  cases hu : ksUnknownKey keys inputs with
  | true => simp
  | false =>
    cases hx : inputs.mapM (ksContrib keys rnd) with
    | none => simp
    | some contribs =>
      cases hm with
      | false => simp
      | true =>
        simp only [Bool.not_true, Bool.false_eq_true, if_false, Option.some.injEq, Prod.mk.injEq,
          true_and]
        constructor
        · rintro ⟨h1, h2⟩
          exact ⟨contribs, rfl, h1.symm, by rw [← h2, ← h1]⟩
        · rintro ⟨cs, hcs, h1, h2⟩
          cases hcs
          exact ⟨h1.symm, by rw [h2, h1]⟩

theorem keyshareResponse_hash_mismatch (keys : List (String × PublicKey)) (secret rnd : Int)
    (ctx : Option Int) (nonce resp : Int) (issig : Bool) (inputs : List KsInput) :
    keyshareResponse keys secret rnd false ctx nonce resp issig inputs = none := by
  rw [keyshareResponse_eq]
  split
  · rfl
  · split <;> rfl

theorem keyshareResponse_unknown_key (keys : List (String × PublicKey)) (secret rnd : Int) (hm : Bool)
    (ctx : Option Int) (nonce resp : Int) (issig : Bool) (inputs : List KsInput)
    (i : KsInput) (hi : i ∈ inputs) (id : String) (hid : i.keyId = some id)
    (hk : keys.lookup id = none) :
    keyshareResponse keys secret rnd hm ctx nonce resp issig inputs = none := by
  rw [keyshareResponse_eq]
  have : ksUnknownKey keys inputs = true := by
    unfold ksUnknownKey
    rw [List.any_eq_true]
    exact ⟨i, hi, by rw [hid]; simp only [hk]; rfl⟩
  rw [this]; rfl

/-- what a key-bound input contributes when the key is known and the exponentiation succeeds. -/
theorem ksContrib_some_key {keys : List (String × PublicKey)} {rnd : Int} {i : KsInput} {id : String}
    {pk : PublicKey} {r0 w : Int} (hid : i.keyId = some id) (hk : keys.lookup id = some pk)
    (hr : pk.r[0]? = some r0) (hw : goExp r0 rnd pk.n = some w) :
    ksContrib keys rnd i = some (i.value :: (i.commitment * w % pk.n) :: i.others) := by
  unfold ksContrib
  rw [hid]
  simp only [hk, hr, hw, Option.bind_eq_bind, Option.bind_some]

theorem ksContrib_none_key {keys : List (String × PublicKey)} {rnd : Int} {i : KsInput}
    (hid : i.keyId = none) :
    ksContrib keys rnd i = some (i.value :: i.commitment :: i.others) := by
  unfold ksContrib
  rw [hid]

/-- the relation "the total commitment of input `i` is `W`": the user's commitment times the
    server's `R₀^rnd` for key-bound inputs, the commitment itself otherwise. -/
def ksTotal (keys : List (String × PublicKey)) (rnd : Int) (i : KsInput) (W : Int) : Prop :=
  match i.keyId with
  | none => W = i.commitment
  | some id => ∃ pk r0 w, keys.lookup id = some pk ∧ pk.r[0]? = some r0 ∧
      goExp r0 rnd pk.n = some w ∧ W = i.commitment * w % pk.n

theorem ksContrib_of_total {keys : List (String × PublicKey)} {rnd : Int} {i : KsInput} {W : Int}
    (h : ksTotal keys rnd i W) : ksContrib keys rnd i = some (i.value :: W :: i.others) := by
  unfold ksTotal at h
  cases hid : i.keyId with
  | none => rw [hid] at h; subst h; exact ksContrib_none_key hid
  | some id =>
    rw [hid] at h
    obtain ⟨pk, r0, w, hk, hr, hw, hW⟩ := h
    subst hW
    exact ksContrib_some_key hid hk hr hw

theorem keyshareResponse_same_challenge (keys : List (String × PublicKey)) (secret rnd : Int)
    (ctx : Option Int) (nonce resp : Int) (issig : Bool) (inputs : List KsInput)
    (total : KsInput → Int) (ht : ∀ i ∈ inputs, ksTotal keys rnd i (total i)) :
    keyshareResponse keys secret rnd true ctx nonce resp issig inputs =
      some (createChallenge (ctx.getD 1) nonce
              (inputs.map fun i => i.value :: total i :: i.others).flatten issig,
            rnd + (createChallenge (ctx.getD 1) nonce
              (inputs.map fun i => i.value :: total i :: i.others).flatten issig : Int) * secret + resp) := by
  rw [keyshareResponse_eq_some_iff]
  refine ⟨rfl, ?_, _, mapM_option_eq_some_map _ _ _ (fun i hi => ksContrib_of_total (ht i hi)), rfl, rfl⟩
  intro i hi id hid
  have := ht i hi
  unfold ksTotal at this
  rw [hid] at this
  obtain ⟨pk, _, _, hk, _⟩ := this
  rw [hk]; rfl


/-! ## C07: provenance of randomisers — a supply is a strictly increasing counter -/

/-- `draw s`: hand out the current index, advance the counter. -/
def draw (s : Nat) : Nat × Nat := (s, s + 1)

/-- `k` consecutive draws from state `s`: the indices handed out and the final state. -/
def drawMany : Nat → Nat → List Nat × Nat
  | 0, s => ([], s)
  | k + 1, s => let (i, s') := draw s; let (is, s'') := drawMany k s'; (i :: is, s'')

/-- a schedule says which consumer draws next; `runSchedule` returns who got which index. -/
def runSchedule {κ} : List κ → Nat → List (κ × Nat) × Nat
  | [], s => ([], s)
  | k :: ks, s => let (i, s') := draw s; let (r, s'') := runSchedule ks s'; ((k, i) :: r, s'')

/-- the indices consumer `k` received. -/
def indicesOf {κ} [DecidableEq κ] (k : κ) (r : List (κ × Nat)) : List Nat :=
  (r.filter fun p => p.1 = k).map (·.2)

theorem runSchedule_eq {κ} (ks : List κ) (s : Nat) :
    runSchedule ks s = (ks.zip (List.range' s ks.length), s + ks.length) := by
  induction ks generalizing s with
  | nil => rfl
  | cons k ks ih =>
    simp only [runSchedule, draw, ih, List.length_cons, List.range'_succ, List.zip_cons_cons]
    congr 1; omega

theorem drawMany_eq (k s : Nat) : drawMany k s = (List.range' s k, s + k) := by
  induction k generalizing s with
  | zero => rfl
  | succ k ih =>
    simp only [drawMany, draw, ih, List.range'_succ]
    congr 1; omega

theorem drawMany_nodup (k s : Nat) : (drawMany k s).1.Nodup := by
  rw [drawMany_eq]; exact List.nodup_range'

theorem drawMany_ge (k s : Nat) : ∀ i ∈ (drawMany k s).1, s ≤ i ∧ i < (drawMany k s).2 := by
  rw [drawMany_eq]
  intro i hi
  rw [List.mem_range'_1] at hi
  exact hi

theorem runSchedule_indices {κ} (ks : List κ) (s : Nat) :
    ((runSchedule ks s).1.map (·.2)) = List.range' s ks.length := by
  rw [runSchedule_eq]
  simp only
  rw [List.map_snd_zip]
  simp

theorem runSchedule_consumers {κ} (ks : List κ) (s : Nat) :
    ((runSchedule ks s).1.map (·.1)) = ks := by
  rw [runSchedule_eq]
  simp only
  rw [List.map_fst_zip]
  simp

theorem runSchedule_nodup {κ} (ks : List κ) (s : Nat) :
    ((runSchedule ks s).1.map (·.2)).Nodup := by
  rw [runSchedule_indices]; exact List.nodup_range'

theorem indicesOf_sublist {κ} [DecidableEq κ] (k : κ) (r : List (κ × Nat)) :
    (indicesOf k r).Sublist (r.map (·.2)) :=
  List.Sublist.map _ List.filter_sublist

theorem indicesOf_nodup {κ} [DecidableEq κ] (k : κ) (ks : List κ) (s : Nat) :
    (indicesOf k (runSchedule ks s).1).Nodup :=
  (runSchedule_nodup ks s).sublist (indicesOf_sublist k _)

theorem indicesOf_disjoint {κ} [DecidableEq κ] (k k' : κ) (hk : k ≠ k') (ks : List κ) (s : Nat) :
    List.Disjoint (indicesOf k (runSchedule ks s).1) (indicesOf k' (runSchedule ks s).1) := by
  intro i h1 h2
  unfold indicesOf at h1 h2
  rw [List.mem_map] at h1 h2
  obtain ⟨p, hp, rfl⟩ := h1
  obtain ⟨q, hq, hpq⟩ := h2
  rw [List.mem_filter] at hp hq
  have hnd := runSchedule_nodup ks s
  have : q = p := List.inj_on_of_nodup_map hnd hq.1 hp.1 hpq
  subst this
  have a := of_decide_eq_true hp.2
  have b := of_decide_eq_true hq.2
  exact hk (a.symm.trans b)


/-! ## C07: the pairwise freshness count -/

theorem forall_allPairs_iff {α} (P : α → α → Prop) (l : List α) :
    (∀ p ∈ allPairs l, P p.1 p.2) ↔ l.Pairwise P := by
  induction l with
  | nil => simp [allPairs]
  | cons x xs ih =>
    rw [List.pairwise_cons, ← ih]
    simp only [allPairs, List.mem_append, List.mem_map]
    constructor
    · intro h
      exact ⟨fun y hy => h (x, y) (Or.inl ⟨y, hy, rfl⟩), fun p hp => h p (Or.inr hp)⟩
    · rintro ⟨h1, h2⟩ p (⟨y, hy, rfl⟩ | hp)
      · exact h1 y hy
      · exact h2 p hp

theorem filter_length_eq_zero_iff {α} (p : α → Bool) (l : List α) :
    (l.filter p).length = 0 ↔ ∀ a ∈ l, p a = false := by
  rw [List.length_eq_zero_iff, List.filter_eq_nil_iff]
  simp

/-- the freshness relation between two transcript values, as a proposition. -/
def FreshPair (a b : TranscriptValue) : Prop :=
  a.proof ≠ b.proof →
  ¬ (a.session = b.session ∧ a.slot = "secretkey" ∧ b.slot = "secretkey") →
    a.randomizer ≠ b.randomizer ∧ ¬ (extract a.c a.s b.c b.s = some a.m ∧ a.m = b.m)

theorem reusedPair_eq_false_iff (a b : TranscriptValue) : reusedPair a b = false ↔ FreshPair a b := by
  unfold reusedPair FreshPair extractorSucceeds
  by_cases h1 : a.proof = b.proof
  · simp [h1]
  · by_cases h2 : (a.session = b.session ∧ a.slot = "secretkey" ∧ b.slot = "secretkey")
    · simp [h2]
    · simp only [ne_eq, h1, not_false_eq_true, decide_true, Bool.true_and, h2, forall_const]
      have : (decide (a.session = b.session) && decide (a.slot = "secretkey") &&
          decide (b.slot = "secretkey")) = false := by
        rw [Bool.eq_false_iff]; intro h
        simp only [Bool.and_eq_true, decide_eq_true_eq] at h
        exact h2 ⟨h.1.1, h.1.2, h.2⟩
      rw [this]
      simp

theorem reuseCount_eq_zero_iff (vals : List TranscriptValue) (els : List (Nat × String × Int)) :
    reuseCount vals els = 0 ↔
      vals.Pairwise FreshPair ∧
      els.Pairwise (fun x y => x.1 ≠ y.1 → x.2.2 ≠ y.2.2) := by
  unfold reuseCount
  rw [Nat.add_eq_zero_iff, filter_length_eq_zero_iff, filter_length_eq_zero_iff,
    ← forall_allPairs_iff, ← forall_allPairs_iff]
  constructor
  · rintro ⟨h1, h2⟩
    refine ⟨fun p hp => (reusedPair_eq_false_iff _ _).mp (h1 p hp), fun p hp hne heq => ?_⟩
    have := h2 p hp
    simp [hne, heq] at this
  · rintro ⟨h1, h2⟩
    refine ⟨fun p hp => (reusedPair_eq_false_iff _ _).mpr (h1 p hp), fun p hp => ?_⟩
    have := h2 p hp
    by_cases hne : p.1.1 = p.2.1
    · simp [hne]
    · simp [hne, this hne]


/-! ## C11: `SetExpected` and `VerifyWithChallenge` of the non-revocation proof -/

theorem unmarshalVerify_eq_some_iff (o : SigOracle) (kid : String) (pk : PublicKey)
    (s : SignedAccumulator) (acc : Accumulator) :
    s.unmarshalVerify o kid pk = some acc ↔
      pk.counter = s.pkCounter ∧ o kid (s.data.getD []) = some acc := by
  unfold SignedAccumulator.unmarshalVerify
  by_cases h : pk.counter = s.pkCounter
  · simp [h]
  · simp [h]

/-- the proof `SetExpected` produces. -/
def setExpectedResult (p : NonRevProof) (nu challenge response : Int) : NonRevProof :=
  { p with nu := some nu, challenge := some challenge,
           responses := ("alpha", some response) :: p.responses.filter (·.1 ≠ "alpha") }

theorem setExpected_eq_some_iff (o : SigOracle) (kid : String) (pk : PublicKey) (p p' : NonRevProof)
    (c resp : Int) :
    p.setExpected o kid pk c resp = some p' ↔
      p.cr.isSome = true ∧ p.cu.isSome = true ∧
      pk.g.isSome = true ∧ pk.h.isSome = true ∧ pk.hasEcdsa = true ∧
      ∃ sacc acc nu, p.sacc = some sacc ∧ sacc.unmarshalVerify o kid pk = some acc ∧
        acc.nu = some nu ∧ p' = setExpectedResult p nu c resp ∧
        p'.structureOk = true ∧ p'.basesAreUnits pk = true := by
  unfold NonRevProof.setExpected
  rcases hcr : p.cr with _ | cr0 <;> rcases hcu : p.cu with _ | cu0 <;> try (simp; done)
  cases hs : p.sacc with
  | none => simp
  | some sacc =>
    cases hg : pk.g <;> cases hh : pk.h <;> cases he : pk.hasEcdsa <;> try (simp; done)
    cases hv : sacc.unmarshalVerify o kid pk with
    | none => simp [hv]
    | some acc =>
      cases hn : acc.nu with
      | none => simp [hv, hn]
      | some nu =>
        simp only [hv, hn, Option.isNone_some, Bool.or_self, Bool.false_eq_true, if_false, Bool.not_true,
          Option.isSome_some, true_and, Option.some.injEq, exists_and_left, exists_eq_left',
          Option.bind_eq_bind, Option.bind_some]
        have hq : ({ cr := some cr0, cu := some cu0, nu := some nu, challenge := some c,
                      responses := ("alpha", some resp) :: List.filter (fun x => decide (x.1 ≠ "alpha")) p.responses,
                      sacc := some sacc } : NonRevProof) = setExpectedResult p nu c resp := by
          unfold setExpectedResult
          rw [← hcr, ← hcu, ← hs]
        rw [hq]
        generalize setExpectedResult p nu c resp = q
        cases h1 : q.structureOk <;> cases h2 : q.basesAreUnits pk <;>
          simp only [Bool.not_true, Bool.not_false, Bool.or_false, Bool.or_true, Bool.false_eq_true,
            if_true, if_false, Option.bind_none, pure, Option.some.injEq, reduceCtorEq, false_iff,
            not_and, Bool.not_eq_true]
        · rintro rfl; simp [h1]
        · rintro rfl; simp [h1]
        · rintro rfl; simp [h2]
        · constructor
          · rintro rfl; exact ⟨rfl, h1, h2⟩
          · rintro ⟨rfl, _, _⟩; rfl

theorem setExpectedResult_response_alpha (p : NonRevProof) (nu c resp : Int) :
    (setExpectedResult p nu c resp).response "alpha" = some resp := by
  simp [setExpectedResult, NonRevProof.response]

theorem lookup_filter_ne {β} (l : List (String × β)) (a b : String) (h : b ≠ a) :
    (l.filter (·.1 ≠ a)).lookup b = l.lookup b := by
  induction l with
  | nil => rfl
  | cons x xs ih =>
    obtain ⟨k, v⟩ := x
    simp only [ne_eq, decide_not] at ih
    by_cases hk : k = a
    · subst hk
      have : ¬ (b == k) = true := by simpa using h
      simp [List.filter, List.lookup, this, ih]
    · by_cases hb : b = k
      · subst hb; simp [List.filter, List.lookup, hk]
      · have : ¬ (b == k) = true := by simpa using hb
        simp [List.filter, List.lookup, hk, this, ih]

/-- `SetExpected` leaves every other response untouched. -/
theorem setExpectedResult_response_other (p : NonRevProof) (nu c resp : Int) (name : String)
    (h : name ≠ "alpha") : (setExpectedResult p nu c resp).response name = p.response name := by
  have hb : ¬ (name == "alpha") = true := by simpa using h
  simp only [setExpectedResult, NonRevProof.response, List.lookup, hb]
  rw [lookup_filter_ne _ _ _ h]


theorem verifyWithChallenge_true_iff (o : SigOracle) (kid : String) (pk : PublicKey) (p : NonRevProof)
    (c' : Int) (a : Option Accumulator) :
    p.verifyWithChallenge o kid pk c' = (true, a) ↔
      ∃ sacc acc nu, p.sacc = some sacc ∧ p.structureOk = true ∧ p.basesAreUnits pk = true ∧
        (p.response "alpha").getD 0 ≤ revBTwoZk ∧
        sacc.unmarshalVerify o kid pk = some acc ∧ acc.nu = some nu ∧ p.nu = some nu ∧
        p.challenge = some c' ∧ a = some acc := by
  unfold NonRevProof.verifyWithChallenge
  cases hs : p.sacc with
  | none => simp
  | some sacc =>
    cases h1 : p.structureOk <;> cases h2 : p.basesAreUnits pk <;> try (simp; done)
    by_cases h3 : (p.response "alpha").getD 0 > revBTwoZk
    · simp only [h3]
      have : ¬ (p.response "alpha").getD 0 ≤ revBTwoZk := by omega
      simp [this]
    · have h3' : (p.response "alpha").getD 0 ≤ revBTwoZk := by omega
      simp only [Bool.not_true, Bool.or_self, Bool.false_eq_true, if_false, h3, h3', true_and,
        Option.some.injEq, exists_and_left, exists_eq_left']
      cases hv : sacc.unmarshalVerify o kid pk with
      | none => simp
      | some acc =>
        dsimp only
        rcases hn : acc.nu with _ | anu <;> rcases hpn : p.nu with _ | pnu <;>
          rcases hc : p.challenge with _ | ch <;> try (simp [hn]; done)
        simp only [Option.some.injEq, exists_eq_left']
        by_cases hne : pnu = anu
        · subst hne
          simp only [ne_eq, not_true_eq_false, if_false, Prod.mk.injEq, decide_eq_true_eq]
          constructor
          · rintro ⟨rfl, rfl⟩; exact ⟨pnu, hn, rfl, rfl, rfl⟩
          · rintro ⟨nu, _, _, rfl, rfl⟩; exact ⟨rfl, rfl⟩
        · simp only [ne_eq, hne, not_false_eq_true, if_true, Prod.mk.injEq, Bool.false_eq_true,
            false_and, false_iff, not_exists, not_and]
          rintro nu hnu rfl
          rw [hn] at hnu
          exact absurd (Option.some.inj hnu).symm hne

theorem unitModN_iff (c n : Int) : unitModN c n = true ↔ 0 < c ∧ Int.gcd c n = 1 := by
  unfold unitModN
  simp

theorem basesAreUnits_iff (pk : PublicKey) (p : NonRevProof) :
    p.basesAreUnits pk = true ↔
      (∃ cr cu, p.cr = some cr ∧ p.cu = some cu ∧ unitModN cr pk.n = true ∧ unitModN cu pk.n = true) ∧
      ∀ kv ∈ p.responses, ∃ r, kv.2 = some r ∧ 0 ≤ r := by
  unfold NonRevProof.basesAreUnits
  rw [Bool.and_eq_true, List.all_eq_true]
  apply and_congr
  · rcases p.cr with _ | cr <;> rcases p.cu with _ | cu <;> simp
  · apply forall_congr'; intro kv
    apply imp_congr_right; intro _
    rcases kv.2 with _ | r <;> simp


/-! ## C11: why `C_r`, `C_u` must be units — the zero-commitment forgery -/

theorem cfp_go_nil (n : Int) (b r : String → Option Int) (c k : Int) :
    QrStructure.commitmentFromProof.go n b r [] c k = .ok c := rfl

theorem cfp_go_cons (n : Int) (b r : String → Option Int) (x : RhsContribution)
    (xs : List RhsContribution) (c k res : Int) (hres : r x.secret = some res) :
    QrStructure.commitmentFromProof.go n b r (x :: xs) c k =
      QrStructure.commitmentFromProof.go n b r xs
        (c * expInto k (b x.base) (x.power * res) n % n) (expInto k (b x.base) (x.power * res) n) := by
  show (deref _ (r x.secret) >>= _) = _
  rw [hres]; rfl

/-- the lhs factor `(∏ lhs)^(-c)` of the reconstruction. -/
def cfpC0 (s : QrStructure) (n challenge : Int) (bases : String → Option Int) : Int :=
  let lhs := (s.lhs.foldl (fun (acc : Int × Int) l =>
      let tmp := expInto acc.2 (bases l.base) l.power n
      (acc.1 * tmp % n, tmp)) ((1 : Int), (0 : Int))).1
  let lhs := (goModInverse lhs n).getD lhs
  (goExp lhs challenge n).getD 0

theorem commitmentFromProof_eq (s : QrStructure) (n ch : Int) (b r : String → Option Int) :
    s.commitmentFromProof n ch b r =
      QrStructure.commitmentFromProof.go n b r s.rhs (cfpC0 s n ch b) 0 := rfl

/-- once the running commitment is `0` it stays `0`. -/
theorem cfp_go_zero (n : Int) (b r : String → Option Int) :
    ∀ (rs : List RhsContribution) (k : Int), (∀ x ∈ rs, (r x.secret).isSome = true) →
      QrStructure.commitmentFromProof.go n b r rs 0 k = .ok 0
  | [], k, _ => rfl
  | x :: xs, k, h => by
    obtain ⟨res, hres⟩ := Option.isSome_iff_exists.mp (h x (by simp))
    rw [cfp_go_cons n b r x xs 0 k res hres, Int.zero_mul, Int.zero_emod]
    exact cfp_go_zero n b r xs _ (fun y hy => h y (by simp [hy]))

theorem expInto_zero_base (k e n : Int) (hn : 0 < n) (he : 0 < e) : expInto k (some 0) e n = 0 := by
  unfold expInto
  simp only
  rw [goExp_nonneg 0 e n hn (by omega)]
  have : e.toNat ≠ 0 := by omega
  simp [zero_pow this]

theorem cfp_go_hits_zero (n : Int) (b r : String → Option Int) (hn : 0 < n)
    (x : RhsContribution) (hb : b x.base = some 0) (res : Int)
    (hres : r x.secret = some res) (hpos : 0 < x.power * res) :
    ∀ (rs : List RhsContribution) (c k : Int), (∀ y ∈ rs, (r y.secret).isSome = true) → x ∈ rs →
      QrStructure.commitmentFromProof.go n b r rs c k = .ok 0
  | [], _, _, _, hx => absurd hx (by simp)
  | y :: ys, c, k, hall, hx => by
    obtain ⟨resy, hresy⟩ := Option.isSome_iff_exists.mp (hall y (by simp))
    rw [cfp_go_cons n b r y ys c k resy hresy]
    rcases List.mem_cons.mp hx with rfl | hx'
    · rw [hres] at hresy; cases hresy
      rw [hb, expInto_zero_base _ _ _ hn hpos, Int.mul_zero, Int.zero_emod]
      exact cfp_go_zero n b r ys _ (fun z hz => hall z (by simp [hz]))
    · exact cfp_go_hits_zero n b r hn x hb res hres hpos ys _ _ (fun z hz => hall z (by simp [hz])) hx'

/-- **commitmentZero**: if some rhs factor has base `0` and a positive exponent then the
    reconstructed commitment is `0`, whatever the challenge and the other responses are. -/
theorem commitmentZero (s : QrStructure) (n ch : Int) (b r : String → Option Int) (hn : 0 < n)
    (hall : ∀ x ∈ s.rhs, (r x.secret).isSome = true)
    (x : RhsContribution) (hx : x ∈ s.rhs) (hb : b x.base = some 0) (res : Int)
    (hres : r x.secret = some res) (hpos : 0 < x.power * res) :
    s.commitmentFromProof n ch b r = .ok 0 := by
  rw [commitmentFromProof_eq]
  exact cfp_go_hits_zero n b r hn x hb res hres hpos _ _ _ hall hx

/-- a zero lhs base with exponent 1 also kills the commitment when the challenge is non-zero:
    `0` is not invertible, `0^c = 0` (and a negative `c` makes `Exp` fail, leaving `0`). -/
theorem cfpC0_zero_lhs (name : String) (n ch : Int) (b : String → Option Int) (rhs : List RhsContribution)
    (hn : 1 < n) (hb : b name = some 0) (hch : ch ≠ 0) :
    cfpC0 ⟨[⟨name, 1⟩], rhs⟩ n ch b = 0 := by
  unfold cfpC0
  simp only [List.foldl, hb]
  rw [expInto_zero_base _ _ _ (by omega) (by norm_num), Int.mul_zero, Int.zero_emod]
  have hinv : goModInverse 0 n = none := by
    rw [goModInverse_none_iff 0 n (by omega)]
    simp only [Int.gcd_zero_left]
    omega
  rw [hinv]
  simp only [Option.getD_none]
  by_cases hneg : ch < 0
  · rw [goExp_neg 0 ch n (by omega) hneg, hinv]; rfl
  · rw [goExp_nonneg 0 ch n (by omega) (by omega)]
    have : ch.toNat ≠ 0 := by omega
    simp [zero_pow this]

theorem revStructures_eq : revStructures =
    [⟨[⟨"cr", 1⟩], [⟨"G", "epsilon", 1⟩, ⟨"H", "zeta", 1⟩]⟩,
     ⟨[⟨"nu", 1⟩], [⟨"cu", "alpha", 1⟩, ⟨"H", "beta", -1⟩]⟩,
     ⟨[⟨"one", 1⟩], [⟨"cr", "alpha", 1⟩, ⟨"G", "beta", -1⟩, ⟨"H", "delta", -1⟩]⟩] := by
  decide

/-- the forgery against a verifier without the unit check: with `C_r = C_u = 0` all three
    reconstructed commitments are `0` for every non-zero challenge and all responses with
    `alpha ≥ 1`, so the challenge contributions are the constant list `[0, 0, ν, 0, 0, 0]`. -/
theorem zero_bases_contributions (pk : PublicKey) (p : NonRevProof) (nu ch alpha : Int)
    (hn : 1 < pk.n) (hcr : p.cr = some 0) (hcu : p.cu = some 0) (hnu : p.nu = some nu)
    (hch : p.challenge = some ch) (hch0 : ch ≠ 0)
    (hresp : ∀ name ∈ Gen.revSecretNames, (p.response name).isSome = true)
    (halpha : p.response "alpha" = some alpha) (hpos : 1 ≤ alpha) :
    p.challengeContributions pk = .ok [0, 0, nu, 0, 0, 0] := by
  have hn0 : (0 : Int) < pk.n := by omega
  have hS : ∀ name, name ∈ ["alpha", "beta", "delta", "epsilon", "zeta"] →
      (p.response name).isSome = true := hresp
  have h1 : (⟨[⟨"cr", 1⟩], [⟨"G", "epsilon", 1⟩, ⟨"H", "zeta", 1⟩]⟩ : QrStructure).commitmentFromProof
      pk.n ch (revBases pk p) p.response = .ok 0 := by
    rw [commitmentFromProof_eq, cfpC0_zero_lhs "cr" pk.n ch _ _ hn (by simp [revBases, hcr]) hch0]
    apply cfp_go_zero
    intro x hx
    simp only [List.mem_cons, List.not_mem_nil, or_false] at hx
    rcases hx with rfl | rfl <;> exact hS _ (by simp)
  have h2 : (⟨[⟨"nu", 1⟩], [⟨"cu", "alpha", 1⟩, ⟨"H", "beta", -1⟩]⟩ : QrStructure).commitmentFromProof
      pk.n ch (revBases pk p) p.response = .ok 0 := by
    apply commitmentZero _ _ _ _ _ hn0 _ ⟨"cu", "alpha", 1⟩ (by simp) (by simp [revBases, hcu]) alpha halpha
      (by simp; omega)
    intro x hx
    simp only [List.mem_cons, List.not_mem_nil, or_false] at hx
    rcases hx with rfl | rfl <;> exact hS _ (by simp)
  have h3 : (⟨[⟨"one", 1⟩], [⟨"cr", "alpha", 1⟩, ⟨"G", "beta", -1⟩, ⟨"H", "delta", -1⟩]⟩ :
      QrStructure).commitmentFromProof pk.n ch (revBases pk p) p.response = .ok 0 := by
    apply commitmentZero _ _ _ _ _ hn0 _ ⟨"cr", "alpha", 1⟩ (by simp) (by simp [revBases, hcr]) alpha halpha
      (by simp; omega)
    intro x hx
    simp only [List.mem_cons, List.not_mem_nil, or_false] at hx
    rcases hx with rfl | rfl | rfl <;> exact hS _ (by simp)
  unfold NonRevProof.challengeContributions
  rw [hcr, hcu, hnu, hch, revStructures_eq]
  simp only [deref, List.mapM_cons, List.mapM_nil, pure_bind, h1, h2, h3]
  rfl


/-! ## C11: the algebra of the non-revocation proof (abstract commutative group) -/

section Algebra
open Gabi.Alg
variable {G : Type*} [CommGroup G] {ι : Type*}

/-- generic completeness of a representation proof: for `lhs = ∏ base^(power·secret)` and honest
    responses `rand + c·secret` the verifier's reconstruction equals the prover's commitment. -/
theorem repr_complete (B : ι → G) (p sec rnd : ι → ℤ) (l : List ι) (c : ℤ) (lhs : G)
    (hl : lhs = rep B (fun j => p j * sec j) l) :
    (lhs⁻¹) ^ c * rep B (fun j => p j * (rnd j + c * sec j)) l = rep B (fun j => p j * rnd j) l := by
  subst hl
  have : (fun j => p j * (rnd j + c * sec j)) = fun j => p j * rnd j + c * (p j * sec j) := by
    funext j; ring
  rw [this, rep_add, rep_const_mul]
  to_additive_goal
  module

/-- generic special soundness of a representation proof. -/
theorem repr_special_soundness (B : ι → G) (p s s' : ι → ℤ) (l : List ι) (c c' : ℤ) (lhs T : G)
    (h1 : (lhs⁻¹) ^ c * rep B (fun j => p j * s j) l = T)
    (h2 : (lhs⁻¹) ^ c' * rep B (fun j => p j * s' j) l = T) :
    lhs ^ (c - c') = rep B (fun j => p j * (s j - s' j)) l := by
  have : (fun j => p j * (s j - s' j)) = fun j => p j * s j - p j * s' j := by
    funext j; ring
  rw [this, rep_sub]
  have h := ofMul_congr (h1.trans h2.symm)
  simp only [ofMul_mul, ofMul_zpow, ofMul_inv] at h
  to_additive_goal
  linear_combination (norm := module) (-1 : ℤ) • h

/-- the three relations hold for an honest prover. -/
theorem nonrev_relations {g h u ν : G} {e r2 r3 : ℤ} (hw : u ^ e = ν) :
    let Cr := g ^ r2 * h ^ r3
    let Cu := u * h ^ r2
    Cr = g ^ r2 * h ^ r3 ∧ ν = Cu ^ e * h ^ (-(e * r2)) ∧
      1 = Cr ^ e * g ^ (-(e * r2)) * h ^ (-(e * r3)) := by
  subst hw
  refine ⟨rfl, ?_, ?_⟩
  · to_additive_goal; module
  · to_additive_goal; module

/-- extraction in the exact-division case. -/
theorem nonrev_extract {g h Cr Cu ν : G} {dc dε dζ dα dβ dδ ε₀ ζ₀ α₀ β₀ δ₀ : ℤ}
    (r1 : Cr ^ dc = g ^ dε * h ^ dζ)
    (r2 : ν ^ dc = Cu ^ dα * h ^ (-dβ))
    (r3 : 1 = Cr ^ dα * g ^ (-dβ) * h ^ (-dδ))
    (hε : dε = dc * ε₀) (hζ : dζ = dc * ζ₀) (hα : dα = dc * α₀) (hβ : dβ = dc * β₀)
    (hδ : dδ = dc * δ₀)
    (htors : ∀ x : G, x ^ dc = 1 → x = 1)
    (hindep : ∀ a b : ℤ, g ^ a * h ^ b = 1 → a = 0 ∧ b = 0) :
    Cr = g ^ ε₀ * h ^ ζ₀ ∧ β₀ = α₀ * ε₀ ∧ δ₀ = α₀ * ζ₀ ∧ (Cu * h ^ (-ε₀)) ^ α₀ = ν := by
  subst hε hζ hα hβ hδ
  have e1 : Cr = g ^ ε₀ * h ^ ζ₀ := by
    have := htors (Cr / (g ^ ε₀ * h ^ ζ₀)) (by
      have h := ofMul_congr r1
      simp only [ofMul_mul, ofMul_zpow] at h
      to_additive_goal
      linear_combination (norm := module) h)
    exact div_eq_one.mp this
  have e2 : ν = Cu ^ α₀ * h ^ (-β₀) := by
    have := htors (ν / (Cu ^ α₀ * h ^ (-β₀))) (by
      have h := ofMul_congr r2
      simp only [ofMul_mul, ofMul_zpow] at h
      to_additive_goal
      linear_combination (norm := module) h)
    exact div_eq_one.mp this
  have e3 : g ^ (α₀ * ε₀ - β₀) * h ^ (α₀ * ζ₀ - δ₀) = 1 := by
    apply htors
    have h := ofMul_congr r3
    rw [e1] at h
    simp only [ofMul_mul, ofMul_zpow, ofMul_one] at h
    to_additive_goal
    linear_combination (norm := module) -h
  obtain ⟨ha, hb⟩ := hindep _ _ e3
  have hβ : β₀ = α₀ * ε₀ := by omega
  refine ⟨e1, hβ, by omega, ?_⟩
  rw [e2, hβ]
  to_additive_goal
  module

end Algebra

/-! ## C11: `revocationAttrIndex` -/

/-- the bound `2^(AttributeSize+ChallengeLength+ZkStat+1)` used by `revocationAttrIndex`. -/
def revIdxMax : Int := 2 ^ (Gen.revAttributeSize + Gen.revChallengeLength + Gen.revZkStat + 1)

/-- "this hidden response is a candidate of `revocationAttrIndex`": its index is not 0 (the secret
    key is never a candidate) and the response is below the bound. -/
def belowRevMax (kv : Int × Option Int) : Bool :=
  match kv.2 with
  | some r => decide (kv.1 ≠ 0) && decide (r < revIdxMax)
  | none => false

theorem belowRevMax_some (k r : Int) :
    belowRevMax (k, some r) = (decide (k ≠ 0) && decide (r < revIdxMax)) := rfl

theorem belowRevMax_none (k : Int) : belowRevMax (k, none) = false := rfl

/-- a candidate never has index 0. -/
theorem belowRevMax_fst_ne_zero {kv : Int × Option Int} (h : belowRevMax kv = true) : kv.1 ≠ 0 := by
  obtain ⟨k, v⟩ := kv
  rcases v with _ | r
  · simp [belowRevMax_none] at h
  · rw [belowRevMax_some] at h
    simp only [Bool.and_eq_true, decide_eq_true_eq] at h
    exact h.1

theorem revocationCandidates_eq (p : ProofD) :
    p.revocationCandidates = (p.aResponses.filter belowRevMax).map (·.1) := by
  unfold ProofD.revocationCandidates
  generalize p.aResponses = l
  induction l with
  | nil => rfl
  | cons kv l ih =>
    obtain ⟨k, v⟩ := kv
    rcases v with _ | r
    · simp only [List.filterMap_cons, List.filter_cons, belowRevMax_none]
      simpa using ih
    · by_cases h : k ≠ 0 ∧ r < revIdxMax
      · have h' : k ≠ 0 ∧
            r < 2 ^ (Gen.revAttributeSize + Gen.revChallengeLength + Gen.revZkStat + 1) := h
        have hb : belowRevMax (k, some r) = true := by
          rw [belowRevMax_some]; simp [h.1, h.2]
        simp only [List.filterMap_cons, List.filter_cons, hb, if_pos h', if_true, List.map_cons]
        rw [ih]
      · have h' : ¬ (k ≠ 0 ∧
            r < 2 ^ (Gen.revAttributeSize + Gen.revChallengeLength + Gen.revZkStat + 1)) := h
        have hb : belowRevMax (k, some r) = false := by
          rw [belowRevMax_some]
          rcases not_and_or.mp h with h1 | h2
          · simp [h1]
          · simp [h2]
        simp only [List.filterMap_cons, List.filter_cons, hb, if_neg h']
        simpa using ih

/-- index 0 (the secret key) is never a candidate of `revocationAttrIndex`. -/
theorem zero_not_mem_revocationCandidates (p : ProofD) : (0 : Int) ∉ p.revocationCandidates := by
  rw [revocationCandidates_eq]
  intro h
  obtain ⟨kv, hkv, h0⟩ := List.mem_map.mp h
  exact belowRevMax_fst_ne_zero (List.mem_filter.mp hkv).2 h0

theorem revChoices_of_single (p : ProofD) (nr : NonRevProof) (kv : Int × Option Int)
    (hnr : p.nonrev = some nr) (h : p.aResponses.filter belowRevMax = [kv]) :
    p.revChoices = [kv.1] := by
  unfold ProofD.revChoices
  rw [hnr, revocationCandidates_eq, h]
  rfl

/-- a filter over a key-duplicate-free list that is satisfied by exactly one key. -/
theorem filter_eq_singleton {α} (q : α → Bool) (key : α → Int) :
    ∀ (l : List α) (x : α), (l.map key).Nodup → x ∈ l → q x = true →
      (∀ y ∈ l, key y ≠ key x → q y = false) → l.filter q = [x]
  | [], _, _, hx, _, _ => absurd hx (by simp)
  | y :: ys, x, hnd, hx, hq, hoth => by
    rw [List.map_cons, List.nodup_cons] at hnd
    rcases List.mem_cons.mp hx with rfl | hx'
    · have : ys.filter q = [] := by
        rw [List.filter_eq_nil_iff]
        intro z hz
        have hne : key z ≠ key x := fun h => hnd.1 (h ▸ List.mem_map_of_mem hz)
        simp [hoth z (by simp [hz]) hne]
      rw [List.filter_cons, hq, if_pos rfl, this]
    · have hne : key y ≠ key x := fun h => hnd.1 (h ▸ List.mem_map_of_mem hx')
      have hy : q y = false := hoth y (by simp) hne
      rw [List.filter_cons, hy]
      simp only [Bool.false_eq_true, if_false]
      exact filter_eq_singleton q key ys x hnd.2 hx' hq (fun z hz => hoth z (by simp [hz]))

/-! ## C14: sizes of the joint secret-key response -/

theorem mul_lt_two_pow {c m : Int} {a b : Nat} (hc0 : 0 ≤ c) (hm0 : 0 ≤ m) (hc : c < 2 ^ a)
    (hm : m < 2 ^ b) : c * m < 2 ^ (a + b) := by
  rw [pow_add]
  exact mul_lt_mul'' hc hm hc0 hm0


theorem proofD_accept_nonrev (o : SigOracle) (kid : String) (pk : PublicKey) (p : ProofD)
    (nr : NonRevProof) (revIdx c' : Int) (acc : Option Accumulator)
    (hnr : p.nonrev = some nr)
    (h : p.verifyWithChallenge o kid pk revIdx c' = .ok (true, acc)) :
    0 ≤ revIdx ∧ ∃ resp, p.aResponses.get revIdx = some resp ∧ nr.response "alpha" = some resp ∧
      nr.verifyWithChallenge o kid pk c' = (true, acc) ∧ p.c = some c' := by
  have hF : ∀ a, (pure (false, none) : GoM (Bool × Option Accumulator)) ≠ .ok (true, a) := by
    intro a h; cases h
  unfold ProofD.verifyWithChallenge at h
  rw [hnr] at h
  cases hwf : p.wellFormed pk
  · simp [hwf] at h
    exact absurd h (hF _)
  · simp only [hwf, Bool.not_true, Bool.false_eq_true, if_false] at h
    by_cases hneg : revIdx < 0
    · simp [hneg] at h
      exact absurd h (hF _)
    · simp only [hneg, if_false] at h
      rcases hget : p.aResponses.get revIdx with _ | resp
      · simp [hget] at h
        exact absurd h (hF _)
      · simp only [hget] at h
        rcases hv : nr.verifyWithChallenge o kid pk c' with ⟨ok, a⟩
        simp only [hv] at h
        cases ok
        · simp at h
          exact absurd h (hF _)
        · simp only [Bool.not_true, Bool.false_eq_true, if_false] at h
          rcases hal : nr.response "alpha" with _ | alpha
          · simp only [hal, deref] at h
            cases h
          · simp only [hal, deref, pure_bind] at h
            by_cases hEq : alpha = resp
            · subst hEq
              simp only [decide_true, Bool.not_true, Bool.false_eq_true, if_false] at h
              rcases hsz : p.correctResponseSizes pk with e | b
              · rw [hsz] at h; cases h
              · rw [hsz] at h
                cases b
                · exact absurd h (hF _)
                · change ((deref "C" p.c : GoM Int) >>= _) = _ at h
                  rcases hc : p.c with _ | c
                  · rw [hc] at h; cases h
                  · rw [hc] at h
                    have h' := Except.ok.inj h
                    have h1 : decide (c = c') = true := (Prod.mk.inj h').1
                    have h2 : a = acc := (Prod.mk.inj h').2
                    have hcc : c = c' := of_decide_eq_true h1
                    subst h2 hcc
                    exact ⟨by omega, alpha, rfl, rfl, rfl, rfl⟩
            · simp only [hEq, decide_false, Bool.not_false, if_true] at h
              exact absurd h (hF _)

theorem challengeContribution_nonrev (o : SigOracle) (kid : String) (pk : PublicKey) (p p' : ProofD)
    (nr : NonRevProof) (revIdx : Int) (l : List Int)
    (hnr : p.nonrev = some nr)
    (h : (p.challengeContribution o kid pk revIdx).run = .ok (some (l, p'))) :
    0 ≤ revIdx ∧ ∃ resp c nr', p.aResponses.get revIdx = some resp ∧ p.c = some c ∧
      nr.setExpected o kid pk c resp = some nr' ∧ p'.nonrev = some nr' ∧
      p'.aResponses = p.aResponses ∧ p'.c = p.c ∧
      ∃ a z contrib rc, nr'.challengeContributions pk = .ok contrib ∧
        l = [a, z] ++ contrib ++ rc := by
  unfold ProofD.challengeContribution at h
  cases hw : p.wellFormed pk with
  | false => simp only [hw, Bool.not_false, if_true] at h; cases h
  | true =>
    simp only [hw, Bool.not_true, Bool.false_eq_true, if_false] at h
    obtain ⟨z, hz, h1⟩ := GoE.bind_ok_some h
    clear h
    obtain ⟨a, ha, h2⟩ := GoE.bind_ok_some h1
    clear h1
    obtain ⟨c, hc, h⟩ := GoE.bind_ok_some h2
    clear h2
    have hc' := GoE.liftM_ok_some hc
    have hpc : p.c = some c := by
      cases hpc : p.c with
      | none => rw [hpc] at hc'; cases hc'
      | some c' => rw [hpc] at hc'; cases hc'; rfl
    simp only [hnr] at h
    obtain ⟨resp, hresp, h⟩ := GoE.bind_ok_some h
    by_cases hneg : revIdx < 0
    · simp only [hneg, if_true] at hresp; cases hresp
    · simp only [hneg, if_false] at hresp
      rcases hget : p.aResponses.get revIdx with _ | r
      · rw [hget] at hresp; cases hresp
      · rw [hget] at hresp
        have : r = resp := by cases hresp; rfl
        subst this
        rcases hse : nr.setExpected o kid pk c r with _ | nr'
        · rw [hse] at h; cases h
        · rw [hse] at h
          obtain ⟨contrib, hcontrib, h⟩ := GoE.bind_ok_some h
          obtain ⟨x, -, h⟩ := GoE.bind_ok_some h
          have h' : (([a, z] ++ contrib ++ x.1, _) : List Int × ProofD) = (l, p') :=
            Option.some.inj (Except.ok.inj h)
          cases h'
          exact ⟨by omega, r, c, nr', rfl, hpc, hse, rfl, rfl, rfl, a, z, contrib, x.1,
            GoE.liftM_ok_some hcontrib, rfl⟩

theorem nonrev_challengeContributions_ok (pk : PublicKey) (p : NonRevProof) (l : List Int)
    (h : p.challengeContributions pk = .ok l) :
    ∃ cr cu nu ch cs, p.cr = some cr ∧ p.cu = some cu ∧ p.nu = some nu ∧ p.challenge = some ch ∧
      revStructures.mapM (fun s => s.commitmentFromProof pk.n ch (revBases pk p) p.response) = .ok cs ∧
      l = [cr, cu, nu] ++ cs := by
  unfold NonRevProof.challengeContributions at h
  rcases hcr : p.cr with _ | cr
  · rw [hcr] at h; cases h
  rcases hcu : p.cu with _ | cu
  · rw [hcr, hcu] at h; cases h
  rcases hnu : p.nu with _ | nu
  · rw [hcr, hcu, hnu] at h; cases h
  rcases hch : p.challenge with _ | ch
  · rw [hcr, hcu, hnu, hch] at h; cases h
  rw [hcr, hcu, hnu, hch] at h
  simp only [deref, pure_bind] at h
  rcases hcs : revStructures.mapM (fun s => s.commitmentFromProof pk.n ch (revBases pk p) p.response)
    with e | cs
  · rw [hcs] at h; cases h
  · rw [hcs] at h
    cases h
    exact ⟨cr, cu, nu, ch, cs, rfl, rfl, rfl, rfl, hcs, rfl⟩

theorem verifyWith_ok_true (o : SigOracle) (kid : String) (pk : PublicKey) (p : ProofD)
    (ctx nonce : Int) (issig : Bool) (i1 i2 : Int)
    (h : p.verifyWith o kid pk ctx nonce issig i1 i2 = .ok true) :
    ∃ contrib p' acc, (p.challengeContribution o kid pk i1).run = .ok (some (contrib, p')) ∧
      p'.verifyWithChallenge o kid pk i2 (createChallenge ctx nonce contrib issig) = .ok (true, acc) := by
  unfold ProofD.verifyWith at h
  rcases hcc : (p.challengeContribution o kid pk i1).run with e | r
  · rw [hcc] at h; cases h
  · rw [hcc] at h
    rcases r with _ | ⟨contrib, p'⟩
    · cases h
    · simp only [] at h
      change (p'.verifyWithChallenge o kid pk i2 (createChallenge ctx nonce contrib issig) >>= _) = _ at h
      rcases hv : p'.verifyWithChallenge o kid pk i2 (createChallenge ctx nonce contrib issig) with e | ⟨ok, acc⟩
      · rw [hv] at h; cases h
      · rw [hv] at h
        cases h
        exact ⟨contrib, p', acc, rfl, hv⟩

/-! ## C11: `CommitmentsFromProof` / `CommitmentsFromSecrets` in the unit group of `ZMod n` -/

section BridgeQr
open Gabi.Alg
variable {n : ℕ}

/-- `v` is the canonical representative in `[0,n)` of the unit `u`. -/
def RepU (n : ℕ) (v : Int) (u : (ZMod n)ˣ) : Prop := 0 ≤ v ∧ v < n ∧ (v : ZMod n) = (u : ZMod n)

/-- the unit a base name denotes. -/
noncomputable def baseU (n : ℕ) (b : String → Option Int) (name : String) : (ZMod n)ˣ :=
  zunit n ((b name).getD 0)

/-- "the base `name` is present and invertible modulo `n`". -/
def UnitBase (n : ℕ) (b : String → Option Int) (name : String) : Prop :=
  ∃ x, b name = some x ∧ Int.gcd x n = 1

theorem RepU.unique {v w : Int} {u : (ZMod n)ˣ} (hv : RepU n v u) (hw : RepU n w u) : v = w :=
  eq_of_cast_eq hv.1 hv.2.1 hw.1 hw.2.1 (hv.2.2.trans hw.2.2.symm)

theorem RepU.congr {v : Int} {u w : (ZMod n)ˣ} (hv : RepU n v u) (h : u = w) : RepU n v w := h ▸ hv

theorem repU_one (hn : 1 < n) : RepU n 1 1 :=
  ⟨by norm_num, by exact_mod_cast hn, by simp⟩

theorem repU_mul (hn : 1 < n) {a b : Int} {u w : (ZMod n)ˣ} (ha : RepU n a u) (hb : RepU n b w) :
    RepU n (a * b % (n : Int)) (u * w) :=
  mul_emod_unit (by omega) ha.2.2 hb.2.2

theorem expInto_unit (hn : 1 < n) (b : String → Option Int) (name : String)
    (hu : UnitBase n b name) (prev e : Int) :
    RepU n (expInto prev (b name) e n) (baseU n b name ^ e) := by
  obtain ⟨x, hx, hg⟩ := hu
  obtain ⟨r, hr, h0, h1, hc⟩ := goExp_coprime hn hg e
  unfold expInto baseU
  rw [hx]
  simp only [hr, Option.getD_some]
  exact ⟨h0, h1, hc⟩

/-- the lhs product loop. -/
theorem lhs_fold_unit (hn : 1 < n) (b : String → Option Int) :
    ∀ (ls : List LhsContribution) (a t : Int) (u : (ZMod n)ˣ),
      (∀ l ∈ ls, UnitBase n b l.base) → RepU n a u →
      RepU n (ls.foldl (fun (acc : Int × Int) l =>
          let tmp := expInto acc.2 (b l.base) l.power n
          (acc.1 * tmp % n, tmp)) (a, t)).1
        (u * rep (fun l : LhsContribution => baseU n b l.base) (fun l => l.power) ls)
  | [], a, t, u, _, ha => by simpa using ha
  | l :: ls, a, t, u, hb, ha => by
    rw [List.foldl_cons, rep_cons, ← mul_assoc]
    exact lhs_fold_unit hn b ls _ _ _ (fun x hx => hb x (by simp [hx]))
      (repU_mul hn ha (expInto_unit hn b l.base (hb l (by simp)) t l.power))

theorem cfpC0_unit (hn : 1 < n) (s : QrStructure) (c : Int) (b : String → Option Int)
    (hb : ∀ l ∈ s.lhs, UnitBase n b l.base) :
    RepU n (cfpC0 s n c b)
      (((rep (fun l : LhsContribution => baseU n b l.base) (fun l => l.power) s.lhs)⁻¹) ^ c) := by
  have hl := lhs_fold_unit hn b s.lhs 1 0 1 hb (repU_one hn)
  rw [one_mul] at hl
  unfold cfpC0
  simp only
  generalize (s.lhs.foldl (fun (acc : Int × Int) l =>
          let tmp := expInto acc.2 (b l.base) l.power n
          (acc.1 * tmp % n, tmp)) ((1 : Int), (0 : Int))).1 = L at hl ⊢
  generalize rep (fun l : LhsContribution => baseU n b l.base) (fun l => l.power) s.lhs = u at hl ⊢
  have hLu : IsUnit (L : ZMod n) := isUnit_of_cast hl.2.2
  have hz : zunit n L = u := zunit_of_cast hl.2.2
  obtain ⟨inv, hinv, i0, i1, ic⟩ := goModInverse_unit (by omega) hLu
  rw [hinv, Option.getD_some]
  rw [hz] at ic
  have hiu : IsUnit (inv : ZMod n) := isUnit_of_cast ic
  obtain ⟨r, hr, r0, r1, rc⟩ := goExp_unit hn hiu c
  rw [hr, Option.getD_some, zunit_of_cast ic] at *
  exact ⟨r0, r1, rc⟩

theorem cfp_go_unit (hn : 1 < n) (b r : String → Option Int) :
    ∀ (rs : List RhsContribution) (cm k : Int) (u : (ZMod n)ˣ),
      (∀ x ∈ rs, UnitBase n b x.base) → (∀ x ∈ rs, (r x.secret).isSome = true) → RepU n cm u →
      ∃ v, QrStructure.commitmentFromProof.go n b r rs cm k = .ok v ∧
        RepU n v (u * rep (fun x : RhsContribution => baseU n b x.base)
          (fun x => x.power * (r x.secret).getD 0) rs)
  | [], cm, k, u, _, _, hc => ⟨cm, rfl, by simpa using hc⟩
  | x :: xs, cm, k, u, hb, hr, hc => by
    obtain ⟨res, hres⟩ := Option.isSome_iff_exists.mp (hr x (by simp))
    rw [cfp_go_cons (n : Int) b r x xs cm k res hres, rep_cons, ← mul_assoc, hres, Option.getD_some]
    exact cfp_go_unit hn b r xs _ _ _ (fun y hy => hb y (by simp [hy])) (fun y hy => hr y (by simp [hy]))
      (repU_mul hn hc (expInto_unit hn b x.base (hb x (by simp)) k _))

/-- **`CommitmentsFromProof` in the unit group**: with all bases invertible and all responses
    present it returns (no panic) the representative of
    `(∏ lhs)^(-c) · ∏ base^(power·response)`. -/
theorem commitmentFromProof_unit (hn : 1 < n) (s : QrStructure) (c : Int) (b r : String → Option Int)
    (hl : ∀ l ∈ s.lhs, UnitBase n b l.base) (hb : ∀ x ∈ s.rhs, UnitBase n b x.base)
    (hr : ∀ x ∈ s.rhs, (r x.secret).isSome = true) :
    ∃ v, s.commitmentFromProof n c b r = .ok v ∧
      RepU n v (((rep (fun l : LhsContribution => baseU n b l.base) (fun l => l.power) s.lhs)⁻¹) ^ c *
        rep (fun x : RhsContribution => baseU n b x.base)
          (fun x => x.power * (r x.secret).getD 0) s.rhs) := by
  rw [commitmentFromProof_eq]
  exact cfp_go_unit hn b r s.rhs _ 0 _ hb hr (cfpC0_unit hn s c b hl)

end BridgeQr

section BridgeQr2
open Gabi.Alg
variable {n : ℕ}

theorem cfs_go_cons (n : Int) (b r : String → Option Int) (x : RhsContribution)
    (xs : List RhsContribution) (c k rnd : Int) (hrnd : r x.secret = some rnd) :
    QrStructure.commitmentFromSecrets.go n b r (x :: xs) c k =
      QrStructure.commitmentFromSecrets.go n b r xs
        (c * expInto k (b x.base) (x.power * rnd) n % n) (expInto k (b x.base) (x.power * rnd) n) := by
  show (deref _ (r x.secret) >>= _) = _
  rw [hrnd]; rfl

theorem cfs_go_unit (hn : 1 < n) (b r : String → Option Int) :
    ∀ (rs : List RhsContribution) (cm k : Int) (u : (ZMod n)ˣ),
      (∀ x ∈ rs, UnitBase n b x.base) → (∀ x ∈ rs, (r x.secret).isSome = true) → RepU n cm u →
      ∃ v, QrStructure.commitmentFromSecrets.go n b r rs cm k = .ok v ∧
        RepU n v (u * rep (fun x : RhsContribution => baseU n b x.base)
          (fun x => x.power * (r x.secret).getD 0) rs)
  | [], cm, k, u, _, _, hc => ⟨cm, rfl, by simpa using hc⟩
  | x :: xs, cm, k, u, hb, hr, hc => by
    obtain ⟨res, hres⟩ := Option.isSome_iff_exists.mp (hr x (by simp))
    rw [cfs_go_cons (n : Int) b r x xs cm k res hres, rep_cons, ← mul_assoc, hres, Option.getD_some]
    exact cfs_go_unit hn b r xs _ _ _ (fun y hy => hb y (by simp [hy])) (fun y hy => hr y (by simp [hy]))
      (repU_mul hn hc (expInto_unit hn b x.base (hb x (by simp)) k _))

/-- **`CommitmentsFromSecrets` in the unit group**: `∏ base^(power·randomizer)`. -/
theorem commitmentFromSecrets_unit (hn : 1 < n) (s : QrStructure) (b r : String → Option Int)
    (hb : ∀ x ∈ s.rhs, UnitBase n b x.base) (hr : ∀ x ∈ s.rhs, (r x.secret).isSome = true) :
    ∃ v, s.commitmentFromSecrets n b r = .ok v ∧
      RepU n v (rep (fun x : RhsContribution => baseU n b x.base)
          (fun x => x.power * (r x.secret).getD 0) s.rhs) := by
  obtain ⟨v, hv, hrep⟩ := cfs_go_unit hn b r s.rhs 1 0 1 hb hr (repU_one hn)
  rw [one_mul] at hrep
  exact ⟨v, hv, hrep⟩

/-- **Model-level completeness of a representation proof.** If the relation
    `∏ lhs = ∏ base^(power·secret)` holds in the unit group of `ZMod n`, then for the honest
    responses `rnd + c·secret` the verifier's `CommitmentsFromProof` returns exactly the
    integer the prover's `CommitmentsFromSecrets` produced. -/
theorem model_repr_complete (hn : 1 < n) (s : QrStructure) (c : Int) (b : String → Option Int)
    (sec rnd : String → Int)
    (hl : ∀ l ∈ s.lhs, UnitBase n b l.base) (hb : ∀ x ∈ s.rhs, UnitBase n b x.base)
    (hrel : rep (fun l : LhsContribution => baseU n b l.base) (fun l => l.power) s.lhs =
      rep (fun x : RhsContribution => baseU n b x.base) (fun x => x.power * sec x.secret) s.rhs) :
    s.commitmentFromProof n c b (fun name => some (rnd name + c * sec name)) =
      s.commitmentFromSecrets n b (fun name => some (rnd name)) ∧
    ∃ v, s.commitmentFromSecrets n b (fun name => some (rnd name)) = .ok v := by
  obtain ⟨v, hv, hrv⟩ := commitmentFromProof_unit hn s c b (fun name => some (rnd name + c * sec name))
    hl hb (fun _ _ => rfl)
  obtain ⟨w, hw, hrw⟩ := commitmentFromSecrets_unit hn s b (fun name => some (rnd name)) hb
    (fun _ _ => rfl)
  simp only [Option.getD_some] at hrv hrw
  have := repr_complete (fun x : RhsContribution => baseU n b x.base) (fun x => x.power)
    (fun x => sec x.secret) (fun x => rnd x.secret) s.rhs c _ hrel
  rw [this] at hrv
  rw [hv, hw, hrv.unique hrw]
  exact ⟨rfl, w, rfl⟩

/-- **Model-level special soundness of a representation proof.** Two response sets that make
    `CommitmentsFromProof` return the same integer under challenges `c`, `c'` satisfy
    `(∏ lhs)^(c-c') = ∏ base^(power·(res-res'))` in the unit group of `ZMod n`. -/
theorem model_repr_special_soundness (hn : 1 < n) (s : QrStructure) (c c' : Int)
    (b r r' : String → Option Int) (T : Int)
    (hl : ∀ l ∈ s.lhs, UnitBase n b l.base) (hb : ∀ x ∈ s.rhs, UnitBase n b x.base)
    (hr : ∀ x ∈ s.rhs, (r x.secret).isSome = true) (hr' : ∀ x ∈ s.rhs, (r' x.secret).isSome = true)
    (h1 : s.commitmentFromProof n c b r = .ok T) (h2 : s.commitmentFromProof n c' b r' = .ok T) :
    (rep (fun l : LhsContribution => baseU n b l.base) (fun l => l.power) s.lhs) ^ (c - c') =
      rep (fun x : RhsContribution => baseU n b x.base)
        (fun x => x.power * ((r x.secret).getD 0 - (r' x.secret).getD 0)) s.rhs := by
  obtain ⟨v, hv, hrv⟩ := commitmentFromProof_unit hn s c b r hl hb hr
  obtain ⟨w, hw, hrw⟩ := commitmentFromProof_unit hn s c' b r' hl hb hr'
  rw [h1] at hv; cases hv
  rw [h2] at hw; cases hw
  have heq := Units.ext (hrv.2.2.symm.trans hrw.2.2)
  exact repr_special_soundness (fun x : RhsContribution => baseU n b x.base) (fun x => x.power)
    (fun x => (r x.secret).getD 0) (fun x => (r' x.secret).getD 0) s.rhs c c' _ _ heq rfl

end BridgeQr2

section BridgeNonRev
open Gabi.Alg
variable {n : ℕ}

theorem mapM_three_ok {α β ε} (f : α → Except ε β) (a b c : α) (cs : List β)
    (h : [a, b, c].mapM f = .ok cs) :
    ∃ x y z, f a = .ok x ∧ f b = .ok y ∧ f c = .ok z ∧ cs = [x, y, z] := by
  simp only [List.mapM_cons, List.mapM_nil] at h
  rcases ha : f a with e | x
  · rw [ha] at h; cases h
  rcases hb : f b with e | y
  · rw [ha, hb] at h; cases h
  rcases hc : f c with e | z
  · rw [ha, hb, hc] at h; cases h
  rw [ha, hb, hc] at h
  cases h
  exact ⟨x, y, z, rfl, rfl, rfl, rfl⟩

theorem revBases_congr (pk : PublicKey) (p q : NonRevProof) (h1 : p.cr = q.cr) (h2 : p.cu = q.cu)
    (h3 : p.nu = q.nu) : revBases pk p = revBases pk q := by
  funext name
  unfold revBases
  split <;> first | rfl | assumption

/-- the bases of the non-revocation relations are units when `G`, `H`, `ν` are coprime to `n`
    (a property of a well-formed key / accumulator) and `C_r`, `C_u` pass the verifier's unit
    check. -/
theorem revBases_units (pk : PublicKey) (p : NonRevProof) (g h cr cu nu : Int)
    (hg : pk.g = some g) (hh : pk.h = some h) (hcr : p.cr = some cr) (hcu : p.cu = some cu)
    (hnu : p.nu = some nu)
    (ug : Int.gcd g n = 1) (uh : Int.gcd h n = 1) (ucr : Int.gcd cr n = 1) (ucu : Int.gcd cu n = 1)
    (unu : Int.gcd nu n = 1) :
    ∀ name ∈ ["G", "H", "cr", "cu", "nu", "one"], UnitBase n (revBases pk p) name := by
  intro name hname
  simp only [List.mem_cons, List.not_mem_nil, or_false] at hname
  rcases hname with rfl | rfl | rfl | rfl | rfl | rfl
  · exact ⟨g, hg, ug⟩
  · exact ⟨h, hh, uh⟩
  · exact ⟨cr, hcr, ucr⟩
  · exact ⟨cu, hcu, ucu⟩
  · exact ⟨nu, hnu, unu⟩
  · exact ⟨1, rfl, by simp⟩

/-- **Special soundness of the model's non-revocation verifier.** Two proofs with the same
    `C_r, C_u, ν` whose reconstructed commitments (the values hashed into the challenge) agree
    under different challenges satisfy the three extracted relations in `(ZMod n)ˣ`. -/
theorem nonrev_model_special_soundness (hn : 1 < n) (pk : PublicKey) (hpk : pk.n = (n : Int))
    (p q : NonRevProof) (g h cr cu nu c c' : Int) (cs : List Int)
    (hg : pk.g = some g) (hh : pk.h = some h)
    (hcr : p.cr = some cr) (hcu : p.cu = some cu) (hnu : p.nu = some nu)
    (hcr' : q.cr = some cr) (hcu' : q.cu = some cu) (hnu' : q.nu = some nu)
    (ug : Int.gcd g n = 1) (uh : Int.gcd h n = 1) (ucr : Int.gcd cr n = 1) (ucu : Int.gcd cu n = 1)
    (unu : Int.gcd nu n = 1)
    (hp : ∀ name ∈ Gen.revSecretNames, (p.response name).isSome = true)
    (hq : ∀ name ∈ Gen.revSecretNames, (q.response name).isSome = true)
    (h1 : revStructures.mapM (fun s => s.commitmentFromProof pk.n c (revBases pk p) p.response) = .ok cs)
    (h2 : revStructures.mapM (fun s => s.commitmentFromProof pk.n c' (revBases pk q) q.response) = .ok cs) :
    let R := fun name => (p.response name).getD 0 - (q.response name).getD 0
    zunit n cr ^ (c - c') = zunit n g ^ R "epsilon" * zunit n h ^ R "zeta" ∧
    zunit n nu ^ (c - c') = zunit n cu ^ R "alpha" * zunit n h ^ (-R "beta") ∧
    1 = zunit n cr ^ R "alpha" * zunit n g ^ (-R "beta") * zunit n h ^ (-R "delta") := by
  intro R
  have hbq : revBases pk q = revBases pk p :=
    revBases_congr pk q p (hcr'.trans hcr.symm) (hcu'.trans hcu.symm) (hnu'.trans hnu.symm)
  rw [hbq] at h2
  rw [hpk, revStructures_eq] at h1 h2
  obtain ⟨x1, y1, z1, a1, b1, c1, rfl⟩ := mapM_three_ok _ _ _ _ _ h1
  obtain ⟨x2, y2, z2, a2, b2, c2, hcs⟩ := mapM_three_ok _ _ _ _ _ h2
  cases hcs
  have hU := revBases_units (n := n) pk p g h cr cu nu hg hh hcr hcu hnu ug uh ucr ucu unu
  have hS : ∀ name, name ∈ ["alpha", "beta", "delta", "epsilon", "zeta"] →
      (p.response name).isSome = true := hp
  have hS' : ∀ name, name ∈ ["alpha", "beta", "delta", "epsilon", "zeta"] →
      (q.response name).isSome = true := hq
  have bG : baseU n (revBases pk p) "G" = zunit n g := by simp [baseU, revBases, hg]
  have bH : baseU n (revBases pk p) "H" = zunit n h := by simp [baseU, revBases, hh]
  have bcr : baseU n (revBases pk p) "cr" = zunit n cr := by simp [baseU, revBases, hcr]
  have bcu : baseU n (revBases pk p) "cu" = zunit n cu := by simp [baseU, revBases, hcu]
  have bnu : baseU n (revBases pk p) "nu" = zunit n nu := by simp [baseU, revBases, hnu]
  have bone : baseU n (revBases pk p) "one" = 1 := by simp [baseU, revBases, zunit_one]
  have e1 := model_repr_special_soundness hn _ c c' _ p.response q.response _
    (by intro l hl; simp only [List.mem_cons, List.not_mem_nil, or_false] at hl; subst hl; exact hU _ (by simp))
    (by intro x hx; simp only [List.mem_cons, List.not_mem_nil, or_false] at hx
        rcases hx with rfl | rfl <;> exact hU _ (by simp))
    (by intro x hx; simp only [List.mem_cons, List.not_mem_nil, or_false] at hx
        rcases hx with rfl | rfl <;> exact hS _ (by simp))
    (by intro x hx; simp only [List.mem_cons, List.not_mem_nil, or_false] at hx
        rcases hx with rfl | rfl <;> exact hS' _ (by simp)) a1 a2
  have e2 := model_repr_special_soundness hn _ c c' _ p.response q.response _
    (by intro l hl; simp only [List.mem_cons, List.not_mem_nil, or_false] at hl; subst hl; exact hU _ (by simp))
    (by intro x hx; simp only [List.mem_cons, List.not_mem_nil, or_false] at hx
        rcases hx with rfl | rfl <;> exact hU _ (by simp))
    (by intro x hx; simp only [List.mem_cons, List.not_mem_nil, or_false] at hx
        rcases hx with rfl | rfl <;> exact hS _ (by simp))
    (by intro x hx; simp only [List.mem_cons, List.not_mem_nil, or_false] at hx
        rcases hx with rfl | rfl <;> exact hS' _ (by simp)) b1 b2
  have e3 := model_repr_special_soundness hn _ c c' _ p.response q.response _
    (by intro l hl; simp only [List.mem_cons, List.not_mem_nil, or_false] at hl; subst hl; exact hU _ (by simp))
    (by intro x hx; simp only [List.mem_cons, List.not_mem_nil, or_false] at hx
        rcases hx with rfl | rfl | rfl <;> exact hU _ (by simp))
    (by intro x hx; simp only [List.mem_cons, List.not_mem_nil, or_false] at hx
        rcases hx with rfl | rfl | rfl <;> exact hS _ (by simp))
    (by intro x hx; simp only [List.mem_cons, List.not_mem_nil, or_false] at hx
        rcases hx with rfl | rfl | rfl <;> exact hS' _ (by simp)) c1 c2
  simp only [rep_cons, rep_nil, mul_one, bG, bH, bcr, bcu, bnu, bone, zpow_one, one_mul, one_zpow,
    neg_mul] at e1 e2 e3
  refine ⟨e1, e2, ?_⟩
  rw [e3]
  simp only [R, mul_assoc]

end BridgeNonRev

section BridgeNonRev2
open Gabi.Alg
variable {n : ℕ}

/-- the secrets of an honest non-revocation prover: witness exponent `e`, blinding `r₂ r₃`. -/
def revSecrets (e r2 r3 : Int) (name : String) : Int :=
  match name with
  | "alpha" => e
  | "beta" => e * r2
  | "delta" => e * r3
  | "epsilon" => r2
  | "zeta" => r3
  | _ => 0

/-- **Completeness of the model's non-revocation verifier.** If `C_r = G^r₂ H^r₃`,
    `C_u = u·H^r₂` and `u^e = ν` hold modulo `n` (all values invertible), then for every
    challenge and all randomisers the three commitments the verifier reconstructs from the
    honest responses are the integers the prover committed to. -/
theorem nonrev_model_complete (hn : 1 < n) (pk : PublicKey) (hpk : pk.n = (n : Int))
    (p : NonRevProof) (g h cr cu nu e r2 r3 c : Int) (rnd : String → Int) (u : (ZMod n)ˣ)
    (hg : pk.g = some g) (hh : pk.h = some h)
    (hcr : p.cr = some cr) (hcu : p.cu = some cu) (hnu : p.nu = some nu)
    (ug : Int.gcd g n = 1) (uh : Int.gcd h n = 1) (ucr : Int.gcd cr n = 1) (ucu : Int.gcd cu n = 1)
    (unu : Int.gcd nu n = 1)
    (hCr : zunit n cr = zunit n g ^ r2 * zunit n h ^ r3)
    (hCu : zunit n cu = u * zunit n h ^ r2)
    (hw : u ^ e = zunit n nu) :
    revStructures.mapM (fun s => s.commitmentFromProof pk.n c (revBases pk p)
        (fun name => some (rnd name + c * revSecrets e r2 r3 name))) =
      revStructures.mapM (fun s => s.commitmentFromSecrets pk.n (revBases pk p)
        (fun name => some (rnd name))) ∧
    ∃ cs, revStructures.mapM (fun s => s.commitmentFromSecrets pk.n (revBases pk p)
        (fun name => some (rnd name))) = .ok cs := by
  have hU := revBases_units (n := n) pk p g h cr cu nu hg hh hcr hcu hnu ug uh ucr ucu unu
  have bG : baseU n (revBases pk p) "G" = zunit n g := by simp [baseU, revBases, hg]
  have bH : baseU n (revBases pk p) "H" = zunit n h := by simp [baseU, revBases, hh]
  have bcr : baseU n (revBases pk p) "cr" = zunit n cr := by simp [baseU, revBases, hcr]
  have bcu : baseU n (revBases pk p) "cu" = zunit n cu := by simp [baseU, revBases, hcu]
  have bnu : baseU n (revBases pk p) "nu" = zunit n nu := by simp [baseU, revBases, hnu]
  have bone : baseU n (revBases pk p) "one" = 1 := by simp [baseU, revBases, zunit_one]
  obtain ⟨-, rel2, rel3⟩ := nonrev_relations (g := zunit n g) (h := zunit n h) (r2 := r2) (r3 := r3) hw
  rw [← hCu] at rel2
  rw [← hCr] at rel3
  obtain ⟨e1, v1, w1⟩ := model_repr_complete hn
    ⟨[⟨"cr", 1⟩], [⟨"G", "epsilon", 1⟩, ⟨"H", "zeta", 1⟩]⟩ c (revBases pk p) (revSecrets e r2 r3) rnd
    (by intro l hl; simp only [List.mem_cons, List.not_mem_nil, or_false] at hl; subst hl; exact hU _ (by simp))
    (by intro x hx; simp only [List.mem_cons, List.not_mem_nil, or_false] at hx
        rcases hx with rfl | rfl <;> exact hU _ (by simp))
    (by simp only [rep_cons, rep_nil, mul_one, bG, bH, bcr, zpow_one, one_mul, revSecrets]; exact hCr)
  obtain ⟨e2, v2, w2⟩ := model_repr_complete hn
    ⟨[⟨"nu", 1⟩], [⟨"cu", "alpha", 1⟩, ⟨"H", "beta", -1⟩]⟩ c (revBases pk p) (revSecrets e r2 r3) rnd
    (by intro l hl; simp only [List.mem_cons, List.not_mem_nil, or_false] at hl; subst hl; exact hU _ (by simp))
    (by intro x hx; simp only [List.mem_cons, List.not_mem_nil, or_false] at hx
        rcases hx with rfl | rfl <;> exact hU _ (by simp))
    (by simp only [rep_cons, rep_nil, mul_one, bcu, bH, bnu, zpow_one, one_mul, revSecrets, neg_mul]
        exact rel2)
  obtain ⟨e3, v3, w3⟩ := model_repr_complete hn
    ⟨[⟨"one", 1⟩], [⟨"cr", "alpha", 1⟩, ⟨"G", "beta", -1⟩, ⟨"H", "delta", -1⟩]⟩ c (revBases pk p)
    (revSecrets e r2 r3) rnd
    (by intro l hl; simp only [List.mem_cons, List.not_mem_nil, or_false] at hl; subst hl; exact hU _ (by simp))
    (by intro x hx; simp only [List.mem_cons, List.not_mem_nil, or_false] at hx
        rcases hx with rfl | rfl | rfl <;> exact hU _ (by simp))
    (by simp only [rep_cons, rep_nil, mul_one, bcr, bG, bH, bone, zpow_one, one_mul, revSecrets, neg_mul]
        rw [rel3]; simp only [mul_assoc])
  rw [hpk, revStructures_eq]
  simp only [List.mapM_cons, List.mapM_nil, e1, e2, e3, w1, w2, w3]
  exact ⟨trivial, _, rfl⟩

end BridgeNonRev2

/-! ## a concrete torsion-free group with two independent generators (non-vacuity of the
    extraction theorem) -/

/-- the free abelian group on two generators, written multiplicatively. -/
abbrev Z2 := Multiplicative (ℤ × ℤ)
def gZ : Z2 := Multiplicative.ofAdd (1, 0)
def hZ : Z2 := Multiplicative.ofAdd (0, 1)

theorem z2_ext {x y : Z2} (h1 : (Multiplicative.toAdd x).1 = (Multiplicative.toAdd y).1)
    (h2 : (Multiplicative.toAdd x).2 = (Multiplicative.toAdd y).2) : x = y := by
  apply Multiplicative.toAdd.injective
  exact Prod.ext h1 h2

theorem z2_zpow (x : Z2) (k : ℤ) :
    Multiplicative.toAdd (x ^ k) = (k * (Multiplicative.toAdd x).1, k * (Multiplicative.toAdd x).2) := by
  rw [toAdd_zpow]
  ext <;> simp

theorem gh_toAdd (a b : ℤ) : Multiplicative.toAdd (gZ ^ a * hZ ^ b) = (a, b) := by
  rw [toAdd_mul, z2_zpow, z2_zpow]
  simp [gZ, hZ]

theorem z2_indep (a b : ℤ) (h : gZ ^ a * hZ ^ b = 1) : a = 0 ∧ b = 0 := by
  have := congrArg Multiplicative.toAdd h
  rw [gh_toAdd, toAdd_one] at this
  exact ⟨congrArg Prod.fst this, congrArg Prod.snd this⟩

theorem z2_torsion_free (k : ℤ) (hk : k ≠ 0) (x : Z2) (h : x ^ k = 1) : x = 1 := by
  have := congrArg Multiplicative.toAdd h
  rw [z2_zpow, toAdd_one] at this
  have h1 : k * (Multiplicative.toAdd x).1 = 0 := congrArg Prod.fst this
  have h2 : k * (Multiplicative.toAdd x).2 = 0 := congrArg Prod.snd this
  apply z2_ext
  · simpa [hk] using h1
  · simpa [hk] using h2


end Gabi.Misc
