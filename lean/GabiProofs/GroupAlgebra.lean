/-
  GabiProofs.GroupAlgebra — the algebraic core of the CL-signature / Idemix protocols in an
  arbitrary commutative group `G` (integer exponents).  Nothing here mentions the executable
  model; `GabiProofs.Bridge` transports these statements to `(ZMod n)ˣ` and from there to
  `goExp`/`modPow` of the model.

  Conventions: `rep R m l = ∏_{j ∈ l} R j ^ m j` for a list `l` of indices (indices may repeat,
  nothing depends on `l` being duplicate free).
-/
import Mathlib.Algebra.Group.Basic
import Mathlib.Algebra.Group.TypeTags.Basic
import Mathlib.Algebra.BigOperators.Group.List.Basic
import Mathlib.Tactic.Module
import Mathlib.Tactic.LinearCombination
import Mathlib.Tactic.Ring
import Mathlib.Data.ZMod.Basic

namespace Gabi.Alg

variable {G : Type*} [CommGroup G] {ι : Type*}

/-- `∏_{j ∈ l} R j ^ m j`. -/
def rep (R : ι → G) (m : ι → ℤ) (l : List ι) : G := (l.map fun j => R j ^ m j).prod

@[simp] theorem rep_nil (R : ι → G) (m : ι → ℤ) : rep R m [] = 1 := rfl

@[simp] theorem rep_cons (R : ι → G) (m : ι → ℤ) (i : ι) (l : List ι) :
    rep R m (i :: l) = R i ^ m i * rep R m l := by
  simp [rep]

theorem rep_append (R : ι → G) (m : ι → ℤ) (l l' : List ι) :
    rep R m (l ++ l') = rep R m l * rep R m l' := by
  simp [rep]

theorem rep_add (R : ι → G) (a b : ι → ℤ) (l : List ι) :
    rep R (fun j => a j + b j) l = rep R a l * rep R b l := by
  induction l with
  | nil => simp
  | cons i l ih => simp only [rep_cons, ih, zpow_add]; exact mul_mul_mul_comm _ _ _ _

theorem rep_const_mul (R : ι → G) (c : ℤ) (a : ι → ℤ) (l : List ι) :
    rep R (fun j => c * a j) l = rep R a l ^ c := by
  induction l with
  | nil => simp
  | cons i l ih => rw [rep_cons, rep_cons, ih, mul_zpow, zpow_mul']

theorem rep_neg (R : ι → G) (a : ι → ℤ) (l : List ι) :
    rep R (fun j => - a j) l = (rep R a l)⁻¹ := by
  induction l with
  | nil => simp
  | cons i l ih => simp only [rep_cons, ih, zpow_neg, mul_inv]

theorem rep_sub (R : ι → G) (a b : ι → ℤ) (l : List ι) :
    rep R (fun j => a j - b j) l = rep R a l / rep R b l := by
  have : (fun j => a j - b j) = fun j => a j + (fun j => - b j) j := by
    funext j; ring
  rw [this, rep_add, rep_neg, div_eq_mul_inv]

theorem rep_congr (R : ι → G) {a b : ι → ℤ} {l : List ι} (h : ∀ j ∈ l, a j = b j) :
    rep R a l = rep R b l := by
  induction l with
  | nil => rfl
  | cons i l ih =>
    simp only [rep_cons]
    rw [h i (by simp), ih (fun j hj => h j (by simp [hj]))]

/-- if every base has order dividing `k`, so has every representation. -/
theorem rep_zpow_eq_one (R : ι → G) (m : ι → ℤ) (l : List ι) (k : ℤ)
    (h : ∀ j ∈ l, R j ^ k = 1) : rep R m l ^ k = 1 := by
  induction l with
  | nil => simp
  | cons i l ih =>
    rw [rep_cons, mul_zpow, ih (fun j hj => h j (by simp [hj])), mul_one, ← zpow_mul, mul_comm,
      zpow_mul, h i (by simp), one_zpow]

/-- `rep` over a list of (index, exponent) pairs, the shape of the model's `IntMap`s. -/
theorem rep_pairs_eq (R : ι → G) (l : List (ι × ℤ)) :
    rep (fun kv : ι × ℤ => R kv.1) (fun kv => kv.2) l = (l.map fun kv => R kv.1 ^ kv.2).prod := rfl

/-! ### a small decision procedure: move to `Additive G`, a ℤ-module, and use `module` -/

omit [CommGroup G] in
theorem ofMul_congr {a b : G} (h : a = b) : Additive.ofMul a = Additive.ofMul b := congrArg _ h

/-- `to_additive_goal` rewrites a goal `lhs = rhs` in a commutative group `G` as the same
    equation in the ℤ-module `Additive G`; `module` / `linear_combination (norm := module)` then
    finish (hypotheses are translated with `ofMul_congr` + `simp only [ofMul_mul, ofMul_zpow, …]`). -/
macro "to_additive_goal" : tactic =>
  `(tactic| (apply Additive.ofMul.injective
             try simp only [ofMul_mul, ofMul_zpow, ofMul_div, ofMul_inv, ofMul_one]))

/-! ### A1–A3: CL signatures -/

/-- **A1** the signing equation: an `e`-th root `A` of `Q = Z / (S^v · R)` verifies. -/
theorem cl_sign_verifies {A R S Z : G} {e v : ℤ} (h : A ^ e = Z / (S ^ v * R)) :
    A ^ e * R * S ^ v = Z := by
  have h := ofMul_congr h
  simp only [ofMul_mul, ofMul_zpow, ofMul_div] at h
  to_additive_goal
  linear_combination (norm := module) (1 : ℤ) • h

/-- **A1'** the issuer's computation: with `Q = Z / (S^v · R)` of order dividing `ord`,
    `d·e ≡ 1 (mod ord)` and `A = Q^d`, the signature verifies. -/
theorem cl_sign_verifies_of_inverse {A Q R S Z : G} {e v d ord k : ℤ}
    (hQ : Q = Z / (S ^ v * R)) (hord : Q ^ ord = 1) (hd : d * e = 1 + k * ord) (hA : A = Q ^ d) :
    A ^ e * R * S ^ v = Z := by
  apply cl_sign_verifies
  rw [← hQ, hA, ← zpow_mul, hd, zpow_add, zpow_one, mul_comm k, zpow_mul, hord, one_zpow, mul_one]

/-- **A2** one randomisation step keeps the verification equation. -/
theorem cl_randomize {A R S Z : G} {e v : ℤ} (r : ℤ) (h : A ^ e * R * S ^ v = Z) :
    (A * S ^ r) ^ e * R * S ^ (v - e * r) = Z := by
  have h := ofMul_congr h
  simp only [ofMul_mul, ofMul_zpow] at h
  to_additive_goal
  linear_combination (norm := module) (1 : ℤ) • h

/-- the state transformation of `CLSignature.Randomize` on `(A, v)`. -/
def randStep (S : G) (e : ℤ) (Av : G × ℤ) (r : ℤ) : G × ℤ := (Av.1 * S ^ r, Av.2 - e * r)

/-- **A2 (iterated)** any number of randomisation steps keeps the verification equation. -/
theorem cl_randomize_list {R S Z : G} {e : ℤ} (rs : List ℤ) (Av : G × ℤ)
    (h : Av.1 ^ e * R * S ^ Av.2 = Z) :
    ((rs.foldl (randStep S e) Av).1) ^ e * R * S ^ (rs.foldl (randStep S e) Av).2 = Z := by
  induction rs generalizing Av with
  | nil => exact h
  | cons r rs ih => exact ih _ (cl_randomize r h)

/-- closed form of the iterated randomisation. -/
theorem randStep_foldl (S : G) (e : ℤ) (rs : List ℤ) (Av : G × ℤ) :
    rs.foldl (randStep S e) Av = (Av.1 * S ^ rs.sum, Av.2 - e * rs.sum) := by
  induction rs generalizing Av with
  | nil => simp
  | cons r rs ih =>
    rw [List.foldl_cons, ih]
    simp only [randStep, List.sum_cons, zpow_add, mul_assoc]
    congr 1; ring

/-- **A3** one signature `(A, e, v)` verifying for two blocks forces the blocks to be equal. -/
theorem cl_binds_block {A R R' S Z : G} {e v : ℤ}
    (h : A ^ e * R * S ^ v = Z) (h' : A ^ e * R' * S ^ v = Z) : R = R' := by
  have h := ofMul_congr h
  have h' := ofMul_congr h'
  simp only [ofMul_mul, ofMul_zpow] at h h'
  to_additive_goal
  linear_combination (norm := module) (1 : ℤ) • h - (1 : ℤ) • h'

/-- **A3 (explicit relation)** if the two blocks are representations `∏ R_i^{m_i}` and
    `∏ R_i^{m'_i}` over the same index list, then `∏ R_i^{m_i - m'_i} = 1`: a non-trivial
    relation among the bases unless `m = m'`. -/
theorem cl_binds_block_rep {A S Z : G} {e v : ℤ} (Rb : ι → G) (m m' : ι → ℤ) (l : List ι)
    (h : A ^ e * rep Rb m l * S ^ v = Z) (h' : A ^ e * rep Rb m' l * S ^ v = Z) :
    rep Rb (fun j => m j - m' j) l = 1 := by
  rw [rep_sub, cl_binds_block h h', div_self']

/-! ### A4–A5: disclosure proofs (ProofD) -/

/-- **A4** completeness of the disclosure proof. `D` disclosed, `H` hidden indices,
    `E0 = 2^(le-1)` (any integer here). -/
theorem proofD_complete {A' S Z : G} (R : ι → G) (D H : List ι) (a m rr : ι → ℤ)
    {e v' eC vC c E0 : ℤ}
    (hsig : A' ^ e * rep R a D * rep R m H * S ^ v' = Z) :
    (Z / (A' ^ E0 * rep R a D)) ^ (-c) * A' ^ (eC + c * (e - E0)) * S ^ (vC + c * v') *
        rep R (fun j => rr j + c * m j) H
      = A' ^ eC * S ^ vC * rep R rr H := by
  rw [rep_add, rep_const_mul]
  have h := ofMul_congr hsig
  simp only [ofMul_mul, ofMul_zpow] at h
  to_additive_goal
  linear_combination (norm := module) c • h

/-- **A5** special soundness of the disclosure proof: two accepting transcripts with the same
    first message (`A'`, disclosed part `K`, commitment `T`) give a representation of
    `K^(c - c')`. (For `c ≠ c'` this is a non-trivial relation; with `c = c'` it is vacuous.) -/
theorem proofD_special_soundness {A' S K T : G} (R : ι → G) (H : List ι) (s s' : ι → ℤ)
    {c c' eR eR' vR vR' : ℤ}
    (h1 : K ^ (-c) * A' ^ eR * S ^ vR * rep R s H = T)
    (h2 : K ^ (-c') * A' ^ eR' * S ^ vR' * rep R s' H = T) :
    K ^ (c - c') = A' ^ (eR - eR') * S ^ (vR - vR') * rep R (fun j => s j - s' j) H := by
  rw [rep_sub]
  have h1 := ofMul_congr h1
  have h2 := ofMul_congr h2
  simp only [ofMul_mul, ofMul_zpow] at h1 h2
  to_additive_goal
  linear_combination (norm := module) (1 : ℤ) • h2 - (1 : ℤ) • h1

/-- **A5 (extractor form)** unfolding `K = Z / (A'^E0 · ∏_D R_i^{a_i})`: the two transcripts
    yield `Z^(c-c') = A'^(E0·(c-c') + (eR-eR')) · (∏_D R_i^{a_i})^(c-c') · ∏_H R_j^{s_j-s'_j} ·
    S^(vR-vR')`, i.e. a CL-signature-shaped relation "in the exponent `c - c'`". -/
theorem proofD_extract {A' S Z T : G} (R : ι → G) (D H : List ι) (a s s' : ι → ℤ)
    {c c' eR eR' vR vR' E0 : ℤ}
    (h1 : (Z / (A' ^ E0 * rep R a D)) ^ (-c) * A' ^ eR * S ^ vR * rep R s H = T)
    (h2 : (Z / (A' ^ E0 * rep R a D)) ^ (-c') * A' ^ eR' * S ^ vR' * rep R s' H = T) :
    A' ^ (E0 * (c - c') + (eR - eR')) * rep R (fun j => (c - c') * a j) D *
        rep R (fun j => s j - s' j) H * S ^ (vR - vR') = Z ^ (c - c') := by
  rw [rep_sub, rep_const_mul]
  have h1 := ofMul_congr h1
  have h2 := ofMul_congr h2
  simp only [ofMul_mul, ofMul_zpow, ofMul_div] at h1 h2
  to_additive_goal
  linear_combination (norm := module) (1 : ℤ) • h1 - (1 : ℤ) • h2

/-! ### A6: ProofU (commitment to the user's secrets at issuance) -/

/-- **A6 completeness**. -/
theorem proofU_complete {S R0 : G} (R : ι → G) (L : List ι) (m mt : ι → ℤ)
    {v' s vt st c : ℤ} :
    (S ^ v' * R0 ^ s * rep R m L) ^ (-c) * S ^ (vt + c * v') * R0 ^ (st + c * s) *
        rep R (fun j => mt j + c * m j) L
      = S ^ vt * R0 ^ st * rep R mt L := by
  rw [rep_add, rep_const_mul]
  to_additive_goal
  module

/-- **A6 special soundness**. -/
theorem proofU_special_soundness {U Ut S R0 : G} (R : ι → G) (L : List ι) (mR mR' : ι → ℤ)
    {c c' vR vR' sR sR' : ℤ}
    (h1 : U ^ (-c) * S ^ vR * R0 ^ sR * rep R mR L = Ut)
    (h2 : U ^ (-c') * S ^ vR' * R0 ^ sR' * rep R mR' L = Ut) :
    U ^ (c - c') = S ^ (vR - vR') * R0 ^ (sR - sR') * rep R (fun j => mR j - mR' j) L := by
  rw [rep_sub]
  have h1 := ofMul_congr h1
  have h2 := ofMul_congr h2
  simp only [ofMul_mul, ofMul_zpow] at h1 h2
  to_additive_goal
  linear_combination (norm := module) (1 : ℤ) • h2 - (1 : ℤ) • h1

/-! ### A7: ProofS (the issuer knows `d = e⁻¹`) -/

/-- **A7 completeness**. `Q = A^e` is what the verifier recomputes, `A = Q^d` is what the
    issuer computed, `Q^ord = 1`, and the response is any representative of
    `eC - c·d` modulo `ord`.  (The hypothesis `Q^(e·d) = Q` alone is *not* enough: the proof
    needs `A^(e·d) = A`, which is `hA` + `hQ`.) -/
theorem proofS_complete {A Q : G} {e d ord eC eR c k : ℤ}
    (hQ : Q = A ^ e) (hA : A = Q ^ d) (hord : Q ^ ord = 1) (heR : eR = eC - c * d + k * ord) :
    A ^ (c + eR * e) = Q ^ eC := by
  have hAc : A ^ c = Q ^ (d * c) := by rw [zpow_mul, ← hA]
  have hk : Q ^ (k * ord) = 1 := by rw [mul_comm, zpow_mul, hord, one_zpow]
  rw [zpow_add, mul_comm eR e, zpow_mul, ← hQ, hAc, ← zpow_add, heR]
  have : d * c + (eC - c * d + k * ord) = eC + k * ord := by ring
  rw [this, zpow_add, hk, mul_one]

/-- the hypothesis `Q^(e·d) = Q` (instead of `A = Q^d`) is *not* sufficient for completeness of
    ProofS: `G = C₆ = ⟨g⟩`, `A = g`, `e = 3`, `Q = g³`, `d = 1`, `ord = 2`, `eC = 0`, `c = 1`,
    `eR = -1`. -/
example : ∃ (A Q : Multiplicative (ZMod 6)) (e d ord eC eR c : ℤ),
    Q = A ^ e ∧ Q ^ (e * d) = Q ∧ Q ^ ord = 1 ∧ eR = eC - c * d ∧ A ^ (c + eR * e) ≠ Q ^ eC := by
  refine ⟨Multiplicative.ofAdd 1, Multiplicative.ofAdd 3, 3, 1, 2, 0, -1, 1, ?_, ?_, ?_, ?_, ?_⟩
  all_goals
    simp only [← ofAdd_zsmul, ← ofAdd_zero, ne_eq, Multiplicative.ofAdd.injective.eq_iff, mul_one]
  all_goals decide

/-- the same with the hypothesis the model provides: `A^ord = 1` and `e·d = 1 + j·ord`. -/
theorem proofS_complete' {A : G} {e d ord eC eR c k j : ℤ}
    (hord : A ^ ord = 1) (hd : e * d = 1 + j * ord) (heR : eR = eC - c * d + k * ord) :
    A ^ (c + eR * e) = (A ^ e) ^ eC := by
  have hmul : ∀ t : ℤ, A ^ (t * ord) = 1 := fun t => by rw [mul_comm, zpow_mul, hord, one_zpow]
  rw [← zpow_mul, heR]
  have : c + (eC - c * d + k * ord) * e = e * eC + (k * e - c * j) * ord := by
    linear_combination (-c) * hd
  rw [this, zpow_add, hmul, mul_one]

/-- **A7 special soundness**: two accepting transcripts with the same commitment. -/
theorem proofS_special_soundness {A AC : G} {e c c' eR eR' : ℤ}
    (h1 : A ^ (c + eR * e) = AC) (h2 : A ^ (c' + eR' * e) = AC) :
    A ^ ((c - c') + (eR - eR') * e) = 1 := by
  have : (c - c') + (eR - eR') * e = (c + eR * e) - (c' + eR' * e) := by ring
  rw [this, zpow_sub, h1, h2, mul_inv_cancel]

/-! ### A8: linked secrets -/

/-- **A8 (ProofD shape)** special soundness with the secret-key index `i0` split off the
    hidden list. -/
theorem proofD_special_soundness_sk {A' S K T : G} (R : ι → G) (i0 : ι) (H : List ι) (s s' : ι → ℤ)
    {c c' eR eR' vR vR' : ℤ}
    (h1 : K ^ (-c) * A' ^ eR * S ^ vR * rep R s (i0 :: H) = T)
    (h2 : K ^ (-c') * A' ^ eR' * S ^ vR' * rep R s' (i0 :: H) = T) :
    K ^ (c - c') =
      A' ^ (eR - eR') * S ^ (vR - vR') * (R i0 ^ (s i0 - s' i0) * rep R (fun j => s j - s' j) H) := by
  have := proofD_special_soundness R (i0 :: H) s s' h1 h2
  rwa [rep_cons] at this

/-- **A8** two proofs (here: a ProofD in `G` and a ProofU in a possibly different group `G₂`,
    e.g. under another issuer key) that answer the *same* challenges `c, c'` with the *same*
    secret-key responses `s0, s0'`: the two extracted relations contain the secret-key base with
    literally the same exponent `s0 - s0'`, i.e. the extractor outputs the same secret
    `(s0 - s0')/(c - c')` for both. -/
theorem linked_secrets {G₂ : Type*} [CommGroup G₂] {κ : Type*}
    {A' S K T : G} (R : ι → G) (i0 : ι) (H : List ι) (s s' : ι → ℤ)
    {U Ut S₂ R0 : G₂} (R₂ : κ → G₂) (L : List κ) (mR mR' : κ → ℤ)
    {c c' eR eR' vR vR' wR wR' s0 s0' : ℤ}
    (hs : s i0 = s0) (hs' : s' i0 = s0')
    (d1 : K ^ (-c) * A' ^ eR * S ^ vR * rep R s (i0 :: H) = T)
    (d2 : K ^ (-c') * A' ^ eR' * S ^ vR' * rep R s' (i0 :: H) = T)
    (u1 : U ^ (-c) * S₂ ^ wR * R0 ^ s0 * rep R₂ mR L = Ut)
    (u2 : U ^ (-c') * S₂ ^ wR' * R0 ^ s0' * rep R₂ mR' L = Ut) :
    K ^ (c - c') =
        A' ^ (eR - eR') * S ^ (vR - vR') * (R i0 ^ (s0 - s0') * rep R (fun j => s j - s' j) H) ∧
    U ^ (c - c') =
        S₂ ^ (wR - wR') * R0 ^ (s0 - s0') * rep R₂ (fun j => mR j - mR' j) L := by
  subst hs hs'
  exact ⟨proofD_special_soundness_sk R i0 H s s' d1 d2,
    proofU_special_soundness R₂ L mR mR' u1 u2⟩

/-- **A8 (two disclosure proofs)**. -/
theorem linked_secrets_DD {G₂ : Type*} [CommGroup G₂] {κ : Type*}
    {A' S K T : G} (R : ι → G) (i0 : ι) (H : List ι) (s s' : ι → ℤ)
    {A₂ S₂ K₂ T₂ : G₂} (R₂ : κ → G₂) (k0 : κ) (H₂ : List κ) (t t' : κ → ℤ)
    {c c' eR eR' vR vR' fR fR' wR wR' s0 s0' : ℤ}
    (hs : s i0 = s0) (hs' : s' i0 = s0') (ht : t k0 = s0) (ht' : t' k0 = s0')
    (d1 : K ^ (-c) * A' ^ eR * S ^ vR * rep R s (i0 :: H) = T)
    (d2 : K ^ (-c') * A' ^ eR' * S ^ vR' * rep R s' (i0 :: H) = T)
    (e1 : K₂ ^ (-c) * A₂ ^ fR * S₂ ^ wR * rep R₂ t (k0 :: H₂) = T₂)
    (e2 : K₂ ^ (-c') * A₂ ^ fR' * S₂ ^ wR' * rep R₂ t' (k0 :: H₂) = T₂) :
    K ^ (c - c') =
        A' ^ (eR - eR') * S ^ (vR - vR') * (R i0 ^ (s0 - s0') * rep R (fun j => s j - s' j) H) ∧
    K₂ ^ (c - c') =
        A₂ ^ (fR - fR') * S₂ ^ (wR - wR') * (R₂ k0 ^ (s0 - s0') * rep R₂ (fun j => t j - t' j) H₂) := by
  have a := proofD_special_soundness_sk R i0 H s s' d1 d2
  have b := proofD_special_soundness_sk R₂ k0 H₂ t t' e1 e2
  rw [hs, hs'] at a
  rw [ht, ht'] at b
  exact ⟨a, b⟩

/-! ### A9: keyshare -/

/-- **A9 (ProofD)** the credential is signed on the secret `m_u + ks`; the user commits with
    randomiser `r_u`, the keyshare server with `w` (`W = R0^w`), the merged response for the
    secret-key base is `(r_u + c·m_u) + (w + c·ks)`: the merged proof verifies against the
    merged commitment `T_u · W`. -/
theorem keyshare_proofD {A' S Z : G} (R : ι → G) (i0 : ι) (D H : List ι) (a m rr : ι → ℤ)
    {e v' eC vC c E0 mu ks ru w : ℤ}
    (hsig : A' ^ e * rep R a D * (R i0 ^ (mu + ks) * rep R m H) * S ^ v' = Z) :
    (Z / (A' ^ E0 * rep R a D)) ^ (-c) * A' ^ (eC + c * (e - E0)) * S ^ (vC + c * v') *
        (R i0 ^ ((ru + c * mu) + (w + c * ks)) * rep R (fun j => rr j + c * m j) H)
      = (A' ^ eC * S ^ vC * (R i0 ^ ru * rep R rr H)) * R i0 ^ w := by
  rw [rep_add, rep_const_mul]
  have h := ofMul_congr hsig
  simp only [ofMul_mul, ofMul_zpow] at h
  to_additive_goal
  linear_combination (norm := module) c • h

/-- **A9 (ProofU)** `U = U_user · P` with `P = R0^ks`, commitment `Ũ_user · W`. -/
theorem keyshare_proofU {S R0 : G} (R : ι → G) (L : List ι) (m mt : ι → ℤ)
    {v' vt c mu ks ru w : ℤ} :
    ((S ^ v' * R0 ^ mu * rep R m L) * R0 ^ ks) ^ (-c) * S ^ (vt + c * v') *
        R0 ^ ((ru + c * mu) + (w + c * ks)) * rep R (fun j => mt j + c * m j) L
      = (S ^ vt * R0 ^ ru * rep R mt L) * R0 ^ w := by
  rw [rep_add, rep_const_mul]
  to_additive_goal
  module

/-- **A9 (keyshare server's own proof)** `P = R0^ks`, `W = R0^w`, response `w + c·ks`. -/
theorem keyshare_server_complete {R0 : G} {ks w c : ℤ} :
    (R0 ^ ks) ^ (-c) * R0 ^ (w + c * ks) = R0 ^ w := by
  to_additive_goal
  module

end Gabi.Alg
