/-
  GabiProofs.SafePrimeWorkers — facts about the transition system Gabi.Conc.SafePrimeWorkers:
  invariants, the decreasing measure after `close(stop)`, quiescent states, and the explicit
  counter-schedule of the send statement before the repair.
-/
import GabiModel.SafePrimeWorkers
namespace Gabi.Conc.SafePrimeWorkers

/-- reachability from the initial state with `n` workers. -/
inductive Reach (pr : Proto) (n : Nat) : St → Prop where
  | init : Reach pr n (init n)
  | step {s s' : St} (a : Act) : Reach pr n s → step pr s a = some s' → Reach pr n s'

/-- executions as lists of actions. -/
theorem reach_of_runActs {pr : Proto} {n : Nat} {s s' : St} (acts : List Act)
    (hs : Reach pr n s) (h : runActs pr s acts = some s') : Reach pr n s' := by
  induction acts generalizing s with
  | nil => simp [runActs] at h; subst h; exact hs
  | cons a as ih =>
    simp only [runActs] at h
    cases hst : step pr s a with
    | none => rw [hst] at h; exact absurd h (by simp)
    | some s1 =>
      rw [hst] at h
      exact ih (Reach.step a hs hst) h

/-- the invariant of every reachable state. -/
structure Inv (n : Nat) (s : St) : Prop where
  workers : s.gen + s.check + s.sending + s.done = n
  cap_eq : s.cap = n
  buf_le : s.buf ≤ s.cap
  stopped_stop : s.stopped = true → s.stop = true
  stop_iff : s.stop = true ↔ s.cons = .finished

theorem inv_init (n : Nat) : Inv n (init n) := by
  constructor <;> simp [init]

/-- case analysis of one step: every field of the successor in terms of the predecessor. -/
theorem step_cases {pr : Proto} {s s' : St} {a : Act} (h : step pr s a = some s') :
    (a = .genDone ∧ 0 < s.gen ∧ s' = { s with gen := s.gen - 1, check := s.check + 1 }) ∨
    (a = .checkSend ∧ 0 < s.check ∧ s.stopped = false ∧
      s' = { s with check := s.check - 1, sending := s.sending + 1 }) ∨
    (a = .checkQuit ∧ 0 < s.check ∧ s.stopped = true ∧
      s' = { s with check := s.check - 1, done := s.done + 1 }) ∨
    (a = .send ∧ 0 < s.sending ∧ s.buf < s.cap ∧
      s' = { s with sending := s.sending - 1, gen := s.gen + 1, buf := s.buf + 1 }) ∨
    (a = .quit ∧ pr = .selectSend ∧ 0 < s.sending ∧ s.stopped = true ∧
      s' = { s with sending := s.sending - 1, done := s.done + 1 }) ∨
    (∃ last, a = .recv last ∧ s.cons = .recv ∧ 0 < s.buf ∧
      s' = { s with buf := s.buf - 1, cons := if last then .closing else .recv }) ∨
    (a = .close ∧ s.cons = .closing ∧ s' = { s with stop := true, cons := .finished }) ∨
    (a = .stopper ∧ s.stop = true ∧ s.stopped = false ∧ s' = { s with stopped := true }) := by
  cases a with
  | genDone =>
    simp only [step] at h
    split at h
    · next hc => left; exact ⟨rfl, hc, (Option.some.inj h).symm⟩
    · exact absurd h (by simp)
  | checkSend =>
    simp only [step] at h
    split at h
    · next hc => right; left; exact ⟨rfl, hc.1, hc.2, (Option.some.inj h).symm⟩
    · exact absurd h (by simp)
  | checkQuit =>
    simp only [step] at h
    split at h
    · next hc => right; right; left; exact ⟨rfl, hc.1, hc.2, (Option.some.inj h).symm⟩
    · exact absurd h (by simp)
  | send =>
    simp only [step] at h
    split at h
    · next hc => right; right; right; left; exact ⟨rfl, hc.1, hc.2, (Option.some.inj h).symm⟩
    · exact absurd h (by simp)
  | quit =>
    simp only [step] at h
    split at h
    · next hc =>
      right; right; right; right; left
      exact ⟨rfl, hc.1, hc.2.1, hc.2.2, (Option.some.inj h).symm⟩
    · exact absurd h (by simp)
  | recv last =>
    simp only [step] at h
    split at h
    · next hc =>
      right; right; right; right; right; left
      exact ⟨last, rfl, hc.1, hc.2, (Option.some.inj h).symm⟩
    · exact absurd h (by simp)
  | close =>
    simp only [step] at h
    split at h
    · next hc =>
      right; right; right; right; right; right; left
      exact ⟨rfl, hc, (Option.some.inj h).symm⟩
    · exact absurd h (by simp)
  | stopper =>
    simp only [step] at h
    split at h
    · next hc =>
      right; right; right; right; right; right; right
      exact ⟨rfl, hc.1, hc.2, (Option.some.inj h).symm⟩
    · exact absurd h (by simp)

theorem inv_step {pr : Proto} {n : Nat} {s s' : St} {a : Act} (hi : Inv n s)
    (h : step pr s a = some s') : Inv n s' := by
  obtain ⟨hw, hc, hb, hss, hsi⟩ := hi
  rcases step_cases h with ⟨_, h1, rfl⟩ | ⟨_, h1, _, rfl⟩ | ⟨_, h1, _, rfl⟩ | ⟨_, h1, h2, rfl⟩ |
    ⟨_, _, h1, _, rfl⟩ | ⟨last, _, h1, h2, rfl⟩ | ⟨_, h1, rfl⟩ | ⟨_, h1, _, rfl⟩
  · exact ⟨by simp only; omega, hc, hb, hss, hsi⟩
  · exact ⟨by simp only; omega, hc, hb, hss, hsi⟩
  · exact ⟨by simp only; omega, hc, hb, hss, hsi⟩
  · exact ⟨by simp only; omega, hc, by simp only; omega, hss, hsi⟩
  · exact ⟨by simp only; omega, hc, hb, hss, hsi⟩
  · refine ⟨hw, hc, by simp only; omega, hss, ?_⟩
    simp only
    have hns : s.stop ≠ true := fun hst => by rw [hsi.mp hst] at h1; exact absurd h1 (by decide)
    cases last <;> simp [hns]
  · refine ⟨hw, hc, hb, fun _ => rfl, ?_⟩
    simp
  · exact ⟨hw, hc, hb, fun _ => h1, hsi⟩

theorem inv_of_reach {pr : Proto} {n : Nat} {s : St} (h : Reach pr n s) : Inv n s := by
  induction h with
  | init => exact inv_init n
  | step a _ hst ih => exact inv_step ih hst

/-- once the consumer has closed `stop` it stays finished. -/
theorem finished_stable {pr : Proto} {s s' : St} {a : Act} (hf : s.cons = .finished)
    (h : step pr s a = some s') : s'.cons = .finished := by
  rcases step_cases h with ⟨_, _, rfl⟩ | ⟨_, _, _, rfl⟩ | ⟨_, _, _, rfl⟩ | ⟨_, _, _, rfl⟩ |
    ⟨_, _, _, _, rfl⟩ | ⟨last, _, h1, _, rfl⟩ | ⟨_, h1, rfl⟩ | ⟨_, _, _, rfl⟩ <;> try exact hf
  · rw [hf] at h1; exact absurd h1 (by decide)
  · rfl

/-- after `close(stop)` every step strictly decreases the measure (for both send statements). -/
theorem measure_decreases {pr : Proto} {s s' : St} {a : Act} (hf : s.cons = .finished)
    (_hb : s.buf ≤ s.cap) (h : step pr s a = some s') : measure s' < measure s := by
  rcases step_cases h with ⟨_, h1, rfl⟩ | ⟨_, h1, _, rfl⟩ | ⟨_, h1, _, rfl⟩ | ⟨_, h1, h2, rfl⟩ |
    ⟨_, _, h1, _, rfl⟩ | ⟨last, _, h1, _, rfl⟩ | ⟨_, h1, rfl⟩ | ⟨_, _, h1, rfl⟩
  · simp only [measure]; omega
  · simp only [measure]; omega
  · simp only [measure]; omega
  · simp only [measure]; omega
  · simp only [measure]; omega
  · rw [hf] at h1; exact absurd h1 (by decide)
  · rw [hf] at h1; exact absurd h1 (by decide)
  · simp only [measure, h1]; simp

/-- hence every execution after `close(stop)` has at most `measure s` steps. -/
theorem run_length_le_measure {pr : Proto} {n : Nat} (acts : List Act) {s s' : St}
    (hi : Inv n s) (hf : s.cons = .finished) (h : runActs pr s acts = some s') :
    acts.length + measure s' ≤ measure s := by
  induction acts generalizing s with
  | nil => simp [runActs] at h; subst h; simp
  | cons a as ih =>
    simp only [runActs] at h
    cases hst : step pr s a with
    | none => rw [hst] at h; exact absurd h (by simp)
    | some s1 =>
      rw [hst] at h
      have h1 := measure_decreases hf hi.buf_le hst
      have h2 := ih (inv_step hi hst) (finished_stable hf hst) h
      simp only [List.length_cons]
      omega

theorem terminal_iff {pr : Proto} {s : St} : terminal pr s = true ↔ ∀ a, step pr s a = none := by
  unfold terminal allActs
  simp only [List.all_cons, List.all_nil, Bool.and_true, Bool.and_eq_true, Option.isNone_iff_eq_none]
  constructor
  · rintro ⟨h1, h2, h3, h4, h5, h6, h7, h8, h9⟩ a
    cases a with
    | recv last => cases last <;> assumption
    | _ => assumption
  · intro h
    exact ⟨h _, h _, h _, h _, h _, h _, h _, h _, h _⟩

/-- repaired send statement: a quiescent state after `close(stop)` has every worker returned. -/
theorem quiescent_all_done {n : Nat} {s : St} (hi : Inv n s) (hf : s.cons = .finished)
    (ht : ∀ a, step .selectSend s a = none) : s.done = n ∧ s.stopped = true := by
  have hstop : s.stop = true := hi.stop_iff.mpr hf
  have hstopped : s.stopped = true := by
    cases hs : s.stopped with
    | true => rfl
    | false =>
      have := ht .stopper
      simp [step, hstop, hs] at this
  have hg : s.gen = 0 := by
    have := ht .genDone
    simp only [step] at this
    split at this
    · exact absurd this (by simp)
    · omega
  have hc : s.check = 0 := by
    have := ht .checkQuit
    simp only [step, hstopped, and_true] at this
    split at this
    · exact absurd this (by simp)
    · omega
  have hsd : s.sending = 0 := by
    have := ht .quit
    simp only [step, hstopped, and_true, true_and] at this
    split at this
    · exact absurd this (by simp)
    · omega
  have := hi.workers
  exact ⟨by omega, hstopped⟩

/-! ### the send statement before the repair: an explicit schedule that strands every worker -/

/-- `k` workers in a row complete `Generate`, take the `default` branch and send. -/
def fillActs : Nat → List Act
  | 0 => []
  | k + 1 => [.genDone, .checkSend, .send] ++ fillActs k

/-- `k` workers complete `Generate` and take the `default` branch (arriving at the send). -/
def arriveActs : Nat → List Act
  | 0 => []
  | k + 1 => [.genDone, .checkSend] ++ arriveActs k

theorem runActs_append (pr : Proto) (s : St) (as bs : List Act) :
    runActs pr s (as ++ bs) = (runActs pr s as).bind (fun s' => runActs pr s' bs) := by
  induction as generalizing s with
  | nil => simp [runActs]
  | cons a as ih =>
    simp only [List.cons_append, runActs]
    cases step pr s a with
    | none => simp
    | some s1 => exact ih s1

theorem run_fill (pr : Proto) (k : Nat) (s : St) (hg : 0 < s.gen) (hc : s.check = 0)
    (hs : s.sending = 0) (hst : s.stopped = false) (hb : s.buf + k ≤ s.cap) :
    runActs pr s (fillActs k) = some { s with buf := s.buf + k } := by
  induction k generalizing s with
  | zero => simp [fillActs, runActs]
  | succ k ih =>
    obtain ⟨g, c, sd, d, b, cp, st, stp, cn⟩ := s
    simp only at hg hc hs hst hb
    subst hc hs hst
    have hlt : b < cp := by omega
    have hgg : g - 1 + 1 = g := by omega
    have := ih ⟨g, 0, 0, d, b + 1, cp, st, false, cn⟩ hg rfl rfl rfl (by simp only; omega)
    simp only [fillActs, List.cons_append, List.nil_append, runActs, step, hg, hlt, hgg,
      if_true, and_self, Nat.zero_add, Nat.lt_add_one]
    rw [this]
    simp only [Option.some.injEq, St.mk.injEq, and_true, true_and]
    omega

theorem run_arrive (pr : Proto) (k : Nat) (s : St) (hg : k ≤ s.gen) (hc : s.check = 0)
    (hst : s.stopped = false) :
    runActs pr s (arriveActs k) = some { s with gen := s.gen - k, sending := s.sending + k } := by
  induction k generalizing s with
  | zero => simp [arriveActs, runActs]
  | succ k ih =>
    obtain ⟨g, c, sd, d, b, cp, st, stp, cn⟩ := s
    simp only at hg hc hst
    subst hc hst
    have hg0 : 0 < g := by omega
    have := ih ⟨g - 1, 0, sd + 1, d, b, cp, st, false, cn⟩ (by simp only; omega) rfl rfl
    simp only [arriveActs, List.cons_append, List.nil_append, runActs, step, hg0,
      if_true, and_self, Nat.zero_add, Nat.lt_add_one]
    rw [this]
    simp only [Option.some.injEq, St.mk.injEq, and_true, true_and]
    omega

/-- the schedule: one value is produced and received (the consumer has its pair), the workers
    fill the buffer, all arrive at the send, the consumer closes `stop`, the stopper closes
    `stopped`. -/
def leakSchedule (n : Nat) : List Act :=
  fillActs 1 ++ [.recv true] ++ fillActs n ++ arriveActs n ++ [.close, .stopper]

/-- the state this schedule ends in: all `n` workers wait at the send, buffer full. -/
def leakState (n : Nat) : St :=
  { gen := 0, check := 0, sending := n, done := 0, buf := n, cap := n, stop := true, stopped := true,
    cons := .finished }

theorem run_leakSchedule (pr : Proto) (n : Nat) (hn : 0 < n) :
    runActs pr (init n) (leakSchedule n) = some (leakState n) := by
  unfold leakSchedule
  rw [runActs_append, runActs_append, runActs_append, runActs_append]
  rw [run_fill pr 1 (init n) (by simpa [init] using hn) rfl rfl rfl (by simp [init]; omega)]
  simp only [Option.bind_some]
  have e : runActs pr { init n with buf := (init n).buf + 1 } [.recv true] =
      some { init n with cons := .closing } := by
    simp [runActs, step, init]
  rw [e]
  simp only [Option.bind_some]
  rw [run_fill pr n _ (by simpa [init] using hn) rfl rfl rfl (by simp [init])]
  simp only [Option.bind_some]
  rw [run_arrive pr n _ (by simp [init]) rfl rfl]
  simp [runActs, step, init, leakState]

theorem leakState_terminal (n : Nat) : ∀ a, step .blockingSend (leakState n) a = none := by
  intro a
  cases a <;> simp [step, leakState]

end Gabi.Conc.SafePrimeWorkers
