/-
  GabiProofs.Bridge — the executable integer operations of the model (`goExp`, `modPow`,
  `goModInverse`, `commonModInverse`, `· * · % n`) seen in `ZMod n` and in its unit group.

  Pattern of use: every intermediate value of the model is an integer in `[0,n)`; its cast to
  `ZMod n` is the value of a unit-group expression (`zunit n x ^ y`, products, inverses); the
  abstract theorems of `GabiProofs.GroupAlgebra` are applied in `(ZMod n)ˣ`; the final integer
  comparison of the model is decided by `eq_of_cast_eq` (B3).
-/
import GabiModel.Num
import GabiProofs.NumLemmas
import Mathlib.Data.ZMod.Basic
import Mathlib.Data.ZMod.Units

namespace Gabi

variable {n : ℕ}

/-! ### B1, B3 and ring-level facts -/

/-- **B1** non-negative exponents: the result of `goExp` is the power in `ZMod n`. -/
theorem goExp_cast (hn : 0 < n) (x y : Int) (hy : 0 ≤ y) {r : Int}
    (h : goExp x y n = some r) : (r : ZMod n) = (x : ZMod n) ^ y.toNat := by
  rw [goExp_nonneg x y n (by exact_mod_cast hn) hy] at h
  obtain rfl := Option.some.inj h
  rw [ZMod.intCast_mod]
  push_cast
  rfl

/-- **B3** a value in `[0,n)` is determined by its residue class. -/
theorem eq_of_cast_eq {a b : Int} (ha0 : 0 ≤ a) (ha : a < n) (hb0 : 0 ≤ b) (hb : b < n)
    (h : (a : ZMod n) = (b : ZMod n)) : a = b := by
  rw [ZMod.intCast_eq_intCast_iff'] at h
  rwa [Int.emod_eq_of_lt ha0 ha, Int.emod_eq_of_lt hb0 hb] at h

theorem cast_eq_iff {a b : Int} (ha0 : 0 ≤ a) (ha : a < n) (hb0 : 0 ≤ b) (hb : b < n) :
    (a : ZMod n) = (b : ZMod n) ↔ a = b :=
  ⟨eq_of_cast_eq ha0 ha hb0 hb, fun h => by rw [h]⟩

/-- the model's `x % n` is invisible in `ZMod n`. -/
theorem cast_emod (x : Int) : ((x % (n : Int) : Int) : ZMod n) = (x : ZMod n) :=
  ZMod.intCast_mod x n

theorem emod_range (hn : 0 < n) (x : Int) : 0 ≤ x % (n : Int) ∧ x % (n : Int) < n :=
  ⟨Int.emod_nonneg _ (by exact_mod_cast hn.ne'), Int.emod_lt_of_pos _ (by exact_mod_cast hn)⟩

/-- `x % n` is the unique representative in `[0,n)`. -/
theorem emod_eq_of_cast_eq (hn : 0 < n) {x r : Int} (hr0 : 0 ≤ r) (hr : r < n)
    (h : (x : ZMod n) = (r : ZMod n)) : x % (n : Int) = r :=
  eq_of_cast_eq (emod_range hn x).1 (emod_range hn x).2 hr0 hr (by rw [cast_emod, h])

/-! ### the unit attached to an integer -/

/-- the class of `x` as a unit of `ZMod n` (junk value `1` when `x` is not invertible). -/
noncomputable def zunit (n : ℕ) (x : Int) : (ZMod n)ˣ :=
  open Classical in if h : IsUnit (x : ZMod n) then h.unit else 1

theorem zunit_val {x : Int} (h : IsUnit (x : ZMod n)) : ((zunit n x : (ZMod n)ˣ) : ZMod n) = x := by
  unfold zunit
  rw [dif_pos h]
  exact h.unit_spec

theorem isUnit_iff_gcd (x : Int) : IsUnit (x : ZMod n) ↔ Int.gcd x n = 1 := by
  rw [ZMod.coe_int_isUnit_iff_isCoprime, isCoprime_comm, Int.isCoprime_iff_gcd_eq_one]

/-- for non-negative `x` this is Mathlib's `ZMod.unitOfCoprime`. -/
theorem zunit_eq_unitOfCoprime (x : ℕ) (h : Nat.Coprime x n) :
    zunit n (x : Int) = ZMod.unitOfCoprime x h := by
  apply Units.ext
  rw [zunit_val, ZMod.coe_unitOfCoprime]
  · simp
  · rw [isUnit_iff_gcd]; simpa [Int.gcd_natCast_natCast] using h

/-- two integers with the same invertible class give the same unit. -/
theorem zunit_congr {x y : Int} (h : (x : ZMod n) = (y : ZMod n)) : zunit n x = zunit n y := by
  by_cases hx : IsUnit (x : ZMod n)
  · apply Units.ext
    rw [zunit_val hx, zunit_val (h ▸ hx), h]
  · have hy : ¬ IsUnit (y : ZMod n) := h ▸ hx
    simp [zunit, hx, hy]

theorem zunit_one : zunit n 1 = 1 := by
  apply Units.ext
  rw [zunit_val (by simp)]
  simp

/-- a value whose cast is (the value of) a unit is that unit. -/
theorem zunit_of_cast {x : Int} {u : (ZMod n)ˣ} (h : (x : ZMod n) = (u : ZMod n)) :
    zunit n x = u := by
  apply Units.ext
  rw [zunit_val (h ▸ u.isUnit), h]

theorem isUnit_of_cast {x : Int} {u : (ZMod n)ˣ} (h : (x : ZMod n) = (u : ZMod n)) :
    IsUnit (x : ZMod n) := h ▸ u.isUnit

/-! ### inverses -/

theorem goModInverse_cast {g inv : Int} (h : goModInverse g n = some inv) :
    (g : ZMod n) * (inv : ZMod n) = 1 ∧ 0 ≤ inv ∧ inv < n := by
  obtain ⟨h0, h1, h2⟩ := goModInverse_some h
  rw [Int.natAbs_natCast] at h1 h2
  refine ⟨?_, h0, h1⟩
  have := (ZMod.intCast_eq_intCast_iff' (g * inv) 1 n).mpr h2
  simpa using this

theorem goModInverse_isSome (hn : 0 < n) {g : Int} (hg : IsUnit (g : ZMod n)) :
    ∃ inv, goModInverse g n = some inv := by
  cases h : goModInverse g n with
  | some inv => exact ⟨inv, rfl⟩
  | none =>
    rw [goModInverse_none_iff g n (by exact_mod_cast hn.ne')] at h
    exact absurd ((isUnit_iff_gcd g).mp hg) h

/-- `big.Int.ModInverse` of an invertible class: the representative of the inverse unit. -/
theorem goModInverse_unit (hn : 0 < n) {g : Int} (hg : IsUnit (g : ZMod n)) :
    ∃ inv, goModInverse g n = some inv ∧ 0 ≤ inv ∧ inv < n ∧
      (inv : ZMod n) = (((zunit n g)⁻¹ : (ZMod n)ˣ) : ZMod n) := by
  obtain ⟨inv, hinv⟩ := goModInverse_isSome hn hg
  obtain ⟨hm, h0, h1⟩ := goModInverse_cast hinv
  refine ⟨inv, hinv, h0, h1, ?_⟩
  rw [← zunit_val hg] at hm
  exact (Units.eq_inv_of_mul_eq_one_left hm)

theorem commonModInverse_cast (hn : 1 < n) {a r : Int} (h : commonModInverse a n = some r) :
    (a : ZMod n) * (r : ZMod n) = 1 ∧ 1 ≤ r ∧ r < n := by
  obtain ⟨h0, h1, h2⟩ := commonModInverse_some (by exact_mod_cast hn) h
  refine ⟨?_, h0, h1⟩
  have h1n : (1 : Int) % n = 1 := Int.emod_eq_of_lt (by omega) (by exact_mod_cast hn)
  have := (ZMod.intCast_eq_intCast_iff' (a * r) 1 n).mpr (by rw [h2, h1n])
  simpa using this

/-- `common.ModInverse` of an invertible class. -/
theorem commonModInverse_unit (hn : 1 < n) {a : Int} (ha : IsUnit (a : ZMod n)) :
    ∃ r, commonModInverse a n = some r ∧ 0 ≤ r ∧ r < n ∧
      (r : ZMod n) = (((zunit n a)⁻¹ : (ZMod n)ˣ) : ZMod n) := by
  cases h : commonModInverse a n with
  | none =>
    rw [commonModInverse_none_iff a n (by exact_mod_cast (by omega : 0 < n))] at h
    exact absurd ((isUnit_iff_gcd a).mp ha) h
  | some r =>
    obtain ⟨hm, h0, h1⟩ := commonModInverse_cast hn h
    refine ⟨r, rfl, by omega, h1, ?_⟩
    rw [← zunit_val ha] at hm
    exact (Units.eq_inv_of_mul_eq_one_left hm)

/-! ### B2: `goExp` on invertible bases is `zpow` in the unit group -/

/-- **B2** for an invertible base and *any* integer exponent, `goExp` succeeds, its result lies
    in `[0,n)` and is the representative of `(zunit n x) ^ y`. -/
theorem goExp_unit (hn : 1 < n) {x : Int} (hx : IsUnit (x : ZMod n)) (y : Int) :
    ∃ r, goExp x y n = some r ∧ 0 ≤ r ∧ r < n ∧
      (r : ZMod n) = ((zunit n x ^ y : (ZMod n)ˣ) : ZMod n) := by
  have hn0 : 0 < n := by omega
  have hnI : (0 : Int) < n := by exact_mod_cast hn0
  by_cases hy : 0 ≤ y
  · have h := goExp_nonneg x y n hnI hy
    refine ⟨_, h, (emod_range hn0 _).1, (emod_range hn0 _).2, ?_⟩
    rw [goExp_cast hn0 x y hy h]
    obtain ⟨k, rfl⟩ := Int.eq_ofNat_of_zero_le hy
    rw [zpow_natCast, Units.val_pow_eq_pow_val, zunit_val hx, Int.toNat_natCast]
  · have hy' : y < 0 := by omega
    obtain ⟨inv, hinv, h0, h1, hc⟩ := goModInverse_unit hn0 hx
    have h := goExp_neg x y n hnI hy'
    rw [hinv, Option.map_some] at h
    refine ⟨_, h, (emod_range hn0 _).1, (emod_range hn0 _).2, ?_⟩
    rw [cast_emod]
    push_cast
    rw [hc]
    obtain ⟨k, hk⟩ := Int.eq_ofNat_of_zero_le (by omega : 0 ≤ -y)
    have hyk : y = -(k : Int) := by omega
    rw [hk, Int.toNat_natCast, hyk, zpow_neg, zpow_natCast, ← inv_pow, Units.val_pow_eq_pow_val]

/-- **B2 (gcd form)**. -/
theorem goExp_coprime (hn : 1 < n) {x : Int} (hx : Int.gcd x n = 1) (y : Int) :
    ∃ r, goExp x y n = some r ∧ 0 ≤ r ∧ r < n ∧
      (r : ZMod n) = ((zunit n x ^ y : (ZMod n)ˣ) : ZMod n) :=
  goExp_unit hn ((isUnit_iff_gcd x).mpr hx) y

/-- **B2 (Mathlib's `unitOfCoprime` form)**, natural-number base. -/
theorem goExp_unitOfCoprime (hn : 1 < n) (x : ℕ) (hx : Nat.Coprime x n) (y : Int) :
    ∃ r, goExp x y n = some r ∧
      (r : ZMod n) = ((ZMod.unitOfCoprime x hx ^ y : (ZMod n)ˣ) : ZMod n) := by
  have hu : IsUnit (((x : Int)) : ZMod n) := by
    rw [isUnit_iff_gcd]; simpa [Int.gcd_natCast_natCast] using hx
  obtain ⟨r, h, _, _, hc⟩ := goExp_unit hn hu y
  exact ⟨r, h, by rw [hc, zunit_eq_unitOfCoprime]⟩

theorem goExp_ne_none (hn : 1 < n) {x : Int} (hx : Int.gcd x n = 1) (y : Int) :
    goExp x y n ≠ none := by
  obtain ⟨r, h, _⟩ := goExp_coprime hn hx y
  rw [h]; simp

/-- the result of a successful `goExp` on an invertible base, as an equation. -/
theorem goExp_unit_eq (hn : 1 < n) {x : Int} (hx : IsUnit (x : ZMod n)) {y r : Int}
    (h : goExp x y n = some r) :
    0 ≤ r ∧ r < n ∧ (r : ZMod n) = ((zunit n x ^ y : (ZMod n)ˣ) : ZMod n) := by
  obtain ⟨r', h', a, b, c⟩ := goExp_unit hn hx y
  rw [h] at h'
  obtain rfl := Option.some.inj h'
  exact ⟨a, b, c⟩

/-- a base with `b^order = 1` for a positive `order` is invertible. -/
theorem isUnit_of_goExp_one (hn : 0 < n) {b order : Int} (ho : 0 < order)
    (h : goExp b order n = some 1) : IsUnit (b : ZMod n) := by
  have := goExp_cast hn b order (by omega) h
  refine IsUnit.of_pow_eq_one (n := order.toNat) ?_ (by omega)
  rw [← this]; simp

/-- `goExp b order n = some 1` means the unit has order dividing `order`. -/
theorem zunit_pow_order (hn : 1 < n) {b order : Int} (ho : 0 < order)
    (h : goExp b order n = some 1) : zunit n b ^ order = 1 := by
  have hu := isUnit_of_goExp_one (by omega) ho h
  obtain ⟨_, _, hc⟩ := goExp_unit_eq hn hu h
  apply Units.ext
  rw [← hc]; simp

/-- products reduced modulo `n`. -/
theorem mul_emod_unit (hn : 0 < n) {a b : Int} {u w : (ZMod n)ˣ}
    (ha : (a : ZMod n) = (u : ZMod n)) (hb : (b : ZMod n) = (w : ZMod n)) :
    0 ≤ a * b % (n : Int) ∧ a * b % (n : Int) < n ∧
      ((a * b % (n : Int) : Int) : ZMod n) = ((u * w : (ZMod n)ˣ) : ZMod n) := by
  refine ⟨(emod_range hn _).1, (emod_range hn _).2, ?_⟩
  rw [cast_emod]; push_cast; rw [ha, hb]

theorem mul_unit {a b : Int} {u w : (ZMod n)ˣ}
    (ha : (a : ZMod n) = (u : ZMod n)) (hb : (b : ZMod n) = (w : ZMod n)) :
    ((a * b : Int) : ZMod n) = ((u * w : (ZMod n)ˣ) : ZMod n) := by
  push_cast; rw [ha, hb]

end Gabi
