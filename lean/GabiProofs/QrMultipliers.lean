/-
  GabiProofs.QrMultipliers — for two odd primes `p`, `q` with different residues modulo 8, both
  different from 1, one of `c, -c, 2c, -2c` is a square modulo `p*q` for every `c` coprime to `p*q`.
-/
import Mathlib.NumberTheory.LegendreSymbol.QuadraticReciprocity
import Mathlib.Data.Int.ModEq
import Mathlib.Data.ZMod.Basic
import Mathlib.RingTheory.Coprime.Lemmas
import Mathlib.Tactic.Ring
import Mathlib.Tactic.LinearCombination
import Mathlib.Tactic.NormNum

namespace Gabi.KeyProof

/-- Chinese remainder combination of square roots: a square modulo `p` and modulo `q` (coprime)
    is a square modulo `p*q`. -/
theorem sq_mod_mul_of_sq_mod {p q : ℕ} (hpq : Nat.Coprime p q) (a rp rq : ℤ)
    (h1 : rp * rp % (p : ℤ) = a % (p : ℤ)) (h2 : rq * rq % (q : ℤ) = a % (q : ℤ)) :
    ∃ r : ℤ, r * r % ((p : ℤ) * q) = a % ((p : ℤ) * q) := by
  have hco : IsCoprime (p : ℤ) (q : ℤ) := Nat.isCoprime_iff_coprime.mpr hpq
  obtain ⟨u, v, huv⟩ := hco
  refine ⟨rp * (v * q) + rq * (u * p), ?_⟩
  have hp' : rp * (v * q) + rq * (u * p) ≡ rp [ZMOD (p : ℤ)] := by
    apply Int.ModEq.symm
    rw [Int.modEq_iff_dvd]
    exact ⟨u * (rq - rp), by linear_combination rp * huv⟩
  have hq' : rp * (v * q) + rq * (u * p) ≡ rq [ZMOD (q : ℤ)] := by
    apply Int.ModEq.symm
    rw [Int.modEq_iff_dvd]
    exact ⟨v * (rp - rq), by linear_combination rq * huv⟩
  have e1 : (rp * (v * q) + rq * (u * p)) * (rp * (v * q) + rq * (u * p)) ≡ a [ZMOD (p : ℤ)] :=
    (Int.ModEq.mul hp' hp').trans h1
  have e2 : (rp * (v * q) + rq * (u * p)) * (rp * (v * q) + rq * (u * p)) ≡ a [ZMOD (q : ℤ)] :=
    (Int.ModEq.mul hq' hq').trans h2
  exact (Int.modEq_and_modEq_iff_modEq_mul (by simpa using hpq)).mp ⟨e1, e2⟩

/-- Legendre symbol `1` gives an integer square root modulo `p`. -/
theorem exists_sq_mod_prime_of_legendreSym_eq_one {p : ℕ} [Fact p.Prime] (a : ℤ)
    (h : legendreSym p a = 1) : ∃ r : ℤ, r * r % (p : ℤ) = a % (p : ℤ) := by
  have ha0 : (a : ZMod p) ≠ 0 := by
    intro h0
    rw [(legendreSym.eq_zero_iff p a).mpr h0] at h
    exact zero_ne_one h
  obtain ⟨y, hy⟩ := (legendreSym.eq_one_iff p ha0).mp h
  obtain ⟨r, rfl⟩ := ZMod.intCast_surjective y
  refine ⟨r, ?_⟩
  have : ((r * r : ℤ) : ZMod p) = (a : ZMod p) := by
    push_cast
    exact hy.symm
  exact (ZMod.intCast_eq_intCast_iff _ _ _).mp this

/-- The Legendre symbols of `-1`, `2`, `-2` for an odd prime `p` with `p % 8 ≠ 1`. -/
theorem legendreSym_signs {p : ℕ} [Fact p.Prime] (hp2 : p ≠ 2) (hp8 : p % 8 ≠ 1) :
    (p % 8 = 3 ∧ legendreSym p (-1) = -1 ∧ legendreSym p 2 = -1 ∧ legendreSym p (-2) = 1) ∨
    (p % 8 = 5 ∧ legendreSym p (-1) = 1 ∧ legendreSym p 2 = -1 ∧ legendreSym p (-2) = -1) ∨
    (p % 8 = 7 ∧ legendreSym p (-1) = -1 ∧ legendreSym p 2 = 1 ∧ legendreSym p (-2) = -1) := by
  have hodd : p % 2 = 1 := (Nat.Prime.mod_two_eq_one_iff_ne_two Fact.out).mpr hp2
  rw [legendreSym.at_neg_one hp2, legendreSym.at_two hp2, legendreSym.at_neg_two hp2,
    ZMod.χ₄_nat_eq_if_mod_four, ZMod.χ₈_nat_eq_if_mod_eight, ZMod.χ₈'_nat_eq_if_mod_eight]
  have h8 : p % 8 = 3 ∨ p % 8 = 5 ∨ p % 8 = 7 := by omega
  rcases h8 with h | h | h
  · have h4 : p % 4 = 3 := by omega
    simp [h, h4, hodd]
  · have h4 : p % 4 = 1 := by omega
    simp [h, h4, hodd]
  · have h4 : p % 4 = 3 := by omega
    simp [h, h4, hodd]

/-- Coprimality with `p*q` gives a nonzero residue modulo `p`. -/
theorem intCast_ne_zero_of_gcd_mul_eq_one {p : ℕ} [Fact p.Prime] (n : ℤ) (hn : (p : ℤ) ∣ n)
    (c : ℤ) (hc : Int.gcd c n = 1) : (c : ZMod p) ≠ 0 := by
  intro h0
  have hd : (p : ℤ) ∣ c := (ZMod.intCast_zmod_eq_zero_iff_dvd c p).mp h0
  have h1 : (p : ℤ) ∣ ((Int.gcd c n : ℕ) : ℤ) := Int.dvd_coe_gcd hd hn
  rw [hc] at h1
  have h2 : p ∣ 1 := by exact_mod_cast h1
  exact (Fact.out : p.Prime).one_lt.ne' (Nat.dvd_one.mp h2)

/-- For two odd primes `p`, `q` whose residues modulo 8 are different and both different from 1,
    and every integer `c` coprime to `p*q`, one of `c, -c, 2c, -2c` is a square modulo `p*q`. -/
theorem exists_sq_of_multiplier {p q : ℕ} (hp : p.Prime) (hq : q.Prime) (hp2 : p ≠ 2) (hq2 : q ≠ 2)
    (hp8 : p % 8 ≠ 1) (hq8 : q % 8 ≠ 1) (hpq8 : p % 8 ≠ q % 8)
    (c : ℤ) (hc : Int.gcd c ((p : ℤ) * q) = 1) :
    ∃ r : ℤ, r * r % ((p : ℤ) * q) = c % ((p : ℤ) * q) ∨ r * r % ((p : ℤ) * q) = (-c) % ((p : ℤ) * q) ∨
      r * r % ((p : ℤ) * q) = (2 * c) % ((p : ℤ) * q) ∨ r * r % ((p : ℤ) * q) = (-(2 * c)) % ((p : ℤ) * q) := by
  have := Fact.mk hp
  have := Fact.mk hq
  have hpq : p ≠ q := fun h => hpq8 (by rw [h])
  have hco : Nat.Coprime p q := (Nat.coprime_primes hp hq).mpr hpq
  have hcp : (c : ZMod p) ≠ 0 :=
    intCast_ne_zero_of_gcd_mul_eq_one _ (Dvd.intro _ rfl) c hc
  have hcq : (c : ZMod q) ≠ 0 :=
    intCast_ne_zero_of_gcd_mul_eq_one _ (Dvd.intro_left _ rfl) c hc
  have key : ∀ m : ℤ, legendreSym p m * legendreSym p c = 1 →
      legendreSym q m * legendreSym q c = 1 →
      ∃ r : ℤ, r * r % ((p : ℤ) * q) = (m * c) % ((p : ℤ) * q) := by
    intro m h1 h2
    rw [← legendreSym.mul] at h1 h2
    obtain ⟨rp, hrp⟩ := exists_sq_mod_prime_of_legendreSym_eq_one _ h1
    obtain ⟨rq, hrq⟩ := exists_sq_mod_prime_of_legendreSym_eq_one _ h2
    exact sq_mod_mul_of_sq_mod hco _ rp rq hrp hrq
  have k1 : legendreSym p c = 1 → legendreSym q c = 1 →
      ∃ r : ℤ, r * r % ((p : ℤ) * q) = c % ((p : ℤ) * q) := by
    intro h1 h2
    have := key 1 (by rw [legendreSym.at_one, one_mul]; exact h1)
      (by rw [legendreSym.at_one, one_mul]; exact h2)
    simpa using this
  have km1 : legendreSym p (-1) * legendreSym p c = 1 → legendreSym q (-1) * legendreSym q c = 1 →
      ∃ r : ℤ, r * r % ((p : ℤ) * q) = (-c) % ((p : ℤ) * q) := by
    intro h1 h2
    have := key (-1) h1 h2
    simpa using this
  have k2 := key 2
  have km2 : legendreSym p (-2) * legendreSym p c = 1 → legendreSym q (-2) * legendreSym q c = 1 →
      ∃ r : ℤ, r * r % ((p : ℤ) * q) = (-(2 * c)) % ((p : ℤ) * q) := by
    intro h1 h2
    have := key (-2) h1 h2
    simpa [neg_mul] using this
  rcases legendreSym_signs hp2 hp8 with ⟨a0, a1, a2, a3⟩ | ⟨a0, a1, a2, a3⟩ | ⟨a0, a1, a2, a3⟩ <;>
  rcases legendreSym_signs hq2 hq8 with ⟨b0, b1, b2, b3⟩ | ⟨b0, b1, b2, b3⟩ | ⟨b0, b1, b2, b3⟩ <;>
  rcases legendreSym.eq_one_or_neg_one p hcp with sp | sp <;>
  rcases legendreSym.eq_one_or_neg_one q hcq with sq | sq <;>
  first
    | exact absurd (a0.trans b0.symm) hpq8
    | exact (k1 sp sq).imp fun r h => Or.inl h
    | (have e1 : legendreSym p (-1) * legendreSym p c = 1 := by rw [a1, sp]; norm_num
       have e2 : legendreSym q (-1) * legendreSym q c = 1 := by rw [b1, sq]; norm_num
       exact (km1 e1 e2).imp fun r h => Or.inr (Or.inl h))
    | (have e1 : legendreSym p 2 * legendreSym p c = 1 := by rw [a2, sp]; norm_num
       have e2 : legendreSym q 2 * legendreSym q c = 1 := by rw [b2, sq]; norm_num
       exact (k2 e1 e2).imp fun r h => Or.inr (Or.inr (Or.inl h)))
    | (have e1 : legendreSym p (-2) * legendreSym p c = 1 := by rw [a3, sp]; norm_num
       have e2 : legendreSym q (-2) * legendreSym q c = 1 := by rw [b3, sq]; norm_num
       exact (km2 e1 e2).imp fun r h => Or.inr (Or.inr (Or.inr h)))

end Gabi.KeyProof

