/-
  GabiProofs.SerialKeys — key documents: print/parse round trip and rejection lemmas (C18).
-/
import GabiProofs.Serial
namespace Gabi.Serial
open Gabi

/-! ## element codecs -/

theorem xmlUint_natToDec (n : Nat) (h : n < 2 ^ 64) : xmlUint 64 (natToDec n) = some n := by
  unfold xmlUint
  have he : (natToDec n).isEmpty = false := by
    cases hl : natToDec n with
    | nil => exact absurd hl (natToDec_ne_nil n)
    | cons c r => rfl
  simp only [he, Bool.false_eq_true, if_false, trimSpace_natToDec, parseUint?, decToNat_natToDec, h, if_true]

theorem intToDec_ne_nil (z : Int) : intToDec z ≠ [] := by
  unfold intToDec
  split_ifs
  · simp
  · exact natToDec_ne_nil _

theorem parseInt_intToDec (z : Int) (h : -(2 : Int) ^ 63 ≤ z ∧ z < (2 : Int) ^ 63) :
    parseInt? 64 (trimSpace (intToDec z)) = some z := by
  rw [trimSpace_intToDec]
  unfold parseInt?
  rw [parseDecInt_intToDec]
  simp only [show (64 - 1 : Nat) = 63 from rfl, h, and_self, if_true]

theorem xmlInt_intToDec (z : Int) (h : -(2 : Int) ^ 63 ≤ z ∧ z < (2 : Int) ^ 63) :
    xmlInt 64 (intToDec z) = some z := by
  unfold xmlInt
  have he : (intToDec z).isEmpty = false := by
    cases hl : intToDec z with
    | nil => exact absurd hl (intToDec_ne_nil z)
    | cons c r => rfl
  simp only [he, Bool.false_eq_true, if_false, parseInt_intToDec z h]

theorem bigElem_marshalXML (name : String) (z : Int) (h : 0 ≤ z) :
    bigElem name (marshalXML z) = .ok z := by
  unfold bigElem
  rw [unmarshalXML_marshalXML]
  simp [Int.not_lt.mpr h]

theorem attrInt_intToDec (name : String) (z : Int) (h : -(2 : Int) ^ 63 ≤ z ∧ z < (2 : Int) ^ 63) :
    attrInt name (some (intToDec z)) = .ok z := by
  simp only [attrInt, xmlInt_intToDec z h]

theorem natToDec_eq_intToDec (n : Nat) : natToDec n = intToDec (n : Int) := by
  rw [intToDec_nonneg _ (by omega)]
  simp

theorem baseEntries_length (i : Nat) (r : List Int) : (baseEntries i r).length = r.length := by
  induction r generalizing i with
  | nil => rfl
  | cons b rest ih => simp [baseEntries, ih]

theorem parseBaseEntries_baseEntries (i : Nat) (r : List Int) (h : ∀ b ∈ r, 0 ≤ b) :
    parseBaseEntries (baseEntries i r) = .ok r := by
  induction r generalizing i with
  | nil => rfl
  | cons b rest ih =>
    simp only [baseEntries, parseBaseEntries]
    rw [bigElem_marshalXML _ b (h b (by simp))]
    simp only
    rw [ih (i + 1) (fun x hx => h x (List.mem_cons_of_mem _ hx))]

theorem parseBases_print (r : List Int) (h : ∀ b ∈ r, 0 ≤ b) (hl : (r.length : Int) < 2 ^ 63) :
    parseBases (some (natToDec r.length)) (baseEntries 0 r) = .ok r := by
  unfold parseBases
  rw [natToDec_eq_intToDec, attrInt_intToDec _ _ ⟨by omega, hl⟩]
  simp only [baseEntries_length, ne_eq, not_true_eq_false, if_false]
  exact parseBaseEntries_baseEntries 0 r h

/-! ## round trip -/

/-- what a key must satisfy to be representable: the Go field types (`uint`, `int64`, `int`)
    and non-negative big integers (the codec refuses negative ones). -/
structure PubKeyData.Valid (env : Env) (k : PubKeyData) : Prop where
  counter : k.counter < 2 ^ 64
  expiry : -(2 : Int) ^ 63 ≤ k.expiry ∧ k.expiry < (2 : Int) ^ 63
  n : 0 ≤ k.n
  z : 0 ≤ k.z
  s : 0 ≤ k.s
  g : ∀ v, k.g = some v → 0 ≤ v
  h : ∀ v, k.h = some v → 0 ≤ v
  r : ∀ b ∈ k.r, 0 ≤ b
  rlen : (k.r.length : Int) < 2 ^ 63
  epoch : -(2 : Int) ^ 63 ≤ k.epoch ∧ k.epoch < (2 : Int) ^ 63
  supported : env.supported (bitLen k.n) = true
  ecdsa : k.g.isSome → k.h.isSome → k.ecdsa ≠ [] → env.ecdsaOk k.ecdsa = true

theorem foldItems_append {α : Type} (step : α → Item → Except ParseErr α) (acc : α) (l1 l2 : List Item) :
    foldItems step acc (l1 ++ l2) =
      match foldItems step acc l1 with
      | .error e => .error e
      | .ok a => foldItems step a l2 := by
  induction l1 generalizing acc with
  | nil => rfl
  | cons it rest ih =>
    simp only [List.cons_append, foldItems]
    cases step acc it with
    | error e => rfl
    | ok a => exact ih a

theorem parsePub_printPub (env : Env) (k : PubKeyData) (hv : k.Valid env) :
    parsePub env (printPub k) = .ok k := by
  obtain ⟨counter, expiry, n, z, s, g, h, r, epoch, ecdsa⟩ := k
  obtain ⟨hc, he, hn, hz, hs, hg, hh, hr, hrl, hep, hsup, hec⟩ := hv
  simp only at hc he hn hz hs hg hh hr hrl hep hsup hec
  have e1 := xmlUint_natToDec counter hc
  have e2 := xmlInt_intToDec expiry he
  have e3 := fun name => bigElem_marshalXML name n hn
  have e4 := fun name => bigElem_marshalXML name z hz
  have e5 := fun name => bigElem_marshalXML name s hs
  have e6 := parseBases_print r hr hrl
  have e7 := attrInt_intToDec "Features" epoch hep
  unfold parsePub printPub
  simp only [ne_eq, not_true_eq_false, or_self, if_false]
  cases g with
  | none =>
    cases h with
    | none =>
      by_cases hem : ecdsa = []
      · subst hem
        simp [optElem, foldItems, pubStep, setCounter, setExpiry, e1, e2, e3, e4, e5, e6, e7, Except.map, hsup]
      · simp [optElem, foldItems, pubStep, setCounter, setExpiry, e1, e2, e3, e4, e5, e6, e7, Except.map, hsup, hem]
    | some hv' =>
      have e9 := fun name => bigElem_marshalXML name hv' (hh hv' rfl)
      by_cases hem : ecdsa = []
      · subst hem
        simp [optElem, foldItems, pubStep, setCounter, setExpiry, e1, e2, e3, e4, e5, e6, e7, e9, Except.map, hsup]
      · simp [optElem, foldItems, pubStep, setCounter, setExpiry, e1, e2, e3, e4, e5, e6, e7, e9, Except.map, hsup, hem]
  | some gv =>
    have e8 := fun name => bigElem_marshalXML name gv (hg gv rfl)
    cases h with
    | none =>
      by_cases hem : ecdsa = []
      · subst hem
        simp [optElem, foldItems, pubStep, setCounter, setExpiry, e1, e2, e3, e4, e5, e6, e7, e8, Except.map, hsup]
      · simp [optElem, foldItems, pubStep, setCounter, setExpiry, e1, e2, e3, e4, e5, e6, e7, e8, Except.map, hsup, hem]
    | some hv' =>
      have e9 := fun name => bigElem_marshalXML name hv' (hh hv' rfl)
      by_cases hem : ecdsa = []
      · subst hem
        simp [optElem, foldItems, pubStep, setCounter, setExpiry, e1, e2, e3, e4, e5, e6, e7, e8, e9, Except.map, hsup]
      · have hok := hec rfl rfl hem
        simp [optElem, foldItems, pubStep, setCounter, setExpiry, e1, e2, e3, e4, e5, e6, e7, e8, e9, Except.map, hsup, hem, hok]

structure PrivKeyData.Valid (env : Env) (demo : Bool) (k : PrivKeyData) : Prop where
  counter : k.counter < 2 ^ 64
  expiry : -(2 : Int) ^ 63 ≤ k.expiry ∧ k.expiry < (2 : Int) ^ 63
  p : 0 ≤ k.p
  q : 0 ≤ k.q
  pPrime : 0 ≤ k.pPrime
  qPrime : 0 ≤ k.qPrime
  validate : demo = false → validatePriv k = .ok ()
  ecdsa : k.ecdsa ≠ [] → env.ecdsaOk k.ecdsa = true

theorem parsePriv_printPriv (env : Env) (demo : Bool) (k : PrivKeyData) (hv : k.Valid env demo) :
    parsePriv env demo (printPriv k) = .ok k := by
  obtain ⟨counter, expiry, p, q, pPrime, qPrime, ecdsa⟩ := k
  obtain ⟨hc, he, hp, hq, hpp, hqp, hval, hec⟩ := hv
  simp only at hc he hp hq hpp hqp hval hec
  have e1 := xmlUint_natToDec counter hc
  have e2 := xmlInt_intToDec expiry he
  have e3 := fun name => bigElem_marshalXML name p hp
  have e4 := fun name => bigElem_marshalXML name q hq
  have e5 := fun name => bigElem_marshalXML name pPrime hpp
  have e6 := fun name => bigElem_marshalXML name qPrime hqp
  have hvalid : (if demo = true then (Except.ok () : Except ParseErr Unit) else
      validatePriv { counter := counter, expiry := expiry, p := p, q := q, pPrime := pPrime,
                     qPrime := qPrime, ecdsa := ecdsa }) = .ok () := by
    cases demo with
    | true => rfl
    | false => simpa using hval rfl
  unfold parsePriv printPriv
  simp only [ne_eq, not_true_eq_false, or_self, if_false]
  by_cases hem : ecdsa = []
  · subst hem
    simp [foldItems, privStep, setCounter, setExpiry, e1, e2, e3, e4, e5, e6, Except.map, hvalid]
  · have hok := hec hem
    simp [foldItems, privStep, setCounter, setExpiry, e1, e2, e3, e4, e5, e6, Except.map, hem, hvalid, hok]

/-! ## rejection -/

def IsError {ε α : Type} (x : Except ε α) : Prop := ∃ e, x = .error e

theorem foldItems_error_of_mem {α : Type} (step : α → Item → Except ParseErr α) (items : List Item)
    (it : Item) (hmem : it ∈ items) (hbad : ∀ acc, IsError (step acc it)) (acc : α) :
    IsError (foldItems step acc items) := by
  induction items generalizing acc with
  | nil => exact absurd hmem (by simp)
  | cons x rest ih =>
    unfold foldItems
    rcases List.mem_cons.mp hmem with h | h
    · subst h
      obtain ⟨e, he⟩ := hbad acc
      rw [he]
      exact ⟨e, rfl⟩
    · cases step acc x with
      | error e => exact ⟨e, rfl⟩
      | ok a => exact ih h a

/-- a text that `big.Int.UnmarshalXML` refuses: not a base 10 integer, or negative. -/
def BadNumber (t : Text) : Prop := parseDecInt? t = none ∨ ∃ z, parseDecInt? t = some z ∧ z < 0

theorem bigElem_bad (name : String) (t : Text) (h : BadNumber t) : IsError (bigElem name t) := by
  unfold bigElem unmarshalXML
  rcases h with h | ⟨z, h, hz⟩
  · rw [h]; exact ⟨_, rfl⟩
  · rw [h]; simp only [hz, if_true]; exact ⟨_, rfl⟩

theorem badNumber_negative (z : Int) (h : z < 0) : BadNumber (intToDec z) :=
  Or.inr ⟨z, parseDecInt_intToDec z, h⟩

theorem except_map_error {ε α β : Type} (f : α → β) (x : Except ε α) (h : IsError x) :
    IsError (x.map f) := by
  obtain ⟨e, he⟩ := h
  rw [he]
  exact ⟨e, rfl⟩

def pubBigNames : List String := ["n", "Z", "S", "G", "H"]
def privBigNames : List String := ["p", "q", "pPrime", "qPrime"]

theorem pubStep_bad_number (acc : PubAcc) (name : String) (t : Text) (hn : name ∈ pubBigNames)
    (h : BadNumber t) : IsError (pubStep acc (.elem name t)) := by
  have hb := bigElem_bad name t h
  simp only [pubBigNames, List.mem_cons, List.not_mem_nil, or_false] at hn
  rcases hn with rfl | rfl | rfl | rfl | rfl <;>
    (simp only [pubStep, String.reduceEq, if_false, if_true]; exact except_map_error _ _ hb)

theorem privStep_bad_number (acc : PrivAcc) (name : String) (t : Text) (hn : name ∈ privBigNames)
    (h : BadNumber t) : IsError (privStep acc (.elem name t)) := by
  have hb := bigElem_bad name t h
  simp only [privBigNames, List.mem_cons, List.not_mem_nil, or_false] at hn
  rcases hn with rfl | rfl | rfl | rfl <;>
    (simp only [privStep, String.reduceEq, if_false, if_true]; exact except_map_error _ _ hb)

theorem parseBaseEntries_bad (entries : List (String × Text)) (name : String) (t : Text)
    (hmem : (name, t) ∈ entries) (h : BadNumber t) : IsError (parseBaseEntries entries) := by
  induction entries with
  | nil => exact absurd hmem (by simp)
  | cons x rest ih =>
    obtain ⟨xn, xt⟩ := x
    unfold parseBaseEntries
    rcases List.mem_cons.mp hmem with hx | hx
    · have : xt = t := by injection hx with _ h2; exact h2.symm
      subst this
      obtain ⟨e, he⟩ := bigElem_bad "Bases" xt h
      rw [he]
      exact ⟨e, rfl⟩
    · cases bigElem "Bases" xt with
      | error e => exact ⟨e, rfl⟩
      | ok z =>
        obtain ⟨e, he⟩ := ih hx
        simp only [he]
        exact ⟨e, rfl⟩

/-- a base list that must be refused: unreadable count, count ≠ number of entries, or an entry
    that is not a non-negative base 10 integer. -/
def BadBases (num : Option Text) (entries : List (String × Text)) : Prop :=
  IsError (attrInt "Bases" num) ∨ (∃ k, attrInt "Bases" num = .ok k ∧ k ≠ (entries.length : Int)) ∨
    ∃ name t, (name, t) ∈ entries ∧ BadNumber t

theorem parseBases_bad (num : Option Text) (entries : List (String × Text)) (h : BadBases num entries) :
    IsError (parseBases num entries) := by
  unfold parseBases
  rcases h with ⟨e, he⟩ | ⟨k, hk, hne⟩ | ⟨name, t, hmem, hbad⟩
  · rw [he]; exact ⟨e, rfl⟩
  · rw [hk]; simp only [hne, ne_eq, not_false_eq_true, if_true]; exact ⟨_, rfl⟩
  · cases attrInt "Bases" num with
    | error e => exact ⟨e, rfl⟩
    | ok k =>
      simp only
      split_ifs
      · exact ⟨_, rfl⟩
      · exact parseBaseEntries_bad entries name t hmem hbad

theorem pubStep_bad_bases (acc : PubAcc) (num : Option Text) (entries : List (String × Text))
    (h : BadBases num entries) : IsError (pubStep acc (.bases num entries)) := by
  simp only [pubStep]
  exact except_map_error _ _ (parseBases_bad num entries h)

/-- the accumulator keeps `n` (resp. Z, S) unset as long as no such element is met. -/
theorem foldItems_pub_keeps (sel : PubAcc → Option Int) (name : String)
    (hsel : ∀ acc it acc', pubStep acc it = .ok acc' → (∀ t, it ≠ .elem name t) → sel acc' = sel acc)
    (items : List Item) (hno : ∀ t, Item.elem name t ∉ items) (acc acc' : PubAcc)
    (h : foldItems pubStep acc items = .ok acc') : sel acc' = sel acc := by
  induction items generalizing acc with
  | nil =>
    simp only [foldItems] at h
    injection h with h; rw [h]
  | cons it rest ih =>
    unfold foldItems at h
    cases hs : pubStep acc it with
    | error e => rw [hs] at h; exact absurd h (by simp)
    | ok a =>
      rw [hs] at h
      have h1 := ih (fun t ht => hno t (List.mem_cons_of_mem _ ht)) a h
      have h2 := hsel acc it a hs (fun t ht => hno t (by rw [ht]; simp))
      rw [h1, h2]

theorem except_map_ok {ε α β : Type} {f : α → β} {x : Except ε α} {b : β} (h : x.map f = .ok b) :
    ∃ a, x = .ok a ∧ b = f a := by
  cases x with
  | error e => exact absurd h (by simp [Except.map])
  | ok a =>
    refine ⟨a, rfl, ?_⟩
    simp only [Except.map] at h
    injection h with h
    exact h.symm

theorem pubStep_keeps_n (acc : PubAcc) (it : Item) (acc' : PubAcc) (h : pubStep acc it = .ok acc')
    (hne : ∀ t, it ≠ .elem "n" t) : acc'.n = acc.n := by
  cases it with
  | elem name t =>
    have hn : name ≠ "n" := fun hh => hne t (by rw [hh])
    simp only [pubStep] at h
    split_ifs at h <;> first
      | (obtain ⟨_, _, rfl⟩ := except_map_ok h; rfl)
      | (injection h with h; rw [← h])
  | bases num entries =>
    simp only [pubStep] at h
    obtain ⟨_, _, rfl⟩ := except_map_ok h; rfl
  | features l =>
    simp only [pubStep] at h
    obtain ⟨_, _, rfl⟩ := except_map_ok h; rfl

theorem pubStep_keeps_z (acc : PubAcc) (it : Item) (acc' : PubAcc) (h : pubStep acc it = .ok acc')
    (hne : ∀ t, it ≠ .elem "Z" t) : acc'.z = acc.z := by
  cases it with
  | elem name t =>
    have hn : name ≠ "Z" := fun hh => hne t (by rw [hh])
    simp only [pubStep] at h
    split_ifs at h <;> first
      | (obtain ⟨_, _, rfl⟩ := except_map_ok h; rfl)
      | (injection h with h; rw [← h])
  | bases num entries =>
    simp only [pubStep] at h
    obtain ⟨_, _, rfl⟩ := except_map_ok h; rfl
  | features l =>
    simp only [pubStep] at h
    obtain ⟨_, _, rfl⟩ := except_map_ok h; rfl

theorem pubStep_keeps_s (acc : PubAcc) (it : Item) (acc' : PubAcc) (h : pubStep acc it = .ok acc')
    (hne : ∀ t, it ≠ .elem "S" t) : acc'.s = acc.s := by
  cases it with
  | elem name t =>
    have hn : name ≠ "S" := fun hh => hne t (by rw [hh])
    simp only [pubStep] at h
    split_ifs at h <;> first
      | (obtain ⟨_, _, rfl⟩ := except_map_ok h; rfl)
      | (injection h with h; rw [← h])
  | bases num entries =>
    simp only [pubStep] at h
    obtain ⟨_, _, rfl⟩ := except_map_ok h; rfl
  | features l =>
    simp only [pubStep] at h
    obtain ⟨_, _, rfl⟩ := except_map_ok h; rfl


theorem foldItems_priv_keeps (sel : PrivAcc → Option Int) (name : String)
    (hsel : ∀ acc it acc', privStep acc it = .ok acc' → (∀ t, it ≠ .elem name t) → sel acc' = sel acc)
    (items : List Item) (hno : ∀ t, Item.elem name t ∉ items) (acc acc' : PrivAcc)
    (h : foldItems privStep acc items = .ok acc') : sel acc' = sel acc := by
  induction items generalizing acc with
  | nil =>
    simp only [foldItems] at h
    injection h with h; rw [h]
  | cons it rest ih =>
    unfold foldItems at h
    cases hs : privStep acc it with
    | error e => rw [hs] at h; exact absurd h (by simp)
    | ok a =>
      rw [hs] at h
      have h1 := ih (fun t ht => hno t (List.mem_cons_of_mem _ ht)) a h
      have h2 := hsel acc it a hs (fun t ht => hno t (by rw [ht]; simp))
      rw [h1, h2]

theorem privStep_keeps_p (acc : PrivAcc) (it : Item) (acc' : PrivAcc) (h : privStep acc it = .ok acc')
    (hne : ∀ t, it ≠ .elem "p" t) : acc'.p = acc.p := by
  cases it with
  | elem name t =>
    have hn : name ≠ "p" := fun hh => hne t (by rw [hh])
    simp only [privStep] at h
    split_ifs at h <;> first
      | (obtain ⟨_, _, rfl⟩ := except_map_ok h; rfl)
      | (injection h with h; rw [← h])
  | bases num entries =>
    simp only [privStep] at h
    injection h with h; rw [← h]
  | features l =>
    simp only [privStep] at h
    injection h with h; rw [← h]

theorem privStep_keeps_q (acc : PrivAcc) (it : Item) (acc' : PrivAcc) (h : privStep acc it = .ok acc')
    (hne : ∀ t, it ≠ .elem "q" t) : acc'.q = acc.q := by
  cases it with
  | elem name t =>
    have hn : name ≠ "q" := fun hh => hne t (by rw [hh])
    simp only [privStep] at h
    split_ifs at h <;> first
      | (obtain ⟨_, _, rfl⟩ := except_map_ok h; rfl)
      | (injection h with h; rw [← h])
  | bases num entries =>
    simp only [privStep] at h
    injection h with h; rw [← h]
  | features l =>
    simp only [privStep] at h
    injection h with h; rw [← h]

theorem privStep_keeps_pPrime (acc : PrivAcc) (it : Item) (acc' : PrivAcc) (h : privStep acc it = .ok acc')
    (hne : ∀ t, it ≠ .elem "pPrime" t) : acc'.pPrime = acc.pPrime := by
  cases it with
  | elem name t =>
    have hn : name ≠ "pPrime" := fun hh => hne t (by rw [hh])
    simp only [privStep] at h
    split_ifs at h <;> first
      | (obtain ⟨_, _, rfl⟩ := except_map_ok h; rfl)
      | (injection h with h; rw [← h])
  | bases num entries =>
    simp only [privStep] at h
    injection h with h; rw [← h]
  | features l =>
    simp only [privStep] at h
    injection h with h; rw [← h]

theorem privStep_keeps_qPrime (acc : PrivAcc) (it : Item) (acc' : PrivAcc) (h : privStep acc it = .ok acc')
    (hne : ∀ t, it ≠ .elem "qPrime" t) : acc'.qPrime = acc.qPrime := by
  cases it with
  | elem name t =>
    have hn : name ≠ "qPrime" := fun hh => hne t (by rw [hh])
    simp only [privStep] at h
    split_ifs at h <;> first
      | (obtain ⟨_, _, rfl⟩ := except_map_ok h; rfl)
      | (injection h with h; rw [← h])
  | bases num entries =>
    simp only [privStep] at h
    injection h with h; rw [← h]
  | features l =>
    simp only [privStep] at h
    injection h with h; rw [← h]

/-! ## documents lacking a mandatory element are refused -/

theorem parsePub_missing (env : Env) (doc : KeyDoc) (name : String) (hn : name ∈ ["n", "Z", "S"])
    (hno : ∀ t, Item.elem name t ∉ doc.items) : IsError (parsePub env doc) := by
  unfold parsePub
  split_ifs
  · exact ⟨_, rfl⟩
  · cases hf : foldItems pubStep {} doc.items with
    | error e => exact ⟨e, rfl⟩
    | ok acc =>
      simp only [List.mem_cons, List.not_mem_nil, or_false] at hn
      rcases hn with rfl | rfl | rfl
      · have hk : acc.n = none := foldItems_pub_keeps (·.n) "n" pubStep_keeps_n doc.items hno {} acc hf
        obtain ⟨c, e, n, z, s, g, h, r, ep, ec⟩ := acc
        simp only at hk
        subst hk
        exact ⟨_, rfl⟩
      · have hk : acc.z = none := foldItems_pub_keeps (·.z) "Z" pubStep_keeps_z doc.items hno {} acc hf
        obtain ⟨c, e, n, z, s, g, h, r, ep, ec⟩ := acc
        simp only at hk
        subst hk
        cases n <;> exact ⟨_, rfl⟩
      · have hk : acc.s = none := foldItems_pub_keeps (·.s) "S" pubStep_keeps_s doc.items hno {} acc hf
        obtain ⟨c, e, n, z, s, g, h, r, ep, ec⟩ := acc
        simp only at hk
        subst hk
        cases n <;> cases z <;> exact ⟨_, rfl⟩

theorem parsePriv_missing (env : Env) (demo : Bool) (doc : KeyDoc) (name : String)
    (hn : name ∈ ["p", "q", "pPrime", "qPrime"])
    (hno : ∀ t, Item.elem name t ∉ doc.items) : IsError (parsePriv env demo doc) := by
  unfold parsePriv
  by_cases hroot : doc.ns ≠ idemixNs ∨ doc.root ≠ "IssuerPrivateKey"
  · rw [if_pos hroot]; exact ⟨_, rfl⟩
  · rw [if_neg hroot]
    cases hf : foldItems privStep {} doc.items with
    | error e => exact ⟨e, rfl⟩
    | ok acc =>
      simp only [List.mem_cons, List.not_mem_nil, or_false] at hn
      rcases hn with rfl | rfl | rfl | rfl
      · have hk : acc.p = none := foldItems_priv_keeps (·.p) "p" privStep_keeps_p doc.items hno {} acc hf
        obtain ⟨c, e, p, q, pp, qp, ec⟩ := acc
        simp only at hk
        subst hk
        exact ⟨_, rfl⟩
      · have hk : acc.q = none := foldItems_priv_keeps (·.q) "q" privStep_keeps_q doc.items hno {} acc hf
        obtain ⟨c, e, p, q, pp, qp, ec⟩ := acc
        simp only at hk
        subst hk
        cases p <;> exact ⟨_, rfl⟩
      · have hk : acc.pPrime = none :=
          foldItems_priv_keeps (·.pPrime) "pPrime" privStep_keeps_pPrime doc.items hno {} acc hf
        obtain ⟨c, e, p, q, pp, qp, ec⟩ := acc
        simp only at hk
        subst hk
        cases p <;> cases q <;> exact ⟨_, rfl⟩
      · have hk : acc.qPrime = none :=
          foldItems_priv_keeps (·.qPrime) "qPrime" privStep_keeps_qPrime doc.items hno {} acc hf
        obtain ⟨c, e, p, q, pp, qp, ec⟩ := acc
        simp only at hk
        subst hk
        cases p <;> cases q <;> cases pp <;> exact ⟨_, rfl⟩

/-! ## what an accepted document guarantees -/

theorem parsePub_ok_supported (env : Env) (doc : KeyDoc) (k : PubKeyData)
    (h : parsePub env doc = .ok k) : env.supported (bitLen k.n) = true := by
  unfold parsePub at h
  by_cases hroot : doc.ns ≠ idemixNs ∨ doc.root ≠ "IssuerPublicKey"
  · rw [if_pos hroot] at h; cases h
  · rw [if_neg hroot] at h
    cases hf : foldItems pubStep {} doc.items with
    | error e => rw [hf] at h; cases h
    | ok acc =>
      rw [hf] at h
      obtain ⟨c, e, n, z, s, g, hh, r, ep, ec⟩ := acc
      cases n with
      | none => cases h
      | some n =>
        cases z with
        | none => cases h
        | some z =>
          cases s with
          | none => cases h
          | some s =>
            simp only at h
            split_ifs at h with h1 h2
            all_goals cases h
            simpa using h1

theorem validatePriv_ok (k : PrivKeyData) (h : validatePriv k = .ok ()) :
    (k.p - 1) / 2 = k.pPrime ∧ (k.q - 1) / 2 = k.qPrime ∧ safePrime k.p = true ∧ safePrime k.q = true := by
  unfold validatePriv at h
  split_ifs at h with h1 h2 h3 h4
  exact ⟨by simpa using h1, by simpa using h2, by simpa using h3, by simpa using h4⟩

theorem parsePriv_ok_validated (env : Env) (doc : KeyDoc) (k : PrivKeyData)
    (h : parsePriv env false doc = .ok k) : validatePriv k = .ok () := by
  unfold parsePriv at h
  by_cases hroot : doc.ns ≠ idemixNs ∨ doc.root ≠ "IssuerPrivateKey"
  · rw [if_pos hroot] at h; cases h
  · rw [if_neg hroot] at h
    cases hf : foldItems privStep {} doc.items with
    | error e => rw [hf] at h; cases h
    | ok acc =>
      rw [hf] at h
      obtain ⟨c, e, p, q, pp, qp, ec⟩ := acc
      cases p with
      | none => cases h
      | some p =>
        cases q with
        | none => cases h
        | some q =>
          cases pp with
          | none => cases h
          | some pp =>
            cases qp with
            | none => cases h
            | some qp =>
              simp only [Bool.false_eq_true, if_false] at h
              cases hv : validatePriv { counter := c, expiry := e, p := p, q := q, pPrime := pp,
                                        qPrime := qp, ecdsa := ec } with
              | error err => rw [hv] at h; cases h
              | ok u =>
                rw [hv] at h
                simp only at h
                split_ifs at h
                all_goals cases h
                exact hv

end Gabi.Serial
