/-
  GabiProofs.KeyGen — lemmas behind property C16 (issuer key generation):
  receive loop and residue filter, bit lengths, the safe-prime criterion of safeprime.Generate,
  quadratic residues modulo n = p·q via CRT, powers of S, prepareBytes.
-/
import GabiModel.KeyGen
import GabiProofs.NumLemmas
import GabiProofs.DerLemmas
import GabiProofs.Legendre
import Mathlib.Data.ZMod.Basic
import Mathlib.Data.ZMod.Units
import Mathlib.FieldTheory.Finite.Basic
import Mathlib.GroupTheory.OrderOfElement
import Mathlib.Data.Nat.Totient
import Mathlib.Algebra.Group.Subgroup.ZPowers.Basic
import Mathlib.Algebra.Group.Submonoid.Membership
import Mathlib.Tactic.Ring
import Mathlib.Tactic.Linarith
import Mathlib.Tactic.NormNum
namespace Gabi.KeyGen
open Gabi

/-! ## the receive loop and the residue filter -/

/-! ### the receive loop -/

theorem findMatch_some {l : List Nat} {ln p q : Nat} (h : findMatch l ln p = some q) :
    q ∈ l ∧ natBitLen (p * q) = ln ∧ p % 8 ≠ q % 8 := by
  unfold findMatch at h
  have h1 := List.find?_some h
  have h2 := List.mem_of_find?_eq_some h
  simp only [Bool.and_eq_true, beq_iff_eq, bne_iff_ne, ne_eq] at h1
  exact ⟨h2, h1.1, h1.2⟩

theorem pairLoop_sound (ln : Nat) (stream : List Nat) :
    ∀ (stored : List Nat) (p q : Nat),
      (∀ x ∈ stored, (x / 2) % 8 ≠ 1) →
      pairLoop ln stored stream = some (p, q) →
      pairFilter ln p q = true ∧ p ∈ stream ∧ (q ∈ stored ∨ q ∈ stream) := by
  induction stream with
  | nil => intro stored p q _ h; simp [pairLoop] at h
  | cons x rest ih =>
    intro stored p q hst h
    simp only [pairLoop, pairStep] at h
    by_cases hx : (x / 2) % 8 = 1
    · simp only [hx, if_true] at h
      obtain ⟨h1, h2, h3⟩ := ih stored p q hst h
      exact ⟨h1, List.mem_cons_of_mem _ h2, h3.imp id (List.mem_cons_of_mem _)⟩
    · simp only [hx, if_false] at h
      cases hfm : findMatch stored ln x with
      | some y =>
        simp only [hfm, Option.some.injEq, Prod.mk.injEq] at h
        obtain ⟨rfl, rfl⟩ := h
        obtain ⟨hm, hbl, hne⟩ := findMatch_some hfm
        refine ⟨?_, List.mem_cons_self, Or.inl hm⟩
        simp [pairFilter, hx, hst _ hm, hne, hbl]
      | none =>
        simp only [hfm] at h
        have hst' : ∀ y ∈ stored ++ [x], (y / 2) % 8 ≠ 1 := by
          intro y hy
          rcases List.mem_append.mp hy with hy | hy
          · exact hst y hy
          · simp only [List.mem_singleton] at hy; subst hy; exact hx
        obtain ⟨h1, h2, h3⟩ := ih _ p q hst' h
        refine ⟨h1, List.mem_cons_of_mem _ h2, ?_⟩
        rcases h3 with h3 | h3
        · rcases List.mem_append.mp h3 with h3 | h3
          · exact Or.inl h3
          · simp only [List.mem_singleton] at h3; subst h3; exact Or.inr List.mem_cons_self
        · exact Or.inr (List.mem_cons_of_mem _ h3)

/-! ### residues -/

theorem pairFilter_canProveResidues {ln p q : Nat} (hp : p % 4 = 3) (hq : q % 4 = 3)
    (h : pairFilter ln p q = true) :
    canProveResidues (p / 2) (q / 2) = true ∧ p ≠ q ∧ (p * q) % 8 = 5 ∧ natBitLen (p * q) = ln := by
  simp only [pairFilter, Bool.and_eq_true, bne_iff_ne, ne_eq, beq_iff_eq] at h
  obtain ⟨⟨⟨h1, h2⟩, h3⟩, h4⟩ := h
  have ep : 2 * (p / 2) + 1 = p := by omega
  have eq : 2 * (q / 2) + 1 = q := by omega
  refine ⟨?_, ?_, ?_, h4⟩
  · simp only [canProveResidues, ep, eq, Bool.and_eq_true, bne_iff_ne, ne_eq]
    refine ⟨⟨⟨⟨⟨?_, ?_⟩, h1⟩, h2⟩, h3⟩, ?_⟩ <;> omega
  · intro hpq; subst hpq; exact h3 rfl
  · rw [Nat.mul_mod]
    have : p % 8 = 3 ∨ p % 8 = 7 := by omega
    have : q % 8 = 3 ∨ q % 8 = 7 := by omega
    rcases ‹p % 8 = 3 ∨ p % 8 = 7› with a | a <;> rcases ‹q % 8 = 3 ∨ q % 8 = 7› with b | b <;>
      simp [a, b] at h3 ⊢

/-! ## bit lengths -/

theorem natBitLen_eq_iff (n k : Nat) (hk : 0 < k) : natBitLen n = k ↔ 2 ^ (k - 1) ≤ n ∧ n < 2 ^ k := by
  obtain ⟨j, rfl⟩ : ∃ j, k = j + 1 := ⟨k - 1, by omega⟩
  simpa using natBitLen_eq_succ_iff n j

/-- two factors with their two top bits set (`k` bits each) have a product of exactly `2k` bits. -/
theorem product_bitlen (k p q : Nat) (hk : 2 ≤ k)
    (hp : 3 * 2 ^ (k - 2) ≤ p) (hp' : p < 2 ^ k) (hq : 3 * 2 ^ (k - 2) ≤ q) (hq' : q < 2 ^ k) :
    natBitLen (p * q) = 2 * k := by
  rw [natBitLen_eq_iff _ _ (by omega)]
  obtain ⟨j, rfl⟩ : ∃ j, k = j + 2 := ⟨k - 2, by omega⟩
  simp only [Nat.add_sub_cancel] at hp hq
  have e1 : 2 ^ (2 * (j + 2) - 1) = 8 * (2 ^ j * 2 ^ j) := by
    have : 2 * (j + 2) - 1 = j + j + 3 := by omega
    rw [this, pow_add, pow_add]; ring
  have e2 : 2 ^ (2 * (j + 2)) = 2 ^ (j + 2) * 2 ^ (j + 2) := by
    rw [two_mul, pow_add]
  constructor
  · rw [e1]
    have := Nat.mul_le_mul hp hq
    nlinarith
  · rw [e2]
    exact Nat.mul_lt_mul'' hp' hq'

/-- the value returned by `Generate(k)`: `2q+1` where `q` has `k-1` bits with its two top bits set. -/
theorem safeprime_range (k q : Nat) (hk : 3 ≤ k)
    (hq : 3 * 2 ^ (k - 3) ≤ q) (hq' : q < 2 ^ (k - 1)) :
    3 * 2 ^ (k - 2) ≤ 2 * q + 1 ∧ 2 * q + 1 < 2 ^ k ∧ natBitLen (2 * q + 1) = k := by
  obtain ⟨j, rfl⟩ : ∃ j, k = j + 3 := ⟨k - 3, by omega⟩
  simp only [Nat.add_sub_cancel] at hq
  have e1 : j + 3 - 2 = j + 1 := by omega
  have e2 : j + 3 - 1 = j + 2 := by omega
  rw [e2] at hq'
  rw [e1]
  have p1 : 2 ^ (j + 1) = 2 * 2 ^ j := by rw [pow_succ]; ring
  have p2 : 2 ^ (j + 2) = 4 * 2 ^ j := by rw [pow_add]; ring
  have p3 : 2 ^ (j + 3) = 8 * 2 ^ j := by rw [pow_add]; ring
  refine ⟨by omega, by omega, ?_⟩
  rw [natBitLen_eq_iff _ _ (by omega), e2, p2, p3]
  omega

/-! ## the criterion used by safeprime.Generate -/

theorem safe_prime_criterion (q : Nat) (hq : q.Prime) (h : 2 ^ (2 * q) % (2 * q + 1) = 1) :
    (2 * q + 1).Prime := by
  have hq2le := hq.two_le
  generalize hp : 2 * q + 1 = p at h
  have hp5 : 5 ≤ p := by omega
  have : NeZero p := ⟨by omega⟩
  have hcop : Nat.Coprime 2 p := by
    rw [Nat.coprime_two_left]; exact ⟨q, by omega⟩
  let u : (ZMod p)ˣ := ZMod.unitOfCoprime 2 hcop
  have hval : (u : ZMod p) = ((2 : Nat) : ZMod p) := ZMod.coe_unitOfCoprime 2 hcop
  have hu : u ^ (2 * q) = 1 := by
    apply Units.ext
    rw [Units.val_pow_eq_pow_val, hval, Units.val_one]
    have : ((2 ^ (2 * q) : Nat) : ZMod p) = ((1 : Nat) : ZMod p) := by
      rw [ZMod.natCast_eq_natCast_iff']
      rw [h, Nat.mod_eq_of_lt (by omega)]
    exact_mod_cast this
  have hord : orderOf u ∣ 2 * q := orderOf_dvd_of_pow_eq_one hu
  have hq_dvd : q ∣ orderOf u := by
    rcases Nat.coprime_or_dvd_of_prime hq (orderOf u) with hc | hd
    · have h2 : orderOf u ∣ 2 := Nat.Coprime.dvd_of_dvd_mul_right hc.symm hord
      have hu2 : u ^ 2 = 1 := orderOf_dvd_iff_pow_eq_one.mp h2
      have h4 : ((4 : Nat) : ZMod p) = ((1 : Nat) : ZMod p) := by
        have := congrArg Units.val hu2
        rw [Units.val_pow_eq_pow_val, hval, Units.val_one] at this
        have e : ((4 : Nat) : ZMod p) = ((2 : Nat) : ZMod p) ^ 2 := by norm_num
        rw [e, this]; simp
      rw [ZMod.natCast_eq_natCast_iff', Nat.mod_eq_of_lt (by omega : 4 < p),
        Nat.mod_eq_of_lt (by omega : 1 < p)] at h4
      omega
    · exact hd
  have hcard : orderOf u ∣ Nat.totient p := by
    rw [← ZMod.card_units_eq_totient]; exact orderOf_dvd_card
  have hqφ : q ∣ Nat.totient p := dvd_trans hq_dvd hcard
  have h2φ : 2 ∣ Nat.totient p := (Nat.totient_even (by omega)).two_dvd
  have hlt : Nat.totient p < p := Nat.totient_lt p (by omega)
  by_cases hq2 : q = 2
  · subst hq2; subst hp; exact Nat.prime_five
  · have hcop2 : Nat.Coprime 2 q := (Nat.coprime_primes Nat.prime_two hq).mpr (Ne.symm hq2)
    have hd : 2 * q ∣ Nat.totient p := Nat.Coprime.mul_dvd_of_dvd_of_dvd hcop2 h2φ hqφ
    have hpos : 0 < Nat.totient p := Nat.totient_pos.mpr (by omega)
    have hle : 2 * q ≤ Nat.totient p := Nat.le_of_dvd hpos hd
    have : Nat.totient p = p - 1 := by omega
    exact (Nat.totient_eq_iff_prime (by omega)).mp this

/-! ## quadratic residues modulo n, powers of S -/

/-- squares modulo two coprime moduli glue to a square modulo the product (CRT). -/
theorem isSquare_zmod_mul {p q : Nat} (hcop : Nat.Coprime p q) (a : Int)
    (hp : IsSquare (a : ZMod p)) (hq : IsSquare (a : ZMod q)) : IsSquare (a : ZMod (p * q)) := by
  obtain ⟨x, hx⟩ := hp
  obtain ⟨y, hy⟩ := hq
  let e := ZMod.chineseRemainder hcop
  refine ⟨e.symm (x, y), ?_⟩
  apply e.injective
  rw [map_mul, e.apply_symm_apply, map_intCast]
  ext
  · simpa using hx
  · simpa using hy

theorem legendre_one_isSquare_mul (p q : Nat) [Fact p.Prime] [Fact q.Prime] (hp2 : p ≠ 2) (hq2 : q ≠ 2)
    (hpq : p ≠ q) (s : Nat)
    (h1 : legendreSymbol (s : Int) (p : Int) = 1) (h2 : legendreSymbol (s : Int) (q : Int) = 1) :
    IsSquare ((s : Int) : ZMod (p * q)) ∧ Nat.Coprime s (p * q) := by
  have hpp : p.Prime := Fact.out
  have hqp : q.Prime := Fact.out
  have ndp : ¬ (p : Int) ∣ (s : Int) := by
    intro hd
    rw [← legendreSymbol_eq_zero_iff (s : Int) p hp2] at hd
    omega
  have ndq : ¬ (q : Int) ∣ (s : Int) := by
    intro hd
    rw [← legendreSymbol_eq_zero_iff (s : Int) q hq2] at hd
    omega
  have sp := (legendreSymbol_eq_one_iff' (s : Int) p hp2 ndp).mp h1
  have sq := (legendreSymbol_eq_one_iff' (s : Int) q hq2 ndq).mp h2
  have hcop : Nat.Coprime p q := (Nat.coprime_primes hpp hqp).mpr hpq
  refine ⟨isSquare_zmod_mul hcop _ sp sq, ?_⟩
  have c1 : Nat.Coprime p s := (Nat.Prime.coprime_iff_not_dvd hpp).mpr (by exact_mod_cast ndp)
  have c2 : Nat.Coprime q s := (Nat.Prime.coprime_iff_not_dvd hqp).mpr (by exact_mod_cast ndq)
  exact (Nat.Coprime.mul_left c1 c2).symm

theorem powMod_cast_zmod (s x n : Nat) : ((powMod s x n : Nat) : ZMod n) = (s : ZMod n) ^ x := by
  rw [powMod_eq, ZMod.natCast_mod]; push_cast; rfl

theorem randomQR_square {n r g : Nat} (hn : n ≠ 0) (h : randomQR n r = some g) :
    IsSquare (g : ZMod n) ∧ IsUnit (g : ZMod n) ∧ g < n := by
  unfold randomQR at h
  split at h
  · next hc =>
    have := Option.some.inj h
    subst this
    have hu : IsUnit (r : ZMod n) := (ZMod.isUnit_iff_coprime r n).mpr hc
    have e : ((r * r % n : Nat) : ZMod n) = (r : ZMod n) * (r : ZMod n) := by
      rw [ZMod.natCast_mod]; push_cast; rfl
    rw [e]
    exact ⟨⟨_, rfl⟩, hu.mul hu, Nat.mod_lt _ (Nat.pos_of_ne_zero hn)⟩
  · exact absurd h (by simp)

theorem deriveBases_powers (n s xZ : Nat) (xR : List Nat) :
    ((deriveBases n s xZ xR).z : ZMod n) ∈ Submonoid.powers (s : ZMod n) ∧
    ∀ b ∈ (deriveBases n s xZ xR).r, (b : ZMod n) ∈ Submonoid.powers (s : ZMod n) := by
  constructor
  · exact ⟨xZ, (powMod_cast_zmod s xZ n).symm⟩
  · intro b hb
    simp only [deriveBases, List.mem_map] at hb
    obtain ⟨x, _, rfl⟩ := hb
    exact ⟨x, (powMod_cast_zmod s x n).symm⟩

/-- group form: for a unit `S`, every power is in the cyclic subgroup it generates. -/
theorem power_mem_zpowers {n : Nat} (u : (ZMod n)ˣ) (b : ZMod n) (h : b ∈ Submonoid.powers (u : ZMod n)) :
    ∃ v : (ZMod n)ˣ, (v : ZMod n) = b ∧ v ∈ Subgroup.zpowers u := by
  obtain ⟨k, hk⟩ := h
  refine ⟨u ^ k, ?_, Subgroup.npow_mem_zpowers u k⟩
  rw [Units.val_pow_eq_pow_val]; exact hk

theorem isSquare_of_mem_powers {M : Type} [CommMonoid M] {s b : M} (hs : IsSquare s)
    (h : b ∈ Submonoid.powers s) : IsSquare b := by
  obtain ⟨k, rfl⟩ := h
  exact hs.pow k

/-! ## prepareBytes -/

theorem two_pow_le_256 {b : Nat} (h8 : b ≤ 8) : 2 ^ b ≤ 256 := by
  have : (2 : Nat) ^ b ≤ 2 ^ 8 := Nat.pow_le_pow_right (by norm_num) h8
  simpa using this

theorem mask_toNat (b : Nat) (h8 : b ≤ 8) : (((2 ^ b - 1) % 256).toUInt8).toNat = 2 ^ b - 1 := by
  rw [toUInt8_mod_toNat]
  have := two_pow_le_256 h8
  have : 0 < 2 ^ b := Nat.two_pow_pos b
  exact Nat.mod_eq_of_lt (by omega)

theorem masked_lt (x : UInt8) (b : Nat) (h8 : b ≤ 8) :
    (x &&& ((2 ^ b - 1) % 256).toUInt8).toNat < 2 ^ b := by
  rw [UInt8.toNat_and, mask_toNat b h8, Nat.and_two_pow_sub_one_eq_mod]
  exact Nat.mod_lt _ (Nat.two_pow_pos b)

theorem headFix_bounds (x : UInt8) (b : Nat) (h2 : 2 ≤ b) (h8 : b ≤ 8) :
    3 * 2 ^ (b - 2) ≤ (headFix x b).toNat ∧ (headFix x b).toNat < 2 ^ b := by
  obtain ⟨j, rfl⟩ : ∃ j, b = j + 2 := ⟨b - 2, by omega⟩
  have hj : (2 : Nat) ^ j ≤ 64 := by
    have h6 : (2 : Nat) ^ j ≤ 2 ^ 6 := Nat.pow_le_pow_right (by norm_num) (by omega)
    exact le_trans h6 (by norm_num)
  have hsh : (((3 <<< (j + 2 - 2)) % 256).toUInt8).toNat = 3 * 2 ^ j := by
    rw [toUInt8_mod_toNat, Nat.add_sub_cancel, Nat.shiftLeft_eq]
    have h3 : 3 * 2 ^ j < 256 := by omega
    exact Nat.mod_eq_of_lt h3
  have hp : (2 : Nat) ^ (j + 2) = 4 * 2 ^ j := by rw [pow_add]; ring
  unfold headFix
  rw [UInt8.toNat_or, hsh, Nat.add_sub_cancel]
  refine ⟨Nat.right_le_or, Nat.or_lt_two_pow (masked_lt x _ h8) ?_⟩
  have := Nat.two_pow_pos j
  rw [hp]; omega

theorem headFix1_one (x : UInt8) : (headFix1 x 1).toNat = 1 := by
  unfold headFix1
  rw [UInt8.toNat_or, UInt8.toNat_and, mask_toNat 1 (by norm_num)]
  have : x.toNat &&& (2 ^ 1 - 1) = x.toNat % 2 := by
    rw [Nat.and_two_pow_sub_one_eq_mod]
  rw [this]
  have h := Nat.mod_two_eq_zero_or_one x.toNat
  rcases h with h | h <;> rw [h] <;> rfl

theorem or80_ge (y : UInt8) : 128 ≤ (y ||| 0x80).toNat := by
  rw [UInt8.toNat_or]; exact Nat.right_le_or

/-! orLast -/

theorem orLast_length (l : List UInt8) : (orLast l).length = l.length := by
  induction l with
  | nil => rfl
  | cons x t ih =>
    cases t with
    | nil => rfl
    | cons y r => simp only [orLast, List.length_cons] at ih ⊢; omega

theorem or1_toNat (z : UInt8) : (z ||| 1).toNat = z.toNat ||| 1 := by
  rw [UInt8.toNat_or]; rfl

theorem or1_odd (n : Nat) : (n ||| 1) % 2 = 1 := by
  rw [Nat.or_mod_two_eq_one]; right; rfl

theorem ofBytesBE_mod_two (x : UInt8) (t : List UInt8) (ht : t ≠ []) :
    ofBytesBE (x :: t) % 2 = ofBytesBE t % 2 := by
  rw [ofBytesBE_cons]
  obtain ⟨k, hk⟩ : ∃ k, t.length = k + 1 := ⟨t.length - 1, by
    have := List.length_pos_of_ne_nil ht; omega⟩
  rw [hk, pow_succ]
  have : x.toNat * (256 ^ k * 256) = 2 * (x.toNat * 256 ^ k * 128) := by ring
  rw [this]
  omega

theorem orLast_odd (l : List UInt8) (hl : l ≠ []) : ofBytesBE (orLast l) % 2 = 1 := by
  induction l with
  | nil => exact absurd rfl hl
  | cons x t ih =>
    cases t with
    | nil =>
      simp only [orLast, ofBytesBE_cons, List.length_nil, pow_zero, mul_one, ofBytesBE_nil, add_zero]
      rw [or1_toNat]; exact or1_odd _
    | cons y r =>
      simp only [orLast]
      rw [ofBytesBE_mod_two]
      · exact ih (by simp)
      · intro h
        have := congrArg List.length h
        rw [orLast_length] at this
        simp at this

theorem orLast_ge (l : List UInt8) : ofBytesBE l ≤ ofBytesBE (orLast l) := by
  induction l with
  | nil => exact Nat.le_refl _
  | cons x t ih =>
    cases t with
    | nil =>
      simp only [orLast, ofBytesBE_cons, List.length_nil, pow_zero, mul_one, ofBytesBE_nil, add_zero]
      rw [or1_toNat]; exact Nat.left_le_or
    | cons y r =>
      simp only [orLast]
      rw [ofBytesBE_cons x (y :: r), ofBytesBE_cons x (orLast (y :: r)), orLast_length]
      omega

/-- a list whose head is below `2^b` stays below `2^b · 256^(len-1)` after `orLast`. -/
theorem orLast_lt (x : UInt8) (t : List UInt8) (b : Nat) (hb : 1 ≤ b) (hx : x.toNat < 2 ^ b) :
    ofBytesBE (orLast (x :: t)) < 2 ^ b * 256 ^ t.length := by
  cases t with
  | nil =>
    simp only [orLast, ofBytesBE_cons, List.length_nil, pow_zero, mul_one, ofBytesBE_nil, add_zero]
    rw [or1_toNat]
    refine Nat.or_lt_two_pow hx ?_
    have : (2 : Nat) ^ 1 ≤ 2 ^ b := Nat.pow_le_pow_right (by norm_num) hb
    omega
  | cons y r =>
    simp only [orLast]
    rw [ofBytesBE_cons, orLast_length]
    have h1 := ofBytesBE_lt (orLast (y :: r))
    rw [orLast_length] at h1
    have : (x.toNat + 1) * 256 ^ (y :: r).length ≤ 2 ^ b * 256 ^ (y :: r).length :=
      Nat.mul_le_mul_right _ hx
    nlinarith

theorem topBits_spec (qbits : Nat) (hq : 1 ≤ qbits) :
    1 ≤ topBits qbits ∧ topBits qbits ≤ 8 ∧ qbits = 8 * ((qbits + 7) / 8 - 1) + topBits qbits := by
  unfold topBits
  split <;> omega

/-- `prepareBytes` on the buffer that `Generate` allocates for a `qbits`-bit candidate: the value
    has exactly `qbits` bits, its two top bits are set, it is odd; the length is unchanged. -/
theorem prepareBytes_top_bits (bytes : List UInt8) (qbits : Nat) (hq : 2 ≤ qbits)
    (hlen : bytes.length = (qbits + 7) / 8) :
    3 * 2 ^ (qbits - 2) ≤ ofBytesBE (prepareBytes bytes (topBits qbits)) ∧
    ofBytesBE (prepareBytes bytes (topBits qbits)) < 2 ^ qbits ∧
    ofBytesBE (prepareBytes bytes (topBits qbits)) % 2 = 1 ∧
    (prepareBytes bytes (topBits qbits)).length = bytes.length := by
  obtain ⟨hb1, hb8, hqb⟩ := topBits_spec qbits (by omega)
  generalize topBits qbits = b at *
  cases bytes with
  | nil => simp at hlen; omega
  | cons x rest =>
    simp only [List.length_cons] at hlen
    have hL : rest.length = (qbits + 7) / 8 - 1 := by omega
    rw [← hL] at hqb
    have h256 : ∀ k : Nat, (256 : Nat) ^ k = 2 ^ (8 * k) := by
      intro k; rw [pow_mul]; norm_num
    by_cases hb : 2 ≤ b
    · -- two top bits in the first byte
      simp only [prepareBytes, ge_iff_le, hb, if_true]
      obtain ⟨hlo, hhi⟩ := headFix_bounds x b hb hb8
      refine ⟨?_, ?_, orLast_odd _ (by simp), by rw [orLast_length]; rfl⟩
      · refine le_trans ?_ (orLast_ge _)
        rw [ofBytesBE_cons]
        have e : 3 * 2 ^ (qbits - 2) = 3 * 2 ^ (b - 2) * 256 ^ rest.length := by
          rw [h256, mul_assoc, ← pow_add]; congr 2; omega
        rw [e]
        have := Nat.mul_le_mul_right (256 ^ rest.length) hlo
        omega
      · have := orLast_lt (headFix x b) rest b hb1 hhi
        have e : 2 ^ qbits = 2 ^ b * 256 ^ rest.length := by
          rw [h256, ← pow_add]; congr 1; omega
        rw [e]; exact this
    · -- b = 1: top bit in the first byte, second bit in the next one
      have hb' : b = 1 := by omega
      subst hb'
      cases rest with
      | nil => simp at hqb; omega
      | cons y r =>
        simp only [prepareBytes, ge_iff_le, hb, if_false]
        have h1 := headFix1_one x
        simp only [List.length_cons] at hqb
        refine ⟨?_, ?_, orLast_odd _ (by simp), by rw [orLast_length]; rfl⟩
        · refine le_trans ?_ (orLast_ge _)
          rw [ofBytesBE_cons, ofBytesBE_cons, h1]
          simp only [List.length_cons]
          have e : 3 * 2 ^ (qbits - 2) = 256 ^ (r.length + 1) + 128 * 256 ^ r.length := by
            rw [pow_succ, h256]
            have : qbits - 2 = 8 * r.length + 7 := by omega
            rw [this, pow_add]; norm_num; ring
          rw [e]
          have := Nat.mul_le_mul_right (256 ^ r.length) (or80_ge y)
          omega
        · have := orLast_lt (headFix1 x 1) ((y ||| 0x80) :: r) 1 (le_refl _) (by rw [h1]; norm_num)
          have e : 2 ^ qbits = 2 ^ 1 * 256 ^ ((y ||| 0x80) :: r).length := by
            rw [h256, ← pow_add]; congr 1; simp only [List.length_cons]; omega
          rw [e]; exact this

/-! ## the predicate on generated keys -/

theorem isQR_sound (p q x : Nat) [Fact p.Prime] [Fact q.Prime] (hp2 : p ≠ 2) (hq2 : q ≠ 2)
    (hpq : p ≠ q) (h : isQR p q x = true) :
    IsSquare ((x : Int) : ZMod (p * q)) ∧ Nat.Coprime x (p * q) ∧ 0 < x ∧ x < p * q := by
  simp only [isQR, Bool.and_eq_true, beq_iff_eq, decide_eq_true_eq] at h
  obtain ⟨⟨⟨h0, hlt⟩, h1⟩, h2⟩ := h
  obtain ⟨a, b⟩ := legendre_one_isSquare_mul p q hp2 hq2 hpq x (by exact_mod_cast h1) (by exact_mod_cast h2)
  exact ⟨a, b, h0, hlt⟩

theorem failing_nil_iff (l : List (Bool × String)) :
    ((l.filter (fun c => !c.1)).map (·.2)).isEmpty = true ↔ ∀ c ∈ l, c.1 = true := by
  induction l with
  | nil => simp
  | cons x xs ih =>
    obtain ⟨ok, name⟩ := x
    cases ok <;> simp_all

theorem wellFormed_iff (d : KeyPairData) : wellFormed d = true ↔ ∀ c ∈ checks d, c.1 = true :=
  failing_nil_iff _

end Gabi.KeyGen
