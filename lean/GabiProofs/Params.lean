/-
  GabiProofs.Params — arithmetic of the system parameters, response ranges, selective
  disclosure shape and the counting bound behind statistical hiding.
  Helper lemmas for GabiProps.C04 (and GabiProofs.ParamsC01).
-/
import GabiModel.Keys
import GabiModel.HashTool
import GabiModel.Prover
import GabiProofs.NumLemmas
import GabiProofs.DerLemmas
import Mathlib.Tactic.Ring
import Mathlib.Tactic.Linarith
import Mathlib.Tactic.NormNum
import Mathlib.Data.Finset.Card
import Mathlib.Data.Finset.Image
import Mathlib.Order.Interval.Finset.Nat
import Mathlib.Algebra.BigOperators.Group.Finset.Basic
import Mathlib.Algebra.BigOperators.Ring.Finset
import Mathlib.Algebra.Order.Field.Basic
import Mathlib.Tactic.FieldSimp
import Mathlib.Tactic.Tauto

namespace Gabi

/-! ## 1. the parameter sets -/

/-- `P` is one of the parameter sets of `DefaultSystemParameters` (1024, 2048, 4096). -/
def IsDefaultParams (P : SysParams) : Prop :=
  ∃ kb ∈ Gen.defaultBaseParameters, P = SysParams.ofBase kb.2

/-- the toy parameter set of the test-suite (`Ln = 256 = Lm`). -/
def toyParams : SysParams := SysParams.ofBase toyBase

/-- conditions on the *base* parameters from which every derived inequality follows
    (decidable; checked for each entry of the regenerated table). -/
structure BaseOK (b : Gen.BaseParams) : Prop where
  Lh_eq : b.Lh = 256
  Lm_ge : 256 ≤ b.Lm
  LePrime_pos : 1 ≤ b.LePrime
  Ln_even : b.Ln % 2 = 0
  mCommit_lt : b.Lm + b.Lstatzk + b.Lh + 1 < b.Ln - 4
  eCommit_lt : b.LePrime + b.Lstatzk + b.Lh + 1 < b.Ln - 4
  LePrime_lt : b.LePrime < b.Lstatzk + b.Lh + b.Lm + 5

instance (b : Gen.BaseParams) : Decidable (BaseOK b) :=
  decidable_of_iff (b.Lh = 256 ∧ 256 ≤ b.Lm ∧ 1 ≤ b.LePrime ∧ b.Ln % 2 = 0 ∧
      b.Lm + b.Lstatzk + b.Lh + 1 < b.Ln - 4 ∧ b.LePrime + b.Lstatzk + b.Lh + 1 < b.Ln - 4 ∧
      b.LePrime < b.Lstatzk + b.Lh + b.Lm + 5)
    ⟨fun ⟨a, b, c, d, e, f, g⟩ => ⟨a, b, c, d, e, f, g⟩,
     fun ⟨a, b, c, d, e, f, g⟩ => ⟨a, b, c, d, e, f, g⟩⟩

/-- Everything the range / soundness arguments use about a parameter set. -/
structure ParamsSound (P : SysParams) : Prop where
  /-- the challenge length is the SHA-256 output length -/
  Lh_eq : P.Lh = 256
  /-- hashed attributes (256 bits) fit into `Lm` bits -/
  Lm_ge : 256 ≤ P.Lm
  LePrime_pos : 1 ≤ P.LePrime
  Ln_even : 2 * (P.Ln / 2) = P.Ln
  Ln_ge : 8 ≤ P.Ln
  /-- definitions of the derived parameters -/
  Le_eq : P.Le = P.Lstatzk + P.Lh + P.Lm + 5
  LeCommit_eq : P.LeCommit = P.LePrime + P.Lstatzk + P.Lh
  LmCommit_eq : P.LmCommit = P.Lm + P.Lstatzk + P.Lh
  LRA_eq : P.LRA = P.Ln + P.Lstatzk
  LsCommit_eq : P.LsCommit = P.LmCommit + 1
  Lv_eq : P.Lv = P.Ln + 2 * P.Lstatzk + P.Lh + P.Lm + 4
  LvCommit_eq : P.LvCommit = P.Lv + P.Lstatzk + P.Lh
  LvPrime_eq : P.LvPrime = P.Ln + P.Lstatzk
  LvPrimeCommit_eq : P.LvPrimeCommit = P.Ln + 2 * P.Lstatzk + P.Lh
  /-- `c·m` is absorbed by the randomiser: no overflow of the response range -/
  hm_le : P.Lh + P.Lm ≤ P.LmCommit
  he_le : P.Lh + P.LePrime - 1 + 1 ≤ P.LeCommit + 1
  hv_le : P.LvPrime + P.Lh + 1 ≤ P.LvPrimeCommit + 1
  /-- the response ranges are far below the group order (`≥ 2^(Ln-4)`) -/
  mResp_lt : P.LmCommit + 1 < P.Ln - 4
  eResp_lt : P.LeCommit + 1 < P.Ln - 4
  Lm_lt : P.Lm < P.Ln - 4
  LePrime_lt : P.LePrime < P.Le

theorem ofBase_sound {b : Gen.BaseParams} (h : BaseOK b) : ParamsSound (SysParams.ofBase b) := by
  obtain ⟨h1, h2, h3, h4, h5, h6, h7⟩ := h
  constructor <;> simp only [SysParams.ofBase, Gen.makeDerivedParameters] <;> omega

theorem default_base_ok : ∀ kb ∈ Gen.defaultBaseParameters, BaseOK kb.2 := by decide

/-- every default parameter set satisfies all consistency inequalities. -/
theorem default_params_sound {P : SysParams} (h : IsDefaultParams P) : ParamsSound P := by
  obtain ⟨kb, hkb, rfl⟩ := h
  exact ofBase_sound (default_base_ok kb hkb)

/-- the inequalities of item 1, spelled out for a default set. -/
theorem derived_params_consistent {P : SysParams} (h : IsDefaultParams P) :
    P.Lh + P.Lm ≤ P.LmCommit ∧ P.Lh + P.LePrime - 1 + 1 ≤ P.LeCommit + 1 ∧
    P.LmCommit + 1 < P.Ln - 4 ∧ P.LeCommit + 1 < P.Ln - 4 ∧ P.Lm < P.Ln - 4 ∧
    P.LePrime < P.Le ∧ P.LvPrime + P.Lh + 1 ≤ P.LvPrimeCommit + 1 ∧
    P.Lv = P.Ln + 2 * P.Lstatzk + P.Lh + P.Lm + 4 := by
  have s := default_params_sound h
  exact ⟨s.hm_le, s.he_le, s.mResp_lt, s.eResp_lt, s.Lm_lt, s.LePrime_lt, s.hv_le, s.Lv_eq⟩

theorem mem_of_lookup_eq_some {α β : Type} [BEq α] [LawfulBEq α] {k : α} {v : β} :
    ∀ {l : List (α × β)}, l.lookup k = some v → (k, v) ∈ l
  | [], h => by simp at h
  | (k', v') :: l, h => by
    rw [List.lookup_cons] at h
    split at h
    · next hk =>
      have hk' : k = k' := by simpa using hk
      cases h; subst hk'; exact List.mem_cons_self
    · exact List.mem_cons_of_mem _ (mem_of_lookup_eq_some h)

theorem isDefaultParams_of_lookup {bits : Nat} {P : SysParams} (h : defaultSysParams bits = some P) :
    IsDefaultParams P := by
  unfold defaultSysParams at h
  cases hl : Gen.defaultBaseParameters.lookup bits with
  | none => simp [hl] at h
  | some b =>
    simp [hl] at h
    exact ⟨(bits, b), mem_of_lookup_eq_some hl, h.symm⟩

/-- the three default sets exist (non-vacuity of `IsDefaultParams`). -/
theorem default_sets_exist :
    (∃ P, defaultSysParams 1024 = some P) ∧ (∃ P, defaultSysParams 2048 = some P) ∧
    (∃ P, defaultSysParams 4096 = some P) := ⟨⟨_, rfl⟩, ⟨_, rfl⟩, ⟨_, rfl⟩⟩

/-- the derived parameters of the toy set still obey the *definitions* … -/
theorem toy_values : toyParams.Ln = 256 ∧ toyParams.Lm = 256 ∧ toyParams.Lh = 256 ∧
    toyParams.LmCommit = 592 ∧ toyParams.LeCommit = 456 ∧ toyParams.Le = 597 := by decide

/-- … but the toy set violates the inequalities that separate the response ranges from the
    group order. -/
theorem toy_not_sound :
    ¬ (toyParams.LmCommit + 1 < toyParams.Ln - 4) ∧ ¬ (toyParams.LeCommit + 1 < toyParams.Ln - 4) ∧
    ¬ (toyParams.Lm < toyParams.Ln - 4) := by decide

theorem toy_not_paramsSound : ¬ ParamsSound toyParams := fun h => toy_not_sound.1 h.mResp_lt

theorem toy_not_default : ¬ IsDefaultParams toyParams :=
  fun h => toy_not_paramsSound (default_params_sound h)

/-! ## 2. response ranges -/

theorem two_pow_le_two_pow_int {a b : Nat} (h : a ≤ b) : (2 : Int) ^ a ≤ 2 ^ b :=
  pow_le_pow_right₀ (by norm_num) h

theorem two_pow_lt_two_pow_int {a b : Nat} (h : a < b) : (2 : Int) ^ a < 2 ^ b :=
  pow_lt_pow_right₀ (by norm_num) h

/-- generic: `r < 2^R`, `c < 2^H`, `m ≤ 2^M` (all non-negative), `H + M ≤ R` ⇒
    `0 ≤ r + c·m < 2^(R+1)`. -/
theorem response_range {R H M : Nat} (hHM : H + M ≤ R) {r c m : Int}
    (hr0 : 0 ≤ r) (hr : r < 2 ^ R) (hc0 : 0 ≤ c) (hc : c < 2 ^ H) (hm0 : 0 ≤ m) (hm : m ≤ 2 ^ M) :
    0 ≤ r + c * m ∧ r + c * m < 2 ^ (R + 1) := by
  have h1 : c * m ≤ 2 ^ H * 2 ^ M := mul_le_mul hc.le hm hm0 (by positivity)
  have h2 : (2 : Int) ^ H * 2 ^ M ≤ 2 ^ R := by
    rw [← pow_add]; exact two_pow_le_two_pow_int hHM
  have h3 : (2 : Int) ^ (R + 1) = 2 ^ R + 2 ^ R := by ring
  have h4 : 0 ≤ c * m := mul_nonneg hc0 hm0
  constructor <;> omega

/-- the exponent used for an attribute is always non-negative and short. -/
theorem attrExp_range {lm : Nat} {a : Int} (ha : 0 ≤ a) :
    0 ≤ attrExp lm a ∧ attrExp lm a < 2 ^ (max lm 256) := by
  unfold attrExp
  split
  · refine ⟨Int.natCast_nonneg _, ?_⟩
    have h := ofBytesBE_lt (Sha256.hash (intBytes a))
    rw [Sha256.hash_length] at h
    have h256 : (256 : Nat) ^ 32 = 2 ^ 256 := by norm_num
    have h' : intHashSha256 (intBytes a) < 2 ^ 256 := by unfold intHashSha256; omega
    have : ((intHashSha256 (intBytes a) : Nat) : Int) < 2 ^ 256 := by exact_mod_cast h'
    exact lt_of_lt_of_le this (two_pow_le_two_pow_int (le_max_right _ _))
  · next h =>
    refine ⟨ha, ?_⟩
    have h1 : natBitLen a.natAbs ≤ lm := by rw [← bitLen_eq_natBitLen]; omega
    have h2 := (natBitLen_le_iff _ _).mp h1
    have h3 : a < 2 ^ lm := by
      have : ((a.natAbs : Nat) : Int) < ((2 ^ lm : Nat) : Int) := by exact_mod_cast h2
      rw [Int.natAbs_of_nonneg ha] at this
      simpa using this
    exact lt_of_lt_of_le h3 (two_pow_le_two_pow_int (le_max_left _ _))

theorem attrExp_lt_Lm {lm : Nat} (hlm : 256 ≤ lm) {a : Int} (ha : 0 ≤ a) :
    0 ≤ attrExp lm a ∧ attrExp lm a < 2 ^ lm := by
  have h := attrExp_range (lm := lm) ha
  rwa [max_eq_left hlm] at h

theorem intHashSha256_lt (bs : List UInt8) : intHashSha256 bs < 2 ^ 256 := by
  have h := ofBytesBE_lt (Sha256.hash bs)
  rw [Sha256.hash_length] at h
  have h256 : (256 : Nat) ^ 32 = 2 ^ 256 := by norm_num
  unfold intHashSha256; omega

/-! ## 5. selective disclosure: equational lemmas -/

theorem forIn_guard {ε : Type} (D : List Int) (p : Int → Prop) [DecidablePred p] (e : ε) :
    (forIn D (PUnit.unit : PUnit.{1}) (fun v _ =>
        if p v then (do throw e; pure (ForInStep.yield PUnit.unit))
        else pure (ForInStep.yield PUnit.unit)) : Except ε PUnit.{1}) =
      if ∃ v ∈ D, p v then .error e else .ok PUnit.unit := by
  induction D with
  | nil => simp; rfl
  | cons a D ih =>
    rw [List.forIn_cons]
    by_cases h : p a
    · simp [h]; rfl
    · simp only [h, if_false]
      have hb : ∀ (f : ForInStep PUnit.{1} → Except ε PUnit.{1}) x,
          ((pure x : Except ε _) >>= f) = f x := fun _ _ => rfl
      rw [hb]
      simp only []
      rw [ih]
      simp [h]

theorem getUndisclosed_eq (D : List Int) (n : Nat) : getUndisclosedAttributes D n =
   if ∃ v ∈ D, v < 0 ∨ v ≥ (n : Int) then .error (GoPanic.indexOutOfRange "check[v]") else
   .ok ((List.range n).filterMap fun (i : Nat) => if D.contains (Int.ofNat i) then none else some (Int.ofNat i)) := by
  unfold getUndisclosedAttributes
  have := forIn_guard D (fun v => v < 0 ∨ v ≥ (n : Int)) (GoPanic.indexOutOfRange "check[v]")
  simp only [ge_iff_le] at this ⊢
  rw [this]
  split <;> rfl

theorem idx_eq (what : String) (l : List Int) (i : Int) :
    idx what l i = if 0 ≤ i ∧ i.toNat < l.length then .ok (l.getD i.toNat 0)
      else .error (GoPanic.indexOutOfRange what) := by
  unfold idx
  by_cases h0 : i < 0
  · have : ¬ (0 ≤ i ∧ i.toNat < l.length) := by omega
    simp [h0, this]; rfl
  · by_cases h1 : i.toNat < l.length
    · have : 0 ≤ i ∧ i.toNat < l.length := ⟨by omega, h1⟩
      simp [h0, this, List.getD_eq_getElem?_getD]; rfl
    · have : ¬ (0 ≤ i ∧ i.toNat < l.length) := by omega
      have h2 : l[i.toNat]? = none := List.getElem?_eq_none (by omega)
      simp [h0, this, h2]; rfl

theorem mapM_idx_eq {β : Type} (what : String) (attrs : List Int) (f : Int → Int → β) (l : List Int) :
    (l.mapM (fun v => do let m ← idx what attrs v; pure (f v m)) : GoM (List β)) =
      if ∀ v ∈ l, 0 ≤ v ∧ v.toNat < attrs.length then .ok (l.map fun v => f v (attrs.getD v.toNat 0))
      else .error (GoPanic.indexOutOfRange what) := by
  induction l with
  | nil => simp; rfl
  | cons a l ih =>
    rw [List.mapM_cons, ih, idx_eq]
    by_cases ha : 0 ≤ a ∧ a.toNat < attrs.length
    · by_cases hl : ∀ v ∈ l, 0 ≤ v ∧ v.toNat < attrs.length
      · have : ∀ v ∈ a :: l, 0 ≤ v ∧ v.toNat < attrs.length := by
          intro v hv; rcases List.mem_cons.mp hv with rfl | hv
          · exact ha
          · exact hl v hv
        rw [if_pos ha, if_pos hl, if_pos this]; rfl
      · have : ¬ ∀ v ∈ a :: l, 0 ≤ v ∧ v.toNat < attrs.length :=
          fun h => hl fun v hv => h v (List.mem_cons_of_mem _ hv)
        rw [if_pos ha, if_neg hl, if_neg this]; rfl
    · have : ¬ ∀ v ∈ a :: l, 0 ≤ v ∧ v.toNat < attrs.length :=
          fun h => ha (h a List.mem_cons_self)
      rw [if_neg ha, if_neg this]; rfl

theorem disclosureCreateProof_eq (pk : PublicKey) (attrs D U : List Int)
    (sigR : CLSignature) (rnd : DisclosureRandomness) (c : Int) :
    disclosureCreateProof pk attrs D U sigR rnd c =
      if (∀ v ∈ U, 0 ≤ v ∧ v.toNat < attrs.length) ∧ (∀ v ∈ D, 0 ≤ v ∧ v.toNat < attrs.length) then
        .ok { c := some c, a := some sigR.a,
              eResponse := some (rnd.eCommit + c * (sigR.e - 2 ^ (pk.params.Le - 1))),
              vResponse := some (rnd.vCommit + c * sigR.v),
              aResponses := U.map fun v =>
                (v, some (rnd.attrRand v + c * attrExp pk.params.Lm (attrs.getD v.toNat 0))),
              aDisclosed := D.map fun v => (v, some (attrs.getD v.toNat 0)),
              nonrev := none, rangeProofs := none }
      else .error (GoPanic.indexOutOfRange "attributes[v]") := by
  unfold disclosureCreateProof
  simp only []
  rw [mapM_idx_eq "attributes[v]" attrs (fun v m => (v, some (rnd.attrRand v + c * attrExp pk.params.Lm m))),
      mapM_idx_eq "attributes[v]" attrs (fun v m => (v, some m))]
  by_cases hU : ∀ v ∈ U, 0 ≤ v ∧ v.toNat < attrs.length
  · by_cases hD : ∀ v ∈ D, 0 ≤ v ∧ v.toNat < attrs.length
    · have hUD : (∀ v ∈ U, 0 ≤ v ∧ v.toNat < attrs.length) ∧ (∀ v ∈ D, 0 ≤ v ∧ v.toNat < attrs.length) := ⟨hU, hD⟩
      rw [if_pos hU, if_pos hD, if_pos hUD]; rfl
    · have hUD : ¬ ((∀ v ∈ U, 0 ≤ v ∧ v.toNat < attrs.length) ∧ (∀ v ∈ D, 0 ≤ v ∧ v.toNat < attrs.length)) := fun h => hD h.2
      rw [if_pos hU, if_neg hD, if_neg hUD]; rfl
  · have hUD : ¬ ((∀ v ∈ U, 0 ≤ v ∧ v.toNat < attrs.length) ∧ (∀ v ∈ D, 0 ≤ v ∧ v.toNat < attrs.length)) := fun h => hU h.1
    rw [if_neg hU, if_neg hUD]; rfl


/-! ## 5b. complement list, timestamp contributions -/

/-- the complement list as a function of `D`, `n`. -/
def complementList (D : List Int) (n : Nat) : List Int :=
  (List.range n).filterMap fun (i : Nat) => if D.contains (Int.ofNat i) then none else some (Int.ofNat i)

theorem mem_complementList (D : List Int) (n : Nat) (i : Int) :
    i ∈ complementList D n ↔ (0 ≤ i ∧ i < n ∧ i ∉ D) := by
  unfold complementList
  simp only [List.mem_filterMap, List.mem_range, List.contains_iff_mem, Int.ofNat_eq_natCast]
  constructor
  · rintro ⟨k, hk, h⟩
    split at h
    · cases h
    · next hn => cases h; exact ⟨by omega, by omega, hn⟩
  · rintro ⟨h0, hn, hD⟩
    refine ⟨i.toNat, by omega, ?_⟩
    have : ((i.toNat : Nat) : Int) = i := Int.toNat_of_nonneg h0
    rw [this, if_neg hD]

theorem complementList_sorted (D : List Int) (n : Nat) :
    (complementList D n).Pairwise (· < ·) := by
  unfold complementList
  refine List.Pairwise.filterMap _ ?_ List.pairwise_lt_range
  intro a a' haa' b hb b' hb'
  split at hb <;> simp at hb
  split at hb' <;> simp at hb'
  subst hb hb'
  exact_mod_cast haa'

theorem timestampContributions_length (attrs D : List Int) :
    (timestampContributions attrs D).length = attrs.length := by
  simp [timestampContributions]

theorem timestampContributions_getElem? (attrs D : List Int) (i : Nat) (hi : i < attrs.length) :
    (timestampContributions attrs D)[i]? =
      some (if (i : Int) ∈ D then attrs.getD i 0 else 0) := by
  simp [timestampContributions, hi]

theorem timestampContributions_congr {attrs attrs' D : List Int} (hlen : attrs.length = attrs'.length)
    (hag : ∀ i : Nat, (i : Int) ∈ D → attrs.getD i 0 = attrs'.getD i 0) :
    timestampContributions attrs D = timestampContributions attrs' D := by
  unfold timestampContributions
  rw [hlen]
  apply List.map_congr_left
  intro i _
  by_cases h : (i : Int) ∈ D
  · have := hag i h
    simp only [List.getD_eq_getElem?_getD] at this
    simp [h, this]
  · simp [h]

/-! ## 3/4. ranges versus the group order -/

theorem shift_out_of_range {B ord s k : Int} (hB : B ≤ ord) (hs0 : 0 ≤ s) (hs : s < B) (hk : k ≠ 0) :
    ¬ (0 ≤ s + k * ord ∧ s + k * ord < B) := by
  rintro ⟨h1, h2⟩
  have hord : 0 ≤ ord := by omega
  rcases lt_or_gt_of_ne hk with hk | hk
  · have : k * ord ≤ (-1) * ord := mul_le_mul_of_nonneg_right (by omega) hord
    omega
  · have : 1 * ord ≤ k * ord := mul_le_mul_of_nonneg_right (by omega) hord
    omega

theorem safe_prime_order_ge {Ln : Nat} (hev : 2 * (Ln / 2) = Ln) (h8 : 8 ≤ Ln) {p q p' q' : Int}
    (hp : p = 2 * p' + 1) (hq : q = 2 * q' + 1)
    (hpb : 2 ^ (Ln / 2 - 1) ≤ p) (hqb : 2 ^ (Ln / 2 - 1) ≤ q) : 2 ^ (Ln - 4) ≤ p' * q' := by
  obtain ⟨k, hk⟩ : ∃ k, Ln / 2 = k + 2 := ⟨Ln / 2 - 2, by omega⟩
  have e1 : Ln / 2 - 1 = k + 1 := by omega
  have e2 : Ln - 4 = k + k := by omega
  rw [e1, pow_succ] at hpb hqb
  rw [e2, pow_add]
  have hpos : (0 : Int) < 2 ^ k := by positivity
  have h1 : (2 : Int) ^ k ≤ p' := by omega
  have h2 : (2 : Int) ^ k ≤ q' := by omega
  exact mul_le_mul h1 h2 hpos.le (by omega)

theorem bitLen_gt_of_two_pow_le {a : Int} {k : Nat} (h : 2 ^ k ≤ a) : k < bitLen a := by
  by_contra hc
  have h1 : natBitLen a.natAbs ≤ k := by rw [← bitLen_eq_natBitLen]; omega
  have h2 := (natBitLen_le_iff _ _).mp h1
  have hpos : (0 : Int) < 2 ^ k := by positivity
  have : ((a.natAbs : Nat) : Int) < ((2 ^ k : Nat) : Int) := by exact_mod_cast h2
  rw [Int.natAbs_of_nonneg (by omega)] at this
  push_cast at this
  omega

theorem lt_two_pow_of_bitLen_le {a : Int} {k : Nat} (h0 : 0 ≤ a) (h : bitLen a ≤ k) : a < 2 ^ k := by
  have h1 : natBitLen a.natAbs ≤ k := by rw [← bitLen_eq_natBitLen]; omega
  have h2 := (natBitLen_le_iff _ _).mp h1
  have : ((a.natAbs : Nat) : Int) < ((2 ^ k : Nat) : Int) := by exact_mod_cast h2
  rw [Int.natAbs_of_nonneg h0] at this
  simpa using this

/-- two non-negative values below the modulus that are congruent are equal. -/
theorem eq_of_emod_eq_of_lt {a a' ord : Int} (h0 : 0 ≤ a) (h0' : 0 ≤ a') (h : a < ord) (h' : a' < ord)
    (hc : a % ord = a' % ord) : a = a' := by
  rwa [Int.emod_eq_of_lt h0 h, Int.emod_eq_of_lt h0' h'] at hc

/-! ## 6. counting bound behind statistical hiding -/

section Counting
open Finset

theorem image_add_range (N x : Nat) : (range N).image (· + x) = Ico x (N + x) := by
  ext y
  simp only [mem_image, mem_range, mem_Ico]
  constructor
  · rintro ⟨r, hr, rfl⟩; omega
  · rintro ⟨h1, h2⟩; exact ⟨y - x, by omega, by omega⟩

theorem image_add_range_card (N x : Nat) : ((range N).image (· + x)).card = N := by
  rw [image_add_range]; simp

/-- shifted windows of length `N` with offsets `x, x' ≤ B` differ in at most `B` points. -/
theorem shifted_range_sdiff_card_le (N B x x' : Nat) (hx : x ≤ B) (hx' : x' ≤ B) :
    ((range N).image (· + x) \ (range N).image (· + x')).card ≤ B := by
  rw [image_add_range, image_add_range]
  have hsub : Ico x (N + x) \ Ico x' (N + x') ⊆ Ico x x' ∪ Ico (N + x') (N + x) := by
    intro y
    simp only [mem_sdiff, mem_Ico, mem_union]
    omega
  calc (Ico x (N + x) \ Ico x' (N + x')).card
      ≤ (Ico x x' ∪ Ico (N + x') (N + x)).card := card_le_card hsub
    _ ≤ (Ico x x').card + (Ico (N + x') (N + x)).card := card_union_le _ _
    _ = (x' - x) + ((N + x) - (N + x')) := by simp
    _ ≤ B := by omega


/-- statistical (total-variation) distance between the uniform distributions on two finite sets
    `A`, `A'` of `N` naturals each: `½ · Σ_y |Pr[y ∈ A] − Pr[y ∈ A']|`. -/
def uniformStatDist (A A' : Finset Nat) (N : Nat) : ℚ :=
  (1 / 2) * ∑ y ∈ A ∪ A', |(if y ∈ A then (1 : ℚ) / N else 0) - (if y ∈ A' then (1 : ℚ) / N else 0)|

theorem uniformStatDist_eq (A A' : Finset Nat) (N : Nat) :
    uniformStatDist A A' N = (((A \ A').card + (A' \ A).card : Nat) : ℚ) / (2 * N) := by
  unfold uniformStatDist
  have hterm : ∀ y ∈ A ∪ A',
      |(if y ∈ A then (1 : ℚ) / N else 0) - (if y ∈ A' then (1 : ℚ) / N else 0)| =
      (1 / N : ℚ) * (if (y ∈ A \ A' ∨ y ∈ A' \ A) then 1 else 0) := by
    intro y _
    have hN : (0 : ℚ) ≤ 1 / N := by positivity
    by_cases h1 : y ∈ A <;> by_cases h2 : y ∈ A' <;> simp [h1, h2, abs_of_nonneg]
  rw [sum_congr rfl hterm, ← mul_sum, sum_boole]
  have hf : (A ∪ A').filter (fun y => y ∈ A \ A' ∨ y ∈ A' \ A) = (A \ A') ∪ (A' \ A) := by
    ext y; simp only [mem_filter, mem_union, mem_sdiff]; tauto
  have hd : Disjoint (A \ A') (A' \ A) := by
    rw [disjoint_left]; intro y h1 h2
    simp only [mem_sdiff] at h1 h2; exact h2.2 h1.1
  rw [hf, card_union_of_disjoint hd]
  by_cases hN : N = 0
  · simp [hN]
  · field_simp

theorem response_statDist_le (N B L x x' : Nat) (hx : x ≤ B) (hx' : x' ≤ B)
    (hN : B * 2 ^ L ≤ N) (hN0 : 0 < N) :
    uniformStatDist ((range N).image (· + x)) ((range N).image (· + x')) N ≤ 1 / 2 ^ L := by
  rw [uniformStatDist_eq]
  have c1 := shifted_range_sdiff_card_le N B x x' hx hx'
  have c2 := shifted_range_sdiff_card_le N B x' x hx' hx
  set k1 := ((range N).image (· + x) \ (range N).image (· + x')).card
  set k2 := ((range N).image (· + x') \ (range N).image (· + x)).card
  have hnat : (k1 + k2) * 2 ^ L ≤ 1 * (2 * N) := by
    calc (k1 + k2) * 2 ^ L ≤ (B + B) * 2 ^ L := Nat.mul_le_mul_right _ (by omega)
      _ = 2 * (B * 2 ^ L) := by ring
      _ ≤ 1 * (2 * N) := by omega
  have hq : (((k1 + k2 : Nat) : ℚ)) * 2 ^ L ≤ 1 * (2 * (N : ℚ)) := by exact_mod_cast hnat
  have hNq : (0 : ℚ) < 2 * N := by positivity
  have hLq : (0 : ℚ) < 2 ^ L := by positivity
  rw [div_le_div_iff₀ hNq hLq]
  exact hq

theorem params_hiding_ratio {P : SysParams} (hP : ParamsSound P) :
    2 ^ (P.Lh + P.Lm) * 2 ^ P.Lstatzk = 2 ^ P.LmCommit := by
  rw [← pow_add, hP.LmCommit_eq]; congr 1; omega

end Counting


/-! ## 2b/5c. model-level consequences -/

theorem mResponse_in_range {P : SysParams} (hP : ParamsSound P) {r c m : Int}
    (hr0 : 0 ≤ r) (hr : r < 2 ^ P.LmCommit) (hc0 : 0 ≤ c) (hc : c < 2 ^ P.Lh)
    (hm0 : 0 ≤ m) (hm : m < 2 ^ P.Lm) :
    0 ≤ r + c * m ∧ r + c * m < 2 ^ (P.LmCommit + 1) :=
  response_range hP.hm_le hr0 hr hc0 hc hm0 hm.le

theorem eResponse_in_range {P : SysParams} (hP : ParamsSound P) {eCommit c e : Int}
    (hr0 : 0 ≤ eCommit) (hr : eCommit < 2 ^ P.LeCommit) (hc0 : 0 ≤ c) (hc : c < 2 ^ P.Lh)
    (he0 : 2 ^ (P.Le - 1) ≤ e) (he : e ≤ 2 ^ (P.Le - 1) + 2 ^ (P.LePrime - 1)) :
    0 ≤ eCommit + c * (e - 2 ^ (P.Le - 1)) ∧ eCommit + c * (e - 2 ^ (P.Le - 1)) < 2 ^ (P.LeCommit + 1) := by
  have h1 := hP.he_le
  have h2 := hP.LePrime_pos
  exact response_range (H := P.Lh) (M := P.LePrime - 1) (by omega) hr0 hr hc0 hc (by omega) (by omega)

theorem eInInterval_iff (P : SysParams) (e : Int) :
    eInInterval P e = true ↔ 2 ^ (P.Le - 1) ≤ e ∧ e ≤ 2 ^ (P.Le - 1) + 2 ^ (P.LePrime - 1) := by
  simp [eInInterval]

theorem attrRand_range {P : SysParams} {rnd : DisclosureRandomness} (h : rnd.InRange P) (v : Int) :
    0 ≤ rnd.attrRand v ∧ rnd.attrRand v < 2 ^ P.LmCommit := by
  unfold DisclosureRandomness.attrRand
  cases hl : rnd.attr.lookup v with
  | none => simp
  | some x =>
    have := h.2.2.2.2.2.2 (v, x) (mem_of_lookup_eq_some hl)
    simpa using this

theorem getD_nonneg {l : List Int} (h : ∀ a ∈ l, 0 ≤ a) (i : Nat) : 0 ≤ l.getD i 0 := by
  rw [List.getD_eq_getElem?_getD]
  cases hi : l[i]? with
  | none => simp
  | some a => simpa using h a (List.mem_of_getElem? hi)

theorem foldlM_sizes_ok (maxA : Int) (l : IntMap)
    (h : ∀ kv ∈ l, ∃ r, kv.2 = some r ∧ 0 ≤ r ∧ r ≤ maxA) :
    (l.foldlM (fun (ok : Bool) (kv : Int × Option Int) => do
        let r ← deref "AResponse" kv.2
        pure (ok && !(decide (r < 0) || decide (r > maxA)))) true : GoM Bool) = .ok true := by
  induction l with
  | nil => rfl
  | cons kv l ih =>
    obtain ⟨r, hr, h0, h1⟩ := h kv List.mem_cons_self
    rw [List.foldlM_cons, hr]
    have : (decide (r < 0) || decide (r > maxA)) = false := by simp; omega
    show List.foldlM _ (true && !(decide (r < 0) || decide (r > maxA))) l = _
    rw [this]
    exact ih fun kv' hkv' => h kv' (List.mem_cons_of_mem _ hkv')

/-- honest proofs pass `correctResponseSizes`. -/
theorem createProof_sizes_ok {pk : PublicKey} (hP : ParamsSound pk.params) {attrs D U : List Int}
    {sigR : CLSignature} {rnd : DisclosureRandomness} {c : Int} {p : ProofD}
    (hrnd : rnd.InRange pk.params) (hc0 : 0 ≤ c) (hc : c < 2 ^ pk.params.Lh)
    (hattrs : ∀ a ∈ attrs, 0 ≤ a) (he : eInInterval pk.params sigR.e = true)
    (h : disclosureCreateProof pk attrs D U sigR rnd c = .ok p) :
    p.correctResponseSizes pk = .ok true := by
  rw [disclosureCreateProof_eq] at h
  split at h
  · cases h
    unfold ProofD.correctResponseSizes
    simp only []
    rw [foldlM_sizes_ok]
    · have he' := (eInInterval_iff _ _).mp he
      have := eResponse_in_range hP hrnd.2.2.1 hrnd.2.2.2.1 hc0 hc he'.1 he'.2
      have h1 : decide (0 ≤ rnd.eCommit + c * (sigR.e - 2 ^ (pk.params.Le - 1))) = true := by simp [this.1]
      have h2 : decide (rnd.eCommit + c * (sigR.e - 2 ^ (pk.params.Le - 1)) ≤ 2 ^ (pk.params.LeCommit + 1) - 1) = true := by
        simp; omega
      show (Except.ok (decide _ && decide _) : GoM Bool) = _
      rw [h1, h2]; rfl
    · intro kv hkv
      simp only [List.mem_map] at hkv
      obtain ⟨v, _, rfl⟩ := hkv
      have hr := attrRand_range hrnd v
      have hm := attrExp_lt_Lm hP.Lm_ge (getD_nonneg hattrs v.toNat)
      have := mResponse_in_range hP hr.1 hr.2 hc0 hc hm.1 hm.2
      exact ⟨_, rfl, this.1, by omega⟩
  · cases h

theorem getUndisclosed_eq' (D : List Int) (n : Nat) : getUndisclosedAttributes D n =
    if ∃ v ∈ D, v < 0 ∨ v ≥ (n : Int) then .error (GoPanic.indexOutOfRange "check[v]")
    else .ok (complementList D n) := getUndisclosed_eq D n

theorem getUndisclosed_ok {D : List Int} {n : Nat} {U : List Int}
    (h : getUndisclosedAttributes D n = .ok U) :
    U = complementList D n ∧ ∀ v ∈ D, 0 ≤ v ∧ v < (n : Int) := by
  rw [getUndisclosed_eq'] at h
  split at h
  · cases h
  · next hn =>
    cases h
    refine ⟨rfl, fun v hv => ?_⟩
    by_contra hc
    exact hn ⟨v, hv, by omega⟩

theorem getUndisclosed_error_iff (D : List Int) (n : Nat) :
    (∃ e, getUndisclosedAttributes D n = .error e) ↔ ∃ v ∈ D, v < 0 ∨ v ≥ (n : Int) := by
  rw [getUndisclosed_eq']
  split
  · next h => exact ⟨fun _ => h, fun _ => ⟨_, rfl⟩⟩
  · next h =>
    constructor
    · rintro ⟨e, he⟩; cases he
    · intro h'; exact absurd h' h

theorem createDisclosureProof_ok {pk : PublicKey} {sig : CLSignature} {attrs D : List Int}
    {rnd : DisclosureRandomness} {context nonce : Int} {issig : Bool} {p : ProofD}
    (h : createDisclosureProof pk sig attrs D rnd context nonce issig = .ok p) :
    ∃ commit, (∀ v ∈ D, 0 ≤ v ∧ v < (attrs.length : Int)) ∧
      disclosureCommit pk (clRandomize pk sig rnd.r) rnd (complementList D attrs.length) = .ok commit ∧
      disclosureCreateProof pk attrs D (complementList D attrs.length) (clRandomize pk sig rnd.r) rnd
        (createChallenge context nonce commit issig) = .ok p := by
  unfold createDisclosureProof at h
  simp only [] at h
  cases hU : getUndisclosedAttributes D attrs.length with
  | error e => rw [hU] at h; cases h
  | ok U =>
    obtain ⟨rfl, hD⟩ := getUndisclosed_ok hU
    rw [hU] at h
    have h' : (disclosureCommit pk (clRandomize pk sig rnd.r) rnd (complementList D attrs.length) >>=
        fun commit => disclosureCreateProof pk attrs D (complementList D attrs.length)
          (clRandomize pk sig rnd.r) rnd (createChallenge context nonce commit issig)) = .ok p := h
    cases hc : disclosureCommit pk (clRandomize pk sig rnd.r) rnd (complementList D attrs.length) with
    | error e => rw [hc] at h'; cases h'
    | ok commit => rw [hc] at h'; exact ⟨commit, hD, rfl, h'⟩

end Gabi
