/-
  GabiProofs.QrCyclic — the group of quadratic residues modulo n = p·q (p = 2p'+1, q = 2q'+1 safe
  primes, p ≠ q) is cyclic of order p'·q', and the order criterion that the executable predicate
  `KeyGen.inSubgroup` uses for "x ∈ ⟨S⟩" is sound (property C16).
-/
import GabiModel.KeyGen
import GabiProofs.NumLemmas
import GabiProofs.KeyGen
import Mathlib.Data.ZMod.Basic
import Mathlib.Data.ZMod.Units
import Mathlib.FieldTheory.Finite.Basic
import Mathlib.GroupTheory.OrderOfElement
import Mathlib.GroupTheory.SpecificGroups.Cyclic
import Mathlib.RingTheory.IntegralDomain
import Mathlib.Algebra.Group.Subgroup.Basic
import Mathlib.Algebra.Group.Subgroup.Map
import Mathlib.Algebra.Group.Subgroup.ZPowers.Basic
import Mathlib.Tactic.NormNum.LegendreSymbol
import Mathlib.Tactic.NormNum.Prime
namespace Gabi.QrCyclic
open Gabi

/-! ## squares of a commutative group -/

/-- the subgroup of squares of a commutative group. -/
def squares (G : Type*) [CommGroup G] : Subgroup G := (powMonoidHom 2 : G →* G).range

theorem mem_squares {G : Type*} [CommGroup G] {x : G} : x ∈ squares G ↔ ∃ y : G, y ^ 2 = x := by
  simp [squares, MonoidHom.mem_range]

theorem squares_prod (A B : Type*) [CommGroup A] [CommGroup B] :
    squares (A × B) = (squares A).prod (squares B) := by
  ext ⟨a, b⟩
  simp only [mem_squares, Subgroup.mem_prod]
  constructor
  · rintro ⟨⟨y1, y2⟩, h⟩
    simp only [Prod.pow_mk, Prod.mk.injEq] at h
    exact ⟨⟨y1, h.1⟩, ⟨y2, h.2⟩⟩
  · rintro ⟨⟨y1, h1⟩, ⟨y2, h2⟩⟩
    exact ⟨(y1, y2), by simp [h1, h2]⟩

theorem squares_map {G H : Type*} [CommGroup G] [CommGroup H] (e : G ≃* H) :
    (squares G).map (e : G →* H) = squares H := by
  ext x
  simp only [Subgroup.mem_map, mem_squares]
  constructor
  · rintro ⟨_, ⟨y, rfl⟩, rfl⟩
    exact ⟨e y, by simp⟩
  · rintro ⟨y, rfl⟩
    exact ⟨e.symm y ^ 2, ⟨e.symm y, rfl⟩, by simp⟩

/-- the squares of isomorphic groups are isomorphic. -/
noncomputable def squaresCongr {G H : Type*} [CommGroup G] [CommGroup H] (e : G ≃* H) :
    squares G ≃* squares H :=
  (e.subgroupMap (squares G)).trans (MulEquiv.subgroupCongr (squares_map e))

/-! ## the order criterion in a finite cyclic group -/

/-- In a finite cyclic group the elements killed by the order of `s` are exactly the powers of `s`. -/
theorem mem_zpowers_of_pow_orderOf_eq_one {A : Type*} [Group A] [Finite A] [IsCyclic A] (s x : A)
    (hx : x ^ orderOf s = 1) : x ∈ Subgroup.zpowers s := by
  classical
  have := Fintype.ofFinite A
  have hpos : 0 < orderOf s := orderOf_pos s
  have hle := IsCyclic.card_pow_eq_one_le (α := A) hpos
  have hsub : Finset.univ.filter (fun a : A => a ∈ Subgroup.zpowers s) ⊆
      Finset.univ.filter (fun a : A => a ^ orderOf s = 1) := by
    intro a ha
    simp only [Finset.mem_filter, Finset.mem_univ, true_and] at ha ⊢
    obtain ⟨k, rfl⟩ := ha
    rw [← zpow_natCast, ← zpow_mul, mul_comm, zpow_mul, zpow_natCast, pow_orderOf_eq_one, one_zpow]
  have hZ : (Finset.univ.filter (fun a : A => a ∈ Subgroup.zpowers s)).card = orderOf s := by
    rw [← Nat.card_zpowers, Nat.card_eq_fintype_card, Fintype.card_subtype]
  have heq := Finset.eq_of_subset_of_card_le hsub (by rw [hZ]; exact hle)
  have hxF : x ∈ Finset.univ.filter (fun a : A => a ^ orderOf s = 1) := by simp [hx]
  rw [← heq] at hxF
  simpa using hxF

/-- a divisor of `a·b` (distinct primes) that divides neither `a` nor `b` is `a·b`. -/
theorem eq_mul_of_dvd_mul_primes {a b d : Nat} (ha : a.Prime) (hb : b.Prime) (hab : a ≠ b)
    (hd : d ∣ a * b) (h1 : ¬ d ∣ a) (h2 : ¬ d ∣ b) : d = a * b := by
  have ha' : a ∣ d := by
    rcases Nat.coprime_or_dvd_of_prime ha d with hc | hd'
    · exact absurd (Nat.Coprime.dvd_of_dvd_mul_left hc.symm hd) h2
    · exact hd'
  have hb' : b ∣ d := by
    rcases Nat.coprime_or_dvd_of_prime hb d with hc | hd'
    · exact absurd (Nat.Coprime.dvd_of_dvd_mul_right hc.symm hd) h1
    · exact hd'
  have hcop : Nat.Coprime a b := (Nat.coprime_primes ha hb).mpr hab
  exact Nat.dvd_antisymm hd (hcop.mul_dvd_of_dvd_of_dvd ha' hb')

/-- the order that `KeyGen.qrOrder` computes, for an element of a group. -/
noncomputable def ordOf {G : Type*} [Group G] (a b : Nat) (s : G) : Nat := by
  classical
  exact if s = 1 then 1 else if s ^ a = 1 then a else if s ^ b = 1 then b else a * b

theorem ordOf_coe {G : Type*} [Group G] (H : Subgroup G) (a b : Nat) (s : H) :
    ordOf a b (s : G) = ordOf a b s := by
  classical
  unfold ordOf
  simp only [← Subgroup.coe_pow, OneMemClass.coe_eq_one]
  first | rfl | congr

/-- in a group of order `a·b` (distinct primes) `ordOf` is the order. -/
theorem orderOf_eq_ordOf {A : Type*} [Group A] [Finite A] {a b : Nat} (ha : a.Prime) (hb : b.Prime)
    (hab : a ≠ b) (hcard : Nat.card A = a * b) (s : A) : orderOf s = ordOf a b s := by
  classical
  unfold ordOf
  have := Fact.mk ha
  have := Fact.mk hb
  split_ifs with h1 h2 h3
  · rw [h1, orderOf_one]
  · exact orderOf_eq_prime h2 h1
  · exact orderOf_eq_prime h3 h1
  · refine eq_mul_of_dvd_mul_primes ha hb hab (hcard ▸ orderOf_dvd_natCard s) ?_ ?_
    · exact fun hd => h2 (orderOf_dvd_iff_pow_eq_one.mp hd)
    · exact fun hd => h3 (orderOf_dvd_iff_pow_eq_one.mp hd)

/-- Order criterion, abstract form: `A` cyclic of order `a·b`, `x` killed by the order of `s`
    (computed as `ordOf`) is a power of `s`. -/
theorem exists_pow_eq_of_pow_ordOf {A : Type*} [Group A] [Finite A] [IsCyclic A] {a b : Nat}
    (ha : a.Prime) (hb : b.Prime) (hab : a ≠ b) (hcard : Nat.card A = a * b) (s x : A)
    (hx : x ^ ordOf a b s = 1) : ∃ k : Nat, x = s ^ k := by
  rw [← orderOf_eq_ordOf ha hb hab hcard s] at hx
  have hm := mem_zpowers_of_pow_orderOf_eq_one s x hx
  rw [← mem_powers_iff_mem_zpowers] at hm
  obtain ⟨k, hk⟩ := hm
  exact ⟨k, hk.symm⟩

/-! ## QR_n for n = p·q -/

section
variable {p q p' q' : Nat}

/-- the Chinese remainder isomorphism on unit groups. -/
noncomputable def crtUnits (hcop : Nat.Coprime p q) :
    (ZMod (p * q))ˣ ≃* (ZMod p)ˣ × (ZMod q)ˣ :=
  (Units.mapEquiv (ZMod.chineseRemainder hcop).toMulEquiv).trans MulEquiv.prodUnits

/-- modulo a prime `p = 2p'+1` the squares form a group of order `p'`. -/
theorem card_squares_prime (hp : p.Prime) (ep : p = 2 * p' + 1) :
    Nat.card (squares (ZMod p)ˣ) = p' := by
  have := Fact.mk hp
  unfold squares
  rw [IsCyclic.card_powMonoidHom_range, Nat.card_eq_fintype_card, ZMod.card_units p, ep]
  have h1 : 2 * p' + 1 - 1 = 2 * p' := by omega
  rw [h1]
  have h2 : Nat.gcd (2 * p') 2 = 2 := by simp
  rw [h2]; omega

theorem squares_prime_isCyclic (hp : p.Prime) : IsCyclic (squares (ZMod p)ˣ) := by
  have := Fact.mk hp
  infer_instance

/-- **QR_n is cyclic of order p'q'.** -/
theorem qr_cyclic (hp : p.Prime) (hq : q.Prime) (hp' : p'.Prime) (hq' : q'.Prime)
    (ep : p = 2 * p' + 1) (eq : q = 2 * q' + 1) (hne : p ≠ q) :
    IsCyclic (squares (ZMod (p * q))ˣ) ∧ Nat.card (squares (ZMod (p * q))ˣ) = p' * q' := by
  have hcop : Nat.Coprime p q := (Nat.coprime_primes hp hq).mpr hne
  have hne' : p' ≠ q' := by rintro rfl; exact hne (ep.trans eq.symm)
  have c1 := card_squares_prime hp ep
  have c2 := card_squares_prime hq eq
  have i1 := squares_prime_isCyclic hp
  have i2 := squares_prime_isCyclic hq
  -- the squares of the product
  let e1 : squares (ZMod (p * q))ˣ ≃* squares ((ZMod p)ˣ × (ZMod q)ˣ) := squaresCongr (crtUnits hcop)
  let e2 : squares ((ZMod p)ˣ × (ZMod q)ˣ) ≃* squares (ZMod p)ˣ × squares (ZMod q)ˣ :=
    (MulEquiv.subgroupCongr (squares_prod _ _)).trans (Subgroup.prodEquiv _ _)
  let e := e1.trans e2
  have hcyc : IsCyclic (squares (ZMod p)ˣ × squares (ZMod q)ˣ) := by
    rw [Group.isCyclic_prod_iff]
    refine ⟨i1, i2, ?_⟩
    rw [c1, c2]
    exact (Nat.coprime_primes hp' hq').mpr hne'
  refine ⟨e.isCyclic.mpr hcyc, ?_⟩
  rw [Nat.card_congr e.toEquiv, Nat.card_prod, c1, c2]

/-- **Order criterion.** `S` a square unit modulo `n`; `x` a square unit with `x^d = 1` where `d`
    is the order of `S` as `qrOrder` computes it (`1` if `S = 1`, `p'` if `S^p' = 1`, `q'` if
    `S^q' = 1`, else `p'q'`). Then `x` is a power of `S`. -/
theorem order_criterion_units (hp : p.Prime) (hq : q.Prime) (hp' : p'.Prime) (hq' : q'.Prime)
    (ep : p = 2 * p' + 1) (eq : q = 2 * q' + 1) (hne : p ≠ q)
    (S x : (ZMod (p * q))ˣ) (hS : S ∈ squares (ZMod (p * q))ˣ) (hx : x ∈ squares (ZMod (p * q))ˣ)
    (hxd : x ^ ordOf p' q' S = 1) : ∃ k : Nat, x = S ^ k := by
  classical
  obtain ⟨hc, hcard⟩ := qr_cyclic hp hq hp' hq' ep eq hne
  have hne' : p' ≠ q' := by rintro rfl; exact hne (ep.trans eq.symm)
  have hfin : Finite (squares (ZMod (p * q))ˣ) := by
    have : NeZero (p * q) := ⟨Nat.mul_ne_zero hp.ne_zero hq.ne_zero⟩
    infer_instance
  have hord : ordOf p' q' (⟨S, hS⟩ : squares (ZMod (p * q))ˣ) = ordOf p' q' S :=
    (ordOf_coe _ p' q' ⟨S, hS⟩).symm
  obtain ⟨k, hk⟩ := exists_pow_eq_of_pow_ordOf hp' hq' hne' hcard
    (⟨S, hS⟩ : squares (ZMod (p * q))ˣ) ⟨x, hx⟩ (by
      rw [hord]; apply Subtype.ext; simpa using hxd)
  exact ⟨k, by simpa using congrArg Subtype.val hk⟩

/-- the generator case: a square `S` with `S^p' ≠ 1` and `S^q' ≠ 1` generates all of `QR_n`. -/
theorem generator_criterion_units (hp : p.Prime) (hq : q.Prime) (hp' : p'.Prime) (hq' : q'.Prime)
    (ep : p = 2 * p' + 1) (eq : q = 2 * q' + 1) (hne : p ≠ q)
    (S : (ZMod (p * q))ˣ) (hS : S ∈ squares (ZMod (p * q))ˣ) (h1 : S ^ p' ≠ 1) (h2 : S ^ q' ≠ 1) :
    orderOf S = p' * q' ∧ ∀ x ∈ squares (ZMod (p * q))ˣ, ∃ k : Nat, x = S ^ k := by
  classical
  obtain ⟨hc, hcard⟩ := qr_cyclic hp hq hp' hq' ep eq hne
  have hne' : p' ≠ q' := by rintro rfl; exact hne (ep.trans eq.symm)
  have hfin : Finite (squares (ZMod (p * q))ˣ) := by
    have : NeZero (p * q) := ⟨Nat.mul_ne_zero hp.ne_zero hq.ne_zero⟩
    infer_instance
  have hS1 : S ≠ 1 := by rintro rfl; exact h1 (one_pow _)
  have ho : ordOf p' q' S = p' * q' := by
    unfold ordOf; simp [hS1, h1, h2]
  have hordS : orderOf S = p' * q' := by
    rw [← Subgroup.orderOf_mk S hS, orderOf_eq_ordOf hp' hq' hne' hcard,
      ← ordOf_coe _ p' q' ⟨S, hS⟩]
    exact ho
  refine ⟨hordS, fun x hx => order_criterion_units hp hq hp' hq' ep eq hne S x hS hx ?_⟩
  rw [ho, ← hcard]
  have h := pow_card_eq_one' (G := squares (ZMod (p * q))ˣ) (x := ⟨x, hx⟩)
  have h' := congrArg Subtype.val h
  simpa only [Subgroup.coe_pow, Subgroup.coe_one] using h'

/-- a generator's cyclic subgroup is all of `QR_n`. -/
theorem zpowers_eq_squares_of_generator (hp : p.Prime) (hq : q.Prime) (hp' : p'.Prime)
    (hq' : q'.Prime) (ep : p = 2 * p' + 1) (eq : q = 2 * q' + 1) (hne : p ≠ q)
    (S : (ZMod (p * q))ˣ) (hS : S ∈ squares (ZMod (p * q))ˣ) (h1 : S ^ p' ≠ 1) (h2 : S ^ q' ≠ 1) :
    Subgroup.zpowers S = squares (ZMod (p * q))ˣ := by
  refine le_antisymm ((Subgroup.zpowers_le).mpr hS) (fun x hx => ?_)
  obtain ⟨k, rfl⟩ := (generator_criterion_units hp hq hp' hq' ep eq hne S hS h1 h2).2 x hx
  exact Subgroup.npow_mem_zpowers S k

end

/-! ## bridge to the executable predicate `KeyGen.inSubgroup` -/

open KeyGen

/-- a number coprime to `n` that is a square in `ZMod n` is a square in the unit group. -/
theorem unitOfCoprime_mem_squares {n x : Nat} (hc : Nat.Coprime x n)
    (hsq : IsSquare ((x : Int) : ZMod n)) : ZMod.unitOfCoprime x hc ∈ squares (ZMod n)ˣ := by
  obtain ⟨y, hy⟩ := hsq
  have hy' : (x : ZMod n) = y * y := by simpa using hy
  have hu : IsUnit (y * y) := by
    rw [← hy', ← ZMod.coe_unitOfCoprime x hc]; exact Units.isUnit _
  obtain ⟨u, rfl⟩ := isUnit_of_mul_isUnit_left hu
  refine mem_squares.mpr ⟨u, Units.ext ?_⟩
  rw [Units.val_pow_eq_pow_val, ZMod.coe_unitOfCoprime, hy', sq]

theorem powMod_eq_one_iff {n : Nat} (hn : 1 < n) (s e : Nat) :
    powMod s e n = 1 ↔ (s : ZMod n) ^ e = 1 := by
  rw [powMod_eq]
  constructor
  · intro h
    have h' : ((s ^ e % n : Nat) : ZMod n) = ((1 : Nat) : ZMod n) := by rw [h]
    rw [ZMod.natCast_mod] at h'
    exact_mod_cast h'
  · intro h
    have h' : ((s ^ e : Nat) : ZMod n) = ((1 : Nat) : ZMod n) := by push_cast; exact h
    rw [ZMod.natCast_eq_natCast_iff'] at h'
    rw [h', Nat.mod_eq_of_lt hn]

theorem unitOfCoprime_pow_eq_one_iff {n : Nat} (hn : 1 < n) (s e : Nat) (hc : Nat.Coprime s n) :
    ZMod.unitOfCoprime s hc ^ e = 1 ↔ powMod s e n = 1 := by
  rw [powMod_eq_one_iff hn, Units.ext_iff, Units.val_pow_eq_pow_val, ZMod.coe_unitOfCoprime,
    Units.val_one]

theorem unitOfCoprime_eq_one_iff {n : Nat} (s : Nat) (hc : Nat.Coprime s n) :
    ZMod.unitOfCoprime s hc = 1 ↔ s % n = 1 % n := by
  rw [Units.ext_iff, ZMod.coe_unitOfCoprime, Units.val_one]
  have : (1 : ZMod n) = ((1 : Nat) : ZMod n) := by simp
  rw [this, ZMod.natCast_eq_natCast_iff']

/-- `qrOrder` is `ordOf` of the unit. -/
theorem qrOrder_eq_ordOf {n : Nat} (hn : 1 < n) (pP qP s : Nat) (hc : Nat.Coprime s n) :
    qrOrder n pP qP s = ordOf pP qP (ZMod.unitOfCoprime s hc) := by
  classical
  unfold qrOrder ordOf
  simp only [unitOfCoprime_eq_one_iff, unitOfCoprime_pow_eq_one_iff hn]

/-- equality of units `x = s^k` read back on the representatives. -/
theorem eq_powMod_of_unit_eq {n s x k : Nat} (hn : 1 < n) (cS : Nat.Coprime s n)
    (cX : Nat.Coprime x n) (hxlt : x < n)
    (hk : ZMod.unitOfCoprime x cX = ZMod.unitOfCoprime s cS ^ k) : x = powMod s k n := by
  have hv := congrArg Units.val hk
  rw [Units.val_pow_eq_pow_val, ZMod.coe_unitOfCoprime, ZMod.coe_unitOfCoprime,
    ← powMod_cast_zmod, ZMod.natCast_eq_natCast_iff'] at hv
  have hlt : powMod s k n < n := by
    rw [powMod_eq]; exact Nat.mod_lt _ (by omega)
  rwa [Nat.mod_eq_of_lt hxlt, Nat.mod_eq_of_lt hlt] at hv

/-- **Soundness of the executable order criterion.** `p = 2p'+1`, `q = 2q'+1`, all four prime,
    `p ≠ q`; `s` passes `isQR`; `x` passes `inSubgroup … s`. Then `x = s^k mod p·q` for some `k`. -/
theorem inSubgroup_sound (p q pP qP s x : Nat) (hp : p.Prime) (hq : q.Prime) (hpP : pP.Prime)
    (hqP : qP.Prime) (ep : p = 2 * pP + 1) (eq : q = 2 * qP + 1) (hne : p ≠ q)
    (hs : isQR p q s = true) (h : inSubgroup p q pP qP s x = true) :
    ∃ k : Nat, x = powMod s k (p * q) := by
  have := Fact.mk hp
  have := Fact.mk hq
  have hp2 : p ≠ 2 := by have := hpP.two_le; omega
  have hq2 : q ≠ 2 := by have := hqP.two_le; omega
  simp only [inSubgroup, Bool.and_eq_true, beq_iff_eq] at h
  obtain ⟨hxqr, hpow⟩ := h
  obtain ⟨sS, cS, _, _⟩ := isQR_sound p q s hp2 hq2 hne hs
  obtain ⟨sX, cX, _, hxlt⟩ := isQR_sound p q x hp2 hq2 hne hxqr
  have hn : 1 < p * q := by
    have := hp.two_le; have := hq.two_le; nlinarith
  have hS := unitOfCoprime_mem_squares cS sS
  have hX := unitOfCoprime_mem_squares cX sX
  have hxd : ZMod.unitOfCoprime x cX ^ ordOf pP qP (ZMod.unitOfCoprime s cS) = 1 := by
    rw [← qrOrder_eq_ordOf hn pP qP s cS, unitOfCoprime_pow_eq_one_iff hn]
    rw [Nat.mod_eq_of_lt hn] at hpow
    exact hpow
  obtain ⟨k, hk⟩ := order_criterion_units hp hq hpP hqP ep eq hne _ _ hS hX hxd
  exact ⟨k, eq_powMod_of_unit_eq hn cS cX hxlt hk⟩

/-- the generator case at the level of the model: `s` passes `isQR` and `s^p' ≢ 1`, `s^q' ≢ 1`
    modulo `n`; then every `x` passing `isQR` is `s^k mod n` for some `k`. -/
theorem generator_sound (p q pP qP s : Nat) (hp : p.Prime) (hq : q.Prime) (hpP : pP.Prime)
    (hqP : qP.Prime) (ep : p = 2 * pP + 1) (eq : q = 2 * qP + 1) (hne : p ≠ q)
    (hs : isQR p q s = true) (h1 : powMod s pP (p * q) ≠ 1) (h2 : powMod s qP (p * q) ≠ 1)
    (x : Nat) (hx : isQR p q x = true) : ∃ k : Nat, x = powMod s k (p * q) := by
  have := Fact.mk hp
  have := Fact.mk hq
  have hp2 : p ≠ 2 := by have := hpP.two_le; omega
  have hq2 : q ≠ 2 := by have := hqP.two_le; omega
  obtain ⟨sS, cS, _, _⟩ := isQR_sound p q s hp2 hq2 hne hs
  obtain ⟨sX, cX, _, hxlt⟩ := isQR_sound p q x hp2 hq2 hne hx
  have hn : 1 < p * q := by
    have := hp.two_le; have := hq.two_le; nlinarith
  have hS := unitOfCoprime_mem_squares cS sS
  have hX := unitOfCoprime_mem_squares cX sX
  obtain ⟨_, hall⟩ := generator_criterion_units hp hq hpP hqP ep eq hne _ hS
    (fun h => h1 ((unitOfCoprime_pow_eq_one_iff hn s pP cS).mp h))
    (fun h => h2 ((unitOfCoprime_pow_eq_one_iff hn s qP cS).mp h))
  obtain ⟨k, hk⟩ := hall _ hX
  exact ⟨k, eq_powMod_of_unit_eq hn cS cX hxlt hk⟩

/-- a list of powers of `s` is the image of a list of exponents. -/
theorem exists_exponents (n s : Nat) (l : List Nat) (h : ∀ b ∈ l, ∃ k : Nat, b = powMod s k n) :
    ∃ xs : List Nat, l = xs.map (fun x => powMod s x n) := by
  induction l with
  | nil => exact ⟨[], rfl⟩
  | cons b t ih =>
    obtain ⟨k, hk⟩ := h b List.mem_cons_self
    obtain ⟨xs, hxs⟩ := ih (fun c hc => h c (List.mem_cons_of_mem _ hc))
    exact ⟨k :: xs, by rw [List.map_cons, ← hk, ← hxs]⟩

/-- what `wellFormed` gives for the subgroup checks: with `p, q, p', q'` prime, `Z` and every `R_i`
    are `S^k mod n`. -/
theorem wellFormed_bases (d : KeyPairData) (h : wellFormed d = true) (hp : d.p.Prime)
    (hq : d.q.Prime) (hp' : d.pPrime.Prime) (hq' : d.qPrime.Prime) :
    (∃ k : Nat, d.z = powMod d.s k d.n) ∧ ∀ b ∈ d.r, ∃ k : Nat, b = powMod d.s k d.n := by
  rw [wellFormed_iff] at h
  simp only [checks, List.forall_mem_cons, List.not_mem_nil, false_imp_iff, implies_true, and_true,
    Bool.and_eq_true, beq_iff_eq, bne_iff_ne, ne_eq, List.all_eq_true] at h
  obtain ⟨h1, h2, h3, ⟨h4a, h4b⟩, _, ⟨h6a, _⟩, _, _, _, _, _, h12, _, _, _, _, h17, h18, _⟩ := h
  have ep : d.p = 2 * d.pPrime + 1 := by
    simp only [safePrimeOk, Bool.and_eq_true, decide_eq_true_eq] at h2
    rcases hp.eq_two_or_odd with e | e <;> omega
  have eq : d.q = 2 * d.qPrime + 1 := by
    simp only [safePrimeOk, Bool.and_eq_true, decide_eq_true_eq] at h3
    rcases hq.eq_two_or_odd with e | e <;> omega
  rw [h6a]
  exact ⟨inSubgroup_sound _ _ _ _ _ _ hp hq hp' hq' ep eq h1 h12 h17,
    fun b hb => inSubgroup_sound _ _ _ _ _ _ hp hq hp' hq' ep eq h1 h12 (h18 b hb)⟩

/-! ## a toy key on which `wellFormed` holds (non-vacuity): p = 47, q = 59, p' = 23, q' = 29 -/

namespace Toy

theorem p256_inv_one : P256.inv 1 = 1 := by
  unfold P256.inv
  have hne : goModInverse ((1 : Nat) : Int) ((P256.p : Nat) : Int) ≠ none := by
    rw [Ne, goModInverse_none_iff _ _ (by decide)]
    simp
  cases h : goModInverse ((1 : Nat) : Int) ((P256.p : Nat) : Int) with
  | none => exact absurd h hne
  | some i =>
    obtain ⟨h0, h1, h2⟩ := goModInverse_some h
    simp only [Int.natAbs_natCast] at h1 h2
    have hp : (1 : Int) % ((P256.p : Nat) : Int) = 1 := by decide
    rw [hp] at h2
    have : i % ((P256.p : Nat) : Int) = i := Int.emod_eq_of_lt h0 h1
    simp only [Nat.cast_one, one_mul] at h2
    rw [this] at h2
    subst h2; rfl

/-- `1·G = G` on P-256. -/
theorem p256_mul_one_g : P256.mul 1 P256.gx P256.gy = some (P256.gx, P256.gy) := by
  unfold P256.mul
  have hacc : ((List.range (natBitLen 1)).reverse.foldl
    (fun (acc : P256.J) i => let d := P256.double acc
      if Nat.testBit 1 i then P256.addAffine d P256.gx P256.gy else d) P256.J.inf)
      = ⟨P256.gx, P256.gy, 1⟩ := by rfl
  simp only [hacc]
  simp [p256_inv_one]
  decide

def base : Gen.BaseParams := { LePrime := 120, Lh := 256, Lm := 256, Ln := 12, Lstatzk := 80 }

/-- `n = 47·59 = 2773` (12 bits), `S = 4` (order 667 = 23·29), `Z = 4^5`, `R = [4^3, 4^7 mod n]`,
    `G = 9`, `H = 25`, revocation key `d = 1`, `Q = G`. -/
def key : KeyPairData :=
  { ln := 12, nattr := 2, base := base, params := SysParams.ofBase base,
    p := 47, q := 59, pPrime := 23, qPrime := 29, skN := 2773, order := 667, n := 2773,
    s := 4, z := 1024, g := 9, h := 25, r := [64, 2519],
    ecD := 1, ecX := P256.gx, ecY := P256.gy, leaked := 0 }

theorem isQR_toy (x : Nat) (h0 : 0 < x) (hlt : x < 47 * 59)
    (h1 : jacobiSym (x : Int) 47 = 1) (h2 : jacobiSym (x : Int) 59 = 1) : isQR 47 59 x = true := by
  have e1 : legendreSymbol ((x : Nat) : Int) ((47 : Nat) : Int) = 1 := by
    rw [legendreSymbol_eq_jacobiSym _ 47 (by norm_num)]; exact h1
  have e2 : legendreSymbol ((x : Nat) : Int) ((59 : Nat) : Int) = 1 := by
    rw [legendreSymbol_eq_jacobiSym _ 59 (by norm_num)]; exact h2
  simp only [isQR, Bool.and_eq_true, beq_iff_eq, decide_eq_true_eq]
  exact ⟨⟨⟨h0, hlt⟩, by exact_mod_cast e1⟩, by exact_mod_cast e2⟩

theorem isQR_4 : isQR 47 59 4 = true :=
  isQR_toy 4 (by norm_num) (by norm_num) (by norm_num) (by norm_num)

/-- `S = 4` has full order: `4^23 ≢ 1`, `4^29 ≢ 1`. -/
theorem qrOrder_toy : qrOrder (47 * 59) 23 29 4 = 667 := by
  simp only [qrOrder, powMod_eq]; decide

theorem inSubgroup_toy (x : Nat) (hx : isQR 47 59 x = true) (h : x ^ 667 % 2773 = 1) :
    inSubgroup 47 59 23 29 4 x = true := by
  simp only [inSubgroup, Bool.and_eq_true, beq_iff_eq, hx, qrOrder_toy, powMod_eq, true_and]
  rw [h]

set_option exponentiation.threshold 700 in
theorem inSubgroup_1024 : inSubgroup 47 59 23 29 4 1024 = true :=
  inSubgroup_toy 1024 (isQR_toy _ (by norm_num) (by norm_num) (by norm_num) (by norm_num)) (by decide)

set_option exponentiation.threshold 700 in
theorem key_wellFormed : wellFormed key = true := by
  have q4 := isQR_4
  have q1024 : isQR 47 59 1024 = true :=
    isQR_toy _ (by norm_num) (by norm_num) (by norm_num) (by norm_num)
  have q64 : isQR 47 59 64 = true :=
    isQR_toy _ (by norm_num) (by norm_num) (by norm_num) (by norm_num)
  have q2519 : isQR 47 59 2519 = true :=
    isQR_toy _ (by norm_num) (by norm_num) (by norm_num) (by norm_num)
  have q9 : isQR 47 59 9 = true :=
    isQR_toy _ (by norm_num) (by norm_num) (by norm_num) (by norm_num)
  have q25 : isQR 47 59 25 = true :=
    isQR_toy _ (by norm_num) (by norm_num) (by norm_num) (by norm_num)
  have s1 := inSubgroup_1024
  have s2 := inSubgroup_toy 64 q64 (by decide)
  have s3 := inSubgroup_toy 2519 q2519 (by decide)
  have km : P256.keyMatches 1 P256.gx P256.gy = true := by
    simp only [P256.keyMatches, p256_mul_one_g, Bool.and_eq_true, beq_self_eq_true, and_true]
    decide
  rw [wellFormed_iff]
  simp only [checks, key, List.forall_mem_cons, List.not_mem_nil, false_imp_iff, implies_true,
    and_true, List.all_cons, List.all_nil, Bool.and_true, q4, q1024, q64, q2519, q9, q25, s1, s2,
    s3, km]
  decide

end Toy

end Gabi.QrCyclic
